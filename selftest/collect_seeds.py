#!/usr/bin/env python3
"""Copy confirmed red-team changes from /tmp/seed-out into /verif/seeded/<id>/ (patch.diff, demo/, RUN.txt, meta.json)."""
import json, os, shutil, glob
ROOT = os.path.dirname(os.path.dirname(os.path.abspath(__file__)))
for d in sorted(glob.glob("/tmp/seed*-out/C*/C*-*")):
    rp = os.path.join(d, "result.json")
    if not os.path.exists(rp):
        continue
    res = json.load(open(rp))
    if not (res.get("demo_clean_rc") == 0 and res.get("demo_patched_rc") not in (0, None) and res.get("existing_tests_rc") == 0):
        print("not confirmed:", d, {k: res.get(k) for k in ("demo_clean_rc", "demo_patched_rc", "existing_tests_rc")})
        continue
    sid = os.path.basename(d)
    dst = os.path.join(ROOT, "seeded", sid)
    os.makedirs(dst, exist_ok=True)
    shutil.copy(os.path.join(d, "patch.diff"), dst)
    shutil.copy(os.path.join(d, "RUN.txt"), dst)
    if os.path.isdir(os.path.join(dst, "demo")):
        shutil.rmtree(os.path.join(dst, "demo"))
    shutil.copytree(os.path.join(d, "demo"), os.path.join(dst, "demo"))
    meta = json.load(open(os.path.join(d, "meta.json")))
    old = {}
    if os.path.exists(os.path.join(dst, "meta.json")):
        old = json.load(open(os.path.join(dst, "meta.json")))
    meta["breaks_property"] = meta.get("property")
    meta["confirmed"] = {"demo_on_clean_tree": "passes", "demo_with_patch": "fails", "existing_tests_with_patch": "pass",
                         "how": "selftest/confirm_seed.py in a scratch worktree of /repo (commands parsed from RUN.txt)"}
    runs = old.get("check_runs", {})
    for c, v in res.get("checks", {}).items():
        if c in runs:
            continue        # outcomes already in meta.json come from a later sweep (selftest/sweep.py)
        runs[c] = {"exit": v["exit"], "tier": v.get("tier", "quick"), "summary": [l for l in v["lines"] if "signature" in l or l.startswith("INCONCLUSIVE")][:3]}
    meta["check_runs"] = runs
    json.dump(meta, open(os.path.join(dst, "meta.json"), "w"), indent=1)
    print(sid, {c: v["exit"] for c, v in runs.items()})
