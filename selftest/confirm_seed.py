#!/usr/bin/env python3
"""Confirm one red-team change independently, then run our checks against it.

  selftest/confirm_seed.py /tmp/seed-out/C09/C09-a [--checks C09,C20] [--tier quick]

1. in the scratch worktree /tmp/wt-<prop>: the demonstration passes on the clean
   tree, fails with patch.diff applied, and the existing tests of the touched
   packages still pass with the patch (commands parsed from RUN.txt);
2. applies the patch to a scratch copy of /repo's working tree and runs the
   listed checks with VERIF_REPO pointing at it;
3. writes result.json next to the patch."""
import json
import os
import re
import shutil
import subprocess
import sys
import tempfile

ENV = dict(os.environ, GOFLAGS="-mod=mod", GOPROXY="off", GOSUMDB="off", GOTOOLCHAIN="local")
VERIF = os.path.dirname(os.path.dirname(os.path.abspath(__file__)))


def sh(cmd, cwd=None, timeout=1800, env=None):
    p = subprocess.run(cmd, shell=True, cwd=cwd, env=env or ENV, stdout=subprocess.PIPE, stderr=subprocess.STDOUT, timeout=timeout)
    return p.returncode, p.stdout.decode("utf-8", "replace")


def main():
    d = os.path.abspath(sys.argv[1])
    args = sys.argv[2:]
    checks = None
    tier = "quick"
    skip_demo = "--skip-demo" in args
    update_meta = "--update-meta" in args     # for /verif/seeded/<id>: merge the outcome into meta.json's check_runs
    for i, a in enumerate(args):
        if a == "--checks":
            checks = args[i + 1].split(",")
        if a == "--tier":
            tier = args[i + 1]
    meta = json.load(open(os.path.join(d, "meta.json")))
    prop = meta["property"]
    checks = checks or [prop]
    wt = ("/tmp/wt4-" if "/seed4-out/" in d else "/tmp/wt3-" if "/seed3-out/" in d else "/tmp/wt2-" if "/seed2-out/" in d else "/tmp/wt-") + prop
    run_txt = open(os.path.join(d, "RUN.txt")).read() + "\n" + meta.get("demo_cmd", "")
    res = {"dir": d, "property": prop, "title": meta.get("title")}
    old_res = {}
    if os.path.exists(os.path.join(d, "result.json")):
        old_res = json.load(open(os.path.join(d, "result.json")))
    if skip_demo:
        for k in ("demo_copies", "demo_tests", "demo_clean_rc", "demo_patched_rc", "apply_rc", "demo_patched_tail", "existing_tests_rc", "existing_tests_tail"):
            if k in old_res:
                res[k] = old_res[k]
    if os.path.isdir(wt) and not skip_demo:
        sh("git checkout -- . && git clean -fdq", cwd=wt)
        # demo files and where they go
        copies = []
        for m in re.finditer(r"cp\s+(-r\s+)?(\S*demo/\S+)\s+(\S+)", run_txt):
            src, dst = m.group(2), m.group(3)
            if not src.startswith("/"):
                src = os.path.join(d, src)
            if not dst.startswith("/"):
                dst = os.path.join(wt, dst)
            if (src, dst) not in copies:
                copies.append((src, dst))
        tests = []
        for m in re.finditer(r"(go(?:1\.26\.8)? test[^\n#&|;]*-run[^\n#&|;]*)", run_txt):
            t = re.sub(r"\s+[12]?>\s*\S*\s*$", "", m.group(1).strip().rstrip(")").strip())
            if t not in tests:
                tests.append(t)
        godebug = "GODEBUG=asynctimerchan=0 " if "asynctimerchan" in run_txt else ""
        res["demo_copies"], res["demo_tests"] = copies, tests[:2]
        if not copies or not tests:
            res["demo"] = "cannot parse RUN.txt"
        else:
            def place():
                for src, dst in copies:
                    sh("cp -r %s %s" % (src, dst))
            place()
            rc0, out0 = sh(godebug + tests[0], cwd=wt)
            sh("git checkout -- . && git clean -fdq", cwd=wt)
            rc_apply, out_apply = sh("git apply %s" % os.path.join(d, "patch.diff"), cwd=wt)
            place()
            rc1, out1 = sh(godebug + tests[0], cwd=wt)
            res["demo_clean_rc"], res["demo_patched_rc"], res["apply_rc"] = rc0, rc1, rc_apply
            res["demo_patched_tail"] = out1[-600:]
            if rc0 != 0:
                res["demo_clean_tail"] = out0[-600:]
            # existing tests of touched packages with the patch, without the demo files
            sh("git checkout -- . && git clean -fdq", cwd=wt)
            sh("git apply %s" % os.path.join(d, "patch.diff"), cwd=wt)
            pkgs = sorted(set("./" + os.path.dirname(f) for f in meta.get("files", []) if f.endswith(".go")))
            rc2, out2 = sh("go build -ldflags=-checklinkname=0 ./... ; go test -vet=off -count=1 -ldflags=-checklinkname=0 %s" % " ".join(pkgs), cwd=wt)
            res["existing_tests_rc"], res["existing_tests_tail"] = rc2, out2[-400:]
            sh("git checkout -- . && git clean -fdq", cwd=wt)
    # our checks against the change
    tmp = tempfile.mkdtemp(prefix="seedrun-")
    try:
        repo = os.path.join(tmp, "repo")
        shutil.copytree("/repo", repo, ignore=shutil.ignore_patterns(".git"))
        rc, out = sh("patch -p1 --no-backup-if-mismatch < %s" % os.path.join(d, "patch.diff"), cwd=repo)
        if rc != 0 and os.path.exists(os.path.join(d, "patch.rebased.diff")):
            # the change was rebased by hand after later fix: commits touched the same lines
            shutil.rmtree(repo)
            shutil.copytree("/repo", repo, ignore=shutil.ignore_patterns(".git"))
            rc, out = sh("patch -p1 --no-backup-if-mismatch < %s" % os.path.join(d, "patch.rebased.diff"), cwd=repo)
        res["patch_applies_to_repo"] = rc == 0
        if rc != 0:
            res["patch_out"] = out[-500:]
        res["checks"] = {}
        for c in checks:
            env = dict(os.environ, VERIF_REPO=repo, VERIF_EVIDENCE_DIR=os.path.join(tmp, "ev"), VERIF_REPLAY_DIR=os.path.join(tmp, "rp"))
            rc, out = sh("%s %s --tier %s" % (os.path.join(VERIF, "bin", "check"), c, tier), env=env, timeout=3600)
            lines = [l for l in out.splitlines() if l.startswith(("VIOLATION", "  signature", "INCONCLUSIVE", "KNOWN")) or l.startswith("[%s]" % c)]
            res["checks"][c] = {"exit": rc, "tier": tier, "lines": [l[:300] for l in lines[-8:]]}
        for c, v in old_res.get("checks", {}).items():   # keep earlier runs of other checks
            res["checks"].setdefault(c, v)
    finally:
        shutil.rmtree(tmp, ignore_errors=True)
    if update_meta:
        runs = meta.setdefault("check_runs", {})
        for c, v in res.get("checks", {}).items():
            if c in checks:
                runs[c] = {"exit": v["exit"], "tier": v.get("tier", "quick"),
                           "summary": [l for l in v["lines"] if "signature" in l or l.startswith("INCONCLUSIVE")][:3]}
        if not res.get("patch_applies_to_repo"):
            meta["patch_applies_to_current_repo"] = False
        with open(os.path.join(d, "meta.json"), "w") as fh:
            json.dump(meta, fh, indent=1)
    else:
        with open(os.path.join(d, "result.json"), "w") as fh:
            json.dump(res, fh, indent=1)
    short = {k: res.get(k) for k in ("demo_clean_rc", "demo_patched_rc", "existing_tests_rc", "patch_applies_to_repo")}
    print(os.path.basename(d), short, {c: v["exit"] for c, v in res.get("checks", {}).items()})


main()
