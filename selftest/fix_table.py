#!/usr/bin/env python3
"""Regenerate the table of repaired defects in DESIGN.md (between the markers
<!-- fix-table:begin --> and <!-- fix-table:end -->) from known_findings.json
and the `fix:` commits of /repo.  Documentation only; no check reads it."""
import json
import os
import re
import subprocess

VERIF = os.path.dirname(os.path.dirname(os.path.abspath(__file__)))


def main():
    k = json.load(open(os.path.join(VERIF, "known_findings.json")))
    by_commit = {}
    for e in k["findings"]:
        if e.get("status") != "fixed":
            continue
        for c in re.split(r"[,\s/]+", e.get("commit", "")):
            if c:
                by_commit.setdefault(c[:7], []).append(e)
    log = subprocess.check_output(["git", "-C", "/repo", "log", "--reverse", "--format=%h %s"]).decode().splitlines()
    rows = []
    n = 0
    for line in log:
        h, subj = line.split(" ", 1)
        if not subj.startswith("fix:"):
            continue
        n += 1
        ents = by_commit.get(h[:7], [])
        props = sorted(set(e["property"] for e in ents)) or ["-"]
        keys = sorted(set(e["key"] for e in ents))
        subj = subj[4:].strip().replace("|", "\\|")
        if len(subj) > 230:
            subj = subj[:227] + "..."
        rows.append("| %d | %s | %s | %s | %s |" % (n, ", ".join(props), h[:7], subj, "; ".join("`%s`" % x.replace("|", "\\|") for x in keys[:2]) or "(reported under another entry)"))
    table = ["| # | property | fix commit | what was repaired (commit subject) | signature(s) in known_findings.json |",
             "|---|----------|-----------|-------------------------------------|--------------------------------------|"] + rows
    open_entries = [e for e in k["findings"] if e.get("status") != "fixed"]
    text = "\n".join(table) + "\n\n%d `fix:` commits; %d fixed entries and %d open entries in `known_findings.json`.\n" % (n, sum(len(v) for v in by_commit.values()), len(open_entries))
    p = os.path.join(VERIF, "DESIGN.md")
    s = open(p).read()
    b, e = "<!-- fix-table:begin -->", "<!-- fix-table:end -->"
    if b not in s or e not in s:
        raise SystemExit("markers not found in DESIGN.md")
    s = s[:s.index(b) + len(b)] + "\n" + text + s[s.index(e):]
    open(p, "w").write(s)
    print("%d fix commits" % n)


main()
