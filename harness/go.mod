module verifharness

go 1.21

require git.torproject.org/pluggable-transports/snowflake.git/v2 v2.0.0

replace git.torproject.org/pluggable-transports/snowflake.git/v2 => /repo
