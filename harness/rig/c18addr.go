package rig

// C18: the address of an accepted connection is fixed when its session is
// established.  With Scenario.AddrReads the rig reads RemoteAddr() of every
// accepted connection again at later moments and records each read as an
// app.addr event (the verdict is TLC's: ServerMux_Trace compares every read
// with sessAddr, the address looked up at session establishment):
//
//	when = "attached"      right after a later carrier presenting the same ClientID attached
//	       "end"           when the session's streams are complete (the first carrier may be long gone)
//	       "probe"         after a throw-away carrier presented the ClientID with another / no / an invalid client_ip
//	       "later-stream"  RemoteAddr() of the connection accepted for a further smux stream of the session
//	       "evicted"       after Scenario.FloodAfter other ClientIDs attached (pressure on the bounded memory)
//
// Everything lives here so that core.go only calls into it.

import (
	"fmt"
	"net"
	"sync"
	"sync/atomic"
	"time"

	"git.torproject.org/pluggable-transports/snowflake.git/v2/common/turbotunnel"
)

type addrSt struct {
	conn    atomic.Value // connBox: the first connection accepted for the session
	expect2 int32        // a later stream is being opened on purpose
	got2    int32        // connections accepted for such streams
}

type connBox struct{ c net.Conn }

var addrStates sync.Map // *session -> *addrSt

func addrStateOf(s *session, create bool) *addrSt {
	if create {
		v, _ := addrStates.LoadOrStore(s, &addrSt{})
		return v.(*addrSt)
	}
	if v, ok := addrStates.Load(s); ok {
		return v.(*addrSt)
	}
	return nil
}

// noteAccepted is called by serveConn for every connection Accept returned
// for the session (n = how many so far).  It reports true when the connection
// belongs to a stream the epilogue opened on purpose: recorded as a later read
// of the session's address, not as a second accept.
func (s *session) noteAccepted(conn net.Conn, n int32) bool {
	if !s.sc.sc.AddrReads {
		return false
	}
	st := addrStateOf(s, true)
	if n == 1 {
		st.conn.Store(connBox{conn})
		return false
	}
	if atomic.LoadInt32(&st.expect2) != 0 {
		s.sc.rec.Struct("app.addr", "s", s.idx, "id", fmt.Sprintf("S%d", s.idx), "addr", addrString(conn.RemoteAddr()), "when", "later-stream", "nth", int(n))
		atomic.AddInt32(&st.got2, 1)
		conn.Close()
		return true
	}
	return false
}

// readAddr records what RemoteAddr() of the session's accepted connection says now.
func (s *session) readAddr(when string) {
	st := addrStateOf(s, false)
	if st == nil {
		return
	}
	b, ok := st.conn.Load().(connBox)
	if !ok {
		return
	}
	s.sc.rec.Struct("app.addr", "s", s.idx, "id", fmt.Sprintf("S%d", s.idx), "addr", addrString(b.c.RemoteAddr()), "when", when, "nth", 1)
}

// addrReadAfterAttach: a carrier presenting id has just been attached (Set returned).
func (r *Rig) addrReadAfterAttach(id turbotunnel.ClientID, rec *Recorder) {
	if _, s := r.idName(id, rec); s != nil && s.sc.rec == rec && s.sc.sc.AddrReads {
		s.readAddr("attached")
	}
}

// laterStream opens one more smux stream on the session and waits until the
// server's Accept returned it (recorded by noteAccepted).
func (s *session) laterStream() {
	st := addrStateOf(s, false)
	if st == nil || s.smx == nil {
		return
	}
	before := atomic.LoadInt32(&st.got2)
	atomic.StoreInt32(&st.expect2, 1)
	stream, err := s.smx.OpenStream()
	if err != nil {
		s.sc.rec.Note("address epilogue: OpenStream: %v", err)
		return
	}
	stream.Write([]byte{0x5a})
	deadline := time.Now().Add(5 * time.Second)
	for atomic.LoadInt32(&st.got2) == before && time.Now().Before(deadline) {
		time.Sleep(2 * time.Millisecond)
	}
	if atomic.LoadInt32(&st.got2) == before {
		s.sc.rec.Note("address epilogue: the later stream of session %d was not accepted within 5 s", s.idx)
	}
	stream.Close()
}

// addrEpilogue runs when every stream of the scenario is complete.
func (sr *scenarioRun) addrEpilogue() {
	if !sr.sc.AddrReads {
		return
	}
	probes := []*string{strp("198.51.100.200"), nil, strp("not-an-ip"), strp("2001:db8::5"), strp("0.0.0.0"), strp("")}
	for _, s := range sr.sess {
		st := addrStateOf(s, false)
		if s.plan.Bad != "" || st == nil {
			continue
		}
		if _, ok := st.conn.Load().(connBox); !ok {
			continue
		}
		s.readAddr("end")
		// later carriers of the same ClientID with a different, an absent and an invalid client_ip
		first := int(sr.rng.Uint64() % 2)
		for j := 0; j < 3; j++ {
			ip := probes[(first*3+j)%len(probes)]
			var wg sync.WaitGroup
			wg.Add(1)
			sr.runExtra(CarrierPlan{IP: ip, Pres: "id", Other: s.idx, HoldMs: 60}, &wg)
			s.readAddr("probe")
		}
		s.laterStream()
		if sr.sc.FloodAfter > 0 {
			n := sr.flood(sr.sc.FloodAfter)
			sr.rec.Struct("srv.flood", "n", n)
			s.readAddr("evicted")
			s.laterStream()
		}
		s.readAddr("end")
	}
	for _, s := range sr.sess {
		addrStates.Delete(s)
	}
}

func strp(s string) *string { return &s }
