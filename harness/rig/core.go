//go:build verif

package rig

import (
	"context"
	"encoding/binary"
	"encoding/hex"
	"errors"
	"fmt"
	"io"
	"net"
	"net/url"
	"sync"
	"sync/atomic"
	"time"

	"git.torproject.org/pluggable-transports/snowflake.git/v2/common/encapsulation"
	"git.torproject.org/pluggable-transports/snowflake.git/v2/common/turbotunnel"
	"git.torproject.org/pluggable-transports/snowflake.git/v2/common/websocketconn"
	sfserver "git.torproject.org/pluggable-transports/snowflake.git/v2/server/lib"
	"github.com/gorilla/websocket"
	"github.com/xtaci/kcp-go/v5"
	"github.com/xtaci/smux"
	"verifharness/vh"
)

// ---------------------------------------------------------------------------
// Scenario description (produced by lib/checks from TLC behaviours).

// CarrierPlan is one carrier of a session's redial sequence, or an extra one.
type CarrierPlan struct {
	Label  string  `json:"label"`            // name in the global order
	IP     *string `json:"ip"`               // client_ip query value; null = parameter absent
	Pres   string  `json:"pres"`             // "id" | "noToken" | "short" | "tokonly" | "pre"
	Fault  *Fault  `json:"fault,omitempty"`  // what the forwarder does to it
	Refuse int     `json:"refuse,omitempty"` // the forwarder resets this many dial attempts first
	HoldMs int     `json:"hold_ms,omitempty"` // extras: how long the client end stays
	DelayMs int    `json:"delay_ms,omitempty"` // the pool is empty for so long before this carrier can be had
	GapClass string `json:"gap_class,omitempty"` // the model's class of the gap before this carrier (documentation)
	Flood   int    `json:"flood,omitempty"`    // after this carrier's preamble and before its first packet, so many other carriers attach (each with its own ClientID)
	Other  int     `json:"other,omitempty"`  // extras with Pres "id": present the ClientID of this session (index)
}

type ReadStall struct {
	Dir string `json:"dir"`
	At  int64  `json:"at"`
	Ms  int    `json:"ms"`
}

type SessionPlan struct {
	Up       int64         `json:"up"`
	Down     int64         `json:"down"`
	Bad      string        `json:"bad,omitempty"` // every carrier presents this instead of the token: session must never be accepted
	Carriers []CarrierPlan `json:"carriers"`
	DelayMs  int           `json:"delay_ms,omitempty"`
	// ResumeAfterMs > 0: both writers stop after the first half of their stream
	// and go on so long after the scenario started (the session is silent in
	// between, e.g. across a planned gap without any carrier).
	ResumeAfterMs int `json:"resume_after_ms,omitempty"`
	// ReadStalls: the application that READS the given direction ("down": behind
	// the client, "up": behind the server) stops reading for Ms once it has read
	// At bytes, then goes on (Tunnel: ReaderStalls / ReaderResumes).
	ReadStalls []ReadStall `json:"read_stalls,omitempty"`
}

type Scenario struct {
	Name     string        `json:"name"`
	Seed     uint64        `json:"seed"`
	Sessions []SessionPlan `json:"sessions"`
	Extras   []CarrierPlan `json:"extras,omitempty"` // carriers outside any redial loop (Other = session whose id they present)
	Order    []string      `json:"order,omitempty"`  // labels in the order in which the carriers are opened
	BoundMs  int           `json:"bound_ms,omitempty"`
	StaleMs  int           `json:"stale_ms,omitempty"`
	// IDShape is the byte pattern of the sessions' ClientIDs (a modelled input
	// class of spec/ServerMux_Gen): "random", "lastbyte" (equal but for the last
	// byte = shared 7-byte prefix), "firstbyte" (equal but for the first byte),
	// "prefix4" (shared 4-byte prefix), "zeroff" (all-zero and all-0xff).
	// ConvEqual gives all sessions of the scenario the same KCP conversation id
	// (the client chooses it, so nothing excludes it).
	IDShape   string `json:"id_shape,omitempty"`
	ConvEqual bool   `json:"conv_equal,omitempty"`
	Origin   interface{}   `json:"origin,omitempty"` // the TLC behaviour this was made from (kept for replay files)
	// C18 (c18addr.go): RemoteAddr() of every accepted connection is read again at later
	// moments; FloodAfter: so many other ClientIDs attach after the session is up.
	AddrReads  bool `json:"addr_reads,omitempty"`
	FloodAfter int  `json:"flood_after,omitempty"`
}

// Result is what the driver reports for one scenario; the verdict is TLC's.
type Result struct {
	Name    string   `json:"name"`
	Done    bool     `json:"done"`    // every stream completed within the bound
	Stalled bool     `json:"stalled"` // bound exceeded after the last fault
	WallMs  int      `json:"wall_ms"`
	Faults  int      `json:"faults"`   // faults that fired
	Planned int      `json:"planned"`  // faults planned
	Dials   int      `json:"dials"`
	Bytes   int64    `json:"bytes"`
	Notes   []string `json:"notes,omitempty"`
	Events  []Event  `json:"events"`
	State   string   `json:"state,omitempty"` // progress summary when stalled
}

// ---------------------------------------------------------------------------
// The real server, once per process.

type Rig struct {
	Ln      *sfserver.SnowflakeListener
	SrvAddr string
	Fwd     *Forwarder

	byID     sync.Map // turbotunnel.ClientID -> *session
	byConv   sync.Map // uint32 -> *session
	byStream sync.Map // *smux.Stream (net.Conn) -> turbotunnel.ClientID
	byConn   sync.Map // net.Conn inside the server -> *Link
	// packet layer: what each end WROTE towards the carrier, by KCP conversation
	// id (64-bit hashes of whole packets), so that every packet READ at the
	// other end can be looked up: "every packet read is one that the peer wrote"
	wroteUp   sync.Map // uint32 -> *pktSet: packets the client's redial layer wrote (ex.write)
	wroteDown sync.Map // uint32 -> *pktSet: packets the server's handler wrote (srv.out)
	byPConn   sync.Map // net.PacketConn given to RedialPacketConn.exchange -> *session
	Orphans  *Recorder

	Stale time.Duration
	Bound time.Duration
}

// shapeBase makes structured ClientIDs and fixed conversation ids differ
// between processes.
var shapeBase = uint64(time.Now().UnixNano())
var zeroffMu sync.Mutex

type pktSet struct {
	mu sync.Mutex
	m  map[uint64]struct{}
}

func pktHash(p []byte) uint64 {
	h := uint64(14695981039346656037)
	for _, b := range p {
		h ^= uint64(b)
		h *= 1099511628211
	}
	return h ^ uint64(len(p))<<48
}

func pktConv(p []byte) (uint32, bool) {
	if len(p) < 4 {
		return 0, false
	}
	return binary.LittleEndian.Uint32(p), true
}

func pktAdd(m *sync.Map, p []byte) {
	c, ok := pktConv(p)
	if !ok {
		return
	}
	v, _ := m.LoadOrStore(c, &pktSet{m: map[uint64]struct{}{}})
	ps := v.(*pktSet)
	h := pktHash(p)
	ps.mu.Lock()
	ps.m[h] = struct{}{}
	ps.mu.Unlock()
}

func pktKnown(m *sync.Map, p []byte) bool {
	c, ok := pktConv(p)
	if !ok {
		return false
	}
	v, found := m.Load(c)
	if !found {
		return false
	}
	ps := v.(*pktSet)
	h := pktHash(p)
	ps.mu.Lock()
	_, known := ps.m[h]
	ps.mu.Unlock()
	return known
}

// ttHook receives the hook calls of common/turbotunnel: the packets the
// client's redial layer reads from and writes to its current carrier.
func (r *Rig) ttHook(point string, args ...interface{}) {
	switch point {
	case "ex.write":
		pktAdd(&r.wroteUp, args[1].([]byte))
	case "ex.read":
		p := args[1].([]byte)
		var ses *session
		if v, ok := r.byPConn.Load(args[0]); ok {
			ses = v.(*session)
		} else if c, ok := pktConv(p); ok {
			if v, ok := r.byConv.Load(c); ok && v.(*session) != nil {
				ses = v.(*session)
				r.byPConn.Store(args[0], ses)
			}
		}
		known := pktKnown(&r.wroteDown, p)
		if ses == nil {
			if !known {
				r.Orphans.Struct("cli.pkt", "why", "a packet nobody wrote was read from a carrier that has not yet carried any known packet", "len", len(p))
			}
			return
		}
		ses.sc.rec.Run("cli.pkt", fmt.Sprintf("cli.pkt/%d/%v", ses.idx, known), 1, known, "s", ses.idx, "known", known)
		if !known {
			atomic.StoreInt32(&ses.failed, 1) // recorded; the scenario has nothing more to show
		}
	}
}

type dummyAddr struct{}

func (dummyAddr) Network() string { return "dummy" }
func (dummyAddr) String() string  { return "dummy" }

func freePort() (int, error) {
	l, err := net.Listen("tcp", "127.0.0.1:0")
	if err != nil {
		return 0, err
	}
	p := l.Addr().(*net.TCPAddr).Port
	l.Close()
	return p, nil
}

// NewRig starts the real snowflake server (plain HTTP on loopback) with the
// hooks attached, and the forwarder in front of it.
func NewRig() (*Rig, error) {
	r := &Rig{Orphans: NewRecorder(), Stale: 600 * time.Millisecond, Bound: 60 * time.Second}
	sfserver.VerifHook = r.hook
	turbotunnel.VerifHook = r.ttHook
	var ln *sfserver.SnowflakeListener
	var addr *net.TCPAddr
	for try := 0; ; try++ {
		port, err := freePort()
		if err != nil {
			return nil, err
		}
		addr = &net.TCPAddr{IP: net.IPv4(127, 0, 0, 1), Port: port}
		ln, err = sfserver.NewSnowflakeServer(nil).Listen(addr)
		if err == nil {
			// Listen reports bind errors only through the log; probe the port
			c, derr := net.DialTimeout("tcp", addr.String(), 2*time.Second)
			if derr == nil {
				c.Close()
				break
			}
			ln.Close()
			err = derr
		}
		if try > 5 {
			return nil, fmt.Errorf("cannot start server: %v", err)
		}
	}
	r.Ln, r.SrvAddr = ln, addr.String()
	f, err := NewForwarder(r.SrvAddr)
	if err != nil {
		return nil, err
	}
	r.Fwd = f
	go r.acceptLoop()
	return r, nil
}

func addrString(a net.Addr) string {
	if a == nil {
		return "<nil>"
	}
	return a.String()
}

func (r *Rig) linkOf(conn interface{}) *Link {
	if v, ok := r.byConn.Load(conn); ok {
		return v.(*Link)
	}
	nc, ok := conn.(net.Conn)
	if !ok {
		return nil
	}
	l := r.Fwd.LinkOfServerPeer(nc.RemoteAddr().String())
	if l != nil {
		r.byConn.Store(conn, l)
	}
	return l
}

// idName gives the ClientID the name it has in the traces of scenario rec:
// "S<i>" for the i-th session of that scenario, "X<hex>" for anything else.
func (r *Rig) idName(id turbotunnel.ClientID, rec *Recorder) (string, *session) {
	if v, ok := r.byID.Load(id); ok {
		s := v.(*session)
		if rec == nil || s.sc.rec == rec {
			return fmt.Sprintf("S%d", s.idx), s
		}
		return "X" + id.String(), s
	}
	return "X" + id.String(), nil
}

func (r *Rig) convOwner(p []byte, rec *Recorder) int {
	if len(p) < 4 {
		return -1
	}
	if v, ok := r.byConv.Load(binary.LittleEndian.Uint32(p)); ok {
		s := v.(*session)
		if s == nil {
			return -3 // conversation id shared by two sessions (ConvEqual scenarios)
		}
		if s.sc.rec == rec {
			return s.idx
		}
		return -2 // a session of another scenario
	}
	return -1
}

// hook receives the guarded hook calls of server/lib.
func (r *Rig) hook(point string, args ...interface{}) {
	switch point {
	case "srv.attach", "srv.attached", "srv.in", "srv.out", "srv.detach":
		id := args[1].(turbotunnel.ClientID)
		l := r.linkOf(args[0])
		if l == nil {
			r.Orphans.Struct(point, "id", id.String(), "why", "unknown carrier")
			return
		}
		rec := l.Rec
		if ctr, ok := l.Owner.(*int32); ok {
			// a flood carrier: only counted
			if point == "srv.attached" {
				atomic.AddInt32(ctr, 1)
			}
			return
		}
		if own, ok := l.Owner.(*session); ok && own != nil {
			// system rig: the real client chose the ClientID; learn it from the
			// first carrier of the scenario's only session
			if _, loaded := r.byID.LoadOrStore(id, own); !loaded {
				own.cmu.Lock()
				own.id = id
				own.cmu.Unlock()
			}
		}
		name, _ := r.idName(id, rec)
		switch point {
		case "srv.attach", "srv.attached":
			rec.Struct(point, "k", l.K, "id", name, "addr", addrString(args[2].(net.Addr)))
			if point == "srv.attached" {
				r.addrReadAfterAttach(id, rec)
			}
		case "srv.detach":
			rec.Struct(point, "k", l.K, "id", name)
		case "srv.in", "srv.out":
			if os, ok := l.Owner.(*session); ok && os != nil && point == "srv.in" && len(args[2].([]byte)) >= 4 {
				// system rig: learn the KCP conversation id of the session from its first upstream packet
				if atomic.CompareAndSwapInt32(&os.convSet, 0, 1) {
					os.conv = binary.LittleEndian.Uint32(args[2].([]byte))
					r.byConv.Store(os.conv, os)
				}
			}
			if point == "srv.out" {
				pktAdd(&r.wroteDown, args[2].([]byte))
			} else if _, s2 := r.idName(id, rec); s2 != nil {
				known := pktKnown(&r.wroteUp, args[2].([]byte))
				rec.Run("srv.pkt", fmt.Sprintf("srv.pkt/%d/%v", s2.idx, known), 1, known, "s", s2.idx, "known", known)
				if !known {
					atomic.StoreInt32(&s2.failed, 1)
				}
			}
			own := r.convOwner(args[2].([]byte), rec)
			rec.Run(point, fmt.Sprintf("%s/%d/%s/%d", point, l.K, name, own), 1, true, "k", l.K, "id", name, "own", own)
		}
	case "srv.session", "srv.accept", "srv.stream":
		id, ok := args[0].(turbotunnel.ClientID)
		if !ok {
			r.Orphans.Struct(point, "why", "remote address of the KCP session is not a ClientID")
			return
		}
		v, found := r.byID.Load(id)
		if !found {
			r.Orphans.Struct(point, "id", id.String(), "why", "unknown ClientID")
			return
		}
		s := v.(*session)
		name := fmt.Sprintf("S%d", s.idx)
		switch point {
		case "srv.session":
			s.sc.rec.Struct(point, "id", name)
		case "srv.accept":
			var a net.Addr
			if args[1] != nil {
				a = args[1].(net.Addr)
			}
			s.sc.rec.Struct(point, "id", name, "addr", addrString(a), "found", args[2].(bool))
		case "srv.stream":
			r.byStream.Store(args[1], id)
			s.sc.rec.Struct(point, "id", name)
		}
	}
}

func (r *Rig) acceptLoop() {
	for {
		conn, err := r.Ln.Accept()
		if err != nil {
			return
		}
		go r.serveConn(conn)
	}
}

func (r *Rig) serveConn(conn net.Conn) {
	var inner interface{} = conn
	if sc, ok := conn.(*sfserver.SnowflakeClientConn); ok {
		inner = sc.Conn
	}
	v, ok := r.byStream.Load(inner)
	if !ok {
		r.Orphans.Struct("app.accept", "why", "accepted connection of an unknown stream", "addr", addrString(conn.RemoteAddr()))
		conn.Close()
		return
	}
	id := v.(turbotunnel.ClientID)
	sv, ok := r.byID.Load(id)
	if !ok {
		r.Orphans.Struct("app.accept", "why", "accepted connection of an unknown ClientID", "id", id.String())
		conn.Close()
		return
	}
	s := sv.(*session)
	s.cmu.Lock()
	s.streams = append(s.streams, inner)
	s.cmu.Unlock()
	n := atomic.AddInt32(&s.accepts, 1)
	if s.noteAccepted(conn, n) {
		return // a later stream opened on purpose by the address epilogue (c18addr.go)
	}
	s.sc.rec.Struct("app.accept", "s", s.idx, "id", fmt.Sprintf("S%d", s.idx), "addr", addrString(conn.RemoteAddr()), "nth", int(n))
	if n > 1 || s.plan.Bad != "" {
		// a second connection for the session, or one for a session that never
		// presented the token: recorded, not served
		conn.Close()
		return
	}
	s.srvConn = conn
	var wg sync.WaitGroup
	wg.Add(2)
	go func() { defer wg.Done(); s.writeStream(conn, "down", s.plan.Down) }()
	go func() { defer wg.Done(); s.readStream(conn, "up", s.plan.Up) }()
	wg.Wait()
}

// ---------------------------------------------------------------------------
// Scenario execution.

type scenarioRun struct {
	rig   *Rig
	sc    *Scenario
	rec   *Recorder
	rng   *vh.Rng
	sess  []*session
	stale time.Duration

	omu     sync.Mutex
	ocond   *sync.Cond
	opos    int
	oindex  map[string]int
	links   []*Link
	t0      time.Time
	endCh   chan struct{}
	lastFault time.Time
	faults  int32
	dials   int32
	ending  int32
}

type session struct {
	sc   *scenarioRun
	idx  int
	plan *SessionPlan
	id   turbotunnel.ClientID
	key  [2]uint64 // up, down

	next    int // next carrier of the plan
	cur     *carrier
	cmu     sync.Mutex
	pconn   *turbotunnel.RedialPacketConn
	kconn   *kcp.UDPSession
	smx     *smux.Session
	stream  *smux.Stream
	srvConn net.Conn
	accepts int32
	streams []interface{}
	conv    uint32
	convSet int32
	convFixed bool
	kconv   uint32        // conversation id of the client's KCP session (core rig)
	pconns  []interface{} // packet conns handed to the redial layer (core rig)
	failed  int32 // an application read/write returned an error: the scenario cannot complete any more
	paused  int32 // writers in their planned pause

	got    [2]int64 // bytes verified: up (at the server), down (at the client)
	done   [2]int32
	dead   int32
	lastIP *string
}

// carrier is the client end of one WebSocket connection.
type carrier struct {
	k     int
	link  *Link
	ws    *websocket.Conn
	conn  *websocketconn.Conn
	sc    *scenarioRun
	last  int64 // unix nanos of the last receive
	once  sync.Once
	ended chan struct{}
}

func (c *carrier) end(why string) {
	c.once.Do(func() {
		c.sc.rec.Struct("car.end", "k", c.k, "why", why)
		close(c.ended)
		c.conn.Close()
	})
}

func (c *carrier) Read(b []byte) (int, error) {
	n, err := c.conn.Read(b)
	if n > 0 {
		atomic.StoreInt64(&c.last, time.Now().UnixNano())
	}
	return n, err
}
func (c *carrier) Write(b []byte) (int, error) { return c.conn.Write(b) }
func (c *carrier) Close() error                { c.end("closed"); return nil }

// staleness closes the carrier when nothing has been received for the
// staleness time, like WebRTCPeer.checkForStaleness does for a real peer
// (20 s there, scaled down here).
func (c *carrier) staleness(d time.Duration, finished func() bool) {
	atomic.StoreInt64(&c.last, time.Now().UnixNano())
	t := time.NewTicker(d / 8)
	defer t.Stop()
	for {
		select {
		case <-c.ended:
			return
		case <-t.C:
			if time.Since(time.Unix(0, atomic.LoadInt64(&c.last))) > d {
				if finished != nil && finished() {
					// a session that has nothing left to move is legitimately silent
					continue
				}
				c.end("stale")
				return
			}
		}
	}
}

// encapConn is client/lib's (unexported) encapsulationPacketConn: the packet
// framing of common/encapsulation on a stream.
type encapConn struct {
	c *carrier
	r io.Reader
	w io.Writer
	wmu sync.Mutex
}

func (e *encapConn) ReadFrom(p []byte) (int, net.Addr, error) {
	data, err := encapsulation.ReadData(e.c)
	if err != nil {
		return 0, dummyAddr{}, err
	}
	return copy(p, data), dummyAddr{}, nil
}

func (e *encapConn) WriteTo(p []byte, addr net.Addr) (int, error) {
	// one Write per packet, prefix and body together (bufio + Flush in the
	// original)
	buf := make([]byte, 0, len(p)+3)
	bw := sliceWriter{&buf}
	if _, err := encapsulation.WriteData(bw, p); err != nil {
		return 0, err
	}
	if _, err := e.c.Write(buf); err != nil {
		return 0, err
	}
	return len(p), nil
}
func (e *encapConn) Close() error                       { return e.c.Close() }
func (e *encapConn) LocalAddr() net.Addr                { return dummyAddr{} }
func (e *encapConn) SetDeadline(t time.Time) error      { return errors.New("not implemented") }
func (e *encapConn) SetReadDeadline(t time.Time) error  { return errors.New("not implemented") }
func (e *encapConn) SetWriteDeadline(t time.Time) error { return errors.New("not implemented") }

type sliceWriter struct{ b *[]byte }

func (w sliceWriter) Write(p []byte) (int, error) { *w.b = append(*w.b, p...); return len(p), nil }

// gate: carriers named in Scenario.Order are opened in that order.
func (sr *scenarioRun) gateWait(label string) {
	if label == "" {
		return
	}
	pos, ok := sr.oindex[label]
	if !ok {
		return
	}
	deadline := time.Now().Add(4 * time.Second)
	sr.omu.Lock()
	for sr.opos < pos && atomic.LoadInt32(&sr.ending) == 0 {
		if time.Now().After(deadline) {
			sr.rec.Note("order: %s opened without waiting for %s", label, sr.sc.Order[sr.opos])
			sr.opos = pos
			break
		}
		go func() { time.Sleep(50 * time.Millisecond); sr.ocond.Broadcast() }()
		sr.ocond.Wait()
	}
	sr.omu.Unlock()
}

func (sr *scenarioRun) gateDone(label string) {
	if label == "" {
		return
	}
	pos, ok := sr.oindex[label]
	if !ok {
		return
	}
	sr.omu.Lock()
	if sr.opos <= pos {
		sr.opos = pos + 1
	}
	sr.ocond.Broadcast()
	sr.omu.Unlock()
}

var badToken = [8]byte{0x12, 0x93, 0x60, 0x5d, 0x27, 0x81, 0x75, 0xf4} // last byte differs

func presName(p string) string {
	if p == "" {
		return "id"
	}
	return p
}

// openCarrier dials one carrier through the forwarder and writes the preamble
// the plan asks for.  It returns the carrier when it is usable for packets.
func (sr *scenarioRun) openCarrier(pl *CarrierPlan, id turbotunnel.ClientID, idName string, s *session, extra bool) (*carrier, error) {
	k := sr.rec.NextCarrier()
	pres := presName(pl.Pres)
	ipv := "<absent>"
	if pl.IP != nil {
		ipv = *pl.IP
	}
	hello := map[string]string{"id": "full", "noToken": "bad", "short": "part", "tokonly": "tok", "pre": "none"}[pres]
	modelPres := map[string]string{"id": idName, "noToken": "noToken", "short": "short", "tokonly": idName, "pre": idName}[pres]
	role := "main"
	if extra {
		role = "extra"
	}
	sr.rec.Struct("car.open", "k", k, "s", sIdx(s), "pres", modelPres, "hello", hello, "ip", ipv, "label", pl.Label, "role", role)
	atomic.AddInt32(&sr.dials, 1)
	link := &Link{K: k, Fault: pl.Fault, Rec: sr.rec}
	link.OnFault = func(l *Link) {
		sr.omu.Lock()
		sr.lastFault = time.Now()
		sr.omu.Unlock()
		atomic.AddInt32(&sr.faults, 1)
	}
	sr.omu.Lock()
	sr.links = append(sr.links, link)
	sr.omu.Unlock()
	u := url.URL{Scheme: "ws", Host: sr.rig.Fwd.Addr(), Path: "/"}
	if pl.IP != nil {
		q := u.Query()
		q.Set("client_ip", *pl.IP)
		u.RawQuery = q.Encode()
	}
	d := websocket.Dialer{
		NetDial:          func(network, addr string) (net.Conn, error) { return sr.rig.Fwd.Dial(link) },
		HandshakeTimeout: 5 * time.Second,
	}
	ws, _, err := d.Dial(u.String(), nil)
	if err != nil {
		sr.rec.Struct("car.end", "k", k, "why", "dial: "+shortErr(err))
		return nil, err
	}
	c := &carrier{k: k, link: link, ws: ws, conn: websocketconn.New(ws), sc: sr, ended: make(chan struct{})}
	var werr error
	switch pres {
	case "id":
		// exactly as client/lib newSession: two writes
		_, werr = c.conn.Write(turbotunnel.Token[:])
		if werr == nil {
			_, werr = c.conn.Write(id[:])
		}
	case "noToken":
		_, werr = c.conn.Write(badToken[:])
		if werr == nil {
			_, werr = c.conn.Write(id[:])
		}
	case "short":
		_, werr = c.conn.Write(turbotunnel.Token[:5])
	case "tokonly":
		_, werr = c.conn.Write(turbotunnel.Token[:])
		if werr == nil {
			_, werr = c.conn.Write(id[:3])
		}
	case "pre":
	}
	if werr != nil {
		c.end("hello: " + shortErr(werr))
		return nil, werr
	}
	sr.rec.Struct("car.hello", "k", k, "wrote", hello)
	return c, nil
}

func sIdx(s *session) int {
	if s == nil {
		return -1
	}
	return s.idx
}

func shortErr(err error) string {
	s := err.Error()
	if len(s) > 80 {
		s = s[:80]
	}
	return s
}

// waitClosed reads the carrier until the server closes it (or the bound
// passes) and reports whether the close was seen.
func (c *carrier) waitClosed(d time.Duration) bool {
	ch := make(chan struct{})
	go func() {
		var b [256]byte
		for {
			if _, err := c.conn.Read(b[:]); err != nil {
				close(ch)
				return
			}
		}
	}()
	select {
	case <-ch:
		return true
	case <-time.After(d):
		return false
	}
}

// dialContext is what RedialPacketConn calls for every new carrier.  It works
// through the session's plan and afterwards opens fault-free carriers.  It
// retries failed dials itself: returning an error ends the session for good
// (by design of the redial layer).
func (s *session) dialContext(ctx context.Context) (net.PacketConn, error) {
	sr := s.sc
	for attempt := 0; ; attempt++ {
		if atomic.LoadInt32(&sr.ending) != 0 {
			atomic.StoreInt32(&s.dead, 1)
			return nil, errors.New("scenario over")
		}
		var pl CarrierPlan
		planned := false
		s.cmu.Lock()
		if s.next < len(s.plan.Carriers) {
			pl = s.plan.Carriers[s.next]
			planned = true
		} else {
			pl = CarrierPlan{IP: s.lastIP, Pres: "id"}
		}
		s.cmu.Unlock()
		if s.plan.Bad != "" {
			if !planned {
				// by design of the redial layer an error from dialContext ends the session
				atomic.StoreInt32(&s.dead, 1)
				sr.rec.Struct("ses.over", "s", s.idx, "why", "plan exhausted")
				return nil, errors.New("tokenless session: plan exhausted")
			}
			pl.Pres = s.plan.Bad
		}
		if pl.Refuse > 0 {
			// the forwarder resets the first attempts
			s.cmu.Lock()
			s.plan.Carriers[s.next].Refuse--
			s.cmu.Unlock()
			sr.gateWait(pl.Label)
			k := sr.rec.NextCarrier()
			sr.rec.Struct("car.open", "k", k, "s", s.idx, "pres", fmt.Sprintf("S%d", s.idx), "hello", "none", "ip", "<absent>", "label", pl.Label, "role", "main")
			link := &Link{K: k, Refuse: true, Rec: sr.rec}
			c, err := sr.rig.Fwd.Dial(link)
			if err == nil {
				var b [1]byte
				c.SetReadDeadline(time.Now().Add(2 * time.Second))
				c.Read(b[:])
				c.Close()
			}
			sr.rec.Struct("car.end", "k", k, "why", "refused")
			atomic.AddInt32(&sr.dials, 1)
			continue
		}
		sr.gateWait(pl.Label)
		if pl.DelayMs > 0 && attempt == 0 {
			time.Sleep(time.Duration(pl.DelayMs) * time.Millisecond)
		}
		c, err := sr.openCarrier(&pl, s.id, fmt.Sprintf("S%d", s.idx), s, false)
		if planned {
			s.cmu.Lock()
			s.next++
			s.lastIP = pl.IP
			s.cmu.Unlock()
		}
		sr.gateDone(pl.Label)
		if err != nil {
			time.Sleep(time.Duration(5+attempt%20) * time.Millisecond)
			continue
		}
		if presName(pl.Pres) != "id" {
			// not usable: see the server close it (or close it ourselves when the
			// plan is that the client goes away), then go on
			switch presName(pl.Pres) {
			case "noToken":
				if !c.waitClosed(30 * time.Second) {
					sr.rec.Struct("car.notclosed", "k", c.k)
				} else {
					sr.rec.Struct("car.srvclosed", "k", c.k)
				}
			default:
				time.Sleep(time.Duration(pl.HoldMs) * time.Millisecond)
			}
			c.end("client")
			continue
		}
		if pl.Flood > 0 {
			// the session's first packet is still queued in the redial layer: its KCP
			// session does not exist yet at the server
			n := sr.flood(pl.Flood)
			sr.rec.Struct("srv.flood", "n", n)
		}
		s.cmu.Lock()
		s.cur = c
		s.cmu.Unlock()
		go c.staleness(sr.stale, func() bool { return s.complete() || atomic.LoadInt32(&s.paused) > 0 })
		ec := &encapConn{c: c}
		sr.rig.byPConn.Store(net.PacketConn(ec), s)
		s.cmu.Lock()
		s.pconns = append(s.pconns, net.PacketConn(ec))
		s.cmu.Unlock()
		return ec, nil
	}
}

func (s *session) streamKey(dir string) uint64 {
	if dir == "up" {
		return s.key[0]
	}
	return s.key[1]
}

func dirIdx(dir string) int {
	if dir == "up" {
		return 0
	}
	return 1
}

// writeStream writes the keyed stream of (session, dir) in seeded chunk sizes.
func (s *session) writeStream(w io.Writer, dir string, total int64) {
	rng := vh.NewRng(s.streamKey(dir) ^ 0x5bd1e995)
	key := s.streamKey(dir)
	var off int64
	buf := make([]byte, 64*1024)
	pauseAt := int64(-1)
	if s.plan.ResumeAfterMs > 0 {
		pauseAt = total / 2
	}
	for off < total {
		if pauseAt >= 0 && off >= pauseAt {
			pauseAt = -1
			atomic.AddInt32(&s.paused, 1)
			if d := time.Until(s.sc.t0.Add(time.Duration(s.plan.ResumeAfterMs) * time.Millisecond)); d > 0 {
				select {
				case <-time.After(d):
				case <-s.sc.endCh:
				}
			}
			atomic.AddInt32(&s.paused, -1)
		}
		n := int64(1 + rng.Intn(len(buf)))
		if rng.Intn(4) == 0 {
			n = int64(1 + rng.Intn(64))
		}
		if n > total-off {
			n = total - off
		}
		if pauseAt >= 0 && off+n > pauseAt {
			n = pauseAt - off
			if n == 0 {
				continue
			}
		}
		vh.Fill(buf[:n], key, uint64(off))
		if _, err := w.Write(buf[:n]); err != nil {
			if atomic.LoadInt32(&s.sc.ending) == 0 && s.plan.Bad == "" {
				atomic.StoreInt32(&s.failed, 1)
				s.sc.rec.Struct("app.werr", "s", s.idx, "d", dir, "off", int(off), "err", shortErr(err))
			}
			return
		}
		off += n
	}
}

// readStream reads what arrives and compares it with the keyed stream.  Every
// read is recorded (merged into runs): offset, length, bytes equal.
func (s *session) readStream(r net.Conn, dir string, total int64) {
	key := s.streamKey(dir)
	di := dirIdx(dir)
	var off int64
	buf := make([]byte, 64*1024)
	want := make([]byte, 64*1024)
	var stalls []ReadStall
	for _, st := range s.plan.ReadStalls {
		if st.Dir == dir {
			stalls = append(stalls, st)
		}
	}
	for off < total {
		if len(stalls) > 0 && off >= stalls[0].At {
			st := stalls[0]
			stalls = stalls[1:]
			s.sc.rec.Struct("app.stall", "s", s.idx, "d", dir, "off", int(off), "ms", st.Ms)
			select {
			case <-time.After(time.Duration(st.Ms) * time.Millisecond):
			case <-s.sc.endCh:
			}
			s.sc.rec.Struct("app.resume", "s", s.idx, "d", dir, "off", int(off))
		}
		n, err := r.Read(buf)
		if n > 0 {
			ok := true
			if int64(n) > total-off {
				// more than was ever written: report the excess as a mismatch
				ok = false
			} else {
				vh.Fill(want[:n], key, uint64(off))
				for i := 0; i < n; i++ {
					if buf[i] != want[i] {
						ok = false
						break
					}
				}
			}
			if !ok {
				// diagnosis only: whose bytes are these?  (same offset, any session and direction of the scenario)
				like := "nobody's"
				for _, o := range s.sc.sess {
					for di2, k2 := range o.key {
						m := n
						if m > 4096 {
							m = 4096
						}
						vh.Fill(want[:m], k2, uint64(off))
						same := true
						for i := 0; i < m; i++ {
							if buf[i] != want[i] {
								same = false
								break
							}
						}
						if same {
							like = fmt.Sprintf("S%d/%s", o.idx, []string{"up", "down"}[di2])
						}
					}
				}
				s.sc.rec.Struct("app.mismatch", "s", s.idx, "d", dir, "off", int(off), "n", n, "like", like)
			}
			s.sc.rec.Run("app.read", fmt.Sprintf("app.read/%d/%s", s.idx, dir), n, ok, "s", s.idx, "d", dir, "off", int(off))
			off += int64(n)
			atomic.StoreInt64(&s.got[di], off)
		}
		if err != nil {
			if atomic.LoadInt32(&s.sc.ending) == 0 && s.plan.Bad == "" {
				atomic.StoreInt32(&s.failed, 1)
				s.sc.rec.Struct("app.rerr", "s", s.idx, "d", dir, "off", int(off), "err", shortErr(err))
			}
			return
		}
	}
	// nothing may follow the last byte that was written
	r.SetReadDeadline(time.Now().Add(40 * time.Millisecond))
	if n, _ := r.Read(buf); n > 0 {
		s.sc.rec.Run("app.read", fmt.Sprintf("app.extra/%d/%s", s.idx, dir), n, false, "s", s.idx, "d", dir, "off", int(off))
	}
	r.SetReadDeadline(time.Time{})
	s.sc.rec.Struct("app.done", "s", s.idx, "d", dir, "total", int(total))
	atomic.StoreInt32(&s.done[di], 1)
}

// start builds the client packet stack exactly as client/lib newSession does.
func (s *session) start() error {
	s.pconn = turbotunnel.NewRedialPacketConn(dummyAddr{}, dummyAddr{}, s.dialContext)
	var conn *kcp.UDPSession
	var err error
	if s.convFixed {
		// NewConn2 is NewConn3 with a random conversation id
		conn, err = kcp.NewConn3(s.conv, dummyAddr{}, nil, 0, 0, s.pconn)
	} else {
		conn, err = kcp.NewConn2(dummyAddr{}, nil, 0, 0, s.pconn)
	}
	if err != nil {
		s.pconn.Close()
		return err
	}
	conn.SetStreamMode(true)
	conn.SetWindowSize(65535, 65535)
	conn.SetNoDelay(0, 0, 0, 1)
	s.kconn = conn
	s.kconv = conn.GetConv()
	if prev, loaded := s.sc.rig.byConv.LoadOrStore(conn.GetConv(), s); loaded && prev.(*session) != s {
		// two sessions with the same conversation id: packets can no longer be
		// attributed by content
		s.sc.rig.byConv.Store(conn.GetConv(), (*session)(nil))
	}
	cfg := smux.DefaultConfig()
	cfg.Version = 2
	cfg.KeepAliveTimeout = 10 * time.Minute
	cfg.MaxStreamBuffer = 1048576
	sess, err := smux.Client(conn, cfg)
	if err != nil {
		conn.Close()
		s.pconn.Close()
		return err
	}
	s.smx = sess
	stream, err := sess.OpenStream()
	if err != nil {
		return err
	}
	s.stream = stream
	go s.writeStream(stream, "up", s.plan.Up)
	go s.readStream(stream, "down", s.plan.Down)
	return nil
}

func (s *session) complete() bool {
	if s.plan.Bad != "" {
		s.cmu.Lock()
		d := s.next >= len(s.plan.Carriers)
		s.cmu.Unlock()
		return d || atomic.LoadInt32(&s.dead) != 0
	}
	return atomic.LoadInt32(&s.done[0]) != 0 && atomic.LoadInt32(&s.done[1]) != 0
}

func (s *session) stop() {
	// The reliable layer first: a stream Close blocks in a full KCP send
	// window when nothing is acknowledged any more.  Bounded in any case: the
	// teardown of a broken stack must not hang the driver.
	done := make(chan struct{})
	go func() {
		if s.kconn != nil {
			s.kconn.Close()
		}
		if s.pconn != nil {
			s.pconn.Close()
		}
		if s.smx != nil {
			s.smx.Close()
		}
		if s.stream != nil {
			s.stream.Close()
		}
		close(done)
	}()
	select {
	case <-done:
	case <-time.After(3 * time.Second):
		s.sc.rec.Note("teardown of session %d did not finish within 3 s", s.idx)
	}
	s.cmu.Lock()
	c := s.cur
	s.cmu.Unlock()
	if c != nil {
		c.end("scenario over")
	}
	if s.srvConn != nil {
		s.srvConn.Close()
	}
}

// forget removes the session from the rig's lookup tables (after the last
// hook events of the scenario have been recorded).
func (s *session) forget() {
	s.cmu.Lock()
	for _, st := range s.streams {
		s.sc.rig.byStream.Delete(st)
	}
	s.cmu.Unlock()
	s.sc.rig.byID.Delete(s.id)
	if s.kconn != nil {
		s.sc.rig.byConv.Delete(s.kconn.GetConv())
	}
	if atomic.LoadInt32(&s.convSet) != 0 {
		s.sc.rig.byConv.Delete(s.conv)
	}
	for _, c := range []uint32{s.conv, s.kconv} {
		if c != 0 {
			s.sc.rig.wroteUp.Delete(c)
			s.sc.rig.wroteDown.Delete(c)
		}
	}
	s.cmu.Lock()
	for _, pc := range s.pconns {
		s.sc.rig.byPConn.Delete(pc)
	}
	s.cmu.Unlock()
}

// flood attaches n throw-away carriers, each presenting the token and a
// ClientID of its own, and returns how many the server attached (counted at
// the srv.attached hook, i.e. after clientIDAddrMap.Set returned).
func (sr *scenarioRun) flood(n int) int {
	var attached int32
	discard := NewRecorder()
	one := func(i int) {
		link := &Link{K: 0, Rec: discard, Owner: &attached}
		d := websocket.Dialer{NetDial: func(network, addr string) (net.Conn, error) { return sr.rig.Fwd.Dial(link) }, HandshakeTimeout: 10 * time.Second}
		ws, _, err := d.Dial("ws://"+sr.rig.Fwd.Addr()+"/?client_ip=203.0.113.77", nil)
		if err != nil {
			return
		}
		conn := websocketconn.New(ws)
		var id turbotunnel.ClientID
		binary.BigEndian.PutUint64(id[:], 0xF100000000000000|uint64(i))
		conn.Write(turbotunnel.Token[:])
		conn.Write(id[:])
		time.Sleep(30 * time.Millisecond) // let the two messages leave before the close frame
		conn.Close()
	}
	seq := 0
	for round := 0; round < 30; round++ {
		need := n - int(atomic.LoadInt32(&attached))
		if need <= 0 {
			break
		}
		sem := make(chan struct{}, 48)
		var wg sync.WaitGroup
		for j := 0; j < need; j++ {
			sem <- struct{}{}
			wg.Add(1)
			seq++
			go func(i int) {
				defer wg.Done()
				defer func() { <-sem }()
				one(i)
			}(seq)
		}
		wg.Wait()
		// settle: wait until the count has been stable for a while
		last, stable := atomic.LoadInt32(&attached), 0
		for stable < 30 {
			time.Sleep(10 * time.Millisecond)
			if cur := atomic.LoadInt32(&attached); cur == last {
				stable++
			} else {
				last, stable = cur, 0
			}
		}
	}
	return int(atomic.LoadInt32(&attached))
}

// runExtra opens one carrier outside any redial loop.
func (sr *scenarioRun) runExtra(pl CarrierPlan, wg *sync.WaitGroup) {
	defer wg.Done()
	sr.gateWait(pl.Label)
	var id turbotunnel.ClientID
	name := "X"
	var owner *session
	if pl.Other >= 0 && pl.Other < len(sr.sess) {
		owner = sr.sess[pl.Other]
		id = owner.id
		name = fmt.Sprintf("S%d", owner.idx)
	}
	c, err := sr.openCarrier(&pl, id, name, owner, true)
	sr.gateDone(pl.Label)
	if err != nil {
		return
	}
	hold := time.Duration(pl.HoldMs) * time.Millisecond
	if hold == 0 {
		hold = 300 * time.Millisecond
	}
	switch presName(pl.Pres) {
	case "noToken":
		if c.waitClosed(30 * time.Second) {
			sr.rec.Struct("car.srvclosed", "k", c.k)
		} else {
			sr.rec.Struct("car.notclosed", "k", c.k)
		}
	case "id":
		// a second carrier of a live session: swallow whatever the server sends
		// down this way
		done := make(chan struct{})
		go func() {
			var b [4096]byte
			for {
				if _, err := c.conn.Read(b[:]); err != nil {
					close(done)
					return
				}
			}
		}()
		select {
		case <-done:
		case <-time.After(hold):
		}
	default:
		time.Sleep(hold)
	}
	c.end("client")
}

// Run executes one scenario against the shared server.
func (r *Rig) Run(sc *Scenario, index int) *Result {
	if sc.IDShape == "zeroff" {
		// the all-zero and the all-0xff ClientID exist once per process
		zeroffMu.Lock()
		defer zeroffMu.Unlock()
	}
	t0 := time.Now()
	sr := &scenarioRun{rig: r, sc: sc, rec: NewRecorder(), rng: vh.NewRng(sc.Seed), oindex: map[string]int{}, stale: r.Stale, t0: t0, endCh: make(chan struct{})}
	sr.ocond = sync.NewCond(&sr.omu)
	if sc.StaleMs > 0 {
		sr.stale = time.Duration(sc.StaleMs) * time.Millisecond
	}
	bound := r.Bound
	if sc.BoundMs > 0 {
		bound = time.Duration(sc.BoundMs) * time.Millisecond
	}
	for i, l := range sc.Order {
		sr.oindex[l] = i
	}
	sr.lastFault = t0
	res := &Result{Name: sc.Name}
	for i := range sc.Sessions {
		pl := &sc.Sessions[i]
		s := &session{sc: sr, idx: i, plan: pl}
		h := sr.rng.Uint64() ^ uint64(index)<<40 ^ uint64(i)<<56
		binary.BigEndian.PutUint64(s.id[:], h)
		if i < 2 && sc.IDShape != "" && sc.IDShape != "random" {
			// nonce: unique per scenario of this process, so that concurrent
			// scenarios never share a ClientID; it sits in the bytes the shape
			// says are equal
			var nonce [8]byte
			binary.BigEndian.PutUint64(nonce[:], shapeBase^uint64(index+1)*0x9e3779b97f4a7c15)
			switch sc.IDShape {
			case "lastbyte":
				copy(s.id[:], nonce[:])
				s.id[7] = byte(0x41 + i)
			case "firstbyte":
				copy(s.id[:], nonce[:])
				s.id[0] = byte(0x41 + i)
			case "prefix4":
				copy(s.id[:4], nonce[:4])
				binary.BigEndian.PutUint32(s.id[4:], uint32(h)|1)
				if i == 1 {
					binary.BigEndian.PutUint32(s.id[4:], ^uint32(h)&^1)
				}
			case "zeroff":
				for j := range s.id {
					s.id[j] = byte(-i) // 0x00.. for the first session, 0xff.. for the second
				}
			}
		}
		if sc.ConvEqual {
			s.conv = uint32(shapeBase>>7) ^ uint32(index+1)*2654435761
			s.convFixed = true
		}
		s.key[0], s.key[1] = sr.rng.Uint64(), sr.rng.Uint64()
		for j := range pl.Carriers {
			if pl.Carriers[j].Fault != nil {
				res.Planned++
			}
		}
		sr.sess = append(sr.sess, s)
		r.byID.Store(s.id, s)
		sr.rec.Struct("ses.start", "s", i, "id", fmt.Sprintf("S%d", i), "cid", hex.EncodeToString(s.id[:]), "up", int(pl.Up), "down", int(pl.Down), "bad", pl.Bad)
	}
	var xwg sync.WaitGroup
	for _, x := range sc.Extras {
		xwg.Add(1)
		go sr.runExtra(x, &xwg)
	}
	for _, s := range sr.sess {
		s := s
		go func() {
			if s.plan.DelayMs > 0 {
				time.Sleep(time.Duration(s.plan.DelayMs) * time.Millisecond)
			}
			if err := s.start(); err != nil {
				sr.rec.Struct("cli.dead", "s", s.idx, "err", "start: "+shortErr(err))
				atomic.StoreInt32(&s.dead, 1)
			}
		}()
	}
	// wait for completion or for the liveness bound, measured from the last
	// fault that fired
	tick := time.NewTicker(5 * time.Millisecond)
	var lastMoved int64 = -1
	lastProgress := time.Now()
	for range tick.C {
		all := true
		for _, s := range sr.sess {
			if !s.complete() {
				all = false
				break
			}
		}
		if all {
			res.Done = true
			break
		}
		broken := false
		for _, s := range sr.sess {
			if atomic.LoadInt32(&s.failed) != 0 {
				broken = true
			}
		}
		if broken {
			// recorded as app.rerr / app.werr; waiting for the bound adds nothing
			break
		}
		// progress: bytes verified at either end, in any session
		var moved int64
		for _, s := range sr.sess {
			moved += atomic.LoadInt64(&s.got[0]) + atomic.LoadInt64(&s.got[1]) + int64(atomic.LoadInt32(&s.done[0])+atomic.LoadInt32(&s.done[1]))
		}
		if moved != lastMoved {
			lastMoved, lastProgress = moved, time.Now()
		}
		sr.omu.Lock()
		lf := sr.lastFault
		sr.omu.Unlock()
		// a stall: the bound has passed since the last fault AND nothing at all
		// has moved for that long (a slow but moving transfer on a loaded
		// machine is not a stall)
		if time.Since(lf) > bound && time.Since(lastProgress) > bound {
			res.Stalled = true
			break
		}
	}
	tick.Stop()
	if res.Done {
		xdone := make(chan struct{})
		go func() { xwg.Wait(); close(xdone) }()
		select {
		case <-xdone:
		case <-time.After(8 * time.Second):
			sr.rec.Note("extras still running at the end")
		}
		sr.addrEpilogue()
	}
	if res.Stalled {
		st := ""
		for _, s := range sr.sess {
			s.cmu.Lock()
			next := s.next
			s.cmu.Unlock()
			st += fmt.Sprintf("S%d up %d/%d down %d/%d dead=%d next=%d; ", s.idx, atomic.LoadInt64(&s.got[0]), s.plan.Up,
				atomic.LoadInt64(&s.got[1]), s.plan.Down, atomic.LoadInt32(&s.dead), next)
		}
		res.State = st
		sr.rec.Struct("stall", "state", st)
	}
	atomic.StoreInt32(&sr.ending, 1)
	close(sr.endCh)
	sr.omu.Lock()
	sr.ocond.Broadcast()
	sr.omu.Unlock()
	for _, s := range sr.sess {
		res.Bytes += atomic.LoadInt64(&s.got[0]) + atomic.LoadInt64(&s.got[1])
		s.stop()
	}
	sr.omu.Lock()
	links := append([]*Link(nil), sr.links...)
	sr.omu.Unlock()
	for _, l := range links {
		l.Kill()
	}
	// let the server-side handlers notice and log their exits
	time.Sleep(30 * time.Millisecond)
	sr.rec.Struct("end", "done", res.Done)
	res.Events = sr.rec.Events()
	for _, s := range sr.sess {
		s.forget()
	}
	res.Notes = sr.rec.Notes
	res.Faults = int(atomic.LoadInt32(&sr.faults))
	res.Dials = int(atomic.LoadInt32(&sr.dials))
	res.WallMs = int(time.Since(t0) / time.Millisecond)
	return res
}
