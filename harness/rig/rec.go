// Package rig is the shared machinery of the core rig (cmd/corerig) and the
// system rig (cmd/sysrig): an event recorder that coalesces per-packet events
// into runs, a fault-injecting TCP forwarder that knows where in the carrier's
// byte stream it is (WebSocket framing, turbotunnel preamble, encapsulation
// chunks), keyed payload streams and the real snowflake server with its hooks
// attached.  Nothing in here decides a verdict: the recorded events are
// validated by TLC against spec/ServerMux/ServerMux_Trace.tla and
// spec/Tunnel/Tunnel_Trace.tla.
package rig

import (
	"encoding/json"
	"fmt"
	"sync"
	"time"
)

// Event is one line of the trace file.
type Event map[string]interface{}

// Recorder collects the events of one scenario.  Structural events (carrier
// opened, attached, cut, session accepted ...) are appended as they happen
// and close the current epoch; packet and byte events are merged into one run
// per key and epoch (Run), so that a multi-MiB transfer yields a trace whose
// length is proportional to the number of carriers, not of packets.  The key
// of a run contains every logged attribute (carrier, ClientID, owner of the
// packet), so no attribution is lost by merging.
type Recorder struct {
	mu    sync.Mutex
	evs   []Event
	open  map[string]int
	t0    time.Time
	kseq  int
	Notes []string
}

func NewRecorder() *Recorder {
	return &Recorder{open: map[string]int{}, t0: time.Now()}
}

func kvEvent(ev string, kv []interface{}) Event {
	e := Event{"ev": ev}
	for i := 0; i+1 < len(kv); i += 2 {
		e[kv[i].(string)] = kv[i+1]
	}
	return e
}

// Struct appends a structural event.
func (r *Recorder) Struct(ev string, kv ...interface{}) {
	e := kvEvent(ev, kv)
	r.mu.Lock()
	e["ms"] = int(time.Since(r.t0) / time.Millisecond)
	r.evs = append(r.evs, e)
	if len(r.open) > 0 {
		r.open = map[string]int{}
	}
	r.mu.Unlock()
}

// Run merges n occurrences of a packet/byte event into the open run with the
// same key, or starts a new run.  The numeric field "n" accumulates; all other
// fields are those of the first occurrence, except boolean "ok" which is
// and-ed.
func (r *Recorder) Run(ev, key string, n int, ok bool, kv ...interface{}) {
	r.mu.Lock()
	if i, found := r.open[key]; found {
		e := r.evs[i]
		e["n"] = e["n"].(int) + n
		if !ok {
			e["ok"] = false
		}
		r.mu.Unlock()
		return
	}
	e := kvEvent(ev, kv)
	e["n"] = n
	e["ok"] = ok
	e["ms"] = int(time.Since(r.t0) / time.Millisecond)
	r.open[key] = len(r.evs)
	r.evs = append(r.evs, e)
	r.mu.Unlock()
}

// NextCarrier hands out the scenario-local carrier numbers 1, 2, ...
func (r *Recorder) NextCarrier() int {
	r.mu.Lock()
	r.kseq++
	k := r.kseq
	r.mu.Unlock()
	return k
}

func (r *Recorder) Note(format string, a ...interface{}) {
	r.mu.Lock()
	if len(r.Notes) < 50 {
		r.Notes = append(r.Notes, fmt.Sprintf("%dms ", int(time.Since(r.t0)/time.Millisecond))+fmt.Sprintf(format, a...))
	}
	r.mu.Unlock()
}

// Events returns a copy of the events recorded so far.
func (r *Recorder) Events() []Event {
	r.mu.Lock()
	out := make([]Event, len(r.evs))
	for i, e := range r.evs {
		c := Event{}
		for k, v := range e {
			c[k] = v
		}
		out[i] = c
	}
	r.mu.Unlock()
	return out
}

func (r *Recorder) Len() int {
	r.mu.Lock()
	defer r.mu.Unlock()
	return len(r.evs)
}

// MarshalEvents renders events as newline-delimited JSON.
func MarshalEvents(evs []Event) []byte {
	var out []byte
	for _, e := range evs {
		b, err := json.Marshal(e)
		if err != nil {
			b, _ = json.Marshal(Event{"ev": "marshal-error", "err": err.Error()})
		}
		out = append(out, b...)
		out = append(out, '\n')
	}
	return out
}
