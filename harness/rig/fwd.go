package rig

import (
	"net"
	"sync"
	"sync/atomic"
	"time"
)

// Fault is what the forwarder does to one carrier and where.  The position is
// given in terms of the carrier's payload stream (the bytes inside the
// WebSocket binary messages), not of TCP bytes:
//
//	Dir "up":   Cls "tok" after Nth (0..7) bytes of the token, "id" after Nth
//	            (0..7) bytes of the ClientID, "bnd" after Nth complete
//	            encapsulation chunks, "pfx" after the first byte of the first
//	            multi-byte length prefix at or after chunk Nth, "body" in the
//	            middle of the body of the first chunk at or after chunk Nth.
//	Dir "down": "bnd", "pfx", "body" likewise (there is no preamble).
//
// Kind: "cut" closes both TCP connections (Rst: with RST instead of FIN);
// "cutcli" closes only the client side and keeps the server side open and
// swallowing for HoldMs (half-open carrier); "cutsrv" closes only the server
// side and black-holes the client side; "stall" black-holes both directions
// with both sockets open (a frozen proxy) until the client gives up.
type Fault struct {
	Kind   string `json:"kind"`
	Dir    string `json:"dir"`
	Cls    string `json:"cls"`
	Nth    int    `json:"nth"`
	HoldMs int    `json:"hold_ms,omitempty"`
	Rst    bool   `json:"rst,omitempty"`
	// AfterMs > 0: the fault fires so long after the carrier was opened,
	// wherever the stream is then (Cls "time"), instead of at a byte position.
	AfterMs int `json:"after_ms,omitempty"`
}

// Link is one carrier as the forwarder sees it.
type Link struct {
	K       int // scenario-local carrier number
	Fault   *Fault
	Refuse  bool // reset the connection at once
	Rec     *Recorder
	Owner   interface{} // the rig's carrier object (for the server-side hook lookup)
	OnFault func(l *Link)

	mu       sync.Mutex
	cli, srv net.Conn
	mode     int32 // 0 normal, 1 black-hole up, 2 black-hole down, 3 both
	fired    int32
	closed   chan struct{}
	closeOnce sync.Once
	UpBytes, DownBytes int64
	FaultAt  time.Time
}

const (
	holeUp   = 1
	holeDown = 2
)

// Forwarder is a TCP relay between the model clients and the real server.
type Forwarder struct {
	ln      net.Listener
	srvAddr string
	mu      sync.Mutex
	cond    *sync.Cond
	pending map[string]*Link // client-side local address -> link
	// bySrvAddr maps the forwarder's local address on the server side (what
	// the server sees as the carrier's RemoteAddr) to the link.
	bySrvAddr sync.Map
	wg        sync.WaitGroup
}

func NewForwarder(srvAddr string) (*Forwarder, error) {
	ln, err := net.Listen("tcp", "127.0.0.1:0")
	if err != nil {
		return nil, err
	}
	f := &Forwarder{ln: ln, srvAddr: srvAddr, pending: map[string]*Link{}}
	f.cond = sync.NewCond(&f.mu)
	go f.acceptLoop()
	return f, nil
}

func (f *Forwarder) Addr() string { return f.ln.Addr().String() }

// Dial opens the client side of a carrier through the forwarder.
func (f *Forwarder) Dial(l *Link) (net.Conn, error) {
	l.closed = make(chan struct{})
	c, err := net.DialTimeout("tcp", f.Addr(), 5*time.Second)
	if err != nil {
		return nil, err
	}
	f.mu.Lock()
	f.pending[c.LocalAddr().String()] = l
	f.cond.Broadcast()
	f.mu.Unlock()
	return c, nil
}

// LinkOfServerPeer returns the link whose server-side socket has this local
// address (the RemoteAddr of the connection inside the server).
func (f *Forwarder) LinkOfServerPeer(addr string) *Link {
	if v, ok := f.bySrvAddr.Load(addr); ok {
		return v.(*Link)
	}
	return nil
}

func (f *Forwarder) acceptLoop() {
	for {
		c, err := f.ln.Accept()
		if err != nil {
			return
		}
		go f.serve(c)
	}
}

func (f *Forwarder) Close() { f.ln.Close() }

func (f *Forwarder) serve(cli net.Conn) {
	key := cli.RemoteAddr().String()
	deadline := time.Now().Add(5 * time.Second)
	f.mu.Lock()
	var l *Link
	for {
		if l = f.pending[key]; l != nil {
			delete(f.pending, key)
			break
		}
		if time.Now().After(deadline) {
			break
		}
		// wake up periodically: Cond has no timed wait
		go func() { time.Sleep(50 * time.Millisecond); f.cond.Broadcast() }()
		f.cond.Wait()
	}
	f.mu.Unlock()
	if l == nil {
		cli.Close()
		return
	}
	if l.Refuse {
		if tc, ok := cli.(*net.TCPConn); ok {
			tc.SetLinger(0)
		}
		cli.Close()
		return
	}
	srv, err := net.DialTimeout("tcp", f.srvAddr, 5*time.Second)
	if err != nil {
		cli.Close()
		return
	}
	l.mu.Lock()
	l.cli, l.srv = cli, srv
	l.mu.Unlock()
	sk := srv.LocalAddr().String()
	f.bySrvAddr.Store(sk, l)
	if l.Fault != nil && l.Fault.AfterMs > 0 {
		t := time.AfterFunc(time.Duration(l.Fault.AfterMs)*time.Millisecond, func() { l.fire(true, cli, srv) })
		defer t.Stop()
	}
	var wg sync.WaitGroup
	wg.Add(2)
	go func() { defer wg.Done(); l.pump(cli, srv, true) }()
	go func() { defer wg.Done(); l.pump(srv, cli, false) }()
	wg.Wait()
	cli.Close()
	srv.Close()
	l.closeOnce.Do(func() { close(l.closed) })
	// the address mapping is kept for the life of the process: hook events of
	// the handler's exit still refer to it (ephemeral ports are not reused while
	// the socket lingers; a reuse would be overwritten by Store above)
}

// Kill closes both sides of the link (used at the end of a scenario).
func (l *Link) Kill() {
	l.mu.Lock()
	c, s := l.cli, l.srv
	l.mu.Unlock()
	if c != nil {
		c.Close()
	}
	if s != nil {
		s.Close()
	}
}

func (l *Link) Fired() bool { return atomic.LoadInt32(&l.fired) != 0 }

func hardClose(c net.Conn, rst bool) {
	if rst {
		if tc, ok := c.(*net.TCPConn); ok {
			tc.SetLinger(0)
		}
	}
	c.Close()
}

func (l *Link) fire(dirUp bool, src, dst net.Conn) {
	if !atomic.CompareAndSwapInt32(&l.fired, 0, 1) {
		return
	}
	f := l.Fault
	l.FaultAt = time.Now()
	l.Rec.Struct("car.fault", "k", l.K, "kind", f.Kind, "dir", f.Dir, "cls", f.Cls, "nth", f.Nth,
		"upb", int(atomic.LoadInt64(&l.UpBytes)), "downb", int(atomic.LoadInt64(&l.DownBytes)))
	if l.OnFault != nil {
		l.OnFault(l)
	}
	l.mu.Lock()
	cli, srv := l.cli, l.srv
	l.mu.Unlock()
	hold := time.Duration(f.HoldMs) * time.Millisecond
	if hold == 0 {
		hold = 1500 * time.Millisecond
	}
	switch f.Kind {
	case "cut":
		hardClose(cli, f.Rst)
		hardClose(srv, f.Rst)
	case "cutcli":
		// half-open: the server keeps its end; what it writes is swallowed
		atomic.StoreInt32(&l.mode, holeUp|holeDown)
		hardClose(cli, f.Rst)
		time.AfterFunc(hold, func() { srv.Close() })
	case "cutsrv":
		atomic.StoreInt32(&l.mode, holeUp|holeDown)
		hardClose(srv, f.Rst)
	case "stall":
		atomic.StoreInt32(&l.mode, holeUp|holeDown)
	}
}

func (l *Link) pump(src, dst net.Conn, up bool) {
	var p *parser
	if l.Fault != nil && l.Fault.AfterMs == 0 && ((l.Fault.Dir == "up") == up) {
		p = newParser(up, l.Fault)
	}
	buf := make([]byte, 32*1024)
	hole := int32(holeDown)
	if up {
		hole = holeUp
	}
	for {
		n, err := src.Read(buf)
		if n > 0 {
			if atomic.LoadInt32(&l.mode)&hole != 0 {
				// black hole: swallow
			} else {
				m, fire := n, false
				if p != nil && !p.fired {
					m, fire = p.feed(buf[:n])
				}
				if m > 0 {
					if _, werr := dst.Write(buf[:m]); werr != nil {
						err = werr
					}
					if up {
						atomic.AddInt64(&l.UpBytes, int64(m))
					} else {
						atomic.AddInt64(&l.DownBytes, int64(m))
					}
				}
				if fire {
					l.fire(up, src, dst)
				}
			}
		}
		if err != nil {
			mode := atomic.LoadInt32(&l.mode)
			kind := ""
			if l.Fault != nil && l.Fired() {
				kind = l.Fault.Kind
			}
			switch {
			case kind == "cutcli" && up:
				// client side is gone by our own doing; the server side lives on
				// until the hold timer closes it
				return
			case kind == "cutcli" && !up:
				// server side closed (hold timer or the server itself)
				return
			case kind == "cutsrv" && !up:
				// server side is gone by our own doing; keep swallowing the client
				return
			case mode != 0 && kind == "stall" && !up:
				// the server closed a stalled carrier: keep the client side dangling
				return
			}
			// ordinary end of one direction: tear the carrier down
			src.Close()
			dst.Close()
			return
		}
	}
}

// ---------------------------------------------------------------------------
// Position tracking: HTTP upgrade, WebSocket frames, preamble, encapsulation.

type parser struct {
	up    bool
	f     *Fault
	fired bool

	// transport level
	st       int // 0 HTTP header, 1 WebSocket frame header, 2 WebSocket payload
	httpTail int
	hdr      [14]byte
	hdrN     int
	hdrNeed  int
	masked   bool
	mask     [4]byte
	left     uint64 // payload bytes left in the WebSocket frame
	fpos     uint64 // payload position inside the frame (mask phase)
	data     bool   // data frame (binary/text/continuation of one)

	// payload level
	poff     uint64 // payload bytes consumed
	est      int    // 0 preamble, 1 at chunk start, 2 inside a prefix, 3 inside a body
	chunks   int    // complete chunks so far
	bodyLen  int
	bodyDone int
	lenAcc   int
}

func newParser(up bool, f *Fault) *parser {
	p := &parser{up: up, f: f}
	if !up {
		p.est = 1
	}
	return p
}

// at reports whether the current position (between two bytes) is the fault
// position.
func (p *parser) at() bool {
	f := p.f
	switch f.Cls {
	case "tok":
		return p.up && p.st != 0 && p.poff == uint64(f.Nth) && f.Nth < 8
	case "id":
		return p.up && p.st != 0 && p.poff == uint64(8+f.Nth) && f.Nth < 8
	case "bnd":
		return p.st != 0 && p.est == 1 && p.chunks >= f.Nth
	case "pfx":
		return p.est == 2 && p.chunks >= f.Nth
	case "body":
		return p.est == 3 && p.chunks >= f.Nth && p.bodyLen >= 2 && p.bodyDone == p.bodyLen/2
	}
	return false
}

func (p *parser) payloadByte(b byte) {
	p.poff++
	switch p.est {
	case 0:
		if p.poff >= 16 {
			p.est = 1
		}
	case 1:
		p.lenAcc = int(b & 0x3f)
		if b&0x40 != 0 {
			p.est = 2
		} else {
			p.startBody()
		}
	case 2:
		p.lenAcc = p.lenAcc<<7 | int(b&0x7f)
		if b&0x80 == 0 {
			p.startBody()
		}
	case 3:
		p.bodyDone++
		if p.bodyDone >= p.bodyLen {
			p.chunks++
			p.est = 1
		}
	}
}

func (p *parser) startBody() {
	p.bodyLen, p.bodyDone = p.lenAcc, 0
	if p.bodyLen == 0 {
		p.chunks++
		p.est = 1
	} else {
		p.est = 3
	}
}

// feed consumes b and returns how many bytes may be forwarded and whether the
// fault position has been reached right after them.
func (p *parser) feed(b []byte) (int, bool) {
	i := 0
	for i < len(b) {
		switch p.st {
		case 0:
			c := b[i]
			i++
			want := "\r\n\r\n"[p.httpTail]
			if c == want {
				p.httpTail++
				if p.httpTail == 4 {
					p.st, p.hdrN, p.hdrNeed = 1, 0, 2
				}
			} else if c == '\r' {
				p.httpTail = 1
			} else {
				p.httpTail = 0
			}
		case 1:
			p.hdr[p.hdrN] = b[i]
			p.hdrN++
			i++
			if p.hdrN == 2 {
				p.masked = p.hdr[1]&0x80 != 0
				l7 := p.hdr[1] & 0x7f
				p.hdrNeed = 2
				if l7 == 126 {
					p.hdrNeed += 2
				} else if l7 == 127 {
					p.hdrNeed += 8
				}
				if p.masked {
					p.hdrNeed += 4
				}
			}
			if p.hdrN >= 2 && p.hdrN == p.hdrNeed {
				l7 := uint64(p.hdr[1] & 0x7f)
				off := 2
				if l7 == 126 {
					l7 = uint64(p.hdr[2])<<8 | uint64(p.hdr[3])
					off = 4
				} else if l7 == 127 {
					l7 = 0
					for j := 0; j < 8; j++ {
						l7 = l7<<8 | uint64(p.hdr[2+j])
					}
					off = 10
				}
				if p.masked {
					copy(p.mask[:], p.hdr[off:off+4])
				}
				op := p.hdr[0] & 0x0f
				if op == 1 || op == 2 {
					p.data = true
				} else if op >= 8 {
					// control frames do not change p.data of an interrupted message
				}
				isData := (op == 0 && p.data) || op == 1 || op == 2
				p.left, p.fpos = l7, 0
				if l7 == 0 {
					p.hdrN, p.hdrNeed = 0, 2
				} else if isData {
					p.st = 2
				} else {
					p.st = 3
				}
			}
		case 2:
			// data payload: body bytes that cannot contain the fault position
			// are skipped in bulk
			if p.est == 3 && !(p.f.Cls == "body" && p.chunks >= p.f.Nth) {
				n := len(b) - i
				if uint64(n) > p.left {
					n = int(p.left)
				}
				if r := p.bodyLen - p.bodyDone; n > r {
					n = r
				}
				i += n
				p.left -= uint64(n)
				p.fpos += uint64(n)
				p.poff += uint64(n)
				p.bodyDone += n
				if p.bodyDone >= p.bodyLen {
					p.chunks++
					p.est = 1
				}
			} else {
				c := b[i]
				if p.masked {
					c ^= p.mask[p.fpos&3]
				}
				i++
				p.left--
				p.fpos++
				p.payloadByte(c)
			}
			if p.left == 0 {
				p.st, p.hdrN, p.hdrNeed = 1, 0, 2
			}
		case 3:
			// control payload
			n := len(b) - i
			if uint64(n) > p.left {
				n = int(p.left)
			}
			i += n
			p.left -= uint64(n)
			if p.left == 0 {
				p.st, p.hdrN, p.hdrNeed = 1, 0, 2
			}
		}
		// A position is only tested between WebSocket frames or inside data
		// payload, never inside a frame header (the header bytes belong to the
		// frame that follows).
		if (p.st == 1 && p.hdrN == 0 || p.st == 2) && p.at() {
			p.fired = true
			return i, true
		}
	}
	return i, false
}
