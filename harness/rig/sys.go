//go:build verif

package rig

// System rig, in-process variant: the real client library
// (snowflake_client.NewSnowflakeClient + Transport.Dial: Peers, WebRTCPeer,
// newSession, RedialPacketConn, KCP, smux) against a scripted broker that
// speaks the real `messages` protocol, harness mini-proxies (pion data channel
// <-> websocketconn, like proxy/lib's copyLoop) and the real server/lib, over
// real local WebRTC.  Faults: a mini-proxy is killed (peer connection closed)
// or frozen (stops relaying), the forwarder between proxy and server cuts at a
// byte position, the broker drops, delays or fakes answers, and the client is
// held at the dial.popped gate while the popped peer is closed (D15).

import (
	"encoding/json"
	"fmt"
	"io/ioutil"
	"net"
	"net/http"
	"net/http/httptest"
	"net/url"
	"sync"
	"sync/atomic"
	"time"

	sfclient "git.torproject.org/pluggable-transports/snowflake.git/v2/client/lib"
	"git.torproject.org/pluggable-transports/snowflake.git/v2/common/messages"
	"git.torproject.org/pluggable-transports/snowflake.git/v2/common/turbotunnel"
	"git.torproject.org/pluggable-transports/snowflake.git/v2/common/util"
	"git.torproject.org/pluggable-transports/snowflake.git/v2/common/websocketconn"
	"github.com/gorilla/websocket"
	"github.com/pion/webrtc/v3"
)

// ProxyFault is what happens to a mini-proxy once the client uses it.
type ProxyFault struct {
	Kind      string `json:"kind"` // "kill" (close the peer connection), "freeze" (stop relaying, keep everything open)
	AfterUp   int64  `json:"after_up"`   // after so many bytes relayed upstream ...
	AfterDown int64  `json:"after_down"` // ... or downstream, whichever comes first
	KeepWsMs  int    `json:"keep_ws_ms,omitempty"` // keep the WebSocket to the server open this long afterwards (half-open at the server)
}

// PeerPlan is the broker's script for the i-th offer it receives.
type PeerPlan struct {
	Answer  string      `json:"answer"`             // "ok" | "error" | "http500" | "dud" (an answer whose proxy never connects) | "delay"
	DelayMs int         `json:"delay_ms,omitempty"` // before answering
	IP      *string     `json:"ip"`
	Gate    bool        `json:"gate,omitempty"`  // hold the client between Pop and the token write and close this peer meanwhile
	// Park (with Gate): the client's data channel OnClose callback is held at the
	// peer.onclose gate until after the failed write, so that the write fails
	// while WebRTCPeer.Closed() is still false (the peer is not yet MARKED closed).
	Park bool `json:"park,omitempty"`
	// PoolKill: the proxy dies PoolKillMs after its data channel opened, i.e.
	// normally while the peer still waits in the client's pool (a dead reserve).
	PoolKill   bool `json:"pool_kill,omitempty"`
	PoolKillMs int  `json:"pool_kill_ms,omitempty"`
	Fault   *ProxyFault `json:"fault,omitempty"` // proxy dies / freezes
	Link    *Fault      `json:"link,omitempty"`  // forwarder fault between proxy and server
}

type SysScenario struct {
	Name    string      `json:"name"`
	Seed    uint64      `json:"seed"`
	Up      int64       `json:"up"`
	Down    int64       `json:"down"`
	Max     int         `json:"max"`
	Peers   []PeerPlan  `json:"peers"`
	BoundMs int         `json:"bound_ms,omitempty"`
	ReadStalls []ReadStall `json:"read_stalls,omitempty"`
	Origin  interface{} `json:"origin,omitempty"`
}

type sysRun struct {
	rig  *Rig
	sc   *SysScenario
	sr   *scenarioRun
	ses  *session
	rec  *Recorder
	nOff int32

	mu      sync.Mutex
	proxies map[string]*miniProxy // data channel label -> proxy
	cond    *sync.Cond
	lastK   int
	all     []*miniProxy
}

type miniProxy struct {
	run    *sysRun
	idx    int // offer index
	plan   PeerPlan
	pc     *webrtc.PeerConnection
	dc     *webrtc.DataChannel
	label  string
	k      int
	ws     *websocketconn.Conn
	link   *Link
	upB    int64
	downB  int64
	frozen int32
	dead   int32
	ended  int32
	once   sync.Once
	// peer.onclose gate
	parkArmed  int32
	parked     chan struct{} // closed when the client's OnClose callback has arrived at the gate
	unpark     chan struct{} // closed to let it go on
	parkOnce   sync.Once
	unparkOnce sync.Once
	popped     int32
}

var newClientMu sync.Mutex

var sysRuns sync.Map // data channel label -> *sysRun (for the client-side hook)

// SysClientHook receives the hook calls of client/lib (dial.popped, dial.up).
func (r *Rig) SysClientHook(point string, args ...interface{}) {
	switch point {
	case "peer.onclose":
		// gate: the client's OnClose callback, before the peer is marked closed
		label, _ := args[0].(string)
		v, ok := sysRuns.Load(label)
		if !ok {
			return
		}
		run := v.(*sysRun)
		run.mu.Lock()
		p := run.proxies[label]
		run.mu.Unlock()
		if p == nil || atomic.LoadInt32(&p.parkArmed) == 0 {
			return
		}
		p.parkOnce.Do(func() { close(p.parked) })
		select {
		case <-p.unpark:
		case <-time.After(5 * time.Second):
		}
	case "dial.popped", "dial.up":
		label, _ := args[0].(string)
		var run *sysRun
		deadline := time.Now().Add(3 * time.Second)
		for {
			if v, ok := sysRuns.Load(label); ok {
				run = v.(*sysRun)
				break
			}
			if time.Now().After(deadline) {
				r.Orphans.Struct(point, "why", "peer unknown to the harness", "label", label)
				return
			}
			time.Sleep(2 * time.Millisecond)
		}
		run.mu.Lock()
		p := run.proxies[label]
		run.mu.Unlock()
		if p == nil {
			return
		}
		if point == "dial.popped" {
			run.popped(p)
		} else {
			id := args[1].(turbotunnel.ClientID)
			if _, loaded := r.byID.LoadOrStore(id, run.ses); !loaded {
				run.ses.id = id
			}
			run.rec.Struct("car.hello", "k", p.k, "wrote", "full")
		}
	}
}

// popped: the client's dialContext obtained this peer from Pop.
func (run *sysRun) popped(p *miniProxy) {
	run.mu.Lock()
	prev := run.lastK
	run.lastK = p.k
	var prevP *miniProxy
	for _, q := range run.all {
		if prev != 0 && q.k == prev {
			prevP = q
		}
	}
	run.mu.Unlock()
	if prevP != nil && atomic.CompareAndSwapInt32(&prevP.ended, 0, 1) {
		// dialLoop calls dialContext only after it closed the previous carrier
		run.rec.Struct("car.end", "k", prevP.k, "why", "redial")
	}
	ipv := "<absent>"
	if p.plan.IP != nil {
		ipv = *p.plan.IP
	}
	run.rec.Struct("car.open", "k", p.k, "s", 0, "pres", "S0", "hello", "full", "ip", ipv, "label", fmt.Sprintf("o%d", p.idx), "role", "main")
	atomic.StoreInt32(&p.popped, 1)
	if p.plan.Gate {
		// D15 schedule: the peer dies between Pop and the first write
		cls := "popped"
		if p.plan.Park {
			cls = "popped-unmarked"
			atomic.StoreInt32(&p.parkArmed, 1)
		}
		run.rec.Struct("car.fault", "k", p.k, "kind", "cut", "dir", "up", "cls", cls, "nth", 0, "upb", 0, "downb", 0)
		run.sr.omu.Lock()
		run.sr.lastFault = time.Now()
		run.sr.omu.Unlock()
		atomic.AddInt32(&run.sr.faults, 1)
		p.kill(0)
		if p.plan.Park {
			// wait until the client's data channel has left the open state: its
			// OnClose callback is now held at the peer.onclose gate, so the peer
			// is NOT yet marked closed when the write below fails
			select {
			case <-p.parked:
				run.rec.Struct("sys.note", "k", p.k, "what", "close callback parked; releasing the write")
			case <-time.After(4 * time.Second):
				run.rec.Note("proxy %d: the close callback never arrived at the gate", p.k)
			}
			time.AfterFunc(600*time.Millisecond, func() { p.unparkOnce.Do(func() { close(p.unpark) }) })
		} else {
			time.Sleep(400 * time.Millisecond) // let the close reach the client and its callback mark the peer closed
		}
	}
}

func (p *miniProxy) kill(keepWs time.Duration) {
	atomic.StoreInt32(&p.dead, 1)
	if p.pc != nil {
		p.pc.Close()
	}
	if p.ws != nil {
		if keepWs > 0 {
			ws := p.ws
			time.AfterFunc(keepWs, func() { ws.Close() })
		} else {
			p.ws.Close()
		}
	}
}

func (p *miniProxy) maybeFault() {
	f := p.plan.Fault
	if f == nil || atomic.LoadInt32(&p.dead) != 0 || atomic.LoadInt32(&p.frozen) != 0 {
		return
	}
	if atomic.LoadInt64(&p.upB) < f.AfterUp && atomic.LoadInt64(&p.downB) < f.AfterDown {
		return
	}
	p.once.Do(func() {
		run := p.run
		kind := "cut"
		if f.Kind == "freeze" {
			kind = "freeze"
		}
		run.rec.Struct("car.fault", "k", p.k, "kind", kind, "dir", "proxy", "cls", f.Kind, "nth", 0,
			"upb", int(atomic.LoadInt64(&p.upB)), "downb", int(atomic.LoadInt64(&p.downB)))
		run.sr.omu.Lock()
		run.sr.lastFault = time.Now()
		run.sr.omu.Unlock()
		atomic.AddInt32(&run.sr.faults, 1)
		if f.Kind == "freeze" {
			atomic.StoreInt32(&p.frozen, 1)
		} else {
			go p.kill(time.Duration(f.KeepWsMs) * time.Millisecond)
		}
	})
}

// relay is proxy/lib's datachannelHandler + copyLoop in miniature.
func (p *miniProxy) relay() {
	run := p.run
	u := url.URL{Scheme: "ws", Host: run.rig.Fwd.Addr(), Path: "/"}
	if p.plan.IP != nil {
		q := u.Query()
		q.Set("client_ip", *p.plan.IP)
		u.RawQuery = q.Encode()
	}
	link := &Link{K: p.k, Fault: p.plan.Link, Rec: run.rec, Owner: run.ses}
	link.OnFault = func(l *Link) {
		run.sr.omu.Lock()
		run.sr.lastFault = time.Now()
		run.sr.omu.Unlock()
		atomic.AddInt32(&run.sr.faults, 1)
	}
	run.sr.omu.Lock()
	run.sr.links = append(run.sr.links, link)
	run.sr.omu.Unlock()
	p.link = link
	d := websocket.Dialer{NetDial: func(network, addr string) (net.Conn, error) { return run.rig.Fwd.Dial(link) }, HandshakeTimeout: 5 * time.Second}
	ws, _, err := d.Dial(u.String(), nil)
	if err != nil {
		run.rec.Note("proxy %d: relay dial failed: %v", p.k, err)
		p.pc.Close()
		return
	}
	p.ws = websocketconn.New(ws)
	// data channel -> WebSocket
	p.dc.OnMessage(func(msg webrtc.DataChannelMessage) {
		if atomic.LoadInt32(&p.frozen) != 0 || atomic.LoadInt32(&p.dead) != 0 {
			return
		}
		if _, err := p.ws.Write(msg.Data); err != nil {
			p.pc.Close()
			return
		}
		atomic.AddInt64(&p.upB, int64(len(msg.Data)))
		p.maybeFault()
	})
	p.dc.OnClose(func() {
		if atomic.LoadInt32(&p.dead) == 0 {
			p.ws.Close()
		}
	})
	// WebSocket -> data channel
	go func() {
		buf := make([]byte, 16384)
		for {
			n, err := p.ws.Read(buf)
			if n > 0 && atomic.LoadInt32(&p.frozen) == 0 && atomic.LoadInt32(&p.dead) == 0 {
				// like webRTCConn.Write: one message per read
				for p.dc.BufferedAmount() > 1<<20 && atomic.LoadInt32(&p.dead) == 0 {
					time.Sleep(time.Millisecond)
				}
				if serr := p.dc.Send(append([]byte(nil), buf[:n]...)); serr != nil {
					err = serr
				}
				atomic.AddInt64(&p.downB, int64(n))
				p.maybeFault()
			}
			if err != nil {
				if atomic.LoadInt32(&p.frozen) == 0 {
					// the relay connection is gone: a real proxy closes the client side too
					p.pc.Close()
				}
				return
			}
		}
	}()
}

// answer builds a mini-proxy for the offer and returns its answer.
func (run *sysRun) answer(idx int, plan PeerPlan, offer *webrtc.SessionDescription) (string, error) {
	s := webrtc.SettingEngine{}
	api := webrtc.NewAPI(webrtc.WithSettingEngine(s))
	pc, err := api.NewPeerConnection(webrtc.Configuration{})
	if err != nil {
		return "", err
	}
	p := &miniProxy{run: run, idx: idx, plan: plan, pc: pc, parked: make(chan struct{}), unpark: make(chan struct{})}
	run.mu.Lock()
	run.all = append(run.all, p)
	run.mu.Unlock()
	pc.OnDataChannel(func(dc *webrtc.DataChannel) {
		p.dc = dc
		p.label = dc.Label()
		dc.OnOpen(func() {
			p.k = run.rec.NextCarrier()
			run.rec.Struct("prx.open", "k", p.k, "offer", idx)
			p.relay()
			run.mu.Lock()
			run.proxies[p.label] = p
			run.mu.Unlock()
			sysRuns.Store(p.label, run)
			if plan.PoolKill {
				d := time.Duration(plan.PoolKillMs) * time.Millisecond
				if d == 0 {
					d = 150 * time.Millisecond
				}
				time.AfterFunc(d, func() {
					if atomic.LoadInt32(&p.popped) == 0 && atomic.LoadInt32(&run.sr.ending) == 0 {
						run.rec.Struct("sys.note", "k", p.k, "what", "reserve proxy dies in the pool")
						atomic.AddInt32(&run.sr.faults, 1)
						p.kill(0)
					}
				})
			}
		})
	})
	if err := pc.SetRemoteDescription(*offer); err != nil {
		pc.Close()
		return "", err
	}
	done := webrtc.GatheringCompletePromise(pc)
	ans, err := pc.CreateAnswer(nil)
	if err != nil {
		pc.Close()
		return "", err
	}
	if err := pc.SetLocalDescription(ans); err != nil {
		pc.Close()
		return "", err
	}
	select {
	case <-done:
	case <-time.After(10 * time.Second):
		pc.Close()
		return "", fmt.Errorf("ICE gathering timeout")
	}
	if plan.Answer == "dud" {
		// the answer is delivered but this proxy is already gone
		pc.Close()
	}
	return util.SerializeSessionDescription(pc.LocalDescription())
}

func (run *sysRun) ServeHTTP(w http.ResponseWriter, r *http.Request) {
	body, _ := ioutil.ReadAll(http.MaxBytesReader(w, r.Body, 100000))
	idx := int(atomic.AddInt32(&run.nOff, 1)) - 1
	plan := PeerPlan{Answer: "ok"}
	if idx < len(run.sc.Peers) {
		plan = run.sc.Peers[idx]
	} else if n := len(run.sc.Peers); n > 0 {
		plan.IP = run.sc.Peers[n-1].IP
	}
	if plan.Answer == "" {
		plan.Answer = "ok"
	}
	run.rec.Struct("brk.offer", "offer", idx, "answer", plan.Answer)
	if plan.Answer != "ok" && plan.Answer != "delay" {
		atomic.AddInt32(&run.sr.faults, 1)
		run.sr.omu.Lock()
		run.sr.lastFault = time.Now()
		run.sr.omu.Unlock()
	}
	if plan.DelayMs > 0 {
		time.Sleep(time.Duration(plan.DelayMs) * time.Millisecond)
	}
	req, err := messages.DecodeClientPollRequest(body)
	if err != nil {
		run.rec.Note("broker: bad poll request: %v", err)
		w.WriteHeader(http.StatusBadRequest)
		return
	}
	switch plan.Answer {
	case "http500":
		w.WriteHeader(http.StatusInternalServerError)
		return
	case "error":
		b, _ := (&messages.ClientPollResponse{Error: "no snowflake proxies currently available"}).EncodePollResponse()
		w.Write(b)
		return
	}
	offer, err := util.DeserializeSessionDescription(req.Offer)
	if err != nil {
		w.WriteHeader(http.StatusBadRequest)
		return
	}
	ans, err := run.answer(idx, plan, offer)
	if err != nil {
		run.rec.Note("broker: cannot answer offer %d: %v", idx, err)
		w.WriteHeader(http.StatusInternalServerError)
		return
	}
	b, _ := (&messages.ClientPollResponse{Answer: ans}).EncodePollResponse()
	w.Write(b)
}

// RunSys executes one system scenario.
func (r *Rig) RunSys(sc *SysScenario, index int) *Result {
	t0 := time.Now()
	rec := NewRecorder()
	plan := &SessionPlan{Up: sc.Up, Down: sc.Down, ReadStalls: sc.ReadStalls}
	sr := &scenarioRun{rig: r, sc: &Scenario{Name: sc.Name, Seed: sc.Seed}, rec: rec, oindex: map[string]int{}, stale: r.Stale, t0: t0, endCh: make(chan struct{})}
	sr.ocond = sync.NewCond(&sr.omu)
	sr.lastFault = t0
	ses := &session{sc: sr, idx: 0, plan: plan}
	ses.key[0], ses.key[1] = sc.Seed*2654435761+1, sc.Seed*40503+7
	sr.sess = []*session{ses}
	run := &sysRun{rig: r, sc: sc, sr: sr, ses: ses, rec: rec, proxies: map[string]*miniProxy{}}
	res := &Result{Name: sc.Name}
	for _, p := range sc.Peers {
		if p.Fault != nil || p.Link != nil || p.Gate || p.PoolKill || (p.Answer != "" && p.Answer != "ok") {
			res.Planned++
		}
	}
	bound := 120 * time.Second
	if sc.BoundMs > 0 {
		bound = time.Duration(sc.BoundMs) * time.Millisecond
	}
	rec.Struct("ses.start", "s", 0, "id", "S0", "cid", "", "up", int(sc.Up), "down", int(sc.Down), "bad", "")
	broker := httptest.NewServer(run)
	defer broker.Close()
	max := sc.Max
	if max < 1 {
		max = 1
	}
	// NewSnowflakeClient mutates http.DefaultTransport (createBrokerTransport):
	// concurrent calls race with each other (reported in notes/C20_candidates.md);
	// the rig serialises them so that its own -race runs show other things.
	newClientMu.Lock()
	tr, err := sfclient.NewSnowflakeClient(sfclient.ClientConfig{BrokerURL: broker.URL + "/", KeepLocalAddresses: true, Max: max})
	newClientMu.Unlock()
	if err != nil {
		rec.Note("NewSnowflakeClient: %v", err)
		res.Notes = rec.Notes
		return res
	}
	conn, err := tr.Dial()
	if err != nil {
		rec.Struct("cli.dead", "s", 0, "err", "Dial: "+shortErr(err))
	} else {
		go ses.writeStream(conn, "up", sc.Up)
		go ses.readStream(conn, "down", sc.Down)
	}
	tick := time.NewTicker(20 * time.Millisecond)
	var lastMoved int64 = -1
	lastProgress := time.Now()
	for range tick.C {
		if ses.complete() {
			res.Done = true
			break
		}
		if moved := atomic.LoadInt64(&ses.got[0]) + atomic.LoadInt64(&ses.got[1]); moved != lastMoved {
			lastMoved, lastProgress = moved, time.Now()
		}
		sr.omu.Lock()
		lf := sr.lastFault
		sr.omu.Unlock()
		if time.Since(lf) > bound && time.Since(lastProgress) > bound {
			res.Stalled = true
			break
		}
		if err != nil || atomic.LoadInt32(&ses.failed) != 0 {
			break
		}
	}
	tick.Stop()
	if res.Stalled {
		st := fmt.Sprintf("S0 up %d/%d down %d/%d offers=%d", atomic.LoadInt64(&ses.got[0]), sc.Up, atomic.LoadInt64(&ses.got[1]), sc.Down, atomic.LoadInt32(&run.nOff))
		res.State = st
		rec.Struct("stall", "state", st)
	}
	atomic.StoreInt32(&sr.ending, 1)
	if conn != nil {
		cdone := make(chan struct{})
		go func() { conn.Close(); close(cdone) }()
		select {
		case <-cdone:
		case <-time.After(15 * time.Second):
			rec.Note("client Close() did not return within 15 s")
		}
	}
	if ses.srvConn != nil {
		ses.srvConn.Close()
	}
	run.mu.Lock()
	all := append([]*miniProxy(nil), run.all...)
	run.mu.Unlock()
	for _, p := range all {
		if p.label != "" {
			sysRuns.Delete(p.label)
		}
		p.unparkOnce.Do(func() { close(p.unpark) })
		p.kill(0)
	}
	sr.omu.Lock()
	links := append([]*Link(nil), sr.links...)
	sr.omu.Unlock()
	for _, l := range links {
		l.Kill()
	}
	time.Sleep(50 * time.Millisecond)
	rec.Struct("end", "done", res.Done)
	res.Events = rec.Events()
	ses.forget()
	res.Notes = rec.Notes
	res.Faults = int(atomic.LoadInt32(&sr.faults))
	res.Dials = int(atomic.LoadInt32(&run.nOff))
	res.Bytes = atomic.LoadInt64(&ses.got[0]) + atomic.LoadInt64(&ses.got[1])
	res.WallMs = int(time.Since(t0) / time.Millisecond)
	return res
}

// MarshalSys is a helper for the driver.
func MarshalSys(v interface{}) []byte { b, _ := json.Marshal(v); return b }
