//go:build verif

// corerig runs carrier/fault scenarios (made from TLC behaviours of
// spec/ServerMux and spec/Tunnel by lib/checks) against the real snowflake
// server (server/lib Transport.Listen/Accept, plain HTTP on loopback) and
// model clients whose packet stack is the real one (turbotunnel
// RedialPacketConn, kcp, smux configured as client/lib newSession, over real
// websocketconn carriers through a fault-injecting TCP forwarder).  It only
// executes and records; the recorded events are judged by TLC.
//
//	corerig [-par N] [-bound ms] [-stale ms] <scenarios.ndjson> <results.ndjson>
package main

import (
	"encoding/json"
	"flag"
	"io/ioutil"
	"log"
	"sync"
	"time"

	"verifharness/rig"
	"verifharness/vh"
)

func main() {
	par := flag.Int("par", 48, "scenarios in flight")
	bound := flag.Int("bound", 60000, "liveness bound in ms, measured from the last fault that fired")
	stale := flag.Int("stale", 600, "client staleness timeout in ms")
	flag.Parse()
	if flag.NArg() != 2 {
		vh.Fatal("usage: corerig [flags] scenarios.ndjson results.ndjson")
	}
	log.SetOutput(ioutil.Discard) // the server logs every carrier
	raw, err := vh.ReadCases(flag.Arg(0))
	if err != nil {
		vh.Fatal("read scenarios: %v", err)
	}
	out, err := vh.NewWriter(flag.Arg(1))
	if err != nil {
		vh.Fatal("open output: %v", err)
	}
	r, err := rig.NewRig()
	if err != nil {
		vh.Fatal("start server: %v", err)
	}
	r.Bound = time.Duration(*bound) * time.Millisecond
	r.Stale = time.Duration(*stale) * time.Millisecond
	t0 := time.Now()
	var mu sync.Mutex
	done, stalled, faults, dials := 0, 0, 0, 0
	var bytes int64
	vh.RunParallel(len(raw), *par, func(i int) {
		var sc rig.Scenario
		if err := json.Unmarshal(raw[i], &sc); err != nil {
			out.Put(map[string]interface{}{"name": "?", "error": "bad scenario: " + err.Error(), "idx": i})
			return
		}
		res := r.Run(&sc, i)
		out.Put(res)
		mu.Lock()
		if res.Done {
			done++
		}
		if res.Stalled {
			stalled++
		}
		faults += res.Faults
		dials += res.Dials
		bytes += res.Bytes
		mu.Unlock()
	}, func(i int, v interface{}, stack string) {
		out.Put(map[string]interface{}{"name": "?", "idx": i, "panic": v, "stack": stack})
	})
	orphans := r.Orphans.Events()
	out.Put(map[string]interface{}{"summary": map[string]interface{}{
		"cases": len(raw), "done": done, "stalled": stalled, "faults": faults, "dials": dials, "bytes": bytes,
		"wall_ms": int(time.Since(t0) / time.Millisecond), "orphans": orphans}})
	if err := out.Close(); err != nil {
		vh.Fatal("write output: %v", err)
	}
}
