// armordrv replays the cases enumerated by spec/Armor (TLC) through the real
// common/amp armor encoder and decoder and compares with the expected result
// printed by TLC.
//
//	armordrv rt    <cases.ndjson> <out.ndjson> <seed>   round-trip cases
//	armordrv doc   <cases.ndjson> <out.ndjson> <seed>   abstract documents
//	armordrv stream <cases.ndjson> <out.ndjson> <seed> <kilobytes>   endless streams prefix.unit.unit..., counting source
//	armordrv extra <out.ndjson> <megabytes> [div]       hostile streams: termination, live heap, prompt delivery
package main

import (
	"bytes"
	"encoding/base64"
	"encoding/json"
	"errors"
	"fmt"
	"io"
	"os"
	"runtime"
	"runtime/debug"
	"sort"
	"strconv"
	"strings"
	"sync"
	"sync/atomic"
	"time"

	"git.torproject.org/pluggable-transports/snowflake.git/v2/common/amp"
	"golang.org/x/net/html"
	"verifharness/vh"
)

// The fixed AMP boilerplate (https://amp.dev/boilerplate/), the reference the
// real encoder output is compared with.
const boilerStart = `<!doctype html>
<html amp>
<head>
<meta charset="utf-8">
<script async src="https://cdn.ampproject.org/v0.js"></script>
<link rel="canonical" href="#">
<meta name="viewport" content="width=device-width">
<style amp-boilerplate>body{-webkit-animation:-amp-start 8s steps(1,end) 0s 1 normal both;-moz-animation:-amp-start 8s steps(1,end) 0s 1 normal both;-ms-animation:-amp-start 8s steps(1,end) 0s 1 normal both;animation:-amp-start 8s steps(1,end) 0s 1 normal both}@-webkit-keyframes -amp-start{from{visibility:hidden}to{visibility:visible}}@-moz-keyframes -amp-start{from{visibility:hidden}to{visibility:visible}}@-ms-keyframes -amp-start{from{visibility:hidden}to{visibility:visible}}@-o-keyframes -amp-start{from{visibility:hidden}to{visibility:visible}}@keyframes -amp-start{from{visibility:hidden}to{visibility:visible}}</style><noscript><style amp-boilerplate>body{-webkit-animation:none;-moz-animation:none;-ms-animation:none;animation:none}</style></noscript>
</head>
<body>
`
const boilerEnd = `</body>
</html>`

const (
	wordLimit    = 32
	elementLimit = 32 * 1024
)

var watchdog = 20 * time.Second

// ---------------------------------------------------------------------------
// scripted io.Reader: every Read follows the next directive of a cyclic script.

type scripted struct {
	data   []byte
	pos    int
	script []string
	si     int
}

func (s *scripted) Read(p []byte) (int, error) {
	if len(p) == 0 {
		return 0, nil
	}
	avail := len(s.data) - s.pos
	if avail == 0 {
		return 0, io.EOF
	}
	d := s.script[s.si%len(s.script)]
	s.si++
	want := len(p)
	if want > avail {
		want = avail
	}
	n := want
	var err error
	switch d {
	case "Zero":
		return 0, nil
	case "One":
		n = 1
	case "Seven":
		if n > 7 {
			n = 7
		}
	case "K4":
		if n > 4096 {
			n = 4096
		}
	case "Part":
		n = want / 2
		if n < 1 {
			n = 1
		}
	case "All":
	case "AllEOF":
		if s.pos+n == len(s.data) {
			err = io.EOF
		}
	default:
		panic("unknown directive " + d)
	}
	copy(p, s.data[s.pos:s.pos+n])
	s.pos += n
	return n, err
}

func isWS(b byte) bool {
	return b == '\t' || b == '\n' || b == '\f' || b == '\r' || b == ' '
}

func classify(err error) string {
	var uv amp.ErrUnknownVersion
	var ci base64.CorruptInputError
	switch {
	case err == nil:
		return "data"
	case errors.As(err, &uv):
		return "version"
	case errors.Is(err, html.ErrBufferExceeded):
		return "oversize"
	case errors.As(err, &ci), errors.Is(err, io.ErrUnexpectedEOF):
		return "badb64"
	case errors.Is(err, io.EOF):
		return "eof"
	case errors.Is(err, io.ErrNoProgress):
		return "noprogress"
	}
	m := err.Error()
	switch {
	case strings.HasPrefix(m, "missing </pre>"):
		return "unterminated"
	case strings.HasPrefix(m, "unexpected </"):
		return "stray"
	case strings.HasPrefix(m, "unexpected <"):
		return "nested"
	}
	return "other:" + m
}

type decodeResult struct {
	data  []byte
	class string
	err   error
	hung  bool
	panic string
}

// decode runs the real decoder over doc with the given reader script and
// consumer read size (0 = io.ReadAll) under a watchdog.
func decode(doc []byte, script []string, consumer int, limit time.Duration) decodeResult {
	ch := make(chan decodeResult, 1)
	go func() {
		var res decodeResult
		defer func() {
			if v := recover(); v != nil {
				res.panic = fmt.Sprint(v) + "\n" + string(debug.Stack())
			}
			ch <- res
		}()
		r, err := amp.NewArmorDecoder(&scripted{data: doc, script: script})
		if err != nil {
			res.err, res.class = err, classify(err)
			return
		}
		if consumer == 0 {
			res.data, err = io.ReadAll(r)
		} else {
			buf := make([]byte, consumer)
			zero := 0
			for {
				var n int
				n, err = r.Read(buf)
				res.data = append(res.data, buf[:n]...)
				if err != nil {
					break
				}
				if n == 0 {
					zero++
					if zero > 1000 {
						err = io.ErrNoProgress
						break
					}
				} else {
					zero = 0
				}
			}
			if err == io.EOF {
				err = nil
			}
		}
		res.err, res.class = err, classify(err)
	}()
	select {
	case r := <-ch:
		return r
	case <-time.After(limit):
		return decodeResult{hung: true}
	}
}

// ---------------------------------------------------------------------------
// round-trip cases

type elemExp struct {
	Words int `json:"words"`
	Chars int `json:"chars"`
	Text  int `json:"text"`
	Last  int `json:"last"`
}
type rtCase struct {
	N  int      `json:"n"`
	Ck []int    `json:"ck"`
	Rd []string `json:"rd"`
	Co int      `json:"co"`
	Rw struct {
		K string `json:"k"`
		A string `json:"a"`
		B string `json:"b"`
		N int    `json:"n"`
	} `json:"rw"`
	Ins struct {
		Where string `json:"where"`
		What  string `json:"what"`
	} `json:"ins"`
	Expect struct {
		Class   string    `json:"class"`
		Maxtext int       `json:"maxtext"`
		Chars   int       `json:"chars"`
		Elems   []elemExp `json:"elems"`
	} `json:"expect"`
}

var wsByte = map[string]byte{"sp": ' ', "tab": '\t', "lf": '\n', "ff": '\f', "cr": '\r'}
var ws5 = []byte{' ', '\t', '\n', '\f', '\r'}

// encode drives the real encoder with the write chunking ck.
func encode(payload []byte, ck []int) ([]byte, string) {
	var buf bytes.Buffer
	enc, err := amp.NewArmorEncoder(&buf)
	if err != nil {
		return nil, "NewArmorEncoder: " + err.Error()
	}
	pos, si := 0, 0
	writes := 0
	for pos < len(payload) {
		k := ck[si%len(ck)]
		si++
		if k > len(payload)-pos {
			k = len(payload) - pos
		}
		chunk := append([]byte(nil), payload[pos:pos+k]...)
		n, err := enc.Write(chunk)
		if err != nil || n != k {
			return nil, fmt.Sprintf("Write(%d bytes) = (%d, %v)", k, n, err)
		}
		for i := range chunk { // the caller may reuse its buffer
			chunk[i] ^= 0xff
		}
		pos += k
		writes++
		if writes > 10*len(payload)+10 {
			return nil, "chunking makes no progress"
		}
	}
	if err := enc.Close(); err != nil {
		return nil, "Close: " + err.Error()
	}
	return buf.Bytes(), ""
}

// parseArmor splits real encoder output into the texts of its pre elements,
// insisting on exactly: boilerplate start, (<pre> text </pre> "\n")*, boilerplate end.
func parseArmor(doc []byte) ([][]byte, string) {
	if !bytes.HasPrefix(doc, []byte(boilerStart)) {
		return nil, "boilerplate-start"
	}
	if !bytes.HasSuffix(doc, []byte(boilerEnd)) || len(doc) < len(boilerStart)+len(boilerEnd) {
		return nil, "boilerplate-end"
	}
	mid := doc[len(boilerStart) : len(doc)-len(boilerEnd)]
	var texts [][]byte
	for len(mid) > 0 {
		if !bytes.HasPrefix(mid, []byte("<pre>")) {
			return nil, "markup-between-elements"
		}
		mid = mid[5:]
		i := bytes.IndexByte(mid, '<')
		if i < 0 || !bytes.HasPrefix(mid[i:], []byte("</pre>\n")) {
			return nil, "element-not-closed"
		}
		texts = append(texts, mid[:i])
		mid = mid[i+7:]
	}
	return texts, ""
}

const b64alphabet = "ABCDEFGHIJKLMNOPQRSTUVWXYZabcdefghijklmnopqrstuvwxyz0123456789+/="

// checkStructure compares the real encoder output with the contract's structure.
func checkStructure(texts [][]byte, c *rtCase) string {
	if len(texts) != len(c.Expect.Elems) {
		return fmt.Sprintf("element-count: %d pre elements, contract says %d", len(texts), len(c.Expect.Elems))
	}
	total := 0
	for i, t := range texts {
		e := c.Expect.Elems[i]
		if len(t) > elementLimit {
			return fmt.Sprintf("element-size: element %d has %d bytes of text", i+1, len(t))
		}
		if len(t) != e.Text {
			return fmt.Sprintf("element-text: element %d has %d bytes of text, contract says %d", i+1, len(t), e.Text)
		}
		words := bytes.FieldsFunc(t, func(r rune) bool { return r < 128 && isWS(byte(r)) })
		if len(words) != e.Words {
			return fmt.Sprintf("word-count: element %d has %d words, contract says %d", i+1, len(words), e.Words)
		}
		chars := 0
		for j, w := range words {
			if len(w) > wordLimit {
				return fmt.Sprintf("word-size: element %d word %d has %d bytes", i+1, j+1, len(w))
			}
			for _, b := range w {
				if strings.IndexByte(b64alphabet, b) < 0 {
					return fmt.Sprintf("word-bytes: element %d word %d contains byte %#x", i+1, j+1, b)
				}
			}
			chars += len(w)
		}
		if chars != e.Chars || len(words[len(words)-1]) != e.Last {
			return fmt.Sprintf("char-count: element %d has %d characters (last word %d), contract says %d (%d)", i+1, chars, len(words[len(words)-1]), e.Chars, e.Last)
		}
		total += chars
	}
	if total != c.Expect.Chars {
		return fmt.Sprintf("char-total: %d characters, contract says %d", total, c.Expect.Chars)
	}
	if len(texts) > 0 && (len(texts[0]) < 2 || texts[0][1] != '0') {
		return "version-char: the first character inside the first element is not 0"
	}
	return ""
}

// rewriteText replaces the separators of one element's text.
func rewriteText(t []byte, c *rtCase, rng *vh.Rng) []byte {
	if c.Rw.K == "id" {
		return t
	}
	out := make([]byte, 0, len(t)*2)
	j := 0
	for _, b := range t {
		if !isWS(b) {
			out = append(out, b)
			continue
		}
		switch c.Rw.K {
		case "sub":
			out = append(out, wsByte[c.Rw.A])
		case "pair":
			out = append(out, wsByte[c.Rw.A], wsByte[c.Rw.B])
		case "alt":
			out = append(out, ws5[j%5])
		case "rand":
			out = append(out, ws5[rng.Intn(5)])
		case "grow":
			out = append(out, wsByte[c.Rw.A])
			if j < c.Rw.N {
				out = append(out, wsByte[c.Rw.A])
			}
		default:
			vh.Fatal("unknown rewrite %q", c.Rw.K)
		}
		j++
	}
	return out
}

func insertion(what string) []byte {
	switch what {
	case "text":
		return []byte("lorem ipsum 0QUJD dolor &amp; sit\n")
	case "tag":
		return []byte("<div class=\"amp-x\" data-pre=1><p></p></div><br/><img src=\"x\" alt='pre'>\n")
	case "comment":
		return []byte("<!-- served by a cache -->")
	case "commentpre":
		return []byte("<!-- <pre> 0QUJD </pre> -->\n")
	case "attrpre":
		return []byte("<a title=\"<pre>\" href='</pre>'>x</a>")
	case "script":
		return []byte("<script>var a=\"<pre>0QUJD</pre>\";</script><style>pre{color:red}</style>\n")
	case "bigtext":
		return bytes.Repeat([]byte("word "), 6000)
	case "mixed":
		return []byte("text <span>0QUJD</span><!-- <pre> --> more<amp-analytics></amp-analytics>\n")
	case "none":
		return nil
	}
	vh.Fatal("unknown insertion %q", what)
	return nil
}

func rebuild(texts [][]byte, c *rtCase, rng *vh.Rng) ([]byte, int) {
	ins := insertion(c.Ins.What)
	at := func(w string) []byte {
		if c.Ins.Where == w || (c.Ins.Where == "all" && c.Ins.What != "none") {
			return ins
		}
		return nil
	}
	var b bytes.Buffer
	maxtext := 0
	b.Write(at("start"))
	b.WriteString(boilerStart)
	b.Write(at("before"))
	for i, t := range texts {
		rt := rewriteText(t, c, rng)
		if len(rt) > maxtext {
			maxtext = len(rt)
		}
		b.WriteString("<pre>")
		b.Write(rt)
		b.WriteString("</pre>\n")
		if i < len(texts)-1 {
			b.Write(at("between"))
		}
	}
	b.Write(at("after"))
	b.WriteString(boilerEnd)
	b.Write(at("end"))
	return b.Bytes(), maxtext
}

func ckClass(ck []int) string {
	if len(ck) == 1 && ck[0] >= 100000000 {
		return "all"
	}
	s := make([]string, len(ck))
	for i, k := range ck {
		s[i] = strconv.Itoa(k)
	}
	return strings.Join(s, ",")
}

type runner struct {
	w          *vh.Writer
	key        uint64
	nontrivial int64
	deviations int64
	decodes    int64
	suspects   []int
	devEx      []string
	mu         sync.Mutex
}

func (r *runner) suspect(i int) {
	r.mu.Lock()
	r.suspects = append(r.suspects, i)
	r.mu.Unlock()
}

func (r *runner) doRT(raw json.RawMessage, idx int, limit time.Duration, confirm bool) {
	var c rtCase
	if err := json.Unmarshal(raw, &c); err != nil {
		vh.Fatal("bad case %d: %v", idx, err)
	}
	rng := vh.NewRng(r.key ^ uint64(idx)*0x9e37)
	payload := make([]byte, c.N)
	vh.Fill(payload, r.key+uint64(idx), 0)
	report := func(sig, detail string) {
		r.w.Put(vh.Result{Idx: idx, Sig: sig, Detail: detail, Case: c})
	}
	doc, bad := encode(payload, c.Ck)
	if bad != "" {
		report("rt/encoder-write/ck="+ckClass(c.Ck), bad)
		return
	}
	texts, bad := parseArmor(doc)
	if bad != "" {
		report("rt/encoder-output/"+bad, "the armored document is not boilerplate + pre elements: "+bad)
		return
	}
	if bad = checkStructure(texts, &c); bad != "" {
		report("rt/encoder-structure/"+strings.SplitN(bad, ":", 2)[0], bad)
		return
	}
	rdoc, maxtext := rebuild(texts, &c, rng)
	if maxtext != c.Expect.Maxtext {
		vh.Fatal("case %d: rewritten element has %d bytes, the model says %d (driver and model disagree on the rewrite)", idx, maxtext, c.Expect.Maxtext)
	}
	trivial := c.N == 0 || (ckClass(c.Ck) == "all" && len(c.Rd) == 1 && c.Rd[0] == "All" && c.Rw.K == "id" && c.Ins.What == "none" && c.Co == 0)
	if !trivial && !confirm {
		atomic.AddInt64(&r.nontrivial, 1)
	}
	res := decode(rdoc, c.Rd, c.Co, limit)
	atomic.AddInt64(&r.decodes, 1)
	sigtail := fmt.Sprintf("/rw=%s/ins=%s@%s/reader=%s/consumer=%d", c.Rw.K, c.Ins.What, c.Ins.Where, strings.Join(c.Rd, "+"), c.Co)
	if res.hung {
		if !confirm {
			r.suspect(idx)
			return
		}
		report("rt/hang"+sigtail, fmt.Sprintf("decoding did not finish within %v (confirmed alone with the doubled limit)", limit))
		return
	}
	if res.panic != "" {
		report("rt/panic"+sigtail, res.panic)
		return
	}
	ok := false
	switch c.Expect.Class {
	case "data":
		ok = res.class == "data" && bytes.Equal(res.data, payload)
	case "oversize": // the oversized-element error, or a decoder that copes with the element
		ok = res.class == "oversize" || (res.class == "data" && bytes.Equal(res.data, payload))
	case "band": // within three bytes of the limit: don't care, but never wrong data
		ok = res.class != "data" || bytes.Equal(res.data, payload)
	default:
		vh.Fatal("unknown expected class %q", c.Expect.Class)
	}
	if !ok {
		got := res.class
		if got == "data" {
			got = "wrong-data"
		}
		report("rt/expect="+c.Expect.Class+"/got="+got+sigtail,
			fmt.Sprintf("payload %d bytes, chunking %s: decoder returned %d bytes, err=%v; contract says %s", c.N, ckClass(c.Ck), len(res.data), res.err, c.Expect.Class))
	}
}

// ---------------------------------------------------------------------------
// abstract documents

type docCase struct {
	Doc    []string `json:"doc"`
	Expect struct {
		First []struct {
			Class string `json:"class"`
			Toks  []int  `json:"toks"`
		} `json:"first"`
		Any []string `json:"any"`
	} `json:"expect"`
}

var variants = map[string][]string{
	"PreOpen":  {"<pre>", "<pre>", "<pre class=\"x\">", "<pre\n>", "<pre id='a' data-x=\">\">"},
	"PreClose": {"</pre>", "</pre>", "</pre >", "</pre\n>"},
	"Ver0":     {"0"},
	"VerBad":   {"1", "A", "/", "9", "o", "+"},
	"Word":     {"QUJD", "/+9z", "abcd", "1234", "AAAA", "Zm9v"},
	"BadB64":   {"QU*D", "QU-D", "QU_D", "QU!D", "QU~D", "QU.D", "QU\x0bD"},
	"Text":     {"some text", "blah\tblah", "Lore\nipsu", "AAAA BBBB"},
	"Ws":       {" ", "\n", "\t\r\n", "\f", "  \n  "},
	"Tag":      {"<b>", "</b>", "<br/>", "<div class=\"x\">", "<p>", "<img src=x>", "<a title=\"<pre>\">", "<amp-img>", "</html>"},
	"Comment":  {"<!-- c -->", "<!--<pre>-->", "<!---->", "<!-- </pre> -->", "<!doctype html>", "<?php x ?>", "<!DOCTYPE html PUBLIC \"-//W3C//DTD\">"},
	"Cut":      {"<pre", "</pre", "<!-- c", "<a href=\"x", "<b ", "</b", "<pre class=\"", "<!doctype htm"},
}

var hugeVariants = []func() string{
	func() string { return strings.Repeat("QUJDQUJDQUJDQUJDQUJDQUJDQUJDQUJD\n", 1000) },
	func() string { return strings.Repeat("A", 33000) },
	func() string { return strings.Repeat("QUJD ", 6600) + "    " },
}

func concretise(kind string, rng *vh.Rng) string {
	switch kind {
	case "Boiler":
		return boilerStart
	case "Huge":
		return hugeVariants[rng.Intn(len(hugeVariants))]()
	}
	v, ok := variants[kind]
	if !ok {
		vh.Fatal("unknown token kind %q", kind)
	}
	return v[rng.Intn(len(v))]
}

var docScripts = [][]string{{"All"}, {"One"}, {"Seven"}, {"Part"}, {"Zero", "Part"}, {"AllEOF"}, {"One", "AllEOF"}, {"K4", "Zero", "One"}}
var consumers = []int{0, 1, 7, 4096}

func (r *runner) doDoc(raw json.RawMessage, idx int, limit time.Duration, confirm bool) {
	var c docCase
	if err := json.Unmarshal(raw, &c); err != nil {
		vh.Fatal("bad case %d: %v", idx, err)
	}
	rng := vh.NewRng(r.key ^ uint64(idx)*0x9e37)
	texts := make([]string, len(c.Doc))
	hasPre, hasHuge := false, false
	for i, k := range c.Doc {
		texts[i] = concretise(k, rng)
		if k == "PreOpen" {
			hasPre = true
		}
		if k == "Huge" {
			hasHuge = true
		}
	}
	doc := []byte(strings.Join(texts, ""))
	if hasPre && !confirm {
		atomic.AddInt64(&r.nontrivial, 1)
	}
	classes := map[string]bool{}
	var want [][]byte // acceptable data
	for _, f := range c.Expect.First {
		classes[f.Class] = true
		if f.Class == "data" {
			var sb strings.Builder
			for _, t := range f.Toks {
				for _, b := range []byte(texts[t-1]) {
					if !isWS(b) {
						sb.WriteByte(b)
					}
				}
			}
			s := sb.String()
			if len(s) == 0 || s[0] != '0' {
				vh.Fatal("case %d: concretisation has no version character although the contract says data", idx)
			}
			d, err := base64.StdEncoding.DecodeString(s[1:])
			if err != nil {
				vh.Fatal("case %d: concretisation is not base64 although the contract says data: %v", idx, err)
			}
			want = append(want, d)
		}
	}
	anyc := map[string]bool{}
	for _, a := range c.Expect.Any {
		anyc[a] = true
	}
	var exp []string
	for k := range classes {
		exp = append(exp, k)
	}
	sort.Strings(exp)
	scripts := docScripts
	if hasHuge {
		scripts = [][]string{{"All"}, docScripts[1+rng.Intn(len(docScripts)-1)]}
	}
	for _, script := range scripts {
		co := consumers[rng.Intn(len(consumers))]
		res := decode(doc, script, co, limit)
		atomic.AddInt64(&r.decodes, 1)
		sigtail := "/reader=" + strings.Join(script, "+")
		report := func(sig, detail string) {
			r.w.Put(vh.Result{Idx: idx, Sig: sig, Detail: fmt.Sprintf("%s [reader %v, consumer read size %d]", detail, script, co), Case: c})
		}
		if res.hung {
			if !confirm {
				r.suspect(idx)
				return
			}
			report("doc/hang"+sigtail, fmt.Sprintf("decoding %v did not finish within %v (confirmed alone with the doubled limit)", c.Doc, limit))
			return
		}
		if res.panic != "" {
			report("doc/panic"+sigtail, res.panic)
			return
		}
		got := res.class
		switch {
		case got == "data":
			ok := false
			for _, d := range want {
				if bytes.Equal(d, res.data) {
					ok = true
				}
			}
			if !ok {
				g := "data"
				if classes["data"] {
					g = "wrong-data"
				}
				report("doc/expect="+strings.Join(exp, "|")+"/got="+g+sigtail, fmt.Sprintf("document %v (%q) decoded to %d bytes without error", c.Doc, clip(doc), len(res.data)))
				return
			}
		case classes[got]:
		case classes["noversion"]: // nothing inside any pre: any error will do
		case anyc[got]:
			if atomic.AddInt64(&r.deviations, 1) <= 5 {
				r.mu.Lock()
				r.devEx = append(r.devEx, fmt.Sprintf("%v (%q): first fault %s, reported %s", c.Doc, clip(doc), strings.Join(exp, "|"), got))
				r.mu.Unlock()
			}
		default:
			report("doc/expect="+strings.Join(exp, "|")+"/got="+got+sigtail, fmt.Sprintf("document %v (%q): err=%v", c.Doc, clip(doc), res.err))
			return
		}
	}
}

func clip(b []byte) string {
	if len(b) > 300 {
		return string(b[:300]) + "..."
	}
	return string(b)
}

// ---------------------------------------------------------------------------
// endless streams prefix . unit . unit ... fed from a counting source: an
// error, or the first decoded byte, must come after a bounded amount of input

type streamCase struct {
	Pre    []string `json:"pre"`
	Unit   []string `json:"unit"`
	Expect struct {
		Kind   string `json:"kind"`
		Class  string `json:"class"`
		Within int    `json:"within"`
	} `json:"expect"`
}

func (r *runner) doStream(raw json.RawMessage, idx int, capBytes int, limit time.Duration, confirm bool) {
	var c streamCase
	if err := json.Unmarshal(raw, &c); err != nil {
		vh.Fatal("bad case %d: %v", idx, err)
	}
	rng := vh.NewRng(r.key ^ uint64(idx)*0x9e37)
	var pre, unit strings.Builder
	for _, k := range c.Pre {
		pre.WriteString(concretise(k, rng))
	}
	for _, k := range c.Unit {
		t := concretise(k, rng)
		if k == "Word" {
			t += []string{"", " ", "\n"}[rng.Intn(3)] // a word may or may not be followed by whitespace
		}
		unit.WriteString(t)
	}
	if !confirm {
		atomic.AddInt64(&r.nontrivial, 1)
	}
	g := &genReader{prefix: []byte(pre.String()), unit: []byte(unit.String()), total: capBytes / unit.Len() * unit.Len()}
	type out struct {
		firstAt int   // bytes handed out by the source when the first decoded byte (or the error) arrived
		n       int64 // decoded bytes
		err     error
		gotByte bool
		errAt   int // bytes handed out when the error was returned
		panic   string
	}
	ch := make(chan out, 1)
	go func() {
		var o out
		defer func() {
			if v := recover(); v != nil {
				o.panic = fmt.Sprint(v) + "\n" + string(debug.Stack())
			}
			if o.err != nil {
				o.errAt = g.handed()
			}
			ch <- o
		}()
		d, err := amp.NewArmorDecoder(g)
		if err != nil {
			o.err, o.firstAt = err, g.handed()
			return
		}
		var one [1]byte
		n, err := io.ReadFull(d, one[:])
		o.firstAt, o.gotByte, o.n = g.handed(), n == 1, int64(n)
		if err != nil {
			if err != io.EOF {
				o.err = err
			}
			return
		}
		m, err := io.Copy(io.Discard, d)
		o.n += m
		o.err = err
	}()
	atomic.AddInt64(&r.decodes, 1)
	var o out
	select {
	case o = <-ch:
	case <-time.After(limit):
		if !confirm {
			r.suspect(idx)
			return
		}
		r.w.Put(vh.Result{Idx: idx, Sig: "stream/hang/expect=" + c.Expect.Kind, Detail: fmt.Sprintf("stream %v (%v)*: decoding did not finish within %v", c.Pre, c.Unit, limit), Case: c})
		return
	}
	shape := fmt.Sprintf("stream %v (%v)* = %q (%q)*", c.Pre, c.Unit, clip([]byte(pre.String())), clip([]byte(unit.String())))
	switch {
	case o.panic != "":
		r.w.Put(vh.Result{Idx: idx, Sig: "stream/panic", Detail: shape + ": " + o.panic, Case: c})
	case c.Expect.Kind == "error":
		if o.err == nil || o.errAt > c.Expect.Within+len(g.prefix) {
			r.w.Put(vh.Result{Idx: idx, Sig: "stream/expect=error:" + c.Expect.Class + "/got=late-or-none", Detail: fmt.Sprintf("%s: err=%v after %d of %d bytes of input; the contract says an error within %d", shape, o.err, o.errAt, g.size(), c.Expect.Within), Case: c})
		}
	case c.Expect.Kind == "prompt":
		if !o.gotByte || o.firstAt > c.Expect.Within+len(g.prefix) {
			shapeClass := "pre-text-in-one-run"
			for _, k := range append(append([]string{}, c.Pre...), c.Unit...) {
				if k == "Tag" || k == "Comment" {
					shapeClass = "pre-text-interleaved-with-inner-tags"
				}
			}
			for _, k := range c.Unit {
				if k == "PreClose" {
					shapeClass = "many-pre-elements"
				}
			}
			r.w.Put(vh.Result{Idx: idx, Sig: "stream/late-delivery/" + shapeClass, Detail: fmt.Sprintf("%s: first decoded byte after %d bytes of input (got one: %v, err=%v); the contract says within %d", shape, o.firstAt, o.gotByte, o.err, c.Expect.Within), Case: c})
		}
	}
}

// ---------------------------------------------------------------------------
// hostile streams: the decoder must finish and must not buffer without bound

type genReader struct {
	prefix, unit, suffix []byte
	total                int // bytes of repeated unit
	pos                  int
	zeroForever          bool
	handedAtEOF          bool
	count                int64 // bytes handed out (read with handed())
	every                int64 // call sample every so many bytes handed out (0: never)
	nextSample           int64
	sample               func()
}

func (g *genReader) handed() int { return int(atomic.LoadInt64(&g.count)) }
func (g *genReader) size() int   { return len(g.prefix) + g.total + len(g.suffix) }

func (g *genReader) Read(p []byte) (n int, err error) {
	defer func() { atomic.AddInt64(&g.count, int64(n)) }()
	if g.every > 0 && g.count >= g.nextSample {
		g.nextSample = g.count + g.every
		g.sample()
	}
	if g.zeroForever {
		return 0, nil
	}
	if len(p) > 4096 {
		p = p[:4096] // a network-sized read, so that the count of bytes handed out is a fair measure
	}
	for n < len(p) {
		switch {
		case g.pos < len(g.prefix):
			c := copy(p[n:], g.prefix[g.pos:])
			n += c
			g.pos += c
		case g.pos < len(g.prefix)+g.total:
			off := (g.pos - len(g.prefix)) % len(g.unit)
			room := len(g.prefix) + g.total - g.pos
			src := g.unit[off:]
			if len(src) > room {
				src = src[:room]
			}
			c := copy(p[n:], src)
			n += c
			g.pos += c
		case g.pos < len(g.prefix)+g.total+len(g.suffix):
			c := copy(p[n:], g.suffix[g.pos-len(g.prefix)-g.total:])
			n += c
			g.pos += c
		default:
			if n == 0 {
				g.handedAtEOF = true
				return 0, io.EOF
			}
			return n, nil
		}
	}
	return n, nil
}

type hostile struct {
	name                 string
	prefix, unit, suffix string
	zero                 bool
	wantData             int  // >= 0: expected number of decoded bytes; -1: an error is expected; -2: either
	prompt               bool // the first decoded byte must arrive within promptBytes of input
	scale                int  // > 1: the stream is that many times shorter (streams of very many tiny tokens are slow)
}

const promptBytes = 4 * elementLimit // spec/Armor PromptBytes
const heapBound = 2 << 20            // live heap (after GC) a decode may add, whatever the length of the stream

func doExtra(w *vh.Writer, mb int, div int) (int, []interface{}) {
	var infos []interface{}
	total := mb << 20
	elem := "<pre>\n" + strings.Repeat("QUJDQUJDQUJDQUJDQUJDQUJDQUJDQUJD\n", 900) + "</pre>\n" // 28800 characters = 21600 bytes
	nElem := total / len(elem)
	w8 := strings.TrimSpace(strings.Repeat("QUFBQUFBQUFBQUFBQUFBQUFBQUFBQUFB ", 8)) // eight words of 32 characters = 192 bytes of payload
	cases := []hostile{
		{name: "unterminated-pre-one-huge-word", prefix: "<pre>0", unit: "A", wantData: -1},
		{name: "unterminated-pre-words-forever", prefix: "<pre>\n0", unit: "QUJD\n", wantData: -1},
		{name: "pre-whitespace-forever", prefix: "<pre>", unit: " ", wantData: -1},
		{name: "text-outside-pre-forever", prefix: "", unit: "x", wantData: -2},
		{name: "comment-forever", prefix: "<pre>0</pre><!--", unit: "-", wantData: -2},
		{name: "attribute-forever", prefix: "<a href=\"", unit: "a", wantData: -2},
		{name: "tagname-forever", prefix: "<", unit: "a", wantData: -2},
		{name: "script-forever", prefix: "<script>", unit: "var x;", wantData: -2},
		{name: "entity-forever", prefix: "<pre>0&", unit: "a", wantData: -1},
		{name: "tags-outside-forever", prefix: "", unit: "<b></b>", wantData: -1},
		{name: "tags-after-empty-payload", prefix: "<pre>0</pre>", unit: "<i>x</i>", wantData: 0},
		{name: "tags-inside-pre", prefix: "<pre>0", unit: "<b></b>", suffix: "</pre>", wantData: 0},
		{name: "nested-pre-forever", prefix: "", unit: "<pre>", wantData: -1},
		{name: "valid-elements-streamed", prefix: "<pre>0</pre>", unit: elem, wantData: nElem * 21600},
		{name: "reader-returns-zero-forever", zero: true, wantData: -1},
		// a pre whose text is interleaved with inner tags: many small tokens, </pre> never or late
		{name: "pre-words-between-tags-unterminated", prefix: "<pre>0 ", unit: w8 + "<i></i> ", wantData: -1, prompt: true, scale: div},
		{name: "pre-words-between-comments-unterminated", prefix: "<pre>\n0", unit: w8 + "\n<!--x-->", wantData: -1, prompt: true, scale: div},
		{name: "pre-words-between-tags-closed-late", prefix: "<pre>0", unit: w8 + "\n<br/>", suffix: "</pre>", wantData: total / div / (len(w8) + 6) * 192, prompt: true, scale: div},
		{name: "pre-single-words-between-tags-unterminated", prefix: "<pre>0 ", unit: "QUFB<i></i> ", wantData: -1, prompt: true, scale: 8 * div},
	}
	for i, h := range cases {
		tot := total
		if h.scale > 1 {
			tot = total / h.scale
		}
		if len(h.unit) > 0 {
			tot = tot / len(h.unit) * len(h.unit) // whole units only
		}
		g := &genReader{prefix: []byte(h.prefix), unit: []byte(h.unit), suffix: []byte(h.suffix), total: tot, zeroForever: h.zero}
		runtime.GC()
		debug.FreeOSMemory()
		var m0 runtime.MemStats
		runtime.ReadMemStats(&m0)
		// Live heap is sampled from inside the source's Read, every MB handed out:
		// the decoding goroutine is then standing still in our Read and the consumer
		// is about to block on the pipe, so after a forced collection HeapAlloc is
		// what the decoder retains (floating garbage and objects allocated during a
		// concurrent collection do not count).
		var peak uint64 = m0.HeapAlloc
		g.every = 1 << 20
		g.sample = func() {
			var m runtime.MemStats
			runtime.GC()
			runtime.ReadMemStats(&m)
			if m.HeapAlloc > peak {
				peak = m.HeapAlloc
			}
		}
		type out struct {
			n       int64
			err     error
			panic   string
			firstAt int
		}
		ch := make(chan out, 1)
		go func() {
			var o out
			o.firstAt = -1
			defer func() {
				if v := recover(); v != nil {
					o.panic = fmt.Sprint(v) + "\n" + string(debug.Stack())
				}
				ch <- o
			}()
			r, err := amp.NewArmorDecoder(g)
			if err != nil {
				o.err = err
				return
			}
			var one [1]byte
			if k, err := io.ReadFull(r, one[:]); err != nil {
				if err != io.EOF { // io.EOF: an empty payload
					o.err = err
				}
				return
			} else {
				o.n, o.firstAt = int64(k), g.handed()
			}
			m, err := io.Copy(io.Discard, r)
			o.n += m
			o.err = err
		}()
		var o out
		hung := false
		limit := 120 * time.Second
		select {
		case o = <-ch:
		case <-time.After(limit):
			hung = true
		}

		growth := int64(peak) - int64(m0.HeapAlloc)
		info := map[string]interface{}{"stream": h.name, "megabytes": float64(tot) / (1 << 20), "consumed": g.pos, "decoded": o.n, "err": fmt.Sprint(o.err), "heap_growth": growth, "first_byte_after": o.firstAt}
		infos = append(infos, info)
		if !hung && o.panic == "" && h.prompt && (o.firstAt < 0 || o.firstAt > promptBytes+len(h.prefix)) {
			w.Put(vh.Result{Idx: i, Sig: "hostile/late-delivery/" + h.name, Detail: fmt.Sprintf("first decoded byte after %d bytes of input (-1: never), the contract says within %d", o.firstAt, promptBytes), Case: info})
		}
		switch {
		case hung:
			w.Put(vh.Result{Idx: i, Sig: "hostile/hang/" + h.name, Detail: fmt.Sprintf("decoding the stream did not finish within %v", limit), Case: info})
		case o.panic != "":
			w.Put(vh.Result{Idx: i, Sig: "hostile/panic/" + h.name, Detail: o.panic, Case: info})
		case growth > heapBound:
			w.Put(vh.Result{Idx: i, Sig: "hostile/unbounded-buffering/" + h.name, Detail: fmt.Sprintf("heap grew by %d bytes while decoding a %d MB stream (bound %d MiB)", growth, mb, heapBound>>20), Case: info})
		case h.wantData == -1 && o.err == nil:
			w.Put(vh.Result{Idx: i, Sig: "hostile/no-error/" + h.name, Detail: fmt.Sprintf("decoded %d bytes without error", o.n), Case: info})
		case h.wantData >= 0 && (o.err != nil || o.n != int64(h.wantData)):
			w.Put(vh.Result{Idx: i, Sig: "hostile/wrong-result/" + h.name, Detail: fmt.Sprintf("decoded %d bytes, err=%v; expected %d bytes", o.n, o.err, h.wantData), Case: info})
		}
	}
	return len(cases), infos
}

// ---------------------------------------------------------------------------

func main() {
	if len(os.Args) < 3 {
		vh.Fatal("usage")
	}
	mode := os.Args[1]
	switch mode {
	case "rt", "doc", "stream":
		if len(os.Args) < 5 {
			vh.Fatal("usage")
		}
		cases, err := vh.ReadCases(os.Args[2])
		if err != nil {
			vh.Fatal("%v", err)
		}
		w, err := vh.NewWriter(os.Args[3])
		if err != nil {
			vh.Fatal("%v", err)
		}
		seed, _ := strconv.ParseUint(os.Args[4], 10, 64)
		r := &runner{w: w, key: seed * 0x1000003}
		base, _ := strconv.Atoi(os.Getenv("VERIF_IDX_BASE")) // replay of a single case: its original index (seeds the concretisation)
		one := func(i int, limit time.Duration, confirm bool) {
			switch mode {
			case "rt":
				r.doRT(cases[i], base+i, limit, confirm)
			case "doc":
				r.doDoc(cases[i], base+i, limit, confirm)
			default:
				kb := 1024
				if len(os.Args) > 5 {
					kb, _ = strconv.Atoi(os.Args[5])
				}
				r.doStream(cases[i], base+i, kb<<10, limit, confirm)
			}
		}
		onPanic := func(i int, v interface{}, stack string) {
			var c interface{}
			json.Unmarshal(cases[i], &c)
			w.Put(vh.Result{Idx: i, Sig: mode + "/panic", Detail: fmt.Sprint(v) + "\n" + stack, Case: c})
		}
		vh.RunParallel(len(cases), 0, func(i int) { one(i, watchdog, false) }, onPanic)
		// a timeout is confirmed by running the case alone with the doubled limit
		sort.Ints(r.suspects)
		for _, i := range r.suspects {
			func() {
				defer func() {
					if v := recover(); v != nil {
						onPanic(i, v, string(debug.Stack()))
					}
				}()
				one(i, 2*watchdog, true)
			}()
		}
		w.Put(map[string]interface{}{"summary": map[string]interface{}{"cases": len(cases), "nontrivial": r.nontrivial,
			"decodes": r.decodes, "deviations": r.deviations, "deviation_examples": r.devEx, "suspects": len(r.suspects)}})
		w.Close()
	case "extra":
		w, err := vh.NewWriter(os.Args[2])
		if err != nil {
			vh.Fatal("%v", err)
		}
		mb := 50
		if len(os.Args) > 3 {
			mb, _ = strconv.Atoi(os.Args[3])
		}
		div := 1 // the streams of many small tokens are that many times shorter (quick tier)
		if len(os.Args) > 4 {
			div, _ = strconv.Atoi(os.Args[4])
		}
		if div < 1 {
			div = 1
		}
		n, infos := doExtra(w, mb, div)
		w.Put(map[string]interface{}{"summary": map[string]interface{}{"cases": n, "nontrivial": n, "streams": infos}})
		w.Close()
	default:
		vh.Fatal("unknown mode %s", mode)
	}
}
