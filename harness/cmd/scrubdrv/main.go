// scrubdrv replays the cases enumerated by spec/Scrub (TLC) through the real
// common/safelog package.  TLC decides, per line of tokens, which address
// tokens MUST be replaced and whether the whole output text is determined; the
// driver only gives every token a concrete spelling (addresses spelled by Go's
// net package or in forms net.ParseIP accepts, a distinct address per token,
// seeded), executes safelog.Scrub / safelog.LogScrubber and compares data.
//
//	scrubdrv lines  <cases.ndjson> <out.ndjson> <seed> <nspell>
//	scrubdrv writer <cases.ndjson> <out.ndjson> <seed> <nspell>
//	scrubdrv long   <cases.ndjson> <out.ndjson> <seed> <nspell>   (spec/Scrub/ScrubLong.tla)
//	scrubdrv conc   <cases.ndjson> <out.ndjson> <seed> <rounds>
package main

import (
	"encoding/json"
	"fmt"
	"hash/fnv"
	"net"
	"net/netip"
	"os"
	"sort"
	"strconv"
	"strings"
	"sync"
	"sync/atomic"
	"time"

	"git.torproject.org/pluggable-transports/snowflake.git/v2/common/safelog"
	"verifharness/vh"
)

const placeholder = "[scrubbed]"

// D6sig is the signature of design finding D6 (DESIGN.md 2.4).
const D6sig = "survivor:addr-after-single-delim-consumed-by-previous-match"

var addrForms = map[string]bool{"v4": true, "v4p": true, "v6f": true, "v6c": true, "v6b": true,
	"v6bp": true, "v6m": true, "v6z": true, "v6zp": true}

// ---------------------------------------------------------------------------
// concretisation

type spell struct {
	form    string
	text    string   // the token as it appears in the line
	needles []string // the IP address proper (and the dotted quad of an IPv4-embedded form)
	variant string   // abstract spelling class (for signatures and coverage)
}

func octet(r *vh.Rng) int {
	switch r.Intn(3) {
	case 0:
		return r.Intn(10)
	case 1:
		return 10 + r.Intn(90)
	}
	return 100 + r.Intn(156)
}

func genV4(r *vh.Rng) string {
	ip := net.IPv4(byte(octet(r)), byte(octet(r)), byte(octet(r)), byte(octet(r)))
	return ip.String() // spelled by Go
}

func genPort(r *vh.Rng) int {
	switch r.Intn(5) {
	case 0:
		return 1 + r.Intn(9)
	case 1:
		return 10 + r.Intn(90)
	case 2:
		return 100 + r.Intn(900)
	case 3:
		return 1000 + r.Intn(9000)
	}
	return 10000 + r.Intn(55536)
}

func grp(r *vh.Rng) uint16 {
	w := 1 + r.Intn(4)
	lo := 1 << (4 * (w - 1))
	hi := 1 << (4 * w)
	return uint16(lo + r.Intn(hi-lo))
}

var styles = []string{"go", "lower", "upper", "pad", "mixed"}

func styleGroup(v uint16, style string, r *vh.Rng) string {
	switch style {
	case "upper":
		return fmt.Sprintf("%X", v)
	case "pad":
		return fmt.Sprintf("%04x", v)
	case "mixed":
		s := fmt.Sprintf("%x", v)
		for len(s) < 4 && r.Intn(2) == 0 {
			s = "0" + s
		}
		b := []byte(s)
		for i := range b {
			if b[i] >= 'a' && b[i] <= 'f' && r.Intn(2) == 0 {
				b[i] -= 32
			}
		}
		return string(b)
	}
	return fmt.Sprintf("%x", v)
}

func groups(n int, style string, r *vh.Rng) []string {
	out := make([]string, n)
	for i := range out {
		out[i] = styleGroup(grp(r), style, r)
	}
	return out
}

// goPrint re-spells an address the way net.IP.String() prints it.
func goPrint(s string) string {
	ip := net.ParseIP(s)
	if ip == nil {
		vh.Fatal("generator produced an address net.ParseIP rejects: %q", s)
	}
	return ip.String()
}

func genV6Full(r *vh.Rng) (string, string) {
	style := styles[r.Intn(len(styles))]
	g := groups(8, style, r)
	variant := "full/" + style
	if r.Intn(4) == 0 { // explicit zero groups (accepted, not compressed)
		z := []string{"0", "0000", "00"}
		for k := 1 + r.Intn(3); k > 0; k-- {
			g[r.Intn(8)] = z[r.Intn(len(z))]
		}
		variant = "full-explicit0/" + style
		if style == "go" {
			style = "lower"
			variant = "full-explicit0/lower"
		}
	}
	s := strings.Join(g, ":")
	if style == "go" {
		s = goPrint(s)
	}
	return s, variant
}

var comprVariants = []string{"run1@start", "run1@mid", "run1@end", "run@start", "run@mid", "run@end", "all"}

func genV6Compressed(r *vh.Rng) (string, string) {
	v := comprVariants[r.Intn(len(comprVariants))]
	style := styles[r.Intn(len(styles))]
	var a, b int // explicit groups before / after "::"
	switch v {
	case "run1@start":
		a, b = 0, 7
	case "run1@end":
		a, b = 7, 0
	case "run1@mid":
		a = 1 + r.Intn(6)
		b = 7 - a
	case "run@start":
		a, b = 0, 1+r.Intn(6)
	case "run@end":
		a, b = 1+r.Intn(6), 0
	case "run@mid":
		n := 2 + r.Intn(5) // explicit groups, 2..6
		a = 1 + r.Intn(n-1)
		b = n - a
	case "all":
		a, b = 0, 0
	}
	st := style
	if st == "go" {
		st = "lower"
	}
	s := strings.Join(groups(a, st, r), ":") + "::" + strings.Join(groups(b, st, r), ":")
	if style == "go" {
		s = goPrint(s)
		if strings.HasPrefix(v, "run1") {
			return s, "full-explicit0/go" // Go never compresses a single zero group
		}
	}
	return s, v + "/" + style
}

var embVariants = []string{"mapped", "mapped-upper", "compat", "prefix::", "::groups", "mid", "full6"}

func genV6Embedded(r *vh.Rng) (string, string, string) {
	v := embVariants[r.Intn(len(embVariants))]
	v4 := genV4(r)
	style := styles[1+r.Intn(len(styles)-1)]
	var s string
	switch v {
	case "mapped": // spelled by Go: netip.Addr.String() of an IPv4-mapped address
		a4 := netip.MustParseAddr(v4)
		s = netip.AddrFrom16(a4.As16()).String()
		style = "go"
	case "mapped-upper":
		s = "::FFFF:" + v4
		style = "upper"
	case "compat":
		s = "::" + v4
		style = "lower"
	case "prefix::":
		s = strings.Join(groups(1+r.Intn(5), style, r), ":") + "::" + v4
	case "::groups":
		s = "::" + strings.Join(groups(1+r.Intn(5), style, r), ":") + ":" + v4
	case "mid":
		n := 2 + r.Intn(4) // 2..5 explicit groups
		a := 1 + r.Intn(n-1)
		s = strings.Join(groups(a, style, r), ":") + "::" + strings.Join(groups(n-a, style, r), ":") + ":" + v4
	case "full6":
		s = strings.Join(groups(6, style, r), ":") + ":" + v4
	}
	return s, v4, "emb-" + v + "/" + style
}

func genAnyV6(r *vh.Rng) (text string, needles []string, variant string) {
	switch r.Intn(4) {
	case 0:
		s, v := genV6Full(r)
		return s, []string{s}, v
	case 1:
		s, v4, v := genV6Embedded(r)
		return s, []string{s, v4}, v
	}
	s, v := genV6Compressed(r)
	return s, []string{s}, v
}

var zones = []string{"eth0", "wlan0", "1", "en0", "lo"}

func genAddr(form string, r *vh.Rng) spell {
	sp := spell{form: form}
	switch form {
	case "v4":
		sp.text = genV4(r)
		sp.needles = []string{sp.text}
		sp.variant = "v4/go"
	case "v4p":
		ip := genV4(r)
		port := genPort(r)
		if r.Intn(2) == 0 {
			sp.text = (&net.TCPAddr{IP: net.ParseIP(ip), Port: port}).String()
		} else {
			sp.text = net.JoinHostPort(ip, strconv.Itoa(port))
		}
		sp.needles = []string{ip}
		sp.variant = "v4/go"
	case "v6f":
		s, v := genV6Full(r)
		sp.text, sp.needles, sp.variant = s, []string{s}, v
	case "v6c":
		s, v := genV6Compressed(r)
		sp.text, sp.needles, sp.variant = s, []string{s}, v
	case "v6m":
		s, v4, v := genV6Embedded(r)
		sp.text, sp.needles, sp.variant = s, []string{s, v4}, v
	case "v6b":
		s, n, v := genAnyV6(r)
		sp.text, sp.needles, sp.variant = "["+s+"]", n, v
	case "v6bp":
		s, n, v := genAnyV6(r)
		port := genPort(r)
		if strings.HasSuffix(v, "/go") && !strings.HasPrefix(v, "emb-") {
			sp.text = (&net.TCPAddr{IP: net.ParseIP(s), Port: port}).String()
			if sp.text != net.JoinHostPort(s, strconv.Itoa(port)) {
				vh.Fatal("TCPAddr.String and JoinHostPort disagree on %q", s)
			}
		} else {
			sp.text = net.JoinHostPort(s, strconv.Itoa(port))
		}
		sp.needles, sp.variant = n, v
	case "v6z", "v6zp":
		var s, v string
		if r.Intn(2) == 0 { // link-local, spelled by Go
			s = goPrint("fe80::" + strings.Join(groups(1+r.Intn(4), "lower", r), ":"))
			v = "run@mid/go"
		} else {
			for {
				s, v = genV6Compressed(r)
				if s != "::" {
					break
				}
			}
		}
		zone := zones[r.Intn(len(zones))]
		if form == "v6z" {
			sp.text = s + "%" + zone
			if strings.HasSuffix(v, "/go") {
				if g := (&net.IPAddr{IP: net.ParseIP(s), Zone: zone}).String(); g != sp.text {
					vh.Fatal("IPAddr.String %q differs from %q", g, sp.text)
				}
			}
		} else {
			port := genPort(r)
			sp.text = net.JoinHostPort(s+"%"+zone, strconv.Itoa(port))
			if strings.HasSuffix(v, "/go") {
				if g := (&net.TCPAddr{IP: net.ParseIP(s), Port: port, Zone: zone}).String(); g != sp.text {
					vh.Fatal("TCPAddr.String %q differs from %q", g, sp.text)
				}
			}
		}
		sp.needles, sp.variant = []string{s}, "zone:"+v
	default:
		vh.Fatal("unknown address form %q", form)
	}
	for _, n := range sp.needles[:1] {
		if net.ParseIP(n) == nil {
			vh.Fatal("generator produced an address net.ParseIP rejects: %q (%s %s)", n, form, sp.variant)
		}
	}
	return sp
}

const safePunct = "!#$%&*+-/;<>?@\\^`{|}~'"
const nonHexLetters = "ghijklmnopqrstuvwxyzGHIJKLMNOPQRSTUVWXYZ"
const hexLetters = "abcdefABCDEF"

func genDelim(class string, r *vh.Rng) string {
	switch class {
	case "sp":
		return " "
	case "tab":
		return "\t"
	case "nl":
		return "\n"
	case "comma":
		return ","
	case "lpar":
		return "("
	case "rpar":
		return ")"
	case "quote":
		return "\""
	case "eq":
		return "="
	case "punct":
		return string(safePunct[r.Intn(len(safePunct))])
	case "colon":
		return ":"
	case "colsp":
		return ": "
	case "let":
		return string(nonHexLetters[r.Intn(len(nonHexLetters))])
	case "hex":
		return string(hexLetters[r.Intn(len(hexLetters))])
	case "dig":
		return string(rune('0' + r.Intn(10)))
	case "us":
		return "_"
	case "dot":
		return "."
	case "lbr":
		return "["
	case "rbr":
		return "]"
	}
	vh.Fatal("unknown delimiter class %q", class)
	return ""
}

func countOcc(s, sub string) int {
	n := 0
	for i := 0; i+len(sub) <= len(s); i++ {
		if s[i:i+len(sub)] == sub {
			n++
		}
	}
	return n
}

// concretise spells every token; every needle of every address token occurs
// exactly once in the concatenation (so "this address survived" is decided by
// substring search without positional ambiguity).
func concretise(toks []string, r *vh.Rng) []spell {
	for attempt := 0; attempt < 100; attempt++ {
		sp := make([]spell, len(toks))
		var sb strings.Builder
		for i, t := range toks {
			if addrForms[t] {
				sp[i] = genAddr(t, r)
			} else {
				sp[i] = spell{form: t, text: genDelim(t, r)}
			}
			sb.WriteString(sp[i].text)
		}
		all := sb.String()
		ok := true
		for _, s := range sp {
			for _, n := range s.needles {
				if countOcc(all, n) != 1 {
					ok = false
				}
			}
		}
		if ok {
			return sp
		}
	}
	vh.Fatal("could not draw distinct addresses for %v", toks)
	return nil
}

func caseKey(raw []byte, seed uint64, s int) uint64 {
	h := fnv.New64a()
	h.Write(raw)
	return h.Sum64() ^ (seed * 0x9e3779b97f4a7c15) ^ (uint64(s+1) * 0xbf58476d1ce4e5b9)
}

// ---------------------------------------------------------------------------
// coverage bookkeeping

type coverage struct {
	mu       sync.Mutex
	variants map[string]int
}

func (c *coverage) add(sp []spell) {
	c.mu.Lock()
	for _, s := range sp {
		if s.variant != "" {
			c.variants[s.form+"["+s.variant+"]"]++
		}
	}
	c.mu.Unlock()
}

// ---------------------------------------------------------------------------
// classification of a survivor (abstract case class, never concrete bytes)

func variantClass(v string) string { // "run1@end/upper" -> "run1@end"
	v = strings.TrimPrefix(v, "zone:")
	if i := strings.IndexByte(v, '/'); i >= 0 {
		return v[:i]
	}
	return v
}

func family(form string) string {
	if form == "v4" || form == "v4p" {
		return "ipv4"
	}
	return "ipv6"
}

func tokClass(sp []spell, i int) string {
	if i < 0 {
		return "bol"
	}
	if i >= len(sp) {
		return "eol"
	}
	return sp[i].form
}

// aloneSig: the spelling of address token i is not handled even alone on a line.
func aloneSig(sp []spell, i int) string {
	alone := string(safelog.Scrub([]byte(sp[i].text)))
	if alone == placeholder {
		return ""
	}
	kind := "partial"
	for _, n := range sp[i].needles {
		if strings.Contains(alone, n) {
			kind = "survivor"
		}
	}
	if kind == "partial" && (sp[i].form == "v6z" || sp[i].form == "v6zp") {
		return "" // the "%zone" text is kept by design of the code: no exact expectation
	}
	return kind + ":unrecognised-spelling/" + family(sp[i].form) + "[" + variantClass(sp[i].variant) + "]"
}

// doubled returns the text of sp with the character directly left of every
// address token in `which` doubled when that character belongs to a delimiter
// token (nil = all address tokens).
func doubled(sp []spell, which map[int]bool, mark []string) string {
	var sb strings.Builder
	for i, s := range sp {
		if addrForms[s.form] && i > 0 && !addrForms[sp[i-1].form] && (which == nil || which[i]) {
			t := sp[i-1].text
			sb.WriteString(t[len(t)-1:])
		}
		if mark != nil && mark[i] != "" {
			sb.WriteString(mark[i])
		} else {
			sb.WriteString(s.text)
		}
	}
	return sb.String()
}

// survivorSig classifies the survival of address token i of the token
// sequence sp by executing the real Scrub on two variations of the input:
// the token alone, and the line with the delimiter to its left doubled (D6:
// that single delimiter was consumed by the match of something before it).
func survivorSig(sp []spell, i int) string {
	if s := aloneSig(sp, i); s != "" {
		return s
	}
	if i > 0 && !addrForms[sp[i-1].form] {
		out := string(safelog.Scrub([]byte(doubled(sp, map[int]bool{i: true}, nil))))
		gone := true
		for _, n := range sp[i].needles {
			if strings.Contains(out, n) {
				gone = false
			}
		}
		if gone {
			return D6sig
		}
	}
	return "survivor:context/" + family(sp[i].form) + "/left=" + tokClass(sp, i-1) + "/right=" + tokClass(sp, i+1)
}

// mismatchSig classifies a line whose output text differs from the exact
// expectation although no Must address survived.
func mismatchSig(sp []spell, outToks []string) string {
	for i := range sp {
		if addrForms[sp[i].form] {
			if s := aloneSig(sp, i); s != "" {
				return s
			}
		}
	}
	mark := make([]string, len(sp))
	for i, o := range outToks {
		if o == "S" {
			mark[i] = placeholder
		}
	}
	if string(safelog.Scrub([]byte(doubled(sp, nil, nil)))) == doubled(sp, nil, mark) {
		return D6sig
	}
	return "text-changed/" + classSet(sp)
}

// ---------------------------------------------------------------------------
// mode lines

type lineCase struct {
	Line   []string `json:"line"`
	Expect struct {
		Must  []int    `json:"must"` // 1-based token positions
		Exact bool     `json:"exact"`
		Out   []string `json:"out"`
	} `json:"expect"`
}

type sinkRec struct {
	mu     sync.Mutex
	blocks [][]byte
}

func (s *sinkRec) Write(p []byte) (int, error) {
	s.mu.Lock()
	s.blocks = append(s.blocks, append([]byte(nil), p...))
	s.mu.Unlock()
	return len(p), nil
}

func (s *sinkRec) count() int {
	s.mu.Lock()
	defer s.mu.Unlock()
	return len(s.blocks)
}

func joinTexts(sp []spell) string {
	var sb strings.Builder
	for _, s := range sp {
		sb.WriteString(s.text)
	}
	return sb.String()
}

func describe(in, out string, extra string) string {
	return fmt.Sprintf("input %q -> output %q%s", in, out, extra)
}

// checkLineOutput compares one output line with the contract's verdict.
// Returns (signature, detail) or ("", "").
func checkLineOutput(sp []spell, must []int, exact bool, outToks []string, in, got, suffix, via string) (string, string) {
	for _, m := range must {
		t := sp[m-1]
		for _, n := range t.needles {
			if strings.Contains(got, n) {
				return survivorSig(sp, m-1), via + ": address " + n + " (" + t.form + " " + t.variant + ", token " + strconv.Itoa(m) + " of " + formsOf(sp) + ") survived; " + describe(in, got, "")
			}
		}
	}
	if exact {
		var sb strings.Builder
		for i, o := range outToks {
			if o == "S" {
				sb.WriteString(placeholder)
			} else {
				sb.WriteString(sp[i].text)
			}
		}
		want := sb.String() + suffix
		if got != want {
			return mismatchSig(sp, outToks), via + ": every address is in a safe context but the output differs from the line with the addresses replaced; " + describe(in, got, fmt.Sprintf(" want %q (%s)", want, variantsOf(sp)))
		}
	}
	return "", ""
}

func formsOf(sp []spell) string {
	f := make([]string, len(sp))
	for i, s := range sp {
		f[i] = s.form
	}
	return strings.Join(f, " ")
}

func variantsOf(sp []spell) string {
	var f []string
	for _, s := range sp {
		if s.variant != "" {
			f = append(f, s.form+"["+s.variant+"]")
		}
	}
	return strings.Join(f, " ")
}

func classSet(sp []spell) string {
	seen := map[string]bool{}
	for _, s := range sp {
		if s.variant != "" {
			seen[family(s.form)+"["+variantClass(s.variant)+"]"] = true
		}
	}
	var k []string
	for c := range seen {
		k = append(k, c)
	}
	sort.Strings(k)
	return strings.Join(k, "+")
}

func doLine(raw json.RawMessage, idx int, seed uint64, nspell int, w *vh.Writer, cov *coverage, nontrivial, evals *int64) {
	var c lineCase
	if err := json.Unmarshal(raw, &c); err != nil {
		vh.Fatal("bad case %d: %v", idx, err)
	}
	for s := 0; s < nspell; s++ {
		r := vh.NewRng(caseKey(raw, seed, s))
		sp := concretise(c.Line, r)
		cov.add(sp)
		atomic.AddInt64(evals, 1)
		if len(c.Line) >= 2 {
			atomic.AddInt64(nontrivial, 1)
		}
		in := joinTexts(sp)
		report := func(sig, detail string) {
			w.Put(vh.Result{Idx: idx, Sig: sig, Detail: detail, Case: map[string]interface{}{"case": c, "spelling": s, "input": in}})
		}
		// (1) Scrub on the bare line: boundaries are ^ and $
		got := string(safelog.Scrub([]byte(in)))
		if sig, d := checkLineOutput(sp, c.Expect.Must, c.Expect.Exact, c.Expect.Out, in, got, "", "Scrub"); sig != "" {
			report(sig, d)
			continue
		}
		// (2) the same line through LogScrubber in one Write: boundary is '\n'
		var sink sinkRec
		ls := &safelog.LogScrubber{Output: &sink}
		n, err := ls.Write([]byte(in + "\n"))
		if err != nil || n != len(in)+1 {
			report("writer/write-result", fmt.Sprintf("Write(%q) = %d, %v", in+"\n", n, err))
			continue
		}
		// how many blocks a Write hands to the sink is the code's business;
		// every block must end a line and together they are the scrubbed line
		emitted := ""
		whole := true
		for _, b := range sink.blocks {
			emitted += string(b)
			whole = whole && len(b) > 0 && b[len(b)-1] == '\n'
		}
		if !whole {
			report("writer/partial-line-emitted", fmt.Sprintf("Write(%q): blocks %q handed to the sink do not all end a line", in+"\n", sink.blocks))
			continue
		}
		if strings.Count(emitted, "\n") != 1 {
			report("writer/line-held-back-or-lost", fmt.Sprintf("Write(%q) emitted %q", in+"\n", emitted))
			continue
		}
		if sig, d := checkLineOutput(sp, c.Expect.Must, c.Expect.Exact, c.Expect.Out, in+"\n", emitted, "\n", "LogScrubber.Write"); sig != "" {
			report(sig, d)
		}
	}
}

// ---------------------------------------------------------------------------
// mode writer

type writerCase struct {
	Toks   []string `json:"toks"`
	Writes []struct {
		W     int   `json:"w"`
		Cells []int `json:"cells"`
	} `json:"writes"`
	Expect struct {
		Emit  []int `json:"emit"`
		Lines []struct {
			Cells []int    `json:"cells"` // the cells of the line (newline excluded)
			Line  []string `json:"line"`  // its tokens ("frag" = a piece of an address)
			Must  []int    `json:"must"`  // 1-based positions in Line
			Exact bool     `json:"exact"`
			Out   []string `json:"out"`
		} `json:"lines"`
	} `json:"expect"`
}

type cellText struct {
	sp    []spell
	parts map[int][3]string
}

func newCellText(sp []spell, r *vh.Rng) *cellText {
	ct := &cellText{sp: sp, parts: map[int][3]string{}}
	for i, s := range sp {
		if !addrForms[s.form] {
			continue
		}
		t := s.text
		o1, o2 := len(t)/3, 2*len(t)/3
		if len(t) >= 3 {
			o1 = 1 + r.Intn(len(t)-2)
			o2 = o1 + 1 + r.Intn(len(t)-1-o1)
		}
		ct.parts[i+1] = [3]string{t[:o1], t[o1:o2], t[o2:]}
	}
	return ct
}

// lineSpells rebuilds the spelled tokens of one line of the stream from TLC's
// token view of it: an address token owns three consecutive cells, every other
// token (a fragment of an address included) one.
func (ct *cellText) lineSpells(line []string, cells []int) []spell {
	out := make([]spell, 0, len(line))
	k := 0
	for _, t := range line {
		if addrForms[t] {
			out = append(out, ct.sp[cells[k]/5-1])
			k += 3
		} else {
			out = append(out, spell{form: t, text: ct.text(cells[k])})
			k++
		}
	}
	if k != len(cells) {
		vh.Fatal("token view %v does not cover cells %v", line, cells)
	}
	return out
}

func (ct *cellText) text(code int) string {
	if code == 0 {
		return placeholder
	}
	k, p := code/5, code%5
	if k < 1 || k > len(ct.sp) {
		vh.Fatal("cell code %d out of range", code)
	}
	if p >= 1 && p <= 3 {
		return ct.parts[k][p-1]
	}
	return ct.sp[k-1].text
}

// handoff runs fn on the goroutine of writer w and waits for it: the Write
// calls of different writers really come from different goroutines, in the
// order of the schedule.
type handoff struct {
	req  []chan func()
	done chan struct{}
}

func newHandoff(n int) *handoff {
	h := &handoff{done: make(chan struct{})}
	for i := 0; i < n; i++ {
		ch := make(chan func())
		h.req = append(h.req, ch)
		go func() {
			for fn := range ch {
				fn()
				h.done <- struct{}{}
			}
		}()
	}
	return h
}

func (h *handoff) on(w int, fn func()) { h.req[w] <- fn; <-h.done }
func (h *handoff) close() {
	for _, ch := range h.req {
		close(ch)
	}
}

func doWriter(raw json.RawMessage, idx int, seed uint64, nspell int, w *vh.Writer, cov *coverage, nontrivial, evals *int64) {
	var c writerCase
	if err := json.Unmarshal(raw, &c); err != nil {
		vh.Fatal("bad case %d: %v", idx, err)
	}
	nw := 0
	for _, wr := range c.Writes {
		if wr.W > nw {
			nw = wr.W
		}
	}
	for s := 0; s < nspell; s++ {
		r := vh.NewRng(caseKey(raw, seed, s))
		sp := concretise(c.Toks, r)
		cov.add(sp)
		ct := newCellText(sp, r)
		atomic.AddInt64(evals, 1)
		if len(c.Writes) >= 2 {
			atomic.AddInt64(nontrivial, 1)
		}
		// the chunks and the linearised stream
		chunks := make([]string, len(c.Writes))
		var stream strings.Builder
		for k, wr := range c.Writes {
			var sb strings.Builder
			for _, code := range wr.Cells {
				sb.WriteString(ct.text(code))
			}
			chunks[k] = sb.String()
			stream.WriteString(chunks[k])
		}
		all := stream.String()
		report := func(sig, detail string) {
			w.Put(vh.Result{Idx: idx, Sig: sig, Detail: detail, Case: map[string]interface{}{"case": c, "spelling": s, "chunks": chunks}})
		}
		lines := strings.SplitAfter(all, "\n")
		if lines[len(lines)-1] == "" || !strings.HasSuffix(lines[len(lines)-1], "\n") {
			lines = lines[:len(lines)-1] // the unterminated tail is never emitted
		}
		if len(lines) != len(c.Expect.Lines) {
			vh.Fatal("case %d: %d complete lines, TLC says %d", idx, len(lines), len(c.Expect.Lines))
		}
		// reference: the real Scrub applied to every complete line on its own,
		// checked against the per-line contract (lines made of interleaved
		// pieces included: TLC decided which of their tokens are judged)
		ref := make([]string, len(lines))
		lsp := make([][]spell, len(lines))
		bad := false
		for j, l := range lines {
			ref[j] = string(safelog.Scrub([]byte(l)))
			e := c.Expect.Lines[j]
			lsp[j] = ct.lineSpells(e.Line, e.Cells)
			if joinTexts(lsp[j])+"\n" != l {
				vh.Fatal("case %d: line %d rebuilt from TLC's cells differs from the stream", idx, j)
			}
			if sig, d := checkLineOutput(lsp[j], e.Must, e.Exact, e.Out, l, ref[j], "\n", "Scrub"); sig != "" {
				report(sig, d)
				bad = true
				break
			}
		}
		if bad {
			continue
		}
		// replay the Write calls
		var sink sinkRec
		ls := &safelog.LogScrubber{Output: &sink}
		h := newHandoff(nw)
		doneLines := 0
		for k := range c.Writes {
			before := sink.count()
			var n int
			var err error
			h.on(c.Writes[k].W-1, func() { n, err = ls.Write([]byte(chunks[k])) })
			if err != nil || n != len(chunks[k]) {
				report("writer/write-result", fmt.Sprintf("write %d: Write(%q) = %d, %v", k+1, chunks[k], n, err))
				bad = true
				break
			}
			newBlocks := sink.blocks[before:]
			want := strings.Join(ref[doneLines:doneLines+c.Expect.Emit[k]], "")
			got := ""
			for _, b := range newBlocks {
				got += string(b)
			}
			for _, b := range newBlocks {
				if len(b) == 0 || b[len(b)-1] != '\n' {
					report("writer/partial-line-emitted", fmt.Sprintf("write %d of %q: block %q handed to the sink does not end a line", k+1, chunks, b))
					bad = true
				}
			}
			if bad {
				break
			}
			if got != want {
				sig := "writer/emitted-differs-from-linewise-scrub"
				if strings.Count(got, "\n") < c.Expect.Emit[k] {
					sig = "writer/line-held-back-or-lost"
				} else if strings.Count(got, "\n") > c.Expect.Emit[k] {
					sig = "writer/line-duplicated-or-early"
				} else if s2 := blockSurvivor(lsp, c, doneLines, c.Expect.Emit[k], got); s2 != "" {
					sig = s2
				}
				report(sig, fmt.Sprintf("write %d of %q emitted %q; the complete lines scrubbed one by one give %q (result depends on the write boundaries)", k+1, chunks, got, want))
				bad = true
				break
			}
			doneLines += c.Expect.Emit[k]
		}
		h.close()
		if !bad && doneLines != len(lines) {
			vh.Fatal("case %d: emit counts do not add up", idx)
		}
	}
}

// blockSurvivor: a multi-line block differs from the line-wise scrub because an
// address of a Must token survived in it; classify it over the token sequence
// of the whole block (the newlines are delimiter tokens there).
func blockSurvivor(lsp [][]spell, c writerCase, from, n int, got string) string {
	var seq []spell
	at := map[[2]int]int{}
	for j := from; j < from+n; j++ {
		for i, s := range lsp[j] {
			at[[2]int{j, i}] = len(seq)
			seq = append(seq, s)
		}
		seq = append(seq, spell{form: "nl", text: "\n"})
	}
	for j := from; j < from+n; j++ {
		for _, m := range c.Expect.Lines[j].Must {
			for _, nd := range lsp[j][m-1].needles {
				if strings.Contains(got, nd) {
					return survivorSig(seq, at[[2]int{j, m - 1}])
				}
			}
		}
	}
	return ""
}

// ---------------------------------------------------------------------------
// mode conc: real concurrency on one LogScrubber.  Every writer passes whole
// lines to every Write call.  Demanded: the sink receives whole lines only,
// every line written arrives exactly once, scrubbed as on its own, in its
// writer's order.

type gateSink struct {
	mu      sync.Mutex
	blocks  [][]byte
	inside  int32
	entered chan struct{}
	release chan struct{}
	armed   int32
}

func (g *gateSink) Write(p []byte) (int, error) {
	g.mu.Lock()
	g.blocks = append(g.blocks, append([]byte(nil), p...))
	g.mu.Unlock()
	if atomic.CompareAndSwapInt32(&g.armed, 1, 0) {
		g.entered <- struct{}{}
		<-g.release
	}
	return len(p), nil
}

// guardedWrite turns a panic inside Write (possible only when the writer's
// state is corrupted) into a result instead of killing the driver.
func guardedWrite(ls *safelog.LogScrubber, p []byte, w *vh.Writer) {
	defer func() {
		if v := recover(); v != nil {
			w.Put(vh.Result{Idx: 0, Sig: "conc/panic", Detail: fmt.Sprintf("LogScrubber.Write(%q) panicked: %v", p, v)})
		}
	}()
	ls.Write(p)
}

type concLine struct {
	text string
	ref  string
	sp   []spell // the spelled tokens of the line, tag and separating space included
	c    lineCase
}

func doConc(cases []json.RawMessage, seed uint64, rounds int, w *vh.Writer, cov *coverage) (int, int) {
	r := vh.NewRng(seed ^ 0xC07C07)
	mk := func(tag string) concLine {
		raw := cases[r.Intn(len(cases))]
		var c lineCase
		if err := json.Unmarshal(raw, &c); err != nil {
			vh.Fatal("bad case: %v", err)
		}
		sp := concretise(c.Line, vh.NewRng(r.Uint64()))
		cov.add(sp)
		// a tag makes every line unique; it ends in a space, a safe left context like the line boundary
		sp = append([]spell{{form: "let", text: tag}, {form: "sp", text: " "}}, sp...)
		for i := range c.Expect.Must {
			c.Expect.Must[i] += 2
		}
		c.Expect.Out = append([]string{"let", "sp"}, c.Expect.Out...)
		cl := concLine{text: joinTexts(sp) + "\n", sp: sp, c: c}
		cl.ref = string(safelog.Scrub([]byte(cl.text)))
		return cl
	}
	evals := 0
	// (i) overlap: writer B calls Write while writer A's Write is inside the sink
	for k := 0; k < rounds*10; k++ {
		a, b := mk(fmt.Sprintf("wA-%d", k)), mk(fmt.Sprintf("wB-%d", k))
		g := &gateSink{entered: make(chan struct{}, 1), release: make(chan struct{}), armed: 1}
		ls := &safelog.LogScrubber{Output: g}
		doneA, doneB := make(chan struct{}), make(chan struct{})
		go func() { guardedWrite(ls, []byte(a.text), w); close(doneA) }()
		<-g.entered
		go func() { guardedWrite(ls, []byte(b.text), w); close(doneB) }()
		select {
		case <-doneB:
		case <-time.After(time.Millisecond):
		}
		close(g.release)
		<-doneA
		<-doneB
		evals++
		checkConc(w, "overlap", []([]concLine){{a}, {b}}, g.blocks)
	}
	// (ii) herd: free-running goroutines
	for k := 0; k < rounds; k++ {
		const G, M = 8, 40
		ws := make([][]concLine, G)
		for gi := range ws {
			for m := 0; m < M; m++ {
				ws[gi] = append(ws[gi], mk(fmt.Sprintf("w%d-%d", gi, m)))
			}
		}
		var sink sinkRec
		ls := &safelog.LogScrubber{Output: &sink}
		var wg sync.WaitGroup
		start := make(chan struct{})
		for gi := range ws {
			wg.Add(1)
			go func(gi int) {
				defer wg.Done()
				<-start
				for _, l := range ws[gi] {
					guardedWrite(ls, []byte(l.text), w)
				}
			}(gi)
		}
		close(start)
		wg.Wait()
		evals++
		checkConc(w, "herd", ws, sink.blocks)
	}
	return evals, evals
}

func checkConc(w *vh.Writer, kind string, ws [][]concLine, blocks [][]byte) {
	report := func(sig, detail string) {
		w.Put(vh.Result{Idx: 0, Sig: "conc/" + sig, Detail: kind + ": " + detail})
	}
	byTag := map[string][2]int{}
	for gi, ls := range ws {
		for m, l := range ls {
			byTag[l.text[:strings.IndexByte(l.text, ' ')]] = [2]int{gi, m}
		}
	}
	next := make([]int, len(ws))
	for _, b := range blocks {
		if len(b) == 0 || b[len(b)-1] != '\n' {
			report("partial-line-emitted", fmt.Sprintf("block %q does not end a line", b))
			return
		}
		for _, l := range strings.SplitAfter(string(b), "\n") {
			if l == "" {
				continue
			}
			sp := strings.IndexByte(l, ' ')
			if sp < 0 {
				report("line-mangled", fmt.Sprintf("emitted line %q is not a line any writer wrote", l))
				return
			}
			at, ok := byTag[l[:sp]]
			if !ok {
				report("line-mangled", fmt.Sprintf("emitted line %q is not a line any writer wrote", l))
				return
			}
			cl := ws[at[0]][at[1]]
			if at[1] != next[at[0]] {
				report("line-lost-duplicated-or-reordered", fmt.Sprintf("writer %d: line %d arrived where line %d was due", at[0], at[1], next[at[0]]))
				return
			}
			next[at[0]]++
			if sig, d := checkLineOutput(cl.sp, cl.c.Expect.Must, cl.c.Expect.Exact, cl.c.Expect.Out, cl.text, l, "\n", "concurrent LogScrubber.Write"); sig != "" {
				w.Put(vh.Result{Idx: 0, Sig: sig, Detail: kind + ": " + d})
				return
			}
			if l != cl.ref {
				report("line-differs-from-scrub-of-own-line", fmt.Sprintf("line %q emitted as %q, Scrub alone gives %q", cl.text, l, cl.ref))
				return
			}
		}
	}
	for gi := range ws {
		if next[gi] != len(ws[gi]) {
			report("line-lost-duplicated-or-reordered", fmt.Sprintf("writer %d: %d of %d lines arrived", gi, next[gi], len(ws[gi])))
			return
		}
	}
}

// ---------------------------------------------------------------------------
// mode long: long unterminated pending data (spec/Scrub/ScrubLong.tla)

type longCase struct {
	B      int    `json:"b"`
	D      int    `json:"d"`
	Alen   int    `json:"alen"`
	S      int    `json:"s"`
	C      int    `json:"c"`
	Pos    string `json:"pos"`
	Expect struct {
		Total   int `json:"total"`
		Astart  int `json:"astart"`
		Cut     int `json:"cut"`
		Nwrites int `json:"nwrites"`
		Emitat  int `json:"emitat"`
		Blocks  int `json:"blocks"`
	} `json:"expect"`
}

const cutClass = 999999999

func digits(n int, r *vh.Rng) string {
	b := make([]byte, n)
	for i := range b {
		b[i] = byte('0' + r.Intn(10))
		if i == 0 {
			b[i] = byte('1' + r.Intn(9))
		}
	}
	return string(b)
}

func v4OfLen(n int, r *vh.Rng) string { // 7..15 bytes
	w := [4]int{1, 1, 1, 1}
	for left := n - 7; left > 0; {
		i := r.Intn(4)
		if w[i] < 3 {
			w[i]++
			left--
		}
	}
	var o [4]string
	for i := range o {
		switch w[i] {
		case 1:
			o[i] = strconv.Itoa(r.Intn(10))
		case 2:
			o[i] = strconv.Itoa(10 + r.Intn(90))
		default:
			o[i] = strconv.Itoa(100 + r.Intn(156))
		}
	}
	return strings.Join(o[:], ".")
}

func v6OfLen(n int, r *vh.Rng) string { // full form, 15..39 bytes
	w := [8]int{1, 1, 1, 1, 1, 1, 1, 1}
	for left := n - 15; left > 0; {
		i := r.Intn(8)
		if w[i] < 4 {
			w[i]++
			left--
		}
	}
	g := make([]string, 8)
	for i := range g {
		lo := 1 << (4 * (w[i] - 1))
		g[i] = fmt.Sprintf("%x", lo+r.Intn((1<<(4*w[i]))-lo))
	}
	return strings.Join(g, ":")
}

// addrOfLen spells an address token of exactly n bytes (7..47); the second
// result is the IP address proper.
func addrOfLen(n int, r *vh.Rng) (string, string) {
	var text, ip string
	switch {
	case n <= 15:
		ip = v4OfLen(n, r)
		text = ip
	case n <= 21:
		pd := n - 16
		if pd < 1 {
			pd = 1
		}
		ip = v4OfLen(n-1-pd, r)
		text = net.JoinHostPort(ip, digits(pd, r))
	case n <= 39:
		ip = v6OfLen(n, r)
		text = ip
	default:
		pd := n - 42
		if pd < 1 {
			pd = 1
		}
		ip = v6OfLen(n-3-pd, r)
		text = net.JoinHostPort(ip, digits(pd, r))
	}
	if len(text) != n || net.ParseIP(ip) == nil {
		vh.Fatal("addrOfLen(%d) produced %q", n, text)
	}
	return text, ip
}

const fillerAlphabet = "ghijklmnopqrstuvwxyz-GHIJKLMNOPQRSTUVWXYZ"

func doLong(raw json.RawMessage, idx int, seed uint64, nspell int, w *vh.Writer, nontrivial, evals *int64) {
	var c longCase
	if err := json.Unmarshal(raw, &c); err != nil {
		vh.Fatal("bad case %d: %v", idx, err)
	}
	e := c.Expect
	for s := 0; s < nspell; s++ {
		r := vh.NewRng(caseKey(raw, seed, s))
		addr, ip := addrOfLen(c.Alen, r)
		// filler: words of letters and '-', no digit, ':' or '.', no newline
		line := make([]byte, e.Total)
		for i := range line {
			if r.Intn(8) == 0 {
				line[i] = ' '
			} else {
				line[i] = fillerAlphabet[r.Intn(len(fillerAlphabet))]
			}
		}
		if e.Astart < 1 || e.Astart+c.Alen >= e.Total {
			vh.Fatal("case %d: address does not fit", idx)
		}
		line[e.Astart-1] = ' '
		copy(line[e.Astart:], addr)
		if c.Pos == "straddle" {
			line[e.Astart+c.Alen] = ' '
			line[e.Astart+c.Alen+1] = 'x'
		}
		line[e.Total-1] = '\n'
		if e.Astart+c.Alen+map[string]int{"straddle": 3, "end": 1}[c.Pos] != e.Total {
			vh.Fatal("case %d: layout does not add up", idx)
		}
		want := string(line[:e.Astart]) + placeholder + string(line[e.Astart+c.Alen:])
		atomic.AddInt64(evals, 1)
		if e.Nwrites >= 2 {
			atomic.AddInt64(nontrivial, 1)
		}
		report := func(sig, detail string) {
			w.Put(vh.Result{Idx: idx, Sig: sig, Detail: detail, Case: map[string]interface{}{"case": c, "spelling": s, "address": addr}})
		}
		var sink sinkRec
		ls := &safelog.LogScrubber{Output: &sink}
		nw := 0
		early := ""
		for off := 0; off < len(line); {
			n := len(line) - off
			switch {
			case c.C == cutClass:
				if off == 0 {
					n = e.Cut
				}
			case c.C > 0 && c.C < n:
				n = c.C
			}
			got, err := ls.Write(append([]byte(nil), line[off:off+n]...))
			if err != nil || got != n {
				report("writer/write-result", fmt.Sprintf("Write of %d bytes = %d, %v", n, got, err))
				return
			}
			off += n
			nw++
			if off < len(line) && early == "" && len(sink.blocks) > 0 {
				b := sink.blocks[len(sink.blocks)-1]
				tail := b
				if len(tail) > 40 {
					tail = tail[len(tail)-40:]
				}
				early = fmt.Sprintf("after write %d (%d of %d bytes written, no newline yet) the sink had already received %d bytes ending %q", nw, off, len(line), len(b), tail)
			}
		}
		if nw != e.Nwrites {
			vh.Fatal("case %d: %d writes, TLC says %d", idx, nw, e.Nwrites)
		}
		got := ""
		for _, b := range sink.blocks {
			got += string(b)
		}
		ctx := fmt.Sprintf("line of %d bytes, address %s at offset %d, chunk class %d", e.Total, addr, e.Astart, c.C)
		if strings.Contains(got, ip) {
			i := strings.Index(got, ip)
			lo := i - 30
			if lo < 0 {
				lo = 0
			}
			report("survivor:long-line-address-reached-the-sink", fmt.Sprintf("%s: the address reached the sink: ...%q...; %s", ctx, got[lo:i+len(ip)], early))
		}
		if early != "" {
			report("writer/partial-line-emitted", ctx+": "+early)
			continue
		}
		for _, b := range sink.blocks {
			if len(b) == 0 || b[len(b)-1] != '\n' {
				report("writer/partial-line-emitted", ctx+": a block handed to the sink does not end a line")
			}
		}
		if got != want && !strings.Contains(got, ip) {
			report("writer/long-line-output-differs", fmt.Sprintf("%s: the sink content (%d bytes) is not the line with the address replaced (%d bytes); result depends on the write boundaries", ctx, len(got), len(want)))
		}
	}
}

// ---------------------------------------------------------------------------

func main() {
	if len(os.Args) < 6 {
		vh.Fatal("usage: scrubdrv lines|writer|conc <cases> <out> <seed> <n>")
	}
	mode := os.Args[1]
	cases, err := vh.ReadCases(os.Args[2])
	if err != nil {
		vh.Fatal("%v", err)
	}
	w, err := vh.NewWriter(os.Args[3])
	if err != nil {
		vh.Fatal("%v", err)
	}
	seed, _ := strconv.ParseUint(os.Args[4], 10, 64)
	n, _ := strconv.Atoi(os.Args[5])
	cov := &coverage{variants: map[string]int{}}
	var nontrivial, evals int64
	switch mode {
	case "lines", "writer", "long":
		vh.RunParallel(len(cases), 0, func(i int) {
			if mode == "lines" {
				doLine(cases[i], i, seed, n, w, cov, &nontrivial, &evals)
			} else if mode == "long" {
				doLong(cases[i], i, seed, n, w, &nontrivial, &evals)
			} else {
				doWriter(cases[i], i, seed, n, w, cov, &nontrivial, &evals)
			}
		}, func(i int, v interface{}, stack string) {
			var c interface{}
			json.Unmarshal(cases[i], &c)
			w.Put(vh.Result{Idx: i, Sig: mode + "/panic", Detail: fmt.Sprint(v) + "\n" + stack, Case: map[string]interface{}{"case": c}})
		})
	case "conc":
		func() {
			defer func() {
				if v := recover(); v != nil {
					w.Put(vh.Result{Idx: 0, Sig: "conc/panic", Detail: fmt.Sprint(v)})
				}
			}()
			a, b := doConc(cases, seed, n, w, cov)
			evals, nontrivial = int64(a), int64(b)
		}()
	default:
		vh.Fatal("unknown mode %s", mode)
	}
	w.Put(map[string]interface{}{"summary": map[string]interface{}{"cases": evals, "nontrivial": nontrivial, "variants": cov.variants}})
	w.Close()
}
