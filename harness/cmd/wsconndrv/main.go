// wsconndrv executes scripts of spec/WsConn (application, peer and network
// steps chosen by TLC) on the real websocketconn.Conn over real gorilla
// websockets on loopback TCP, and records what happens as a trace for
// spec/WsConn/WsConn_Trace.tla.  It only executes, compares bytes with the
// keyed filler and records; whether a recorded execution is allowed is
// decided by TLC.  Only the exported API of the package is used.
//
//	wsconndrv probe                                      -> {"chunk":N} (largest message of one big Write)
//	wsconndrv replay <scripts.ndjson> <traces.ndjson> <seed>
//	wsconndrv herd   <scripts.ndjson> <traces.ndjson> <seed>   (all scripts at once, one leak check)
//
// A script: {"id":7,"role":"server"|"client","mode":"rest"|"race","steps":[
//
//	{"a":"W","g":1,"n":3000}        application goroutine writer 1 calls Write(3000 bytes)
//	{"a":"R","g":2,"n":7,"rep":3}   reader 2 calls Read(buf of 7) up to 3 times (stops at an error)
//	{"a":"C","g":1}                 closer 1 calls Close
//	{"a":"PS","k":"bin","n":70000}  the peer sends a binary/text message or a ping
//	{"a":"PC","code":1000}          the peer sends a close frame (1005 = empty close frame)
//	{"a":"PX"}                      the peer closes its TCP socket
//	{"a":"PT","n":100}]}            the peer sends a frame announcing n+64 bytes, n of them, and closes TCP
//
// mode "rest": before every step the driver waits until every goroutine of
// the process except its own is parked (two consecutive stack dumps) and logs
// a `rest` observation; mode "race": steps are issued back to back with seeded
// yields.  Every script ends with: rest, Close by closer 0, all calls
// returned, peer reader ended, goroutine-profile check (gone | leak).
package main

import (
	"bytes"
	"encoding/binary"
	"encoding/json"
	"fmt"
	"io"
	"net"
	"net/http"
	"net/url"
	"os"
	"regexp"
	"runtime"
	"strconv"
	"strings"
	"sync"
	"time"

	"git.torproject.org/pluggable-transports/snowflake.git/v2/common/websocketconn"
	"github.com/gorilla/websocket"
	"verifharness/vh"
)

type ev map[string]interface{}

type step struct {
	A    string `json:"a"`
	G    int    `json:"g"`
	N    int    `json:"n"`
	Rep  int    `json:"rep"`
	K    string `json:"k"`
	Code int    `json:"code"`
}

type script struct {
	ID    int    `json:"id"`
	Role  string `json:"role"`
	Mode  string `json:"mode"`
	Steps []step `json:"steps"`
}

// ---------------------------------------------------------------------------
// keyed filler: a pseudo-random byte per stream position.

func pbyte(key uint64, i int) byte {
	return vh.KeyByte(key, uint64(i))
}

// outbound: the low bit names the writer (1 or 2)
func wbyte(key uint64, w int, i int) byte {
	return (pbyte(key+uint64(w)*0x9e37, i) &^ 1) | byte(w-1)
}

func fillP(p []byte, key uint64, off int) {
	for i := range p {
		p[i] = pbyte(key, off+i)
	}
}

func fillW(p []byte, key uint64, w int, off int) {
	for i := range p {
		p[i] = wbyte(key, w, off+i)
	}
}

func equalAt(p []byte, off int, f func(i int) byte) bool {
	for i := range p {
		if p[i] != f(off+i) {
			return false
		}
	}
	return true
}

// locate returns the offset o in [0,limit-len(p)] closest to hint with
// stream[o:o+len(p)] == p, or -1.
func locate(p []byte, hint, limit int, f func(i int) byte) int {
	if len(p) == 0 {
		return hint
	}
	if hint >= 0 && hint+len(p) <= limit && equalAt(p, hint, f) {
		return hint
	}
	for d := 1; d <= limit; d++ {
		for _, o := range [2]int{hint - d, hint + d} {
			if o >= 0 && o+len(p) <= limit && p[0] == f(o) && equalAt(p, o, f) {
				return o
			}
		}
		if hint-d < 0 && hint+d+len(p) > limit {
			break
		}
	}
	return -1
}

// ---------------------------------------------------------------------------
// one websocket server per process

var (
	srvOnce sync.Once
	srvAddr string
	srvCh   = make(chan *websocket.Conn, 64)
)

func startServer() {
	ln, err := net.Listen("tcp", "127.0.0.1:0")
	if err != nil {
		vh.Fatal("listen: %v", err)
	}
	srvAddr = ln.Addr().String()
	up := websocket.Upgrader{CheckOrigin: func(*http.Request) bool { return true }}
	go http.Serve(ln, http.HandlerFunc(func(rw http.ResponseWriter, req *http.Request) {
		ws, err := up.Upgrade(rw, req, nil)
		if err != nil {
			vh.Fatal("upgrade: %v", err)
		}
		srvCh <- ws
	}))
}

var pairMu sync.Mutex

func wsPair() (server, client *websocket.Conn) {
	srvOnce.Do(startServer)
	pairMu.Lock()
	defer pairMu.Unlock()
	u := (&url.URL{Scheme: "ws", Host: srvAddr}).String()
	c, _, err := (&websocket.Dialer{}).Dial(u, nil)
	if err != nil {
		vh.Fatal("dial: %v", err)
	}
	return <-srvCh, c
}

// ---------------------------------------------------------------------------

type cmd struct {
	n, rep int
}

type rig struct {
	seed uint64
	id   int
	mu   sync.Mutex
	log  []ev

	conn    *websocketconn.Conn
	peer    *websocket.Conn
	peerSrv bool

	wcmd, rcmd, ccmd map[int]chan cmd
	wg               sync.WaitGroup
	busy             int // commands issued and not finished (under mu)

	// data bookkeeping (under mu)
	wnext    map[int]int // bytes handed to Write calls per writer (stream offsets)
	taken    int         // sum of n returned by Writes
	empties  int         // empty Writes that returned nil
	psent    int         // payload bytes the peer has sent
	reads    []*readRec  // successful Reads, in the order of their return
	got      map[int]int // bytes of writer w the peer has received
	precvB   int
	precvE   int
	selfcut  bool
	quietOK  bool // no close/cut issued so far: the peer must receive everything taken
	peerDone chan struct{}
}

type readRec struct {
	e    ev
	call int
	data []byte
}

// resolveReads finds where the bytes every Read returned sit in the stream the
// peer sent.  Reads of 8 bytes or more are searched in the whole stream.  A
// shorter run of bytes can occur at several places; the short Reads are put,
// left to right, into the positions the long ones leave open below the total
// number of bytes read (earliest call first among those whose bytes fit).
// A Read whose bytes fit nowhere gets off = -1.  Called when nothing runs.
func (r *rig) resolveReads() {
	stream := make([]byte, r.psent)
	fillP(stream, r.seed, 0)
	total := 0
	for _, x := range r.reads {
		total += len(x.data)
	}
	covered := make([]bool, total+1)
	var short []*readRec
	for _, x := range r.reads {
		if len(x.data) < 8 {
			short = append(short, x)
			continue
		}
		o := bytes.Index(stream, x.data)
		x.e["off"] = o
		for i := o; o >= 0 && i < o+len(x.data) && i < total; i++ {
			covered[i] = true
		}
	}
	placed := make([]bool, len(short))
	for p := 0; p < total; {
		if covered[p] {
			p++
			continue
		}
		best := -1
		for k, x := range short {
			if placed[k] || p+len(x.data) > len(stream) || !bytes.Equal(stream[p:p+len(x.data)], x.data) {
				continue
			}
			if best < 0 || x.call < short[best].call {
				best = k
			}
		}
		if best < 0 {
			break
		}
		placed[best] = true
		short[best].e["off"] = p
		p += len(short[best].data)
	}
	for k, x := range short {
		if !placed[k] {
			x.e["off"] = -1
		}
	}
}

func (r *rig) put(e ev) {
	r.mu.Lock()
	r.log = append(r.log, e)
	r.mu.Unlock()
}

// guard runs one call of the package; a panic becomes a `panic` observation
// (never explainable) and the command counts as finished.
func (r *rig) guard(who string, f func() (int, error)) (n int, err error, panicked bool) {
	defer func() {
		if v := recover(); v != nil {
			panicked = true
			r.mu.Lock()
			r.log = append(r.log, ev{"ev": "panic", "who": who, "detail": fmt.Sprint(v)})
			r.busy--
			r.mu.Unlock()
		}
	}()
	n, err = f()
	return
}

func errClass(err error) string {
	if err == nil {
		return "nil"
	}
	return "err"
}

func (r *rig) writer(w int, ch chan cmd) {
	defer r.wg.Done()
	for c := range ch {
		r.mu.Lock()
		off := r.wnext[w]
		r.wnext[w] += c.n
		r.log = append(r.log, ev{"ev": "wcall", "w": w, "size": c.n})
		r.mu.Unlock()
		p := make([]byte, c.n)
		fillW(p, r.seed, w, off)
		n, err, pan := r.guard("Write", func() (int, error) { return r.conn.Write(p) })
		if pan {
			continue
		}
		r.mu.Lock()
		r.taken += n
		if c.n == 0 && err == nil {
			r.empties++
		}
		r.log = append(r.log, ev{"ev": "wret", "w": w, "n": n, "err": errClass(err)})
		r.busy--
		r.mu.Unlock()
		// the caller may reuse its buffer after Write returned
		for i := range p {
			p[i] = 0xee
		}
	}
}

func (r *rig) reader(g int, ch chan cmd) {
	defer r.wg.Done()
	for c := range ch {
		failed := false
		for k := 0; k < c.rep && !failed; k++ {
			b := make([]byte, c.n)
			r.mu.Lock()
			callIdx := len(r.log)
			r.log = append(r.log, ev{"ev": "rcall", "r": g, "buf": c.n})
			r.mu.Unlock()
			n, err, pan := r.guard("Read", func() (int, error) { return r.conn.Read(b) })
			if pan {
				failed = true
				r.mu.Lock()
				r.busy++ // guard has already counted this command as finished
				r.mu.Unlock()
				break
			}
			cls := "nil"
			if err != nil {
				cls = "err"
				if err == io.EOF {
					cls = "eof"
				}
				failed = true
			}
			r.mu.Lock()
			e := ev{"ev": "rret", "r": g, "n": n, "off": 0, "err": cls}
			if n > 0 {
				r.reads = append(r.reads, &readRec{e: e, call: callIdx, data: b[:n]})
			}
			r.log = append(r.log, e)
			r.mu.Unlock()
		}
		r.mu.Lock()
		r.busy--
		r.mu.Unlock()
	}
}

func (r *rig) closer(g int, ch chan cmd) {
	defer r.wg.Done()
	for range ch {
		r.put(ev{"ev": "ccall", "c": g})
		_, err, pan := r.guard("Close", func() (int, error) { return 0, r.conn.Close() })
		if pan {
			continue
		}
		r.mu.Lock()
		r.log = append(r.log, ev{"ev": "cret", "c": g, "err": errClass(err)})
		r.busy--
		r.mu.Unlock()
	}
}

func (r *rig) peerReader() {
	defer close(r.peerDone)
	for {
		t, p, err := r.peer.ReadMessage()
		r.mu.Lock()
		if err != nil {
			if !r.selfcut {
				cls := "err"
				if ce, ok := err.(*websocket.CloseError); ok && ce.Code != websocket.CloseAbnormalClosure {
					cls = "close"
				}
				r.log = append(r.log, ev{"ev": "pend", "class": cls, "detail": err.Error()})
			}
			r.mu.Unlock()
			return
		}
		tt := "bin"
		if t != websocket.BinaryMessage {
			tt = "type" + strconv.Itoa(t)
		}
		w, off := 0, 0
		if len(p) > 0 {
			w = int(p[0]&1) + 1
			off = locate(p, r.got[w], r.wnext[w], func(i int) byte { return wbyte(r.seed, w, i) })
			if off < 0 { // not this writer's bytes anywhere: try the other one
				o := 3 - w
				if off2 := locate(p, r.got[o], r.wnext[o], func(i int) byte { return wbyte(r.seed, o, i) }); off2 >= 0 {
					w, off = o, off2
				}
			}
			r.got[w] += len(p)
			r.precvB += len(p)
		} else {
			r.precvE++
		}
		r.log = append(r.log, ev{"ev": "precv", "w": w, "off": off, "len": len(p), "t": tt})
		r.mu.Unlock()
	}
}

func newRig(seed uint64, sc script) *rig {
	r := &rig{seed: seed ^ uint64(sc.ID)*0x51ed27, id: sc.ID, wnext: map[int]int{1: 0, 2: 0}, got: map[int]int{1: 0, 2: 0},
		wcmd: map[int]chan cmd{}, rcmd: map[int]chan cmd{}, ccmd: map[int]chan cmd{}, quietOK: true, peerDone: make(chan struct{})}
	s, c := wsPair()
	if sc.Role == "server" {
		r.conn, r.peer, r.peerSrv = websocketconn.New(s), c, false
	} else {
		r.conn, r.peer, r.peerSrv = websocketconn.New(c), s, true
	}
	for g := 1; g <= 2; g++ {
		r.wcmd[g], r.rcmd[g] = make(chan cmd, 256), make(chan cmd, 256)
		r.wg.Add(2)
		go r.writer(g, r.wcmd[g])
		go r.reader(g, r.rcmd[g])
	}
	for g := 0; g <= 2; g++ {
		r.ccmd[g] = make(chan cmd, 8)
		r.wg.Add(1)
		go r.closer(g, r.ccmd[g])
	}
	go r.peerReader()
	return r
}

// ---------------------------------------------------------------------------
// goroutine dumps

var stackBuf = make([]byte, 1<<20)
var dumpMu sync.Mutex

type gor struct {
	id    string
	state string
	text  string
}

var hdrRe = regexp.MustCompile(`^goroutine (\d+) \[([^\],]+)`)

func snapshot() []gor {
	dumpMu.Lock()
	defer dumpMu.Unlock()
	var n int
	for {
		n = runtime.Stack(stackBuf, true)
		if n < len(stackBuf) {
			break
		}
		stackBuf = make([]byte, 2*len(stackBuf))
	}
	var out []gor
	for i, blk := range strings.Split(string(stackBuf[:n]), "\n\n") {
		if i == 0 {
			continue // the calling goroutine
		}
		m := hdrRe.FindStringSubmatch(blk)
		if m == nil {
			continue
		}
		out = append(out, gor{id: m[1], state: m[2], text: blk})
	}
	return out
}

func parked(s string) bool {
	switch s {
	case "chan receive", "chan send", "select", "IO wait", "sync.Mutex.Lock", "semacquire", "sync.Cond.Wait",
		"chan receive (nil chan)", "select (no cases)", "sleep", "sync.WaitGroup.Wait", "sync.RWMutex.Lock", "sync.RWMutex.RLock":
		return true
	}
	return false
}

func allParked() bool {
	for _, g := range snapshot() {
		if !parked(g.state) {
			return false
		}
	}
	return true
}

// quiesce waits until every other goroutine is parked in two consecutive
// dumps; false if that does not happen within the bound.
func quiesce(bound time.Duration) bool {
	dl := time.Now().Add(bound)
	ok := 0
	for {
		if allParked() {
			ok++
			if ok >= 2 {
				return true
			}
		} else {
			ok = 0
		}
		if time.Now().After(dl) {
			return false
		}
		time.Sleep(150 * time.Microsecond)
	}
}

// pkgGoroutines counts the goroutines with a frame of the package (or created
// by it) that are not in `old` (left behind by an earlier script of this
// process and reported there).
func pkgGoroutines(old map[string]bool) (int, string) {
	n, where := 0, ""
	for _, g := range snapshot() {
		if strings.Contains(g.text, "common/websocketconn.") && !old[g.id] {
			n++
			if where == "" {
				lines := strings.Split(g.text, "\n")
				if len(lines) > 1 {
					where = "[" + g.state + "] " + lines[1]
				}
				for _, ln := range lines {
					if strings.Contains(ln, "common/websocketconn.") && !strings.HasPrefix(ln, "created by") {
						where = "[" + g.state + "] " + strings.TrimSpace(ln)
						break
					}
				}
			}
		}
	}
	return n, where
}

// ---------------------------------------------------------------------------

func (r *rig) issue(ch chan cmd, c cmd) {
	r.mu.Lock()
	r.busy++
	r.mu.Unlock()
	ch <- c
}

// rest: a quiescent point.  While nothing has been closed or cut the peer is
// given time (bounded) to receive what Writes have reported as taken; this is
// only synchronisation, the observation is judged by TLC.
func (r *rig) rest() {
	if !quiesce(3 * time.Second) {
		return
	}
	r.mu.Lock()
	wait := r.quietOK
	r.mu.Unlock()
	if wait {
		dl := time.Now().Add(400 * time.Millisecond)
		for {
			r.mu.Lock()
			done := r.precvB >= r.taken && r.precvE >= r.empties
			r.mu.Unlock()
			if done || time.Now().After(dl) {
				break
			}
			time.Sleep(100 * time.Microsecond)
		}
		if !quiesce(3 * time.Second) {
			return
		}
	}
	r.put(ev{"ev": "rest"})
}

func (r *rig) peerFrame(n int) []byte {
	// header of a final binary frame announcing n+64 payload bytes, then n bytes
	total := n + 64
	var h []byte
	mask := byte(0)
	if !r.peerSrv {
		mask = 0x80
	}
	switch {
	case total < 126:
		h = []byte{0x82, mask | byte(total)}
	case total < 65536:
		h = []byte{0x82, mask | 126, 0, 0}
		binary.BigEndian.PutUint16(h[2:], uint16(total))
	default:
		h = []byte{0x82, mask | 127, 0, 0, 0, 0, 0, 0, 0, 0}
		binary.BigEndian.PutUint64(h[2:], uint64(total))
	}
	if mask != 0 {
		h = append(h, 0, 0, 0, 0) // masking key 0: payload unchanged
	}
	return h
}

func (r *rig) do(s step) {
	switch s.A {
	case "W":
		r.issue(r.wcmd[s.G], cmd{n: s.N})
	case "R":
		rep := s.Rep
		if rep < 1 {
			rep = 1
		}
		r.issue(r.rcmd[s.G], cmd{n: s.N, rep: rep})
	case "C":
		r.mu.Lock()
		r.quietOK = false
		r.mu.Unlock()
		r.issue(r.ccmd[s.G], cmd{})
	case "PS":
		r.mu.Lock()
		off := r.psent
		if s.K != "ping" {
			r.psent += s.N
		}
		n := s.N
		if s.K == "ping" {
			n = 0
		}
		r.log = append(r.log, ev{"ev": "psend", "k": s.K, "len": n})
		r.mu.Unlock()
		switch s.K {
		case "ping":
			r.peer.WriteControl(websocket.PingMessage, []byte("p"), time.Now().Add(2*time.Second))
		default:
			p := make([]byte, s.N)
			fillP(p, r.seed, off)
			t := websocket.BinaryMessage
			if s.K == "text" {
				t = websocket.TextMessage
			}
			r.peer.SetWriteDeadline(time.Now().Add(5 * time.Second))
			r.peer.WriteMessage(t, p)
		}
	case "PC":
		r.mu.Lock()
		r.quietOK = false
		r.log = append(r.log, ev{"ev": "pclose", "code": s.Code})
		r.mu.Unlock()
		body := []byte{}
		if s.Code != 1005 {
			body = websocket.FormatCloseMessage(s.Code, "")
		}
		r.peer.WriteControl(websocket.CloseMessage, body, time.Now().Add(2*time.Second))
	case "PX":
		r.mu.Lock()
		r.quietOK = false
		r.selfcut = true
		r.log = append(r.log, ev{"ev": "pcut"})
		r.mu.Unlock()
		r.peer.UnderlyingConn().Close()
	case "PT":
		r.mu.Lock()
		off := r.psent
		r.psent += s.N
		r.quietOK = false
		r.selfcut = true
		r.log = append(r.log, ev{"ev": "psend", "k": "bin", "len": s.N}, ev{"ev": "pcut"})
		r.mu.Unlock()
		p := make([]byte, s.N)
		fillP(p, r.seed, off)
		uc := r.peer.UnderlyingConn()
		uc.SetWriteDeadline(time.Now().Add(5 * time.Second))
		uc.Write(append(r.peerFrame(s.N), p...))
		uc.Close()
	}
}

// settle (herd mode, where stack dumps say nothing about one connection):
// wait until this connection's log has not grown for 2 ms, at most 300 ms.
func (r *rig) settle() {
	dl := time.Now().Add(300 * time.Millisecond)
	last, since := -1, time.Now()
	for time.Now().Before(dl) {
		r.mu.Lock()
		n := len(r.log)
		r.mu.Unlock()
		if n != last {
			last, since = n, time.Now()
		} else if time.Since(since) > 2*time.Millisecond {
			return
		}
		time.Sleep(200 * time.Microsecond)
	}
}

func (r *rig) idle() bool {
	r.mu.Lock()
	defer r.mu.Unlock()
	return r.busy == 0
}

// finish: Close by closer 0, wait for every call to return and for the peer
// reader to end.  Returns false if something hangs.
func (r *rig) finish() bool {
	r.mu.Lock()
	r.quietOK = false
	r.mu.Unlock()
	r.issue(r.ccmd[0], cmd{})
	ok := true
	dl := time.Now().Add(6 * time.Second)
	for !r.idle() {
		if time.Now().After(dl) {
			r.put(ev{"ev": "hang", "who": "call"})
			ok = false
			break
		}
		time.Sleep(100 * time.Microsecond)
	}
	select {
	case <-r.peerDone:
	case <-time.After(3 * time.Second):
		// the local Close did not end the connection for the peer: not explainable either
		r.put(ev{"ev": "pend", "class": "never"})
	}
	r.mu.Lock()
	r.selfcut = true
	r.mu.Unlock()
	r.peer.Close()
	if ok {
		for _, m := range []map[int]chan cmd{r.wcmd, r.rcmd, r.ccmd} {
			for _, ch := range m {
				close(ch)
			}
		}
		r.wg.Wait()
	} else {
		// leave the hung workers behind; unblock what can be unblocked
		r.conn.Conn.Close()
	}
	<-r.peerDone
	return ok
}

func pkgIDs() map[string]bool {
	ids := map[string]bool{}
	for _, g := range snapshot() {
		if strings.Contains(g.text, "common/websocketconn.") {
			ids[g.id] = true
		}
	}
	return ids
}

func leakCheck(old map[string]bool) ev {
	dl := time.Now().Add(2500 * time.Millisecond)
	for {
		n, where := pkgGoroutines(old)
		if n == 0 {
			return ev{"ev": "gone"}
		}
		if time.Now().After(dl) {
			return ev{"ev": "leak", "n": n, "where": where}
		}
		time.Sleep(300 * time.Microsecond)
	}
}

func runScript(seed uint64, sc script, solo bool) []ev {
	var old map[string]bool
	if solo {
		old = pkgIDs()
	}
	r := newRig(seed, sc)
	rng := vh.NewRng(seed ^ uint64(sc.ID)*7919)
	for _, s := range sc.Steps {
		if sc.Mode == "rest" {
			r.rest()
		} else {
			switch rng.Intn(6) {
			case 0:
			case 1, 2:
				runtime.Gosched()
			case 3:
				time.Sleep(20 * time.Microsecond)
			case 4:
				time.Sleep(200 * time.Microsecond)
			case 5:
				if solo {
					quiesce(time.Second)
				}
			}
		}
		r.do(s)
	}
	if solo {
		r.rest()
	} else {
		r.settle()
	}
	ok := r.finish()
	if ok {
		r.resolveReads()
	}
	if solo {
		if ok {
			r.put(leakCheck(old))
		}
	}
	return r.log
}

type summary struct {
	Scripts int `json:"scripts"`
	Events  int `json:"events"`
	Hung    int `json:"hung"`
	Leaks   int `json:"leaks"`
}

func readScripts(path string) []script {
	raw, err := vh.ReadCases(path)
	if err != nil {
		vh.Fatal("%v", err)
	}
	out := make([]script, len(raw))
	for i, b := range raw {
		if err := json.Unmarshal(b, &out[i]); err != nil {
			vh.Fatal("script %d: %v", i, err)
		}
	}
	return out
}

func emit(w *vh.Writer, id int, log []ev, s *summary) {
	w.Put(ev{"ev": "reset", "id": id})
	for _, e := range log {
		w.Put(e)
		switch e["ev"] {
		case "hang":
			s.Hung++
		case "leak":
			s.Leaks++
		}
	}
	s.Events += len(log)
	s.Scripts++
}

func probe() {
	s, c := wsPair()
	conn := websocketconn.New(s)
	p := make([]byte, 20000)
	go conn.Write(p)
	max, tot := 0, 0
	for tot < len(p) {
		_, m, err := c.ReadMessage()
		if err != nil {
			break
		}
		if len(m) > max {
			max = len(m)
		}
		tot += len(m)
	}
	conn.Close()
	c.Close()
	fmt.Printf("{\"chunk\":%d}\n", max)
}

func main() {
	if len(os.Args) >= 2 && os.Args[1] == "probe" {
		probe()
		return
	}
	if len(os.Args) < 5 {
		vh.Fatal("usage: wsconndrv probe | replay|herd <scripts> <traces> <seed>")
	}
	seed, _ := strconv.ParseUint(os.Args[4], 10, 64)
	scripts := readScripts(os.Args[2])
	w, err := vh.NewWriter(os.Args[3])
	if err != nil {
		vh.Fatal("%v", err)
	}
	var sum summary
	switch os.Args[1] {
	case "replay":
		for _, sc := range scripts {
			emit(w, sc.ID, runScript(seed, sc, true), &sum)
		}
	case "herd":
		logs := make([][]ev, len(scripts))
		var wg sync.WaitGroup
		for i := range scripts {
			wg.Add(1)
			go func(i int) {
				defer wg.Done()
				logs[i] = runScript(seed, scripts[i], false)
			}(i)
		}
		wg.Wait()
		last := leakCheck(nil)
		for i := range scripts {
			hung := false
			for _, e := range logs[i] {
				if e["ev"] == "hang" {
					hung = true
				}
			}
			if !hung {
				logs[i] = append(logs[i], last)
			}
			emit(w, scripts[i].ID, logs[i], &sum)
		}
	default:
		vh.Fatal("unknown mode %s", os.Args[1])
	}
	if err := w.Close(); err != nil {
		vh.Fatal("%v", err)
	}
	b, _ := json.Marshal(map[string]interface{}{"summary": sum})
	fmt.Println(string(b))
}
