// sdpjsondrv replays the cases enumerated by spec/SdpJson (TLC, property C13)
// through the real util.SerializeSessionDescription /
// util.DeserializeSessionDescription and writes the concretised inputs for the
// in-package drivers of proxy/lib (pollOffer, remoteIPFromSDP) and client/lib
// (BrokerChannel.Negotiate).
//
//	sdpjsondrv run <cases.ndjson> <out.ndjson> <seed> <concretised-out.ndjson>
//
// Abstract documents and SDP text classes are written out with seeded
// addresses, ports and bytes; results are compared (data equality) with the
// outcomes the contract allows, as printed by TLC.  A panic, or a result that
// is neither a value nor an error, is a violation.
package main

import (
	"encoding/base64"
	"encoding/json"
	"fmt"
	"os"
	"strconv"
	"strings"
	"sync/atomic"
	"unicode/utf8"

	"git.torproject.org/pluggable-transports/snowflake.git/v2/common/util"
	"github.com/pion/webrtc/v3"
	"verifharness/vh"
)

type sdpText struct {
	Raw   string `json:"raw"`
	Hdr   string `json:"hdr"`
	Media string `json:"media"`
	CLine string `json:"cline"`
	Cand  string `json:"cand"`
	Eol   string `json:"eol"`
	Dmg   string `json:"dmg"`
}
type member struct {
	N string          `json:"n"`
	K string          `json:"k"`
	V json.RawMessage `json:"v"` // a string (type member, extras) or an sdpText (sdp member)
}
type document struct {
	Top string   `json:"top"`
	Mem []member `json:"mem"`
}
type outcome struct {
	Res  string   `json:"res"`
	Type string   `json:"type,omitempty"`
	Text *sdpText `json:"text,omitempty"`
}
type scase struct {
	Idx    *int      `json:"_idx,omitempty"`
	Mode   string    `json:"mode"`
	Shape  string    `json:"shape"`
	Doc    *document `json:"doc,omitempty"`
	Type   string    `json:"type,omitempty"`
	Text   *sdpText  `json:"text,omitempty"`
	WF     bool      `json:"wf,omitempty"`
	NT     bool      `json:"nt"`
	Expect struct {
		Deser  []outcome `json:"deser,omitempty"`
		Proxy  []outcome `json:"proxy,omitempty"`
		Client []outcome `json:"client,omitempty"`
	} `json:"expect"`
}

// What the in-package drivers read: one line per doc/text case.
type concOutcome struct {
	Res  string `json:"res"`
	Type string `json:"type,omitempty"`
	SDP  string `json:"sdp_b64,omitempty"`
}
type concCase struct {
	Idx    int             `json:"idx"`
	Mode   string          `json:"mode"`
	Class  string          `json:"class"`
	NT     bool            `json:"nt"`
	In     string          `json:"in_b64"`
	Proxy  []concOutcome   `json:"proxy,omitempty"`
	Client []concOutcome   `json:"client,omitempty"`
	Case   json.RawMessage `json:"case"`
}

// ---------------------------------------------------------------------------
// concretisation

type conc struct {
	seed uint64
	idx  int
}

func hashStr(s string) uint64 {
	h := uint64(1469598103934665603)
	for i := 0; i < len(s); i++ {
		h ^= uint64(s[i])
		h *= 1099511628211
	}
	return h
}

func (c *conc) rng(salt string) *vh.Rng {
	return vh.NewRng(c.seed*0x9e3779b1 + uint64(c.idx)*0x85ebca6b + hashStr(salt))
}

func pick(r *vh.Rng, from ...string) string { return from[r.Intn(len(from))] }

func publicV4(r *vh.Rng) string {
	return fmt.Sprintf("%d.%d.%d.%d", []int{8, 93, 141, 203, 1, 198}[r.Intn(6)], 1+r.Intn(250), r.Intn(256), 1+r.Intn(254))
}
func localV4(r *vh.Rng) string {
	return pick(r, fmt.Sprintf("192.168.%d.%d", r.Intn(256), 1+r.Intn(254)), fmt.Sprintf("10.%d.%d.%d", r.Intn(256), r.Intn(256), 1+r.Intn(254)),
		fmt.Sprintf("172.%d.0.%d", 16+r.Intn(16), 1+r.Intn(254)), "127.0.0.1", fmt.Sprintf("169.254.%d.%d", r.Intn(256), r.Intn(256)), fmt.Sprintf("100.%d.1.1", 64+r.Intn(64)))
}
func publicV6(r *vh.Rng) string {
	return pick(r, fmt.Sprintf("2001:db8::%x", 1+r.Intn(65000)), fmt.Sprintf("2607:f8b0:4004:%x::%x", r.Intn(65536), 1+r.Intn(65000)), fmt.Sprintf("2a00:1450:4001:0:0:0:0:%x", 1+r.Intn(65000)), "::ffff:8.8.8.8")
}

// text writes out an abstract SDP text.  It is a function of (seed, case
// index, text class) only, so the expected value of a case is the same
// string as its input.
func (c *conc) text(t *sdpText) string {
	r := c.rng("text")
	if t.Raw != "" {
		switch t.Raw {
		case "empty":
			return ""
		case "garbage":
			n := 1 + r.Intn(200)
			b := make([]byte, n)
			for i := range b {
				b[i] = byte(0x20 + r.Intn(0x5f))
			}
			return string(b)
		case "binary":
			n := 1 + r.Intn(300)
			b := make([]byte, n)
			for i := range b {
				b[i] = byte(r.Intn(256))
			}
			b[r.Intn(n)] = 0xff // never valid UTF-8
			return string(b)
		case "json":
			return pick(r, `{"type":"offer","sdp":"v=0\r\n"}`, `{"sdp":5}`, `[]`, `"v=0"`, `null`)
		case "newlines":
			return pick(r, "\r\n\r\n\n", "\n", "\r", "\r\n", "\n\n\n\n\n\n")
		case "huge":
			var sb strings.Builder
			sb.WriteString("v=0\r\no=- 1 2 IN IP4 " + publicV4(r) + "\r\ns=-\r\nt=0 0\r\nm=application 9 UDP/DTLS/SCTP webrtc-datachannel\r\nc=IN IP4 0.0.0.0\r\n")
			for sb.Len() < 150000 {
				sb.WriteString(fmt.Sprintf("a=candidate:%d 1 udp %d %s %d typ host\r\n", r.Intn(1<<30), r.Intn(1<<31), publicV4(r), 1024+r.Intn(60000)))
			}
			return sb.String()
		case "onlyattr":
			return pick(r, "a=candidate:1 1 udp 2122260223 "+publicV4(r)+" 5000 typ host", "a=candidate:", "a=", "c=IN IP4 "+publicV4(r), "c=IN IP4 "+publicV4(r)+" ", "m=", "=", "a=candidate:1 1 udp 1 "+publicV4(r)+" 1 typ")
		case "html":
			return "<html><head><title>502 Bad Gateway</title></head><body>\r\nc=IN IP4 " + publicV4(r) + "\r\n</body></html>"
		}
		vh.Fatal("unknown raw text class %q", t.Raw)
	}
	var lines []string
	o4 := publicV4(r)
	switch t.Hdr {
	case "valid":
		lines = append(lines, "v=0", fmt.Sprintf("o=- %d 2 IN IP4 %s", r.Uint64()>>1, o4), "s=-", "t=0 0", "a=group:BUNDLE data", "a=msid-semantic: WMS")
	case "noversion":
		lines = append(lines, fmt.Sprintf("o=- %d 2 IN IP4 %s", r.Uint64()>>1, o4), "s=-", "t=0 0")
	case "none":
	default:
		vh.Fatal("unknown hdr %q", t.Hdr)
	}
	var cline string
	switch t.CLine {
	case "none":
	case "ip4remote":
		cline = "c=IN IP4 " + publicV4(r)
	case "ip4local":
		cline = "c=IN IP4 " + localV4(r)
	case "ip4ttl":
		cline = "c=IN IP4 " + publicV4(r) + pick(r, "/127", "/127/3", "/0")
	case "ip4zero":
		cline = "c=IN IP4 0.0.0.0"
	case "ip4bad":
		cline = pick(r, "c=IN IP4 999.1.2.3", "c=IN IP4 1.2.3", "c=IN IP4", "c=IN IP4 ", "c=IN IP4 1.2.3.4.5", "c=IN IP4 ....", "c=IN IP4 1.2.3.4/", "c=IN", "c=", "c=IN IP4 256.256.256.256 ", "c=IN IP5 1.2.3.4")
	case "ip6remote":
		cline = "c=IN IP6 " + publicV6(r)
	case "ip6local":
		cline = "c=IN IP6 " + pick(r, "fd00::1", "::1", "::", "fc00:1234::5")
	case "ip6bad":
		cline = pick(r, "c=IN IP6 :::1:zz", "c=IN IP6 1.2.3.4", "c=IN IP6 :", "c=IN IP6 ::::::::::", "c=IN IP6 12345::1", "c=IN IP6 ", "c=IN IP6 fe80::1%eth0", "c=IN IP6 2001:db8::1/")
	default:
		vh.Fatal("unknown cline %q", t.CLine)
	}
	var cand string
	port := 1024 + r.Intn(60000)
	switch t.Cand {
	case "none":
	case "hostremote":
		cand = fmt.Sprintf("a=candidate:%d 1 udp 2122260223 %s %d typ host generation 0 network-id 1 network-cost 50", r.Intn(1<<31), publicV4(r), port)
	case "hostlocal":
		cand = fmt.Sprintf("a=candidate:%d 1 udp 2122260223 %s %d typ host generation 0", r.Intn(1<<31), localV4(r), port)
	case "srflx":
		cand = fmt.Sprintf("a=candidate:%d 1 udp 1686052607 %s %d typ srflx raddr %s rport %d generation 0", r.Intn(1<<31), publicV4(r), port, localV4(r), port)
	case "v6":
		cand = fmt.Sprintf("a=candidate:%d 1 udp 2122260223 %s %d typ host", r.Intn(1<<31), publicV6(r), port)
	case "mdns":
		cand = fmt.Sprintf("a=candidate:%d 1 udp 2122260223 %x-%x.local %d typ host", r.Intn(1<<31), r.Uint64(), r.Uint64(), port)
	case "tcp":
		cand = fmt.Sprintf("a=candidate:%d 1 tcp 1518280447 %s %d typ host tcptype passive generation 0", r.Intn(1<<31), publicV4(r), port)
	case "short":
		cand = pick(r, "a=candidate:1 1 udp", "a=candidate:", "a=candidate", "a=candidate:1 1 udp 2122260223 8.8.8.8", "a=candidate:1 1 udp 2122260223 8.8.8.8 5000 typ", "a=candidate: ", "a=candidate:1 1 udp 1 8.8.8.8 5 typ host raddr")
	case "badaddr":
		cand = pick(r, "a=candidate:1 1 udp 2122260223 999.999.1.1 5000 typ host", "a=candidate:1 1 udp 2122260223 not-an-ip 5000 typ host", "a=candidate:1 1 udp 2122260223 :: 5000 typ host", "a=candidate:1 1 udp 2122260223 1.2.3 5000 typ host", "a=candidate:1 1 udp 2122260223 [2001:db8::1] 5000 typ host", "a=candidate:1 1 udp 2122260223  5000 typ host")
	case "badport":
		cand = pick(r, "a=candidate:1 1 udp 2122260223 8.8.8.8 99999999999 typ host", "a=candidate:1 1 udp 2122260223 8.8.8.8 -1 typ host", "a=candidate:1 1 udp x 8.8.8.8 5000 typ host", "a=candidate:1 x udp 1 8.8.8.8 5000 typ host", "a=candidate:1 1 udp 2122260223 8.8.8.8 5000 typ bogus", "a=candidate:1 1 udp 99999999999999999999 8.8.8.8 5000 typ host", "a=candidate:1 1 sctp 1 8.8.8.8 5000 typ host")
	default:
		vh.Fatal("unknown cand %q", t.Cand)
	}
	tail := []string{"a=ice-ufrag:aMAZ", "a=ice-pwd:jcHb08Jjgrazp2dzjdrvPPvV", "a=ice-options:trickle",
		"a=fingerprint:sha-256 C8:88:EE:B9:E7:02:2E:21:37:ED:7A:D1:EB:2B:A3:15:A2:3B:5B:1C:3D:D4:D5:1F:06:CF:52:40:03:F8:DD:66",
		"a=setup:actpass", "a=mid:data", "a=sctpmap:5000 webrtc-datachannel 1024"}
	section := func(m string) {
		lines = append(lines, m)
		if cline != "" {
			lines = append(lines, cline)
		}
		if cand != "" {
			lines = append(lines, cand)
		}
		lines = append(lines, tail...)
	}
	switch t.Media {
	case "app":
		section(pick(r, fmt.Sprintf("m=application %d DTLS/SCTP 5000", port), "m=application 9 UDP/DTLS/SCTP webrtc-datachannel"))
	case "two":
		section("m=application 9 UDP/DTLS/SCTP webrtc-datachannel")
		section("m=audio 9 UDP/TLS/RTP/SAVPF 111")
	case "none":
		if cline != "" {
			lines = append(lines, cline)
		}
		if cand != "" {
			lines = append(lines, cand)
		}
	default:
		vh.Fatal("unknown media %q", t.Media)
	}
	mid := 0
	if len(lines) > 0 {
		mid = r.Intn(len(lines) + 1)
	}
	insert := func(l string) {
		lines = append(lines[:mid], append([]string{l}, lines[mid:]...)...)
	}
	switch t.Dmg {
	case "emptyline":
		insert("")
	case "longline":
		insert("a=x:" + strings.Repeat(pick(r, "A", "ab ", "1."), 70000/2))
	case "quotes":
		insert(pick(r, `a=ice-ufrag:"\`, `a=x:\u0041"}`, `s="quoted" \ back/slash`, `a=tool:<script>&</script>`))
	case "multibyte":
		insert(pick(r, "s=\u65e5\u672c\u8a9e\U0001F600", "a=tool:\u00e9\u20ac\u2028x", "i=\uFEFF\uFFFD"))
	case "garbageprefix":
		mid = 0
		insert(pick(r, "\x01\x02\x03", "GET / HTTP/1.1", "v=1", "=", "v", "\t"))
	}
	var sb strings.Builder
	for i, l := range lines {
		sb.WriteString(l)
		switch t.Eol {
		case "crlf":
			sb.WriteString("\r\n")
		case "lf":
			sb.WriteString("\n")
		case "mixed":
			sb.WriteString([]string{"\r\n", "\n", "\r"}[(i+c.idx)%3])
		default:
			vh.Fatal("unknown eol %q", t.Eol)
		}
	}
	s := sb.String()
	switch t.Dmg {
	case "truncated":
		if len(s) > 1 {
			s = s[:1+r.Intn(len(s)-1)]
			for len(s) > 0 && !utf8.ValidString(s) {
				s = s[:len(s)-1]
			}
		}
	case "nul":
		p := r.Intn(len(s) + 1)
		s = s[:p] + "\x00" + s[p:]
	case "invalidutf8":
		p := r.Intn(len(s) + 1)
		s = s[:p] + pick(r, "\xff\xfe", "\xc0\xaf", "\xed\xa0\x80", "\xe2\x82", "\x80") + s[p:]
	case "none", "emptyline", "longline", "quotes", "multibyte", "garbageprefix":
	default:
		vh.Fatal("unknown dmg %q", t.Dmg)
	}
	return s
}

func hex4(r *vh.Rng, v uint32) string {
	s := fmt.Sprintf("%04x", v)
	if r.Intn(2) == 0 {
		s = strings.ToUpper(s)
	}
	return `\u` + s
}

func uEscape(r *vh.Rng, ch rune) string {
	if ch > 0xffff {
		ch -= 0x10000
		return hex4(r, 0xd800+uint32(ch>>10)) + hex4(r, 0xdc00+uint32(ch&0x3ff))
	}
	return hex4(r, uint32(ch))
}

// jsonString writes s as a JSON string: style 0 is encoding/json's, 1 escapes
// only what JSON requires (like a browser's JSON.stringify), 2 escapes all
// non-ASCII and "/", 3 escapes every character.  Bytes that are not UTF-8 are
// copied raw (styles 1-3).
func jsonString(s string, style int, r *vh.Rng) string {
	if style == 0 && utf8.ValidString(s) {
		b, err := json.Marshal(s)
		if err != nil {
			vh.Fatal("%v", err)
		}
		return string(b)
	}
	if style == 0 {
		style = 1
	}
	var sb strings.Builder
	sb.WriteByte('"')
	for i := 0; i < len(s); {
		ch, n := utf8.DecodeRuneInString(s[i:])
		if ch == utf8.RuneError && n == 1 {
			sb.WriteByte(s[i])
			i++
			continue
		}
		i += n
		switch {
		case style == 3:
			sb.WriteString(uEscape(r, ch))
		case ch == '"':
			sb.WriteString(`\"`)
		case ch == '\\':
			sb.WriteString(`\\`)
		case ch < 0x20:
			short := map[rune]string{'\n': `\n`, '\r': `\r`, '\t': `\t`, '\b': `\b`, '\f': `\f`}
			if e, ok := short[ch]; ok && r.Intn(2) == 0 {
				sb.WriteString(e)
			} else {
				sb.WriteString(uEscape(r, ch))
			}
		case style == 2 && ch == '/':
			sb.WriteString(`\/`)
		case style == 2 && ch >= 0x7f:
			sb.WriteString(uEscape(r, ch))
		default:
			sb.WriteRune(ch)
		}
	}
	sb.WriteByte('"')
	return sb.String()
}

func ws(r *vh.Rng, on bool) string {
	if !on {
		return ""
	}
	n := r.Intn(4)
	var sb strings.Builder
	for i := 0; i < n; i++ {
		sb.WriteString(pick(r, " ", "\t", "\n", "\r"))
	}
	return sb.String()
}

func (c *conc) typeString(v string, r *vh.Rng) string {
	switch v {
	case "$other":
		return pick(r, "invite", "unknown", "offer ", " answer", "0", "offer\x00", "null", "re-offer", "\u00e9")
	case "$upper":
		return pick(r, "Offer", "ANSWER", "PrAnswer", "Rollback")
	}
	return v
}

func (c *conc) value(m member, r *vh.Rng) string {
	switch m.K {
	case "str":
		if m.N == "sdp" || m.N == "SDP" {
			var t sdpText
			if err := json.Unmarshal(m.V, &t); err != nil {
				vh.Fatal("bad sdp member: %v", err)
			}
			return jsonString(c.text(&t), r.Intn(4), r)
		}
		var v string
		if err := json.Unmarshal(m.V, &v); err != nil {
			vh.Fatal("bad member value: %v", err)
		}
		if m.N == "extra" {
			v = "x"
		}
		return jsonString(c.typeString(v, r), r.Intn(4), r)
	case "number":
		return pick(r, "5", "0", "-1", "1.5", "1e3", "1")
	case "null":
		return "null"
	case "bool":
		return pick(r, "true", "false")
	case "array":
		return pick(r, "[]", `["offer"]`, `["v=0"]`, `[[]]`, `[null]`)
	case "object":
		return pick(r, "{}", `{"type":"offer"}`, `{"sdp":"v=0"}`, `{"":{}}`)
	}
	vh.Fatal("unknown JSON kind %q", m.K)
	return ""
}

func (c *conc) object(d *document, r *vh.Rng) string {
	w := d.Top == "object-ws"
	var sb strings.Builder
	sb.WriteString(ws(r, w) + "{" + ws(r, w))
	for i, m := range d.Mem {
		if i > 0 {
			sb.WriteString("," + ws(r, w))
		}
		sb.WriteString(`"` + m.N + `"` + ws(r, w) + ":" + ws(r, w))
		sb.WriteString(c.value(m, r))
		sb.WriteString(ws(r, w))
	}
	sb.WriteString("}" + ws(r, w))
	return sb.String()
}

func (c *conc) docString(d *document) string {
	r := c.rng("doc")
	obj := c.object(d, r)
	switch d.Top {
	case "object", "object-ws":
		return obj
	case "array":
		return pick(r, "["+obj+"]", "[]", "["+obj+","+obj+"]")
	case "string":
		b, _ := json.Marshal(obj)
		return string(b)
	case "number":
		return pick(r, "42", "-0", "1e5", "0.5")
	case "true":
		return pick(r, "true", "false")
	case "null":
		return "null"
	case "garbage":
		return pick(r, "<html><body>502 Bad Gateway</body></html>", "\x00\x01\x02\xff\xfe", "{'type':'offer','sdp':'x'}", "type=offer&sdp=x", "{type:\"offer\"}", "\"", "{{}}", "nul", "{\"type\"}", "{\"type\":\"offer\",}")
	case "truncated":
		return obj[:1+r.Intn(len(obj)-1)]
	case "trailing":
		return obj + pick(r, "x", "{}", ",", "]", "\x00", "}", obj)
	case "empty":
		return ""
	case "bom":
		return "\xef\xbb\xbf" + obj
	case "deeparray", "deepsdp", "deepobject":
		n := []int{100, 9999, 10001, 100000}[r.Intn(4)]
		switch d.Top {
		case "deeparray":
			return strings.Repeat("[", n) + strings.Repeat("]", n)
		case "deepsdp":
			return `{"type":"offer","sdp":` + strings.Repeat("[", n) + strings.Repeat("]", n) + `}`
		}
		return strings.Repeat(`{"type":`, n) + `"offer"` + strings.Repeat("}", n)
	case "sdptext":
		var t sdpText
		json.Unmarshal(d.Mem[len(d.Mem)-1].V, &t)
		return c.text(&t)
	}
	vh.Fatal("unknown top %q", d.Top)
	return ""
}

// ---------------------------------------------------------------------------
// classes (signatures are built from these, never from concrete bytes)

func docClass(sc *scase) string {
	d := sc.Doc
	tk, sk := "absent", "absent"
	notString := false
	for _, m := range d.Mem {
		if m.N != "type" && m.N != "sdp" {
			continue
		}
		if m.K != "str" {
			notString = true
		}
		k := m.K
		if m.N == "type" {
			if m.K == "str" {
				var v string
				json.Unmarshal(m.V, &v)
				k = "str:" + v
			}
			tk = k
		} else {
			sk = k
		}
	}
	if (strings.HasPrefix(d.Top, "object") && notString) || d.Top == "deepsdp" || d.Top == "deepobject" {
		return "member-not-string"
	}
	return fmt.Sprintf("top=%s/shape=%s/type=%s/sdp=%s", d.Top, sc.Shape, tk, sk)
}

func textClass(t *sdpText) string {
	if t.Raw != "" {
		return "raw=" + t.Raw
	}
	return fmt.Sprintf("hdr=%s/media=%s/cline=%s/cand=%s/eol=%s/dmg=%s", t.Hdr, t.Media, t.CLine, t.Cand, t.Eol, t.Dmg)
}

// ---------------------------------------------------------------------------

func (c *conc) concOutcomes(outs []outcome) []concOutcome {
	var out []concOutcome
	for _, o := range outs {
		co := concOutcome{Res: o.Res, Type: o.Type}
		if o.Res == "value" {
			co.SDP = base64.StdEncoding.EncodeToString([]byte(c.text(o.Text)))
		}
		out = append(out, co)
	}
	return out
}

func short(s string) string {
	if len(s) > 300 {
		return fmt.Sprintf("%q... (%d bytes)", s[:300], len(s))
	}
	return fmt.Sprintf("%q", s)
}

// judge compares the real result of Deserialize with the allowed outcomes.
func (c *conc) judge(sc *scase, class, in string, desc *webrtc.SessionDescription, err error, allowed []outcome, w *vh.Writer) {
	kind := ""
	switch {
	case desc == nil && err == nil:
		kind = "nil-nil"
	default:
		ok := false
		for _, o := range allowed {
			switch o.Res {
			case "error":
				ok = ok || err != nil
			case "value-any":
				ok = ok || (err == nil && desc != nil)
			case "value":
				ok = ok || (err == nil && desc != nil && desc.Type.String() == o.Type && desc.SDP == c.text(o.Text))
			}
		}
		if ok {
			return
		}
		if err != nil {
			kind = "error-on-wellformed"
		} else {
			kind = "wrong-value"
		}
	}
	got := "nil"
	if desc != nil {
		got = fmt.Sprintf("{type %s, sdp %s}", desc.Type, short(desc.SDP))
	}
	w.Put(vh.Result{Idx: c.idx, Sig: kind + ":" + class,
		Detail: fmt.Sprintf("site util.DeserializeSessionDescription: input %s -> description %s, err %v; the contract allows %v", short(in), got, err, allowed), Case: sc})
}

func runCase(raw json.RawMessage, i int, seed uint64, w *vh.Writer, cw *vh.Writer, executed, nontrivial *int64) {
	var sc scase
	if err := json.Unmarshal(raw, &sc); err != nil {
		vh.Fatal("bad case %d: %v", i, err)
	}
	idx := i
	if sc.Idx != nil {
		idx = *sc.Idx
	}
	c := &conc{seed: seed, idx: idx}
	switch sc.Mode {
	case "doc":
		atomic.AddInt64(executed, 1)
		if sc.NT {
			atomic.AddInt64(nontrivial, 1)
		}
		in := c.docString(sc.Doc)
		class := docClass(&sc)
		cw.Put(concCase{Idx: idx, Mode: "doc", Class: class, NT: sc.NT, In: base64.StdEncoding.EncodeToString([]byte(in)),
			Proxy: c.concOutcomes(sc.Expect.Proxy), Client: c.concOutcomes(sc.Expect.Client), Case: raw})
		func() {
			defer func() {
				if v := recover(); v != nil {
					w.Put(vh.Result{Idx: idx, Sig: "panic:" + class, Detail: fmt.Sprintf("site util.DeserializeSessionDescription: input %s panics: %v", short(in), v), Case: sc})
				}
			}()
			desc, err := util.DeserializeSessionDescription(in)
			c.judge(&sc, class, in, desc, err, sc.Expect.Deser, w)
		}()
	case "rt":
		atomic.AddInt64(executed, 1)
		if sc.NT {
			atomic.AddInt64(nontrivial, 1)
		}
		text := c.text(sc.Text)
		class := "rt/type=" + sc.Type + "/" + textClass(sc.Text)
		func() {
			defer func() {
				if v := recover(); v != nil {
					w.Put(vh.Result{Idx: idx, Sig: "panic:" + class, Detail: fmt.Sprintf("Serialize/Deserialize of {type %s, sdp %s} panics: %v", sc.Type, short(text), v), Case: sc})
				}
			}()
			d := &webrtc.SessionDescription{Type: webrtc.NewSDPType(sc.Type), SDP: text}
			s, err := util.SerializeSessionDescription(d)
			if err != nil {
				w.Put(vh.Result{Idx: idx, Sig: "serialize-error:" + class, Detail: fmt.Sprintf("SerializeSessionDescription({type %s, sdp %s}) = %v", sc.Type, short(text), err), Case: sc})
				return
			}
			if d.Type.String() != sc.Type || d.SDP != text {
				w.Put(vh.Result{Idx: idx, Sig: "serialize-mutates:" + class, Detail: "SerializeSessionDescription changed its argument", Case: sc})
				return
			}
			desc, err := util.DeserializeSessionDescription(s)
			c.judge(&sc, class, s, desc, err, sc.Expect.Deser, w)
		}()
	case "text":
		cw.Put(concCase{Idx: idx, Mode: "text", Class: "text/" + textClass(sc.Text), NT: sc.NT,
			In: base64.StdEncoding.EncodeToString([]byte(c.text(sc.Text))), Case: raw})
	default:
		vh.Fatal("unknown mode %q", sc.Mode)
	}
}

func main() {
	if len(os.Args) < 6 || os.Args[1] != "run" {
		vh.Fatal("usage: sdpjsondrv run <cases.ndjson> <out.ndjson> <seed> <concretised-out.ndjson>")
	}
	cases, err := vh.ReadCases(os.Args[2])
	if err != nil {
		vh.Fatal("%v", err)
	}
	w, err := vh.NewWriter(os.Args[3])
	if err != nil {
		vh.Fatal("%v", err)
	}
	seed, _ := strconv.ParseUint(os.Args[4], 10, 64)
	cw, err := vh.NewWriter(os.Args[5])
	if err != nil {
		vh.Fatal("%v", err)
	}
	var executed, nontrivial int64
	vh.RunParallel(len(cases), 0, func(i int) {
		runCase(cases[i], i, seed, w, cw, &executed, &nontrivial)
	}, func(i int, v interface{}, stack string) {
		vh.Fatal("driver panic outside the code under test, case %d: %v\n%s", i, v, stack)
	})
	w.Put(map[string]interface{}{"summary": map[string]interface{}{"cases": executed, "nontrivial": nontrivial}})
	if err := w.Close(); err != nil {
		vh.Fatal("%v", err)
	}
	if err := cw.Close(); err != nil {
		vh.Fatal("%v", err)
	}
}
