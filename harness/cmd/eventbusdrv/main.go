// eventbusdrv binds spec/EventBus to the real common/event package through its
// exported API only.  It EXECUTES and RECORDS; TLC is the oracle.
//
//	eventbusdrv replay  <sched.ndjson> <out.ndjson> [workers]
//	    gated schedules (projections of TLC behaviours of EventBus!GenSpec: one command
//	    at a time, an observation after every command once all goroutines have come to
//	    rest) and herds (free-running dispatchers and mutators) against a real
//	    event.NewSnowflakeEventDispatcher(); the traces go to spec/EventBus/EventBus_Trace.
//	eventbusdrv strings <cases.ndjson> <out.ndjson>
//	    the event values enumerated by spec/EventBus/EventStrings: String() of the real
//	    struct under recover, compared with the result TLC printed.
//	eventbusdrv sites   <repo> <out.ndjson>
//	    every composite literal of an event type in the producers (client/lib,
//	    proxy/lib, non-test files) with the provenance of its Error field; judged by
//	    TLC (EventStrings!SiteSafe) - nothing is decided here.
package main

import (
	"bufio"
	"bytes"
	"encoding/json"
	"errors"
	"fmt"
	"go/ast"
	"go/parser"
	"go/token"
	"os"
	"path/filepath"
	"regexp"
	"runtime"
	"sort"
	"strconv"
	"strings"
	"sync"
	"sync/atomic"
	"time"

	"git.torproject.org/pluggable-transports/snowflake.git/v2/common/event"
	"github.com/pion/webrtc/v3"
)

// ---------------------------------------------------------------------------
// replay

type step struct {
	Op string `json:"op"` // Dispatch | Release | Add | Remove
	D  int    `json:"d,omitempty"`
	M  int    `json:"m,omitempty"`
	X  int    `json:"x,omitempty"`
}

type mutOp struct {
	Op string `json:"op"`
	X  int    `json:"x"`
}

type herd struct {
	Pre         []int     `json:"pre"`         // receivers registered before the start (mutator 11)
	Dispatchers []int     `json:"dispatchers"` // events per dispatcher goroutine
	Mutators    [][]mutOp `json:"mutators"`    // operations per mutator goroutine
	Yield       int       `json:"yield"`       // scheduler yields inside a slow callback
}

type sched struct {
	ID    int      `json:"id"`
	Mode  string   `json:"mode"`  // gated | herd
	Kinds []string `json:"kinds"` // kind of receiver x = Kinds[x-1]
	Steps []step   `json:"steps,omitempty"`
	Herd  *herd    `json:"herd,omitempty"`
}

type trace struct {
	ID      int                      `json:"id"`
	Mode    string                   `json:"mode"`
	Events  []map[string]interface{} `json:"events"`
	Skipped int                      `json:"skipped"`
	Note    string                   `json:"note,omitempty"`
}

type op struct {
	goid int64
	done int32
	pan  interface{}
}

func (o *op) finished() bool { return atomic.LoadInt32(&o.done) == 1 }

var goidRe = regexp.MustCompile(`^goroutine (\d+) \[([^\]]*)\]:`)

func goid() int64 {
	var buf [64]byte
	n := runtime.Stack(buf[:], false)
	m := goidRe.FindSubmatch(buf[:n])
	if m == nil {
		return -1
	}
	id, _ := strconv.ParseInt(string(m[1]), 10, 64)
	return id
}

func spawn(hold <-chan struct{}, f func()) *op {
	o := &op{}
	ready := make(chan struct{})
	go func() {
		o.goid = goid()
		close(ready)
		defer func() {
			if r := recover(); r != nil {
				o.pan = r
			}
			atomic.StoreInt32(&o.done, 1)
		}()
		if hold != nil {
			<-hold
		}
		f()
	}()
	<-ready
	return o
}

type rig struct {
	sc     sched
	bus    event.SnowflakeEventDispatcher
	recvs  []*recv
	gates  map[int]chan struct{}
	dops   map[int]*op
	dcount map[int]*int32
	mops   map[int]*op
	mcount map[int]*int32
	mu     sync.Mutex // recorder
	events []map[string]interface{}
	keep   int // number of events that belong to the trace (what happens during the clean-up does not)
	stack  []byte
	depth  int32 // re-entrant dispatches in progress (a bus that lets them through must not recurse for ever)
	capped int32
}

const maxEvents = 20000

// recv is a receiver of kind k; it is compared by pointer identity (non-empty struct).
type recv struct {
	r    *rig
	x    int
	kind string
}

func (v *recv) OnNewSnowflakeEvent(e event.SnowflakeEvent) {
	// the events of the replay are real EventOnProxyConnectionOver values whose two
	// counters carry (dispatcher, number of the event)
	ev, ok := e.(event.EventOnProxyConnectionOver)
	if !ok {
		v.r.rec(map[string]interface{}{"ev": "Deliver", "d": 0, "n": 0, "x": v.x})
		return
	}
	d, n := ev.InboundTraffic, ev.OutboundTraffic
	v.r.rec(map[string]interface{}{"ev": "Deliver", "d": d, "n": n, "x": v.x})
	switch v.kind {
	case "gated":
		if v.r.sc.Mode == "herd" {
			for i := 0; i < v.r.sc.Herd.Yield; i++ {
				runtime.Gosched()
			}
			v.r.rec(map[string]interface{}{"ev": "Release", "d": d})
		} else {
			<-v.r.gates[d]
		}
	case "panic":
		panic("verif: receiver panics")
	case "reAdd":
		v.r.bus.AddSnowflakeEventListener(v)
	case "reRemove":
		v.r.bus.RemoveSnowflakeEventListener(v)
	case "reDispatch":
		if atomic.AddInt32(&v.r.depth, 1) == 1 {
			v.r.bus.OnNewSnowflakeEvent(e)
		}
		atomic.AddInt32(&v.r.depth, -1)
	}
}

func (r *rig) rec(ev map[string]interface{}) {
	r.mu.Lock()
	if len(r.events) < maxEvents {
		r.events = append(r.events, ev)
	} else {
		atomic.StoreInt32(&r.capped, 1)
	}
	r.mu.Unlock()
}

func newRig(sc sched) *rig {
	r := &rig{sc: sc, bus: event.NewSnowflakeEventDispatcher(), gates: map[int]chan struct{}{}, dops: map[int]*op{}, dcount: map[int]*int32{},
		mops: map[int]*op{}, mcount: map[int]*int32{}, stack: make([]byte, 1<<16)}
	for i, k := range sc.Kinds {
		r.recvs = append(r.recvs, &recv{r: r, x: i + 1, kind: k})
	}
	for d := 1; d <= 8; d++ {
		r.gates[d] = make(chan struct{})
		r.dcount[d] = new(int32)
	}
	for m := 11; m <= 18; m++ {
		r.mcount[m] = new(int32)
	}
	r.events = append(r.events, map[string]interface{}{"ev": "kinds", "k": sc.Kinds})
	return r
}

func (r *rig) dispatch(d int) {
	n := int(atomic.AddInt32(r.dcount[d], 1))
	r.bus.OnNewSnowflakeEvent(event.EventOnProxyConnectionOver{InboundTraffic: d, OutboundTraffic: n})
}

func (r *rig) mutate(o mutOp) {
	if o.X < 1 || o.X > len(r.recvs) {
		return
	}
	if o.Op == "add" {
		r.bus.AddSnowflakeEventListener(r.recvs[o.X-1])
	} else {
		r.bus.RemoveSnowflakeEventListener(r.recvs[o.X-1])
	}
}

// where classifies a parked goroutine of the rig: lock | incb | selflock | "" (not at rest)
func where(state, body string) string {
	st := state
	if i := strings.IndexByte(st, ','); i >= 0 {
		st = st[:i]
	}
	incb := strings.Contains(body, "main.(*recv).OnNewSnowflakeEvent")
	switch {
	case st == "chan receive" && incb && !strings.Contains(body, "sync.(*Mutex)"):
		return "incb"
	case (st == "sync.Mutex.Lock" || st == "semacquire" || st == "sync.RWMutex.Lock" || st == "sync.RWMutex.RLock") && strings.Contains(body, "common/event.(*eventBus)."):
		// the first frame outside package sync must be the bus (not the recorder's or the logger's mutex)
		for _, ln := range strings.Split(body, "\n")[1:] {
			if strings.HasPrefix(ln, "\t") || strings.HasPrefix(ln, "sync.") || strings.HasPrefix(ln, "internal/") || strings.HasPrefix(ln, "runtime.") {
				continue
			}
			if !strings.Contains(ln, "common/event.(*eventBus).") {
				return ""
			}
			if incb {
				return "selflock"
			}
			return "lock"
		}
	}
	return ""
}

func (r *rig) pending() map[*op]bool {
	out := map[*op]bool{}
	for _, o := range r.dops {
		if o != nil && !o.finished() {
			out[o] = true
		}
	}
	for _, o := range r.mops {
		if o != nil && !o.finished() {
			out[o] = true
		}
	}
	return out
}

func (r *rig) quiesce() (map[*op]string, error) {
	deadline := time.Now().Add(10 * time.Second)
	var prev, unknown string
	same := 0
	for {
		pend := r.pending()
		if len(pend) == 0 {
			return map[*op]string{}, nil
		}
		var n int
		for {
			n = runtime.Stack(r.stack, true)
			if n < len(r.stack) {
				break
			}
			r.stack = make([]byte, 2*len(r.stack))
		}
		states := map[int64][2]string{}
		for _, blk := range bytes.Split(r.stack[:n], []byte("\n\n")) {
			m := goidRe.FindSubmatch(blk)
			if m == nil {
				continue
			}
			id, _ := strconv.ParseInt(string(m[1]), 10, 64)
			states[id] = [2]string{string(m[2]), string(blk)}
		}
		res := map[*op]string{}
		ok := true
		var pic []string
		for o := range pend {
			if o.finished() {
				ok = false
				break
			}
			s, found := states[o.goid]
			if !found {
				ok = false
				break
			}
			w := where(s[0], s[1])
			if w == "" {
				ok = false
				lines := strings.Split(s[1], "\n")
				if len(lines) > 9 {
					lines = lines[:9]
				}
				unknown = strings.Join(lines, " | ")
				break
			}
			res[o] = w
			pic = append(pic, fmt.Sprintf("%d:%s", o.goid, w))
		}
		// a picture in which somebody waits for the lock and nobody is inside a callback is what a
		// wedged bus looks like - and, for an instant, what a hand-over of the lock looks like: it
		// must last (five identical pictures, 5 ms apart) before it is believed
		suspicious := false
		if ok {
			inside := false
			for _, w := range res {
				if w == "incb" || w == "selflock" {
					inside = true
				}
			}
			suspicious = !inside
		}
		if ok {
			sort.Strings(pic)
			p := strings.Join(pic, ";")
			if p == prev {
				same++
			} else {
				same = 0
			}
			prev = p
			if (!suspicious && same >= 1) || same >= 5 {
				return res, nil
			}
		} else {
			prev, same = "", 0
		}
		if time.Now().After(deadline) {
			return nil, fmt.Errorf("no quiescence within 10s; last goroutine not at rest: %s", unknown)
		}
		if suspicious {
			time.Sleep(5 * time.Millisecond)
		} else {
			runtime.Gosched()
		}
	}
}

func (r *rig) observe(w map[*op]string) map[string]interface{} {
	maxd, maxm := 0, 0
	for d, c := range r.dcount {
		if atomic.LoadInt32(c) > 0 && d > maxd {
			maxd = d
		}
	}
	for m, c := range r.mcount {
		if atomic.LoadInt32(c) > 0 && m-10 > maxm {
			maxm = m - 10
		}
	}
	one := func(o *op, n int32) map[string]interface{} {
		m := map[string]interface{}{"st": "idle", "n": int(n)}
		if o != nil {
			switch {
			case !o.finished():
				m["st"] = w[o]
			case o.pan != nil:
				m["st"] = "panic"
				m["panic"] = fmt.Sprint(o.pan)
			}
		}
		return m
	}
	ds, ms := []interface{}{}, []interface{}{}
	for d := 1; d <= maxd; d++ {
		ds = append(ds, one(r.dops[d], atomic.LoadInt32(r.dcount[d])))
	}
	for i := 1; i <= maxm; i++ {
		ms = append(ms, one(r.mops[10+i], atomic.LoadInt32(r.mcount[10+i])))
	}
	return map[string]interface{}{"ev": "obs", "ds": ds, "ms": ms}
}

func (r *rig) apply(s step, w map[*op]string) bool {
	switch s.Op {
	case "Dispatch":
		if s.D < 1 || s.D > 8 {
			return false
		}
		if o := r.dops[s.D]; o != nil && (!o.finished() || o.pan != nil) {
			return false // still inside a call, or ended by a panic
		}
		r.rec(map[string]interface{}{"ev": "Dispatch", "d": s.D})
		d := s.D
		r.dops[d] = spawn(nil, func() { r.dispatch(d) })
		return true
	case "Release":
		o := r.dops[s.D]
		if o == nil || o.finished() || w[o] != "incb" {
			return false
		}
		r.rec(map[string]interface{}{"ev": "Release", "d": s.D})
		r.gates[s.D] <- struct{}{}
		return true
	case "Add", "Remove":
		if s.M < 11 || s.M > 18 || s.X < 1 || s.X > len(r.recvs) {
			return false
		}
		if o := r.mops[s.M]; o != nil && !o.finished() {
			return false
		}
		r.rec(map[string]interface{}{"ev": s.Op, "m": s.M, "x": s.X})
		atomic.AddInt32(r.mcount[s.M], 1)
		mo := mutOp{Op: strings.ToLower(s.Op), X: s.X}
		r.mops[s.M] = spawn(nil, func() { r.mutate(mo) })
		return true
	}
	return false
}

func (r *rig) runGated(tr *trace) {
	w := map[*op]string{}
	for _, st := range r.sc.Steps {
		if !r.apply(st, w) {
			tr.Skipped++
			continue
		}
		var err error
		w, err = r.quiesce()
		if err != nil {
			tr.Note = "quiescence: " + err.Error()
			return
		}
		r.mu.Lock()
		r.events = append(r.events, r.observe(w))
		r.mu.Unlock()
	}
	// let the parked callbacks go (not part of the trace); wedged goroutines stay for ever
	r.mu.Lock()
	r.keep = len(r.events)
	r.mu.Unlock()
	for i := 0; i < 50; i++ {
		for _, g := range r.gates {
			select {
			case g <- struct{}{}:
			default:
			}
		}
		runtime.Gosched()
	}
}

func (r *rig) runHerd(tr *trace) {
	h := r.sc.Herd
	for _, x := range h.Pre {
		r.rec(map[string]interface{}{"ev": "Add", "m": 11, "x": x})
		atomic.AddInt32(r.mcount[11], 1)
		r.mutate(mutOp{Op: "add", X: x})
		r.rec(map[string]interface{}{"ev": "RetMutate", "m": 11})
	}
	start := make(chan struct{})
	for i, n := range h.Dispatchers {
		d, n := i+1, n
		r.dops[d] = spawn(start, func() {
			for j := 0; j < n; j++ {
				r.rec(map[string]interface{}{"ev": "Dispatch", "d": d})
				func() {
					defer func() {
						if p := recover(); p != nil {
							r.rec(map[string]interface{}{"ev": "RetDispatch", "d": d, "res": "panic"})
							panic(p)
						}
					}()
					r.dispatch(d)
				}()
				r.rec(map[string]interface{}{"ev": "RetDispatch", "d": d, "res": "ok"})
			}
		})
	}
	for i, ops := range h.Mutators {
		m, ops := 12+i, ops
		r.mops[m] = spawn(start, func() {
			for _, o := range ops {
				name := "Add"
				if o.Op != "add" {
					name = "Remove"
				}
				r.rec(map[string]interface{}{"ev": name, "m": m, "x": o.X})
				atomic.AddInt32(r.mcount[m], 1)
				r.mutate(o)
				r.rec(map[string]interface{}{"ev": "RetMutate", "m": m})
			}
		})
	}
	close(start)
	w, err := r.quiesce()
	if err != nil {
		tr.Note = "quiescence: " + err.Error()
		return
	}
	r.mu.Lock()
	r.events = append(r.events, r.observe(w))
	r.mu.Unlock()
}

var quiesceFailures int32

func runSchedule(sc sched) (tr trace) {
	tr = trace{ID: sc.ID, Mode: sc.Mode, Events: []map[string]interface{}{}}
	if atomic.LoadInt32(&quiesceFailures) >= 3 {
		tr.Note = "not run: quiescence failed three times in this process"
		return tr
	}
	defer func() {
		if strings.HasPrefix(tr.Note, "quiescence") {
			atomic.AddInt32(&quiesceFailures, 1)
		}
	}()
	defer func() {
		if p := recover(); p != nil {
			tr.Note = fmt.Sprintf("harness panic: %v", p)
		}
	}()
	r := newRig(sc)
	if sc.Mode == "herd" {
		r.runHerd(&tr)
	} else {
		r.runGated(&tr)
	}
	if atomic.LoadInt32(&r.capped) == 1 && tr.Note == "" {
		tr.Note = "more than 20000 events in one schedule"
	}
	r.mu.Lock()
	if r.keep == 0 || tr.Note != "" {
		r.keep = len(r.events)
	}
	tr.Events = append([]map[string]interface{}{}, r.events[:r.keep]...)
	r.mu.Unlock()
	return tr
}

func readLines(path string) [][]byte {
	f, err := os.Open(path)
	if err != nil {
		fatal(err)
	}
	defer f.Close()
	var out [][]byte
	sc := bufio.NewScanner(f)
	sc.Buffer(make([]byte, 1<<20), 1<<26)
	for sc.Scan() {
		if b := bytes.TrimSpace(sc.Bytes()); len(b) > 0 {
			out = append(out, append([]byte(nil), b...))
		}
	}
	return out
}

func fatal(err error) {
	fmt.Fprintln(os.Stderr, "eventbusdrv:", err)
	os.Exit(2)
}

func replay(in, out string, workers int) {
	lines := readLines(in)
	of, err := os.Create(out)
	if err != nil {
		fatal(err)
	}
	w := bufio.NewWriter(of)
	var mu sync.Mutex
	ch := make(chan sched)
	var wg sync.WaitGroup
	for i := 0; i < workers; i++ {
		wg.Add(1)
		go func() {
			defer wg.Done()
			for s := range ch {
				tr := runSchedule(s)
				b, _ := json.Marshal(tr)
				mu.Lock()
				w.Write(b)
				w.WriteByte('\n')
				mu.Unlock()
			}
		}()
	}
	for _, ln := range lines {
		var s sched
		if err := json.Unmarshal(ln, &s); err != nil {
			fatal(err)
		}
		ch <- s
	}
	close(ch)
	wg.Wait()
	w.Flush()
	of.Close()
	fmt.Printf("EVENTBUSDRV schedules=%d goroutines_left=%d\n", len(lines), runtime.NumGoroutine())
}

// ---------------------------------------------------------------------------
// strings

type strCase struct {
	Type   string   `json:"type"`
	Err    string   `json:"err"`   // nil | plain | addr | empty | na
	Msg    []string `json:"msg"`   // the error text in parts; the token ADDR stands for an IP address with port
	Desc   bool     `json:"desc"`  // the *webrtc.SessionDescription field is non-nil
	In     int      `json:"inb"`
	Out    int      `json:"outb"`
	Expect struct {
		Result string   `json:"result"` // ok | panic
		Text   []string `json:"text"`   // parts; tokens SCRUBBED, UP, DOWN
	} `json:"expect"`
}

const concreteAddr = "203.0.113.77:443"

func concretise(parts []string, m map[string]string) string {
	var b strings.Builder
	for _, p := range parts {
		if v, ok := m[p]; ok {
			b.WriteString(v)
		} else {
			b.WriteString(p)
		}
	}
	return b.String()
}

func doStrings(in, out string) {
	lines := readLines(in)
	of, err := os.Create(out)
	if err != nil {
		fatal(err)
	}
	w := bufio.NewWriter(of)
	bad := 0
	for i, ln := range lines {
		var c strCase
		if err := json.Unmarshal(ln, &c); err != nil {
			fatal(err)
		}
		var e error
		if c.Err != "nil" && c.Err != "na" {
			e = errors.New(concretise(c.Msg, map[string]string{"ADDR": concreteAddr}))
		}
		var desc *webrtc.SessionDescription
		if c.Desc {
			desc = &webrtc.SessionDescription{Type: webrtc.SDPTypeOffer, SDP: "v=0\r\n"}
		}
		var ev event.SnowflakeEvent
		switch c.Type {
		case "EventOnOfferCreated":
			ev = event.EventOnOfferCreated{WebRTCLocalDescription: desc, Error: e}
		case "EventOnBrokerRendezvous":
			ev = event.EventOnBrokerRendezvous{WebRTCRemoteDescription: desc, Error: e}
		case "EventOnSnowflakeConnected":
			ev = event.EventOnSnowflakeConnected{}
		case "EventOnSnowflakeConnectionFailed":
			ev = event.EventOnSnowflakeConnectionFailed{Error: e}
		case "EventOnProxyConnectionOver":
			ev = event.EventOnProxyConnectionOver{InboundTraffic: c.In, OutboundTraffic: c.Out}
		default:
			fatal(fmt.Errorf("unknown event type %q", c.Type))
		}
		result, text, pan := "ok", "", ""
		func() {
			defer func() {
				if p := recover(); p != nil {
					result, pan = "panic", fmt.Sprint(p)
				}
			}()
			text = ev.String()
		}()
		want := concretise(c.Expect.Text, map[string]string{"SCRUBBED": "[scrubbed]", "UP": "↑", "DOWN": "↓"})
		okk := result == c.Expect.Result && (result == "panic" || text == want)
		if !okk {
			bad++
		}
		b, _ := json.Marshal(map[string]interface{}{"idx": i, "type": c.Type, "err": c.Err, "desc": c.Desc, "inb": c.In, "outb": c.Out,
			"result": result, "text": text, "panic": pan, "want_result": c.Expect.Result, "want_text": want, "ok": okk,
			"leak": strings.Contains(text, "203.0.113.77")})
		w.Write(b)
		w.WriteByte('\n')
	}
	w.Flush()
	of.Close()
	fmt.Printf("EVENTBUSDRV strings=%d nonconforming=%d\n", len(lines), bad)
}

// ---------------------------------------------------------------------------
// sites

type site struct {
	File string `json:"file"`
	Func string `json:"func"`
	Line int    `json:"line"`
	Type string `json:"type"`
	Prov string `json:"prov"` // provenance of the Error field: na | absent | nil | new | checked | callback:<registrar> | maybe
}

func isNewErr(e ast.Expr) bool {
	c, ok := e.(*ast.CallExpr)
	if !ok {
		return false
	}
	s, ok := c.Fun.(*ast.SelectorExpr)
	if !ok {
		return false
	}
	p, ok := s.X.(*ast.Ident)
	return ok && ((p.Name == "errors" && s.Sel.Name == "New") || (p.Name == "fmt" && s.Sel.Name == "Errorf"))
}

// provenance of identifier `name` used at position pos, looking only at the innermost
// enclosing function (path: ancestors, outermost first)
func provenance(fset *token.FileSet, path []ast.Node, name string, pos token.Pos) string {
	// innermost function
	fi := -1
	for i := len(path) - 1; i >= 0; i-- {
		switch path[i].(type) {
		case *ast.FuncLit, *ast.FuncDecl:
			fi = i
		}
		if fi >= 0 {
			break
		}
	}
	if fi < 0 {
		return "maybe"
	}
	// a parameter of a function literal handed to X.OnSomething(...)
	if fl, ok := path[fi].(*ast.FuncLit); ok {
		for _, f := range fl.Type.Params.List {
			for _, n := range f.Names {
				if n.Name == name && fi > 0 {
					if call, ok := path[fi-1].(*ast.CallExpr); ok {
						if sel, ok := call.Fun.(*ast.SelectorExpr); ok {
							return "callback:" + sel.Sel.Name
						}
					}
					return "maybe"
				}
			}
		}
	}
	// inside `if name != nil { ... }`
	for i := fi + 1; i < len(path); i++ {
		if ifs, ok := path[i].(*ast.IfStmt); ok && i+1 < len(path) && path[i+1] == ast.Node(ifs.Body) {
			if b, ok := ifs.Cond.(*ast.BinaryExpr); ok && b.Op == token.NEQ {
				x, xok := b.X.(*ast.Ident)
				y, yok := b.Y.(*ast.Ident)
				if xok && yok && ((x.Name == name && y.Name == "nil") || (y.Name == name && x.Name == "nil")) {
					return "checked"
				}
			}
		}
	}
	// the last assignment to name before pos, in the innermost block chain
	var body *ast.BlockStmt
	switch f := path[fi].(type) {
	case *ast.FuncLit:
		body = f.Body
	case *ast.FuncDecl:
		body = f.Body
	}
	last := "maybe"
	var lastPos token.Pos
	ast.Inspect(body, func(n ast.Node) bool {
		if n == nil {
			return true
		}
		if fl, ok := n.(*ast.FuncLit); ok && ast.Node(fl) != path[fi] && !(fl.Pos() <= pos && pos < fl.End()) {
			return false // another closure
		}
		if as, ok := n.(*ast.AssignStmt); ok && as.Pos() < pos && as.Pos() > lastPos {
			for i, l := range as.Lhs {
				if id, ok := l.(*ast.Ident); ok && id.Name == name {
					lastPos = as.Pos()
					if len(as.Rhs) == len(as.Lhs) && isNewErr(as.Rhs[i]) {
						last = "new"
					} else {
						last = "maybe"
					}
				}
			}
		}
		return true
	})
	return last
}

func doSites(repo, out string) {
	var sites []site
	fset := token.NewFileSet()
	for _, dir := range []string{"client/lib", "proxy/lib", "client", "proxy", "server/lib", "server", "broker", "common/event"} {
		files, _ := filepath.Glob(filepath.Join(repo, dir, "*.go"))
		sort.Strings(files)
		for _, fn := range files {
			if strings.HasSuffix(fn, "_test.go") {
				continue
			}
			f, err := parser.ParseFile(fset, fn, nil, 0)
			if err != nil {
				fatal(err)
			}
			var path []ast.Node
			ast.Inspect(f, func(n ast.Node) bool {
				if n == nil {
					path = path[:len(path)-1]
					return true
				}
				path = append(path, n)
				cl, ok := n.(*ast.CompositeLit)
				if !ok {
					return true
				}
				tname := ""
				switch t := cl.Type.(type) {
				case *ast.SelectorExpr:
					if p, ok := t.X.(*ast.Ident); ok && p.Name == "event" {
						tname = t.Sel.Name
					}
				case *ast.Ident:
					if f.Name.Name == "event" {
						tname = t.Name
					}
				}
				if !strings.HasPrefix(tname, "EventOn") {
					return true
				}
				s := site{File: strings.TrimPrefix(fn, repo+"/"), Line: fset.Position(cl.Pos()).Line, Type: tname, Prov: "absent"}
				var fnames []string
				for _, a := range path {
					switch fd := a.(type) {
					case *ast.FuncDecl:
						fnames = append(fnames, fd.Name.Name)
					case *ast.FuncLit:
						fnames = append(fnames, "func")
					}
				}
				s.Func = strings.Join(fnames, "/")
				for _, el := range cl.Elts {
					kv, ok := el.(*ast.KeyValueExpr)
					if !ok {
						s.Prov = "maybe" // positional literal: not analysed
						continue
					}
					if k, ok := kv.Key.(*ast.Ident); !ok || k.Name != "Error" {
						continue
					}
					switch v := kv.Value.(type) {
					case *ast.Ident:
						if v.Name == "nil" {
							s.Prov = "nil"
						} else {
							s.Prov = provenance(fset, path, v.Name, cl.Pos())
						}
					default:
						if isNewErr(kv.Value) {
							s.Prov = "new"
						} else {
							s.Prov = "maybe"
						}
					}
				}
				sites = append(sites, s)
				return true
			})
		}
	}
	of, err := os.Create(out)
	if err != nil {
		fatal(err)
	}
	w := bufio.NewWriter(of)
	for _, s := range sites {
		b, _ := json.Marshal(s)
		w.Write(b)
		w.WriteByte('\n')
	}
	w.Flush()
	of.Close()
	fmt.Printf("EVENTBUSDRV sites=%d\n", len(sites))
}

func main() {
	if len(os.Args) < 4 {
		fatal(fmt.Errorf("usage: eventbusdrv replay|strings|sites <in> <out> [workers]"))
	}
	switch os.Args[1] {
	case "replay":
		workers := 4
		if len(os.Args) > 4 {
			if v, err := strconv.Atoi(os.Args[4]); err == nil && v > 0 {
				workers = v
			}
		}
		replay(os.Args[2], os.Args[3], workers)
	case "strings":
		doStrings(os.Args[2], os.Args[3])
	case "sites":
		doSites(os.Args[2], os.Args[3])
	default:
		fatal(fmt.Errorf("unknown mode %q", os.Args[1]))
	}
}
