// ampurldrv replays the cases enumerated by spec/AmpPath and spec/CacheURL
// (TLC) through the real amp.EncodePath / amp.DecodePath / amp.CacheURL.
//
//	ampurldrv pathdec <cases.ndjson> <out.ndjson> <seed>
//	ampurldrv pathenc <cases.ndjson> <out.ndjson> <seed>
//	ampurldrv prefix  <cases.ndjson> <out.ndjson> <seed>
//	ampurldrv url     <cases.ndjson> <out.ndjson> <seed>
//
// base64url, punycode, SHA-256 and base32 are uninterpreted in the
// specifications; this driver takes them from the standard library and
// golang.org/x/net/idna.
package main

import (
	"bytes"
	"crypto/sha256"
	"encoding/base32"
	"encoding/base64"
	"encoding/json"
	"fmt"
	"net/url"
	"os"
	"strconv"
	"strings"
	"sync/atomic"

	"git.torproject.org/pluggable-transports/snowflake.git/v2/common/amp"
	"golang.org/x/net/idna"
	"verifharness/vh"
)

// ---------------------------------------------------------------------------
// AmpPath

type data struct {
	Len  int    `json:"len"`
	Fill string `json:"fill"`
}
type ptok struct {
	K string `json:"k"`
	C string `json:"c"`
	D data   `json:"d"`
}
type pathCase struct {
	D      data   `json:"d"`
	Pad    []ptok `json:"pad"`
	Path   []ptok `json:"path"`
	Expect struct {
		Class string `json:"class"`
		D     data   `json:"d"`
	} `json:"expect"`
}

func fillData(d data, key uint64) []byte {
	p := make([]byte, d.Len)
	switch d.Fill {
	case "zero":
	case "ff":
		for i := range p {
			p[i] = 0xff - byte(i%5) // fb..ff: base64url uses - and _
		}
	case "slash":
		for i := range p {
			p[i] = '/'
		}
	case "rand":
		vh.Fill(p, key, 0)
	default:
		vh.Fatal("unknown fill %q", d.Fill)
	}
	return p
}

var verChars = map[string][]string{
	"zero": {"0"}, "one": {"1", "2", "9"}, "letter": {"a", "O", "o"}, "slash": {"/"}, "percent": {"%"}, "high": {"\xc3\xa9", "\xff"}, "space": {" "},
}
var junkRuns = map[string][]string{
	"b64url": {"lgWHcwhXFjUm", "A", "0", "-_-_", "YWJj"}, "dots": {".", "..", "a.b"}, "equals": {"a=b", "=="}, "pct": {"%2F", "%2f%2F", "a%00"},
}
var badRuns = map[string][]string{
	"plus": {"ab+d", "+w"}, "padded": {"YQ==", "YWI="}, "len1": {"YWJjZ", "Y"}, "space": {"YW Jj", " YWJj"}, "pct": {"YW%4a", "%59WJj"},
	"high": {"YW\xc3\xa9j", "\xffWJj"}, "star": {"YW*j", "YWJj."},
}

func pick(m map[string][]string, c string, rng *vh.Rng) string {
	v, ok := m[c]
	if !ok {
		vh.Fatal("unknown class %q", c)
	}
	return v[rng.Intn(len(v))]
}

// concretisePath spells a token sequence; b64 supplies the encoding of a data token.
func concretisePath(toks []ptok, rng *vh.Rng, b64 func(d data) string) string {
	var sb strings.Builder
	for _, t := range toks {
		switch t.K {
		case "V":
			sb.WriteString(pick(verChars, t.C, rng))
		case "S":
			sb.WriteByte('/')
		case "J":
			sb.WriteString(pick(junkRuns, t.C, rng))
		case "X":
			sb.WriteString(pick(badRuns, t.C, rng))
		case "B":
			sb.WriteString(b64(t.D))
		default:
			vh.Fatal("unknown path token %q", t.K)
		}
	}
	return sb.String()
}

type ctx struct {
	w          *vh.Writer
	key        uint64
	nontrivial int64
}

func (x *ctx) doPathDec(raw json.RawMessage, idx int) {
	var c pathCase
	if err := json.Unmarshal(raw, &c); err != nil {
		vh.Fatal("bad case %d: %v", idx, err)
	}
	rng := vh.NewRng(x.key ^ uint64(idx)*0x9e37)
	k := x.key + uint64(idx)
	p := concretisePath(c.Path, rng, func(d data) string { return base64.RawURLEncoding.EncodeToString(fillData(d, k)) })
	if len(c.Path) > 1 {
		atomic.AddInt64(&x.nontrivial, 1)
	}
	got, err := amp.DecodePath(p)
	x.comparePath(idx, c, p, got, err, k, "pathdec")
}

func (x *ctx) comparePath(idx int, c pathCase, p string, got []byte, err error, k uint64, mode string) {
	shape := func() string {
		var s []string
		for _, t := range c.Path {
			s = append(s, t.K+t.C)
		}
		return strings.Join(s, "")
	}
	if c.Expect.Class == "data" {
		want := fillData(c.Expect.D, k)
		if err != nil {
			x.w.Put(vh.Result{Idx: idx, Sig: mode + "/expect=data/got=error", Detail: fmt.Sprintf("DecodePath(%q) = error %v; contract says %d bytes of data [%s]", clip(p), err, len(want), shape()), Case: c})
		} else if !bytes.Equal(got, want) {
			x.w.Put(vh.Result{Idx: idx, Sig: mode + "/expect=data/got=wrong-data", Detail: fmt.Sprintf("DecodePath(%q) = %d bytes; contract says %d other bytes [%s]", clip(p), len(got), len(want), shape()), Case: c})
		}
		return
	}
	if err == nil {
		x.w.Put(vh.Result{Idx: idx, Sig: mode + "/expect=" + c.Expect.Class + "/got=data", Detail: fmt.Sprintf("DecodePath(%q) = %d bytes without error; contract says error %s [%s]", clip(p), len(got), c.Expect.Class, shape()), Case: c})
	}
}

func clip(s string) string {
	if len(s) > 120 {
		return s[:120] + "..."
	}
	return s
}

// pathenc: the real EncodePath output for the data, then its padding replaced
// by the model's padding; both must decode to the data.
func (x *ctx) doPathEnc(raw json.RawMessage, idx int) {
	var c pathCase
	if err := json.Unmarshal(raw, &c); err != nil {
		vh.Fatal("bad case %d: %v", idx, err)
	}
	rng := vh.NewRng(x.key ^ uint64(idx)*0x9e37)
	k := x.key + uint64(idx)
	payload := fillData(c.D, k)
	atomic.AddInt64(&x.nontrivial, 1)
	real := amp.EncodePath(payload)
	report := func(sig, detail string) {
		x.w.Put(vh.Result{Idx: idx, Sig: "pathenc/" + sig, Detail: detail, Case: c})
	}
	// direct round trip
	if got, err := amp.DecodePath(real); err != nil || !bytes.Equal(got, payload) {
		report("roundtrip", fmt.Sprintf("DecodePath(EncodePath(%d bytes)) = %d bytes, err=%v (path %q)", len(payload), len(got), err, clip(real)))
		return
	}
	if len(real) == 0 || real[0] != '0' {
		report("no-version", fmt.Sprintf("EncodePath output %q does not start with 0", clip(real)))
		return
	}
	// survives being a URL path suffix unchanged
	u, err := url.Parse("https://broker.example/amp/client/" + real)
	if err != nil || u.Path != "/amp/client/"+real || u.RawQuery != "" || u.Fragment != "" {
		report("not-url-safe", fmt.Sprintf("EncodePath output %q is altered by URL parsing (err=%v)", clip(real), err))
		return
	}
	i := strings.LastIndexByte(real, '/')
	if i < 0 {
		report("no-slash", fmt.Sprintf("EncodePath output %q has no slash", clip(real)))
		return
	}
	enc := real[i+1:] // what the real encoder made of the data
	p := concretisePath(c.Path, rng, func(d data) string { return enc })
	got, err := amp.DecodePath(p)
	x.comparePath(idx, c, p, got, err, k, "pathenc")
}

// ---------------------------------------------------------------------------
// CacheURL

type ach struct {
	C string `json:"c"`
	I int    `json:"i"`
}
type prefixExpect struct {
	Pre   []ach  `json:"pre"`
	Pre16 []ach  `json:"pre16"`
	Wrap  string `json:"wrap"`
	Alg   string `json:"alg"`
	Len   int    `json:"len"`
}
type prefixCase struct {
	Dom    []ach        `json:"dom"`
	Form   string       `json:"form"`
	Rest   string       `json:"rest"`
	Expect prefixExpect `json:"expect"`
}

var pool = map[string][]rune{
	"a":  []rune("abcdefghijklmnopqrstuvwxyz"),
	"u2": []rune("éüñλжßø"),
	"u3": []rune("⚡中あ€한"),
	"u4": []rune("😊𐍈🜁𝒳"),
}

func runeOf(a ach, salt uint64) rune {
	switch a.C {
	case "-", ".", "0":
		return rune(a.C[0])
	}
	p, ok := pool[a.C]
	if !ok {
		vh.Fatal("unknown character class %q", a.C)
	}
	return p[(uint64(a.I)*7+salt)%uint64(len(p))]
}

func spell(s []ach, salt uint64) string {
	r := make([]rune, len(s))
	for i, a := range s {
		r[i] = runeOf(a, salt)
	}
	return string(r)
}

var b32 = base32.NewEncoding("abcdefghijklmnopqrstuvwxyz234567").WithPadding(base32.NoPadding)

// expectedPrefixes applies the rule of the specification to the concretised
// output of steps 1-4: Puny(pre) if it is a label of at most 63 bytes, else
// base32(SHA-256(domain)).
func expectedPrefixes(e prefixExpect, input string, salt uint64, idx int) []string {
	fallback := b32.EncodeToString(func() []byte { h := sha256.Sum256([]byte(input)); return h[:] }())
	one := func(pre []ach, crosscheck bool) string {
		label, err := idna.ToASCII(spell(pre, salt))
		basic := err == nil && len(label) <= 63
		if crosscheck {
			switch e.Alg {
			case "basic", "fallback":
				if basic != (e.Alg == "basic") || (err == nil && len(label) != e.Len) {
					vh.Fatal("case %d: the model says %s with %d bytes, the concretisation has %d bytes (err=%v)", idx, e.Alg, e.Len, len(label), err)
				}
			}
		}
		if basic {
			return label
		}
		return fallback
	}
	out := []string{one(e.Pre, true)}
	if e.Wrap == "either" {
		out = append(out, one(e.Pre16, false))
	}
	return out
}

const cacheHost = "cdn.ampproject.org"

func (x *ctx) doPrefix(raw json.RawMessage, idx int) {
	var c prefixCase
	if err := json.Unmarshal(raw, &c); err != nil {
		vh.Fatal("bad case %d: %v", idx, err)
	}
	salt := x.key + uint64(idx)
	domain := spell(c.Dom, salt)
	input := domain
	if c.Form == "ace" {
		a, err := idna.ToASCII(domain)
		if err != nil {
			return // no ACE form of this domain (a label too long for punycode): nothing to test
		}
		input = a
	}
	atomic.AddInt64(&x.nontrivial, 1)
	want := expectedPrefixes(c.Expect, input, salt, idx)
	u, err := amp.CacheURL(&url.URL{Scheme: "https", Host: input, Path: "/"}, &url.URL{Scheme: "https", Host: cacheHost, Path: "/"}, "c")
	sigtail := fmt.Sprintf("alg=%s", c.Expect.Alg)
	if err != nil {
		x.w.Put(vh.Result{Idx: idx, Sig: "prefix/error/" + sigtail, Detail: fmt.Sprintf("CacheURL for domain %q: %v", input, err), Case: c})
		return
	}
	if !strings.HasSuffix(u.Host, "."+cacheHost) {
		x.w.Put(vh.Result{Idx: idx, Sig: "prefix/host-suffix/" + sigtail, Detail: fmt.Sprintf("host %q does not end in the cache host", u.Host), Case: c})
		return
	}
	got := strings.TrimSuffix(u.Host, "."+cacheHost)
	ok := false
	for _, w := range want {
		if got == w {
			ok = true
		}
	}
	switch {
	case strings.Contains(got, "."):
		x.w.Put(vh.Result{Idx: idx, Sig: "prefix/has-dot/" + sigtail, Detail: fmt.Sprintf("domain %q: prefix %q contains a dot", input, got), Case: c})
	case len(got) > 63:
		x.w.Put(vh.Result{Idx: idx, Sig: "prefix/too-long/" + sigtail, Detail: fmt.Sprintf("domain %q: prefix %q has %d bytes", input, got, len(got)), Case: c})
	case !ok:
		x.w.Put(vh.Result{Idx: idx, Sig: "prefix/wrong/" + wrapSig(c.Expect, got, salt), Detail: fmt.Sprintf("domain %q (%+q): prefix %q, the AMP algorithm gives %q", input, input, got, want), Case: c})
	}
}

// wrapSig names the class of a wrong prefix: what step 4 should have done, what
// the code apparently did (the prefix equals the other choice of step 4, or
// something else), and whether a multi-byte character precedes position 4.
func wrapSig(e prefixExpect, got string, salt uint64) string {
	wrapped := len(e.Pre) >= 4 && e.Pre[0].C == "0" && e.Pre[0].I == 0 && e.Pre[1].C == "-"
	var other []ach
	if wrapped {
		other = e.Pre[2 : len(e.Pre)-2]
	} else {
		other = append(append([]ach{{C: "0"}, {C: "-"}}, e.Pre...), ach{C: "-"}, ach{C: "0"})
	}
	did := "something-else"
	if l, err := idna.ToASCII(spell(other, salt)); err == nil && l == got {
		did = map[bool]string{true: "no", false: "yes"}[wrapped]
	}
	multi := "ascii"
	body := e.Pre
	if wrapped {
		body = e.Pre[2:]
	}
	for i, a := range body {
		if i < 3 && strings.HasPrefix(a.C, "u") {
			multi = "multibyte-before-position-4"
		}
	}
	return fmt.Sprintf("step4-expected=%s/step4-done=%s/%s", e.Wrap, did, multi)
}

type urlCase struct {
	Pub struct {
		Scheme string   `json:"scheme"`
		Host   string   `json:"host"`
		Port   string   `json:"port"`
		User   string   `json:"user"`
		Path   []string `json:"path"`
		Trail  bool     `json:"trail"`
		Query  string   `json:"query"`
		Frag   string   `json:"frag"`
	} `json:"pub"`
	Cache struct {
		Scheme string   `json:"scheme"`
		Port   string   `json:"port"`
		User   string   `json:"user"`
		Path   []string `json:"path"`
		Trail  bool     `json:"trail"`
		Query  string   `json:"query"`
		Frag   string   `json:"frag"`
	} `json:"cache"`
	Ct     string `json:"ct"`
	Dom    []ach  `json:"dom"`
	Expect struct {
		Class  string       `json:"class"`
		Scheme string       `json:"scheme"`
		User   string       `json:"user"`
		Port   string       `json:"port"`
		Prefix prefixExpect `json:"prefix"`
		Path   []struct {
			Src string `json:"src"`
			C   string `json:"c"`
			J   int    `json:"j"`
		} `json:"path"`
		Query  string `json:"query"`
		Frag   string `json:"frag"`
		Climbs bool   `json:"climbs"`
	} `json:"expect"`
}

func segText(src, c string, j int) string {
	switch c {
	case "n":
		return fmt.Sprintf("%s%d", src[:1], j)
	case "e":
		return fmt.Sprintf("%s%d%%2Fx%%20y", src[:1], j)
	case "d":
		return "."
	case "dd":
		return ".."
	case "z":
		return ""
	case "edd":
		return "%2e%2e"
	}
	vh.Fatal("unknown segment class %q", c)
	return ""
}

func pathText(src string, segs []string, trail bool) string {
	if len(segs) == 0 {
		if trail {
			return "/"
		}
		return ""
	}
	var sb strings.Builder
	for j, c := range segs {
		sb.WriteByte('/')
		sb.WriteString(segText(src, c, j+1))
	}
	if trail {
		sb.WriteByte('/')
	}
	return sb.String()
}

var queries = map[string]string{"none": "", "simple": "a=1&b=2", "escaped": "value=Hello%20World&x=%2F..%2F", "slashes": "u=/../x/./y//z?&w=1", "q": "a=1"}
var ctText = map[string]string{"c": "c", "i": "i", "slash": "/", "empty": ""}
var ctEsc = map[string]string{"c": "c", "i": "i", "slash": "%2F", "empty": ""}

func (x *ctx) doURL(raw json.RawMessage, idx int) {
	var c urlCase
	if err := json.Unmarshal(raw, &c); err != nil {
		vh.Fatal("bad case %d: %v", idx, err)
	}
	salt := x.key + uint64(idx)
	host := spell(c.Dom, salt)
	// publisher URL, as text, parsed by net/url like the client does
	var sb strings.Builder
	if c.Pub.Scheme != "none" {
		sb.WriteString(c.Pub.Scheme + ":")
	}
	sb.WriteString("//")
	switch c.Pub.User {
	case "user":
		sb.WriteString("user@")
	case "userpass":
		sb.WriteString("user:pass@")
	}
	sb.WriteString(host)
	switch c.Pub.Port {
	case "default":
		if c.Pub.Scheme == "http" {
			sb.WriteString(":80")
		} else {
			sb.WriteString(":443")
		}
	case "other":
		sb.WriteString(":8443")
	}
	sb.WriteString(pathText("pub", c.Pub.Path, c.Pub.Trail))
	if q := queries[c.Pub.Query]; q != "" {
		sb.WriteString("?" + q)
	}
	if c.Pub.Frag == "frag" {
		sb.WriteString("#frag%20ment")
	}
	pubText := sb.String()
	sb.Reset()
	sb.WriteString(c.Cache.Scheme + "://")
	if c.Cache.User == "cuser" {
		sb.WriteString("cache%2Fuser:cache%40pass@")
	}
	sb.WriteString("amp.cache.example")
	if c.Cache.Port == "p123" {
		sb.WriteString(":123")
	}
	sb.WriteString(pathText("cache", c.Cache.Path, c.Cache.Trail))
	if q := queries[c.Cache.Query]; q != "" {
		sb.WriteString("?" + q)
	}
	if c.Cache.Frag == "f" {
		sb.WriteString("#f")
	}
	cacheText := sb.String()
	pub, err1 := url.Parse(pubText)
	cache, err2 := url.Parse(cacheText)
	if err1 != nil || err2 != nil {
		vh.Fatal("case %d: concretised URLs do not parse: %q %v / %q %v", idx, pubText, err1, cacheText, err2)
	}
	if c.Expect.Class != "any" || len(c.Pub.Path) > 0 {
		atomic.AddInt64(&x.nontrivial, 1)
	}
	got, err := amp.CacheURL(pub, cache, ctText[c.Ct])
	if c.Expect.Class == "any" {
		return // no faithful cache form: error or anything, only a panic would count
	}
	sig := func(what string) string {
		switch what {
		case "host":
			return "url/host/" + wrapSig(c.Expect.Prefix, strings.TrimSuffix(strings.TrimSuffix(got.Host, ":123"), ".amp.cache.example"), salt)
		case "path":
			if c.Expect.Climbs {
				return "url/path/publisher-dotdot-above-root"
			}
		}
		return "url/" + what
	}
	report := func(what, detail string) {
		x.w.Put(vh.Result{Idx: idx, Sig: sig(what), Detail: fmt.Sprintf("CacheURL(%q, %q, %q): %s", pubText, cacheText, ctText[c.Ct], detail), Case: c})
	}
	if err != nil {
		report("error", "error "+err.Error())
		return
	}
	// authority
	wantHosts := expectedPrefixes(c.Expect.Prefix, pub.Hostname(), salt, idx)
	okHost := false
	for _, p := range wantHosts {
		h := p + ".amp.cache.example"
		if c.Expect.Port == "p123" {
			h += ":123"
		}
		if got.Host == h {
			okHost = true
		}
	}
	wantUser := ""
	if c.Expect.User == "cuser" {
		wantUser = "cache%2Fuser:cache%40pass"
	}
	gotUser := ""
	if got.User != nil {
		gotUser = got.User.String()
	}
	switch {
	case got.Scheme != c.Expect.Scheme:
		report("scheme", fmt.Sprintf("scheme %q, contract says %q", got.Scheme, c.Expect.Scheme))
		return
	case gotUser != wantUser:
		report("userinfo", fmt.Sprintf("userinfo %q, contract says %q", gotUser, wantUser))
		return
	case !okHost:
		report("host", fmt.Sprintf("host %q, contract says prefix %q of the cache host", got.Host, wantHosts))
		return
	}
	// path: compare segment by segment (the publisher host unescaped)
	var want []string
	for _, s := range c.Expect.Path {
		switch s.Src {
		case "ct":
			want = append(want, ctEsc[s.C])
		case "s":
			want = append(want, "s")
		case "host":
			want = append(want, "\x00host")
		default:
			want = append(want, segText(s.Src, s.C, s.J))
		}
	}
	gp := got.EscapedPath()
	gotSegs := strings.Split(strings.TrimPrefix(gp, "/"), "/")
	okPath := strings.HasPrefix(gp, "/") && len(gotSegs) == len(want)
	if okPath {
		for i := range want {
			if want[i] == "\x00host" {
				h, err := url.PathUnescape(gotSegs[i])
				if err != nil || h != pub.Hostname() {
					okPath = false
				}
			} else if gotSegs[i] != want[i] {
				okPath = false
			}
		}
	}
	if !okPath {
		for i := range want {
			if want[i] == "\x00host" {
				want[i] = pub.Hostname()
			}
		}
		report("path", fmt.Sprintf("path %q, contract says %q", gp, "/"+strings.Join(want, "/")))
		return
	}
	if got.RawQuery != queries[c.Expect.Query] {
		report("query", fmt.Sprintf("query %q, contract says %q", got.RawQuery, queries[c.Expect.Query]))
		return
	}
	wantFrag := ""
	if c.Expect.Frag == "frag" {
		wantFrag = "frag ment"
	}
	if got.Fragment != wantFrag {
		report("fragment", fmt.Sprintf("fragment %q, contract says %q", got.Fragment, wantFrag))
		return
	}
	// and the whole thing survives printing and parsing
	if back, err := url.Parse(got.String()); err != nil || back.Host != got.Host || back.EscapedPath() != gp || back.RawQuery != got.RawQuery {
		report("reparse", fmt.Sprintf("result %q does not survive String/Parse (err=%v)", got.String(), err))
	}
}

func main() {
	if len(os.Args) < 5 {
		vh.Fatal("usage: ampurldrv pathdec|pathenc|prefix|url <cases> <out> <seed>")
	}
	mode := os.Args[1]
	cases, err := vh.ReadCases(os.Args[2])
	if err != nil {
		vh.Fatal("%v", err)
	}
	w, err := vh.NewWriter(os.Args[3])
	if err != nil {
		vh.Fatal("%v", err)
	}
	seed, _ := strconv.ParseUint(os.Args[4], 10, 64)
	x := &ctx{w: w, key: seed * 0x1000003}
	var fn func(json.RawMessage, int)
	switch mode {
	case "pathdec":
		fn = x.doPathDec
	case "pathenc":
		fn = x.doPathEnc
	case "prefix":
		fn = x.doPrefix
	case "url":
		fn = x.doURL
	default:
		vh.Fatal("unknown mode %s", mode)
	}
	base, _ := strconv.Atoi(os.Getenv("VERIF_IDX_BASE")) // replay of a single case: its original index (seeds the concretisation)
	vh.RunParallel(len(cases), 0, func(i int) { fn(cases[i], base+i) }, func(i int, v interface{}, stack string) {
		var c interface{}
		json.Unmarshal(cases[i], &c)
		w.Put(vh.Result{Idx: i, Sig: mode + "/panic", Detail: fmt.Sprint(v) + "\n" + stack, Case: c})
	})
	w.Put(map[string]interface{}{"summary": map[string]interface{}{"cases": len(cases), "nontrivial": x.nontrivial}})
	w.Close()
}
