// journaldrv replays the cases enumerated by spec/Journal (TLC) through the
// real distinct-IP journal: ipsetsink.NewIPSetSink, sinkcluster.NewClusterWriter
// (AddIPToSet, WriteIPSetToDisk) and sinkcluster.NewClusterCounter(from, to).Count
// - exported API only - and compares with what TLC printed: the chunks the
// journal must contain (count and boundaries), the number of chunks inside each
// window and the admissible bounds of the merged estimate.
//
//	journaldrv run <cases.ndjson> <out.ndjson> <seed>
//
// Line order: a case's "order" says in which order (and how often) the lines of
// the journal the real writer produced are handed to Count.
//
// Write faults: during the script steps listed in a case's "fails" every Write
// of the journal file fails (and writes nothing), during those in "syncfails"
// every Sync fails; the expected chunks already account for them.
//
// The writer reads time.Now(), so every writer script runs inside a
// testing/synctest bubble (fake clock: Wait(d) is time.Sleep(d*unit), the clock
// moves only then).  Build with go1.26.8, run with GODEBUG=asynctimerchan=0.
// The bubble needs a *testing.T; a plain program gets one from testing.Main.
// Units: one tick is 1 ns (window ends 1 ns before / at / 1 ns after every
// chunk boundary) and, for a second run of each script, a seeded coarser unit.
//
// A block of the specification (identified by its size n) is concretised as n
// pairwise different address strings (IPv4 dotted, IPv6 compressed, IPv6 full
// upper case), different for different blocks.
package main

import (
	"bytes"
	"encoding/base64"
	"encoding/json"
	"errors"
	"fmt"
	"io"
	"log"
	"net"
	"os"
	"sort"
	"strconv"
	"strings"
	"sync"
	"sync/atomic"
	"testing"
	"testing/synctest"
	"time"

	"git.torproject.org/pluggable-transports/snowflake.git/v2/common/ipsetsink"
	"git.torproject.org/pluggable-transports/snowflake.git/v2/common/ipsetsink/sinkcluster"
	"verifharness/vh"
)

type op struct {
	K string `json:"k"`
	V int    `json:"v"`
}
type chunk struct {
	Start int64  `json:"start"`
	End   int64  `json:"end"`
	Set   []int  `json:"set"`
	By    string `json:"by"`
}
type expect struct {
	Included int64 `json:"included"`
	Count    int64 `json:"count"`
	Lo       int64 `json:"lo"`
	Hi       int64 `json:"hi"`
}
type keyedJournal struct {
	Key string `json:"key"`
	Set []int  `json:"set"`
}
type jcase struct {
	Kind     string         `json:"kind"`
	ExactMax int64          `json:"exactmax"`
	Interval int64          `json:"interval"`
	Plan     []op           `json:"plan"`
	Chunks   []chunk        `json:"chunks"`
	From     int64          `json:"from"`
	To       int64          `json:"to"`
	Expect   expect         `json:"expect"`
	Journals []keyedJournal `json:"journals"`
	// the order in which the lines of the real journal are handed to the reader: line i is chunk Order[i] (1-based)
	Order []int `json:"order"`
	// write faults: 1-based script steps during which the journal's Write / Sync fails
	Fails     []int `json:"fails"`
	SyncFails []int `json:"syncfails"`
	raw       json.RawMessage
	idx       int
}

// a WriteSyncer that keeps the journal in memory and fails when the script says so
type memFile struct {
	bytes.Buffer
	syncs     int
	failWrite bool // every Write fails and writes nothing (disk full)
	failSync  bool // every Sync fails (the data has been written)
	refused   int
}

func (m *memFile) Write(p []byte) (int, error) {
	if m.failWrite {
		m.refused++
		return 0, errors.New("write journal: no space left on device")
	}
	return m.Buffer.Write(p)
}

func (m *memFile) Sync() error {
	m.syncs++
	if m.failSync {
		return errors.New("sync journal: input/output error")
	}
	return nil
}

func has(xs []int, x int) bool {
	for _, y := range xs {
		if y == x {
			return true
		}
	}
	return false
}

var seed uint64
var salt uint64 // bumped when a small pool turns out to collide inside the sketch

// address number i of the block of size b (blocks of one case have different sizes)
func address(b, i int) string {
	s := (seed*31 + salt*7) % 13
	switch i % 3 {
	case 0:
		// 24 bits of i, block and seed in the first octet
		return fmt.Sprintf("%d.%d.%d.%d", 11+int(s)*16+blockOctet(b), (i>>16)&255, (i>>8)&255, i&255)
	case 1:
		return net.IP{0x20, 0x01, 0x0d, 0xb8, byte(s), byte(salt), byte(b >> 24), byte(b >> 16), byte(b >> 8), byte(b), 0, 0, byte(i >> 24), byte(i >> 16), byte(i >> 8), byte(i)}.String()
	default:
		return fmt.Sprintf("2001:0DB8:%04X:%04X:%04X:0000:%04X:%04X", s<<8|salt&255, (b>>16)&0xffff, b&0xffff, (i>>16)&0xffff, i&0xffff)
	}
}

// a small injective code of the block sizes used by the configurations (16 values per seed class)
var blockCodes = map[int]int{}
var blockMu sync.Mutex

func blockOctet(b int) int {
	blockMu.Lock()
	defer blockMu.Unlock()
	c, ok := blockCodes[b]
	if !ok {
		c = len(blockCodes)
		if c > 15 {
			vh.Fatal("more than 16 different block sizes")
		}
		blockCodes[b] = c
	}
	return c
}

func maskingKey(name string) string {
	return fmt.Sprintf("verif-masking-key-%s-%d-%d", name, seed, salt)
}

// what one execution of a writer script left behind
type journal struct {
	data     []byte
	t0       time.Time
	unit     time.Duration
	lines    int
	maxLine  int
	entries  []sinkcluster.SinkEntry
	parseErr string
	syncs    int
	refused  int
}

// runPlan executes a writer script on the real ClusterWriter.  Must be called inside a bubble.
func runPlan(plan []op, fails, syncFails []int, interval int64, unit time.Duration, key string) *journal {
	t0 := time.Now()
	mf := &memFile{}
	cw := sinkcluster.NewClusterWriter(mf, time.Duration(interval)*unit, ipsetsink.NewIPSetSink(key))
	for i, o := range plan {
		// a fault lasts for one script step
		mf.failWrite, mf.failSync = has(fails, i+1), has(syncFails, i+1)
		switch o.K {
		case "add":
			for i := 0; i < o.V; i++ {
				cw.AddIPToSet(address(o.V, i))
			}
		case "wait":
			time.Sleep(time.Duration(o.V) * unit)
		case "flush":
			cw.WriteIPSetToDisk()
		default:
			panic("unknown op " + o.K)
		}
	}
	j := &journal{data: append([]byte(nil), mf.Bytes()...), t0: t0, unit: unit, syncs: mf.syncs, refused: mf.refused}
	for _, line := range bytes.Split(j.data, []byte("\n")) {
		if len(line) == 0 {
			continue
		}
		j.lines++
		if len(line) > j.maxLine {
			j.maxLine = len(line)
		}
		var e sinkcluster.SinkEntry
		if err := json.Unmarshal(line, &e); err != nil {
			j.parseErr = err.Error()
			continue
		}
		j.entries = append(j.entries, e)
	}
	return j
}

// file returns the journal as the case wants it read: its lines permuted,
// repeated or doubled according to order (nil or the identity: as written).
func (j *journal) file(order []int) []byte {
	identity := len(order) == j.lines
	for i, k := range order {
		if k != i+1 {
			identity = false
		}
	}
	if identity || len(order) == 0 {
		return j.data
	}
	lines := bytes.SplitAfter(j.data, []byte("\n"))
	var out []byte
	for _, k := range order {
		if k >= 1 && k <= j.lines {
			out = append(out, lines[k-1]...)
		}
	}
	return out
}

func orderClass(c *jcase) string {
	if len(c.Order) != len(c.Chunks) {
		return "repeated-lines"
	}
	for i, k := range c.Order {
		if k != i+1 {
			return "permuted"
		}
	}
	return "chronological"
}

func (j *journal) at(tick int64) time.Time { return j.t0.Add(time.Duration(tick) * j.unit) }

func sizeClass(j *journal) string {
	if j.maxLine > 64*1024 {
		return "long-line" // a chunk whose journal line exceeds 64 KiB
	}
	return "short-lines"
}

type reporter struct {
	w    *vh.Writer
	mu   sync.Mutex
	seen map[string]int // signature -> number of results; only the first of each is written
}

func (r *reporter) put(c *jcase, sig, detail string) {
	r.mu.Lock()
	if r.seen == nil {
		r.seen = map[string]int{}
	}
	r.seen[sig]++
	first := r.seen[sig] == 1
	r.mu.Unlock()
	if !first {
		return
	}
	var cc interface{}
	json.Unmarshal(c.raw, &cc)
	r.w.Put(vh.Result{Idx: c.idx, Sig: sig, Detail: detail, Case: cc})
}

// writer conformance: the journal holds exactly the chunks the model says, with the model's boundaries
func checkWriter(c *jcase, j *journal, rep *reporter) bool {
	if j.parseErr != "" {
		rep.put(c, "C19/journal:writer/unparsable-line", j.parseErr)
		return false
	}
	if j.lines != len(c.Chunks) {
		rep.put(c, "C19/journal:writer/chunk-count", fmt.Sprintf("the journal has %d chunks, the model says %d (unit %v)", j.lines, len(c.Chunks), j.unit))
		return false
	}
	for i, e := range j.entries {
		if !e.RecordingStart.Equal(j.at(c.Chunks[i].Start)) || !e.RecordingEnd.Equal(j.at(c.Chunks[i].End)) {
			rep.put(c, "C19/journal:writer/boundaries", fmt.Sprintf("chunk %d is [%v, %v] ticks after creation, the model says [%d, %d] (unit %v)",
				i+1, float64(e.RecordingStart.Sub(j.t0))/float64(j.unit), float64(e.RecordingEnd.Sub(j.t0))/float64(j.unit), c.Chunks[i].Start, c.Chunks[i].End, j.unit))
			return false
		}
	}
	if (len(c.Fails) > 0) != (j.refused > 0) {
		rep.put(c, "C19/journal:writer/write-attempts", fmt.Sprintf("the model has %d script steps with a failing journal write, the writer met %d refused writes", len(c.Fails), j.refused))
		return false
	}
	if j.syncs != j.lines {
		rep.put(c, "C19/journal:writer/not-synced", fmt.Sprintf("%d chunks written, Sync called %d times", j.lines, j.syncs))
		return false
	}
	return true
}

// privacy: the journal has only the three documented members per line and no
// address text, neither in the line nor inside the decoded sketch bytes
func checkPrivacy(c *jcase, j *journal, rep *reporter) {
	blocks := map[int]bool{}
	for _, o := range c.Plan {
		if o.K == "add" {
			blocks[o.V] = true
		}
	}
	var hay [][]byte
	hay = append(hay, j.data, bytes.ToLower(j.data))
	for _, line := range bytes.Split(j.data, []byte("\n")) {
		if len(line) == 0 {
			continue
		}
		var m map[string]json.RawMessage
		if err := json.Unmarshal(line, &m); err != nil {
			continue
		}
		for k := range m {
			if k != "recordingStart" && k != "recordingEnd" && k != "recorded" {
				rep.put(c, "C19/journal:privacy/extra-member", fmt.Sprintf("journal line has member %q", k))
				return
			}
		}
		var b64 string
		if json.Unmarshal(m["recorded"], &b64) == nil {
			if raw, err := base64.StdEncoding.DecodeString(b64); err == nil {
				hay = append(hay, raw, bytes.ToLower(raw))
			}
		}
	}
	for b := range blocks {
		step := 1
		if b > 600 {
			step = b / 300
		}
		for i := 0; i < b; i += step {
			a := address(b, i)
			needles := [][]byte{[]byte(a), []byte(strings.ToLower(a))}
			if ip := net.ParseIP(a); ip != nil {
				needles = append(needles, []byte(ip.String()))
				if ip.To4() == nil {
					needles = append(needles, []byte(ip.To16())) // 16 raw bytes
				}
			}
			for _, h := range hay {
				for _, n := range needles {
					if bytes.Contains(h, n) {
						rep.put(c, "C19/journal:privacy/address-in-journal", fmt.Sprintf("the journal contains the recorded address %q (or its bytes)", a))
						return
					}
				}
			}
		}
	}
}

func checkWindow(c *jcase, j *journal, rep *reporter) {
	res, err := sinkcluster.NewClusterCounter(j.at(c.From), j.at(c.To)).Count(bytes.NewReader(j.file(c.Order)))
	if err != nil {
		rep.put(c, "C19/journal:reader/error/"+sizeClass(j), fmt.Sprintf("Count: %v", err))
		return
	}
	if res.ChunkIncluded != c.Expect.Included {
		cls := sizeClass(j)
		if oc := orderClass(c); oc != "chronological" {
			cls += "/" + oc
		}
		rep.put(c, "C19/journal:window/included-mismatch/"+cls, fmt.Sprintf("window [%d, %d] (unit %v), lines in order %v: %d chunks included, the contract says %d; sum %d, expected %d",
			c.From, c.To, j.unit, c.Order, res.ChunkIncluded, c.Expect.Included, res.Sum, c.Expect.Count))
		return
	}
	if int64(res.Sum) < c.Expect.Lo || int64(res.Sum) > c.Expect.Hi {
		kind := "tolerance"
		if c.Expect.Lo == c.Expect.Hi {
			kind = "exact"
		}
		rep.put(c, "C19/journal:window/estimate-out-of-bounds/"+kind, fmt.Sprintf("window [%d, %d] (unit %v): estimate %d, %d distinct addresses were recorded in the %d chunks inside (admissible %d..%d)",
			c.From, c.To, j.unit, res.Sum, c.Expect.Count, c.Expect.Included, c.Expect.Lo, c.Expect.Hi))
	}
}

// keys: one single-chunk journal per (key, blocks), concatenated, counted over a window that holds them all
func checkKeys(c *jcase, rep *reporter) {
	var all []byte
	t0 := time.Now()
	for _, kj := range c.Journals {
		mf := &memFile{}
		cw := sinkcluster.NewClusterWriter(mf, time.Hour, ipsetsink.NewIPSetSink(maskingKey(kj.Key)))
		for _, b := range kj.Set {
			for i := 0; i < b; i++ {
				cw.AddIPToSet(address(b, i))
			}
		}
		cw.WriteIPSetToDisk()
		all = append(all, mf.Bytes()...)
	}
	res, err := sinkcluster.NewClusterCounter(t0.Add(-time.Hour), time.Now().Add(time.Hour)).Count(bytes.NewReader(all))
	if err != nil {
		rep.put(c, "C19/journal:reader/error/keys", fmt.Sprintf("Count: %v", err))
		return
	}
	if int64(res.Sum) < c.Expect.Lo || int64(res.Sum) > c.Expect.Hi || res.ChunkIncluded != int64(len(c.Journals)) {
		same := "different-keys"
		if c.Journals[0].Key == c.Journals[len(c.Journals)-1].Key {
			same = "same-key"
		}
		rep.put(c, "C19/journal:keys/estimate-out-of-bounds/"+same, fmt.Sprintf("journals %v: estimate %d over %d chunks, admissible %d..%d", c.Journals, res.Sum, res.ChunkIncluded, c.Expect.Lo, c.Expect.Hi))
	}
}

// qualify makes sure the concrete addresses of a small universe do not collide
// inside the sketch (two addresses whose masked hashes share a 25-bit sparse
// index are one to HyperLogLog++; about one pool of 56 in 20 000 has such a
// pair): all of them, recorded under each of the given keys, one chunk per
// key, must be counted exactly.  Every union the cases ask about is a subset of
// this universe.  Returns false if no salt gives such a pool.
func qualify(keys []string, blocks []int) bool {
	total := 0
	for _, b := range blocks {
		total += b
	}
	if total == 0 || total*len(keys) > 4096 {
		return true
	}
	for try := 0; try < 6; try++ {
		var all []byte
		t0 := time.Now()
		for _, k := range keys {
			mf := &memFile{}
			cw := sinkcluster.NewClusterWriter(mf, time.Hour, ipsetsink.NewIPSetSink(maskingKey(k)))
			for _, b := range blocks {
				for i := 0; i < b; i++ {
					cw.AddIPToSet(address(b, i))
				}
			}
			cw.WriteIPSetToDisk()
			all = append(all, mf.Bytes()...)
		}
		res, err := sinkcluster.NewClusterCounter(t0.Add(-time.Hour), time.Now().Add(time.Hour)).Count(bytes.NewReader(all))
		if err == nil && res.Sum == uint64(total*len(keys)) {
			return true
		}
		salt++
	}
	return false
}

var secondUnits = []time.Duration{time.Microsecond, time.Millisecond, time.Second, time.Hour + time.Nanosecond}

func planKey(c *jcase) string {
	b, _ := json.Marshal([]interface{}{c.Plan, c.Fails, c.SyncFails})
	return strconv.FormatInt(c.Interval, 10) + string(b)
}

func run(t *testing.T) {
	args := os.Args[len(os.Args)-4:]
	cases, err := vh.ReadCases(args[1])
	if err != nil {
		vh.Fatal("%v", err)
	}
	w, err := vh.NewWriter(args[2])
	if err != nil {
		vh.Fatal("%v", err)
	}
	seed, _ = strconv.ParseUint(args[3], 10, 64)
	log.SetOutput(io.Discard) // the writer logs every failed write
	rep := &reporter{w: w}
	var all []*jcase
	byPlan := map[string][]*jcase{}
	var planOrder []string
	blockSet := map[int]bool{}
	var exactMax int64 = -1
	keyNames := map[string]bool{"k1": true}
	for i, raw := range cases {
		c := &jcase{raw: raw, idx: i}
		if err := json.Unmarshal(raw, c); err != nil {
			vh.Fatal("bad case %d: %v", i, err)
		}
		all = append(all, c)
		if c.Kind == "window" {
			k := planKey(c)
			if byPlan[k] == nil {
				planOrder = append(planOrder, k)
			}
			byPlan[k] = append(byPlan[k], c)
			for _, o := range c.Plan {
				if o.K == "add" {
					blockSet[o.V] = true
				}
			}
			if c.ExactMax > exactMax {
				exactMax = c.ExactMax
			}
		} else if c.Kind == "keys" {
			for _, kj := range c.Journals {
				for _, b := range kj.Set {
					blockSet[b] = true
				}
			}
			keyNames["k2"] = true
			if c.ExactMax > exactMax {
				exactMax = c.ExactMax
			}
		}
	}
	var blocks []int
	for b := range blockSet {
		blocks = append(blocks, b)
	}
	sort.Ints(blocks)
	for _, b := range blocks {
		blockOctet(b)
	}
	var evaluations, nontrivial int64
	var keys []string
	for k := range keyNames {
		keys = append(keys, k)
	}
	sort.Strings(keys)
	if len(all) > 0 && exactMax > 0 && !qualify(keys, blocks) {
		rep.put(all[0], "C19/journal:small-set-not-exact", fmt.Sprintf("six different pools of %v addresses (one chunk per key %v) were not counted exactly", blocks, keys))
	}
	// 1. every distinct writer script runs on the real writer under the fake clock (twice: 1 ns ticks and a coarser unit)
	type planRun struct {
		cases []*jcase
		js    []*journal
	}
	runs := make([]*planRun, len(planOrder))
	workers := 16
	var next int64 = -1
	var wg sync.WaitGroup
	for k := 0; k < workers; k++ {
		wg.Add(1)
		name := fmt.Sprintf("w%d", k)
		go func() {
			defer wg.Done()
			t.Run(name, func(t *testing.T) {
				synctest.Test(t, func(t *testing.T) {
					for {
						i := int(atomic.AddInt64(&next, 1))
						if i >= len(planOrder) {
							return
						}
						cs := byPlan[planOrder[i]]
						pr := &planRun{cases: cs}
						units := []time.Duration{time.Nanosecond}
						if blocks[len(blocks)-1] <= 600 {
							units = append(units, secondUnits[(uint64(i)+seed)%uint64(len(secondUnits))])
						}
						for _, u := range units {
							func() {
								defer func() {
									if v := recover(); v != nil {
										rep.put(cs[0], "C19/journal:writer/panic", fmt.Sprint(v))
									}
								}()
								pr.js = append(pr.js, runPlan(cs[0].Plan, cs[0].Fails, cs[0].SyncFails, cs[0].Interval, u, maskingKey("k1")))
							}()
						}
						runs[i] = pr
					}
				})
			})
		}()
	}
	wg.Wait()
	// 2. writer conformance and privacy per script, then every window of every script
	type job struct {
		c *jcase
		j *journal
	}
	var jobs []job
	var jmu sync.Mutex
	vh.RunParallel(len(runs), 0, func(i int) {
		pr := runs[i]
		if pr == nil {
			return
		}
		var mine []job
		for ui, j := range pr.js {
			atomic.AddInt64(&evaluations, 1)
			if !checkWriter(pr.cases[0], j, rep) {
				continue
			}
			if ui == 0 {
				checkPrivacy(pr.cases[0], j, rep)
			}
			for wi, c := range pr.cases {
				// every window with 1 ns ticks, every fifth also with the coarser unit
				if ui == 0 || wi%5 == int(seed%5) {
					mine = append(mine, job{c, j})
				}
			}
		}
		jmu.Lock()
		jobs = append(jobs, mine...)
		jmu.Unlock()
	}, func(i int, v interface{}, stack string) {
		rep.put(runs[i].cases[0], "C19/journal:writer/panic", fmt.Sprint(v)+"\n"+stack)
	})
	seen := make([]int32, len(all))
	vh.RunParallel(len(jobs), 0, func(i int) {
		c, j := jobs[i].c, jobs[i].j
		checkWindow(c, j, rep)
		atomic.AddInt64(&evaluations, 1)
		// non-trivial: the window holds some but not all chunks, or an end sits exactly on a boundary of an included chunk
		if c.Expect.Included > 0 && atomic.CompareAndSwapInt32(&seen[c.idx], 0, 1) {
			atomic.AddInt64(&nontrivial, 1)
		}
	}, func(i int, v interface{}, stack string) {
		rep.put(jobs[i].c, "C19/journal:reader/panic", fmt.Sprint(v)+"\n"+stack)
	})
	// 3. masking keys
	var keyCases []*jcase
	for _, c := range all {
		if c.Kind == "keys" {
			keyCases = append(keyCases, c)
		}
	}
	vh.RunParallel(len(keyCases), 0, func(i int) {
		checkKeys(keyCases[i], rep)
		atomic.AddInt64(&evaluations, 1)
		atomic.AddInt64(&nontrivial, 1)
	}, func(i int, v interface{}, stack string) {
		rep.put(keyCases[i], "C19/journal:keys/panic", fmt.Sprint(v)+"\n"+stack)
	})
	w.Put(map[string]interface{}{"summary": map[string]interface{}{"cases": evaluations, "nontrivial": nontrivial, "plans": len(planOrder), "salt": salt, "results_per_signature": rep.seen}})
	w.Close()
}

func main() {
	if len(os.Args) < 5 || os.Args[len(os.Args)-4] != "run" {
		vh.Fatal("usage: journaldrv run <cases.ndjson> <out.ndjson> <seed>")
	}
	// the bubble of testing/synctest needs a *testing.T
	testing.Main(func(pat, str string) (bool, error) { return true, nil },
		[]testing.InternalTest{{Name: "Journal", F: run}}, nil, nil)
}
