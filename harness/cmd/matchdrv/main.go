// matchdrv binds spec/Matcher to the real common/namematcher package.
//
//	matchdrv <pairs.ndjson> <members.ndjson> <out.ndjson>
//
// pairs:   {"p":[chars],"q":[chars],"sup":bool}   value of Matcher!IsSupersetOf(New(p), New(q))
// members: {"p":[chars],"h":[chars],"mem":bool}   value of Matcher!IsMember(New(p), h)
//
// 1. differential conformance: every emitted pair is evaluated with the real
// package and compared with the TLA+ value (sig "diff/...": the model is not
// the code - by itself not a violation of the property);
// 2. the LAW of C06 is evaluated on the real code over the same bounded domain
// (all emitted rules x rules x hostnames): IsSupersetOf(p,q) && IsMember(q,h)
// must imply IsMember(p,h) (sig "law/...": a violation of the property by the
// code, with the concrete triple).
package main

import (
	"encoding/json"
	"fmt"
	"os"
	"sort"
	"strings"
	"sync/atomic"

	"git.torproject.org/pluggable-transports/snowflake.git/v2/common/namematcher"
	"verifharness/vh"
)

type pairCase struct {
	P   []string `json:"p"`
	Q   []string `json:"q"`
	Sup bool     `json:"sup"`
}
type memCase struct {
	P   []string `json:"p"`
	H   []string `json:"h"`
	Mem bool     `json:"mem"`
}

func kind(rule string) string {
	r := strings.TrimSuffix(rule, "$")
	k := "suffix"
	if strings.HasPrefix(r, "^") {
		k = "exact"
	}
	if strings.TrimPrefix(r, "^") == "" {
		k += "-empty"
	}
	return k
}

func realSup(p, q string) bool {
	mp := namematcher.NewNameMatcher(p)
	return mp.IsSupersetOf(namematcher.NewNameMatcher(q))
}

func realMem(p, h string) bool {
	mp := namematcher.NewNameMatcher(p)
	return mp.IsMember(h)
}

func main() {
	if len(os.Args) != 4 {
		vh.Fatal("usage: matchdrv pairs members out")
	}
	pairs, err := vh.ReadCases(os.Args[1])
	if err != nil {
		vh.Fatal("%v", err)
	}
	members, err := vh.ReadCases(os.Args[2])
	if err != nil {
		vh.Fatal("%v", err)
	}
	w, err := vh.NewWriter(os.Args[3])
	if err != nil {
		vh.Fatal("%v", err)
	}
	ruleSet := map[string]bool{}
	hostSet := map[string]bool{}
	var diffs, supTrue, memTrue int64

	onPanic := func(what string) func(i int, v interface{}, stack string) {
		return func(i int, v interface{}, stack string) {
			w.Put(vh.Result{Idx: i, Sig: "law/panic-in-" + what, Detail: fmt.Sprint(v) + "\n" + stack})
		}
	}

	// 1a. (rule, rule) pairs
	pc := make([]pairCase, len(pairs))
	for i, raw := range pairs {
		if err := json.Unmarshal(raw, &pc[i]); err != nil {
			vh.Fatal("bad pair %d: %v", i, err)
		}
		ruleSet[strings.Join(pc[i].P, "")] = true
		ruleSet[strings.Join(pc[i].Q, "")] = true
	}
	vh.RunParallel(len(pc), 0, func(i int) {
		p, q := strings.Join(pc[i].P, ""), strings.Join(pc[i].Q, "")
		got := realSup(p, q)
		if got {
			atomic.AddInt64(&supTrue, 1)
		}
		if got != pc[i].Sup {
			atomic.AddInt64(&diffs, 1)
			w.Put(vh.Result{Idx: i, Sig: fmt.Sprintf("diff/superset/p=%s/q=%s/model=%v/code=%v", kind(p), kind(q), pc[i].Sup, got),
				Detail: fmt.Sprintf("NewNameMatcher(%q).IsSupersetOf(NewNameMatcher(%q)) = %v, specification says %v", p, q, got, pc[i].Sup),
				Case:   map[string]interface{}{"p": p, "q": q, "sup": pc[i].Sup}})
		}
	}, onPanic("IsSupersetOf"))

	// 1b. (rule, hostname) pairs
	mc := make([]memCase, len(members))
	for i, raw := range members {
		if err := json.Unmarshal(raw, &mc[i]); err != nil {
			vh.Fatal("bad member case %d: %v", i, err)
		}
		hostSet[strings.Join(mc[i].H, "")] = true
	}
	vh.RunParallel(len(mc), 0, func(i int) {
		p, h := strings.Join(mc[i].P, ""), strings.Join(mc[i].H, "")
		got := realMem(p, h)
		if got {
			atomic.AddInt64(&memTrue, 1)
		}
		if got != mc[i].Mem {
			atomic.AddInt64(&diffs, 1)
			w.Put(vh.Result{Idx: i, Sig: fmt.Sprintf("diff/member/p=%s/model=%v/code=%v", kind(p), mc[i].Mem, got),
				Detail: fmt.Sprintf("NewNameMatcher(%q).IsMember(%q) = %v, specification says %v", p, h, got, mc[i].Mem),
				Case:   map[string]interface{}{"p": p, "h": h, "mem": mc[i].Mem}})
		}
	}, onPanic("IsMember"))

	// 2. the law on the real code, whole domain
	rules := make([]string, 0, len(ruleSet))
	for r := range ruleSet {
		rules = append(rules, r)
	}
	sort.Strings(rules)
	hosts := make([]string, 0, len(hostSet))
	for h := range hostSet {
		hosts = append(hosts, h)
	}
	sort.Strings(hosts)
	var triples, antecedent, lawBad int64
	vh.RunParallel(len(rules), 0, func(i int) {
		p := rules[i]
		var t, a int64
		for _, q := range rules {
			if !realSup(p, q) {
				t += int64(len(hosts)) // the law holds vacuously for every hostname
				continue
			}
			for _, h := range hosts {
				t++
				if !realMem(q, h) {
					continue
				}
				a++
				if !realMem(p, h) {
					if atomic.AddInt64(&lawBad, 1) <= 50 {
						w.Put(vh.Result{Idx: i, Sig: fmt.Sprintf("law/p=%s/q=%s", kind(p), kind(q)),
							Detail: fmt.Sprintf("rule %q is judged a superset of rule %q, %q accepts hostname %q, but %q does not", p, q, q, h, p),
							Case:   map[string]interface{}{"p": p, "q": q, "h": h}})
					}
				}
			}
		}
		atomic.AddInt64(&triples, t)
		atomic.AddInt64(&antecedent, a)
	}, onPanic("law"))

	w.Put(map[string]interface{}{"summary": map[string]interface{}{
		"cases":      int64(len(pc)+len(mc)) + triples,
		"nontrivial": antecedent,
		"pairs":      len(pc), "members": len(mc), "rules": len(rules), "hosts": len(hosts),
		"law_triples": triples, "law_antecedent_true": antecedent, "law_violations": lawBad,
		"superset_true": supTrue, "member_true": memTrue, "diffs": diffs}})
	if err := w.Close(); err != nil {
		vh.Fatal("%v", err)
	}
}
