//go:build verif

// sysrig runs system scenarios (made from TLC behaviours of spec/Tunnel by
// lib/checks/c01_sys.py): the real client library over real local WebRTC, a
// scripted broker, harness mini-proxies and the real server, all in this
// process.  It only executes and records; TLC judges the recorded events
// against Tunnel_Trace.
//
//	sysrig [-par N] <scenarios.ndjson> <results.ndjson>
package main

import (
	"encoding/json"
	"flag"
	"io/ioutil"
	"log"
	"sync"
	"time"

	sfclient "git.torproject.org/pluggable-transports/snowflake.git/v2/client/lib"
	"verifharness/rig"
	"verifharness/vh"
)

func main() {
	par := flag.Int("par", 12, "scenarios in flight")
	verbose := flag.Bool("v", false, "keep the libraries' log output")
	flag.Parse()
	if flag.NArg() != 2 {
		vh.Fatal("usage: sysrig [flags] scenarios.ndjson results.ndjson")
	}
	if !*verbose {
		log.SetOutput(ioutil.Discard)
	}
	raw, err := vh.ReadCases(flag.Arg(0))
	if err != nil {
		vh.Fatal("read scenarios: %v", err)
	}
	out, err := vh.NewWriter(flag.Arg(1))
	if err != nil {
		vh.Fatal("open output: %v", err)
	}
	r, err := rig.NewRig()
	if err != nil {
		vh.Fatal("start server: %v", err)
	}
	sfclient.VerifHook = r.SysClientHook
	t0 := time.Now()
	var mu sync.Mutex
	done, stalled, faults, offers := 0, 0, 0, 0
	var bytes int64
	vh.RunParallel(len(raw), *par, func(i int) {
		var sc rig.SysScenario
		if err := json.Unmarshal(raw[i], &sc); err != nil {
			out.Put(map[string]interface{}{"name": "?", "error": "bad scenario: " + err.Error(), "idx": i})
			return
		}
		res := r.RunSys(&sc, i)
		out.Put(res)
		mu.Lock()
		if res.Done {
			done++
		}
		if res.Stalled {
			stalled++
		}
		faults += res.Faults
		offers += res.Dials
		bytes += res.Bytes
		mu.Unlock()
	}, func(i int, v interface{}, stack string) {
		out.Put(map[string]interface{}{"name": "?", "idx": i, "panic": v, "stack": stack})
	})
	out.Put(map[string]interface{}{"summary": map[string]interface{}{
		"cases": len(raw), "done": done, "stalled": stalled, "faults": faults, "dials": offers, "bytes": bytes,
		"wall_ms": int(time.Since(t0) / time.Millisecond), "orphans": r.Orphans.Events()}})
	if err := out.Close(); err != nil {
		vh.Fatal("write output: %v", err)
	}
}
