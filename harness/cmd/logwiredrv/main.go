// logwiredrv executes the runs enumerated by spec/LogWiring (TLC) against the
// REAL binaries (broker, probetest, server, proxy, client built from the
// repository's working tree): it starts the process with harmless offline
// flags, provokes the address-bearing log paths from addresses it knows (its
// own local address:port of every connection, distinct 127.x.y.z source and
// listen addresses, addresses it puts into requests), captures what the process
// writes to its log sinks and compares data: with scrubbing on, none of those
// address strings may occur; with -unsafe-logging they may (and the run is used
// to show that the oracle can see them).
//
//	logwiredrv <runs.ndjson> <out.ndjson> <seed> <bindir>
package main

import (
	"crypto/ecdsa"
	"crypto/elliptic"
	"crypto/rand"
	"crypto/tls"
	"crypto/x509"
	"crypto/x509/pkix"
	"encoding/json"
	"encoding/pem"
	"fmt"
	"io"
	"math/big"
	"net"
	"os"
	"os/exec"
	"path/filepath"
	"regexp"
	"strconv"
	"strings"
	"sync"
	"syscall"
	"time"

	"git.torproject.org/pluggable-transports/snowflake.git/v2/common/safelog"
	"verifharness/vh"
)

type prov struct {
	P    string `json:"p"`
	Sink string `json:"sink"`
}

type runCase struct {
	Bin    string   `json:"bin"`
	Mode   string   `json:"mode"`
	Unsafe bool     `json:"unsafe"`
	Provs  []prov   `json:"provs"`
	Fds    []string `json:"fds"`
	Expect string   `json:"expect"`
}

// a needle is an address string the harness used, with the provocation that
// put it in front of the process
type needle struct {
	text string
	prov prov
}

type run struct {
	c        runCase
	dir      string
	needles  []needle
	markers  map[string]*regexp.Regexp // provocation -> line that shows it took effect
	mu       sync.Mutex
	notes    []string
	rng      *vh.Rng
	dontcare []string // lines with a harness address that the real Scrub leaves unchanged
}

func (r *run) addNeedle(p prov, texts ...string) {
	r.mu.Lock()
	for _, t := range texts {
		if t != "" {
			r.needles = append(r.needles, needle{t, p})
		}
	}
	r.mu.Unlock()
}

func (r *run) note(format string, a ...interface{}) {
	r.mu.Lock()
	r.notes = append(r.notes, fmt.Sprintf(format, a...))
	r.mu.Unlock()
}

// loopback returns a fresh 127.x.y.z address: distinct per use, so that the IP
// alone identifies the connection it was used for.
func (r *run) loopback() string {
	r.mu.Lock()
	defer r.mu.Unlock()
	return fmt.Sprintf("127.%d.%d.%d", 1+r.rng.Intn(254), 1+r.rng.Intn(254), 2+r.rng.Intn(250))
}

func freePort(ip string) int {
	l, err := net.Listen("tcp", net.JoinHostPort(ip, "0"))
	if err != nil {
		vh.Fatal("no free port on %s: %v", ip, err)
	}
	defer l.Close()
	return l.Addr().(*net.TCPAddr).Port
}

func selfSigned(dir string) (string, string) {
	key, err := ecdsa.GenerateKey(elliptic.P256(), rand.Reader)
	if err != nil {
		vh.Fatal("%v", err)
	}
	tmpl := &x509.Certificate{SerialNumber: big.NewInt(1), Subject: pkix.Name{CommonName: "logwire.test"},
		NotBefore: time.Now().Add(-time.Hour), NotAfter: time.Now().Add(24 * time.Hour), DNSNames: []string{"logwire.test"}}
	der, err := x509.CreateCertificate(rand.Reader, tmpl, tmpl, &key.PublicKey, key)
	if err != nil {
		vh.Fatal("%v", err)
	}
	kd, _ := x509.MarshalECPrivateKey(key)
	cf, kf := filepath.Join(dir, "cert.pem"), filepath.Join(dir, "key.pem")
	os.WriteFile(cf, pem.EncodeToMemory(&pem.Block{Type: "CERTIFICATE", Bytes: der}), 0600)
	os.WriteFile(kf, pem.EncodeToMemory(&pem.Block{Type: "EC PRIVATE KEY", Bytes: kd}), 0600)
	return cf, kf
}

// dialFrom connects to target from a fresh loopback source address and
// registers the addresses the process will see as needles.
func (r *run) dialFrom(p prov, target string) (net.Conn, string) {
	src := r.loopback()
	d := net.Dialer{LocalAddr: &net.TCPAddr{IP: net.ParseIP(src)}, Timeout: 5 * time.Second}
	c, err := d.Dial("tcp", target)
	if err != nil {
		r.note("%s: dial %s: %v", p.P, target, err)
		return nil, ""
	}
	local := c.LocalAddr().String()
	r.addNeedle(p, local, src)
	return c, local
}

func waitListen(target string, d time.Duration, p *proc) bool {
	for end := time.Now().Add(d); time.Now().Before(end); time.Sleep(20 * time.Millisecond) {
		select {
		case <-p.exited:
			return false
		default:
		}
		c, err := net.DialTimeout("tcp", target, time.Second)
		if err == nil {
			c.Close()
			return true
		}
	}
	return false
}

// ---------------------------------------------------------------------------
// provocations of the HTTP(S) front ends (broker, probetest)

func (r *run) provokeHTTPS(target string, tlsOn bool, path string) {
	safe := !r.c.Unsafe
	addr := func(local string) string {
		if safe {
			return `\[scrubbed\]`
		}
		return regexp.QuoteMeta(local)
	}
	for _, p := range r.c.Provs {
		switch p.P {
		case "plain-http-on-tls":
			if c, local := r.dialFrom(p, target); c != nil {
				c.Write([]byte("GET /debug HTTP/1.0\r\n\r\n"))
				io.Copy(io.Discard, c)
				c.Close()
				r.markers[p.P] = regexp.MustCompile(`TLS handshake error from ` + addr(local) + `: client sent an HTTP request`)
			}
		case "garbage-on-tls":
			if c, local := r.dialFrom(p, target); c != nil {
				c.Write([]byte("\x00\x01\x02 not a handshake at all \xff\xfe\r\n\r\n"))
				c.SetReadDeadline(time.Now().Add(2 * time.Second))
				io.Copy(io.Discard, c)
				c.Close()
				r.markers[p.P] = regexp.MustCompile(`TLS handshake error from ` + addr(local) + `: tls: `)
			}
		case "aborted-handshake":
			if c, local := r.dialFrom(p, target); c != nil {
				// the first bytes of a TLS 1.2 ClientHello record, then nothing
				c.Write([]byte{0x16, 0x03, 0x01, 0x02, 0x00, 0x01, 0x00, 0x01, 0xfc, 0x03, 0x03})
				c.Close()
				r.markers[p.P] = regexp.MustCompile(`TLS handshake error from ` + addr(local) + `: (EOF|read tcp|unexpected EOF)`)
			}
		case "garbage-on-plain":
			if c, _ := r.dialFrom(p, target); c != nil {
				c.Write([]byte("\x16\x03\x01 this is not HTTP\r\n\r\n"))
				c.SetReadDeadline(time.Now().Add(2 * time.Second))
				io.Copy(io.Discard, c)
				c.Close()
			}
		case "malformed-request", "oversized-request":
			c, _ := r.dialFrom(p, target)
			if c == nil {
				continue
			}
			var conn net.Conn = c
			if tlsOn {
				tc := tls.Client(c, &tls.Config{InsecureSkipVerify: true})
				if err := tc.Handshake(); err != nil {
					r.note("%s: TLS handshake: %v", p.P, err)
					c.Close()
					continue
				}
				conn = tc
			}
			// the body names further addresses, in several textual forms
			extra := []string{r.loopback(), "2001:db8:" + strconv.FormatInt(int64(0x1000+r.rng.Intn(0xe000)), 16) + "::" + strconv.FormatInt(int64(1+r.rng.Intn(0xfffe)), 16)}
			r.addNeedle(p, extra...)
			body := `{"Sid":"` + extra[0] + `","Version":` + `"[` + extra[1] + `]:443", "broken`
			if p.P == "oversized-request" {
				body = strings.Repeat(extra[0]+" ", 120000/(len(extra[0])+1)+1) // > the 100000-byte read limit
			}
			fmt.Fprintf(conn, "POST %s HTTP/1.1\r\nHost: logwire.test\r\nX-Forwarded-For: %s\r\nContent-Length: %d\r\nConnection: close\r\n\r\n%s", path, extra[1], len(body), body)
			conn.SetReadDeadline(time.Now().Add(3 * time.Second))
			io.Copy(io.Discard, conn)
			conn.Close()
			if p.P == "malformed-request" {
				r.markers[p.P] = regexp.MustCompile(`Invalid data|Error reading|Error processing|invalid`)
			}
		}
	}
}

// ---------------------------------------------------------------------------

type proc struct {
	cmd    *exec.Cmd
	stdin  io.WriteCloser
	files  map[string]string // fd name -> file
	exited chan struct{}
}

func (r *run) start(bin string, args []string, env []string, wantStdin bool) *proc {
	p := &proc{files: map[string]string{}, exited: make(chan struct{})}
	p.cmd = exec.Command(bin, args...)
	p.cmd.Dir = r.dir
	p.cmd.Env = append(os.Environ(), env...)
	for _, fd := range []string{"stdout", "stderr"} {
		f, err := os.Create(filepath.Join(r.dir, fd))
		if err != nil {
			vh.Fatal("%v", err)
		}
		p.files[fd] = f.Name()
		if fd == "stdout" {
			p.cmd.Stdout = f
		} else {
			p.cmd.Stderr = f
		}
		defer f.Close()
	}
	if wantStdin {
		p.stdin, _ = p.cmd.StdinPipe()
	}
	if err := p.cmd.Start(); err != nil {
		vh.Fatal("cannot start %s: %v", bin, err)
	}
	go func() { p.cmd.Wait(); close(p.exited) }()
	return p
}

func (p *proc) read(fd string) string {
	b, _ := os.ReadFile(p.files[fd])
	return string(b)
}

func (p *proc) stop() {
	if p.stdin != nil {
		p.stdin.Close()
	}
	p.cmd.Process.Signal(syscall.SIGTERM)
	select {
	case <-p.exited:
	case <-time.After(1500 * time.Millisecond):
		p.cmd.Process.Kill()
		<-p.exited
	}
}

func waitFor(d time.Duration, cond func() bool, p *proc) bool {
	for end := time.Now().Add(d); ; time.Sleep(25 * time.Millisecond) {
		if cond() {
			return true
		}
		select {
		case <-p.exited:
			return cond()
		default:
		}
		if time.Now().After(end) {
			return false
		}
	}
}

func (r *run) execute(bindir string, w *vh.Writer) (vacuous string) {
	c := r.c
	flags := []string{}
	if c.Unsafe {
		flags = append(flags, "-unsafe-logging")
	}
	bin := filepath.Join(bindir, c.Bin)
	var p *proc
	logSinks := func() string { // everything the process wrote to its log sinks so far
		var sb strings.Builder
		for _, fd := range c.Fds {
			sb.WriteString(p.read(fd))
		}
		return sb.String()
	}
	patience := 25 * time.Second
	switch c.Bin {
	case "broker", "probetest":
		listen := r.loopback()
		target := net.JoinHostPort(listen, strconv.Itoa(freePort(listen)))
		r.addNeedle(prov{"listen-address", "std"}, listen)
		flags = append(flags, "-addr", target)
		if c.Mode == "tls" {
			cf, kf := selfSigned(r.dir)
			flags = append(flags, "-cert", cf, "-key", kf)
		} else {
			flags = append(flags, "-disable-tls")
		}
		path := "/probe"
		if c.Bin == "broker" {
			flags = append(flags, "-disable-geoip")
			path = "/proxy"
		}
		p = r.start(bin, flags, nil, false)
		defer p.stop()
		if !waitListen(target, patience, p) {
			return fmt.Sprintf("%s never listened on %s; stderr: %q", c.Bin, target, p.read("stderr"))
		}
		r.provokeHTTPS(target, c.Mode == "tls", path)
	case "server":
		listen := r.loopback()
		bind := net.JoinHostPort(listen, strconv.Itoa(freePort(listen)))
		bp := prov{"bind-address-line", "std"}
		r.addNeedle(bp, listen)
		or, err := net.Listen("tcp", "127.0.0.1:0")
		if err != nil {
			vh.Fatal("%v", err)
		}
		defer or.Close()
		go func() {
			for {
				cc, err := or.Accept()
				if err != nil {
					return
				}
				cc.Close()
			}
		}()
		flags = append(flags, "-disable-tls")
		p = r.start(bin, flags, []string{"TOR_PT_MANAGED_TRANSPORT_VER=1", "TOR_PT_STATE_LOCATION=" + r.dir,
			"TOR_PT_SERVER_TRANSPORTS=snowflake", "TOR_PT_SERVER_BINDADDR=snowflake-" + bind,
			"TOR_PT_ORPORT=" + or.Addr().String(), "TOR_PT_EXIT_ON_STDIN_CLOSE=1"}, true)
		defer p.stop()
		if !waitListen(bind, patience, p) {
			return fmt.Sprintf("server never listened on %s; stderr: %q", bind, p.read("stderr"))
		}
		if c.Unsafe {
			r.markers[bp.P] = regexp.MustCompile(`listening with plain HTTP on ` + regexp.QuoteMeta(bind))
		} else {
			r.markers[bp.P] = regexp.MustCompile(`listening with plain HTTP on \[scrubbed\]`)
		}
		for _, pv := range c.Provs {
			var q string
			switch pv.P {
			case "ws-client-ip":
				ip := r.loopback()
				r.addNeedle(pv, ip)
				q = "/?client_ip=" + ip
			case "ws-bad-client-ip":
				ip := r.loopback()
				r.addNeedle(pv, ip)
				q = "/?client_ip=" + ip + ".999:xyz"
			case "non-ws-get":
				q = ""
			default:
				continue
			}
			cc, _ := r.dialFrom(pv, bind)
			if cc == nil {
				continue
			}
			if pv.P == "non-ws-get" {
				fmt.Fprintf(cc, "GET /nothing-here HTTP/1.1\r\nHost: logwire.test\r\nConnection: close\r\n\r\n")
			} else {
				fmt.Fprintf(cc, "GET %s HTTP/1.1\r\nHost: logwire.test\r\nUpgrade: websocket\r\nConnection: Upgrade\r\nSec-WebSocket-Key: dGhlIHNhbXBsZSBub25jZQ==\r\nSec-WebSocket-Version: 13\r\n\r\n", q)
				cc.SetReadDeadline(time.Now().Add(500 * time.Millisecond))
				buf := make([]byte, 512)
				cc.Read(buf)
				cc.Write([]byte("garbage instead of a websocket frame"))
			}
			cc.SetReadDeadline(time.Now().Add(500 * time.Millisecond))
			io.Copy(io.Discard, cc)
			cc.Close()
		}
	case "proxy":
		dead := net.JoinHostPort(r.loopback(), "9")
		stun := net.JoinHostPort(r.loopback(), "9")
		dp := prov{"dead-broker", "std"}
		host, _, _ := net.SplitHostPort(dead)
		r.addNeedle(dp, dead, host)
		// the proxy's own interface addresses appear as candidates in the offers it logs
		op := prov{"offer-with-local-candidates", "std"}
		if as, err := net.InterfaceAddrs(); err == nil {
			for _, a := range as {
				if n, ok := a.(*net.IPNet); ok && !n.IP.IsLoopback() && n.IP.To4() != nil {
					r.addNeedle(op, n.IP.String())
				}
			}
		}
		logf := filepath.Join(r.dir, "proxy.log")
		flags = append(flags, "-verbose", "-broker", "http://"+dead+"/", "-stun", "stun:"+stun, "-log", logf, "-summary-interval", "1s")
		p = r.start(bin, flags, nil, false)
		p.files["logfile"] = logf
		defer p.stop()
		if c.Unsafe {
			r.markers[dp.P] = regexp.MustCompile(`error polling broker: .*` + regexp.QuoteMeta(dead))
		} else {
			r.markers[dp.P] = regexp.MustCompile(`error polling broker: .*\[scrubbed\]`)
		}
		r.markers[op.P] = regexp.MustCompile(`Offer: \{`)
		patience = 40 * time.Second
	case "client":
		dead := net.JoinHostPort(r.loopback(), "9")
		stun := net.JoinHostPort(r.loopback(), "9")
		sp := prov{"socks-connect-dead-broker", "std"}
		dh, _, _ := net.SplitHostPort(dead)
		sh, _, _ := net.SplitHostPort(stun)
		r.addNeedle(sp, dead, dh, stun, sh)
		logf := filepath.Join(r.dir, "client.log")
		flags = append(flags, "-url", "http://"+dead+"/", "-ice", "stun:"+stun, "-log", logf)
		p = r.start(bin, flags, []string{"TOR_PT_MANAGED_TRANSPORT_VER=1", "TOR_PT_STATE_LOCATION=" + r.dir,
			"TOR_PT_CLIENT_TRANSPORTS=snowflake", "TOR_PT_EXIT_ON_STDIN_CLOSE=1"}, true)
		p.files["logfile"] = logf
		defer p.stop()
		re := regexp.MustCompile(`CMETHOD snowflake socks5 (\S+)`)
		var socks string
		if !waitFor(patience, func() bool {
			if m := re.FindStringSubmatch(p.read("stdout")); m != nil {
				socks = m[1]
				return true
			}
			return false
		}, p) {
			return fmt.Sprintf("client never announced its SOCKS port; stdout %q stderr %q", p.read("stdout"), p.read("stderr"))
		}
		cc, err := net.DialTimeout("tcp", socks, 5*time.Second)
		if err != nil {
			return "cannot reach the client's SOCKS port: " + err.Error()
		}
		defer cc.Close()
		cc.Write([]byte{5, 1, 0})
		buf := make([]byte, 16)
		cc.SetReadDeadline(time.Now().Add(5 * time.Second))
		io.ReadFull(cc, buf[:2])
		cc.Write(append([]byte{5, 1, 0, 1}, 192, 0, 2, 77, 0, 80))
		if c.Unsafe {
			r.markers[sp.P] = regexp.MustCompile(`Rendezvous using Broker at: http://` + regexp.QuoteMeta(dead))
		} else {
			r.markers[sp.P] = regexp.MustCompile(`Rendezvous using Broker at: http://\[scrubbed\]`)
		}
	default:
		vh.Fatal("unknown binary %q", c.Bin)
	}
	// wait until every provocation has shown its effect in the log sinks
	missing := ""
	ok := waitFor(patience, func() bool {
		out := logSinks()
		missing = ""
		for pn, re := range r.markers {
			if !re.MatchString(out) {
				missing = pn + " (" + re.String() + ")"
				return false
			}
		}
		return true
	}, p)
	time.Sleep(150 * time.Millisecond) // lines of the same burst that follow the marker
	p.stop()
	out := map[string]string{}
	for _, fd := range c.Fds {
		out[fd] = p.read(fd)
	}
	// the oracle
	found, violations := 0, 0
	for _, n := range r.needles {
		for fd, text := range out {
			i := strings.Index(text, n.text)
			if i < 0 {
				continue
			}
			found++
			if c.Expect == "absent" {
				ls := strings.LastIndexByte(text[:i], '\n') + 1
				le := strings.IndexByte(text[i:], '\n')
				if le < 0 {
					le = len(text) - i
				}
				line := text[ls : i+le]
				// The wiring is judged, not the scrubber: a line the real Scrub
				// would leave as it is (the address stands in a context the
				// scrubber's contract excludes, e.g. "stun:1.2.3.4:9" after a
				// ':') tells nothing about the routing of the line.
				if string(safelog.Scrub([]byte(line+"\n"))) == line+"\n" {
					r.mu.Lock()
					r.dontcare = append(r.dontcare, line)
					r.mu.Unlock()
					continue
				}
				if len(line) > 400 {
					line = line[:400] + "..."
				}
				violations++
				w.Put(vh.Result{Idx: 0, Sig: "wiring/" + c.Bin + "/" + n.prov.Sink + ":" + n.prov.P,
					Detail: fmt.Sprintf("%s (%s, scrubbing on) wrote the address %s, which the harness used for %q, to its %s in a line that did not pass the scrubber: %q", c.Bin, c.Mode, n.text, n.prov.P, fd, line),
					Case:   map[string]interface{}{"case": c}})
			}
		}
	}
	if violations > 0 {
		return "" // the missing "[scrubbed]" marker is the violation itself
	}
	if !ok {
		return fmt.Sprintf("%s/%s unsafe=%v: the provocation %s left no trace in the log sinks within %v; notes %v; stderr tail %q",
			c.Bin, c.Mode, c.Unsafe, missing, patience, r.notes, tail(out["stderr"], 600))
	}
	if c.Expect == "visible" && found == 0 {
		return fmt.Sprintf("%s/%s with -unsafe-logging: none of the %d addresses the harness used is visible in the log sinks - the oracle would not see a leak", c.Bin, c.Mode, len(r.needles))
	}
	return ""
}

func keys(m map[string]bool) []string {
	out := []string{}
	for k := range m {
		out = append(out, k)
	}
	return out
}

func tail(s string, n int) string {
	if len(s) > n {
		return s[len(s)-n:]
	}
	return s
}

func main() {
	if len(os.Args) < 5 {
		vh.Fatal("usage: logwiredrv <runs> <out> <seed> <bindir>")
	}
	cases, err := vh.ReadCases(os.Args[1])
	if err != nil {
		vh.Fatal("%v", err)
	}
	w, err := vh.NewWriter(os.Args[2])
	if err != nil {
		vh.Fatal("%v", err)
	}
	seed, _ := strconv.ParseUint(os.Args[3], 10, 64)
	bindir := os.Args[4]
	outAbs, err := filepath.Abs(os.Args[2])
	if err != nil {
		vh.Fatal("%v", err)
	}
	base, err := os.MkdirTemp(filepath.Dir(outAbs), "logwire-")
	if err != nil {
		vh.Fatal("%v", err)
	}
	defer os.RemoveAll(base)
	var wg sync.WaitGroup
	var mu sync.Mutex
	var vac []string
	dontcare := map[string]bool{}
	provoked := 0
	for i, raw := range cases {
		var c runCase
		if err := json.Unmarshal(raw, &c); err != nil {
			vh.Fatal("bad run %d: %v", i, err)
		}
		dir := filepath.Join(base, fmt.Sprintf("run%d", i))
		os.MkdirAll(dir, 0700)
		r := &run{c: c, dir: dir, markers: map[string]*regexp.Regexp{}, rng: vh.NewRng(seed ^ 0x10c4172 ^ uint64(i+1)<<20)}
		provoked += len(c.Provs)
		wg.Add(1)
		go func() {
			defer wg.Done()
			v := r.execute(bindir, w)
			mu.Lock()
			if v != "" {
				vac = append(vac, v)
			}
			for _, l := range r.dontcare {
				dontcare[c.Bin+": "+regexp.MustCompile(`\d+`).ReplaceAllString(l, "N")] = true
			}
			mu.Unlock()
		}()
	}
	wg.Wait()
	for _, v := range vac {
		w.Put(map[string]interface{}{"vacuous": v})
	}
	w.Put(map[string]interface{}{"summary": map[string]interface{}{"cases": len(cases), "nontrivial": len(cases), "provocations": provoked, "dontcare_lines": keys(dontcare)}})
	w.Close()
}
