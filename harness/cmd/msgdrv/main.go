// msgdrv replays the cases enumerated by spec/Messages (TLC) through the real
// common/messages package: abstract tokens are replaced by seeded concrete
// strings, abstract documents are written out as bytes, the real
// Encode*/Decode* functions are run and their results compared (data
// equality) with the set of outcomes the contract allows, as printed by TLC.
// A panic is a violation.
//
//	msgdrv run <cases.ndjson> <out.ndjson> <seed>
package main

import (
	"encoding/json"
	"fmt"
	"os"
	"strconv"
	"strings"
	"sync/atomic"
	"unicode/utf8"

	"git.torproject.org/pluggable-transports/snowflake.git/v2/common/messages"
	"verifharness/vh"
)

// The documented default bridge (common/messages/client.go, protocol comment).
const defaultBridge = "2B280B23E1107BB62ABFC40DDCC8824814F80A72"

type member struct {
	N string `json:"n"`
	K string `json:"k"`
	V string `json:"v"`
}
type document struct {
	Top string   `json:"top"`
	Ver string   `json:"ver"`
	Mem []member `json:"mem"`
}
type outcome map[string]interface{}
type mcase struct {
	Idx    *int                   `json:"_idx,omitempty"`
	Kind   string                 `json:"kind"`
	Mode   string                 `json:"mode"`
	Shape  string                 `json:"shape"`
	Args   map[string]interface{} `json:"args,omitempty"`
	Doc    *document              `json:"doc,omitempty"`
	NT     bool                   `json:"nt"`
	Expect struct {
		Full   []outcome `json:"full"`
		Legacy []outcome `json:"legacy"`
	} `json:"expect"`
}

// ---------------------------------------------------------------------------
// concretisation

type conc struct {
	seed uint64
	idx  int
	memo map[string]string
}

func hashStr(s string) uint64 {
	h := uint64(1469598103934665603)
	for i := 0; i < len(s); i++ {
		h ^= uint64(s[i])
		h *= 1099511628211
	}
	return h
}

func (c *conc) rng(salt string) *vh.Rng {
	return vh.NewRng(c.seed*0x9e3779b1 + uint64(c.idx)*0x85ebca6b + hashStr(salt))
}

var asciiAlphabet = func() []byte {
	var b []byte
	for ch := byte(0x20); ch < 0x7f; ch++ {
		if ch != '"' && ch != '\\' {
			b = append(b, ch)
		}
	}
	return b
}()

var escPieces = []string{`"`, `\`, `/`, "\b", "\f", "\t", "\x00", "\x01", "\x1f", "\x7f", "<script>", "&amp;", "\u2028", "\u2029",
	`\u0041`, `","Sid":"x`, `"}`, `{"a":1}`, "'", `\"`, `\\`, "ab", "Z", " "}
var multiPieces = []string{"\u00e9", "\u00df", "\u20ac", "\u65e5\u672c\u8a9e", "\U0001F600", "\U0010FFFF", "\uFFFD", "\uFEFF", "e\u0301", "\u00a0", "\U0001D11E", "\u07ff", "\u0800",
	"\ud7ff", "\ue000", "\u0080", "\u044f", "\u2028", "\u2029", "q", "7"}
var nlPieces = []string{"\n", "\r\n", "\r", "\n\n", "1.0\n", "line", "v=0", " ", "{\"offer\":\"x\"}", "a=b"}

func pieces(r *vh.Rng, from []string, lo, hi int) string {
	n := lo + r.Intn(hi-lo+1)
	var sb strings.Builder
	for i := 0; i < n; i++ {
		sb.WriteString(from[r.Intn(len(from))])
	}
	return sb.String()
}

func genClass(cls string, r *vh.Rng) string {
	switch cls {
	case "ascii", "wrong":
		n := 3 + r.Intn(38)
		b := make([]byte, n)
		for i := range b {
			b[i] = asciiAlphabet[r.Intn(len(asciiAlphabet))]
		}
		return string(b)
	case "esc":
		return "e" + pieces(r, escPieces, 3, 9)
	case "multi", "dup":
		return pieces(r, multiPieces, 2, 9) + "\u00e9"
	case "nl":
		return pieces(r, nlPieces, 0, 4) + []string{"\n", "\r\n", "\n\n"}[r.Intn(3)] + pieces(r, nlPieces, 0, 4)
	case "long":
		target := 4096 + r.Intn(4096)
		if r.Intn(8) == 0 {
			target = 70000 + r.Intn(5000)
		}
		var sb strings.Builder
		all := [][]string{escPieces, multiPieces, nlPieces}
		for sb.Len() < target {
			sb.WriteString(pieces(r, all[r.Intn(3)], 1, 6))
			sb.WriteString("filler-")
		}
		return sb.String()
	case "natother":
		return []string{"Unknown", "UNRESTRICTED", "restricted ", " unknown", "symmetric", "unknown\n", "0", "null", "restricted\x00", "unrestricted,restricted", "un"}[r.Intn(11)]
	case "typeother":
		return []string{"Standalone", "mobile", "unknown", "webext ", "badge\n", "STANDALONE", "proxy-go", "\u00e9"}[r.Intn(8)]
	case "fp20":
		return hexStr(r, 40, "0123456789ABCDEF")
	case "fp20lc":
		return hexStr(r, 40, "0123456789abcdefABCDEF")
	case "fp32":
		return hexStr(r, 64, "0123456789ABCDEFabcdef")
	case "fp19":
		return hexStr(r, 38, "0123456789ABCDEF")
	case "fp21":
		return hexStr(r, 42, "0123456789ABCDEF")
	case "fp33":
		return hexStr(r, []int{66, 62, 128, 80}[r.Intn(4)], "0123456789ABCDEF")
	case "fpodd":
		return hexStr(r, []int{39, 41, 63, 65, 1}[r.Intn(5)], "0123456789ABCDEF")
	case "fpnonhex":
		n := []int{40, 64}[r.Intn(2)]
		s := []byte(hexStr(r, n, "0123456789ABCDEF"))
		bad := []string{"G", "x", " ", "-", ":", "g", "\x00"}[r.Intn(7)]
		p := r.Intn(n)
		return string(s[:p]) + bad + string(s[p+1:])
	case "fpshort":
		return []string{"123123", "2B", "00", "2B280B23"}[r.Intn(4)]
	case "fpspace":
		h := hexStr(r, 40, "0123456789ABCDEF")
		return []string{" " + h, h + " ", "0x" + h, h + "\n", h[:20] + " " + h[20:], "\u00e9" + h[2:]}[r.Intn(6)]
	case "fpdefault":
		return defaultBridge
	}
	vh.Fatal("unknown token class %q", cls)
	return ""
}

func hexStr(r *vh.Rng, n int, alphabet string) string {
	b := make([]byte, n)
	for i := range b {
		b[i] = alphabet[r.Intn(len(alphabet))]
	}
	return string(b)
}

// str maps an abstract token to its concrete string.  Tokens "$class.field"
// are seeded per (seed, case, token); everything else is literal.
func (c *conc) str(tok string) string {
	if !strings.HasPrefix(tok, "$") {
		return tok
	}
	if s, ok := c.memo[tok]; ok {
		return s
	}
	cls := tok[1:]
	if i := strings.IndexByte(cls, '.'); i >= 0 {
		cls = cls[:i]
	}
	s := genClass(cls, c.rng(tok))
	if !utf8.ValidString(s) {
		vh.Fatal("concretisation of %s is not valid UTF-8", tok)
	}
	c.memo[tok] = s
	return s
}

func (c *conc) clients(tok string) int64 {
	switch tok {
	case "neg":
		return []int64{-1, -8, -2147483649, -9223372036854775808}[c.rng("neg").Intn(4)]
	case "zero":
		return 0
	case "eight":
		return 8
	case "p31":
		return 2147483648
	case "p53p1":
		return 9007199254740993
	case "max63":
		return 9223372036854775807
	}
	vh.Fatal("unknown clients token %q", tok)
	return 0
}

// ---------------------------------------------------------------------------
// writing documents

func hex4(r *vh.Rng, v uint32) string {
	s := fmt.Sprintf("%04x", v)
	if r.Intn(2) == 0 {
		s = strings.ToUpper(s)
	}
	return `\u` + s
}

func uEscape(r *vh.Rng, ch rune) string {
	if ch > 0xffff {
		ch -= 0x10000
		return hex4(r, 0xd800+uint32(ch>>10)) + hex4(r, 0xdc00+uint32(ch&0x3ff))
	}
	return hex4(r, uint32(ch))
}

// jsonString writes s as a JSON string in one of four equivalent styles.
func jsonString(s string, style int, r *vh.Rng) string {
	if style == 0 {
		b, err := json.Marshal(s)
		if err != nil {
			vh.Fatal("%v", err)
		}
		return string(b)
	}
	var sb strings.Builder
	sb.WriteByte('"')
	for _, ch := range s {
		switch {
		case style == 3:
			sb.WriteString(uEscape(r, ch))
		case ch == '"':
			sb.WriteString(`\"`)
		case ch == '\\':
			sb.WriteString(`\\`)
		case ch < 0x20:
			short := map[rune]string{'\n': `\n`, '\r': `\r`, '\t': `\t`, '\b': `\b`, '\f': `\f`}
			if e, ok := short[ch]; ok && r.Intn(2) == 0 {
				sb.WriteString(e)
			} else {
				sb.WriteString(uEscape(r, ch))
			}
		case style == 2 && ch == '/':
			sb.WriteString(`\/`)
		case style == 2 && ch >= 0x7f:
			sb.WriteString(uEscape(r, ch))
		default:
			sb.WriteRune(ch)
		}
	}
	sb.WriteByte('"')
	return sb.String()
}

var badUTF8 = []string{"\xff", "\xc0\xaf", "\xed\xa0\x80", "\xe2\x82", "\xf8\x88\x80\x80\x80", "\x80"}

func ws(r *vh.Rng, on bool) string {
	if !on {
		return ""
	}
	return pieces(r, []string{" ", "\t", "\n", "\r", ""}, 0, 3)
}

func (c *conc) value(m member, r *vh.Rng, bad bool) string {
	switch m.K {
	case "str":
		s := c.str(m.V)
		if m.V == "$ascii.wrong" && r.Intn(2) == 0 {
			s = "8"
		}
		if bad {
			p := 0
			if len(s) > 0 {
				p = r.Intn(len(s) + 1)
				for p < len(s) && !utf8.RuneStart(s[p]) {
					p++
				}
			}
			js := jsonString(s[:p], 1, r)
			js2 := jsonString(s[p:], 1, r)
			return js[:len(js)-1] + badUTF8[r.Intn(len(badUTF8))] + js2[1:]
		}
		return jsonString(s, r.Intn(4), r)
	case "num":
		if m.V == "" {
			return []string{"5", "0", "-1", "1.5", "1e3", "40"}[r.Intn(6)]
		}
		return strconv.FormatInt(c.clients(m.V), 10)
	case "frac":
		return []string{"8.5", "0.1", "-0.5", "8.0"}[r.Intn(4)]
	case "exp":
		return []string{"1e2", "8E0", "8e+0", "80e-1"}[r.Intn(4)]
	case "big":
		return []string{"9223372036854775808", "1e400", "-9223372036854775809", "123456789012345678901234567890"}[r.Intn(4)]
	case "true":
		return []string{"true", "false"}[r.Intn(2)]
	case "null":
		return "null"
	case "arr":
		return []string{"[]", `["x"]`, `[1,{}]`, `[[]]`, `[null]`}[r.Intn(5)]
	case "obj":
		return []string{"{}", `{"a":"b"}`, `{"Sid":"x"}`, `{"":{}}`}[r.Intn(4)]
	case "deep":
		n := []int{100, 9999, 10001, 100000}[r.Intn(4)]
		return strings.Repeat("[", n) + strings.Repeat("]", n)
	}
	vh.Fatal("unknown JSON kind %q", m.K)
	return ""
}

func (c *conc) object(d *document, r *vh.Rng) string {
	mem := d.Mem
	if d.Top == "object-rev" {
		mem = make([]member, len(d.Mem))
		for i, m := range d.Mem {
			mem[len(d.Mem)-1-i] = m
		}
	}
	w := d.Top == "object-ws"
	var sb strings.Builder
	sb.WriteString(ws(r, w) + "{" + ws(r, w))
	for i, m := range mem {
		if i > 0 {
			sb.WriteString("," + ws(r, w))
		}
		sb.WriteString(`"` + m.N + `"` + ws(r, w) + ":" + ws(r, w))
		sb.WriteString(c.value(m, r, d.Top == "badutf8"))
		sb.WriteString(ws(r, w))
	}
	sb.WriteString("}" + ws(r, w))
	return sb.String()
}

// bytesOf turns the abstract document into the bytes offered to the decoder.
func (c *conc) bytesOf(kind string, d *document) []byte {
	r := c.rng("doc")
	obj := c.object(d, r)
	var body string
	switch d.Top {
	case "object", "object-ws", "object-rev", "badutf8":
		body = obj
	case "bom":
		body = "\xef\xbb\xbf" + obj
	case "array":
		body = []string{"[" + obj + "]", "[]", "[" + obj + "," + obj + "]"}[r.Intn(3)]
	case "string":
		b, _ := json.Marshal(obj)
		body = string(b)
	case "number":
		body = []string{"42", "-0", "1e5", "0.5"}[r.Intn(4)]
	case "true":
		body = []string{"true", "false"}[r.Intn(2)]
	case "null":
		body = "null"
	case "garbage":
		if r.Intn(2) == 0 { // arbitrary bytes
			b := make([]byte, 1+r.Intn(64))
			for i := range b {
				b[i] = byte(r.Intn(256))
			}
			if b[0] == '{' || b[0] == ' ' {
				b[0] = '}'
			}
			body = string(b)
			break
		}
		body = []string{"<html><body>502 Bad Gateway</body></html>", "\x00\x01\x02\xff\xfe", "{'Sid':'x'}", "Sid=x&Version=1.3", "{Sid:\"x\"}", "\"", "{{}}", "nul", "{\"Status\"}", "v=0\r\no=- 1 2 IN IP4 1.2.3.4\r\n"}[r.Intn(10)]
	case "truncated":
		body = obj[:1+r.Intn(len(obj)-1)]
	case "trailing":
		body = obj + []string{"x", "{}", ",", "]", "\x00", "}", obj}[r.Intn(7)]
	case "empty":
		body = ""
	default:
		vh.Fatal("unknown top %q", d.Top)
	}
	if kind == "cpreq" {
		if d.Ver == "$absent" {
			return []byte(body)
		}
		return []byte(d.Ver + "\n" + body)
	}
	return []byte(body)
}

// ---------------------------------------------------------------------------
// running the real code

type got struct {
	err    error
	nilval bool // no error and no value
	f      map[string]interface{}
}

func decodeFull(kind string, data []byte) got {
	switch kind {
	case "ppreq":
		sid, typ, nat, clients, pattern, aware, err := messages.DecodeProxyPollRequestWithRelayPrefix(data)
		return got{err: err, f: map[string]interface{}{"sid": sid, "type": typ, "nat": nat, "clients": int64(clients), "pattern": pattern, "aware": aware}}
	case "ppresp":
		offer, nat, relay, err := messages.DecodePollResponseWithRelayURL(data)
		return got{err: err, f: map[string]interface{}{"offer": offer, "nat": nat, "relay": relay}}
	case "pareq":
		answer, sid, err := messages.DecodeAnswerRequest(data)
		return got{err: err, f: map[string]interface{}{"answer": answer, "sid": sid}}
	case "paresp":
		ok, err := messages.DecodeAnswerResponse(data)
		return got{err: err, f: map[string]interface{}{"success": ok}}
	case "cpreq":
		req, err := messages.DecodeClientPollRequest(data)
		if req == nil {
			return got{err: err, nilval: err == nil}
		}
		return got{err: err, f: map[string]interface{}{"offer": req.Offer, "nat": req.NAT, "fp": req.Fingerprint}}
	case "cpresp":
		resp, err := messages.DecodeClientPollResponse(data)
		if resp == nil {
			return got{err: err, nilval: err == nil}
		}
		return got{err: err, f: map[string]interface{}{"answer": resp.Answer, "error": resp.Error}}
	}
	vh.Fatal("unknown kind %q", kind)
	return got{}
}

func decodeLegacy(kind string, data []byte) got {
	switch kind {
	case "ppreq":
		sid, typ, nat, clients, err := messages.DecodeProxyPollRequest(data)
		return got{err: err, f: map[string]interface{}{"sid": sid, "type": typ, "nat": nat, "clients": int64(clients)}}
	case "ppresp":
		offer, nat, err := messages.DecodePollResponse(data)
		return got{err: err, f: map[string]interface{}{"offer": offer, "nat": nat}}
	}
	vh.Fatal("no legacy decoder for %q", kind)
	return got{}
}

func argS(a map[string]interface{}, k string) string {
	s, ok := a[k].(string)
	if !ok {
		vh.Fatal("argument %s missing", k)
	}
	return s
}
func argB(a map[string]interface{}, k string) bool {
	b, ok := a[k].(bool)
	if !ok {
		vh.Fatal("argument %s missing", k)
	}
	return b
}

func (c *conc) encode(kind string, a map[string]interface{}) ([]byte, error) {
	switch kind {
	case "ppreq":
		if argS(a, "api") == "short" {
			return messages.EncodeProxyPollRequest(c.str(argS(a, "sid")), c.str(argS(a, "type")), c.str(argS(a, "nat")), int(c.clients(argS(a, "clients"))))
		}
		return messages.EncodeProxyPollRequestWithRelayPrefix(c.str(argS(a, "sid")), c.str(argS(a, "type")), c.str(argS(a, "nat")), int(c.clients(argS(a, "clients"))), c.str(argS(a, "pattern")))
	case "ppresp":
		if argS(a, "api") == "short" {
			return messages.EncodePollResponse(c.str(argS(a, "offer")), argB(a, "success"), c.str(argS(a, "nat")))
		}
		return messages.EncodePollResponseWithRelayURL(c.str(argS(a, "offer")), argB(a, "success"), c.str(argS(a, "nat")), c.str(argS(a, "relay")), c.str(argS(a, "reason")))
	case "pareq":
		return messages.EncodeAnswerRequest(c.str(argS(a, "answer")), c.str(argS(a, "sid")))
	case "paresp":
		return messages.EncodeAnswerResponse(argB(a, "success"))
	case "cpreq":
		req := &messages.ClientPollRequest{Offer: c.str(argS(a, "offer")), NAT: c.str(argS(a, "nat")), Fingerprint: c.str(argS(a, "fp"))}
		return req.EncodeClientPollRequest()
	case "cpresp":
		resp := &messages.ClientPollResponse{Answer: c.str(argS(a, "answer")), Error: c.str(argS(a, "error"))}
		return resp.EncodePollResponse()
	}
	vh.Fatal("unknown kind %q", kind)
	return nil, nil
}

// ---------------------------------------------------------------------------
// comparing

// matches reports whether the real result g is the allowed outcome o; if not,
// the name of the first field that differs (or "" when the error status
// differs).
func (c *conc) matches(g got, o outcome) (bool, string) {
	switch o["err"] {
	case "any":
		return !g.nilval, ""
	case "error":
		return g.err != nil, ""
	case "reason":
		want := c.str(o["reason"].(string))
		if g.err == nil {
			return false, ""
		}
		return strings.Contains(g.err.Error(), want), "reason"
	case "none":
		if g.err != nil || g.nilval {
			return false, ""
		}
		for k, v := range o {
			if k == "err" {
				continue
			}
			have, ok := g.f[k]
			if !ok {
				vh.Fatal("expected field %q is not observable", k)
			}
			switch want := v.(type) {
			case bool:
				if have != want {
					return false, k
				}
			case string:
				if k == "clients" {
					if have != c.clients(want) {
						return false, k
					}
				} else if have != c.str(want) {
					return false, k
				}
			default:
				vh.Fatal("unexpected expected value %v", v)
			}
		}
		return true, ""
	}
	vh.Fatal("unknown outcome %v", o)
	return false, ""
}

func classOfAllowed(a []outcome) string {
	e, v, any := false, false, false
	for _, o := range a {
		switch o["err"] {
		case "error":
			e = true
		case "any":
			any = true
		default:
			v = true
		}
	}
	switch {
	case any:
		return "any"
	case e && v:
		return "either"
	case e:
		return "error"
	}
	return "value"
}

func classOfGot(g got) string {
	switch {
	case g.nilval:
		return "nil-nil"
	case g.err != nil:
		return "error"
	}
	return "value"
}

func shapeClass(c *mcase) string {
	if c.Mode == "rt" {
		api := ""
		if s, ok := c.Args["api"].(string); ok {
			api = ":" + s
		}
		return "rt" + api
	}
	return c.Shape
}

func short(b []byte) string {
	if len(b) > 300 {
		return fmt.Sprintf("%q... (%d bytes)", b[:300], len(b))
	}
	return fmt.Sprintf("%q", b)
}

func (c *conc) judge(mc *mcase, dec string, g got, allowed []outcome, data []byte, w *vh.Writer) {
	field := ""
	for _, o := range allowed {
		ok, f := c.matches(g, o)
		if ok {
			return
		}
		if f != "" && field == "" {
			field = f
		}
	}
	sig := fmt.Sprintf("%s/%s/%s/want=%s/got=%s", mc.Kind, shapeClass(mc), dec, classOfAllowed(allowed), classOfGot(g))
	if field != "" {
		sig += "/field=" + field
	}
	detail := fmt.Sprintf("decoder %s(%s) on %s returned err=%v fields=%v; the contract allows %v (tokens stand for seeded strings)", mc.Kind, dec, short(data), g.err, g.f, allowed)
	w.Put(vh.Result{Idx: c.idx, Sig: sig, Detail: detail, Case: mc})
}

func runCase(raw json.RawMessage, i int, seed uint64, w *vh.Writer, nontrivial *int64) {
	var mc mcase
	if err := json.Unmarshal(raw, &mc); err != nil {
		vh.Fatal("bad case %d: %v", i, err)
	}
	idx := i
	if mc.Idx != nil {
		idx = *mc.Idx
	}
	c := &conc{seed: seed, idx: idx, memo: map[string]string{}}
	if mc.NT {
		atomic.AddInt64(nontrivial, 1)
	}
	var data []byte
	if mc.Mode == "rt" {
		var err error
		data, err = c.encode(mc.Kind, mc.Args)
		if err != nil {
			w.Put(vh.Result{Idx: idx, Sig: mc.Kind + "/" + shapeClass(&mc) + "/encode-error", Detail: fmt.Sprintf("encoder returned %v", err), Case: mc})
			return
		}
	} else {
		data = c.bytesOf(mc.Kind, mc.Doc)
	}
	c.judge(&mc, "full", decodeFull(mc.Kind, data), mc.Expect.Full, data, w)
	if len(mc.Expect.Legacy) > 0 {
		c.judge(&mc, "legacy", decodeLegacy(mc.Kind, data), mc.Expect.Legacy, data, w)
	}
}

func main() {
	if len(os.Args) < 5 || os.Args[1] != "run" {
		vh.Fatal("usage: msgdrv run <cases.ndjson> <out.ndjson> <seed>")
	}
	cases, err := vh.ReadCases(os.Args[2])
	if err != nil {
		vh.Fatal("%v", err)
	}
	w, err := vh.NewWriter(os.Args[3])
	if err != nil {
		vh.Fatal("%v", err)
	}
	seed, _ := strconv.ParseUint(os.Args[4], 10, 64)
	var nontrivial int64
	vh.RunParallel(len(cases), 0, func(i int) {
		runCase(cases[i], i, seed, w, &nontrivial)
	}, func(i int, v interface{}, stack string) {
		var mc mcase
		json.Unmarshal(cases[i], &mc)
		w.Put(vh.Result{Idx: i, Sig: mc.Kind + "/" + shapeClass(&mc) + "/panic", Detail: fmt.Sprint(v) + "\n" + stack, Case: mc})
	})
	w.Put(map[string]interface{}{"summary": map[string]interface{}{"cases": len(cases), "nontrivial": nontrivial}})
	if err := w.Close(); err != nil {
		vh.Fatal("%v", err)
	}
}
