// sdpdrv binds spec/SdpStrip to the real common/util package (C08).
//
//	sdpdrv desc   <cases.ndjson> <out.ndjson> <seed>
//	    build every description TLC enumerated from a pion-generated template,
//	    run the real util.StripLocalAddresses, compare textually with the
//	    contract's per-candidate fates.
//	sdpdrv table  <table.ndjson> <out.ndjson> <seed>
//	    util.IsLocal on every address of the table (several spellings).
//	sdpdrv raw    <raw.ndjson> <out.ndjson> <seed> <n-random>
//	    text that is not a description: totality only.
//	sdpdrv build  <cases.ndjson> <concrete.ndjson> <seed> <template.json>
//	    write the concrete descriptions {"idx","sdp"} (input of the in-package
//	    executors that call BrokerChannel.Negotiate).
//	sdpdrv judge  <cases.ndjson> <captured.ndjson> <out.ndjson> <seed> <template.json>
//	    apply the same oracle to what an executor captured
//	    {"idx","keeplocal","faults","sents":[every payload],"panic"}.
//	sdpdrv pclist <table.ndjson> <list.ndjson>
//	    the (typ, address text) pairs an executor can put into a real
//	    PeerConnection's local description (IPv4, host and srflx).
//	sdpdrv judgepc <table.ndjson> <captured.ndjson> <out.ndjson>
//	    oracle for what SignalingServer.sendAnswer posted: captured
//	    {"idx","typ","addr","keeplocal","faults","input","sents":[every request],"panic"};
//	    the fate of each candidate line of `input` is looked up in TLC's table.
//
//	sdpdrv observed <lifecycle.ndjson> <Observed.tla>
//	    write the addresses of all candidates in the captured answers as the
//	    TLA+ module Observed (TLC then classifies them: Gen_observed.cfg).
//	sdpdrv judgelife <table.ndjson> <lifecycle.ndjson> <out.ndjson>
//	    life-cycle executor captures {"ev":"answer","plan","life","keep","expect","context","sent"}:
//	    an answer posted in a lifetime that demands "stripped" must contain no
//	    candidate line whose fate in TLC's table is "strip".
//
// The driver only concretises, executes and compares text; which candidate
// must be stripped, kept or is a don't-care comes from TLC.
package main

import (
	"encoding/json"
	"fmt"
	"net"
	"os"
	"strconv"
	"strings"
	"sync/atomic"
	"time"

	"git.torproject.org/pluggable-transports/snowflake.git/v2/common/util"
	"github.com/pion/ice/v2"
	"github.com/pion/webrtc/v3"
	"verifharness/vh"
)

// ---------------------------------------------------------------- abstract cases

type addr struct {
	Fam string `json:"fam"`
	G   []int  `json:"g,omitempty"` // fam "v6g": all eight groups (addresses observed at run time)
	O   []int  `json:"o,omitempty"`
	Hi  int    `json:"hi,omitempty"`
	Mid int    `json:"mid,omitempty"`
	Lo  int    `json:"lo,omitempty"`
}
type cand struct {
	Typ   string `json:"typ"`
	Tr    string `json:"tr,omitempty"`
	Style string `json:"style,omitempty"`
	Addr  *addr  `json:"addr,omitempty"`
	Kind  string `json:"kind,omitempty"`
}
type annCand struct {
	C         cand   `json:"c"`
	Strip     string `json:"strip"`
	KeepLocal string `json:"keeplocal"`
	IsLocal   string `json:"islocal,omitempty"`
	Range     string `json:"range,omitempty"`
}

// abstract class of a candidate for violation signatures: type, address family and named range
func (a *annCand) sigClass() string {
	if a.C.Typ == "malformed" {
		return "malformed:" + a.C.Kind
	}
	return a.C.Typ + "/" + a.C.Addr.Fam + "/" + a.Range
}
type descCase struct {
	Sess  []annCand   `json:"sess"`
	Media [][]annCand `json:"media"`
}

func (a *addr) class() string {
	switch a.Fam {
	case "v4":
		return fmt.Sprintf("v4:%d.%d.%d.%d", a.O[0], a.O[1], a.O[2], a.O[3])
	case "m4":
		return fmt.Sprintf("m4:%d.%d.%d.%d", a.O[0], a.O[1], a.O[2], a.O[3])
	}
	if a.Fam == "v6g" {
		return "v6:" + a.ip().String()
	}
	return fmt.Sprintf("v6:%x:%x..%x", a.Hi, a.Mid, a.Lo)
}

func (c *cand) class() string {
	if c.Typ == "malformed" {
		return "malformed:" + c.Kind
	}
	return c.Typ + "," + c.Tr + "," + c.Style + "/" + c.Addr.class()
}

func (a *addr) ip() net.IP {
	switch a.Fam {
	case "v4", "m4":
		return net.IPv4(byte(a.O[0]), byte(a.O[1]), byte(a.O[2]), byte(a.O[3]))
	}
	ip := make(net.IP, 16)
	g := []int{a.Hi, a.Mid, a.Mid, a.Mid, a.Mid, a.Mid, a.Mid, a.Lo}
	if a.Fam == "v6g" {
		g = a.G
	}
	for i, v := range g {
		ip[2*i], ip[2*i+1] = byte(v>>8), byte(v)
	}
	return ip
}

// spellings of an address that net.ParseIP accepts; variant 0 is canonical
func (a *addr) spellings() []string {
	switch a.Fam {
	case "v4":
		return []string{fmt.Sprintf("%d.%d.%d.%d", a.O[0], a.O[1], a.O[2], a.O[3])}
	case "m4":
		q := fmt.Sprintf("%d.%d.%d.%d", a.O[0], a.O[1], a.O[2], a.O[3])
		hx := fmt.Sprintf("%x:%x", a.O[0]<<8|a.O[1], a.O[2]<<8|a.O[3])
		return []string{"::ffff:" + q, "::FFFF:" + q, "0:0:0:0:0:ffff:" + q, "::ffff:" + hx, "0000:0000:0000:0000:0000:FFFF:" + strings.ToUpper(hx)}
	}
	ip := a.ip()
	full := make([]string, 8)
	fullz := make([]string, 8)
	for i := 0; i < 8; i++ {
		full[i] = fmt.Sprintf("%x", int(ip[2*i])<<8|int(ip[2*i+1]))
		fullz[i] = fmt.Sprintf("%04X", int(ip[2*i])<<8|int(ip[2*i+1]))
	}
	return []string{ip.String(), strings.ToUpper(ip.String()), strings.Join(full, ":"), strings.Join(fullz, ":")}
}

// ---------------------------------------------------------------- template

type template struct {
	Session []string   `json:"session"` // lines before the first m=
	Media   [][]string `json:"media"`   // one block of lines per media section, own candidates removed
}

// The template differs from process to process (pion draws fresh ICE
// credentials and fingerprints), so `build` saves it for `judge`.
func saveTpl(path string) {
	b, _ := json.Marshal(tpl)
	if err := os.WriteFile(path, b, 0o644); err != nil {
		vh.Fatal("%v", err)
	}
}
func loadTpl(path string) {
	b, err := os.ReadFile(path)
	if err != nil {
		vh.Fatal("%v", err)
	}
	if err := json.Unmarshal(b, &tpl); err != nil || tpl[1] == nil || tpl[2] == nil {
		vh.Fatal("bad template file %s: %v", path, err)
	}
}

func makeTemplate(sections int) *template {
	pc, err := webrtc.NewPeerConnection(webrtc.Configuration{})
	if err != nil {
		vh.Fatal("NewPeerConnection: %v", err)
	}
	defer pc.Close()
	if sections == 2 {
		if _, err := pc.AddTransceiverFromKind(webrtc.RTPCodecTypeAudio); err != nil {
			vh.Fatal("AddTransceiverFromKind: %v", err)
		}
	}
	if _, err := pc.CreateDataChannel("data", nil); err != nil {
		vh.Fatal("CreateDataChannel: %v", err)
	}
	o, err := pc.CreateOffer(nil)
	if err != nil {
		vh.Fatal("CreateOffer: %v", err)
	}
	done := webrtc.GatheringCompletePromise(pc)
	if err := pc.SetLocalDescription(o); err != nil {
		vh.Fatal("SetLocalDescription: %v", err)
	}
	select {
	case <-done:
	case <-time.After(30 * time.Second):
		vh.Fatal("ICE gathering for the template did not complete")
	}
	sdp := pc.LocalDescription().SDP
	if !strings.HasSuffix(sdp, "\r\n") || strings.Contains(strings.ReplaceAll(sdp, "\r\n", ""), "\n") {
		vh.Fatal("pion template is not CRLF-terminated text: %q", sdp)
	}
	lines := strings.Split(strings.TrimSuffix(sdp, "\r\n"), "\r\n")
	t := &template{}
	cur := &t.Session
	for _, l := range lines {
		if strings.HasPrefix(l, "m=") {
			t.Media = append(t.Media, nil)
			cur = &t.Media[len(t.Media)-1]
		}
		if strings.HasPrefix(l, "a=candidate:") {
			continue
		}
		*cur = append(*cur, l)
	}
	if len(t.Media) != sections {
		vh.Fatal("template has %d media sections, wanted %d", len(t.Media), sections)
	}
	return t
}

// ---------------------------------------------------------------- concretisation

type line struct {
	text  string
	cand  *annCand // nil for template lines
	level string
}

type built struct {
	text  string
	lines []line
}

func candValue(c *cand, uniq int, rng *vh.Rng) string {
	f := strconv.Itoa(1000000 + uniq) // foundation: makes every line distinct
	port := strconv.Itoa(1024 + uniq%60000)
	if c.Typ == "malformed" {
		switch c.Kind {
		case "no-colon":
			return "\x00" // marker: attribute without colon
		case "one-token":
			return "garbage" + f
		case "seven-tokens":
			return f + " 1 udp 2130706431 10.0.0.1 " + port + " typ"
		case "port-not-a-number":
			return f + " 1 udp 2130706431 10.0.0.1 notaport typ host"
		case "port-out-of-range":
			return f + " 1 udp 2130706431 10.0.0.1 70000 typ host"
		case "priority-not-a-number":
			return f + " 1 udp x 10.0.0.1 " + port + " typ host"
		case "component-not-a-number":
			return f + " x udp 2130706431 10.0.0.1 " + port + " typ host"
		case "unknown-typ":
			return f + " 1 udp 2130706431 10.0.0.1 " + port + " typ bogus"
		case "unknown-transport":
			return f + " 1 sctp 2130706431 10.0.0.1 " + port + " typ host"
		case "address-hostname":
			return f + " 1 udp 2130706431 printer.example.com " + port + " typ host"
		case "address-mdns-name":
			return f + " 1 udp 2130706431 3f1b8a0e-" + f + ".local " + port + " typ host"
		case "address-leading-zero":
			return f + " 1 udp 2130706431 010.000.000.001 " + port + " typ host"
		case "very-long":
			return f + " 1 udp 2130706431 10.0.0.1 " + port + " typ host " + strings.Repeat("x", 20000)
		}
		vh.Fatal("unknown malformed kind %q", c.Kind)
	}
	sp := c.Addr.spellings()
	a := sp[rng.Intn(len(sp))]
	// spellings that pion's UnmarshalCandidate accepts as a host candidate (spec: LenientStyles)
	prio := strconv.Itoa(2130706431 - uniq)
	std := []string{f, "1", "udp", prio, a, port, "typ", "host"}
	switch {
	case c.Typ == "host" && c.Style == "no-foundation":
		return " " + strings.Join(std[1:], " ")
	case c.Typ == "host" && c.Style == "keyword-type":
		std[6] = "type"
		return strings.Join(std, " ")
	case c.Typ == "host" && c.Style == "keyword-upper":
		std[6] = "TYP"
		return strings.Join(std, " ")
	case c.Typ == "host" && c.Style == "tabs":
		return strings.Join(std, "\t")
	case c.Typ == "host" && c.Style == "multispace":
		return strings.Join(std, []string{"  ", "   ", " \t "}[rng.Intn(3)])
	case c.Typ == "host" && c.Style == "trailing-blank":
		return strings.Join(std, " ") + []string{" ", "   ", "\t"}[rng.Intn(3)]
	case c.Typ == "host" && c.Style == "host-raddr":
		return strings.Join(std, " ") + " raddr 192.0.2.9 rport 4000"
	case c.Typ == "host" && c.Style == "port-zero":
		std[1], std[5] = "2", "0"
		return strings.Join(std, " ")
	case c.Typ == "host" && c.Style == "tcp-passive":
		return f + " 1 tcp 1671430143 " + a + " " + port + " typ host tcptype passive"
	case c.Typ == "host" && c.Style == "tcp-unknown":
		return f + " 1 tcp 1671430143 " + a + " " + port + " typ host tcptype whatever"
	case c.Typ == "host" && c.Tr == "tcp":
		return f + " 1 tcp 1671430143 " + a + " 9 typ host tcptype active"
	case c.Typ == "host" && c.Style == "chrome":
		return f + " 1 udp 2122260223 " + a + " " + port + " typ host generation 0 ufrag AbCd network-id 1 network-cost 10"
	case c.Typ == "host" && c.Style == "upper":
		return f + " 1 UDP 2130706431 " + a + " " + port + " typ host"
	case c.Typ == "host":
		return f + " 1 udp 2130706431 " + a + " " + port + " typ host"
	case c.Typ == "srflx":
		return f + " 1 udp 1694498815 " + a + " " + port + " typ srflx raddr 0.0.0.0 rport " + port
	case c.Typ == "prflx":
		return f + " 1 udp 1862270975 " + a + " " + port + " typ prflx raddr 192.0.2.9 rport 4000"
	case c.Typ == "relay":
		return f + " 1 udp 16777215 " + a + " " + port + " typ relay raddr 192.0.2.9 rport 4000"
	}
	vh.Fatal("cannot concretise candidate %+v", c)
	return ""
}

func candLine(ac *annCand, uniq int, rng *vh.Rng) string {
	v := candValue(&ac.C, uniq, rng)
	if v == "\x00" {
		return "a=candidate"
	}
	return "a=candidate:" + v
}

var tpl [3]*template // index = number of media sections (0 uses the session part of tpl[1])

func build(c *descCase, seed uint64, idx int) *built {
	rng := vh.NewRng(seed*1000003 + uint64(idx))
	b := &built{}
	uniq := 0
	n := len(c.Media)
	t := tpl[1]
	if n == 2 {
		t = tpl[2]
	} else if n > 2 {
		vh.Fatal("case %d: %d media sections", idx, n)
	}
	for _, l := range t.Session {
		b.lines = append(b.lines, line{text: l})
	}
	for i := range c.Sess {
		uniq++
		b.lines = append(b.lines, line{text: candLine(&c.Sess[i], uniq, rng), cand: &c.Sess[i], level: "session"})
	}
	for m := 0; m < n; m++ {
		blk := t.Media[m]
		// insertion point: any position among the attribute lines (after m= and c=);
		// mostly where pion puts candidates (before a=end-of-candidates / at the end)
		first := 1
		for first < len(blk) && !strings.HasPrefix(blk[first], "a=") {
			first++
		}
		at := len(blk)
		for i, l := range blk {
			if l == "a=end-of-candidates" {
				at = i
			}
		}
		if rng.Intn(3) == 0 {
			at = first + rng.Intn(len(blk)-first+1)
		}
		for i, l := range blk {
			if i == at {
				for k := range c.Media[m] {
					uniq++
					b.lines = append(b.lines, line{text: candLine(&c.Media[m][k], uniq, rng), cand: &c.Media[m][k], level: "media"})
				}
			}
			b.lines = append(b.lines, line{text: l})
		}
		if at == len(blk) {
			for k := range c.Media[m] {
				uniq++
				b.lines = append(b.lines, line{text: candLine(&c.Media[m][k], uniq, rng), cand: &c.Media[m][k], level: "media"})
			}
		}
	}
	var sb strings.Builder
	for _, l := range b.lines {
		sb.WriteString(l.text)
		sb.WriteString("\r\n")
	}
	b.text = sb.String()
	return b
}

// ---------------------------------------------------------------- oracle

func fateOf(l *line, keepLocal bool) string {
	if l.cand == nil {
		return "keep"
	}
	if keepLocal {
		return l.cand.KeepLocal
	}
	return l.cand.Strip
}

// conforms compares `out` with the input lines under the contract's fates.
// Returns "" or (signature, detail).
func conforms(lines []line, keepLocal bool, out string) (string, string) {
	kl := fmt.Sprintf("keeplocal=%v", keepLocal)
	// a candidate that must be stripped survives anywhere in the output
	for i := range lines {
		l := &lines[i]
		if fateOf(l, keepLocal) == "strip" && strings.Contains(out, l.text+"\r\n") {
			return "survivor/" + l.cand.sigClass() + "/" + kl, fmt.Sprintf("candidate line %q (%s) must be stripped but is still in the description", l.text, l.cand.C.class())
		}
	}
	if !strings.HasSuffix(out, "\r\n") && out != "" {
		return "altered/line-ends/" + kl, fmt.Sprintf("output does not end with CRLF: ...%q", tail(out, 60))
	}
	ol := strings.Split(strings.TrimSuffix(out, "\r\n"), "\r\n")
	if out == "" {
		ol = nil
	}
	j := 0
	for i := range lines {
		l := &lines[i]
		switch fateOf(l, keepLocal) {
		case "keep":
			if j < len(ol) && ol[j] == l.text {
				j++
				continue
			}
			got := "<end of description>"
			if j < len(ol) {
				got = ol[j]
			}
			if l.cand != nil {
				return "lost/" + l.cand.sigClass() + "/" + kl, fmt.Sprintf("candidate line %q (%s) must be preserved; at its place the output has %q", l.text, l.cand.C.class(), clip(got))
			}
			return "altered/" + lineType(l.text) + "/" + kl, fmt.Sprintf("line %q must be preserved; at its place the output has %q", clip(l.text), clip(got))
		case "strip":
			// absent (checked above)
		case "any":
			if j < len(ol) && ol[j] == l.text {
				j++
			}
		default:
			vh.Fatal("unknown fate %q", fateOf(l, keepLocal))
		}
	}
	if j != len(ol) {
		return "altered/extra-lines/" + kl, fmt.Sprintf("output has %d lines that are not in the input, first %q", len(ol)-j, clip(ol[j]))
	}
	return "", ""
}

func lineType(l string) string {
	if len(l) >= 2 && l[1] == '=' {
		if l[0] == 'a' {
			k := l[2:]
			if i := strings.IndexAny(k, ": "); i >= 0 {
				k = k[:i]
			}
			return "a=" + k
		}
		return l[:2]
	}
	return "other"
}

func clip(s string) string {
	if len(s) > 160 {
		return s[:160] + "..."
	}
	return s
}
func tail(s string, n int) string {
	if len(s) > n {
		return s[len(s)-n:]
	}
	return s
}

func nontrivial(c *descCase) bool {
	for _, m := range c.Media {
		for _, a := range m {
			if a.Strip != "keep" || a.C.Typ != "host" {
				return true
			}
		}
	}
	return len(c.Sess) > 0
}

func stripSafely(s string) (out string, panicked interface{}) {
	defer func() {
		if v := recover(); v != nil {
			panicked = v
		}
	}()
	return util.StripLocalAddresses(s), nil
}

// ---------------------------------------------------------------- modes

func readDesc(raw json.RawMessage, idx int) *descCase {
	c := &descCase{}
	if err := json.Unmarshal(raw, c); err != nil {
		vh.Fatal("bad case %d: %v", idx, err)
	}
	return c
}

func modeDesc(cases []json.RawMessage, w *vh.Writer, seed uint64) {
	var nt int64
	vh.RunParallel(len(cases), 0, func(i int) {
		c := readDesc(cases[i], i)
		if nontrivial(c) {
			atomic.AddInt64(&nt, 1)
		}
		b := build(c, seed, i)
		out, p := stripSafely(b.text)
		if p != nil {
			w.Put(vh.Result{Idx: i, Sig: "panic/description", Detail: fmt.Sprint(p), Case: c})
			return
		}
		if sig, detail := conforms(b.lines, false, out); sig != "" {
			w.Put(vh.Result{Idx: i, Sig: "strip/" + sig, Detail: detail, Case: c})
		}
	}, func(i int, v interface{}, stack string) {
		w.Put(vh.Result{Idx: i, Sig: "panic/driver", Detail: fmt.Sprint(v) + "\n" + stack})
	})
	w.Put(map[string]interface{}{"summary": map[string]interface{}{"cases": len(cases), "nontrivial": nt}})
}

func modeTable(cases []json.RawMessage, w *vh.Writer) {
	n, nt := 0, 0
	seen := map[string]bool{}
	for i, raw := range cases {
		var a annCand
		if err := json.Unmarshal(raw, &a); err != nil {
			vh.Fatal("bad table row %d: %v", i, err)
		}
		if a.C.Addr == nil || seen[a.C.Addr.class()] {
			continue
		}
		seen[a.C.Addr.class()] = true
		for _, s := range a.C.Addr.spellings() {
			ip := net.ParseIP(s)
			if ip == nil {
				vh.Fatal("spelling %q of %s does not parse", s, a.C.Addr.class())
			}
			forms := []net.IP{ip}
			if ip4 := ip.To4(); ip4 != nil {
				forms = append(forms, ip4)
			}
			for _, f := range forms {
				n++
				if a.IsLocal == "any" {
					continue
				}
				nt++
				func() {
					defer func() {
						if v := recover(); v != nil {
							w.Put(vh.Result{Idx: i, Sig: "panic/IsLocal/" + a.C.Addr.Fam + "/" + a.Range, Detail: fmt.Sprintf("util.IsLocal(%s): %v", s, v)})
						}
					}()
					got := util.IsLocal(f)
					if got != (a.IsLocal == "true") {
						w.Put(vh.Result{Idx: i, Sig: "islocal/" + a.C.Addr.Fam + "/" + a.Range + "/expected=" + a.IsLocal,
							Detail: fmt.Sprintf("util.IsLocal(%s) [%d-byte form] = %v, the RFC ranges say %s", s, len(f), got, a.IsLocal), Case: a})
					}
				}()
			}
		}
	}
	// a nil / odd-length net.IP must not panic either
	for _, f := range []net.IP{nil, {}, {10}, {10, 0, 0}, make(net.IP, 5), make(net.IP, 17)} {
		n++
		func() {
			defer func() {
				if v := recover(); v != nil {
					w.Put(vh.Result{Idx: -1, Sig: "panic/IsLocal/odd-length", Detail: fmt.Sprintf("util.IsLocal(%v): %v", []byte(f), v)})
				}
			}()
			util.IsLocal(f)
		}()
	}
	w.Put(map[string]interface{}{"summary": map[string]interface{}{"cases": n, "nontrivial": nt, "addresses": len(seen)}})
}

func rawTexts(class string, valid string, rng *vh.Rng, nrand int) []string {
	lines := strings.Split(strings.TrimSuffix(valid, "\r\n"), "\r\n")
	switch class {
	case "empty":
		return []string{""}
	case "one-word":
		return []string{"garbage", "v", "=", "v=", "=0", "\r\n", "\n", " "}
	case "json":
		return []string{`{"type":"offer","sdp":"v=0\r\n"}`, `[]`, `null`}
	case "binary":
		b := make([]byte, 4096)
		vh.Fill(b, rng.Uint64(), 0)
		return []string{string(b), string(b[:1]), string(b[:17])}
	case "nul-bytes":
		return []string{"\x00", strings.Repeat("\x00", 1000), strings.Replace(valid, "a=", "a\x00=", 3), strings.Replace(valid, "\r\n", "\x00\r\n", 2)}
	case "only-version-line":
		return []string{"v=0\r\n", "v=0", "v=1\r\n", "v=\r\n"}
	case "lf-line-ends":
		return []string{strings.ReplaceAll(valid, "\r\n", "\n")}
	case "cr-line-ends":
		return []string{strings.ReplaceAll(valid, "\r\n", "\r")}
	case "no-final-newline":
		return []string{strings.TrimSuffix(valid, "\r\n"), strings.TrimSuffix(valid, "\n")}
	case "truncated-mid-line":
		var out []string
		for k := 0; k < 40; k++ {
			out = append(out, valid[:rng.Intn(len(valid))])
		}
		return out
	case "truncated-after-origin":
		return []string{strings.Join(lines[:2], "\r\n") + "\r\n", strings.Join(lines[:1], "\r\n") + "\r\n", strings.Join(lines[:3], "\r\n") + "\r\n"}
	case "media-before-session":
		var m, s []string
		inM := false
		for _, l := range lines {
			if strings.HasPrefix(l, "m=") {
				inM = true
			}
			if inM {
				m = append(m, l)
			} else {
				s = append(s, l)
			}
		}
		return []string{strings.Join(append(m, s...), "\r\n") + "\r\n", strings.Join(m, "\r\n") + "\r\n"}
	case "duplicate-version":
		return []string{"v=0\r\n" + valid, "v=0\r\nv=0\r\n"}
	case "unknown-line-type":
		return []string{strings.Replace(valid, "s=-\r\n", "s=-\r\nq=what\r\n", 1), strings.Replace(valid, "t=0 0\r\n", "t=0 0\r\n?=x\r\n", 1), valid + "x=y\r\n"}
	case "line-without-equals":
		return []string{strings.Replace(valid, "s=-\r\n", "s=-\r\nnoequalsign\r\n", 1), valid + "candidate:1 1 udp 1 10.0.0.1 1 typ host\r\n", strings.Replace(valid, "a=end-of-candidates", "end-of-candidates", 1)}
	case "very-long-line":
		return []string{strings.Replace(valid, "s=-", "s="+strings.Repeat("A", 1<<20), 1), "a=" + strings.Repeat("b", 1<<20), valid + "a=candidate:" + strings.Repeat("1 ", 100000) + "\r\n"}
	case "many-media-sections":
		var m []string
		for _, l := range lines {
			if strings.HasPrefix(l, "m=") || len(m) > 0 {
				m = append(m, l)
			}
		}
		return []string{valid + strings.Repeat(strings.Join(m, "\r\n")+"\r\n", 200)}
	case "candidate-only":
		return []string{"a=candidate:1 1 udp 2130706431 10.0.0.1 5000 typ host\r\n", "candidate:1 1 udp 2130706431 10.0.0.1 5000 typ host", "m=application 9 UDP/DTLS/SCTP webrtc-datachannel\r\na=candidate:1 1 udp 2130706431 10.0.0.1 5000 typ host\r\n"}
	case "blank-lines":
		return []string{strings.ReplaceAll(valid, "\r\n", "\r\n\r\n"), "\r\n\r\n" + valid, valid + "\r\n\r\n"}
	case "empty-candidate-value":
		return []string{strings.Replace(valid, "a=end-of-candidates", "a=candidate:\r\na=end-of-candidates", 1), strings.Replace(valid, "a=end-of-candidates", "a=candidate: \r\na=end-of-candidates", 1)}
	case "utf8":
		return []string{strings.Replace(valid, "s=-", "s=süßé 日本", 1), "v=0\r\no=\xff\xfe\r\n", strings.Replace(valid, "a=mid:0", "a=mid:\xc3\x28", 1)}
	case "random-corruption":
		var out []string
		for k := 0; k < nrand; k++ {
			b := []byte(valid)
			switch rng.Intn(6) {
			case 0: // flip bytes
				for f := 0; f <= rng.Intn(4); f++ {
					b[rng.Intn(len(b))] = byte(rng.Uint64())
				}
			case 1: // delete a range
				i := rng.Intn(len(b))
				j := i + rng.Intn(len(b)-i)
				b = append(b[:i:i], b[j:]...)
			case 2: // delete a line
				ls := append([]string(nil), lines...)
				i := rng.Intn(len(ls))
				ls = append(ls[:i], ls[i+1:]...)
				b = []byte(strings.Join(ls, "\r\n") + "\r\n")
			case 3: // duplicate a line somewhere else
				ls := append([]string(nil), lines...)
				i, j := rng.Intn(len(ls)), rng.Intn(len(ls))
				ls = append(ls[:j], append([]string{lines[i]}, ls[j:]...)...)
				b = []byte(strings.Join(ls, "\r\n") + "\r\n")
			case 4: // swap two lines
				ls := append([]string(nil), lines...)
				i, j := rng.Intn(len(ls)), rng.Intn(len(ls))
				ls[i], ls[j] = ls[j], ls[i]
				b = []byte(strings.Join(ls, "\r\n") + "\r\n")
			case 5: // insert a random short string
				i := rng.Intn(len(b))
				ins := []string{"=", "\r\n", "\n", ":", " ", "a=candidate:", "m=", "\x00", "typ host", "::", "0"}[rng.Intn(11)]
				b = append(b[:i:i], append([]byte(ins), b[i:]...)...)
			}
			out = append(out, string(b))
		}
		return out
	}
	vh.Fatal("unknown raw class %q", class)
	return nil
}

func modeRaw(cases []json.RawMessage, w *vh.Writer, seed uint64, nrand int) {
	// a valid description with local and public candidates of every type as the base text
	base := &descCase{Media: [][]annCand{{
		{C: cand{Typ: "host", Tr: "udp", Style: "pion", Addr: &addr{Fam: "v4", O: []int{192, 168, 1, 7}}}, Strip: "strip", KeepLocal: "any"},
		{C: cand{Typ: "host", Tr: "udp", Style: "pion", Addr: &addr{Fam: "v4", O: []int{203, 0, 113, 5}}}, Strip: "keep", KeepLocal: "keep"},
		{C: cand{Typ: "srflx", Tr: "udp", Style: "pion", Addr: &addr{Fam: "v4", O: []int{10, 0, 0, 1}}}, Strip: "keep", KeepLocal: "keep"},
		{C: cand{Typ: "host", Tr: "udp", Style: "pion", Addr: &addr{Fam: "v6", Hi: 0xfd00, Lo: 2}}, Strip: "strip", KeepLocal: "any"},
	}}}
	valid := build(base, seed, 0).text
	type job struct {
		class string
		text  string
	}
	var jobs []job
	for i, raw := range cases {
		var r struct {
			Raw    string `json:"raw"`
			Expect string `json:"expect"`
		}
		if err := json.Unmarshal(raw, &r); err != nil || r.Expect != "total" {
			vh.Fatal("bad raw case %d: %v %q", i, err, r.Expect)
		}
		rng := vh.NewRng(seed*7919 + uint64(i))
		for _, t := range rawTexts(r.Raw, valid, rng, nrand) {
			jobs = append(jobs, job{r.Raw, t})
		}
	}
	vh.RunParallel(len(jobs), 0, func(i int) {
		done := make(chan interface{}, 1)
		go func() {
			_, p := stripSafely(jobs[i].text)
			done <- p
		}()
		select {
		case p := <-done:
			if p != nil {
				w.Put(vh.Result{Idx: i, Sig: "panic/non-sdp/" + jobs[i].class, Detail: fmt.Sprintf("util.StripLocalAddresses panicked: %v", p),
					Case: map[string]interface{}{"raw": jobs[i].class, "text": clipN(jobs[i].text, 4000)}})
			}
		case <-time.After(60 * time.Second):
			w.Put(vh.Result{Idx: i, Sig: "hang/non-sdp/" + jobs[i].class, Detail: "util.StripLocalAddresses did not return within 60 s",
				Case: map[string]interface{}{"raw": jobs[i].class, "text": clipN(jobs[i].text, 4000)}})
		}
	}, func(i int, v interface{}, stack string) {
		w.Put(vh.Result{Idx: i, Sig: "panic/driver", Detail: fmt.Sprint(v) + "\n" + stack})
	})
	w.Put(map[string]interface{}{"summary": map[string]interface{}{"cases": len(jobs), "nontrivial": len(jobs), "classes": len(cases)}})
}

func clipN(s string, n int) string {
	if len(s) > n {
		return s[:n]
	}
	return s
}

func modeBuild(cases []json.RawMessage, w *vh.Writer, seed uint64) {
	for i := range cases {
		c := readDesc(cases[i], i)
		w.Put(map[string]interface{}{"idx": i, "sdp": build(c, seed, i).text})
	}
}

type captured struct {
	Idx       int      `json:"idx"`
	KeepLocal bool     `json:"keeplocal"`
	Faults    []string `json:"faults"`    // environment script of the call-site machine
	Sents     []string `json:"sents"`     // the description inside EVERY payload handed to the transport, in order
	Undecoded int      `json:"undecoded"` // payloads the executor could not decode
	Panic     string   `json:"panic,omitempty"`
	Skip      string   `json:"skip,omitempty"`
	// judgepc only
	Typ   string `json:"typ,omitempty"`
	Addr  string `json:"addr,omitempty"`
	Input string `json:"input,omitempty"`
}

func attemptClass(a int) string {
	if a == 0 {
		return "attempt=first"
	}
	return "attempt=retry"
}

func modeJudge(cases []json.RawMessage, caps []json.RawMessage, w *vh.Writer, seed uint64) {
	var nt, payloads, retried int64
	vh.RunParallel(len(caps), 0, func(k int) {
		var cp captured
		if err := json.Unmarshal(caps[k], &cp); err != nil {
			vh.Fatal("bad capture %d: %v", k, err)
		}
		if cp.Idx < 0 || cp.Idx >= len(cases) {
			vh.Fatal("capture %d refers to case %d", k, cp.Idx)
		}
		c := readDesc(cases[cp.Idx], cp.Idx)
		kl := fmt.Sprintf("keeplocal=%v", cp.KeepLocal)
		if cp.Panic != "" {
			w.Put(vh.Result{Idx: cp.Idx, Sig: "negotiate/panic/" + kl, Detail: cp.Panic, Case: c})
			return
		}
		if len(cp.Sents) == 0 || cp.Undecoded > 0 {
			w.Put(vh.Result{Idx: cp.Idx, Sig: "diverge/negotiate/nothing-decodable-sent/" + kl, Detail: fmt.Sprintf("Negotiate handed %d decodable and %d undecodable payloads to the rendezvous method", len(cp.Sents), cp.Undecoded), Case: c})
			return
		}
		if nontrivial(c) {
			atomic.AddInt64(&nt, 1)
		}
		atomic.AddInt64(&payloads, int64(len(cp.Sents)))
		if len(cp.Sents) > 1 {
			atomic.AddInt64(&retried, 1)
		}
		b := build(c, seed, cp.Idx)
		for a, sent := range cp.Sents {
			if sig, detail := conforms(b.lines, cp.KeepLocal, sent); sig != "" {
				w.Put(vh.Result{Idx: cp.Idx, Sig: "negotiate/" + sig + "/" + attemptClass(a), Detail: fmt.Sprintf("payload %d of %d handed to the rendezvous method by BrokerChannel.Negotiate (environment script %v): %s", a+1, len(cp.Sents), cp.Faults, detail),
					Case: map[string]interface{}{"desc": c, "faults": cp.Faults, "keeplocal": cp.KeepLocal}})
				return
			}
		}
	}, func(i int, v interface{}, stack string) {
		w.Put(vh.Result{Idx: i, Sig: "panic/driver", Detail: fmt.Sprint(v) + "\n" + stack})
	})
	w.Put(map[string]interface{}{"summary": map[string]interface{}{"cases": len(caps), "nontrivial": nt, "payloads": payloads, "calls_with_retry": retried}})
}

func tableKey(typ, tr string, ip net.IP, text string) string {
	fam := "v6"
	if ip.To4() != nil {
		fam = "v4"
		if strings.Contains(text, ":") {
			fam = "m4"
		}
	}
	return typ + "/" + tr + "/" + fam + "/" + ip.String()
}

func loadTable(rows []json.RawMessage) map[string]*annCand {
	t := map[string]*annCand{}
	for i, raw := range rows {
		a := &annCand{}
		if err := json.Unmarshal(raw, a); err != nil {
			vh.Fatal("bad table row %d: %v", i, err)
		}
		if a.C.Addr == nil || a.C.Style != "pion" {
			continue
		}
		t[tableKey(a.C.Typ, a.C.Tr, a.C.Addr.ip(), a.C.Addr.spellings()[0])] = a
	}
	return t
}

func modePCList(rows []json.RawMessage, w *vh.Writer) {
	seen := map[string]bool{}
	for i, raw := range rows {
		var a annCand
		if err := json.Unmarshal(raw, &a); err != nil {
			vh.Fatal("bad table row %d: %v", i, err)
		}
		if a.C.Addr == nil || a.C.Addr.Fam != "v4" || a.C.Style != "pion" || a.C.Tr != "udp" || (a.C.Typ != "host" && a.C.Typ != "srflx") {
			continue
		}
		s := a.C.Addr.spellings()[0]
		if seen[a.C.Typ+s] {
			continue
		}
		seen[a.C.Typ+s] = true
		w.Put(map[string]interface{}{"typ": a.C.Typ, "addr": s})
	}
}

func modeJudgePC(rows []json.RawMessage, caps []json.RawMessage, w *vh.Writer) {
	table := loadTable(rows)
	nt, hit, skipped, payloads, retried := 0, 0, 0, 0, 0
	skipWhy := ""
	for k, raw := range caps {
		var cp captured
		if err := json.Unmarshal(raw, &cp); err != nil {
			vh.Fatal("bad capture %d: %v", k, err)
		}
		kl := fmt.Sprintf("keeplocal=%v", cp.KeepLocal)
		cs := map[string]interface{}{"typ": cp.Typ, "addr": cp.Addr, "keeplocal": cp.KeepLocal, "faults": cp.Faults}
		if cp.Panic != "" {
			w.Put(vh.Result{Idx: cp.Idx, Sig: "sendanswer/panic/" + kl, Detail: cp.Panic, Case: cs})
			continue
		}
		if cp.Skip != "" {
			// the PeerConnection could not be made (e.g. pion refuses the address): nothing was exercised
			skipped++
			skipWhy = cp.Typ + " " + cp.Addr + ": " + cp.Skip
			continue
		}
		if len(cp.Sents) == 0 || cp.Undecoded > 0 {
			w.Put(vh.Result{Idx: cp.Idx, Sig: "diverge/sendanswer/nothing-decodable-sent/" + kl, Detail: fmt.Sprintf("sendAnswer handed %d decodable and %d undecodable answer requests to the transport", len(cp.Sents), cp.Undecoded), Case: cs})
			continue
		}
		if !strings.HasSuffix(cp.Input, "\r\n") {
			vh.Fatal("capture %d: local description is not CRLF text", k)
		}
		var lines []line
		target := false
		for _, l := range strings.Split(strings.TrimSuffix(cp.Input, "\r\n"), "\r\n") {
			ln := line{text: l}
			if strings.HasPrefix(l, "a=candidate:") {
				// fate by table lookup; a candidate the table does not know is a don't-care
				ac := &annCand{C: cand{Typ: "malformed", Kind: "not-in-table"}, Strip: "any", KeepLocal: "any"}
				if c, err := ice.UnmarshalCandidate(strings.TrimPrefix(l, "a=candidate:")); err == nil {
					if ip := net.ParseIP(c.Address()); ip != nil {
						tr := "udp"
						if strings.HasPrefix(c.NetworkType().String(), "tcp") {
							tr = "tcp"
						}
						if row := table[tableKey(c.Type().String(), tr, ip, c.Address())]; row != nil {
							ac = row
							if c.Type().String() == cp.Typ && c.Address() == cp.Addr {
								target = true
							}
						}
					}
				}
				ln.cand, ln.level = ac, "media"
			}
			lines = append(lines, ln)
		}
		if !target {
			skipped++
			skipWhy = fmt.Sprintf("the PeerConnection's local description has no %s candidate with address %s", cp.Typ, cp.Addr)
			continue
		}
		hit++
		nt++
		payloads += len(cp.Sents)
		if len(cp.Sents) > 1 {
			retried++
		}
		for a, sent := range cp.Sents {
			if sig, detail := conforms(lines, cp.KeepLocal, sent); sig != "" {
				w.Put(vh.Result{Idx: cp.Idx, Sig: "sendanswer/" + sig + "/" + attemptClass(a),
					Detail: fmt.Sprintf("request %d of %d handed to the transport by SignalingServer.sendAnswer (environment script %v): %s", a+1, len(cp.Sents), cp.Faults, detail), Case: cs})
				break
			}
		}
	}
	w.Put(map[string]interface{}{"summary": map[string]interface{}{"cases": len(caps), "nontrivial": nt, "with_target_candidate": hit, "skipped": skipped, "skip_example": skipWhy,
		"payloads": payloads, "calls_with_retry": retried}})
}

type lifeEvent struct {
	Ev          string `json:"ev"`
	Plan        int    `json:"plan"`
	Life        int    `json:"life"`
	Keep        bool   `json:"keep"`
	URL         string `json:"url"`
	Expect      string `json:"expect"`
	Context     string `json:"context"`
	Sent        string `json:"sent"`
	Undecodable bool   `json:"undecodable"`
}

type seenCand struct {
	typ, tr, text string
	ip            net.IP
	line          string
}

func candidatesOf(sdp string) []seenCand {
	var out []seenCand
	for _, l := range strings.Split(strings.ReplaceAll(sdp, "\r\n", "\n"), "\n") {
		if !strings.HasPrefix(l, "a=candidate:") {
			continue
		}
		c, err := ice.UnmarshalCandidate(strings.TrimPrefix(l, "a=candidate:"))
		if err != nil {
			continue
		}
		ip := net.ParseIP(c.Address())
		if ip == nil {
			continue
		}
		tr := "udp"
		if strings.HasPrefix(c.NetworkType().String(), "tcp") {
			tr = "tcp"
		}
		out = append(out, seenCand{c.Type().String(), tr, c.Address(), ip, l})
	}
	return out
}

func modeObserved(events []json.RawMessage, path string) {
	seen := map[string]bool{}
	var recs []string
	for i, raw := range events {
		var e lifeEvent
		if err := json.Unmarshal(raw, &e); err != nil {
			vh.Fatal("bad event %d: %v", i, err)
		}
		if e.Ev != "answer" {
			continue
		}
		for _, c := range candidatesOf(e.Sent) {
			if seen[c.ip.String()] {
				continue
			}
			seen[c.ip.String()] = true
			if ip4 := c.ip.To4(); ip4 != nil {
				recs = append(recs, fmt.Sprintf("[fam |-> \"v4\", o |-> <<%d, %d, %d, %d>>]", ip4[0], ip4[1], ip4[2], ip4[3]))
			} else {
				g := make([]string, 8)
				for k := 0; k < 8; k++ {
					g[k] = strconv.Itoa(int(c.ip[2*k])<<8 | int(c.ip[2*k+1]))
				}
				recs = append(recs, "[fam |-> \"v6g\", g |-> <<"+strings.Join(g, ", ")+">>]")
			}
		}
	}
	txt := "------------------------------ MODULE Observed ------------------------------\n" +
		"(* generated by `sdpdrv observed`: addresses of the candidates in the answers the real proxy posted in this run *)\n" +
		"ObservedAddrs == {" + strings.Join(recs, ",\n                  ") + "}\n" +
		"=============================================================================\n"
	if err := os.WriteFile(path, []byte(txt), 0o644); err != nil {
		vh.Fatal("%v", err)
	}
}

func modeJudgeLife(rows []json.RawMessage, events []json.RawMessage, w *vh.Writer) {
	table := loadTable(rows)
	answers, judged, localVisible, unknown, lives := 0, 0, 0, 0, 0
	for i, raw := range events {
		var e lifeEvent
		if err := json.Unmarshal(raw, &e); err != nil {
			vh.Fatal("bad event %d: %v", i, err)
		}
		if e.Ev == "life" {
			lives++
		}
		if e.Ev != "answer" {
			continue
		}
		answers++
		cs := map[string]interface{}{"plan": e.Plan, "life": e.Life, "keep": e.Keep, "url": e.URL, "context": e.Context}
		if e.Undecodable {
			w.Put(vh.Result{Idx: e.Plan, Sig: "diverge/lifecycle/undecodable-answer", Detail: "the proxy posted an answer the executor could not decode", Case: cs})
			continue
		}
		local := false
		for _, c := range candidatesOf(e.Sent) {
			row := table[tableKey(c.typ, c.tr, c.ip, c.text)]
			if row == nil {
				unknown++
				continue
			}
			if row.Strip != "strip" {
				continue
			}
			local = true
			if e.Expect == "stripped" {
				w.Put(vh.Result{Idx: e.Plan, Sig: "lifecycle/survivor/" + row.sigClass() + "/" + e.Context,
					Detail: fmt.Sprintf("lifetime %d of the process was started with KeepLocalAddresses=false (%s), yet the answer it posted to the broker contains %q (%s)", e.Life, e.Context, c.line, row.C.class()), Case: cs})
			}
		}
		if e.Expect == "stripped" {
			judged++
		} else if local {
			localVisible++
		}
	}
	w.Put(map[string]interface{}{"summary": map[string]interface{}{"cases": answers, "nontrivial": judged, "lifetimes": lives,
		"answers_in_keeping_lifetimes_with_local_host_candidate": localVisible, "candidates_not_in_table": unknown}})
}

func main() {
	if len(os.Args) < 4 {
		vh.Fatal("usage: sdpdrv mode ...")
	}
	mode := os.Args[1]
	in, err := vh.ReadCases(os.Args[2])
	if err != nil {
		vh.Fatal("%v", err)
	}
	arg := func(i int) string {
		if len(os.Args) <= i {
			vh.Fatal("missing argument %d for mode %s", i, mode)
		}
		return os.Args[i]
	}
	num := func(i int) uint64 {
		v, err := strconv.ParseUint(arg(i), 10, 64)
		if err != nil {
			vh.Fatal("bad number %q", arg(i))
		}
		return v
	}
	needTpl := func() {
		tpl[1] = makeTemplate(1)
		tpl[2] = makeTemplate(2)
	}
	var w *vh.Writer
	open := func(i int) {
		w, err = vh.NewWriter(arg(i))
		if err != nil {
			vh.Fatal("%v", err)
		}
	}
	switch mode {
	case "observed":
		modeObserved(in, arg(3))
		return
	case "judgelife":
		evs, err := vh.ReadCases(arg(3))
		if err != nil {
			vh.Fatal("%v", err)
		}
		open(4)
		modeJudgeLife(in, evs, w)
	case "desc":
		needTpl()
		open(3)
		modeDesc(in, w, num(4))
	case "table":
		open(3)
		modeTable(in, w)
	case "raw":
		needTpl()
		open(3)
		modeRaw(in, w, num(4), int(num(5)))
	case "build":
		needTpl()
		saveTpl(arg(5))
		open(3)
		modeBuild(in, w, num(4))
	case "judge":
		loadTpl(arg(6))
		caps, err := vh.ReadCases(arg(3))
		if err != nil {
			vh.Fatal("%v", err)
		}
		open(4)
		modeJudge(in, caps, w, num(5))
	case "pclist":
		open(3)
		modePCList(in, w)
	case "judgepc":
		caps, err := vh.ReadCases(arg(3))
		if err != nil {
			vh.Fatal("%v", err)
		}
		open(4)
		modeJudgePC(in, caps, w)
	default:
		vh.Fatal("unknown mode %s", mode)
	}
	if err := w.Close(); err != nil {
		vh.Fatal("%v", err)
	}
}
