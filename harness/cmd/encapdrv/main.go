// encapdrv replays the cases enumerated by spec/Encap (TLC) through the real
// common/encapsulation package and compares with the contract's expected
// result printed by TLC.
//
//	encapdrv read  <cases.ndjson> <out.ndjson> <seed>
//	encapdrv write <cases.ndjson> <out.ndjson> <seed>
//	encapdrv alloc <out.ndjson>
package main

import (
	"bytes"
	"encoding/json"
	"fmt"
	"io"
	"os"
	"runtime"
	"strconv"
	"strings"
	"sync/atomic"

	"git.torproject.org/pluggable-transports/snowflake.git/v2/common/encapsulation"
	"verifharness/vh"
)

type op struct {
	K   string `json:"k"`
	Len int    `json:"len"`
	W   int    `json:"w"`
}
type chunk struct {
	Start int `json:"start"`
	Len   int `json:"len"`
}
type readCase struct {
	Ops    []op     `json:"ops"`
	Cut    int      `json:"cut"`
	Script []string `json:"script"`
	Expect struct {
		Chunks []chunk `json:"chunks"`
		Term   string  `json:"term"`
	} `json:"expect"`
}

// scripted is an io.Reader whose every Read follows the next directive of a
// cyclic script; all of its behaviours are allowed by the io.Reader contract.
type scripted struct {
	data   []byte
	pos    int
	script []string
	si     int
	reads  int
}

func (s *scripted) Read(p []byte) (int, error) {
	s.reads++
	if s.reads > 50_000_000 {
		panic("reader called too often (non-termination)")
	}
	if len(p) == 0 {
		return 0, nil
	}
	avail := len(s.data) - s.pos
	if avail == 0 {
		return 0, io.EOF
	}
	d := s.script[s.si%len(s.script)]
	s.si++
	want := len(p)
	if want > avail {
		want = avail
	}
	var n int
	var err error
	switch d {
	case "Zero":
		return 0, nil
	case "One":
		n = 1
	case "Part":
		n = want / 2
		if n < 1 {
			n = 1
		}
	case "All":
		n = want
	case "AllEOF":
		n = want
		if s.pos+n == len(s.data) {
			err = io.EOF
		}
	default:
		panic("unknown directive " + d)
	}
	copy(p, s.data[s.pos:s.pos+n])
	s.pos += n
	return n, err
}

func buildStream(ops []op, key uint64) []byte {
	var b []byte
	for _, o := range ops {
		switch o.K {
		case "X":
			b = append(b, 0xc0|vh.KeyByte(key, uint64(len(b)))&0x3f, 0x80|vh.KeyByte(key, uint64(len(b)+1))&0x7f, 0x80|vh.KeyByte(key, uint64(len(b)+2))&0x7f)
		default:
			var d byte
			if o.K == "D" {
				d = 0x80
			}
			n := o.Len
			switch o.W {
			case 1:
				b = append(b, d|byte(n&0x3f))
			case 2:
				b = append(b, d|0x40|byte((n>>7)&0x3f), byte(n&0x7f))
			case 3:
				b = append(b, d|0x40|byte((n>>14)&0x3f), 0x80|byte((n>>7)&0x7f), byte(n&0x7f))
			}
		}
		start := len(b)
		b = append(b, make([]byte, o.Len)...)
		vh.Fill(b[start:], key, uint64(start))
	}
	return b
}

func termOf(err error) string {
	switch err {
	case io.EOF:
		return "EOF"
	case io.ErrUnexpectedEOF:
		return "UEOF"
	case encapsulation.ErrTooLong:
		return "TooLong"
	}
	return "other:" + err.Error()
}

func dirClass(script []string) string {
	seen := map[string]bool{}
	for _, d := range script {
		seen[d] = true
	}
	var out []string
	for _, d := range []string{"Zero", "One", "Part", "AllEOF"} {
		if seen[d] {
			out = append(out, d)
		}
	}
	if len(out) == 0 {
		return "All"
	}
	return strings.Join(out, "+")
}

func doRead(raw json.RawMessage, idx int, key uint64, w *vh.Writer, nontrivial *int64) {
	var c readCase
	if err := json.Unmarshal(raw, &c); err != nil {
		vh.Fatal("bad case %d: %v", idx, err)
	}
	stream := buildStream(c.Ops, key+uint64(idx))
	if c.Cut > len(stream) {
		vh.Fatal("case %d: cut beyond stream", idx)
	}
	if c.Cut < len(stream) || dirClass(c.Script) != "All" {
		atomic.AddInt64(nontrivial, 1)
	}
	r := &scripted{data: stream[:c.Cut], script: c.Script}
	var got [][]byte
	var term string
	for {
		p, err := encapsulation.ReadData(r)
		if err != nil {
			if p != nil {
				w.Put(vh.Result{Idx: idx, Sig: "read/data-with-error", Detail: "ReadData returned data together with an error", Case: c})
			}
			term = termOf(err)
			break
		}
		got = append(got, p)
		if len(got) > len(c.Ops)+1 {
			term = "too-many-chunks"
			break
		}
	}
	bad := ""
	if term != c.Expect.Term {
		bad = fmt.Sprintf("terminal condition %s, contract says %s", term, c.Expect.Term)
	} else if len(got) != len(c.Expect.Chunks) {
		bad = fmt.Sprintf("%d chunks decoded, contract says %d", len(got), len(c.Expect.Chunks))
	} else {
		for i, e := range c.Expect.Chunks {
			if !bytes.Equal(got[i], stream[e.Start:e.Start+e.Len]) {
				bad = fmt.Sprintf("chunk %d differs from the bytes written (len got %d want %d)", i, len(got[i]), e.Len)
				break
			}
		}
	}
	if bad != "" {
		gotc := "same"
		if len(got) < len(c.Expect.Chunks) {
			gotc = "fewer"
		} else if len(got) > len(c.Expect.Chunks) {
			gotc = "more"
		} else if !strings.HasPrefix(bad, "terminal") {
			gotc = "differ"
		}
		sig := fmt.Sprintf("read/reader=%s/expect=%s/got=%s/chunks=%s", dirClass(c.Script), c.Expect.Term, term, gotc)
		w.Put(vh.Result{Idx: idx, Sig: sig, Detail: bad, Case: c})
	}
}

type wop struct {
	K   string `json:"k"`
	Len int    `json:"len"`
}
type writeCase struct {
	Wops   []wop    `json:"wops"`
	Script []string `json:"script"`
	Expect struct {
		Size    int   `json:"size"`
		Chunks  []int `json:"chunks"`
		Toolong []int `json:"toolong"`
	} `json:"expect"`
}

func doWrite(raw json.RawMessage, idx int, key uint64, w *vh.Writer, nontrivial *int64) {
	var c writeCase
	if err := json.Unmarshal(raw, &c); err != nil {
		vh.Fatal("bad case %d: %v", idx, err)
	}
	atomic.AddInt64(nontrivial, 1)
	var buf bytes.Buffer
	var datas [][]byte
	tooLong := map[int]bool{}
	for _, i := range c.Expect.Toolong {
		tooLong[i] = true
	}
	report := func(sig, detail string) {
		w.Put(vh.Result{Idx: idx, Sig: sig, Detail: detail, Case: c})
	}
	for i, o := range c.Wops {
		before := buf.Len()
		switch o.K {
		case "WD":
			d := make([]byte, o.Len)
			vh.Fill(d, key+uint64(idx), uint64(i)<<32)
			n, err := encapsulation.WriteData(&buf, d)
			if tooLong[i+1] {
				if err != encapsulation.ErrTooLong || n != 0 || buf.Len() != before {
					report("write/toolong-not-rejected", fmt.Sprintf("WriteData(len %d): n=%d err=%v", o.Len, n, err))
					return
				}
				continue
			}
			if err != nil {
				report("write/data-error", fmt.Sprintf("WriteData(len %d): %v", o.Len, err))
				return
			}
			if n != buf.Len()-before {
				report("write/data-count", fmt.Sprintf("WriteData(len %d) returned %d, wrote %d", o.Len, n, buf.Len()-before))
				return
			}
			// the caller's buffer may be reused afterwards
			keep := append([]byte(nil), d...)
			for j := range d {
				d[j] ^= 0xff
			}
			datas = append(datas, keep)
		case "WP":
			n, err := encapsulation.WritePadding(&buf, o.Len)
			if err != nil || n != o.Len || buf.Len()-before != o.Len {
				report("write/padding-size", fmt.Sprintf("WritePadding(%d): n=%d wrote=%d err=%v", o.Len, n, buf.Len()-before, err))
				return
			}
		}
	}
	if buf.Len() != c.Expect.Size {
		report("write/total-size", fmt.Sprintf("stream has %d bytes, contract says %d", buf.Len(), c.Expect.Size))
		return
	}
	r := &scripted{data: buf.Bytes(), script: c.Script}
	for i := 0; ; i++ {
		p, err := encapsulation.ReadData(r)
		if err != nil {
			if err != io.EOF || i != len(datas) {
				report("write/roundtrip-term/reader="+dirClass(c.Script), fmt.Sprintf("after %d of %d chunks: %v", i, len(datas), err))
			}
			return
		}
		if i >= len(datas) || !bytes.Equal(p, datas[i]) {
			report("write/roundtrip-data/reader="+dirClass(c.Script), fmt.Sprintf("chunk %d differs", i))
			return
		}
	}
}

// budget: WriteData(MaxDataForSize(n)) never exceeds n bytes.
func doBudget(w *vh.Writer) int {
	count := 0
	ns := []int{}
	for n := 1; n <= 20000; n++ {
		ns = append(ns, n)
	}
	for _, c := range []int{1 << 20, 1<<20 - 1, 1<<20 + 1, 1<<20 + 2, 1<<20 + 3, 1<<20 + 4, 1 << 21, 1 << 24} {
		for d := -4; d <= 4; d++ {
			ns = append(ns, c+d)
		}
	}
	for _, n := range ns {
		count++
		func() {
			defer func() {
				if v := recover(); v != nil {
					w.Put(vh.Result{Idx: n, Sig: "budget/panic", Detail: fmt.Sprint(v)})
				}
			}()
			m := encapsulation.MaxDataForSize(n)
			if m < 0 {
				w.Put(vh.Result{Idx: n, Sig: "budget/negative", Detail: fmt.Sprintf("MaxDataForSize(%d) = %d", n, m)})
				return
			}
			var cw countWriter
			tot, err := encapsulation.WriteData(&cw, make([]byte, m))
			if err != nil || tot > n || int(cw) > n {
				w.Put(vh.Result{Idx: n, Sig: "budget/exceeded", Detail: fmt.Sprintf("budget %d: MaxDataForSize=%d, encoded size %d, err %v", n, m, tot, err)})
			}
		}()
	}
	return count
}

type countWriter int

func (c *countWriter) Write(p []byte) (int, error) { *c += countWriter(len(p)); return len(p), nil }

// alloc: a truncated chunk announcing n bytes makes ReadData allocate at most
// about n bytes (never "as much as the peer says" beyond the 3-byte limit,
// never more than announced).
func doAlloc(w *vh.Writer) int {
	count := 0
	for _, n := range []int{0, 1, 63, 64, 8191, 8192, 1<<20 - 1} {
		for _, have := range []int{0, 1, 3} {
			if have > n {
				continue
			}
			count++
			stream := buildStream([]op{{K: "D", Len: n, W: 3}}, 7)
			stream = stream[:3+have]
			var m0, m1 runtime.MemStats
			runtime.GC()
			runtime.ReadMemStats(&m0)
			_, err := encapsulation.ReadData(&scripted{data: stream, script: []string{"All"}})
			runtime.ReadMemStats(&m1)
			delta := m1.TotalAlloc - m0.TotalAlloc
			if have < n && err != io.ErrUnexpectedEOF {
				w.Put(vh.Result{Idx: n, Sig: "alloc/term", Detail: fmt.Sprintf("announced %d have %d: err %v", n, have, err)})
			}
			if delta > uint64(n)+128*1024 {
				w.Put(vh.Result{Idx: n, Sig: "alloc/unbounded", Detail: fmt.Sprintf("announced %d bytes, allocated %d", n, delta)})
			}
		}
	}
	return count
}

func main() {
	if len(os.Args) < 3 {
		vh.Fatal("usage")
	}
	mode := os.Args[1]
	var nontrivial int64
	switch mode {
	case "read", "write":
		cases, err := vh.ReadCases(os.Args[2])
		if err != nil {
			vh.Fatal("%v", err)
		}
		w, err := vh.NewWriter(os.Args[3])
		if err != nil {
			vh.Fatal("%v", err)
		}
		seed, _ := strconv.ParseUint(os.Args[4], 10, 64)
		key := seed * 0x1000003
		vh.RunParallel(len(cases), 0, func(i int) {
			if mode == "read" {
				doRead(cases[i], i, key, w, &nontrivial)
			} else {
				doWrite(cases[i], i, key, w, &nontrivial)
			}
		}, func(i int, v interface{}, stack string) {
			var c interface{}
			json.Unmarshal(cases[i], &c)
			w.Put(vh.Result{Idx: i, Sig: mode + "/panic", Detail: fmt.Sprint(v) + "\n" + stack, Case: c})
		})
		w.Put(map[string]interface{}{"summary": map[string]interface{}{"cases": len(cases), "nontrivial": nontrivial}})
		w.Close()
	case "extra":
		w, err := vh.NewWriter(os.Args[2])
		if err != nil {
			vh.Fatal("%v", err)
		}
		a := doAlloc(w)
		b := doBudget(w)
		w.Put(map[string]interface{}{"summary": map[string]interface{}{"cases": a + b, "nontrivial": a + b}})
		w.Close()
	default:
		vh.Fatal("unknown mode %s", mode)
	}
}
