// redialdrv replays behaviours of spec/Redial (environment and user steps
// chosen by TLC) into the real turbotunnel.RedialPacketConn and records what
// the real object does as a trace for spec/Redial/Redial_Trace.tla.  The
// driver only executes and records; whether a recorded execution is allowed
// is decided by TLC.
//
//	redialdrv replay <behaviours.ndjson> <traces.ndjson> <seed>
//	redialdrv loop   <traces.ndjson> <seed> <redials>
//	redialdrv full   <traces.ndjson> <seed>
//
// Carriers are scripted net.PacketConns: every ReadFrom / WriteTo parks on a
// gate until the driver releases it with a result; Close wakes parked calls
// with an error.  After every step the driver waits until the real object is
// quiescent (every goroutine that has a turbotunnel.(*RedialPacketConn) frame
// is parked in a channel operation, seen in a stop-the-world runtime.Stack
// dump; no sleeps are used for synchronisation) and records the goroutine
// profile.  Only the exported API of package turbotunnel is used.
package main

import (
	"bytes"
	"context"
	"encoding/binary"
	"encoding/json"
	"errors"
	"fmt"
	"net"
	"os"
	"regexp"
	"runtime"
	"strconv"
	"strings"
	"sync"
	"time"

	"git.torproject.org/pluggable-transports/snowflake.git/v2/common/turbotunnel"
	"verifharness/vh"
)

type ev map[string]interface{}

type addr string

func (a addr) Network() string { return "verif" }
func (a addr) String() string  { return string(a) }

// ---------------------------------------------------------------------------
// packets: kind byte, id, keyed filler; decode returns -1 unless the bytes are
// exactly the packet with the id they claim.

func mkPacket(seed uint64, kind byte, id int) []byte {
	n := 9 + int(vh.KeyByte(seed^uint64(kind), uint64(id)))%48
	p := make([]byte, n)
	p[0] = kind
	binary.BigEndian.PutUint64(p[1:9], uint64(id))
	vh.Fill(p[9:], seed^uint64(kind)<<8^uint64(id), 0)
	return p
}

func packetID(seed uint64, kind byte, p []byte) int {
	if len(p) < 9 || p[0] != kind {
		return -1
	}
	id := int(binary.BigEndian.Uint64(p[1:9]))
	if id <= 0 || id > 1<<30 || !bytes.Equal(p, mkPacket(seed, kind, id)) {
		return -1
	}
	return id
}

func scribble(p []byte) {
	for i := range p {
		p[i] = 0xee
	}
}

// ---------------------------------------------------------------------------
// rig: one RedialPacketConn under test with its scripted carriers

type rcmd struct {
	p   []byte
	id  int
	err error
}

type carrier struct {
	r      *rig
	g      int
	rd     chan rcmd
	wr     chan error
	closed chan struct{}
	// guarded by r.mu
	isClosed bool
	pendR    bool
	pendW    bool
	wbuf     []byte // the slice passed to the pending WriteTo
	prevRbuf []byte // the slice passed to the previous ReadFrom (scribbled on the next call)
}

var errCarrierClosed = errors.New("scripted carrier closed")
var errScripted = errors.New("scripted carrier failure")
var errDial = errors.New("scripted dial failure")

func (c *carrier) ReadFrom(p []byte) (int, net.Addr, error) {
	r := c.r
	r.mu.Lock()
	if c.prevRbuf != nil {
		// the caller is done with the previous buffer: reuse it loudly
		scribble(c.prevRbuf)
	}
	c.prevRbuf = p
	c.pendR = true
	r.mu.Unlock()
	select {
	case cmd := <-c.rd:
		// pendR was cleared by the driver when it released the gate; the
		// outcome is logged here, by the goroutine that experiences it
		if cmd.err != nil {
			r.logL(ev{"ev": "readfail", "g": c.g})
			return 0, nil, cmd.err
		}
		r.logL(ev{"ev": "deliver", "g": c.g, "pkt": cmd.id})
		n := copy(p, cmd.p)
		return n, addr("carrier"), nil
	case <-c.closed:
		r.mu.Lock()
		c.pendR = false
		r.log(ev{"ev": "rclosed", "g": c.g})
		r.mu.Unlock()
		return 0, nil, errCarrierClosed
	}
}

func (c *carrier) WriteTo(p []byte, a net.Addr) (int, error) {
	r := c.r
	r.mu.Lock()
	c.pendW = true
	c.wbuf = p
	r.mu.Unlock()
	select {
	case err := <-c.wr:
		r.mu.Lock()
		c.wbuf = nil
		if err != nil {
			r.log(ev{"ev": "writefail", "g": c.g})
		} else {
			// what the carrier is asked to send, read now: every caller
			// buffer has been overwritten in the meantime
			r.log(ev{"ev": "writeok", "g": c.g, "pkt": packetID(r.seed, 'W', p)})
		}
		r.mu.Unlock()
		if err != nil {
			return 0, err
		}
		return len(p), nil
	case <-c.closed:
		r.mu.Lock()
		c.pendW = false
		c.wbuf = nil
		r.log(ev{"ev": "wclosed", "g": c.g})
		r.mu.Unlock()
		return 0, errCarrierClosed
	}
}

func (c *carrier) Close() error {
	r := c.r
	r.mu.Lock()
	if c.isClosed {
		r.mu.Unlock()
		return errCarrierClosed
	}
	c.isClosed = true
	r.log(ev{"ev": "cclosed", "g": c.g})
	r.mu.Unlock()
	close(c.closed)
	return nil
}

func (c *carrier) LocalAddr() net.Addr                { return addr("carrier-local") }
func (c *carrier) SetDeadline(t time.Time) error      { return nil }
func (c *carrier) SetReadDeadline(t time.Time) error  { return nil }
func (c *carrier) SetWriteDeadline(t time.Time) error { return nil }

type dialCmd struct {
	c   *carrier
	err error
}

type rig struct {
	seed     uint64
	mu       sync.Mutex
	events   []ev
	nev      int
	conn     *turbotunnel.RedialPacketConn
	carriers []*carrier // index g-1
	pendDial bool
	dialCh   chan dialCmd
	baseline map[int]bool // goroutines that existed before this rig (ignored in profiles)

	nDeliv, nWrite, nReadOK int
	closedKnown             bool // the driver closed the conn or released a failing dial
	hung                    bool
}

// log must be called with r.mu held.
func (r *rig) log(e ev) {
	r.events = append(r.events, e)
	r.nev++
}

func (r *rig) logL(e ev) {
	r.mu.Lock()
	r.log(e)
	r.mu.Unlock()
}

func (r *rig) dial(ctx context.Context) (net.PacketConn, error) {
	r.mu.Lock()
	r.pendDial = true
	r.mu.Unlock()
	cmd := <-r.dialCh
	if cmd.err != nil {
		return nil, cmd.err
	}
	return cmd.c, nil
}

func newRig(seed uint64) *rig {
	r := &rig{seed: seed, dialCh: make(chan dialCmd), baseline: map[int]bool{}}
	for _, g := range snapshot() {
		r.baseline[g.id] = true
	}
	r.conn = turbotunnel.NewRedialPacketConn(addr("local"), addr("remote"), r.dial)
	return r
}

// ---------------------------------------------------------------------------
// goroutine profile

type gor struct {
	id    int
	state string
	funcs []string
}

var stackBuf = make([]byte, 1<<20)
var hdrRe = regexp.MustCompile(`^goroutine (\d+) \[([^\],]+)`)

func snapshot() []gor {
	var n int
	for {
		n = runtime.Stack(stackBuf, true)
		if n < len(stackBuf) {
			break
		}
		stackBuf = make([]byte, 2*len(stackBuf))
	}
	var out []gor
	for _, blk := range strings.Split(string(stackBuf[:n]), "\n\n") {
		lines := strings.Split(blk, "\n")
		m := hdrRe.FindStringSubmatch(lines[0])
		if m == nil {
			continue
		}
		id, _ := strconv.Atoi(m[1])
		g := gor{id: id, state: m[2]}
		for _, l := range lines[1:] {
			if l == "" || l[0] == '\t' || strings.HasPrefix(l, "created by ") {
				continue
			}
			g.funcs = append(g.funcs, l)
		}
		out = append(out, g)
	}
	return out
}

const objMark = "turbotunnel.(*RedialPacketConn)"

// A goroutine that was created but has not run yet shows only its start
// function, which for `go c.dialLoop()` is a compiler-made wrapper of
// NewRedialPacketConn without a method frame.
const ctorMark = "turbotunnel.NewRedialPacketConn"

func has(g gor, sub string) bool {
	for _, f := range g.funcs {
		if strings.Contains(f, sub) {
			return true
		}
	}
	return false
}

// The two goroutines of exchange() are told apart by the closure they run;
// the names are learnt from goroutines seen inside the scripted carrier (the
// reader is the one that calls ReadFrom) and default to source order.
var readerFn, writerFn = ".exchange.func1", ".exchange.func2"
var closureRe = regexp.MustCompile(`\.exchange\.func\d+`)

func closureOf(g gor) string {
	for _, f := range g.funcs {
		if strings.Contains(f, objMark) {
			if m := closureRe.FindString(f); m != "" {
				return m
			}
		}
	}
	return ""
}

type profile struct {
	dl                                             string
	rInRead, rSendErr, wSelect, wInWrite, wSendErr int
	other                                          int
	parked                                         bool // every goroutine of the object is parked
	userParked                                     int  // harness goroutines parked inside a method of the object
	sig                                            string
}

func parkedState(s string) bool {
	return s == "chan receive" || s == "chan send" || s == "select"
}

func (r *rig) profile() profile {
	p := profile{dl: "done", parked: true}
	for _, g := range snapshot() {
		if r.baseline[g.id] || !(has(g, objMark) || has(g, ctorMark)) {
			continue
		}
		pk := parkedState(g.state)
		if !pk {
			p.parked = false
		}
		cl := closureOf(g)
		switch {
		case has(g, objMark+".dialLoop") || has(g, ctorMark):
			switch {
			case !pk:
				p.dl = "running"
			case has(g, objMark+".exchange("):
				p.dl = "exch"
			case has(g, "main.(*rig).dial"):
				p.dl = "dial"
			default:
				p.dl = "running"
				p.other++
			}
		case cl != "":
			inR, inW := has(g, "main.(*carrier).ReadFrom"), has(g, "main.(*carrier).WriteTo")
			if inR {
				readerFn = cl
			}
			if inW {
				writerFn = cl
			}
			switch {
			case !pk:
			case cl == readerFn && inR:
				p.rInRead++
			case cl == readerFn && g.state == "chan send":
				p.rSendErr++
			case cl == writerFn && inW:
				p.wInWrite++
			case cl == writerFn && g.state == "chan send":
				p.wSendErr++
			case cl == writerFn && g.state == "select":
				p.wSelect++
			default:
				p.other++
			}
		default:
			// a harness goroutine inside an exported method of the object
			if pk {
				p.userParked++
			}
		}
	}
	p.sig = fmt.Sprint(p.dl, p.rInRead, p.rSendErr, p.wSelect, p.wInWrite, p.wSendErr, p.other, p.userParked)
	return p
}

// quiesce waits until the object is at rest and logs the profile.
func (r *rig) quiesce() profile {
	deadline := time.Now().Add(10 * time.Second)
	var prev profile
	prevN := -1
	for i := 0; ; i++ {
		p := r.profile()
		r.mu.Lock()
		n := r.nev
		r.mu.Unlock()
		if p.parked && prevN == n && prev.parked && prev.sig == p.sig {
			r.logL(ev{"ev": "quiesce", "dl": p.dl, "rInRead": p.rInRead, "rSendErr": p.rSendErr,
				"wSelect": p.wSelect, "wInWrite": p.wInWrite, "wSendErr": p.wSendErr, "other": p.other + p.userParked})
			return p
		}
		prev, prevN = p, n
		if time.Now().After(deadline) {
			r.hung = true
			r.logL(ev{"ev": "noquiesce", "profile": p.sig})
			return p
		}
		if i < 20 {
			runtime.Gosched()
		} else {
			time.Sleep(50 * time.Microsecond) // polling pause only; the condition above decides
		}
	}
}

// userOp runs f (a call of an exported method of the object) on its own
// goroutine and waits until it returned or everything is parked.
func (r *rig) userOp(f func()) bool {
	done := make(chan struct{})
	go func() { defer close(done); f() }()
	deadline := time.Now().Add(10 * time.Second)
	for i := 0; ; i++ {
		select {
		case <-done:
			return true
		default:
		}
		if i > 50 {
			p := r.profile()
			if p.parked && p.userParked > 0 {
				select {
				case <-done:
					return true
				default:
				}
				p2 := r.profile()
				if p2.parked && p2.userParked > 0 {
					return false
				}
			}
			time.Sleep(20 * time.Microsecond)
		} else {
			runtime.Gosched()
		}
		if time.Now().After(deadline) {
			return false
		}
	}
}

// ---------------------------------------------------------------------------
// steps

func (r *rig) car(g int) *carrier {
	if g < 1 || g > len(r.carriers) {
		return nil
	}
	return r.carriers[g-1]
}

// step executes one environment/user step if the real object offers it (the
// gate it needs is occupied); returns false when it is not offered.
func (r *rig) step(act string, g int) bool {
	switch act {
	case "DialOK":
		r.mu.Lock()
		ok := r.pendDial
		var c *carrier
		if ok {
			r.pendDial = false
			c = &carrier{r: r, g: len(r.carriers) + 1, rd: make(chan rcmd), wr: make(chan error), closed: make(chan struct{})}
			r.carriers = append(r.carriers, c)
			r.log(ev{"ev": "dialok", "g": c.g})
		}
		r.mu.Unlock()
		if !ok {
			return false
		}
		r.dialCh <- dialCmd{c: c}
	case "DialFails":
		r.mu.Lock()
		ok := r.pendDial
		if ok {
			r.pendDial = false
			r.closedKnown = true
			r.log(ev{"ev": "dialfail"})
		}
		r.mu.Unlock()
		if !ok {
			return false
		}
		r.dialCh <- dialCmd{err: errDial}
	case "Deliver", "ReadFails":
		c := r.car(g)
		if c == nil {
			return false
		}
		r.mu.Lock()
		ok := c.pendR && !c.isClosed
		var cmd rcmd
		if ok {
			c.pendR = false
			if act == "Deliver" {
				r.nDeliv++
				cmd.p, cmd.id = mkPacket(r.seed, 'D', r.nDeliv), r.nDeliv
			} else {
				cmd.err = errScripted
			}
		}
		r.mu.Unlock()
		if !ok {
			return false
		}
		select {
		case c.rd <- cmd:
		case <-c.closed:
		case <-time.After(10 * time.Second):
			r.hung = true
			r.logL(ev{"ev": "noquiesce", "profile": "read gate not taken"})
		}
	case "WriteOK", "WriteFails":
		c := r.car(g)
		if c == nil {
			return false
		}
		r.mu.Lock()
		ok := c.pendW && !c.isClosed
		var res error
		if ok {
			c.pendW = false
			if act != "WriteOK" {
				res = errScripted
			}
		}
		r.mu.Unlock()
		if !ok {
			return false
		}
		select {
		case c.wr <- res:
		case <-c.closed:
		case <-time.After(10 * time.Second):
			r.hung = true
			r.logL(ev{"ev": "noquiesce", "profile": "write gate not taken"})
		}
	case "BothFail":
		c := r.car(g)
		if c == nil {
			return false
		}
		r.mu.Lock()
		ok := c.pendR && c.pendW && !c.isClosed
		if ok {
			c.pendR, c.pendW = false, false
		}
		r.mu.Unlock()
		if !ok {
			return false
		}
		// both gates are released before either goroutine is waited for
		var wg sync.WaitGroup
		wg.Add(2)
		go func() {
			defer wg.Done()
			select {
			case c.rd <- rcmd{err: errScripted}:
			case <-c.closed: // the other direction's failure already closed the carrier
			}
		}()
		go func() {
			defer wg.Done()
			select {
			case c.wr <- errScripted:
			case <-c.closed:
			}
		}()
		wg.Wait()
	case "UserWrite", "GUserWrite":
		r.userWrite()
	case "UserReadOK", "UserRead":
		if !(r.closedKnown || r.nDeliv-r.nReadOK > 0) {
			return false // would park the driver's call; the behaviour's packet was not delivered
		}
		r.userRead()
	case "Close":
		if r.closedKnown {
			return false
		}
		r.userClose()
	default:
		vh.Fatal("unknown step %q", act)
	}
	return true
}

func (r *rig) userWrite() {
	r.nWrite++
	id := r.nWrite
	buf := mkPacket(r.seed, 'W', id)
	var n int
	var err error
	ret := r.userOp(func() { n, err = r.conn.WriteTo(buf, addr("ignored")) })
	if !ret {
		r.logL(ev{"ev": "uwrite", "pkt": id, "res": "blocked"})
		return
	}
	want := len(buf)
	scribble(buf) // the caller reuses its buffer
	switch {
	case err != nil:
		r.logL(ev{"ev": "uwrite", "pkt": id, "res": "err"})
	case n != want:
		r.logL(ev{"ev": "uwrite", "pkt": id, "res": "short"})
	default:
		r.logL(ev{"ev": "uwrite", "pkt": id, "res": "ok"})
	}
}

func (r *rig) userRead() {
	buf := make([]byte, 2048)
	var n int
	var err error
	ret := r.userOp(func() { n, _, err = r.conn.ReadFrom(buf) })
	switch {
	case !ret:
		r.logL(ev{"ev": "uread", "res": "blocked", "pkt": 0})
	case err != nil:
		r.logL(ev{"ev": "uread", "res": "err", "pkt": 0})
	default:
		r.nReadOK++
		r.logL(ev{"ev": "uread", "res": "ok", "pkt": packetID(r.seed, 'D', buf[:n])})
	}
}

func (r *rig) userClose() {
	var err error
	// Close takes effect inside the call: the call and its result are two observations
	r.logL(ev{"ev": "closecall"})
	ret := r.userOp(func() { err = r.conn.Close() })
	r.closedKnown = true
	switch {
	case !ret:
		r.logL(ev{"ev": "closeret", "res": "blocked"})
	case err != nil:
		r.logL(ev{"ev": "closeret", "res": "err"})
	default:
		r.logL(ev{"ev": "closeret", "res": "ok"})
	}
}

// probes: once the conn is known to be closed every operation must fail, at
// every later quiescent point.
func (r *rig) probes() {
	if !r.closedKnown || r.hung {
		return
	}
	r.userRead()
	r.userWrite()
	r.userClose()
}

// epilogue closes the conn and fails whatever is still pending so that the
// object can wind down; everything is part of the trace.
func (r *rig) epilogue() {
	if r.hung {
		return
	}
	if !r.closedKnown {
		r.userClose()
		r.quiesce()
		r.probes()
	}
	for round := 0; round < 8 && !r.hung; round++ {
		acted := false
		for g := 1; g <= len(r.carriers); g++ {
			if r.step("WriteFails", g) {
				acted = true
				r.quiesce()
			}
			if r.step("ReadFails", g) {
				acted = true
				r.quiesce()
			}
		}
		if r.step("DialFails", 0) {
			acted = true
			r.quiesce()
		}
		if !acted {
			break
		}
	}
	if !r.hung {
		r.probes()
		r.quiesce()
	}
}

// ---------------------------------------------------------------------------

type behaviour struct {
	ID    int `json:"id"`
	Steps []struct {
		Act string `json:"act"`
		G   int    `json:"g"`
	} `json:"steps"`
}

type summary struct {
	Behaviours int `json:"behaviours"`
	Events     int `json:"events"`
	Skipped    int `json:"skipped_steps"`
	Executed   int `json:"executed_steps"`
	Hung       int `json:"hung"`
	MaxGen     int `json:"max_gen"`
	Quiesce    int `json:"quiescent_points"`
}

func flush(w *vh.Writer, id int, r *rig, s *summary) {
	w.Put(ev{"ev": "reset", "id": id})
	for _, e := range r.events {
		w.Put(e)
		if e["ev"] == "quiesce" {
			s.Quiesce++
		}
	}
	s.Events += len(r.events) + 1
	s.Behaviours++
	if r.hung {
		s.Hung++
	}
	if len(r.carriers) > s.MaxGen {
		s.MaxGen = len(r.carriers)
	}
}

func runBehaviour(b behaviour, seed uint64, s *summary) *rig {
	r := newRig(seed + uint64(b.ID)*7919)
	r.quiesce()
	for _, st := range b.Steps {
		if r.hung {
			break
		}
		if r.step(st.Act, st.G) {
			s.Executed++
			r.quiesce()
			r.probes()
		} else {
			s.Skipped++
		}
	}
	r.epilogue()
	return r
}

func main() {
	if len(os.Args) < 4 {
		vh.Fatal("usage: redialdrv replay <behaviours> <traces> <seed> | loop <traces> <seed> <n> | full <traces> <seed>")
	}
	var s summary
	switch os.Args[1] {
	case "replay":
		raw, err := vh.ReadCases(os.Args[2])
		if err != nil {
			vh.Fatal("%v", err)
		}
		w, err := vh.NewWriter(os.Args[3])
		if err != nil {
			vh.Fatal("%v", err)
		}
		seed, _ := strconv.ParseUint(os.Args[4], 10, 64)
		for _, line := range raw {
			var b behaviour
			if err := json.Unmarshal(line, &b); err != nil {
				vh.Fatal("bad behaviour: %v", err)
			}
			r := runBehaviour(b, seed, &s)
			flush(w, b.ID, r, &s)
		}
		w.Put(ev{"ev": "reset", "id": -1})
		w.Close()
	case "loop":
		w, err := vh.NewWriter(os.Args[2])
		if err != nil {
			vh.Fatal("%v", err)
		}
		seed, _ := strconv.ParseUint(os.Args[3], 10, 64)
		n, _ := strconv.Atoi(os.Args[4])
		r := runLoop(seed, n, &s)
		flush(w, 0, r, &s)
		w.Put(ev{"ev": "reset", "id": -1})
		w.Close()
	case "full":
		w, err := vh.NewWriter(os.Args[2])
		if err != nil {
			vh.Fatal("%v", err)
		}
		seed, _ := strconv.ParseUint(os.Args[3], 10, 64)
		flush(w, 0, runFullSend(seed, &s), &s)
		flush(w, 1, runFullRecv(seed, &s), &s)
		w.Put(ev{"ev": "reset", "id": -1})
		w.Close()
	default:
		vh.Fatal("unknown mode %q", os.Args[1])
	}
	b, _ := json.Marshal(map[string]interface{}{"summary": s})
	fmt.Println(string(b))
}

// do executes a step that the scenario expects to be offered.
func (r *rig) do(s *summary, act string, g int) bool {
	if r.hung {
		return false
	}
	if r.step(act, g) {
		s.Executed++
		r.quiesce()
		return true
	}
	s.Skipped++
	return false
}

// runLoop: n redials on one object; every generation ends by one of the fault
// orders (chosen from the seed), with some traffic in between; then Close.
func runLoop(seed uint64, n int, s *summary) *rig {
	rng := vh.NewRng(seed)
	r := newRig(seed)
	r.quiesce()
	for g := 1; g <= n && !r.hung; g++ {
		if !r.do(s, "DialOK", 0) {
			break
		}
		switch rng.Intn(7) {
		case 0: // read side fails, writer idle in its select
			r.do(s, "ReadFails", g)
		case 1: // read side fails first, writer parked inside WriteTo
			r.do(s, "UserWrite", 0)
			r.do(s, "ReadFails", g)
		case 2: // write side fails first, reader parked inside ReadFrom
			r.do(s, "UserWrite", 0)
			r.do(s, "WriteFails", g)
		case 3: // both fail before either goroutine moves on
			r.do(s, "UserWrite", 0)
			r.do(s, "BothFail", g)
		case 4: // traffic both ways, then the read side fails
			r.do(s, "UserWrite", 0)
			r.do(s, "WriteOK", g)
			r.do(s, "Deliver", g)
			r.do(s, "UserRead", 0)
			r.do(s, "ReadFails", g)
		case 5: // traffic, then the write side fails
			r.do(s, "Deliver", g)
			r.do(s, "Deliver", g)
			r.do(s, "UserRead", 0)
			r.do(s, "UserRead", 0)
			r.do(s, "UserWrite", 0)
			r.do(s, "WriteFails", g)
		case 6: // packets queued while the writer is busy, then the read side fails
			r.do(s, "UserWrite", 0)
			r.do(s, "UserWrite", 0)
			r.do(s, "WriteOK", g)
			r.do(s, "ReadFails", g)
		}
	}
	r.epilogue()
	return r
}

const queueSize = 2048 // turbotunnel.queueSize (unexported); the trace is validated with QCap = 2048

// runFullSend: the writer is parked in a carrier write, the user writes two
// packets more than the send queue holds, then the carrier accepts everything.
func runFullSend(seed uint64, s *summary) *rig {
	r := newRig(seed)
	r.quiesce()
	r.do(s, "DialOK", 0)
	r.do(s, "UserWrite", 0) // taken by the writer, parked in WriteTo
	for i := 0; i < queueSize+2; i++ {
		r.userWrite()
		s.Executed++
	}
	r.quiesce()
	for i := 0; i < queueSize+3 && !r.hung; i++ {
		if !r.step("WriteOK", 1) {
			break
		}
		s.Executed++
		r.quiesceQuiet()
	}
	r.quiesce()
	r.epilogue()
	return r
}

// runFullRecv: the carrier delivers two packets more than the receive queue
// holds while the user does not read; then the user reads queueSize packets.
func runFullRecv(seed uint64, s *summary) *rig {
	r := newRig(seed + 1)
	r.quiesce()
	r.do(s, "DialOK", 0)
	for i := 0; i < queueSize+2 && !r.hung; i++ {
		if !r.step("Deliver", 1) {
			break
		}
		s.Executed++
		r.quiesceQuiet()
	}
	r.quiesce()
	for i := 0; i < queueSize; i++ {
		r.userRead()
		s.Executed++
	}
	r.quiesce()
	r.epilogue()
	return r
}

// quiesceQuiet waits for rest without logging the profile (long runs of the
// same step; the profile is logged at the end of the run).
func (r *rig) quiesceQuiet() {
	r.quiesce()
	r.mu.Lock()
	if n := len(r.events); n > 0 && r.events[n-1]["ev"] == "quiesce" {
		r.events = r.events[:n-1]
	}
	r.mu.Unlock()
}
