package snowflake_proxy

// C13, proxy side (injected with `go test -overlay`; never written into the
// repository).  Reads the cases concretised by harness/cmd/sdpjsondrv
// (VERIF_C13_CASES) and writes non-conforming results to VERIF_C13_OUT.
//
//   - "doc" cases: the string is offered to the proxy the way a client's offer
//     reaches it - as the Offer of a "client match" poll response served by a
//     scripted broker (httptest) to the real (*SignalingServer).pollOffer.
//   - "text" cases: the SDP text is given to remoteIPFromSDP.
//
// The driver only executes and compares with the outcomes printed by TLC; a
// recover() turns a panic into a reported violation.

import (
	"bufio"
	"encoding/base64"
	"encoding/json"
	"fmt"
	"io"
	"io/ioutil"
	"log"
	"net/http"
	"net/http/httptest"
	"os"
	"sync"
	"testing"

	"git.torproject.org/pluggable-transports/snowflake.git/v2/common/messages"
)

type verifC13Outcome struct {
	Res  string `json:"res"`
	Type string `json:"type,omitempty"`
	SDP  string `json:"sdp_b64,omitempty"`
}

type verifC13Case struct {
	Idx   int               `json:"idx"`
	Mode  string            `json:"mode"`
	Class string            `json:"class"`
	NT    bool              `json:"nt"`
	In    string            `json:"in_b64"`
	Proxy []verifC13Outcome `json:"proxy,omitempty"`
	Case  json.RawMessage   `json:"case"`
}

type verifC13Result struct {
	Idx    int             `json:"idx"`
	Sig    string          `json:"sig"`
	Detail string          `json:"detail"`
	Site   string          `json:"site"`
	Case   json.RawMessage `json:"case,omitempty"`
}

func verifC13Short(s string) string {
	if len(s) > 300 {
		return fmt.Sprintf("%q... (%d bytes)", s[:300], len(s))
	}
	return fmt.Sprintf("%q", s)
}

func TestVerifC13Proxy(t *testing.T) {
	casesPath, outPath := os.Getenv("VERIF_C13_CASES"), os.Getenv("VERIF_C13_OUT")
	if casesPath == "" || outPath == "" {
		t.Skip("VERIF_C13_CASES / VERIF_C13_OUT not set")
	}
	log.SetOutput(ioutil.Discard)
	in, err := os.Open(casesPath)
	if err != nil {
		t.Fatal(err)
	}
	defer in.Close()
	outf, err := os.Create(outPath)
	if err != nil {
		t.Fatal(err)
	}
	out := bufio.NewWriter(outf)
	put := func(v interface{}) {
		b, err := json.Marshal(v)
		if err != nil {
			t.Fatal(err)
		}
		out.Write(b)
		out.WriteByte('\n')
	}

	// the scripted broker: answers every poll with a client match carrying
	// the current string as the offer
	var mu sync.Mutex
	var current string
	polls := 0
	ts := httptest.NewServer(http.HandlerFunc(func(w http.ResponseWriter, r *http.Request) {
		io.Copy(ioutil.Discard, r.Body)
		mu.Lock()
		offer := current
		polls++
		mu.Unlock()
		body, err := messages.EncodePollResponseWithRelayURL(offer, true, "unknown", "", "")
		if err != nil {
			http.Error(w, err.Error(), http.StatusInternalServerError)
			return
		}
		w.Write(body)
	}))
	defer ts.Close()
	tokens = newTokens(0)
	srv, err := newSignalingServer(ts.URL, false)
	if err != nil {
		t.Fatal(err)
	}
	shutdown := make(chan struct{})

	sc := bufio.NewScanner(in)
	sc.Buffer(make([]byte, 1<<20), 1<<28)
	ncases, nontrivial, ndoc, ntext := 0, 0, 0, 0
	for sc.Scan() {
		if len(sc.Bytes()) == 0 {
			continue
		}
		var c verifC13Case
		if err := json.Unmarshal(sc.Bytes(), &c); err != nil {
			t.Fatalf("bad case: %v", err)
		}
		raw, err := base64.StdEncoding.DecodeString(c.In)
		if err != nil {
			t.Fatalf("bad case input: %v", err)
		}
		input := string(raw)
		ncases++
		if c.NT {
			nontrivial++
		}
		switch c.Mode {
		case "doc":
			ndoc++
			mu.Lock()
			current = input
			before := polls
			mu.Unlock()
			func() {
				defer func() {
					if v := recover(); v != nil {
						put(verifC13Result{Idx: c.Idx, Sig: "panic:" + c.Class, Site: "proxy.pollOffer", Case: c.Case,
							Detail: fmt.Sprintf("site proxy pollOffer: a poll response whose Offer is %s panics the proxy: %v", verifC13Short(input), v)})
					}
				}()
				offer, _ := srv.pollOffer("verif-sid", "standalone", "", shutdown)
				mu.Lock()
				asked := polls - before
				mu.Unlock()
				if asked != 1 {
					put(verifC13Result{Idx: c.Idx, Sig: "harness:polls", Site: "proxy.pollOffer", Case: c.Case,
						Detail: fmt.Sprintf("pollOffer made %d requests to the scripted broker", asked)})
				}
				ok := false
				for _, o := range c.Proxy {
					switch o.Res {
					case "nil":
						ok = ok || offer == nil
					case "value-any":
						ok = ok || offer != nil
					case "value":
						want, _ := base64.StdEncoding.DecodeString(o.SDP)
						ok = ok || (offer != nil && offer.Type.String() == o.Type && offer.SDP == string(want))
					}
				}
				if !ok {
					kind, got := "wrong-value", "nil"
					if offer == nil {
						kind = "error-on-wellformed"
					} else {
						got = fmt.Sprintf("{type %s, sdp %s}", offer.Type, verifC13Short(offer.SDP))
					}
					put(verifC13Result{Idx: c.Idx, Sig: kind + ":" + c.Class, Site: "proxy.pollOffer", Case: c.Case,
						Detail: fmt.Sprintf("site proxy pollOffer: offer %s -> %s; the contract allows %v", verifC13Short(input), got, c.Proxy)})
				}
			}()
		case "text":
			ntext++
			func() {
				defer func() {
					if v := recover(); v != nil {
						put(verifC13Result{Idx: c.Idx, Sig: "panic:" + c.Class, Site: "proxy.remoteIPFromSDP", Case: c.Case,
							Detail: fmt.Sprintf("site proxy remoteIPFromSDP: SDP text %s panics: %v", verifC13Short(input), v)})
					}
				}()
				ip := remoteIPFromSDP(input)
				if ip != nil && len(ip) != 4 && len(ip) != 16 {
					put(verifC13Result{Idx: c.Idx, Sig: "bad-ip:" + c.Class, Site: "proxy.remoteIPFromSDP", Case: c.Case,
						Detail: fmt.Sprintf("remoteIPFromSDP(%s) returned a malformed net.IP of %d bytes", verifC13Short(input), len(ip))})
				}
			}()
		}
	}
	if err := sc.Err(); err != nil {
		t.Fatal(err)
	}
	put(map[string]interface{}{"summary": map[string]interface{}{"cases": ncases, "nontrivial": nontrivial, "doc": ndoc, "text": ntext}})
	if err := out.Flush(); err != nil {
		t.Fatal(err)
	}
	if err := outf.Close(); err != nil {
		t.Fatal(err)
	}
}
