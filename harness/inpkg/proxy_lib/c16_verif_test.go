package snowflake_proxy

// C16: replay one TLC behaviour of spec/ProxySession against the real proxy.
// Environment steps of the behaviour are executed by the rig (broker replies,
// client opening the channel, relay accepting / refusing / closing, the gate
// in the timeout branch); steps of the proxy itself are awaited through their
// hook events.  The recorded event log is validated by TLC afterwards
// (ProxySession_Trace); this file contains no expectation about slots.

import (
	"fmt"
	"net/http"
	"testing"
	"time"

	"git.torproject.org/pluggable-transports/snowflake.git/v2/common/messages"
	"git.torproject.org/pluggable-transports/snowflake.git/v2/common/util"
)

func argInt(st vStep, i int) int {
	if i >= len(st.Args) {
		return -1
	}
	switch v := st.Args[i].(type) {
	case float64:
		return int(v)
	case int:
		return v
	}
	return -1
}
func argStr(st vStep, i int) string {
	if i >= len(st.Args) {
		return ""
	}
	s, _ := st.Args[i].(string)
	return s
}

type vSched struct {
	r     *vRig
	wait  time.Duration
	count map[string]int // awaited occurrences per key
	poll  *vPoll
	ans   *vAnswer
	rreq  map[int]*vRelayReq
	gated bool // main loop is parked at the rs.dctimeout gate
	step  int
	since time.Duration // when the current step began (relative to the start of the rig)
}

func (sc *vSched) diverged(st vStep, why string) error {
	sc.r.log(vEvent{"ev": "diverged", "step": sc.step, "act": st.Act, "why": why, "since": sc.since.Milliseconds()})
	return fmt.Errorf("step %d %s: %s", sc.step, st.Act, why)
}

func (sc *vSched) await(st vStep, key string, d time.Duration, pred func(vEvent) bool) error {
	sc.count[key]++
	if !sc.r.waitEvent(key, sc.count[key], d, pred) {
		return sc.diverged(st, fmt.Sprintf("event %s #%d not observed within %v", key, sc.count[key], d))
	}
	return nil
}

func (sc *vSched) nextPoll(st vStep) error {
	select {
	case p := <-sc.r.polls:
		sc.poll = p
		return nil
	case <-time.After(sc.wait):
		return sc.diverged(st, "no poll arrived")
	}
}

func (sc *vSched) respondPoll(st vStep, status int, body []byte) error {
	if sc.poll == nil {
		return sc.diverged(st, "no poll is held")
	}
	sc.poll.resp <- vHTTPResp{status, body}
	sc.poll = nil
	return nil
}

func (sc *vSched) relayReq(st vStep, s int) (*vRelayReq, error) {
	if rr, ok := sc.rreq[s]; ok {
		return rr, nil
	}
	deadline := time.After(sc.wait)
	for {
		select {
		case rr := <-sc.r.relayReqs:
			sc.rreq[rr.s] = rr
			if rr.s == s {
				return rr, nil
			}
		case <-deadline:
			return nil, sc.diverged(st, fmt.Sprintf("relay request of session %d did not arrive", s))
		}
	}
}

func (sc *vSched) exec(st vStep) error {
	r := sc.r
	switch st.Act {
	case "GetInc":
		return sc.await(st, "tok.get.inc", sc.wait, evIs("tok.get.inc"))
	case "Get":
		return sc.await(st, "tok.get", sc.wait, evIs("tok.get"))
	case "Poll":
		return sc.nextPoll(st)
	case "NoOffer":
		b, _ := messages.EncodePollResponse("", false, "")
		r.log(vEvent{"ev": "resp", "kind": "nomatch"})
		return sc.respondPoll(st, http.StatusOK, b)
	case "BadBrokerResponse":
		variants := []vHTTPResp{
			{http.StatusInternalServerError, []byte("boom")},
			{http.StatusOK, []byte(`{"Status":`)},
			{http.StatusOK, []byte(`{"Status":"client match"}`)},
			{http.StatusOK, []byte(`{"Status":"something else"}`)},
			{http.StatusOK, []byte(``)},
			{http.StatusOK, []byte(`{}`)},
			{http.StatusBadRequest, []byte(`{"Status":"no match"}`)},
		}
		v := r.variant("bad", len(variants))
		r.log(vEvent{"ev": "resp", "kind": "bad", "variant": v})
		return sc.respondPoll(st, variants[v].status, variants[v].body)
	case "OfferUndecodable":
		variants := []string{"this is not json", `{"type":"offer"}`, `{"sdp":"v=0"}`, `{"type":"nonsense","sdp":"v=0"}`, `[1,2]`}
		v := r.variant("undecodable", len(variants))
		b, _ := messages.EncodePollResponseWithRelayURL(variants[v], true, "unknown", vURL("in_ws", 0), "")
		r.log(vEvent{"ev": "resp", "kind": "undecodable", "variant": v})
		return sc.respondPoll(st, http.StatusOK, b)
	case "Offer":
		class, kind, addr := argStr(st, 0), argStr(st, 1), argStr(st, 2)
		if addr == "" {
			addr = "real"
		}
		r.mu.Lock()
		s := r.cur
		r.mu.Unlock()
		cl, err := vNewClient(s)
		if err != nil {
			return sc.diverged(st, "harness client: "+err.Error())
		}
		r.mu.Lock()
		r.clients[s] = cl
		r.gateArmed = true
		r.mu.Unlock()
		r.mu.Lock()
		r.ownAddr[vOwnAddr(s)] = s
		r.mu.Unlock()
		offer, err := vMungeOffer(cl.offer, addr, s, r.rand(3))
		if err != nil {
			return sc.diverged(st, "harness offer: "+err.Error())
		}
		if kind == "bad" {
			variants := []string{`{"type":"offer","sdp":"v=0\r\nthis is not sdp\r\n"}`, `{"type":"offer","sdp":""}`, `{"type":"answer","sdp":"v=0\r\n"}`}
			offer = variants[r.variant("badsdp", len(variants))]
		}
		b, _ := messages.EncodePollResponseWithRelayURL(offer, true, "unknown", vURL(class, s), "")
		r.log(vEvent{"ev": "resp", "kind": "offer", "cls": class, "sdp": kind, "addr": addr, "s": s})
		return sc.respondPoll(st, http.StatusOK, b)
	case "RelayRejected":
		return sc.await(st, "rs.exit.rejected", sc.wait, evExit("rejected", "badurl"))
	case "PhantomGet", "PhantomRet":
		// the rig occupies / frees a slot itself, through the real tokens object,
		// while the main loop is parked in the poll request the broker holds
		if sc.poll == nil {
			return sc.diverged(st, "phantom step although no poll is held")
		}
		if st.Act == "PhantomGet" {
			if uint(len(tokens.ch)) >= tokens.capacity {
				return sc.diverged(st, "phantom get at capacity would block")
			}
			tokens.get()
		} else {
			tokens.ret()
		}
		return nil
	case "RelayOK":
		return nil // no observable event of its own
	case "HandlerStart":
		// release the handler goroutine held at dh.start.  If the behaviour
		// lets this handler go on to dial, wait for the dial, so that the
		// handler's decision is made before any later step of the main loop.
		s := argInt(st, 0)
		if err := sc.await(st, fmt.Sprintf("dh.start.%d", s), sc.wait, evIsS("dh.start", s)); err != nil {
			return err
		}
		r.mu.Lock()
		hg := r.hGateGo[s]
		delete(r.hGateGo, s)
		r.mu.Unlock()
		if hg == nil {
			return sc.diverged(st, "handler is not at its gate")
		}
		close(hg)
		for _, later := range r.plan.Steps[sc.step+1:] {
			if later.Act == "HandlerDial" && argInt(later, 0) == s {
				if !r.waitEvent("dh.dial", 1, sc.wait, evIsS("dh.dial", s)) {
					return sc.diverged(st, "handler did not reach the dial")
				}
				break
			}
		}
		return nil
	case "PCFail":
		return sc.await(st, "rs.exit.pcfail", sc.wait, evExit("pcfail"))
	case "PCOk":
		select {
		case a := <-r.answers:
			sc.ans = a
			return nil
		case <-time.After(sc.wait):
			return sc.diverged(st, "no answer arrived")
		}
	case "AnswerOK", "AnswerFail":
		if sc.ans == nil {
			return sc.diverged(st, "no answer is held")
		}
		a := sc.ans
		sc.ans = nil
		if st.Act == "AnswerOK" {
			b, _ := messages.EncodeAnswerResponse(true)
			r.log(vEvent{"ev": "aresp", "kind": "ok"})
			a.resp <- vHTTPResp{http.StatusOK, b}
			return nil
		}
		gone, _ := messages.EncodeAnswerResponse(false)
		variants := []vHTTPResp{{http.StatusOK, gone}, {http.StatusInternalServerError, []byte("boom")}, {http.StatusOK, []byte("{")}, {http.StatusOK, []byte(`{}`)}}
		v := r.variant("answerfail", len(variants))
		r.log(vEvent{"ev": "aresp", "kind": "fail", "variant": v})
		a.resp <- variants[v]
		return sc.await(st, "rs.exit.answerfail", sc.wait, evExit("answerfail"))
	case "DCOpen":
		s := argInt(st, 0)
		r.mu.Lock()
		cl, ans := r.clients[s], r.ansOf[s]
		r.mu.Unlock()
		if cl == nil || ans == "" {
			return sc.diverged(st, "no client/answer for the session")
		}
		desc, err := util.DeserializeSessionDescription(ans)
		if err != nil {
			return sc.diverged(st, "answer of the proxy undecodable: "+err.Error())
		}
		r.log(vEvent{"ev": "client.open", "s": s})
		if err := cl.pc.SetRemoteDescription(*desc); err != nil {
			return sc.diverged(st, "client SetRemoteDescription: "+err.Error())
		}
		return sc.await(st, fmt.Sprintf("rs.ondc.%d", s), sc.wait, evIsS("rs.ondc", s))
	case "DCSeen":
		return sc.await(st, "rs.exit.connected", sc.wait, evExit("connected"))
	case "DCTimerFire":
		select {
		case <-r.gateAt:
			sc.gated = true
			return nil
		case <-time.After(dataChannelTimeout + sc.wait):
			return sc.diverged(st, "timeout branch not reached")
		}
	case "DCTimeoutRelease":
		if !sc.gated {
			return sc.diverged(st, "main loop is not at the gate")
		}
		sc.gated = false
		r.gateGo <- struct{}{}
		return sc.await(st, "rs.exit.timeout", sc.wait, evExit("timeout"))
	case "MainReleaseDec":
		return sc.await(st, "tok.ret.dec.main", sc.wait, evIsG("tok.ret.dec", "main", -1))
	case "MainReleaseTake":
		return sc.await(st, "tok.ret.main", sc.wait, evIsG("tok.ret", "main", -1))
	case "HandlerDial":
		s := argInt(st, 0)
		return sc.await(st, fmt.Sprintf("dh.dial.%d", s), sc.wait, evIsS("dh.dial", s))
	case "RelayDialFail", "RelayAccept":
		s := argInt(st, 0)
		rr, err := sc.relayReq(st, s)
		if err != nil {
			return err
		}
		rr.decide <- st.Act == "RelayAccept"
		if st.Act == "RelayAccept" {
			return sc.await(st, fmt.Sprintf("relay.accept.%d", s), sc.wait, evIsS("relay.accept", s))
		}
		return sc.await(st, fmt.Sprintf("relay.refuse.%d", s), sc.wait, evIsS("relay.refuse", s))
	case "RelayEnd":
		s := argInt(st, 0)
		by := "relay"
		if s%2 == 0 {
			by = "client"
		}
		r.endRelay(s, by)
		return nil
	case "HandlerReleaseDec":
		s := argInt(st, 0)
		return sc.await(st, fmt.Sprintf("tok.ret.dec.h%d", s), sc.wait, evIsG("tok.ret.dec", "h", s))
	case "HandlerReleaseTake":
		s := argInt(st, 0)
		if err := sc.await(st, fmt.Sprintf("tok.ret.h%d", s), sc.wait, evIsG("tok.ret", "h", s)); err != nil {
			return err
		}
		return sc.await(st, fmt.Sprintf("dh.end.%d", s), sc.wait, evIsS("dh.end", s))
	}
	return sc.diverged(st, "unknown action in plan")
}

func TestVerifC16Replay(t *testing.T) {
	r := vNewRig(t)
	defer r.finish()
	r.hGate = true
	r.phG = vGID()
	r.startProxy()
	sc := &vSched{r: r, wait: time.Duration(r.plan.WaitMS) * time.Millisecond, count: map[string]int{}, rreq: map[int]*vRelayReq{}}
	var err error
	for i, st := range r.plan.Steps {
		sc.step = i
		sc.since = time.Since(r.t0)
		if err = sc.exec(st); err != nil {
			break
		}
	}
	if err == nil && r.plan.Epilogue {
		// after the last session the real loop goes on: it must take a slot and poll again
		for _, act := range []string{"GetInc", "Get", "Poll"} {
			sc.step++
			sc.since = time.Since(r.t0)
			if err = sc.exec(vStep{Act: act}); err != nil {
				break
			}
		}
	}
	if err == nil {
		// let stragglers (a wrongly repeated release, a late callback) show up in the log
		time.Sleep(300 * time.Millisecond)
		r.mu.Lock()
		r.logLocked(vEvent{"ev": "end", "count": tokens.count(), "len": len(tokens.ch), "held": r.held})
		r.mu.Unlock()
	} else {
		t.Logf("replay stopped: %v", err)
	}
}
