package snowflake_proxy

// Conformance driver for spec/ProxyNAT (lib/checks/c16_nat.py, NAT part).
//
// Drives the REAL checkNATType / getCurrentNATType / pollOffer (and, for the
// "start" cases, the real SnowflakeProxy.Start with its task.Periodic retest)
// against
//   - a scripted probe server speaking the probetest protocol (POST body =
//     EncodePollResponse(offer); reply = EncodeAnswerRequest(answer, sid)),
//     which holds its response until the driver has polled ("a probe in
//     flight"),
//   - for the outcome "open" a harness pion peer that really answers the offer
//     and opens the probe's data channel; for "timeout" a peer that answers
//     and goes away, so that the proxy waits its full dataChannelTimeout (20 s
//     of real time - cases run in parallel processes),
//   - a scripted broker that records the NAT type of every real poll request.
// The driver only executes a case printed by TLC and records what happened;
// the expected values come from the TLA+ contract (compared in c16_nat.py).
// Package state of proxy/lib is global: one process runs its cases one after
// the other.  No STUN.  All identifiers carry the prefix vNat.

import (
	"bufio"
	"encoding/json"
	"fmt"
	"io/ioutil"
	"net"
	"net/http"
	"net/http/httptest"
	"os"
	"runtime"
	"strings"
	"sync"
	"testing"
	"time"

	"git.torproject.org/pluggable-transports/snowflake.git/v2/common/messages"
	"git.torproject.org/pluggable-transports/snowflake.git/v2/common/util"
	"github.com/pion/ice/v2"
	"github.com/pion/stun"
	"github.com/pion/webrtc/v3"
)

type vNatCase struct {
	ID     int      `json:"id"`
	Kind   string   `json:"kind"` // "script" | "start"
	Init   string   `json:"init"`
	Script []string `json:"script"`
	// kind "start"
	IntervalMS int  `json:"interval_ms"`
	StopMS     int  `json:"stop_ms"`
	WatchMS    int  `json:"watch_ms"`
	Hammer     bool `json:"hammer"` // readers hammer getCurrentNATType while the probes run (race builds)
}

type vNatPollObs struct {
	At      string `json:"at"` // before | during | wait | after
	K       int    `json:"k"`
	NAT     string `json:"nat"`
	Err     string `json:"err,omitempty"`
	Blocked bool   `json:"blocked"`
	MS      int64  `json:"ms"`
}

type vNatProbeObs struct {
	K        int    `json:"k"`
	Outcome  string `json:"outcome"`
	Reached  bool   `json:"reached"`
	Returned bool   `json:"returned"`
	Crash    string `json:"crash,omitempty"`
	PCLeft   int    `json:"pcleft"`
	MS       int64  `json:"ms"`
	Global   string `json:"global"`
}

type vNatRig struct {
	mu       sync.Mutex
	mode     string // outcome the probe server plays for the next request
	hold     bool
	held     chan struct{} // the server signals a request it holds
	release  chan struct{}
	peers    []*webrtc.PeerConnection
	probe    *httptest.Server
	broker   *httptest.Server
	polled   chan vNatPollObs
	sig      *SignalingServer
	t0       time.Time
	arrivals []map[string]interface{} // start cases: probe requests and polls with times
	next     int
	script   []string // start cases: outcome of the n-th probe request (the last one repeats)
	stunURL  string
}

// a local STUN responder for the "start" cases (SnowflakeProxy.Start insists on a STUN URL and gathering
// against an unreachable server costs 5 s per PeerConnection)
func vNatStartSTUN() (string, error) {
	pc, err := net.ListenPacket("udp4", "0.0.0.0:0")
	if err != nil {
		return "", err
	}
	go func() {
		buf := make([]byte, 1500)
		for {
			n, from, err := pc.ReadFrom(buf)
			if err != nil {
				return
			}
			m := &stun.Message{Raw: append([]byte{}, buf[:n]...)}
			if err := m.Decode(); err != nil || m.Type != stun.BindingRequest {
				continue
			}
			ua := from.(*net.UDPAddr)
			resp, err := stun.Build(stun.NewTransactionIDSetter(m.TransactionID), stun.BindingSuccess,
				&stun.XORMappedAddress{IP: ua.IP, Port: ua.Port}, stun.Fingerprint)
			if err == nil {
				pc.WriteTo(resp.Raw, from)
			}
		}
	}()
	return fmt.Sprintf("stun:127.0.0.1:%d", pc.LocalAddr().(*net.UDPAddr).Port), nil
}

func vNatHasNonLoopback() bool {
	addrs, _ := net.InterfaceAddrs()
	for _, a := range addrs {
		if ipn, ok := a.(*net.IPNet); ok && ipn.IP.To4() != nil && !ipn.IP.IsLoopback() {
			return true
		}
	}
	return false
}

func vNatGathered(pc *webrtc.PeerConnection, set func() error) error {
	done := webrtc.GatheringCompletePromise(pc)
	if err := set(); err != nil {
		return err
	}
	select {
	case <-done:
		return nil
	case <-time.After(15 * time.Second):
		return fmt.Errorf("ICE gathering did not complete")
	}
}

// the probe server's peer: answers the proxy's offer
func vNatAnswerer(offer *webrtc.SessionDescription) (*webrtc.PeerConnection, error) {
	s := webrtc.SettingEngine{}
	s.SetICEMulticastDNSMode(ice.MulticastDNSModeDisabled)
	pc, err := webrtc.NewAPI(webrtc.WithSettingEngine(s)).NewPeerConnection(webrtc.Configuration{})
	if err != nil {
		return nil, err
	}
	pc.OnDataChannel(func(dc *webrtc.DataChannel) {})
	if err := pc.SetRemoteDescription(*offer); err != nil {
		pc.Close()
		return nil, err
	}
	a, err := pc.CreateAnswer(nil)
	if err != nil {
		pc.Close()
		return nil, err
	}
	if err := vNatGathered(pc, func() error { return pc.SetLocalDescription(a) }); err != nil {
		pc.Close()
		return nil, err
	}
	return pc, nil
}

func (r *vNatRig) ms() int64 { return int64(time.Since(r.t0) / time.Millisecond) }

func (r *vNatRig) serveProbe(w http.ResponseWriter, req *http.Request) {
	body, _ := ioutil.ReadAll(req.Body)
	r.mu.Lock()
	mode, hold := r.mode, r.hold
	if r.arrivals != nil {
		// start case: outcomes are taken from the script in order of arrival
		if len(r.script) > 0 {
			mode = r.script[len(r.script)-1]
			if r.next < len(r.script) {
				mode = r.script[r.next]
			}
		}
		r.arrivals = append(r.arrivals, map[string]interface{}{"ev": "probe", "ms": r.ms(), "n": r.next, "outcome": mode})
		r.next++
	}
	r.mu.Unlock()
	if hold {
		r.held <- struct{}{}
		<-r.release
	}
	fail := func(code int) { w.WriteHeader(code) }
	switch mode {
	case "status":
		fail(http.StatusInternalServerError)
		return
	case "badjson":
		w.Write([]byte("this is not an answer"))
		return
	case "badsdp":
		b, _ := messages.EncodeAnswerRequest("this is not a session description", "stub-sid")
		w.Write(b)
		return
	case "badremote":
		b, _ := messages.EncodeAnswerRequest(`{"type":"answer","sdp":"v=0 this is not sdp"}`, "stub-sid")
		w.Write(b)
		return
	}
	offerStr, _, err := messages.DecodePollResponse(body)
	if err != nil || offerStr == "" {
		fail(http.StatusBadRequest)
		return
	}
	offer, err := util.DeserializeSessionDescription(offerStr)
	if err != nil {
		fail(http.StatusBadRequest)
		return
	}
	pc, err := vNatAnswerer(offer)
	if err != nil {
		fail(http.StatusInternalServerError)
		return
	}
	answer, _ := util.SerializeSessionDescription(pc.LocalDescription())
	if mode == "timeout" {
		pc.Close() // answers and goes away: nobody will open the data channel
	} else {
		r.mu.Lock()
		r.peers = append(r.peers, pc)
		r.mu.Unlock()
	}
	b, _ := messages.EncodeAnswerRequest(answer, "stub-sid")
	w.Write(b)
}

func (r *vNatRig) closePeers() {
	r.mu.Lock()
	ps := r.peers
	r.peers = nil
	r.mu.Unlock()
	for _, p := range ps {
		p.Close()
	}
}

func (r *vNatRig) serveBroker(w http.ResponseWriter, req *http.Request) {
	body, _ := ioutil.ReadAll(req.Body)
	o := vNatPollObs{}
	_, _, nat, _, _, _, err := messages.DecodeProxyPollRequestWithRelayPrefix(body)
	o.NAT = nat
	if err != nil {
		o.Err = err.Error()
		var raw map[string]interface{}
		if json.Unmarshal(body, &raw) == nil {
			o.NAT = fmt.Sprint(raw["NAT"])
		}
	}
	r.mu.Lock()
	if r.arrivals != nil {
		r.arrivals = append(r.arrivals, map[string]interface{}{"ev": "poll", "ms": r.ms(), "nat": o.NAT, "err": o.Err})
		r.mu.Unlock()
	} else {
		r.mu.Unlock()
		r.polled <- o
	}
	// not a poll response: pollOffer logs it and returns at once
	w.Write([]byte("no"))
}

// one real pollOffer call; what it told the broker
func (r *vNatRig) poll(at string, k int) vNatPollObs {
	t := time.Now()
	shutdown := make(chan struct{})
	go r.sig.pollOffer("vnat-sid", DefaultProxyType, "", shutdown)
	select {
	case o := <-r.polled:
		o.At, o.K, o.MS = at, k, int64(time.Since(t)/time.Millisecond)
		return o
	case <-time.After(4 * time.Second):
		close(shutdown)
		return vNatPollObs{At: at, K: k, Blocked: true, MS: int64(time.Since(t) / time.Millisecond)}
	}
}

// goroutines that live inside pion packages (ICE agents, SCTP, DTLS ...)
func vNatPionGoroutines() int {
	buf := make([]byte, 4<<20)
	n := runtime.Stack(buf, true)
	c := 0
	for _, g := range strings.Split(string(buf[:n]), "\n\n") {
		if strings.Contains(g, "github.com/pion/") {
			c++
		}
	}
	return c
}

func vNatSettle(base int, d time.Duration) int {
	deadline := time.Now().Add(d)
	for {
		n := vNatPionGoroutines()
		if n <= base || time.Now().After(deadline) {
			if n < base {
				return 0
			}
			return n - base
		}
		time.Sleep(50 * time.Millisecond)
	}
}

// called through a variable so that the repository's getter keeps its own stack frame in race reports
var vNatGetter = getCurrentNATType

func vNatSetGlobal(v string) {
	currentNATTypeAccess.Lock()
	currentNATType = v
	currentNATTypeAccess.Unlock()
}

func (r *vNatRig) target(outcome string) (webrtc.Configuration, string) {
	cfg := webrtc.Configuration{}
	url := r.probe.URL + "/probe"
	switch outcome {
	case "badurl":
		url = "http://bad host/probe"
	case "pcfail":
		cfg = webrtc.Configuration{ICEServers: []webrtc.ICEServer{{URLs: []string{"not-an-ice-url"}}}}
	case "unreachable":
		url = "http://127.0.0.1:1/probe"
	}
	return cfg, url
}

func (r *vNatRig) runScript(c *vNatCase) map[string]interface{} {
	out := map[string]interface{}{"id": c.ID, "kind": "script"}
	polls := []vNatPollObs{}
	probes := []vNatProbeObs{}
	sf := &SnowflakeProxy{}
	vNatSetGlobal(c.Init)
	polls = append(polls, r.poll("before", 0))
	stopHammer := make(chan struct{})
	var hw sync.WaitGroup
	if c.Hammer {
		for i := 0; i < 2; i++ {
			hw.Add(1)
			go func() {
				defer hw.Done()
				for {
					select {
					case <-stopHammer:
						return
					default:
						_ = vNatGetter()
						time.Sleep(200 * time.Microsecond)
					}
				}
			}()
		}
	}
	for i, oc := range c.Script {
		k := i + 1
		po := vNatProbeObs{K: k, Outcome: oc}
		base := vNatPionGoroutines()
		cfg, url := r.target(oc)
		r.mu.Lock()
		r.mode, r.hold = oc, true
		r.mu.Unlock()
		t := time.Now()
		done := make(chan string, 1)
		go func() {
			defer func() {
				if x := recover(); x != nil {
					done <- fmt.Sprint("panic: ", x)
				}
			}()
			sf.checkNATType(cfg, url)
			done <- ""
		}()
		finished := false
		var crash string
		select {
		case <-r.held:
			po.Reached = true
			polls = append(polls, r.poll("during", k))
			r.release <- struct{}{}
			if oc == "timeout" {
				select {
				case crash = <-done:
					finished = true
				case <-time.After(1500 * time.Millisecond):
					polls = append(polls, r.poll("wait", k))
				}
			}
		case crash = <-done:
			finished = true
		case <-time.After(10 * time.Second):
		}
		if !finished {
			select {
			case crash = <-done:
				finished = true
			case <-time.After(dataChannelTimeout + 10*time.Second):
			}
		}
		po.Returned, po.Crash, po.MS = finished && crash == "", crash, int64(time.Since(t)/time.Millisecond)
		polls = append(polls, r.poll("after", k))
		r.closePeers()
		po.PCLeft = vNatSettle(base, 3*time.Second)
		po.Global = getCurrentNATType()
		probes = append(probes, po)
		if !finished || crash != "" {
			break
		}
	}
	close(stopHammer)
	hw.Wait()
	out["polls"], out["probes"] = polls, probes
	return out
}

// the real SnowflakeProxy.Start: first probe, task.Periodic retests, Stop; which probes and polls arrive when
func (r *vNatRig) runStart(c *vNatCase) map[string]interface{} {
	out := map[string]interface{}{"id": c.ID, "kind": "start"}
	vNatSetGlobal(c.Init)
	r.mu.Lock()
	r.arrivals = []map[string]interface{}{}
	r.next = 0
	r.script = c.Script
	r.mode, r.hold = "open", false
	r.mu.Unlock()
	if r.stunURL == "" {
		u, err := vNatStartSTUN()
		if err != nil {
			out["note"] = "stun: " + err.Error()
			return out
		}
		r.stunURL = u
	}
	r.t0 = time.Now()
	sf := &SnowflakeProxy{
		Capacity:                   1,
		STUNURL:                    r.stunURL,
		BrokerURL:                  r.broker.URL + "/",
		NATProbeURL:                r.probe.URL + "/probe",
		RelayURL:                   "ws://127.0.0.1:1/",
		RelayDomainNamePattern:     "$",
		AllowNonTLSRelay:           true,
		NATTypeMeasurementInterval: time.Duration(c.IntervalMS) * time.Millisecond,
	}
	returned := make(chan error, 1)
	go func() { returned <- sf.Start() }()
	time.Sleep(time.Duration(c.StopMS) * time.Millisecond)
	stopAt := r.ms()
	sf.Stop()
	var retAt int64 = -1
	select {
	case err := <-returned:
		retAt = r.ms()
		out["start_err"] = fmt.Sprint(err)
	case <-time.After(15 * time.Second):
	}
	if retAt >= 0 {
		time.Sleep(time.Duration(c.WatchMS) * time.Millisecond)
	}
	r.closePeers()
	r.mu.Lock()
	out["arrivals"] = r.arrivals
	r.arrivals = nil
	r.mu.Unlock()
	out["stop_ms"], out["returned_ms"], out["end_ms"] = stopAt, retAt, r.ms()
	out["global"] = getCurrentNATType()
	return out
}

func TestVerifNatScripts(t *testing.T) {
	in, outp := os.Getenv("VERIF_NAT_IN"), os.Getenv("VERIF_NAT_OUT")
	if in == "" || outp == "" {
		t.Skip("VERIF_NAT_IN / VERIF_NAT_OUT not set")
	}
	fo, err := os.Create(outp)
	if err != nil {
		t.Fatal(err)
	}
	defer fo.Close()
	w := bufio.NewWriter(fo)
	emit := func(o interface{}) {
		b, _ := json.Marshal(o)
		w.Write(b)
		w.WriteByte('\n')
		w.Flush()
	}
	if !vNatHasNonLoopback() {
		emit(map[string]interface{}{"skip": "no non-loopback IPv4 interface: pion cannot gather candidates"})
		return
	}
	fi, err := os.Open(in)
	if err != nil {
		t.Fatal(err)
	}
	defer fi.Close()
	r := &vNatRig{held: make(chan struct{}), release: make(chan struct{}), polled: make(chan vNatPollObs, 16), t0: time.Now()}
	r.probe = httptest.NewServer(http.HandlerFunc(r.serveProbe))
	r.broker = httptest.NewServer(http.HandlerFunc(r.serveBroker))
	defer r.probe.Close()
	defer r.broker.Close()
	tokens = newTokens(0)
	r.sig, err = newSignalingServer(r.broker.URL+"/", false)
	if err != nil {
		t.Fatal(err)
	}
	sc := bufio.NewScanner(fi)
	sc.Buffer(make([]byte, 1<<20), 1<<24)
	n := 0
	for sc.Scan() {
		if len(strings.TrimSpace(sc.Text())) == 0 {
			continue
		}
		c := &vNatCase{}
		if err := json.Unmarshal(sc.Bytes(), c); err != nil {
			t.Fatalf("case %d: %v", n, err)
		}
		if c.Kind == "start" {
			emit(r.runStart(c))
		} else {
			emit(r.runScript(c))
		}
		n++
	}
	emit(map[string]interface{}{"summary": map[string]interface{}{"cases": n}})
}
