package snowflake_proxy

// C08, "before it leaves the process", proxy side.  Pure executor: for every
// (candidate type, IPv4 address) pair of TLC's table a real answering
// PeerConnection is made whose local description carries a candidate of that
// type and address (SettingEngine.SetNAT1To1IPs rewrites the gathered
// addresses).  The real SignalingServer.sendAnswer is then called, with and
// without keep-local-addresses, once per ENVIRONMENT SCRIPT of the call-site
// machine of spec/SdpStrip (TLC's Scripts): the server's transport is a
// scripted http.RoundTripper whose first round trips fail as the script says
// (connection reset, timeout, EOF, refused: transport errors; http500: an
// error status) before it answers.  EVERY request body handed to the transport
// is captured - a failed attempt has left the process just as well - and all
// of them are judged by `sdpdrv judgepc`.
//
// Input  (env VERIF_C08_IN):      ndjson {"typ":"host"|"srflx","addr":"a.b.c.d"}
//        (env VERIF_C08_SCRIPTS): ndjson {"faults":[kind,...]}
// Output (env VERIF_C08_OUT): ndjson {"idx","typ","addr","keeplocal","faults","input","sents":[...] | "skip" | "panic"}

import (
	"bufio"
	"bytes"
	"encoding/json"
	"fmt"
	"io"
	"io/ioutil"
	"log"
	"net"
	"net/http"
	"os"
	"strconv"
	"syscall"
	"runtime/debug"
	"sync"
	"testing"
	"time"

	"git.torproject.org/pluggable-transports/snowflake.git/v2/common/messages"
	"git.torproject.org/pluggable-transports/snowflake.git/v2/common/util"
	"github.com/pion/ice/v2"
	"github.com/pion/webrtc/v3"
)

type verifC08Capture struct {
	Idx       int      `json:"idx"`
	Typ       string   `json:"typ"`
	Addr      string   `json:"addr"`
	KeepLocal bool     `json:"keeplocal"`
	Faults    []string `json:"faults"`
	Input     string   `json:"input"`
	Sents     []string `json:"sents"`
	Undecoded int      `json:"undecoded,omitempty"`
	Panic     string   `json:"panic,omitempty"`
	Skip      string   `json:"skip,omitempty"`
}

type verifC08Timeout struct{}

func (verifC08Timeout) Error() string   { return "i/o timeout" }
func (verifC08Timeout) Timeout() bool   { return true }
func (verifC08Timeout) Temporary() bool { return true }

// verifC08Transport fails its first len(faults) round trips as scripted, then
// answers; it records the SDP of every answer request it is handed.
type verifC08Transport struct {
	mu        sync.Mutex
	faults    []string
	n         int
	sents     []string
	undecoded int
}

func (t *verifC08Transport) RoundTrip(req *http.Request) (*http.Response, error) {
	body, _ := ioutil.ReadAll(req.Body)
	req.Body.Close()
	t.mu.Lock()
	defer t.mu.Unlock()
	if answer, _, err := messages.DecodeAnswerRequest(body); err != nil {
		t.undecoded++
	} else if d, err := util.DeserializeSessionDescription(answer); err != nil {
		t.undecoded++
	} else {
		t.sents = append(t.sents, d.SDP)
	}
	k := t.n
	t.n++
	resp := func(code int, b []byte) *http.Response {
		return &http.Response{StatusCode: code, Status: strconv.Itoa(code), Proto: "HTTP/1.1", ProtoMajor: 1, ProtoMinor: 1,
			Header: http.Header{}, Body: ioutil.NopCloser(bytes.NewReader(b)), ContentLength: int64(len(b)), Request: req}
	}
	if k < len(t.faults) {
		switch t.faults[k] {
		case "reset":
			return nil, &net.OpError{Op: "write", Net: "tcp", Err: os.NewSyscallError("write", syscall.ECONNRESET)}
		case "refused":
			return nil, &net.OpError{Op: "dial", Net: "tcp", Err: os.NewSyscallError("connect", syscall.ECONNREFUSED)}
		case "timeout":
			return nil, &net.OpError{Op: "read", Net: "tcp", Err: verifC08Timeout{}}
		case "eof":
			return nil, io.EOF
		case "http500":
			return resp(http.StatusInternalServerError, nil), nil
		}
		panic("unknown fault kind " + t.faults[k])
	}
	b, _ := messages.EncodeAnswerResponse(true)
	return resp(http.StatusOK, b), nil
}

func verifC08Gathered(pc *webrtc.PeerConnection, set func() error) error {
	done := webrtc.GatheringCompletePromise(pc)
	if err := set(); err != nil {
		return err
	}
	select {
	case <-done:
		return nil
	case <-time.After(20 * time.Second):
		return fmt.Errorf("ICE gathering did not complete")
	}
}

// an offer from a plain peer, to be answered by the PeerConnection under test
func verifC08Offer() (string, error) {
	pc, err := webrtc.NewPeerConnection(webrtc.Configuration{})
	if err != nil {
		return "", err
	}
	defer pc.Close()
	if _, err := pc.CreateDataChannel("data", nil); err != nil {
		return "", err
	}
	o, err := pc.CreateOffer(nil)
	if err != nil {
		return "", err
	}
	if err := verifC08Gathered(pc, func() error { return pc.SetLocalDescription(o) }); err != nil {
		return "", err
	}
	return pc.LocalDescription().SDP, nil
}

func verifC08Answerer(offer, typ, addr string) (*webrtc.PeerConnection, error) {
	s := webrtc.SettingEngine{}
	s.SetICEMulticastDNSMode(ice.MulticastDNSModeDisabled)
	s.SetNetworkTypes([]webrtc.NetworkType{webrtc.NetworkTypeUDP4})
	ct := webrtc.ICECandidateTypeHost
	if typ == "srflx" {
		ct = webrtc.ICECandidateTypeSrflx
	}
	s.SetNAT1To1IPs([]string{addr}, ct)
	pc, err := webrtc.NewAPI(webrtc.WithSettingEngine(s)).NewPeerConnection(webrtc.Configuration{})
	if err != nil {
		return nil, err
	}
	if err := pc.SetRemoteDescription(webrtc.SessionDescription{Type: webrtc.SDPTypeOffer, SDP: offer}); err != nil {
		pc.Close()
		return nil, err
	}
	a, err := pc.CreateAnswer(nil)
	if err != nil {
		pc.Close()
		return nil, err
	}
	if err := verifC08Gathered(pc, func() error { return pc.SetLocalDescription(a) }); err != nil {
		pc.Close()
		return nil, err
	}
	return pc, nil
}

func TestVerifC08SendAnswer(t *testing.T) {
	in, outp := os.Getenv("VERIF_C08_IN"), os.Getenv("VERIF_C08_OUT")
	if in == "" || outp == "" {
		t.Skip("VERIF_C08_IN / VERIF_C08_OUT not set")
	}
	log.SetOutput(ioutil.Discard)
	f, err := os.Open(in)
	if err != nil {
		t.Fatal(err)
	}
	type item struct {
		Typ  string `json:"typ"`
		Addr string `json:"addr"`
	}
	var items []item
	sc := bufio.NewScanner(f)
	for sc.Scan() {
		if len(bytes.TrimSpace(sc.Bytes())) == 0 {
			continue
		}
		var it item
		if err := json.Unmarshal(sc.Bytes(), &it); err != nil {
			t.Fatalf("bad input line %d: %v", len(items), err)
		}
		items = append(items, it)
	}
	f.Close()
	var scripts [][]string
	sf, err := os.Open(os.Getenv("VERIF_C08_SCRIPTS"))
	if err != nil {
		t.Fatal(err)
	}
	sc = bufio.NewScanner(sf)
	for sc.Scan() {
		if len(bytes.TrimSpace(sc.Bytes())) == 0 {
			continue
		}
		var x struct {
			Faults []string `json:"faults"`
		}
		if err := json.Unmarshal(sc.Bytes(), &x); err != nil {
			t.Fatalf("bad script line: %v", err)
		}
		scripts = append(scripts, x.Faults)
	}
	sf.Close()
	if len(scripts) == 0 {
		t.Fatal("no environment scripts")
	}
	offer, err := verifC08Offer()
	if err != nil {
		t.Fatal(err)
	}

	per := 2 * len(scripts)
	caps := make([]verifC08Capture, per*len(items))
	var wg sync.WaitGroup
	sem := make(chan struct{}, 8)
	for i := range items {
		wg.Add(1)
		sem <- struct{}{}
		go func(i int, it item) {
			defer wg.Done()
			defer func() { <-sem }()
			mine := caps[per*i : per*(i+1)]
			for k := range mine {
				mine[k].Idx, mine[k].Typ, mine[k].Addr = per*i+k, it.Typ, it.Addr
				mine[k].KeepLocal, mine[k].Faults = k%2 == 1, scripts[k/2]
			}
			// one PeerConnection per candidate; its local description is fixed once gathering is complete
			pc, err := verifC08Answerer(offer, it.Typ, it.Addr)
			if err != nil {
				for k := range mine {
					mine[k].Skip = err.Error()
				}
				return
			}
			defer pc.Close()
			for k := range mine {
				func(c *verifC08Capture) {
					defer func() {
						if v := recover(); v != nil {
							c.Panic = fmt.Sprintf("%v\n%s", v, debug.Stack())
						}
					}()
					c.Input = pc.LocalDescription().SDP
					// the constructor Start() uses, so that the configuration flag is bound too
					srv, err := newSignalingServer("http://broker.invalid/", c.KeepLocal)
					if err != nil {
						panic(err)
					}
					tr := &verifC08Transport{faults: c.Faults}
					srv.transport = tr
					srv.sendAnswer(fmt.Sprintf("sid-%d", c.Idx), pc)
					tr.mu.Lock()
					c.Sents, c.Undecoded = append([]string{}, tr.sents...), tr.undecoded
					tr.mu.Unlock()
				}(&mine[k])
			}
		}(i, items[i])
	}
	wg.Wait()
	of, err := os.Create(outp)
	if err != nil {
		t.Fatal(err)
	}
	w := bufio.NewWriter(of)
	enc := json.NewEncoder(w)
	enc.SetEscapeHTML(false)
	for i := range caps {
		if err := enc.Encode(&caps[i]); err != nil {
			t.Fatal(err)
		}
	}
	if err := w.Flush(); err != nil {
		t.Fatal(err)
	}
	of.Close()
}
