package snowflake_proxy

// C08, "before it leaves the process", proxy side.  Pure executor: for every
// (candidate type, IPv4 address) pair of TLC's table a real answering
// PeerConnection is made whose local description carries a candidate of that
// type and address (SettingEngine.SetNAT1To1IPs rewrites the gathered
// addresses), and the real SignalingServer.sendAnswer posts it to an httptest
// server that captures the body, with and without keep-local-addresses.  What
// was posted is judged by `sdpdrv judgepc`.
//
// Input  (env VERIF_C08_IN):  ndjson {"typ":"host"|"srflx","addr":"a.b.c.d"}
// Output (env VERIF_C08_OUT): ndjson {"idx","typ","addr","keeplocal","input","sent" | "notsent" | "panic"}

import (
	"bufio"
	"bytes"
	"encoding/json"
	"fmt"
	"io/ioutil"
	"log"
	"net/http"
	"net/http/httptest"
	"os"
	"runtime/debug"
	"sync"
	"testing"
	"time"

	"git.torproject.org/pluggable-transports/snowflake.git/v2/common/messages"
	"git.torproject.org/pluggable-transports/snowflake.git/v2/common/util"
	"github.com/pion/ice/v2"
	"github.com/pion/webrtc/v3"
)

type verifC08Capture struct {
	Idx       int    `json:"idx"`
	Typ       string `json:"typ"`
	Addr      string `json:"addr"`
	KeepLocal bool   `json:"keeplocal"`
	Input     string `json:"input"`
	Sent      string `json:"sent"`
	NotSent   bool   `json:"notsent,omitempty"`
	Panic     string `json:"panic,omitempty"`
	Skip      string `json:"skip,omitempty"`
}

func verifC08Gathered(pc *webrtc.PeerConnection, set func() error) error {
	done := webrtc.GatheringCompletePromise(pc)
	if err := set(); err != nil {
		return err
	}
	select {
	case <-done:
		return nil
	case <-time.After(20 * time.Second):
		return fmt.Errorf("ICE gathering did not complete")
	}
}

// an offer from a plain peer, to be answered by the PeerConnection under test
func verifC08Offer() (string, error) {
	pc, err := webrtc.NewPeerConnection(webrtc.Configuration{})
	if err != nil {
		return "", err
	}
	defer pc.Close()
	if _, err := pc.CreateDataChannel("data", nil); err != nil {
		return "", err
	}
	o, err := pc.CreateOffer(nil)
	if err != nil {
		return "", err
	}
	if err := verifC08Gathered(pc, func() error { return pc.SetLocalDescription(o) }); err != nil {
		return "", err
	}
	return pc.LocalDescription().SDP, nil
}

func verifC08Answerer(offer, typ, addr string) (*webrtc.PeerConnection, error) {
	s := webrtc.SettingEngine{}
	s.SetICEMulticastDNSMode(ice.MulticastDNSModeDisabled)
	s.SetNetworkTypes([]webrtc.NetworkType{webrtc.NetworkTypeUDP4})
	ct := webrtc.ICECandidateTypeHost
	if typ == "srflx" {
		ct = webrtc.ICECandidateTypeSrflx
	}
	s.SetNAT1To1IPs([]string{addr}, ct)
	pc, err := webrtc.NewAPI(webrtc.WithSettingEngine(s)).NewPeerConnection(webrtc.Configuration{})
	if err != nil {
		return nil, err
	}
	if err := pc.SetRemoteDescription(webrtc.SessionDescription{Type: webrtc.SDPTypeOffer, SDP: offer}); err != nil {
		pc.Close()
		return nil, err
	}
	a, err := pc.CreateAnswer(nil)
	if err != nil {
		pc.Close()
		return nil, err
	}
	if err := verifC08Gathered(pc, func() error { return pc.SetLocalDescription(a) }); err != nil {
		pc.Close()
		return nil, err
	}
	return pc, nil
}

func TestVerifC08SendAnswer(t *testing.T) {
	in, outp := os.Getenv("VERIF_C08_IN"), os.Getenv("VERIF_C08_OUT")
	if in == "" || outp == "" {
		t.Skip("VERIF_C08_IN / VERIF_C08_OUT not set")
	}
	log.SetOutput(ioutil.Discard)
	f, err := os.Open(in)
	if err != nil {
		t.Fatal(err)
	}
	type item struct {
		Typ  string `json:"typ"`
		Addr string `json:"addr"`
	}
	var items []item
	sc := bufio.NewScanner(f)
	for sc.Scan() {
		if len(bytes.TrimSpace(sc.Bytes())) == 0 {
			continue
		}
		var it item
		if err := json.Unmarshal(sc.Bytes(), &it); err != nil {
			t.Fatalf("bad input line %d: %v", len(items), err)
		}
		items = append(items, it)
	}
	f.Close()
	offer, err := verifC08Offer()
	if err != nil {
		t.Fatal(err)
	}

	// the "broker": captures the answer of each sid
	var mu sync.Mutex
	posted := map[string][]string{}
	ts := httptest.NewServer(http.HandlerFunc(func(w http.ResponseWriter, r *http.Request) {
		body, _ := ioutil.ReadAll(r.Body)
		if r.URL.Path != "/answer" {
			w.WriteHeader(http.StatusNotFound)
			return
		}
		answer, sid, err := messages.DecodeAnswerRequest(body)
		if err != nil {
			w.WriteHeader(http.StatusBadRequest)
			return
		}
		d, err := util.DeserializeSessionDescription(answer)
		if err != nil {
			w.WriteHeader(http.StatusBadRequest)
			return
		}
		mu.Lock()
		posted[sid] = append(posted[sid], d.SDP)
		mu.Unlock()
		b, _ := messages.EncodeAnswerResponse(true)
		w.Write(b)
	}))
	defer ts.Close()

	caps := make([]verifC08Capture, 2*len(items))
	var wg sync.WaitGroup
	sem := make(chan struct{}, 8)
	for i := range items {
		for k, keep := range []bool{false, true} {
			wg.Add(1)
			sem <- struct{}{}
			go func(slot int, it item, keep bool) {
				defer wg.Done()
				defer func() { <-sem }()
				c := &caps[slot]
				c.Idx, c.Typ, c.Addr, c.KeepLocal = slot, it.Typ, it.Addr, keep
				defer func() {
					if v := recover(); v != nil {
						c.Panic = fmt.Sprintf("%v\n%s", v, debug.Stack())
					}
				}()
				pc, err := verifC08Answerer(offer, it.Typ, it.Addr)
				if err != nil {
					c.Skip = err.Error()
					return
				}
				defer pc.Close()
				c.Input = pc.LocalDescription().SDP
				// the constructor Start() uses, so that the configuration flag is bound too
				srv, err := newSignalingServer(ts.URL, keep)
				if err != nil {
					panic(err)
				}
				sid := fmt.Sprintf("sid-%d", slot)
				if err := srv.sendAnswer(sid, pc); err != nil {
					c.Skip = "sendAnswer: " + err.Error()
				}
				mu.Lock()
				got := posted[sid]
				mu.Unlock()
				if len(got) != 1 {
					c.NotSent = true
					return
				}
				c.Skip = ""
				c.Sent = got[0]
			}(2*i+k, items[i], keep)
		}
	}
	wg.Wait()
	of, err := os.Create(outp)
	if err != nil {
		t.Fatal(err)
	}
	w := bufio.NewWriter(of)
	enc := json.NewEncoder(w)
	enc.SetEscapeHTML(false)
	for i := range caps {
		if err := enc.Encode(&caps[i]); err != nil {
			t.Fatal(err)
		}
	}
	if err := w.Flush(); err != nil {
		t.Fatal(err)
	}
	of.Close()
}
