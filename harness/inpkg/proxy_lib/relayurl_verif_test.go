package snowflake_proxy

// C06, third sentence, decision part: the relay URL a (possibly misbehaving)
// broker returns is judged by the real runSession.  Bound to
// spec/Matcher/RelayPolicy.tla (PMode = "proxy").  Injected with
// `go test -overlay`; nothing is written into the repository.
//
// Input  (env VERIF_C06_CASES): ndjson printed by TLC
//   {"pattern":[chars],"nontls":bool,"url":text,"class":[..],"hostname":[chars],
//    "forbidden":bool,"dontcare":bool,"accepted":bool,"dials":"none|supplied|default"}
// Output (env VERIF_C06_OUT): ndjson of non-conforming cases + {"summary":{..}}.
//
// The package-level `broker` is a SignalingServer with a scripted transport:
// POST /proxy answers "client match" with a valid offer (made by a pion peer
// of this test) and the case's relay URL; POST /answer records that the
// session went on to answer the offer - i.e. the URL was accepted and is now
// bound into the data-channel handler that would dial it - and replies
// "client gone" so that the session ends at once.  No client ever connects, so
// nothing is dialled here; the TCP-level observation is the proxy rig's.
//   proxy/...    a URL that C06 forbids for this pattern/flag was accepted
//   diverge/...  code and model differ where C06 does not care: no verdict

import (
	"bufio"
	"bytes"
	"encoding/json"
	"fmt"
	"io/ioutil"
	"log"
	"net/http"
	"net/url"
	"os"
	"sort"
	"strconv"
	"strings"
	"sync"
	"testing"
	"time"

	"git.torproject.org/pluggable-transports/snowflake.git/v2/common/event"
	"git.torproject.org/pluggable-transports/snowflake.git/v2/common/messages"
	"git.torproject.org/pluggable-transports/snowflake.git/v2/common/util"
	"github.com/pion/webrtc/v3"
)

type verifC06URLCase struct {
	Pattern   []string `json:"pattern"`
	NonTLS    bool     `json:"nontls"`
	URL       string   `json:"url"`
	Class     []string `json:"class"`
	Hostname  []string `json:"hostname"`
	Forbidden bool     `json:"forbidden"`
	DontCare  bool     `json:"dontcare"`
	Accepted  bool     `json:"accepted"`
	Dials     string   `json:"dials"`
	idx       int
}

type verifC06Transport struct {
	mu       sync.Mutex
	offer    string
	cases    map[string]*verifC06URLCase
	answered map[string]bool
	polled   map[string]int
}

func verifC06Resp(req *http.Request, code int, body []byte) *http.Response {
	return &http.Response{StatusCode: code, Status: strconv.Itoa(code), Proto: "HTTP/1.1", ProtoMajor: 1, ProtoMinor: 1,
		Header: http.Header{}, Body: ioutil.NopCloser(bytes.NewReader(body)), ContentLength: int64(len(body)), Request: req}
}

func (t *verifC06Transport) RoundTrip(req *http.Request) (*http.Response, error) {
	body, _ := ioutil.ReadAll(req.Body)
	req.Body.Close()
	switch req.URL.Path {
	case "/proxy":
		sid, _, _, _, _, _, err := messages.DecodeProxyPollRequestWithRelayPrefix(body)
		if err != nil {
			return verifC06Resp(req, 400, nil), nil
		}
		t.mu.Lock()
		c := t.cases[sid]
		t.polled[sid]++
		t.mu.Unlock()
		if c == nil {
			return verifC06Resp(req, 400, nil), nil
		}
		b, err := messages.EncodePollResponseWithRelayURL(t.offer, true, "unknown", c.URL, "")
		if err != nil {
			panic(err)
		}
		return verifC06Resp(req, 200, b), nil
	case "/answer":
		_, sid, err := messages.DecodeAnswerRequest(body)
		if err != nil {
			return verifC06Resp(req, 400, nil), nil
		}
		t.mu.Lock()
		t.answered[sid] = true
		t.mu.Unlock()
		b, _ := messages.EncodeAnswerResponse(false)
		return verifC06Resp(req, 200, b), nil
	}
	return verifC06Resp(req, 404, nil), nil
}

func verifC06MakeOffer(t *testing.T) string {
	pc, err := webrtc.NewPeerConnection(webrtc.Configuration{})
	if err != nil {
		t.Fatal(err)
	}
	defer pc.Close()
	if _, err := pc.CreateDataChannel("data", nil); err != nil {
		t.Fatal(err)
	}
	offer, err := pc.CreateOffer(nil)
	if err != nil {
		t.Fatal(err)
	}
	done := webrtc.GatheringCompletePromise(pc)
	if err := pc.SetLocalDescription(offer); err != nil {
		t.Fatal(err)
	}
	select {
	case <-done:
	case <-time.After(20 * time.Second):
		t.Fatal("ICE gathering of the test offer did not complete")
	}
	s, err := util.SerializeSessionDescription(pc.LocalDescription())
	if err != nil {
		t.Fatal(err)
	}
	return s
}

func TestVerifC06RelayURL(t *testing.T) {
	in, outp := os.Getenv("VERIF_C06_CASES"), os.Getenv("VERIF_C06_OUT")
	if in == "" || outp == "" {
		t.Skip("VERIF_C06_CASES / VERIF_C06_OUT not set")
	}
	log.SetOutput(ioutil.Discard)
	f, err := os.Open(in)
	if err != nil {
		t.Fatal(err)
	}
	var cases []*verifC06URLCase
	sc := bufio.NewScanner(f)
	sc.Buffer(make([]byte, 1<<20), 1<<26)
	for sc.Scan() {
		if len(bytes.TrimSpace(sc.Bytes())) == 0 {
			continue
		}
		c := &verifC06URLCase{}
		if err := json.Unmarshal(sc.Bytes(), c); err != nil {
			t.Fatalf("bad case %d: %v", len(cases), err)
		}
		c.idx = len(cases)
		cases = append(cases, c)
	}
	f.Close()

	tr := &verifC06Transport{offer: verifC06MakeOffer(t), cases: map[string]*verifC06URLCase{}, answered: map[string]bool{}, polled: map[string]int{}}
	for _, c := range cases {
		tr.cases["sid-"+strconv.Itoa(c.idx)] = c
	}
	bu, _ := url.Parse("http://broker.invalid/")
	// the package-level state Start() would set up
	broker = &SignalingServer{url: bu, transport: tr, keepLocalAddresses: true}
	config = webrtc.Configuration{}
	tokens = newTokens(0)

	type result struct {
		Idx    int         `json:"idx"`
		Sig    string      `json:"sig"`
		Detail string      `json:"detail"`
		Case   interface{} `json:"case,omitempty"`
	}
	var mu sync.Mutex
	var results []result
	var refused, answered, forbiddenRun int
	put := func(c *verifC06URLCase, sig, detail string) {
		mu.Lock()
		results = append(results, result{Idx: c.idx, Sig: sig, Detail: detail, Case: c})
		mu.Unlock()
	}
	sem := make(chan struct{}, 16)
	var wg sync.WaitGroup
	for _, c := range cases {
		wg.Add(1)
		sem <- struct{}{}
		go func(c *verifC06URLCase) {
			defer wg.Done()
			defer func() { <-sem }()
			sid := "sid-" + strconv.Itoa(c.idx)
			class := strings.Join(c.Class, ",") + fmt.Sprintf("/nontls=%v", c.NonTLS)
			defer func() {
				if v := recover(); v != nil {
					put(c, "proxy/panic/"+class, fmt.Sprint(v))
				}
			}()
			sf := &SnowflakeProxy{
				RelayDomainNamePattern: strings.Join(c.Pattern, ""),
				AllowNonTLSRelay:       c.NonTLS,
				RelayURL:               "wss://default-relay.invalid/",
				ProxyType:              "standalone",
				EventDispatcher:        event.NewSnowflakeEventDispatcher(),
				shutdown:               make(chan struct{}),
			}
			tokens.get()
			sf.runSession(sid)
			tr.mu.Lock()
			ans, polled := tr.answered[sid], tr.polled[sid]
			tr.mu.Unlock()
			mu.Lock()
			if ans {
				answered++
			} else {
				refused++
			}
			if c.Forbidden {
				forbiddenRun++
			}
			mu.Unlock()
			what := fmt.Sprintf("pattern %q allowNonTLS=%v relay URL %q (hostname %q)", strings.Join(c.Pattern, ""), c.NonTLS, c.URL, strings.Join(c.Hostname, ""))
			switch {
			case polled != 1:
				put(c, "diverge/poll-count/"+class, fmt.Sprintf("%s: runSession polled %d times", what, polled))
			case ans && c.Forbidden && !c.DontCare:
				put(c, "proxy/forbidden-url-accepted/"+class, what+": the session accepted the offer and answered it; the data-channel handler is bound to this URL")
			case ans != c.Accepted:
				put(c, "diverge/decision/"+class, fmt.Sprintf("%s: model says accepted=%v, runSession answered=%v", what, c.Accepted, ans))
			}
		}(c)
	}
	wg.Wait()
	of, err := os.Create(outp)
	if err != nil {
		t.Fatal(err)
	}
	w := bufio.NewWriter(of)
	enc := json.NewEncoder(w)
	sort.Slice(results, func(i, j int) bool { return results[i].Idx < results[j].Idx })
	for _, r := range results {
		enc.Encode(r)
	}
	enc.Encode(map[string]interface{}{"summary": map[string]interface{}{
		"cases": len(cases), "nontrivial": forbiddenRun, "refused": refused, "answered": answered}})
	w.Flush()
	of.Close()
}
