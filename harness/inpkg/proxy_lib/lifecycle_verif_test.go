package snowflake_proxy

// C08, proxy side, through the real life cycle: "unless local addresses are
// explicitly kept" is a setting of a proxy LIFETIME, and package state of
// proxy/lib is global.  Pure executor of one plan printed by TLC from
// spec/SdpStrip/SdpLife.tla: a sequence of lifetimes [keep, url] run one after
// the other IN THIS PROCESS through the real SnowflakeProxy.Start() / Stop()
// against scripted brokers (httptest servers u1, u2) that hand out one offer
// (made by a pion client, helpers of rig_verif_test.go) per lifetime and
// record the description inside EVERY answer the proxy posts.  What was posted
// in each lifetime is judged by `sdpdrv judgelife` against the setting of THAT
// lifetime (TLC's table says which candidates are local host candidates).
//
// Input  (env VERIF_PLAN): {"name":..,"lives":[{"keep":bool,"url":"u1"|"u2","expect":"stripped"|"any"},...]}
// Output (env VERIF_OUT):  ndjson {"ev":"answer","life":n,"keep":b,"url":..,"expect":..,"at":"u1"|"u2","sent":sdp}
//                                 {"ev":"life","life":n,"answers":k,"stopped":bool} ... {"ev":"end"} | {"ev":"skip","why":..}

import (
	"bufio"
	"encoding/json"
	"io/ioutil"
	"log"
	"net/http"
	"net/http/httptest"
	"os"
	"sync"
	"testing"
	"time"

	"git.torproject.org/pluggable-transports/snowflake.git/v2/common/messages"
	"git.torproject.org/pluggable-transports/snowflake.git/v2/common/util"
)

type verifC08Life struct {
	Keep   bool   `json:"keep"`
	URL    string `json:"url"`
	Expect string `json:"expect"`
}

func TestVerifC08Lifecycle(t *testing.T) {
	planPath, outPath := os.Getenv("VERIF_PLAN"), os.Getenv("VERIF_OUT")
	if planPath == "" || outPath == "" {
		t.Skip("VERIF_PLAN / VERIF_OUT not set")
	}
	var plan struct {
		Name  string         `json:"name"`
		Lives []verifC08Life `json:"lives"`
	}
	b, err := ioutil.ReadFile(planPath)
	if err != nil {
		t.Fatal(err)
	}
	if err := json.Unmarshal(b, &plan); err != nil || len(plan.Lives) == 0 {
		t.Fatalf("plan: %v", err)
	}
	of, err := os.Create(outPath)
	if err != nil {
		t.Fatal(err)
	}
	defer of.Close()
	w := bufio.NewWriter(of)
	var mu sync.Mutex
	put := func(v map[string]interface{}) {
		mu.Lock()
		defer mu.Unlock()
		enc := json.NewEncoder(w)
		enc.SetEscapeHTML(false)
		enc.Encode(v)
		w.Flush()
	}
	if !vHasNonLoopback() {
		put(map[string]interface{}{"ev": "skip", "why": "no non-loopback IPv4 interface: pion cannot gather candidates"})
		t.Skip("no non-loopback interface")
	}
	log.SetOutput(ioutil.Discard)
	stun := vStartSTUN(t)

	// the scripted brokers
	life := 0          // current lifetime, 1-based (under mu)
	offer := ""        // offer to hand out in this lifetime
	offered := false   // ... already handed out
	answers := 0       // answers recorded in this lifetime
	gotAnswer := make(chan struct{}, 64)
	handler := func(at string) http.HandlerFunc {
		return func(rw http.ResponseWriter, req *http.Request) {
			body, _ := ioutil.ReadAll(req.Body)
			switch req.URL.Path {
			case "/proxy":
				mu.Lock()
				give := !offered && offer != ""
				if give {
					offered = true
				}
				o := offer
				mu.Unlock()
				var resp []byte
				if give {
					resp, _ = messages.EncodePollResponseWithRelayURL(o, true, "unknown", "", "")
				} else {
					resp, _ = messages.EncodePollResponse("", false, "")
				}
				rw.Write(resp)
			case "/answer":
				ans, _, err := messages.DecodeAnswerRequest(body)
				sent := ""
				if err == nil {
					if d, err := util.DeserializeSessionDescription(ans); err == nil {
						sent = d.SDP
					}
				}
				mu.Lock()
				l := life
				answers++
				mu.Unlock()
				if l >= 1 && l <= len(plan.Lives) {
					lv := plan.Lives[l-1]
					put(map[string]interface{}{"ev": "answer", "life": l, "keep": lv.Keep, "url": lv.URL, "expect": lv.Expect, "at": at, "sent": sent, "undecodable": sent == ""})
				}
				resp, _ := messages.EncodeAnswerResponse(false) // "client gone": the session ends at once
				rw.Write(resp)
				select {
				case gotAnswer <- struct{}{}:
				default:
				}
			default:
				http.Error(rw, "no such service", http.StatusServiceUnavailable) // /probe: the NAT type stays unknown
			}
		}
	}
	servers := map[string]*httptest.Server{"u1": httptest.NewServer(handler("u1")), "u2": httptest.NewServer(handler("u2"))}
	defer servers["u1"].Close()
	defer servers["u2"].Close()

	for i, lv := range plan.Lives {
		cl, err := vNewClient(i)
		if err != nil {
			t.Fatalf("client: %v", err)
		}
		srv := servers[lv.URL]
		if srv == nil {
			t.Fatalf("unknown url %q", lv.URL)
		}
		for len(gotAnswer) > 0 {
			<-gotAnswer
		}
		mu.Lock()
		life, offer, offered, answers = i+1, cl.offer, false, 0
		mu.Unlock()
		sf := &SnowflakeProxy{
			Capacity:               1,
			STUNURL:                stun,
			BrokerURL:              srv.URL + "/",
			NATProbeURL:            srv.URL + "/probe",
			RelayURL:               "wss://relay.invalid/",
			RelayDomainNamePattern: "$",
			KeepLocalAddresses:     lv.Keep,
		}
		done := make(chan error, 1)
		go func() { done <- sf.Start() }()
		select {
		case <-gotAnswer:
		case <-time.After(60 * time.Second):
		}
		sf.Stop()
		stopped := false
		select {
		case <-done:
			stopped = true
		case <-time.After(60 * time.Second):
		}
		mu.Lock()
		n := answers
		offer = ""
		mu.Unlock()
		cl.pc.Close()
		put(map[string]interface{}{"ev": "life", "life": i + 1, "keep": lv.Keep, "url": lv.URL, "answers": n, "stopped": stopped})
		if !stopped {
			break // package state would be shared by two running proxies: not a scenario of the model
		}
	}
	put(map[string]interface{}{"ev": "end"})
}
