package snowflake_proxy

// C06(d): a tampering broker hands the real proxy relay URLs of every class;
// a harness client opens the data channel so that an accepted offer reaches
// the dial.  The rig records which decoy listeners saw a TCP connection and
// which names the dialer was asked to resolve, per case.  What is allowed is
// decided elsewhere (the table printed by TLC from spec/ProxySession).

import (
	"net/http"
	"testing"
	"time"

	"git.torproject.org/pluggable-transports/snowflake.git/v2/common/messages"
	"git.torproject.org/pluggable-transports/snowflake.git/v2/common/util"
)

func TestVerifC06dRelayPolicy(t *testing.T) {
	r := vNewRig(t)
	defer r.finish()
	r.autoRelay = true
	r.startProxy()
	wait := time.Duration(r.plan.WaitMS) * time.Millisecond
	fail := func(i int, why string) {
		r.log(vEvent{"ev": "diverged", "case": i, "why": why})
		t.Logf("case %d: %s", i, why)
	}
	nextPoll := func() *vPoll {
		select {
		case p := <-r.polls:
			return p
		case <-time.After(wait):
			return nil
		}
	}
	p := nextPoll()
	if p == nil {
		fail(-1, "no first poll")
		return
	}
	for i, class := range r.plan.Cases {
		r.mu.Lock()
		s := r.cur
		r.mu.Unlock()
		cl, err := vNewClient(s)
		if err != nil {
			fail(i, "harness client: "+err.Error())
			return
		}
		r.mu.Lock()
		r.clients[s] = cl
		nExit := 0
		for _, e := range r.events {
			if e["ev"] == "rs.exit" {
				nExit++
			}
		}
		r.logLocked(vEvent{"ev": "case.begin", "case": i, "cls": class, "s": s, "url": vURL(class, s)})
		r.mu.Unlock()
		b, _ := messages.EncodePollResponseWithRelayURL(cl.offer, true, "unknown", vURL(class, s), "")
		p.resp <- vHTTPResp{http.StatusOK, b}
		// either the proxy refuses the offer (rs.exit) or its answer arrives
		exited := make(chan bool, 1)
		go func() { exited <- r.waitEvent("rs.exit", nExit+1, wait, evIs("rs.exit")) }()
		select {
		case a := <-r.answers:
			ok, _ := messages.EncodeAnswerResponse(true)
			a.resp <- vHTTPResp{http.StatusOK, ok}
			desc, err := util.DeserializeSessionDescription(a.answer)
			if err != nil {
				fail(i, "answer undecodable: "+err.Error())
				return
			}
			if err := cl.pc.SetRemoteDescription(*desc); err != nil {
				fail(i, "client SetRemoteDescription: "+err.Error())
				return
			}
			if !r.waitEvent("rs.ondc", 1, wait, evIsS("rs.ondc", s)) {
				fail(i, "data channel did not open")
				return
			}
			// the handler runs to its end: dial failed, or the decoy closed at once
			if !r.waitEvent("dh.end", 1, wait, evIsS("dh.end", s)) {
				fail(i, "handler did not end")
				return
			}
			<-exited
		case ok := <-exited:
			if !ok {
				fail(i, "neither an answer nor an exit")
				return
			}
		}
		cl.pc.Close()
		// the window of the case stays open until the loop polls again
		p = nextPoll()
		if p == nil {
			fail(i, "no poll after the case")
			return
		}
		r.log(vEvent{"ev": "case.end", "case": i})
	}
	r.mu.Lock()
	r.logLocked(vEvent{"ev": "end", "count": tokens.count(), "len": len(tokens.ch), "held": r.held})
	r.mu.Unlock()
}
