package snowflake_proxy

// ProxyRelay: the data path of established proxy sessions.  A plan is a
// behaviour printed by TLC from spec/ProxyRelay (environment steps: client /
// relay send a message of a given size, client closes or falls silent, relay
// closes) preceded by the C16 steps that establish the sessions.  Payloads are
// a keyed byte stream per session and direction, so that a byte that is out
// of order, duplicated or from another session is recognised by the receiver.
// The rig records what the relay WebSockets and the harness clients receive,
// the hook events of the proxy's data path and the EventOnProxyConnectionOver
// figures as a listener of the proxy's own dispatcher sees them.  TLC
// validates the log against ProxyRelay_Trace (and ProxySession_Trace for the
// slots); nothing is decided here.

import (
	"fmt"
	"sync"
	"testing"
	"time"

	"github.com/gorilla/websocket"
	"github.com/pion/webrtc/v3"
)

func vMix(z uint64) uint64 {
	z = (z ^ (z >> 30)) * 0xbf58476d1ce4e5b9
	z = (z ^ (z >> 27)) * 0x94d049bb133111eb
	return z ^ (z >> 31)
}

// vStream is one direction of one session: byte i is a keyed function of i.
type vStream struct {
	key uint64
	pos uint64
}

func vNewStream(seed uint64, s int, dir uint64) *vStream {
	return &vStream{key: vMix(seed*0x9e3779b97f4a7c15 + uint64(s)*1000003 + dir*7919 + 1)}
}
func (st *vStream) at(i uint64) byte { return byte(vMix(st.key + 0x9e3779b97f4a7c15*(i+1))) }
func (st *vStream) next(n int) []byte {
	b := make([]byte, n)
	for i := range b {
		b[i] = st.at(st.pos + uint64(i))
	}
	st.pos += uint64(n)
	return b
}

// check consumes b as the continuation of the stream.
func (st *vStream) check(b []byte) bool {
	ok := true
	for i := range b {
		if b[i] != st.at(st.pos+uint64(i)) {
			ok = false
		}
	}
	st.pos += uint64(len(b))
	return ok
}

type vSessData struct {
	upTx, upRx, downTx, downRx *vStream
	gone                       bool          // the client has fallen silent: its events are not recorded any more
	closed                     bool          // the client has closed: what its callback is still handed is not recorded
	stall                      chan struct{} // non-nil: the client's OnMessage parks here (a reader that does not keep up)
}

type vData struct {
	mu   sync.Mutex
	sess map[int]*vSessData
	seed uint64
}

func (d *vData) get(s int) *vSessData {
	d.mu.Lock()
	defer d.mu.Unlock()
	sd := d.sess[s]
	if sd == nil {
		sd = &vSessData{upTx: vNewStream(d.seed, s, 1), upRx: vNewStream(d.seed, s, 1),
			downTx: vNewStream(d.seed, s, 2), downRx: vNewStream(d.seed, s, 2)}
		d.sess[s] = sd
	}
	return sd
}

type vSettle struct {
	Up   int `json:"up"`   // bytes at the relay
	Down int `json:"down"` // bytes at the client
	Over int `json:"over"` // connection-over events of the session
	Ret  int `json:"ret"`  // handler ended (slot back)
}

func countEv(evs []vEvent, ev string, s int) int {
	c := 0
	for _, e := range evs {
		if e["ev"] == ev {
			if es, _ := e["s"].(int); es == s {
				c++
			}
		}
	}
	return c
}

// dataEnd lets one end of session s close: who = clientdc (the client closes its data channel), client
// (the client tears its peer connection down) or relay (the relay closes its WebSocket).  The data-path
// event ev, and the first time also the relay.end mark of the C16 log, are written BEFORE the act; an
// end that has already closed, or a relay whose WebSocket the proxy has closed, does nothing.
func (r *vRig) dataEnd(s int, who, ev string) {
	r.mu.Lock()
	rc, cl := r.relays[s], r.clients[s]
	if rc == nil || cl == nil {
		r.mu.Unlock()
		return
	}
	if who == "relay" {
		if rc.relayClosed || rc.byProxy {
			r.mu.Unlock()
			return
		}
		rc.relayClosed = true
	} else {
		if cl.closed {
			r.mu.Unlock()
			return
		}
		cl.closed = true
	}
	r.logLocked(vEvent{"ev": ev, "s": s})
	if !rc.ended {
		rc.ended = true
		r.held--
		r.logLocked(vEvent{"ev": "relay.end", "s": s, "by": who})
	}
	r.mu.Unlock()
	switch who {
	case "relay":
		rc.ws.Close()
	case "client":
		cl.pc.Close()
	default:
		cl.dc.Close()
	}
}

func TestVerifRelayReplay(t *testing.T) {
	r := vNewRig(t)
	defer r.finish()
	data := &vData{sess: map[int]*vSessData{}, seed: r.plan.Seed}
	r.onRelayMsg = func(s int, msg []byte) {
		sd := data.get(s)
		// decided and recorded under r.mu, like relay.close: a relay that has closed takes nothing any more
		// (a message its read loop had already in hand is not a receipt after the close)
		r.mu.Lock()
		defer r.mu.Unlock()
		if rc := r.relays[s]; rc != nil && rc.relayClosed {
			return
		}
		ok := sd.upRx.check(msg)
		r.logLocked(vEvent{"ev": "relay.recv", "s": s, "n": len(msg), "total": int(sd.upRx.pos), "ok": ok})
	}
	r.onOver = func(in, out int) { r.log(vEvent{"ev": "event.over", "in": in, "out": out}) }
	r.hGate = true
	r.phG = vGID()
	r.startProxy()
	sc := &vSched{r: r, wait: time.Duration(r.plan.WaitMS) * time.Millisecond, count: map[string]int{}, rreq: map[int]*vRelayReq{}}
	hooked := map[int]bool{}
	var err error
	for i, st := range r.plan.Steps {
		sc.step = i
		sc.since = time.Since(r.t0)
		s := argInt(st, 0)
		switch st.Act {
		case "ArmWrite":
			r.mu.Lock()
			if r.wrGate == nil {
				r.wrGate = map[int]chan struct{}{}
			}
			r.wrGate[s] = make(chan struct{})
			r.mu.Unlock()
		case "AwaitCounted":
			if !r.waitEvent("conn.write.counted", 1, sc.wait, evIsS("conn.write.counted", s)) {
				err = sc.diverged(st, "no chunk reached conn.Write")
			}
		case "AwaitOver":
			if !r.waitEvent("dc.onclose", 1, sc.wait, evIsS("dc.onclose", s)) {
				err = sc.diverged(st, "OnClose did not run")
			}
		case "ReleaseWrite":
			r.mu.Lock()
			wg := r.wrGate[s]
			delete(r.wrGate, s)
			r.mu.Unlock()
			if wg != nil {
				close(wg)
			}
		case "ArmClEnd":
			r.mu.Lock()
			if r.clGate == nil {
				r.clGate = map[int]chan struct{}{}
			}
			r.clGate[s] = make(chan struct{})
			r.mu.Unlock()
		case "ReleaseClEnd":
			if !r.waitEvent("cl.end", 1, sc.wait, evIsS("cl.end", s)) {
				err = sc.diverged(st, "copyLoop did not end")
				break
			}
			r.mu.Lock()
			cg := r.clGate[s]
			delete(r.clGate, s)
			r.mu.Unlock()
			if cg != nil {
				close(cg)
			}
		case "ClientSendUntilStuck":
			// keep sending until a message is not taken off the pipe any more (no dc.onmsg for it):
			// the copier towards the relay has ended, OnMessage is parked in its pipe write
			r.mu.Lock()
			cl := r.clients[s]
			r.mu.Unlock()
			sd := data.get(s)
			n, max := argInt(st, 1), argInt(st, 2)
			stuck := false
			for i := 0; i < max && !stuck; i++ {
				r.mu.Lock()
				have := countEv(r.events, "dc.onmsg", s)
				r.mu.Unlock()
				r.log(vEvent{"ev": "client.send", "s": s, "n": n})
				cl.dc.Send(sd.upTx.next(n))
				if !r.waitEvent("dc.onmsg", have+1, 1500*time.Millisecond, evIsS("dc.onmsg", s)) {
					stuck = true
				}
			}
			r.log(vEvent{"ev": "harness.note", "what": fmt.Sprintf("stuck=%v", stuck)})
		case "ClientStallsReading":
			sd := data.get(s)
			data.mu.Lock()
			if sd.stall == nil {
				sd.stall = make(chan struct{})
			}
			r.log(vEvent{"ev": "client.stall", "s": s})
			data.mu.Unlock()
		case "ClientResumes":
			sd := data.get(s)
			data.mu.Lock()
			r.log(vEvent{"ev": "client.resume", "s": s})
			if sd.stall != nil {
				close(sd.stall)
				sd.stall = nil
			}
			data.mu.Unlock()
		case "RelaySendBulk":
			// the relay pushes more than any buffer on the way holds, in the background (its writes may
			// block); every message is announced before it is written
			r.mu.Lock()
			rc := r.relays[s]
			r.mu.Unlock()
			if rc == nil {
				err = sc.diverged(st, "session is not established")
				break
			}
			r.mu.Lock()
			for rc.ws == nil && !rc.failed {
				r.cond.Wait()
			}
			r.mu.Unlock()
			sd := data.get(s)
			total := argInt(st, 1)
			go func() {
				for total > 0 {
					n := 65536
					if total < n {
						n = total
					}
					total -= n
					b := sd.downTx.next(n)
					r.mu.Lock()
					dead := rc.relayClosed || rc.byProxy
					if !dead {
						r.logLocked(vEvent{"ev": "relay.send", "s": s, "n": n})
					}
					r.mu.Unlock()
					if dead {
						return
					}
					if e := rc.ws.WriteMessage(websocket.BinaryMessage, b); e != nil {
						r.log(vEvent{"ev": "harness.note", "what": fmt.Sprintf("bulk send stopped: %v", e)})
						return
					}
				}
				r.log(vEvent{"ev": "harness.note", "what": "bulk sent"})
			}()
		case "AwaitBulkQuiet":
			// scheduling only: go on when nothing of the session has moved for half a second (everything is
			// through, or it has piled up as far as it goes)
			last, quiet := -1, 0
			deadline := time.Now().Add(sc.wait)
			for quiet < 5 && time.Now().Before(deadline) {
				time.Sleep(100 * time.Millisecond)
				r.mu.Lock()
				now := 0
				for _, e := range r.events {
					if es, _ := e["s"].(int); es == s && (e["ev"] == "relay.send" || e["ev"] == "conn.write" || e["ev"] == "client.recv") {
						now++
					}
				}
				r.mu.Unlock()
				if now == last {
					quiet++
				} else {
					quiet = 0
				}
				last = now
			}
		case "ClientRecvSettle":
			// nothing to do: only what has to be observed before going on
		case "ClientSend", "RelaySend", "ClientCloseDc", "ClientAbort", "ClientVanish", "RelayCloseWs":
			r.mu.Lock()
			cl, rc := r.clients[s], r.relays[s]
			r.mu.Unlock()
			if cl == nil || rc == nil {
				err = sc.diverged(st, "session is not established")
				break
			}
			r.mu.Lock()
			for rc.ws == nil && !rc.failed {
				r.cond.Wait() // upgrade in progress
			}
			r.mu.Unlock()
			sd := data.get(s)
			switch st.Act {
			case "ClientSend":
				n := argInt(st, 1)
				b := sd.upTx.next(n)
				r.log(vEvent{"ev": "client.send", "s": s, "n": n})
				if e := cl.dc.Send(b); e != nil {
					r.log(vEvent{"ev": "harness.note", "what": fmt.Sprintf("client send of %d bytes failed: %v", n, e)})
				}
			case "RelaySend":
				n := argInt(st, 1)
				b := sd.downTx.next(n)
				r.log(vEvent{"ev": "relay.send", "s": s, "n": n})
				if e := rc.ws.WriteMessage(websocket.BinaryMessage, b); e != nil {
					r.log(vEvent{"ev": "harness.note", "what": fmt.Sprintf("relay send of %d bytes failed: %v", n, e)})
				}
			case "ClientCloseDc", "ClientAbort":
				data.mu.Lock()
				sd.closed = true
				data.mu.Unlock()
				if st.Act == "ClientCloseDc" {
					// graceful: the data channel is closed, what was sent before arrives before the end
					r.dataEnd(s, "clientdc", "client.close")
				} else {
					// the whole peer connection is torn down at once: what is in flight may be lost
					r.dataEnd(s, "client", "client.abort")
				}
				data.mu.Lock()
				if sd.stall != nil {
					close(sd.stall) // the parked callback returns; what it is still handed is dropped
					sd.stall = nil
				}
				data.mu.Unlock()
			case "ClientVanish":
				// the client falls silent: it never sends, reads or closes again.  (Its transport goes
				// on answering keep-alives; what the proxy's code sees is the same: no signal.)
				data.mu.Lock()
				sd.gone = true
				data.mu.Unlock()
				r.log(vEvent{"ev": "client.vanish", "s": s})
			case "RelayCloseWs":
				r.dataEnd(s, "relay", "relay.close")
			}
		default:
			err = sc.exec(st)
			if err == nil && st.Act == "Offer" {
				// the client of the session that was just offered: record what it receives
				r.mu.Lock()
				k := r.cur
				cl := r.clients[k]
				r.mu.Unlock()
				if cl != nil && !hooked[k] {
					hooked[k] = true
					sd := data.get(k)
					cl.dc.OnMessage(func(m webrtc.DataChannelMessage) {
						data.mu.Lock()
						st := sd.stall
						data.mu.Unlock()
						if st != nil {
							<-st // the reader does not keep up: everything behind this message waits in the transport
						}
						// decided and recorded under data.mu, like client.stall: a receipt is either logged before
						// the stall or waits for its end
						data.mu.Lock()
						for sd.stall != nil && !(sd.gone || sd.closed) {
							st2 := sd.stall
							data.mu.Unlock()
							<-st2
							data.mu.Lock()
						}
						if sd.gone || sd.closed {
							data.mu.Unlock()
							return
						}
						ok := sd.downRx.check(m.Data)
						r.log(vEvent{"ev": "client.recv", "s": k, "n": len(m.Data), "total": int(sd.downRx.pos), "ok": ok})
						data.mu.Unlock()
					})
					cl.dc.OnClose(func() {
						data.mu.Lock()
						gone := sd.gone
						data.mu.Unlock()
						if !gone {
							r.log(vEvent{"ev": "client.sawclose", "s": k})
						}
					})
				}
			}
		}
		if err != nil {
			break
		}
		if st.Settle != nil {
			for ks, want := range st.Settle {
				var k int
				fmt.Sscanf(ks, "%d", &k)
				w := want
				ok := r.waitCond(sc.wait, func(evs []vEvent) bool {
					up, down := 0, 0
					for _, e := range evs {
						if es, _ := e["s"].(int); es == k {
							if e["ev"] == "relay.recv" {
								up += e["n"].(int)
							} else if e["ev"] == "client.recv" {
								down += e["n"].(int)
							}
						}
					}
					return up >= w.Up && down >= w.Down && countEv(evs, "dc.onclose", k) >= w.Over && countEv(evs, "dh.end", k) >= w.Ret
				})
				if !ok {
					err = sc.diverged(st, fmt.Sprintf("session %d did not settle at %+v", k, w))
					break
				}
			}
			if err != nil {
				break
			}
		}
	}
	if err == nil {
		time.Sleep(300 * time.Millisecond) // let stragglers (a repeated event, a late callback) show up
		r.mu.Lock()
		r.logLocked(vEvent{"ev": "end", "count": tokens.count(), "len": len(tokens.ch), "held": r.held})
		r.mu.Unlock()
	} else {
		t.Logf("replay stopped: %v", err)
	}
}
