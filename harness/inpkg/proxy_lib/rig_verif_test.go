package snowflake_proxy

// Verification rig for C16 and C06(d): the real SnowflakeProxy.Start() against
//   - a scripted broker (HTTP server answering /proxy, /answer, /probe),
//   - harness pion clients that create the offers and open (or do not open)
//     the data channel,
//   - decoy relay listeners reached through a name table installed as the
//     NetDial of gorilla's default dialer (the stand-in for DNS),
//   - a local STUN responder (so that ICE gathering does not wait 5 s for an
//     unreachable server).
// The rig only executes a plan (a behaviour printed by TLC) and records what
// the real code does; it decides nothing.  Package state of proxy/lib is
// global, so ONE proxy per test process.

import (
	"bufio"
	"encoding/json"
	"fmt"
	"io/ioutil"
	"net"
	"net/http"
	"net/http/httptest"
	"net/url"
	"os"
	"runtime"
	"strconv"
	"strings"
	"sync"
	"testing"
	"time"

	"git.torproject.org/pluggable-transports/snowflake.git/v2/common/event"
	"git.torproject.org/pluggable-transports/snowflake.git/v2/common/messages"
	"git.torproject.org/pluggable-transports/snowflake.git/v2/common/util"
	"github.com/gorilla/websocket"
	"github.com/pion/ice/v2"
	"github.com/pion/stun"
	"github.com/pion/webrtc/v3"
)

// ---------------------------------------------------------------------------
// plan and events

type vStep struct {
	Act    string             `json:"act"`
	Args   []interface{}      `json:"args"`
	Settle map[string]vSettle `json:"settle"` // data path: what has to be observed before the next step (per session)
}

type vPlan struct {
	Name     string  `json:"name"`
	Capacity uint    `json:"capacity"`
	Pattern  string  `json:"pattern"` // abstract: suffix | exact | any
	Allow    bool    `json:"allow"`
	Seed     uint64  `json:"seed"`
	Steps    []vStep `json:"steps"`
	WaitMS   int     `json:"wait_ms"`  // upper bound for one awaited proxy step (generous)
	Epilogue bool    `json:"epilogue"` // wait for the poll after the last session
	// C06(d)
	Cases []string `json:"cases"` // relay-URL classes, one session each
}

type vEvent map[string]interface{}

const (
	nameInside  = "snowflake.torproject.net"
	nameOutside = "evil.example.com"
	nameDefault = "default-relay.example.org"
)

func vPatternString(p string) string {
	switch p {
	case "suffix":
		return nameInside + "$"
	case "exact":
		return "^" + nameInside + "$"
	case "any":
		return "$"
	}
	panic("unknown pattern " + p)
}

// vURL concretises an abstract relay-URL class. s is carried in the query so
// that the relay listener can tell the sessions apart.
func vURL(class string, s int) string {
	q := "?s=" + strconv.Itoa(s)
	switch class {
	case "in_wss":
		return "wss://" + nameInside + "/" + q
	case "in_ws":
		return "ws://" + nameInside + "/" + q
	case "in_https":
		return "https://" + nameInside + "/" + q
	case "in_port":
		return "wss://" + nameInside + ":8443/" + q
	case "sub_wss":
		return "wss://01." + nameInside + "/" + q
	case "glue_wss":
		return "wss://evil" + nameInside + "/" + q
	case "upper_wss":
		return "wss://" + strings.ToUpper(nameInside) + "/" + q
	case "out_wss":
		return "wss://" + nameOutside + "/" + q
	case "out_ws":
		return "ws://" + nameOutside + "/" + q
	case "out_inpath":
		return "wss://" + nameOutside + "/" + nameInside + q
	case "ui_in_at_out":
		return "wss://" + nameInside + "@" + nameOutside + "/" + q
	case "ui_out_at_in":
		return "wss://" + nameOutside + "@" + nameInside + "/" + q
	case "opaque":
		return "wss:" + nameInside + q
	case "empty":
		return ""
	case "unparsable":
		return "wss://" + nameInside + "/%zz" + q
	}
	panic("unknown class " + class)
}

// ---------------------------------------------------------------------------
// rig

type vPoll struct {
	sid     string
	clients int
	resp    chan vHTTPResp
}

type vAnswer struct {
	sid    string
	answer string
	resp   chan vHTTPResp
}

type vHTTPResp struct {
	status int
	body   []byte
}

type vRelayReq struct {
	s      int
	which  string
	decide chan bool // true: accept
}

type vRelayConn struct {
	s           int
	ws          *websocket.Conn // nil until the upgrade is done
	failed      bool
	ended       bool // relay.end logged
	byProxy     bool // ... because the proxy closed the WebSocket
	relayClosed bool // data path: the relay itself has closed it
}

type vClient struct {
	closed bool // data path: the client has closed (data channel or peer connection)
	pc     *webrtc.PeerConnection
	dc     *webrtc.DataChannel
	offer  string
}

type vRig struct {
	t    *testing.T
	plan *vPlan
	t0   time.Time

	mu     sync.Mutex
	cond   *sync.Cond
	events []vEvent
	out    *bufio.Writer
	outf   *os.File

	mainG     int64
	phG       int64         // goroutine of the scheduler: its tokens.get()/ret() calls are phantom sessions
	handlerG  map[int64]int // goroutine id -> session
	lastOnDC  int
	cur       int            // sessions started = number of tok.get events
	sidOf     map[string]int // broker-visible sid -> session
	held      int
	gateArmed bool
	gateAt    chan struct{}
	gateGo    chan struct{}
	hGate     bool                  // hold every handler goroutine at dh.start
	hGateGo   map[int]chan struct{} // session -> release

	polls      chan *vPoll
	answers    chan *vAnswer
	relayReqs  chan *vRelayReq
	relays     map[int]*vRelayConn
	connS      map[*webRTCConn]int         // data path: conn -> session (rs.conn hook)
	dcS        map[*webrtc.DataChannel]int // data path: proxy-side data channel -> session
	wrGate     map[int]chan struct{}       // data path: sessions whose conn.Write is to be held after it has counted the chunk
	clGate     map[int]chan struct{}       // data path: sessions whose handler is to be held at cl.end (after copyLoop's select)
	onRelayMsg func(s int, msg []byte)     // data path: every WebSocket message a relay receives
	onOver     func(in, out int)           // data path: EventOnProxyConnectionOver as a listener of the proxy's dispatcher sees it
	defaultQ   []int                       // sessions whose handler dialled the operator's default relay URL, oldest first
	ownAddr    map[string]int              // distinguishing client address -> session it was made for
	clients    map[int]*vClient
	ansOf      map[int]string

	listeners map[string]net.Listener // "inside", "inside-tls", "outside", "outside-tls", "default"
	autoRelay bool                    // C06(d): decoys accept and close at once
	broker    *httptest.Server
	stunAddr  string
	rng       uint64
	nkind     map[string]int
}

func vGID() int64 {
	var buf [64]byte
	n := runtime.Stack(buf[:], false)
	f := strings.Fields(string(buf[:n]))
	if len(f) < 2 {
		return -1
	}
	id, _ := strconv.ParseInt(f[1], 10, 64)
	return id
}

// variant picks the fault variant for the k-th occurrence of a fault kind: a
// seeded start, then round robin, so that a run goes through all of them.
func (r *vRig) variant(kind string, n int) int {
	if r.nkind == nil {
		r.nkind = map[string]int{}
	}
	k := r.nkind[kind]
	r.nkind[kind]++
	return (int(r.plan.Seed%uint64(n)) + k) % n
}

func (r *vRig) rand(n int) int {
	r.rng += 0x9e3779b97f4a7c15
	z := r.rng
	z = (z ^ (z >> 30)) * 0xbf58476d1ce4e5b9
	z = (z ^ (z >> 27)) * 0x94d049bb133111eb
	z = z ^ (z >> 31)
	return int(z % uint64(n))
}

// logLocked appends an event; r.mu must be held.
func (r *vRig) logLocked(e vEvent) {
	e["seq"] = len(r.events) + 1
	e["t"] = time.Since(r.t0).Milliseconds()
	r.events = append(r.events, e)
	b, _ := json.Marshal(e)
	r.out.Write(b)
	r.out.WriteByte('\n')
	r.out.Flush()
	r.cond.Broadcast()
}

func (r *vRig) log(e vEvent) {
	r.mu.Lock()
	r.logLocked(e)
	r.mu.Unlock()
}

// hook is installed as VerifHook.
func (r *vRig) hook(point string, args ...interface{}) {
	gid := vGID()
	r.mu.Lock()
	e := vEvent{"ev": point}
	switch point {
	case "tok.get.inc", "tok.get", "tok.ret.dec", "tok.ret":
		if point == "tok.get.inc" && r.mainG == 0 {
			r.mainG = gid
		}
		e["count"] = args[0]
		e["len"] = args[1]
		if point == "tok.get" && gid == r.mainG {
			r.cur++
		}
	case "rs.exit":
		e["kind"] = args[0]
	case "rs.ondc":
		lbl, _ := args[0].(string)
		s, _ := strconv.Atoi(strings.TrimPrefix(lbl, "s"))
		r.lastOnDC = s
		e["s"] = s
	case "rs.conn":
		dc, _ := args[0].(*webrtc.DataChannel)
		conn, _ := args[1].(*webRTCConn)
		s2, _ := strconv.Atoi(strings.TrimPrefix(dc.Label(), "s"))
		if r.connS == nil {
			r.connS, r.dcS = map[*webRTCConn]int{}, map[*webrtc.DataChannel]int{}
		}
		r.connS[conn], r.dcS[dc] = s2, s2
		e["s"] = s2
	case "dc.onmsg":
		dc, _ := args[0].(*webrtc.DataChannel)
		e["s"], e["n"], e["len"] = r.dcS[dc], args[1], args[2]
	case "dc.onclose":
		dc, _ := args[0].(*webrtc.DataChannel)
		e["s"], e["in"], e["out"] = r.dcS[dc], args[1], args[2]
	case "conn.write":
		conn, _ := args[0].(*webRTCConn)
		e["s"], e["n"], e["sent"] = r.connS[conn], args[1], args[2]
	case "conn.write.counted":
		conn, _ := args[0].(*webRTCConn)
		e["s"], e["n"] = r.connS[conn], args[1]
	case "conn.pcclose":
		conn, _ := args[0].(*webRTCConn)
		e["s"] = r.connS[conn]
	case "cl.end":
		if conn, ok := args[0].(*webRTCConn); ok {
			e["s"] = r.connS[conn]
		}
	case "dh.start":
		// the handler goroutine is spawned by the callback that has just logged rs.ondc
		r.handlerG[gid] = r.lastOnDC
	case "dh.dial":
		us, _ := args[0].(string)
		e["url"] = us
		if u, err := url.Parse(us); err == nil {
			if v, _ := strconv.Atoi(u.Query().Get("s")); v == 0 {
				// the default relay URL carries no session mark: its connections are told apart by order
				r.defaultQ = append(r.defaultQ, r.sessionOfG(gid))
			}
		}
		if _, known := r.handlerG[gid]; !known {
			s := r.lastOnDC
			if u, err := url.Parse(us); err == nil {
				if v, _ := strconv.Atoi(u.Query().Get("s")); v > 0 {
					s = v
				}
			}
			r.handlerG[gid] = s
		}
	}
	if gid == r.mainG {
		e["g"] = "main"
		e["s"] = r.cur
	} else if gid == r.phG && r.phG != 0 {
		e["g"] = "ph"
	} else if s, ok := r.handlerG[gid]; ok {
		e["g"] = "h"
		e["s"] = s
	} else if point != "rs.ondc" {
		e["g"] = "?"
	} else {
		e["g"] = "cb"
	}
	r.logLocked(e)
	gate := point == "rs.dctimeout" && r.gateArmed
	var hg chan struct{}
	if point == "dh.start" && r.hGate {
		hg = make(chan struct{})
		r.hGateGo[r.handlerG[gid]] = hg
		r.cond.Broadcast()
	}
	r.mu.Unlock()
	if hg != nil {
		<-hg // gate: before the handler decides whether the slot is its own
	}
	if point == "conn.write.counted" {
		r.mu.Lock()
		s2, _ := e["s"].(int)
		wg := r.wrGate[s2]
		r.mu.Unlock()
		if wg != nil {
			<-wg // gate: the chunk is counted, conn.lock not yet taken
		}
	}
	if point == "cl.end" {
		r.mu.Lock()
		s2, _ := e["s"].(int)
		cg := r.clGate[s2]
		r.mu.Unlock()
		if cg != nil {
			<-cg // gate: copyLoop has seen one copier end, nothing is closed yet
		}
	}
	if gate {
		// gate: hold the main loop at the start of its timeout branch until the
		// scheduler releases it (outside every lock of the code under test)
		r.gateAt <- struct{}{}
		<-r.gateGo
	}
}

func (r *vRig) sessionOfG(gid int64) int {
	if s, ok := r.handlerG[gid]; ok {
		return s
	}
	return r.lastOnDC
}

// toldOf names the client_ip a relay was told: absent, the distinguishing
// address made for session k, the real address of this machine, or other.
func (r *vRig) toldOf(ip string) (string, int) {
	if ip == "" {
		return "absent", 0
	}
	if k, ok := r.ownAddr[ip]; ok {
		return "own", k
	}
	addrs, _ := net.InterfaceAddrs()
	for _, a := range addrs {
		if ipn, ok := a.(*net.IPNet); ok && ipn.IP.String() == ip {
			return "real", 0
		}
	}
	return "other", 0
}

// vOwnAddr is the distinguishing (documentation-range, hence "remote") address of session s.
func vOwnAddr(s int) string { return "198.51.100." + strconv.Itoa(10+s%200) }

// vMungeOffer rewrites the candidates of a serialized offer so that
// remoteIPFromSDP derives what the behaviour says:
//
//	own   an extra FIRST candidate with the session's distinguishing address
//	      (the real candidates stay, so ICE still connects)
//	none  no usable candidate: all candidate lines removed, or all of them
//	      rewritten to local / loopback / unspecified addresses (the proxy
//	      then learns the client as a peer-reflexive candidate)
//	real  untouched
func vMungeOffer(offer string, kind string, s int, variant int) (string, error) {
	if kind == "" || kind == "real" {
		return offer, nil
	}
	desc, err := util.DeserializeSessionDescription(offer)
	if err != nil {
		return "", err
	}
	lines := strings.Split(desc.SDP, "\r\n")
	var out []string
	first := true
	n := 0
	for _, ln := range lines {
		if !strings.HasPrefix(ln, "a=candidate:") {
			if kind == "none" && ln == "a=end-of-candidates" && variant == 0 {
				continue
			}
			out = append(out, ln)
			continue
		}
		f := strings.Fields(ln)
		if len(f) < 8 {
			out = append(out, ln)
			continue
		}
		switch kind {
		case "own":
			if first {
				g := append([]string{}, f...)
				g[0] = "a=candidate:4242424242"
				g[4] = vOwnAddr(s)
				out = append(out, strings.Join(g, " "))
				first = false
			}
			out = append(out, ln)
		case "none":
			if variant == 0 {
				continue // no candidate at all
			}
			n++
			f[4] = []string{"10.0.0.7", "127.0.0.1", "0.0.0.0", "192.168.1.9", "169.254.3.3", "100.64.0.1", "172.16.5.5"}[(n+variant)%7]
			out = append(out, strings.Join(f, " "))
		}
	}
	desc.SDP = strings.Join(out, "\r\n")
	return util.SerializeSessionDescription(desc)
}

// waitEvent blocks until pred holds for at least n recorded events.
func (r *vRig) waitEvent(what string, n int, d time.Duration, pred func(vEvent) bool) bool {
	deadline := time.Now().Add(d)
	timer := time.AfterFunc(d+10*time.Millisecond, func() { r.mu.Lock(); r.cond.Broadcast(); r.mu.Unlock() })
	defer timer.Stop()
	r.mu.Lock()
	defer r.mu.Unlock()
	for {
		c := 0
		for _, e := range r.events {
			if pred(e) {
				c++
			}
		}
		if c >= n {
			return true
		}
		if time.Now().After(deadline) {
			return false
		}
		r.cond.Wait()
	}
}

// waitCond blocks until pred holds for the recorded events.
func (r *vRig) waitCond(d time.Duration, pred func([]vEvent) bool) bool {
	deadline := time.Now().Add(d)
	timer := time.AfterFunc(d+10*time.Millisecond, func() { r.mu.Lock(); r.cond.Broadcast(); r.mu.Unlock() })
	defer timer.Stop()
	r.mu.Lock()
	defer r.mu.Unlock()
	for {
		if pred(r.events) {
			return true
		}
		if time.Now().After(deadline) {
			return false
		}
		r.cond.Wait()
	}
}

func evIs(ev string) func(vEvent) bool {
	return func(e vEvent) bool { return e["ev"] == ev }
}
func evIsG(ev, g string, s int) func(vEvent) bool {
	return func(e vEvent) bool {
		if e["ev"] != ev || e["g"] != g {
			return false
		}
		if s >= 0 {
			es, _ := e["s"].(int)
			return es == s
		}
		return true
	}
}
func evIsS(ev string, s int) func(vEvent) bool {
	return func(e vEvent) bool {
		es, _ := e["s"].(int)
		return e["ev"] == ev && es == s
	}
}
func evExit(kinds ...string) func(vEvent) bool {
	return func(e vEvent) bool {
		if e["ev"] != "rs.exit" {
			return false
		}
		for _, k := range kinds {
			if e["kind"] == k {
				return true
			}
		}
		return false
	}
}

// ---------------------------------------------------------------------------
// STUN responder

func vStartSTUN(t *testing.T) string {
	pc, err := net.ListenPacket("udp4", "0.0.0.0:0")
	if err != nil {
		t.Fatalf("stun listen: %v", err)
	}
	go func() {
		buf := make([]byte, 1500)
		for {
			n, from, err := pc.ReadFrom(buf)
			if err != nil {
				return
			}
			m := &stun.Message{Raw: append([]byte{}, buf[:n]...)}
			if err := m.Decode(); err != nil || m.Type != stun.BindingRequest {
				continue
			}
			ua := from.(*net.UDPAddr)
			resp, err := stun.Build(stun.NewTransactionIDSetter(m.TransactionID), stun.BindingSuccess,
				&stun.XORMappedAddress{IP: ua.IP, Port: ua.Port}, stun.Fingerprint)
			if err == nil {
				pc.WriteTo(resp.Raw, from)
			}
		}
	}()
	port := pc.LocalAddr().(*net.UDPAddr).Port
	return fmt.Sprintf("stun:127.0.0.1:%d", port)
}

// ---------------------------------------------------------------------------
// broker

func (r *vRig) serveBroker(w http.ResponseWriter, req *http.Request) {
	body, _ := ioutil.ReadAll(req.Body)
	switch req.URL.Path {
	case "/probe":
		// no probetest here: the NAT type stays "unknown"
		http.Error(w, "no probe", http.StatusServiceUnavailable)
	case "/proxy":
		sid, _, natType, clients, pattern, _, err := messages.DecodeProxyPollRequestWithRelayPrefix(body)
		if err != nil {
			r.log(vEvent{"ev": "harness.error", "what": "undecodable poll: " + err.Error()})
			http.Error(w, "bad poll", http.StatusBadRequest)
			return
		}
		p := &vPoll{sid: sid, clients: clients, resp: make(chan vHTTPResp, 1)}
		r.mu.Lock()
		if _, ok := r.sidOf[sid]; !ok {
			r.sidOf[sid] = r.cur
		}
		// the main loop is parked in this request: read the real token state
		r.logLocked(vEvent{"ev": "poll", "g": "main", "s": r.sidOf[sid], "clients": clients, "count": tokens.count(), "len": len(tokens.ch),
			"held": r.held, "nat": natType, "pattern": pattern})
		r.mu.Unlock()
		r.polls <- p
		resp := <-p.resp
		w.WriteHeader(resp.status)
		w.Write(resp.body)
	case "/answer":
		ans, sid, err := messages.DecodeAnswerRequest(body)
		if err != nil {
			r.log(vEvent{"ev": "harness.error", "what": "undecodable answer: " + err.Error()})
			http.Error(w, "bad answer", http.StatusBadRequest)
			return
		}
		a := &vAnswer{sid: sid, answer: ans, resp: make(chan vHTTPResp, 1)}
		r.mu.Lock()
		s := r.sidOf[sid]
		r.ansOf[s] = ans
		r.logLocked(vEvent{"ev": "answer", "g": "main", "s": s})
		r.mu.Unlock()
		r.answers <- a
		resp := <-a.resp
		w.WriteHeader(resp.status)
		w.Write(resp.body)
	default:
		http.NotFound(w, req)
	}
}

// ---------------------------------------------------------------------------
// relays (decoys) and the name table

type vCountingListener struct {
	net.Listener
	r     *vRig
	which string
}

func (l *vCountingListener) Accept() (net.Conn, error) {
	c, err := l.Listener.Accept()
	if err == nil {
		l.r.log(vEvent{"ev": "tcp.accept", "which": l.which})
	}
	return c, err
}

func (r *vRig) startRelay(which string, tls bool) {
	ln, err := net.Listen("tcp4", "127.0.0.1:0")
	if err != nil {
		r.t.Fatalf("relay listen: %v", err)
	}
	key := which
	if tls {
		key += "-tls"
	}
	cl := &vCountingListener{Listener: ln, r: r, which: key}
	r.listeners[key] = cl
	srv := httptest.NewUnstartedServer(http.HandlerFunc(func(w http.ResponseWriter, req *http.Request) { r.serveRelay(key, w, req) }))
	srv.Listener.Close()
	srv.Listener = cl
	if tls {
		srv.StartTLS()
	} else {
		srv.Start()
	}
}

var vUpgrader = websocket.Upgrader{CheckOrigin: func(*http.Request) bool { return true }}

func (r *vRig) serveRelay(which string, w http.ResponseWriter, req *http.Request) {
	s, _ := strconv.Atoi(req.URL.Query().Get("s"))
	ip := req.URL.Query().Get("client_ip")
	r.mu.Lock()
	if s == 0 && len(r.defaultQ) > 0 {
		s = r.defaultQ[0]
		r.defaultQ = r.defaultQ[1:]
	}
	told, of := r.toldOf(ip)
	r.logLocked(vEvent{"ev": "relay.req", "which": which, "s": s, "client_ip": ip, "told": told, "of": of})
	r.mu.Unlock()
	accept := true
	if !r.autoRelay {
		rr := &vRelayReq{s: s, which: which, decide: make(chan bool, 1)}
		r.relayReqs <- rr
		accept = <-rr.decide
	}
	if !accept {
		r.log(vEvent{"ev": "relay.refuse", "s": s})
		http.Error(w, "refused", http.StatusForbidden)
		return
	}
	// logged BEFORE the upgrade, so that the log order is the causal order:
	// whatever the proxy does once its dial has returned comes later
	rc := &vRelayConn{s: s}
	r.mu.Lock()
	r.relays[s] = rc
	r.held++
	r.logLocked(vEvent{"ev": "relay.accept", "s": s})
	r.mu.Unlock()
	ws, err := vUpgrader.Upgrade(w, req, nil)
	r.mu.Lock()
	if err != nil {
		rc.failed = true
		r.logLocked(vEvent{"ev": "harness.error", "what": "relay upgrade failed: " + err.Error()})
		r.mu.Unlock()
		return
	}
	rc.ws = ws
	r.cond.Broadcast()
	r.mu.Unlock()
	if r.autoRelay {
		r.endRelay(s, "relay")
		return
	}
	// notice when the other side goes away first
	for {
		_, msg, err := ws.ReadMessage()
		if err != nil {
			break
		}
		if r.onRelayMsg != nil {
			r.onRelayMsg(s, msg)
		}
	}
	r.mu.Lock()
	if !rc.ended {
		rc.ended = true
		rc.byProxy = true
		r.held--
		r.logLocked(vEvent{"ev": "relay.end", "s": s, "by": "proxy"})
	}
	r.mu.Unlock()
	ws.Close()
}

// endRelay ends the relayed connection of session s from outside the proxy:
// by == "relay": the relay closes its WebSocket; by == "client": the client
// closes its peer connection.  The event is logged BEFORE the close, so the
// log order is the causal order.
func (r *vRig) endRelay(s int, by string) {
	r.mu.Lock()
	rc := r.relays[s]
	for rc != nil && rc.ws == nil && !rc.failed {
		r.cond.Wait() // upgrade in progress
	}
	if rc == nil || rc.ended || rc.failed {
		r.mu.Unlock()
		return
	}
	rc.ended = true
	r.held--
	r.logLocked(vEvent{"ev": "relay.end", "s": s, "by": by})
	cl := r.clients[s]
	r.mu.Unlock()
	if by == "client" && cl != nil {
		cl.pc.Close()
	} else if by == "clientdc" && cl != nil {
		cl.dc.Close()
	} else {
		rc.ws.Close()
	}
}

func (r *vRig) netDial(network, addr string) (net.Conn, error) {
	host, port, err := net.SplitHostPort(addr)
	if err != nil {
		host, port = addr, ""
	}
	lh := strings.ToLower(host) // name resolution ignores case
	which := "other"
	switch {
	case lh == nameDefault:
		which = "default"
	case strings.HasSuffix(lh, nameInside):
		which = "inside"
	case lh == nameOutside:
		which = "outside"
	}
	r.log(vEvent{"ev": "net.dial", "host": host, "port": port, "which": which})
	if which == "other" {
		return nil, fmt.Errorf("verif name table: no such host %q", host)
	}
	key := which
	if port == "443" || port == "8443" {
		if _, ok := r.listeners[which+"-tls"]; ok {
			key = which + "-tls"
		}
	}
	return net.Dial("tcp4", r.listeners[key].Addr().String())
}

// ---------------------------------------------------------------------------
// harness WebRTC client

func vNewClient(s int) (*vClient, error) {
	se := webrtc.SettingEngine{}
	se.SetICEMulticastDNSMode(ice.MulticastDNSModeDisabled)
	api := webrtc.NewAPI(webrtc.WithSettingEngine(se))
	pc, err := api.NewPeerConnection(webrtc.Configuration{})
	if err != nil {
		return nil, err
	}
	dc, err := pc.CreateDataChannel(fmt.Sprintf("s%d", s), &webrtc.DataChannelInit{})
	if err != nil {
		return nil, err
	}
	offer, err := pc.CreateOffer(nil)
	if err != nil {
		return nil, err
	}
	done := webrtc.GatheringCompletePromise(pc)
	if err := pc.SetLocalDescription(offer); err != nil {
		return nil, err
	}
	<-done
	str, err := util.SerializeSessionDescription(pc.LocalDescription())
	if err != nil {
		return nil, err
	}
	return &vClient{pc: pc, dc: dc, offer: str}, nil
}

// ---------------------------------------------------------------------------
// set-up

func vHasNonLoopback() bool {
	addrs, _ := net.InterfaceAddrs()
	for _, a := range addrs {
		if ipn, ok := a.(*net.IPNet); ok && ipn.IP.To4() != nil && !ipn.IP.IsLoopback() {
			return true
		}
	}
	return false
}

func vNewRig(t *testing.T) *vRig {
	planPath := os.Getenv("VERIF_PLAN")
	outPath := os.Getenv("VERIF_OUT")
	if planPath == "" || outPath == "" {
		t.Skip("VERIF_PLAN / VERIF_OUT not set")
	}
	b, err := ioutil.ReadFile(planPath)
	if err != nil {
		t.Fatalf("plan: %v", err)
	}
	plan := &vPlan{}
	if err := json.Unmarshal(b, plan); err != nil {
		t.Fatalf("plan: %v", err)
	}
	if plan.WaitMS == 0 {
		plan.WaitMS = 40000
	}
	f, err := os.Create(outPath)
	if err != nil {
		t.Fatalf("out: %v", err)
	}
	r := &vRig{t: t, plan: plan, t0: time.Now(), outf: f, out: bufio.NewWriter(f),
		handlerG: map[int64]int{}, ownAddr: map[string]int{}, hGateGo: map[int]chan struct{}{}, sidOf: map[string]int{}, gateAt: make(chan struct{}, 1), gateGo: make(chan struct{}),
		polls: make(chan *vPoll, 4), answers: make(chan *vAnswer, 4), relayReqs: make(chan *vRelayReq, 16),
		relays: map[int]*vRelayConn{}, clients: map[int]*vClient{}, ansOf: map[int]string{},
		listeners: map[string]net.Listener{}, rng: plan.Seed*2654435761 + 12345}
	r.cond = sync.NewCond(&r.mu)
	if !vHasNonLoopback() {
		r.log(vEvent{"ev": "skip", "why": "no non-loopback IPv4 interface: pion cannot gather candidates"})
		f.Close()
		t.Skip("no non-loopback interface")
	}
	r.stunAddr = vStartSTUN(t)
	r.broker = httptest.NewServer(http.HandlerFunc(r.serveBroker))
	for _, w := range []string{"inside", "outside", "default"} {
		r.startRelay(w, false)
	}
	for _, w := range []string{"inside", "outside"} {
		r.startRelay(w, true)
	}
	d := *websocket.DefaultDialer
	d.NetDial = r.netDial
	d.Proxy = nil
	websocket.DefaultDialer = &d
	VerifHook = r.hook
	return r
}

func (r *vRig) startProxy() *SnowflakeProxy {
	sf := &SnowflakeProxy{
		Capacity:               r.plan.Capacity,
		STUNURL:                r.stunAddr,
		BrokerURL:              r.broker.URL + "/",
		NATProbeURL:            r.broker.URL + "/probe",
		RelayURL:               "ws://" + nameDefault + "/?s=0",
		RelayDomainNamePattern: vPatternString(r.plan.Pattern),
		AllowNonTLSRelay:       r.plan.Allow,
	}
	if r.onOver != nil {
		d := event.NewSnowflakeEventDispatcher()
		d.AddSnowflakeEventListener(vOverListener{r})
		sf.EventDispatcher = d
	}
	r.log(vEvent{"ev": "start", "N": int(r.plan.Capacity), "pattern": r.plan.Pattern, "allow": r.plan.Allow, "plan": r.plan.Name})
	go func() {
		err := sf.Start()
		r.log(vEvent{"ev": "start.returned", "err": fmt.Sprint(err)})
	}()
	return sf
}

type vOverListener struct{ r *vRig }

func (l vOverListener) OnNewSnowflakeEvent(e event.SnowflakeEvent) {
	if o, ok := e.(event.EventOnProxyConnectionOver); ok {
		l.r.onOver(o.InboundTraffic, o.OutboundTraffic)
	}
}

func (r *vRig) finish() {
	r.mu.Lock()
	r.out.Flush()
	r.outf.Sync()
	r.mu.Unlock()
}
