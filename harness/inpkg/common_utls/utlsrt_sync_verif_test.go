//go:build go1.25

package utls

// Unit-level conformance driver for spec/UtlsRT under the fake clock of testing/synctest (go1.26.8,
// GODEBUG=asynctimerchan=0): the REAL putConn / getConn / NewUnclaimedConnection / claimConnection / tick
// with connections that only count their Close calls.  One tick of the model is one minute / expiry of
// fake time.  Operations of the same instant run on goroutines of their own and race with the timers that
// fire at that instant (each takes accessDialingConnection as the real callers do; the record is written
// while it is held, so the recorded order is the real order).
//
// Plans (VERIF_UTLS_IN): {"id", "unit": true, "expiry": n, "ops": [{"at": tick, "op": "put"|"get", "t", "d"}, ...], "final": ticks}
// Output (VERIF_UTLS_OUT): {"id", "events": [...]} per plan.

import (
	"bytes"
	"encoding/json"
	"fmt"
	"os"
	"sync"
	"sync/atomic"
	"testing"
	"testing/synctest"
	"time"

	utls "github.com/refraction-networking/utls"
)

type vsOp struct {
	At int    `json:"at"`
	Op string `json:"op"`
	T  string `json:"t"`
	D  string `json:"d"`
}

type vsPlan struct {
	ID     int    `json:"id"`
	Unit   bool   `json:"unit"`
	Expiry int    `json:"expiry"`
	Ops    []vsOp `json:"ops"`
	Final  int    `json:"final"`
}

type vsRig struct {
	rt     *uTLSHTTPRoundTripperImpl
	mu     sync.Mutex
	events []vuEvent
	t0     time.Time
	tick   time.Duration
	nd     map[string]int
	fakes  []*vuFakeConn
	ucs    []*unclaimedConnection
	ucInfo map[*unclaimedConnection]vuUcInfo
}

func (r *vsRig) now() int { return int(time.Since(r.t0) / r.tick) }

func (r *vsRig) log(e vuEvent) {
	r.mu.Lock()
	e["now"] = r.now()
	r.events = append(r.events, e)
	r.mu.Unlock()
}

func (r *vsRig) do(op vsOp) {
	r.rt.accessDialingConnection.Lock()
	defer r.rt.accessDialingConnection.Unlock()
	switch op.Op {
	case "put":
		r.mu.Lock()
		r.nd[op.D]++
		k := r.nd[op.D]
		f := &vuFakeConn{d: op.D, k: k}
		r.fakes = append(r.fakes, f)
		r.mu.Unlock()
		r.rt.putConn(op.D, op.T == "h2", f)
		uc := r.rt.pendingConn[pendingConnKey{isH2: op.T == "h2", dest: op.D}]
		r.mu.Lock()
		if uc != nil {
			r.ucs = append(r.ucs, uc)
			r.ucInfo[uc] = vuUcInfo{d: op.D, k: k, t: op.T}
		}
		r.mu.Unlock()
		r.log(vuEvent{"ev": "put", "t": op.T, "d": op.D, "k": k})
	case "get":
		c := r.rt.getConn(op.D, op.T == "h2")
		ck := 0
		if f, ok := c.(*vuFakeConn); ok && f != nil {
			ck = f.k
			if f.d != op.D {
				ck = -1
			}
		} else if c != nil {
			ck = -1
		}
		r.log(vuEvent{"ev": "get", "t": op.T, "d": op.D, "ck": ck})
	}
}

func (r *vsRig) obs() {
	r.rt.accessDialingConnection.Lock()
	defer r.rt.accessDialingConnection.Unlock()
	e := vuEvent{"ev": "obs", "hint": []vuEvent{}}
	pend := []vuEvent{}
	for key, uc := range r.rt.pendingConn {
		t := "h1"
		if key.isH2 {
			t = "h2"
		}
		r.mu.Lock()
		info := r.ucInfo[uc]
		r.mu.Unlock()
		pend = append(pend, vuEvent{"t": t, "d": key.dest, "ck": info.k, "st": vuUcState(uc)})
	}
	e["pend"] = pend
	ucl, nd, closed := []vuEvent{}, []vuEvent{}, []vuEvent{}
	r.mu.Lock()
	for _, uc := range r.ucs {
		info := r.ucInfo[uc]
		ucl = append(ucl, vuEvent{"d": info.d, "ck": info.k, "t": info.t, "st": vuUcState(uc)})
	}
	for d, n := range r.nd {
		nd = append(nd, vuEvent{"d": d, "n": n})
	}
	for _, f := range r.fakes {
		n := atomic.LoadInt32(&f.closes)
		if n == 1 {
			closed = append(closed, vuEvent{"d": f.d, "ck": f.k})
		} else if n > 1 {
			closed = append(closed, vuEvent{"d": f.d, "ck": f.k}, vuEvent{"d": f.d, "ck": -int(n)}) // closed more than once: never explained
		}
	}
	r.mu.Unlock()
	e["uc"], e["nd"], e["closed"] = ucl, nd, closed
	r.log(e)
}

func vsRunPlan(t *testing.T, p *vsPlan) (out vuOut) {
	out.ID = p.ID
	defer func() {
		if x := recover(); x != nil {
			out.Note = fmt.Sprintf("bubble: %v", x)
		}
	}()
	synctest.Test(t, func(t *testing.T) {
		r := &vsRig{nd: map[string]int{}, ucInfo: map[*unclaimedConnection]vuUcInfo{}, t0: time.Now(), tick: time.Minute / time.Duration(p.Expiry)}
		r.rt = NewUTLSHTTPRoundTripper(utls.HelloChrome_72, &utls.Config{InsecureSkipVerify: true}, vuBackdrop{}, false).(*uTLSHTTPRoundTripperImpl)
		last := 0
		for _, op := range p.Ops {
			if op.At > last {
				last = op.At
			}
		}
		for at := 0; at <= last+p.Final; at++ {
			if d := time.Until(r.t0.Add(time.Duration(at) * r.tick)); d > 0 {
				time.Sleep(d)
			}
			var wg sync.WaitGroup
			n := 0
			for _, op := range p.Ops {
				if op.At == at {
					n++
					wg.Add(1)
					go func(op vsOp) { defer wg.Done(); r.do(op) }(op)
				}
			}
			wg.Wait()
			synctest.Wait() // the timers of this instant have run
			r.obs()
		}
		out.Events = r.events
	})
	return out
}

func TestVerifUtlsUnit(t *testing.T) {
	in, outp := os.Getenv("VERIF_UTLS_IN"), os.Getenv("VERIF_UTLS_OUT")
	if in == "" || outp == "" {
		t.Skip("VERIF_UTLS_IN / VERIF_UTLS_OUT not set")
	}
	data, err := os.ReadFile(in)
	if err != nil {
		t.Fatal(err)
	}
	f, err := os.Create(outp)
	if err != nil {
		t.Fatal(err)
	}
	defer f.Close()
	enc := json.NewEncoder(f)
	n := 0
	for _, line := range bytes.Split(data, []byte("\n")) {
		if len(bytes.TrimSpace(line)) == 0 {
			continue
		}
		p := &vsPlan{}
		if err := json.Unmarshal(line, p); err != nil {
			t.Fatalf("bad plan: %v", err)
		}
		if !p.Unit || p.Expiry <= 0 {
			continue
		}
		enc.Encode(vsRunPlan(t, p))
		n++
	}
	enc.Encode(map[string]interface{}{"summary": map[string]int{"plans": n}})
}
