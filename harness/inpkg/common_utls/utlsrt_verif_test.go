package utls

// Conformance driver for spec/UtlsRT (lib/checks/c12_utls.py).
//
// Runs the REAL uTLSHTTPRoundTripperImpl against local TLS servers of the harness and records what
// it does; TLC (UtlsRT_Trace) is the judge.  No hooks: the three transports of the round tripper
// (httpsH1Transport, httpsH2Transport, backdropTransport) are wrapped in-package by recording
// round trippers, the dial functions the real init() installed are wrapped (never replaced) by a
// counter, and the maps (connectWithH1, pendingConn, the unclaimedConnections) are read under their
// own mutexes.
//
// Plans (VERIF_UTLS_IN, one JSON object per line):
//   {"id", "hello", "jitter", "tickms", "dests": {"a": {"portless", "auto": [...]}, ...}, "steps": [...]}
//   A destination with portless = true listens on port 443 of a loopback address of its own and is
//   addressed without a port in the URL; the others listen on an ephemeral port.
//   Every TLS handshake of a server waits (inside GetConfigForClient, i.e. while the client's dial holds
//   accessDialingConnection) for a token that says what the server does: "h2", "h1" (http/1.1), "none"
//   (no ALPN), "fail" (handshake broken, TCP connection left open so that the server sees whether the
//   client closes it).  Tokens come from "serve" steps; once the plan is over (or when a destination has
//   "gate": false) the destination's "auto" script answers (cyclically).
//   steps:  {"op":"start","r","d","https","steal","nowait"}  launch RoundTrip on a goroutine of its own
//                                                    (nowait: go on to the next step at once - herds)
//           {"op":"serve","d","x"}                   let the handshake waiting at d go on
//           {"op":"drop","t"}                        CloseIdleConnections of transport t (only at rest)
//           {"op":"advance"}                         real-time plans: sleep into the next tick window
//           {"op":"wait"}                            wait until every started request has returned
//   After each step the driver waits until the system is at rest (every request returned, or a handshake is
//   waiting for its token) and, when every request has returned, records an observation.
//   "steal": the wrapper of the transport, on each entry of that request, takes what is parked for that
//   transport with the real getConn (under accessDialingConnection), as a concurrent dial would.
//
// Output (VERIF_UTLS_OUT): {"id", "events": [...], "skipped": n, "note": "...", "hang": "..."} per plan.

import (
	"bufio"
	"bytes"
	"context"
	"crypto/ecdsa"
	"crypto/elliptic"
	"crypto/rand"
	"crypto/tls"
	"crypto/x509"
	"crypto/x509/pkix"
	"encoding/json"
	"errors"
	"fmt"
	"io"
	"math/big"
	mrand "math/rand"
	"net"
	"net/http"
	"os"
	"runtime"
	"strconv"
	"strings"
	"sync"
	"sync/atomic"
	"testing"
	"time"

	utls "github.com/refraction-networking/utls"
	"golang.org/x/net/http2"
)

type vuStep struct {
	Op     string `json:"op"`
	R      int    `json:"r"`
	D      string `json:"d"`
	HTTPS  bool   `json:"https"`
	X      string `json:"x"`
	T      string `json:"t"`
	Steal  bool   `json:"steal"`
	Nowait bool   `json:"nowait"`
}

type vuDest struct {
	Portless bool     `json:"portless"`
	Auto     []string `json:"auto"`
	Gate     *bool    `json:"gate"`
}

type vuPlan struct {
	ID     int               `json:"id"`
	Hello  string            `json:"hello"`
	Jitter int64             `json:"jitter"`
	TickMs int               `json:"tickms"`
	Dests  map[string]vuDest `json:"dests"`
	Steps  []vuStep          `json:"steps"`
}

type vuEvent map[string]interface{}

type vuOut struct {
	ID      int       `json:"id"`
	Events  []vuEvent `json:"events"`
	Skipped int       `json:"skipped"`
	Note    string    `json:"note,omitempty"`
	Hang    string    `json:"hang,omitempty"`
	Info    vuEvent   `json:"info,omitempty"`
}

var vuHellos = map[string]utls.ClientHelloID{
	"chrome72":  utls.HelloChrome_72,
	"chrome83":  utls.HelloChrome_83,
	"chrome58":  utls.HelloChrome_58,
	"firefox65": utls.HelloFirefox_65,
	"firefox55": utls.HelloFirefox_55,
	"ios12":     utls.HelloIOS_12_1,
	"noalpn":    utls.HelloRandomizedNoALPN,
}

var vuCertOnce sync.Once
var vuCert tls.Certificate

func vuGetCert() tls.Certificate {
	vuCertOnce.Do(func() {
		priv, err := ecdsa.GenerateKey(elliptic.P256(), rand.Reader)
		if err != nil {
			panic(err)
		}
		tmpl := x509.Certificate{SerialNumber: big.NewInt(1), Subject: pkix.Name{CommonName: "verif"},
			NotBefore: time.Now().Add(-time.Hour), NotAfter: time.Now().Add(24 * time.Hour),
			KeyUsage: x509.KeyUsageDigitalSignature, ExtKeyUsage: []x509.ExtKeyUsage{x509.ExtKeyUsageServerAuth},
			BasicConstraintsValid: true, DNSNames: []string{"localhost"}}
		der, err := x509.CreateCertificate(rand.Reader, &tmpl, &tmpl, priv.Public(), priv)
		if err != nil {
			panic(err)
		}
		vuCert = tls.Certificate{Certificate: [][]byte{der}, PrivateKey: priv}
	})
	return vuCert
}

// ---------------------------------------------------------------------------------------------
// servers

type vuServer struct {
	rig     *vuRig
	name    string
	ln      net.Listener
	addr    string // what the transports dial: host:port
	urlHost string // the authority written in the URL
	auto    []string

	mu      sync.Mutex
	accepts int
	autoIdx int
	ports   map[int]int  // client port -> ordinal
	closed  map[int]bool // ordinal -> the client side closed it
	conns   []net.Conn
	over    bool

	tokens  chan string
	open    chan struct{} // closed: the auto script answers
	opened  bool
	waiting int32
}

var vuAddrSeq uint32

func vuListen(portless bool) (net.Listener, error) {
	if !portless {
		return net.Listen("tcp", "127.0.0.1:0")
	}
	var last error
	for i := 0; i < 200; i++ {
		n := atomic.AddUint32(&vuAddrSeq, 1)
		pid := uint32(os.Getpid())
		ip := fmt.Sprintf("127.%d.%d.%d", 1+(pid+n/60000)%250, (pid/250+n/250)%250, 1+n%250)
		ln, err := net.Listen("tcp", ip+":443")
		if err == nil {
			return ln, nil
		}
		last = err
	}
	return nil, last
}

func (s *vuServer) decide() string {
	atomic.AddInt32(&s.waiting, 1)
	defer atomic.AddInt32(&s.waiting, -1)
	select {
	case x := <-s.tokens:
		return x
	default:
	}
	select {
	case x := <-s.tokens:
		return x
	case <-s.open:
		select {
		case x := <-s.tokens:
			return x
		default:
		}
		s.mu.Lock()
		defer s.mu.Unlock()
		x := s.auto[s.autoIdx%len(s.auto)]
		s.autoIdx++
		return x
	}
}

func (s *vuServer) markClosed(k int) {
	s.mu.Lock()
	if !s.over {
		s.closed[k] = true
	}
	s.mu.Unlock()
}

func vuHas(l []string, x string) bool {
	for _, y := range l {
		if y == x {
			return true
		}
	}
	return false
}

type vuPeekConn struct {
	net.Conn
	br *bufio.Reader
}

func (c *vuPeekConn) Read(p []byte) (int, error) { return c.br.Read(p) }

func (s *vuServer) handle(c net.Conn, k int) {
	defer c.Close() // (after the client's close has been noted, or when the client speaks the wrong protocol)
	base := &tls.Config{Certificates: []tls.Certificate{vuGetCert()}}
	cfg := base.Clone()
	cfg.GetConfigForClient = func(hi *tls.ClientHelloInfo) (*tls.Config, error) {
		x := s.decide()
		if x == "h2" && !vuHas(hi.SupportedProtos, "h2") {
			x = "none"
		}
		if x == "h1" && !vuHas(hi.SupportedProtos, "http/1.1") {
			x = "none"
		}
		s.rig.log(vuEvent{"ev": "serve", "d": s.name, "k": k, "x": x})
		if x == "fail" {
			return nil, errors.New("scripted handshake failure")
		}
		c2 := base.Clone()
		switch x {
		case "h2":
			c2.NextProtos = []string{"h2"}
		case "h1":
			c2.NextProtos = []string{"http/1.1"}
		}
		return c2, nil
	}
	tc := tls.Server(c, cfg)
	if err := tc.Handshake(); err != nil {
		// the TCP connection stays open on this side: does the client close it?
		_, err := io.Copy(io.Discard, c)
		_ = err
		s.markClosed(k)
		return
	}
	br := bufio.NewReader(tc)
	if _, err := br.Peek(1); err != nil {
		s.markClosed(k) // never used: closed while parked, or dropped
		return
	}
	if tc.ConnectionState().NegotiatedProtocol == "h2" {
		h2s := &http2.Server{}
		h2s.ServeConn(&vuPeekConn{Conn: tc, br: br}, &http2.ServeConnOpts{Handler: http.HandlerFunc(func(w http.ResponseWriter, r *http.Request) {
			w.Header().Set("X-Conn", strconv.Itoa(k))
			w.Header().Set("X-Proto", "h2")
			io.WriteString(w, "ok")
		})})
		s.markClosed(k)
		return
	}
	for {
		req, err := http.ReadRequest(br)
		if err != nil {
			s.markClosed(k)
			return
		}
		io.Copy(io.Discard, req.Body)
		req.Body.Close()
		fmt.Fprintf(tc, "HTTP/1.1 200 OK\r\nContent-Length: 2\r\nX-Conn: %d\r\nX-Proto: h1\r\n\r\nok", k)
	}
}

func (s *vuServer) acceptLoop() {
	for {
		c, err := s.ln.Accept()
		if err != nil {
			return
		}
		s.mu.Lock()
		s.accepts++
		k := s.accepts
		if ta, ok := c.RemoteAddr().(*net.TCPAddr); ok {
			s.ports[ta.Port] = k
		}
		s.conns = append(s.conns, c)
		s.mu.Unlock()
		go s.handle(c, k)
	}
}

func (s *vuServer) shutdown() {
	s.mu.Lock()
	s.over = true
	conns := s.conns
	s.mu.Unlock()
	s.ln.Close()
	s.openGate()
	for _, c := range conns {
		c.Close()
	}
}

func (s *vuServer) openGate() {
	s.mu.Lock()
	if !s.opened {
		s.opened = true
		close(s.open)
	}
	s.mu.Unlock()
}

// ---------------------------------------------------------------------------------------------
// rig

type vuUcInfo struct {
	d string
	k int
	t string
}

type vuRig struct {
	plan *vuPlan
	rt   *uTLSHTTPRoundTripperImpl
	h1   *http.Transport
	h2   *http2.Transport
	srv  map[string]*vuServer

	mu      sync.Mutex
	events  []vuEvent
	rec     bool
	tries   map[int]int
	ucs     map[*unclaimedConnection]vuUcInfo
	ucOrder []*unclaimedConnection
	stolen  []net.Conn
	steal   map[int]bool
	rng     *mrand.Rand

	clock   int32
	running int32
	dialsIn int32
	skipped int
	notes   []string
	wg      sync.WaitGroup
}

type vuReqKey struct{}

func (r *vuRig) log(e vuEvent) {
	r.mu.Lock()
	defer r.mu.Unlock()
	if !r.rec {
		return
	}
	e["now"] = int(atomic.LoadInt32(&r.clock))
	r.events = append(r.events, e)
}

func (r *vuRig) note(format string, a ...interface{}) {
	r.mu.Lock()
	r.notes = append(r.notes, fmt.Sprintf(format, a...))
	r.mu.Unlock()
}

func (r *vuRig) jitter() {
	if r.plan.Jitter == 0 {
		return
	}
	r.mu.Lock()
	n := r.rng.Intn(8)
	us := r.rng.Intn(1500)
	r.mu.Unlock()
	switch {
	case n < 3:
	case n < 5:
		runtime.Gosched()
	default:
		time.Sleep(time.Duration(us) * time.Microsecond)
	}
}

// destOfAddr maps the authority of a URL or a dial address to the destination's name.
func (r *vuRig) destOf(host string) string {
	for n, s := range r.srv {
		if s.addr == host || s.urlHost == host {
			return n
		}
	}
	return "?"
}

// connOf identifies a client-side connection by its local port in the servers' accept tables.
func (r *vuRig) connOf(c net.Conn) (string, int) {
	if c == nil {
		return "?", 0
	}
	if f, ok := c.(*vuFakeConn); ok {
		return f.d, f.k
	}
	ta, ok := c.LocalAddr().(*net.TCPAddr)
	if !ok {
		return "?", 0
	}
	for i := 0; i < 200; i++ {
		for n, s := range r.srv {
			s.mu.Lock()
			k, ok := s.ports[ta.Port]
			s.mu.Unlock()
			if ok && c.RemoteAddr().String() == s.ln.Addr().String() {
				return n, k
			}
		}
		time.Sleep(time.Millisecond) // the accept loop has not noted it yet
	}
	return "?", 0
}

// vuFakeConn: a connection that only counts how often it is closed (unit-level plans).
type vuFakeConn struct {
	d      string
	k      int
	closes int32
}

func (f *vuFakeConn) Read(b []byte) (int, error)         { return 0, io.EOF }
func (f *vuFakeConn) Write(b []byte) (int, error)        { return len(b), nil }
func (f *vuFakeConn) Close() error                       { atomic.AddInt32(&f.closes, 1); return nil }
func (f *vuFakeConn) LocalAddr() net.Addr                { return &net.TCPAddr{IP: net.IPv4(127, 0, 0, 1), Port: f.k} }
func (f *vuFakeConn) RemoteAddr() net.Addr               { return &net.TCPAddr{IP: net.IPv4(127, 0, 0, 1), Port: 1} }
func (f *vuFakeConn) SetDeadline(t time.Time) error      { return nil }
func (f *vuFakeConn) SetReadDeadline(t time.Time) error  { return nil }
func (f *vuFakeConn) SetWriteDeadline(t time.Time) error { return nil }

// learn notes the unclaimedConnections filed in pendingConn.  Caller holds accessDialingConnection.
func (r *vuRig) learnLocked() {
	for key, uc := range r.rt.pendingConn {
		r.mu.Lock()
		_, known := r.ucs[uc]
		r.mu.Unlock()
		if known {
			continue
		}
		uc.access.Lock()
		c := uc.Conn
		uc.access.Unlock()
		if c == nil {
			continue // expired before it was ever seen: reported as unknown by obs
		}
		d, k := r.connOf(c)
		t := "h1"
		if key.isH2 {
			t = "h2"
		}
		r.mu.Lock()
		r.ucs[uc] = vuUcInfo{d: d, k: k, t: t}
		r.ucOrder = append(r.ucOrder, uc)
		r.mu.Unlock()
	}
}

func vuUcState(uc *unclaimedConnection) string {
	uc.access.Lock()
	defer uc.access.Unlock()
	switch {
	case !uc.claimed && uc.Conn != nil:
		return "parked"
	case uc.claimed && uc.Conn != nil:
		return "claimed"
	case uc.claimed && uc.Conn == nil:
		return "expired"
	}
	return "closed-unclaimed"
}

// closedSets: what the far ends have seen closed.
func (r *vuRig) closedNow() []vuEvent {
	out := []vuEvent{}
	for _, n := range r.destNames() {
		s := r.srv[n]
		s.mu.Lock()
		for k := 1; k <= s.accepts; k++ {
			if s.closed[k] {
				out = append(out, vuEvent{"d": n, "ck": k})
			}
		}
		s.mu.Unlock()
	}
	return out
}

func (r *vuRig) destNames() []string {
	names := make([]string, 0, len(r.srv))
	for n := range r.srv {
		names = append(names, n)
	}
	for i := range names {
		for j := i + 1; j < len(names); j++ {
			if names[j] < names[i] {
				names[i], names[j] = names[j], names[i]
			}
		}
	}
	return names
}

// obs: every request has returned.  The far ends need a moment to see a close: wait until their view
// has not changed for a while, then take everything under accessDialingConnection (no dial is inside its
// critical section while the snapshot is taken).
func (r *vuRig) obs() {
	stableFor := 25 * time.Millisecond
	last, lastN := time.Now(), -1
	deadline := time.Now().Add(1500 * time.Millisecond)
	for time.Now().Before(deadline) {
		n := len(r.closedNow())
		if n != lastN {
			last, lastN = time.Now(), n
		} else if time.Since(last) >= stableFor {
			break
		}
		time.Sleep(2 * time.Millisecond)
	}
	r.rt.accessDialingConnection.Lock()
	defer r.rt.accessDialingConnection.Unlock()
	if atomic.LoadInt32(&r.running) != 0 {
		return
	}
	r.learnLocked()
	e := vuEvent{"ev": "obs"}
	hint := []vuEvent{}
	r.rt.accessConnectWithH1.Lock()
	for key, v := range r.rt.connectWithH1 {
		val := "h2"
		if v {
			val = "h1"
		}
		d, kind := "?", "other"
		for n, s := range r.srv {
			if key == s.addr {
				d, kind = n, "addr"
			} else if key == s.urlHost {
				d, kind = n, "url"
			}
		}
		hint = append(hint, vuEvent{"d": d, "k": kind, "v": val, "key": key})
	}
	r.rt.accessConnectWithH1.Unlock()
	e["hint"] = hint
	pend := []vuEvent{}
	for key, uc := range r.rt.pendingConn {
		t := "h1"
		if key.isH2 {
			t = "h2"
		}
		r.mu.Lock()
		info, known := r.ucs[uc]
		r.mu.Unlock()
		ck := 0
		if known {
			ck = info.k
		}
		pend = append(pend, vuEvent{"t": t, "d": r.destOf(key.dest), "ck": ck, "st": vuUcState(uc)})
	}
	e["pend"] = pend
	ucl := []vuEvent{}
	r.mu.Lock()
	order := append([]*unclaimedConnection{}, r.ucOrder...)
	r.mu.Unlock()
	for _, uc := range order {
		r.mu.Lock()
		info := r.ucs[uc]
		r.mu.Unlock()
		ucl = append(ucl, vuEvent{"d": info.d, "ck": info.k, "t": info.t, "st": vuUcState(uc)})
	}
	e["uc"] = ucl
	nd := []vuEvent{}
	for _, n := range r.destNames() {
		s := r.srv[n]
		s.mu.Lock()
		nd = append(nd, vuEvent{"d": n, "n": s.accepts})
		s.mu.Unlock()
	}
	e["nd"] = nd
	e["closed"] = r.closedNow()
	r.log(e)
}

// ---------------------------------------------------------------------------------------------
// wrappers

type vuWrap struct {
	rig   *vuRig
	t     string
	inner http.RoundTripper
}

func (w *vuWrap) RoundTrip(req *http.Request) (*http.Response, error) {
	id, _ := req.Context().Value(vuReqKey{}).(int)
	r := w.rig
	r.log(vuEvent{"ev": "try", "r": id, "t": w.t})
	r.mu.Lock()
	if w.t != "bd" {
		r.tries[id]++
	}
	steal := r.steal[id] && w.t != "bd"
	r.mu.Unlock()
	if steal {
		// a concurrent dial of the same transport takes what is parked, with the real getConn
		addr := r.srv[r.destOf(req.URL.Host)].addr
		r.rt.accessDialingConnection.Lock()
		r.learnLocked()
		c := r.rt.getConn(addr, w.t == "h2")
		ck := 0
		if c != nil {
			_, ck = r.connOf(c)
			r.mu.Lock()
			r.stolen = append(r.stolen, c)
			r.mu.Unlock()
		}
		r.log(vuEvent{"ev": "get", "t": w.t, "d": r.destOf(req.URL.Host), "ck": ck})
		r.rt.accessDialingConnection.Unlock()
	}
	r.jitter()
	resp, err := w.inner.RoundTrip(req)
	e := vuEvent{"ev": "tryres", "r": id, "t": w.t, "ck": 0}
	switch {
	case err == nil:
		e["res"] = "ok"
		if w.t != "bd" {
			e["ck"], _ = strconv.Atoi(resp.Header.Get("X-Conn"))
			e["proto"] = resp.Header.Get("X-Proto")
			if resp.Header.Get("X-Proto") != w.t {
				e["res"] = "err"
				e["err"] = "the " + w.t + " transport spoke " + resp.Header.Get("X-Proto")
			}
		}
	case errors.Is(err, errEAGAIN):
		e["res"] = "eagain"
	default:
		e["res"] = "err"
		e["err"] = err.Error()
	}
	r.jitter()
	r.log(e)
	return resp, err
}

type vuBackdrop struct{}

func (vuBackdrop) RoundTrip(req *http.Request) (*http.Response, error) {
	return &http.Response{StatusCode: 200, Status: "200 OK", Proto: "HTTP/1.1", ProtoMajor: 1, ProtoMinor: 1,
		Header: http.Header{"X-Proto": []string{"bd"}}, Body: io.NopCloser(strings.NewReader("backdrop")), Request: req}, nil
}

func vuNewRig(p *vuPlan) (*vuRig, error) {
	r := &vuRig{plan: p, srv: map[string]*vuServer{}, rec: true, tries: map[int]int{}, ucs: map[*unclaimedConnection]vuUcInfo{},
		steal: map[int]bool{}, rng: mrand.New(mrand.NewSource(p.Jitter + int64(p.ID)*7919))}
	for name, d := range p.Dests {
		ln, err := vuListen(d.Portless)
		if err != nil {
			return nil, err
		}
		s := &vuServer{rig: r, name: name, ln: ln, addr: ln.Addr().String(), urlHost: ln.Addr().String(), auto: d.Auto,
			ports: map[int]int{}, closed: map[int]bool{}, tokens: make(chan string, 64), open: make(chan struct{})}
		if d.Portless {
			s.urlHost = ln.Addr().(*net.TCPAddr).IP.String()
		}
		if len(s.auto) == 0 {
			s.auto = []string{"h2"}
		}
		if d.Gate != nil && !*d.Gate {
			s.openGate()
		}
		r.srv[name] = s
		go s.acceptLoop()
	}
	id, ok := vuHellos[p.Hello]
	if !ok {
		id = utls.HelloChrome_72
	}
	rt := NewUTLSHTTPRoundTripper(id, &utls.Config{InsecureSkipVerify: true}, vuBackdrop{}, false).(*uTLSHTTPRoundTripperImpl)
	r.rt = rt
	// the dial functions installed by the real init() stay in place, behind a counter
	r.h1 = rt.httpsH1Transport.(*http.Transport)
	r.h2 = rt.httpsH2Transport.(*http2.Transport)
	d1 := r.h1.DialTLSContext
	r.h1.DialTLSContext = func(ctx context.Context, network, addr string) (net.Conn, error) {
		atomic.AddInt32(&r.dialsIn, 1)
		defer atomic.AddInt32(&r.dialsIn, -1)
		r.jitter()
		c, err := d1(ctx, network, addr)
		r.afterDial()
		return c, err
	}
	d2 := r.h2.DialTLS
	r.h2.DialTLS = func(network, addr string, cfg *tls.Config) (net.Conn, error) {
		atomic.AddInt32(&r.dialsIn, 1)
		defer atomic.AddInt32(&r.dialsIn, -1)
		r.jitter()
		c, err := d2(network, addr, cfg)
		r.afterDial()
		return c, err
	}
	rt.httpsH1Transport = &vuWrap{rig: r, t: "h1", inner: rt.httpsH1Transport}
	rt.httpsH2Transport = &vuWrap{rig: r, t: "h2", inner: rt.httpsH2Transport}
	rt.backdropTransport = &vuWrap{rig: r, t: "bd", inner: rt.backdropTransport}
	return r, nil
}

func (r *vuRig) afterDial() {
	r.rt.accessDialingConnection.Lock()
	r.learnLocked()
	r.rt.accessDialingConnection.Unlock()
}

func (r *vuRig) anyWaiting() bool {
	for _, s := range r.srv {
		if atomic.LoadInt32(&s.waiting) > 0 {
			return true
		}
	}
	return false
}

func (r *vuRig) idle() bool {
	return atomic.LoadInt32(&r.running) == 0 && atomic.LoadInt32(&r.dialsIn) == 0
}

// settle: wait until every request has returned or a handshake waits for its token; then a little longer,
// so that the other goroutines reach the point where they block.
func (r *vuRig) settle(max time.Duration) {
	deadline := time.Now().Add(max)
	for time.Now().Before(deadline) {
		if r.idle() || r.anyWaiting() {
			break
		}
		time.Sleep(200 * time.Microsecond)
	}
	time.Sleep(3 * time.Millisecond)
	if atomic.LoadInt32(&r.running) == 0 && !r.anyWaiting() {
		r.obs()
	}
}

func (r *vuRig) start(st vuStep) {
	s := r.srv[st.D]
	if s == nil {
		r.note("start: unknown destination %q", st.D)
		return
	}
	scheme := "https"
	if !st.HTTPS {
		scheme = "http"
	}
	url := scheme + "://" + s.urlHost + "/r" + strconv.Itoa(st.R)
	r.mu.Lock()
	r.steal[st.R] = st.Steal
	r.mu.Unlock()
	r.log(vuEvent{"ev": "start", "r": st.R, "d": st.D, "https": st.HTTPS})
	atomic.AddInt32(&r.running, 1)
	r.wg.Add(1)
	go func() {
		defer r.wg.Done()
		ctx := context.WithValue(context.Background(), vuReqKey{}, st.R)
		req, err := http.NewRequestWithContext(ctx, "GET", url, nil)
		if err != nil {
			r.note("NewRequest: %v", err)
			atomic.AddInt32(&r.running, -1)
			return
		}
		r.jitter()
		resp, err := r.rt.RoundTrip(req)
		e := vuEvent{"ev": "end", "r": st.R}
		switch {
		case err == nil:
			e["res"] = "ok"
			e["status"] = resp.StatusCode
			io.Copy(io.Discard, resp.Body)
			resp.Body.Close()
		case errors.Is(err, errEAGAINTooMany):
			e["res"] = "toomany"
		case errors.Is(err, errEAGAIN):
			e["res"] = "eagain-leaked"
		default:
			e["res"] = "err"
			e["err"] = err.Error()
		}
		r.mu.Lock()
		e["tries"] = r.tries[st.R]
		r.mu.Unlock()
		r.log(e)
		atomic.AddInt32(&r.running, -1)
	}()
}

func (r *vuRig) run() (hang string) {
	tick := time.Duration(r.plan.TickMs) * time.Millisecond
	t0 := time.Now()
	for _, st := range r.plan.Steps {
		switch st.Op {
		case "start":
			r.start(st)
			if st.Nowait {
				r.jitter()
				continue
			}
			r.settle(3 * time.Second)
		case "serve":
			s := r.srv[st.D]
			ok := false
			for i := 0; s != nil && i < 1500; i++ {
				if atomic.LoadInt32(&s.waiting) > 0 {
					ok = true
					break
				}
				if r.idle() {
					break
				}
				time.Sleep(200 * time.Microsecond)
			}
			if !ok {
				r.mu.Lock()
				r.skipped++
				r.mu.Unlock()
				continue
			}
			s.tokens <- st.X
			// the handshake goes on: wait until it has taken the token
			for i := 0; i < 5000 && len(s.tokens) > 0; i++ {
				time.Sleep(100 * time.Microsecond)
			}
			time.Sleep(300 * time.Microsecond)
			r.settle(3 * time.Second)
		case "drop":
			if !r.idle() || r.anyWaiting() {
				r.mu.Lock()
				r.skipped++
				r.mu.Unlock()
				continue
			}
			if st.T == "h1" {
				r.h1.CloseIdleConnections()
			} else {
				r.h2.CloseIdleConnections()
			}
			r.log(vuEvent{"ev": "drop", "t": st.T})
			r.settle(time.Second)
		case "advance":
			if tick == 0 {
				r.note("advance in a plan without tickms")
				continue
			}
			n := time.Duration(atomic.LoadInt32(&r.clock) + 1)
			if d := time.Until(t0.Add(n * tick)); d > 0 {
				time.Sleep(d)
			}
			atomic.AddInt32(&r.clock, 1)
			r.settle(time.Second)
		case "wait":
			for i := 0; i < 20000 && atomic.LoadInt32(&r.running) != 0 && !r.anyWaiting(); i++ {
				time.Sleep(500 * time.Microsecond)
			}
			r.settle(time.Second)
		}
		if tick != 0 {
			// real-time plans: everything of a tick must happen in the first part of its window
			n := time.Duration(atomic.LoadInt32(&r.clock))
			if time.Since(t0.Add(n*tick)) > tick/10 {
				r.note("late: the steps of tick %d took more than a tenth of the tick", n)
			}
		}
	}
	// epilogue: the auto scripts answer; every request must return
	for _, s := range r.srv {
		s.openGate()
	}
	done := make(chan struct{})
	go func() { r.wg.Wait(); close(done) }()
	select {
	case <-done:
	case <-time.After(8 * time.Second):
		buf := make([]byte, 1<<20)
		return string(buf[:runtime.Stack(buf, true)])
	}
	for i := 0; i < 10000 && !r.idle(); i++ {
		time.Sleep(500 * time.Microsecond)
	}
	time.Sleep(3 * time.Millisecond)
	r.obs()
	return ""
}

func (r *vuRig) cleanup() {
	r.mu.Lock()
	r.rec = false
	stolen := r.stolen
	r.mu.Unlock()
	r.h1.CloseIdleConnections()
	r.h2.CloseIdleConnections()
	for _, c := range stolen {
		c.Close()
	}
	for _, s := range r.srv {
		s.shutdown()
	}
	// parked connections keep their timers (one minute); close them now
	r.rt.accessDialingConnection.Lock()
	for _, uc := range r.rt.pendingConn {
		if c, err := uc.claimConnection(); err == nil && c != nil {
			c.Close()
		}
	}
	r.rt.accessDialingConnection.Unlock()
	r.mu.Lock()
	for _, uc := range r.ucOrder {
		if c, err := uc.claimConnection(); err == nil && c != nil {
			c.Close()
		}
	}
	r.mu.Unlock()
}

func vuRunPlan(p *vuPlan) vuOut {
	out := vuOut{ID: p.ID}
	r, err := vuNewRig(p)
	if err != nil {
		out.Note = "harness: " + err.Error()
		return out
	}
	t0 := time.Now()
	out.Hang = r.run()
	r.mu.Lock()
	out.Events = r.events
	out.Skipped = r.skipped
	if len(r.notes) > 0 {
		out.Note = strings.Join(r.notes, "; ")
	}
	r.mu.Unlock()
	info := vuEvent{"ms": time.Since(t0).Milliseconds()}
	for n, s := range r.srv {
		info[n] = s.addr + " url=" + s.urlHost
	}
	out.Info = info
	r.cleanup()
	if p.TickMs == 0 && time.Since(t0) > 30*time.Second && out.Hang == "" {
		out.Note = strings.TrimPrefix(out.Note+"; slow: the plan took more than 30 s (the one-minute timers are not modelled in untimed plans)", "; ")
	}
	return out
}

func TestVerifUtlsRT(t *testing.T) {
	in, outp := os.Getenv("VERIF_UTLS_IN"), os.Getenv("VERIF_UTLS_OUT")
	if in == "" || outp == "" {
		t.Skip("VERIF_UTLS_IN / VERIF_UTLS_OUT not set")
	}
	par, _ := strconv.Atoi(os.Getenv("VERIF_UTLS_PAR"))
	if par <= 0 {
		par = 8
	}
	data, err := os.ReadFile(in)
	if err != nil {
		t.Fatal(err)
	}
	var plans []*vuPlan
	for _, line := range bytes.Split(data, []byte("\n")) {
		if len(bytes.TrimSpace(line)) == 0 {
			continue
		}
		p := &vuPlan{}
		if err := json.Unmarshal(line, p); err != nil {
			t.Fatalf("bad plan: %v", err)
		}
		plans = append(plans, p)
	}
	vuGetCert()
	f, err := os.Create(outp)
	if err != nil {
		t.Fatal(err)
	}
	defer f.Close()
	var wmu sync.Mutex
	enc := json.NewEncoder(f)
	sem := make(chan struct{}, par)
	var wg sync.WaitGroup
	for _, p := range plans {
		wg.Add(1)
		sem <- struct{}{}
		go func(p *vuPlan) {
			defer wg.Done()
			defer func() { <-sem }()
			o := vuRunPlan(p)
			wmu.Lock()
			enc.Encode(o)
			wmu.Unlock()
		}(p)
	}
	wg.Wait()
	wmu.Lock()
	enc.Encode(map[string]interface{}{"summary": map[string]int{"plans": len(plans)}})
	wmu.Unlock()
}
