package main

// Conformance driver for spec/ProbeTest (lib/checks/c13_probetest.py).
//
// Every case is one HTTP request class printed by TLC (spec/ProbeTest, GenSpec)
// together with what the contract demands.  The driver only concretises the
// abstract class into bytes, sends it to the REAL probeHandler and records what
// happened; expected values are compared in c13_probetest.py.
//
//   wire    the handler behind net/http (httptest.Server, real client over
//           loopback).  A wrapper around the handler records a panic (net/http
//           would swallow it and just cut the connection) and counts the bytes
//           the handler takes from the request body.
//   direct  the handler called with an httptest.ResponseRecorder and an endless
//           body (a body no HTTP client could finish sending): how many bytes the
//           handler reads before it answers.
//
// For the offer classes that make the handler build a PeerConnection the driver
// plays the proxy: a harness pion peer creates the offer (with one or two data
// channels), and - according to the case - never applies the answer, applies it
// and lets the data channel open, or applies it late.  The handler's
// PeerConnection is not reachable from outside; it is observed through the UDP
// ports it announces in its answer (bound while the connection is open: read
// from /proc/net/udp) and through goroutine accounting at the end of the run.
//
// No STUN: the handler's STUN URL is a constant (stun.l.google.com); offline its
// name does not resolve and gathering ends with the host candidates.
// All identifiers carry the prefix vPrb.

import (
	"bufio"
	"bytes"
	"encoding/json"
	"fmt"
	"io"
	"io/ioutil"
	"log"
	"net"
	"net/http"
	"net/http/httptest"
	"os"
	"regexp"
	"runtime"
	"strconv"
	"strings"
	"sync"
	"sync/atomic"
	"testing"
	"time"

	"git.torproject.org/pluggable-transports/snowflake.git/v2/common/messages"
	"git.torproject.org/pluggable-transports/snowflake.git/v2/common/util"
	"github.com/pion/ice/v2"
	"github.com/pion/webrtc/v3"
)

type vPrbCase struct {
	ID     int    `json:"id"`
	Mode   string `json:"mode"`   // wire | direct
	Method string `json:"method"` // GET POST PUT OPTIONS HEAD
	Size   string `json:"size"`   // plain | atlimit | overlimit | endless
	Top    string `json:"top"`    // empty garbage null array string object
	Status string `json:"status"` // absent empty nomatch match other number
	Offer  string `json:"offer"`  // absent empty notjson nonobject notype nosdp typenum sdpnum unknowntype answer pranswer rollback sdpempty sdpgarbage noapp app app2
	Relay  string `json:"relay"`  // absent set
	Peer   string `json:"peer"`   // none connect
	Limit  int    `json:"limit"`  // the read limit of the SPECIFICATION (bodies are padded to it / one byte beyond it)
}

type vPrbObs struct {
	ID        int    `json:"id"`
	Err       string `json:"err,omitempty"` // harness/transport trouble (no verdict)
	Code      int    `json:"code"`
	Body      string `json:"body"` // empty | answer | other
	BodyHead  string `json:"body_head,omitempty"`
	ACAO      string `json:"acao"`
	Panic     string `json:"panic,omitempty"`
	Read      int64  `json:"read"`       // bytes the handler took from the request body
	Offered   int64  `json:"offered"`    // bytes the request body had (-1 endless)
	HandlerMS int64  `json:"handler_ms"` // time inside the handler
	Ports     []int  `json:"ports"`      // UDP ports announced in the answer
	Bound     bool   `json:"bound"`      // ... were bound when the response arrived
	ClosedMS  int64  `json:"closed_ms"`  // ms after the response at which none of them was bound any more (-1: still bound at the deadline)
	DCOpen    bool   `json:"dc_open"`    // the harness peer saw its data channel open
	DCOpenMS  int64  `json:"dc_open_ms"` // ... ms after the response
	SID       string `json:"sid,omitempty"`
	AnsType   string `json:"ans_type,omitempty"`
	LocalCand int    `json:"local_cand"` // candidates with a local/loopback/unspecified address left in the answer
}

var vPrbSeq int64

// ---------------------------------------------------------------------------
// the handler under observation

type vPrbCounting struct {
	r io.ReadCloser
	n *int64
}

func (c vPrbCounting) Read(p []byte) (int, error) {
	n, err := c.r.Read(p)
	atomic.AddInt64(c.n, int64(n))
	return n, err
}
func (c vPrbCounting) Close() error { return c.r.Close() }

type vPrbSlot struct {
	read    int64
	panicv  string
	ms      int64
	entered bool
}

type vPrbServer struct {
	mu    sync.Mutex
	slots map[string]*vPrbSlot
	srv   *httptest.Server
}

func (s *vPrbServer) slot(key string) *vPrbSlot {
	s.mu.Lock()
	defer s.mu.Unlock()
	sl := s.slots[key]
	if sl == nil {
		sl = &vPrbSlot{}
		s.slots[key] = sl
	}
	return sl
}

// wraps the real handler: counts body bytes, records a panic, then lets net/http see it
func (s *vPrbServer) ServeHTTP(w http.ResponseWriter, r *http.Request) {
	sl := s.slot(r.URL.Query().Get("case"))
	sl.entered = true
	r.Body = vPrbCounting{r.Body, &sl.read}
	t := time.Now()
	defer func() {
		sl.ms = int64(time.Since(t) / time.Millisecond)
		if x := recover(); x != nil {
			sl.panicv = fmt.Sprint(x)
			panic(http.ErrAbortHandler)
		}
	}()
	probeHandler(w, r)
}

// ---------------------------------------------------------------------------
// concretisation

func vPrbGathered(pc *webrtc.PeerConnection, set func() error) error {
	done := webrtc.GatheringCompletePromise(pc)
	if err := set(); err != nil {
		return err
	}
	select {
	case <-done:
		return nil
	case <-time.After(30 * time.Second):
		return fmt.Errorf("ICE gathering did not complete")
	}
}

type vPrbPeer struct {
	pc     *webrtc.PeerConnection
	opened chan struct{}
	closed chan struct{}
	once   sync.Once
	conce  sync.Once
}

// the proxy's side of a probe: a peer connection with n data channels and its offer
func vPrbNewPeer(ndc int, media bool) (*vPrbPeer, string, error) {
	s := webrtc.SettingEngine{}
	s.SetICEMulticastDNSMode(ice.MulticastDNSModeDisabled)
	m := &webrtc.MediaEngine{}
	if media {
		if err := m.RegisterDefaultCodecs(); err != nil {
			return nil, "", err
		}
	}
	pc, err := webrtc.NewAPI(webrtc.WithSettingEngine(s), webrtc.WithMediaEngine(m)).NewPeerConnection(webrtc.Configuration{})
	if err != nil {
		return nil, "", err
	}
	p := &vPrbPeer{pc: pc, opened: make(chan struct{}), closed: make(chan struct{})}
	for i := 0; i < ndc; i++ {
		dc, err := pc.CreateDataChannel(fmt.Sprintf("test%d", i), nil)
		if err != nil {
			pc.Close()
			return nil, "", err
		}
		dc.OnOpen(func() { p.once.Do(func() { close(p.opened) }) })
		dc.OnClose(func() { p.conce.Do(func() { close(p.closed) }) })
	}
	if media {
		if _, err := pc.AddTransceiverFromKind(webrtc.RTPCodecTypeAudio); err != nil {
			pc.Close()
			return nil, "", err
		}
	}
	o, err := pc.CreateOffer(nil)
	if err != nil {
		pc.Close()
		return nil, "", err
	}
	if err := vPrbGathered(pc, func() error { return pc.SetLocalDescription(o) }); err != nil {
		pc.Close()
		return nil, "", err
	}
	sdp, err := util.SerializeSessionDescription(pc.LocalDescription())
	if err != nil {
		pc.Close()
		return nil, "", err
	}
	return p, sdp, nil
}

func vPrbJSONString(s string) string {
	b, _ := json.Marshal(s)
	return string(b)
}

// the "Offer" member of the request, as a JSON value (text), for the classes that need no peer
func vPrbOfferValue(c *vPrbCase, realOffer string) (string, bool) {
	sdpOf := func(o string) string {
		var d map[string]interface{}
		json.Unmarshal([]byte(o), &d)
		s, _ := d["sdp"].(string)
		return s
	}
	switch c.Offer {
	case "absent":
		return "", false
	case "empty":
		return `""`, true
	case "notjson":
		return vPrbJSONString("this is not a session description"), true
	case "nonobject":
		return vPrbJSONString(`["offer","v=0"]`), true
	case "notype":
		return vPrbJSONString(`{"sdp":"v=0\r\n"}`), true
	case "nosdp":
		return vPrbJSONString(`{"type":"offer"}`), true
	case "typenum":
		return vPrbJSONString(`{"type":7,"sdp":"v=0\r\n"}`), true
	case "sdpnum":
		return vPrbJSONString(`{"type":"offer","sdp":7}`), true
	case "unknowntype":
		return vPrbJSONString(`{"type":"proposal","sdp":"v=0\r\n"}`), true
	case "answer", "pranswer", "rollback":
		b, _ := json.Marshal(map[string]string{"type": c.Offer, "sdp": sdpOf(realOffer)})
		return vPrbJSONString(string(b)), true
	case "sdpempty":
		return vPrbJSONString(`{"type":"offer","sdp":""}`), true
	case "sdpgarbage":
		return vPrbJSONString(`{"type":"offer","sdp":"v=0 this is not sdp"}`), true
	case "noapp", "app", "app2":
		return vPrbJSONString(realOffer), true
	}
	return vPrbJSONString("unknown offer class " + c.Offer), true
}

// the request body without padding
func vPrbBody(c *vPrbCase, realOffer string) []byte {
	switch c.Top {
	case "empty":
		return []byte{}
	case "garbage":
		return []byte("\x16\x03\x01 this is not json {")
	case "null":
		return []byte("null")
	case "array":
		return []byte(`["client match"]`)
	case "string":
		return []byte(`"client match"`)
	}
	var mem []string
	switch c.Status {
	case "empty":
		mem = append(mem, `"Status":""`)
	case "nomatch":
		mem = append(mem, `"Status":"no match"`)
	case "match":
		mem = append(mem, `"Status":"client match"`)
	case "other":
		mem = append(mem, `"Status":"busy"`)
	case "number":
		mem = append(mem, `"Status":7`)
	}
	if v, ok := vPrbOfferValue(c, realOffer); ok {
		mem = append(mem, `"Offer":`+v)
	}
	mem = append(mem, `"NAT":"unknown"`)
	if c.Relay == "set" {
		mem = append(mem, `"RelayURL":"wss://relay.example/"`)
	}
	return []byte("{" + strings.Join(mem, ",") + "}")
}

// JSON white space after the document: still the same document for any JSON decoder
func vPrbPad(doc []byte, size int) []byte {
	if len(doc) >= size {
		return doc
	}
	return append(doc, bytes.Repeat([]byte{' '}, size-len(doc))...)
}

type vPrbEndless struct {
	head []byte
	off  int
	n    *int64
	cap  int64
}

func (e *vPrbEndless) Read(p []byte) (int, error) {
	if atomic.LoadInt64(e.n) >= e.cap {
		return 0, io.EOF // far beyond anything a bounded reader asks for; keeps a broken handler from eating the machine
	}
	k := 0
	if e.off < len(e.head) {
		k = copy(p, e.head[e.off:])
		e.off += k
	}
	for i := k; i < len(p); i++ {
		p[i] = ' '
	}
	atomic.AddInt64(e.n, int64(len(p)))
	return len(p), nil
}
func (e *vPrbEndless) Close() error { return nil }

// ---------------------------------------------------------------------------
// observation of the handler's PeerConnection from outside

var vPrbCandRe = regexp.MustCompile(`a=candidate:\S+ \d+ (?i:udp) \d+ (\S+) (\d+) typ (\w+)`)

func vPrbAnswerPorts(sdp string) (ports []int, local int) {
	for _, m := range vPrbCandRe.FindAllStringSubmatch(sdp, -1) {
		p, _ := strconv.Atoi(m[2])
		if m[3] == "host" {
			ports = append(ports, p)
			if ip := net.ParseIP(m[1]); ip != nil && (util.IsLocal(ip) || ip.IsLoopback() || ip.IsUnspecified()) {
				local++
			}
		}
	}
	return
}

func vPrbBoundUDP() map[int]bool {
	out := map[int]bool{}
	for _, f := range []string{"/proc/net/udp", "/proc/net/udp6"} {
		b, err := ioutil.ReadFile(f)
		if err != nil {
			continue
		}
		for i, line := range strings.Split(string(b), "\n") {
			fs := strings.Fields(line)
			if i == 0 || len(fs) < 2 {
				continue
			}
			k := strings.LastIndex(fs[1], ":")
			if k < 0 {
				continue
			}
			if p, err := strconv.ParseInt(fs[1][k+1:], 16, 32); err == nil {
				out[int(p)] = true
			}
		}
	}
	return out
}

func vPrbAnyBound(ports []int) bool {
	b := vPrbBoundUDP()
	for _, p := range ports {
		if b[p] {
			return true
		}
	}
	return false
}

func vPrbGoroutines(match ...string) (int, string) {
	buf := make([]byte, 16<<20)
	n := runtime.Stack(buf, true)
	c := 0
	first := ""
	for _, g := range strings.Split(string(buf[:n]), "\n\n") {
		for _, m := range match {
			if strings.Contains(g, m) {
				c++
				if first == "" {
					first = g
				}
				break
			}
		}
	}
	return c, first
}

// ---------------------------------------------------------------------------
// one case

// rel gives the parallelism slot back: called when the response is in (the watch phase only sleeps)
func vPrbRun(s *vPrbServer, c *vPrbCase, watchMS int64, rel func()) (o vPrbObs) {
	o = vPrbObs{ID: c.ID, ClosedMS: -1, DCOpenMS: -1, Ports: []int{}}
	var peer *vPrbPeer
	realOffer := ""
	needPeer := c.Top == "object" && (c.Offer == "app" || c.Offer == "app2" || c.Offer == "noapp" || c.Offer == "answer" || c.Offer == "pranswer" || c.Offer == "rollback")
	if needPeer {
		ndc, media := 1, false
		if c.Offer == "app2" {
			ndc = 2
		}
		if c.Offer == "noapp" {
			ndc, media = 0, true
		}
		var err error
		peer, realOffer, err = vPrbNewPeer(ndc, media)
		if err != nil {
			o.Err = "harness peer: " + err.Error()
			return
		}
		defer peer.pc.Close()
	}
	doc := vPrbBody(c, realOffer)
	var body []byte
	switch c.Size {
	case "plain":
		body = doc
	case "atlimit":
		body = vPrbPad(doc, c.Limit)
	case "overlimit":
		body = vPrbPad(doc, c.Limit+1)
	}
	if len(doc) > c.Limit {
		o.Err = "harness: the document itself exceeds the read limit"
		return
	}
	var code int
	var respBody []byte
	var hdr http.Header
	key := fmt.Sprintf("c%d-%d", c.ID, atomic.AddInt64(&vPrbSeq, 1))
	t0 := time.Now()
	if c.Mode == "direct" {
		var n int64
		var rd io.ReadCloser
		if c.Size == "endless" {
			rd = &vPrbEndless{head: doc, n: &n, cap: 64 << 20}
			o.Offered = -1
		} else {
			rd = vPrbCounting{ioutil.NopCloser(bytes.NewReader(body)), &n}
			o.Offered = int64(len(body))
		}
		req := httptest.NewRequest(c.Method, "/probe", rd)
		if c.Size == "endless" {
			req.ContentLength = -1
		}
		rec := httptest.NewRecorder()
		func() {
			defer func() {
				if x := recover(); x != nil {
					o.Panic = fmt.Sprint(x)
				}
			}()
			probeHandler(rec, req)
		}()
		o.HandlerMS = int64(time.Since(t0) / time.Millisecond)
		o.Read = atomic.LoadInt64(&n)
		code, respBody, hdr = rec.Code, rec.Body.Bytes(), rec.Header()
	} else {
		o.Offered = int64(len(body))
		req, err := http.NewRequest(c.Method, s.srv.URL+"/probe?case="+key, bytes.NewReader(body))
		if err != nil {
			o.Err = "harness: " + err.Error()
			return
		}
		tr := &http.Transport{DisableKeepAlives: true}
		defer tr.CloseIdleConnections()
		resp, err := (&http.Client{Transport: tr, Timeout: 120 * time.Second}).Do(req)
		sl := s.slot(key)
		if err != nil {
			o.Panic, o.Read, o.HandlerMS = sl.panicv, atomic.LoadInt64(&sl.read), sl.ms
			if sl.panicv == "" {
				o.Err = "transport: " + err.Error()
			}
			o.Code = 0
			o.Body = "none"
			return
		}
		respBody, _ = ioutil.ReadAll(resp.Body)
		resp.Body.Close()
		code, hdr = resp.StatusCode, resp.Header
		o.Panic, o.Read, o.HandlerMS = sl.panicv, atomic.LoadInt64(&sl.read), sl.ms
	}
	tResp := time.Now()
	rel()
	o.Code = code
	o.ACAO = hdr.Get("Access-Control-Allow-Origin")
	var answer *webrtc.SessionDescription
	switch {
	case len(respBody) == 0:
		o.Body = "empty"
	default:
		o.Body = "other"
		if a, sid, err := messages.DecodeAnswerRequest(respBody); err == nil {
			if d, err := util.DeserializeSessionDescription(a); err == nil {
				o.Body, o.SID, o.AnsType = "answer", sid, d.Type.String()
				answer = d
			}
		}
		if o.Body == "other" {
			o.BodyHead = string(respBody[:vPrbMin(len(respBody), 120)])
		}
	}
	if answer == nil {
		return
	}
	o.Ports, o.LocalCand = vPrbAnswerPorts(answer.SDP)
	o.Bound = vPrbAnyBound(o.Ports)
	if peer != nil && c.Peer == "connect" {
		if err := peer.pc.SetRemoteDescription(*answer); err != nil {
			o.Err = "harness peer: SetRemoteDescription(answer): " + err.Error()
		}
	}
	// watch: the data channel (harness side) and the announced ports
	deadline := tResp.Add(time.Duration(watchMS) * time.Millisecond)
	misses, firstMiss := 0, int64(0)
	for {
		if !o.DCOpen && peer != nil {
			select {
			case <-peer.opened:
				o.DCOpen, o.DCOpenMS = true, int64(time.Since(tResp)/time.Millisecond)
				// like the proxy's checkNATType: the measurement is made, the connection is closed
				peer.pc.Close()
			default:
			}
		}
		// a snapshot of /proc/net/udp is not atomic (an entry can be missed while the table changes):
		// "closed" needs three consecutive snapshots without the ports
		if len(o.Ports) > 0 && !vPrbAnyBound(o.Ports) {
			if misses == 0 {
				firstMiss = int64(time.Since(tResp) / time.Millisecond)
			}
			misses++
			if misses >= 3 {
				o.ClosedMS = firstMiss
				break
			}
			time.Sleep(15 * time.Millisecond)
			continue
		}
		misses = 0
		if len(o.Ports) == 0 || time.Now().After(deadline) {
			break
		}
		time.Sleep(40 * time.Millisecond)
	}
	if !o.DCOpen && peer != nil && c.Peer == "connect" {
		// the server closes its side the moment its data channel opens; give the harness peer's own open event time to arrive
		select {
		case <-peer.opened:
			o.DCOpen, o.DCOpenMS = true, int64(time.Since(tResp)/time.Millisecond)
		case <-time.After(1500 * time.Millisecond):
		}
	}
	return
}

func vPrbMin(a, b int) int {
	if a < b {
		return a
	}
	return b
}

func vPrbHasNonLoopback() bool {
	addrs, _ := net.InterfaceAddrs()
	for _, a := range addrs {
		if ipn, ok := a.(*net.IPNet); ok && ipn.IP.To4() != nil && !ipn.IP.IsLoopback() {
			return true
		}
	}
	return false
}

func TestVerifProbeTest(t *testing.T) {
	in, outp := os.Getenv("VERIF_PRB_IN"), os.Getenv("VERIF_PRB_OUT")
	if in == "" || outp == "" {
		t.Skip("VERIF_PRB_IN / VERIF_PRB_OUT not set")
	}
	log.SetOutput(ioutil.Discard)
	watchMS := int64(40000) // the specification's dataChannelTimeout (20 s) + 20 s; the check passes the value
	if v, err := strconv.Atoi(os.Getenv("VERIF_PRB_WATCH_MS")); err == nil && v > 0 {
		watchMS = int64(v)
	}
	par := 24
	if v, err := strconv.Atoi(os.Getenv("VERIF_PRB_PAR")); err == nil && v > 0 {
		par = v
	}
	fo, err := os.Create(outp)
	if err != nil {
		t.Fatal(err)
	}
	defer fo.Close()
	w := bufio.NewWriter(fo)
	var wmu sync.Mutex
	emit := func(o interface{}) {
		b, _ := json.Marshal(o)
		wmu.Lock()
		w.Write(b)
		w.WriteByte('\n')
		w.Flush()
		wmu.Unlock()
	}
	if !vPrbHasNonLoopback() {
		emit(map[string]interface{}{"skip": "no non-loopback IPv4 interface: pion cannot gather candidates"})
		return
	}
	fi, err := os.Open(in)
	if err != nil {
		t.Fatal(err)
	}
	defer fi.Close()
	var cases []*vPrbCase
	sc := bufio.NewScanner(fi)
	sc.Buffer(make([]byte, 1<<20), 1<<24)
	for sc.Scan() {
		if len(strings.TrimSpace(sc.Text())) == 0 {
			continue
		}
		c := &vPrbCase{}
		if err := json.Unmarshal(sc.Bytes(), c); err != nil {
			t.Fatalf("case %d: %v", len(cases), err)
		}
		cases = append(cases, c)
	}
	basePion, _ := vPrbGoroutines("github.com/pion/")
	s := &vPrbServer{slots: map[string]*vPrbSlot{}}
	s.srv = httptest.NewServer(s)
	// the handler part of every case runs with bounded parallelism (the machine is shared); the watch phase
	// (waiting for the handler's own 20 s timer) of all cases overlaps
	sem := make(chan struct{}, par)
	var wg sync.WaitGroup
	t0 := time.Now()
	for _, c := range cases {
		wg.Add(1)
		go func(c *vPrbCase) {
			defer wg.Done()
			sem <- struct{}{}
			var once sync.Once
			rel := func() { once.Do(func() { <-sem }) }
			defer rel()
			emit(vPrbRun(s, c, watchMS, rel))
		}(c)
	}
	wg.Wait()
	s.srv.Close()
	// accounting: nothing of the handler may be left once every case is over (its timer goroutines, its PeerConnections)
	var left, leftPion int
	var first string
	// a request whose response carried no answer the driver could use (HEAD) still has its PeerConnection and its
	// timeout goroutine for dataChannelTimeout: wait for the handler's goroutines first, then let pion wind down
	deadline := time.Now().Add(time.Duration(watchMS) * time.Millisecond)
	for {
		left, first = vPrbGoroutines("probetest.probeHandler", "probetest.makePeerConnectionFromOffer", "main.probeHandler", "main.makePeerConnectionFromOffer")
		if left == 0 || time.Now().After(deadline) {
			break
		}
		time.Sleep(100 * time.Millisecond)
	}
	deadline = time.Now().Add(10 * time.Second)
	for {
		leftPion, _ = vPrbGoroutines("github.com/pion/")
		if leftPion <= basePion || time.Now().After(deadline) {
			break
		}
		time.Sleep(100 * time.Millisecond)
	}
	if leftPion < basePion {
		leftPion = basePion
	}
	emit(map[string]interface{}{"summary": map[string]interface{}{"cases": len(cases), "handler_goroutines_left": left,
		"pion_goroutines_left": leftPion - basePion, "first_left": vPrbMinStr(first, 1500), "wall_ms": int64(time.Since(t0) / time.Millisecond),
		"code_limit": readLimit, "watch_ms": watchMS, "code_dc_timeout_ms": int64(dataChannelTimeout / time.Millisecond)}})
}

func vPrbMinStr(s string, n int) string {
	if len(s) > n {
		return s[:n]
	}
	return s
}
