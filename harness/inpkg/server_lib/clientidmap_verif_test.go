package snowflake_server

// Conformance harness for spec/ClientIDMap (ClientIDMap.tla, ClientAddr.tla),
// injected with `go test -overlay`; never written into the repository.
// Cases and expected results are printed by TLC; this file only executes the
// real clientIDMap / clientAddr and compares.
//
// Environment: VERIF_IN, VERIF_OUT, VERIF_SEED.

import (
	"bufio"
	"encoding/json"
	"fmt"
	"net"
	"net/url"
	"os"
	"runtime/debug"
	"strconv"
	"strings"
	"testing"

	"git.torproject.org/pluggable-transports/snowflake.git/v2/common/turbotunnel"
)

type vmResult struct {
	Idx    int         `json:"idx"`
	Sig    string      `json:"sig"`
	Detail string      `json:"detail"`
	Case   interface{} `json:"case,omitempty"`
}

func vmReadCases(path string) ([][]byte, error) {
	f, err := os.Open(path)
	if err != nil {
		return nil, err
	}
	defer f.Close()
	var out [][]byte
	sc := bufio.NewScanner(f)
	sc.Buffer(make([]byte, 1<<20), 1<<26)
	for sc.Scan() {
		if b := sc.Bytes(); len(b) > 0 {
			out = append(out, append([]byte(nil), b...))
		}
	}
	return out, sc.Err()
}

type vmOut struct {
	w *bufio.Writer
	f *os.File
}

func vmOpen(t *testing.T) (in [][]byte, out *vmOut, seed uint64) {
	inp, outp := os.Getenv("VERIF_IN"), os.Getenv("VERIF_OUT")
	if inp == "" || outp == "" {
		t.Skip("VERIF_IN/VERIF_OUT not set")
	}
	seed, _ = strconv.ParseUint(os.Getenv("VERIF_SEED"), 10, 64)
	in, err := vmReadCases(inp)
	if err != nil {
		t.Fatal(err)
	}
	f, err := os.Create(outp)
	if err != nil {
		t.Fatal(err)
	}
	return in, &vmOut{bufio.NewWriter(f), f}, seed
}

func (o *vmOut) put(v interface{}) {
	b, _ := json.Marshal(v)
	o.w.Write(b)
	o.w.WriteByte('\n')
}

func (o *vmOut) close() { o.w.Flush(); o.f.Close() }

// ---------------------------------------------------------------------------
// clientIDMap

type vmCase struct {
	N    int     `json:"n"`
	Sets [][]int `json:"sets"` // [id, addr]
	Gets [][]int `json:"gets"` // after k Sets (k = 0..len(Sets)): expected address number per id, 0 = absent
}

func vmID(seed uint64, n int) turbotunnel.ClientID {
	var id turbotunnel.ClientID // n = 0: the all-zero ClientID, the content of never-written ring slots
	if n != 0 {
		for i := range id {
			id[i] = byte(seed>>uint(8*(i%8))) ^ byte(0x35*n+i)
		}
		id[0] = byte(n)
	}
	return id
}

var vmAddrs = []net.Addr{nil, ClientMapAddr("192.0.2.1:1"), ClientMapAddr("[2001:db8::2]:1")}

func vmRunMap(c *vmCase, seed uint64) (string, string) {
	m := newClientIDMap(c.N)
	nids := len(c.Gets[0])
	check := func(k int) (string, string) {
		present := 0
		for j := 0; j < nids; j++ {
			want := c.Gets[k][j]
			got, ok := m.Get(vmID(seed, j))
			switch {
			case want == 0 && (ok || got != nil):
				return "map/get:expected-absent-got-present", fmt.Sprintf("capacity %d, after %d Sets %v: Get(id %d) = (%v, %v), expected absent", c.N, k, c.Sets[:k], j, got, ok)
			case want != 0 && !ok:
				return "map/get:expected-present-got-absent", fmt.Sprintf("capacity %d, after %d Sets %v: Get(id %d) absent, expected address %d", c.N, k, c.Sets[:k], j, want)
			case want != 0 && got != vmAddrs[want]:
				return "map/get:wrong-address", fmt.Sprintf("capacity %d, after %d Sets %v: Get(id %d) = %v, expected address %d (%v)", c.N, k, c.Sets[:k], j, got, want, vmAddrs[want])
			}
			if want != 0 {
				present++
			}
		}
		// bounded memory: the map remembers exactly the present ids, the ring never grows
		if len(m.current) != present || len(m.entries) != c.N {
			return "map/size:unbounded-or-stale", fmt.Sprintf("capacity %d, after %d Sets %v: len(current)=%d (expected %d), len(entries)=%d", c.N, k, c.Sets[:k], len(m.current), present, len(m.entries))
		}
		return "", ""
	}
	if sig, d := check(0); sig != "" {
		return sig, d
	}
	for k, s := range c.Sets {
		m.Set(vmID(seed, s[0]), vmAddrs[s[1]])
		if sig, d := check(k + 1); sig != "" {
			return sig, d
		}
	}
	return "", ""
}

func TestVerifClientIDMap(t *testing.T) {
	in, out, seed := vmOpen(t)
	defer out.close()
	nontrivial := 0
	for i, raw := range in {
		var c vmCase
		if err := json.Unmarshal(raw, &c); err != nil || len(c.Gets) != len(c.Sets)+1 {
			out.put(vmResult{Idx: i, Sig: "harness/bad-case", Detail: fmt.Sprint(err)})
			continue
		}
		// non-trivial: at some point an id that has been set is absent again (forgotten)
		seen := map[int]bool{}
		nt := false
		for k, s := range c.Sets {
			seen[s[0]] = true
			for id := range seen {
				if c.Gets[k+1][id] == 0 {
					nt = true
				}
			}
		}
		if nt {
			nontrivial++
		}
		func() {
			defer func() {
				if v := recover(); v != nil {
					out.put(vmResult{Idx: i, Sig: "map/panic", Detail: fmt.Sprintf("%v\n%s", v, debug.Stack()), Case: json.RawMessage(raw)})
				}
			}()
			if sig, d := vmRunMap(&c, seed+uint64(i)); sig != "" {
				out.put(vmResult{Idx: i, Sig: sig, Detail: d, Case: json.RawMessage(raw)})
			}
		}()
	}
	out.put(map[string]interface{}{"summary": map[string]interface{}{"cases": len(in), "nontrivial": nontrivial}})
}

// ---------------------------------------------------------------------------
// clientAddr

type vaCase struct {
	Base    string   `json:"base"`
	Deco    string   `json:"deco"`
	Allowed []string `json:"allowed"`
}

var vaBases = map[string][]string{
	"v4":          {"1.2.3.4", "203.0.113.77", "255.255.255.255", "127.0.0.1", "8.8.8.8"},
	"v4private":   {"10.0.0.1", "192.168.1.100", "172.16.5.4", "169.254.1.1"},
	"v6":          {"2001:db8::1", "2606:4700:4700::1111", "::1", "2001:DB8::ABCD"},
	"v6full":      {"2001:0db8:0000:0000:0000:0000:0000:0001", "fe80:0:0:0:1:2:3:4"},
	"v6linklocal": {"fe80::1", "fe80::a:b:c:d"},
	"v4mapped":    {"::ffff:1.2.3.4", "::ffff:203.0.113.9", "::ffff:102:304", "0:0:0:0:0:ffff:10.1.2.3"},
	"v4zero":      {"0.0.0.0"},
	"v6zero":      {"::"},
	"v6zerofull":  {"0:0:0:0:0:0:0:0", "0000:0000:0000:0000:0000:0000:0000:0000", "::0", "0::"},
	"mappedzero":  {"::ffff:0.0.0.0", "::ffff:0:0", "0:0:0:0:0:ffff:0.0.0.0"},
	"hostname":    {"example.com", "localhost", "torproject.org.", "a.b"},
	"garbage":     {"abc", "1.2.3", "::g", "%zz", "1.2.3.4x", "\x00", "١.٢.٣.٤", ":", "...", "1.2.3.4.", "-1.2.3.4", "1,2,3,4"},
	"v4toolong":   {"1.2.3.4.5", "1.2.3.4.5.6"},
	"v4octet256":  {"256.1.1.1", "1.2.3.999", "1.2.3.1000"},
	"number":      {"16909060", "0x01020304", "1", "4294967295"},
}

func vaDecorate(s, deco string, variant int) string {
	switch deco {
	case "none":
		return s
	case "bracket":
		return "[" + s + "]"
	case "port":
		return s + []string{":443", ":1", ":0", ":65535"}[variant%4]
	case "bracketport":
		return "[" + s + "]" + []string{":443", ":1"}[variant%2]
	case "zone":
		return s + []string{"%eth0", "%1", "%25eth0", "%"}[variant%4]
	case "spacebefore":
		return []string{" ", "\t", "  "}[variant%3] + s
	case "spaceafter":
		return s + []string{" ", "\t", "\n"}[variant%3]
	case "cidr":
		return s + []string{"/24", "/32", "/128", "/0"}[variant%4]
	case "list":
		return s + []string{",", ", ", " "}[variant%3] + s
	}
	panic("unknown decoration " + deco)
}

// vaClassify: "empty", "addr", or a description of a malformed result.
func vaClassify(out string, want net.IP) string {
	if out == "" {
		return "empty"
	}
	host, port, err := net.SplitHostPort(out)
	if err != nil {
		return "malformed(no host:port)"
	}
	if strings.Contains(host, "%") {
		return "malformed(zone kept)"
	}
	ip := net.ParseIP(host)
	if ip == nil {
		return "malformed(host not an IP literal)"
	}
	if want == nil || !ip.Equal(want) {
		return "malformed(other address)"
	}
	if ip.IsUnspecified() {
		return "malformed(unspecified address)"
	}
	if n, err := strconv.Atoi(port); err != nil || n <= 0 || n > 65535 {
		return "malformed(port)"
	}
	return "addr"
}

func TestVerifClientAddr(t *testing.T) {
	in, out, seed := vmOpen(t)
	defer out.close()
	evals, nontrivial := 0, 0
	for i, raw := range in {
		var c vaCase
		if err := json.Unmarshal(raw, &c); err != nil {
			out.put(vmResult{Idx: i, Sig: "harness/bad-case", Detail: err.Error()})
			continue
		}
		type conc struct {
			query string
			want  net.IP
		}
		var concs []conc
		switch c.Base {
		case "absent":
			for _, q := range []string{"", "foo=bar", "client_ipx=1.2.3.4", "Client_IP=1.2.3.4", "client-ip=1.2.3.4&x=client_ip"} {
				concs = append(concs, conc{q, nil})
			}
		case "empty":
			for _, q := range []string{"client_ip=", "client_ip", "a=b&client_ip=&c=d", "client_ip=&client_ip=1.2.3.4"} {
				concs = append(concs, conc{q, nil})
			}
		default:
			for v, s := range vaBases[c.Base] {
				for k := 0; k < 4; k++ {
					val := vaDecorate(s, c.Deco, v+k+int(seed))
					q := "client_ip=" + url.QueryEscape(val)
					switch (v + k + int(seed)) % 3 {
					case 1:
						q = "foo=bar&" + q + "&x=1"
					case 2:
						q = q + "&client_ip=198.51.100.7" // only the first value is the parameter
					}
					concs = append(concs, conc{q, net.ParseIP(s)})
					if c.Deco == "none" {
						break
					}
				}
			}
		}
		if len(concs) == 0 {
			out.put(vmResult{Idx: i, Sig: "harness/no-concretisation", Detail: c.Base + "/" + c.Deco})
			continue
		}
		if !(len(c.Allowed) == 1 && c.Allowed[0] == "addr") {
			nontrivial++
		}
		for _, cc := range concs {
			evals++
			u, err := url.Parse("http://bridge.example/?" + cc.query)
			if err != nil {
				out.put(vmResult{Idx: i, Sig: "harness/bad-url", Detail: cc.query})
				continue
			}
			var got string
			func() {
				defer func() {
					if v := recover(); v != nil {
						got = fmt.Sprintf("panic(%v)", v)
					}
				}()
				// as ServeHTTP does
				addr := clientAddr(u.Query().Get("client_ip"))
				if addr == nil {
					got = "malformed(nil net.Addr)"
					return
				}
				got = vaClassify(addr.String(), cc.want)
				if got != "empty" && got != "addr" {
					got += " " + strconv.Quote(addr.String())
				}
			}()
			ok := false
			for _, a := range c.Allowed {
				if a == got {
					ok = true
				}
			}
			if !ok {
				cls := got
				if j := strings.Index(cls, " "); j > 0 {
					cls = cls[:j]
				}
				out.put(vmResult{Idx: i, Sig: fmt.Sprintf("addr/%s+%s:expected-%s-got-%s", c.Base, c.Deco, strings.Join(c.Allowed, "|"), cls),
					Detail: fmt.Sprintf("query %q: clientAddr gave %s, allowed %v", cc.query, got, c.Allowed), Case: json.RawMessage(raw)})
			}
		}
	}
	out.put(map[string]interface{}{"summary": map[string]interface{}{"cases": len(in), "evaluations": evals, "nontrivial": nontrivial}})
}
