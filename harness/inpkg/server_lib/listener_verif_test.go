//go:build verif
// +build verif

package snowflake_server

// Conformance harness for spec/Listener (server/lib/snowflake.go: Transport.Listen,
// SnowflakeListener.Accept / Close / queueConn), injected with `go test -overlay`.
// It only EXECUTES schedules against the real listener and RECORDS what it sees;
// the recorded traces are judged by TLC against spec/Listener/Listener_Trace.tla.
//
//   gated schedules  projections of TLC behaviours of Listener!GenSpec: one command at
//                    a time, an observation after every command once all operation
//                    goroutines have come to rest (goroutine-dump quiescence)
//   herds            K session goroutines, A acceptors and C closers released together
//                    and running freely; every call is recorded before it is made and
//                    every return after it happened, under one recorder mutex
//
// Constructors: "minimal" builds the struct the way Transport.Listen does (same fields,
// a real http.Server, a real kcp.Listener) but with the queue capacity the schedule asks
// for and without sockets (the KCP listener reads from an inert packet conn that the rig
// can close afterwards - nothing in the repository ever closes the real one); "listen" calls the real
// Transport.Listen on a loopback port (free, or occupied for bind = "fail").
//
//   VERIF_LST_SCHED  input, one JSON object per line (vLstSched)
//   VERIF_LST_OUT    output, one JSON object per line (vLstTrace)
//   VERIF_LST_WORKERS, VERIF_LST_PATIENCE_MS

import (
	"bufio"
	"bytes"
	"encoding/json"
	"errors"
	"fmt"
	"io"
	"log"
	"net"
	"net/http"
	"os"
	"regexp"
	"runtime"
	"strconv"
	"strings"
	"sync"
	"sync/atomic"
	"testing"
	"time"

	"github.com/xtaci/kcp-go/v5"
)

type vLstStep struct {
	Op   string `json:"op"` // Listen | Stream | Accept | Close
	K    int    `json:"k,omitempty"`
	A    int    `json:"a,omitempty"`
	C    int    `json:"c,omitempty"`
	Bind string `json:"bind,omitempty"`
}

type vLstHerd struct {
	Sessions  []int `json:"sessions"`  // streams per session goroutine
	Acceptors []int `json:"acceptors"` // Accept calls per acceptor goroutine
	Closers   []int `json:"closers"`   // scheduler yields before each closer calls Close
}

type vLstSched struct {
	ID    int        `json:"id"`
	Mode  string     `json:"mode"` // gated | herd
	Ctor  string     `json:"ctor"` // minimal | listen
	Cap   int        `json:"cap"`
	NS    int        `json:"ns"` // stream id = (k-1)*ns + j
	Steps []vLstStep `json:"steps,omitempty"`
	Herd  *vLstHerd  `json:"herd,omitempty"`
}

type vLstTrace struct {
	ID      int                      `json:"id"`
	Cap     int                      `json:"cap"`
	Ctor    string                   `json:"ctor"`
	Mode    string                   `json:"mode"`
	Events  []map[string]interface{} `json:"events"`
	Skipped int                      `json:"skipped"`
	Note    string                   `json:"note,omitempty"`
	Info    map[string]interface{}   `json:"info,omitempty"`
}

// vLstConn is the stream handed to queueConn: never read or written, only carried.
type vLstConn struct {
	net.Conn
	k, j int
}

// vLstPacketConn is the packet conn under the KCP listener of a "minimal" rig: no packet
// ever arrives; Close ends the listener's monitor goroutine.
type vLstPacketConn struct {
	closed chan struct{}
	once   sync.Once
}

func (c *vLstPacketConn) ReadFrom(p []byte) (int, net.Addr, error) {
	<-c.closed
	return 0, nil, io.ErrClosedPipe
}
func (c *vLstPacketConn) WriteTo(p []byte, addr net.Addr) (int, error) { return len(p), nil }
func (c *vLstPacketConn) Close() error                                 { c.once.Do(func() { close(c.closed) }); return nil }
func (c *vLstPacketConn) LocalAddr() net.Addr                          { return vLstAddr("verif-listener") }
func (c *vLstPacketConn) SetDeadline(t time.Time) error                { return nil }
func (c *vLstPacketConn) SetReadDeadline(t time.Time) error            { return nil }
func (c *vLstPacketConn) SetWriteDeadline(t time.Time) error           { return nil }

type vLstAddr string

func (a vLstAddr) Network() string { return "verif" }
func (a vLstAddr) String() string  { return string(a) }

var vLstPatience = 3 * time.Second

// ---------------------------------------------------------------------------
// operation goroutines

type vLstOp struct {
	goid int64
	done int32
	res  string // Stream: ok|err ; Accept: stream|perm|temp|nil|both ; Close: nil|err ; Listen: ok|err
	s    int    // Accept: id of the returned stream (0: none or unknown)
	eid  string // Accept: identity of the error
	pan  interface{}
}

func (o *vLstOp) finished() bool { return atomic.LoadInt32(&o.done) == 1 }

var vLstGoidRe = regexp.MustCompile(`^goroutine (\d+) \[([^\]]*)\]:`)

func vLstGoid() int64 {
	var buf [64]byte
	n := runtime.Stack(buf[:], false)
	m := vLstGoidRe.FindSubmatch(buf[:n])
	if m == nil {
		return -1
	}
	id, _ := strconv.ParseInt(string(m[1]), 10, 64)
	return id
}

// vLstGo starts f on a new goroutine whose id is known before f runs; hold (may be nil)
// is a start barrier.
func vLstGo(hold <-chan struct{}, f func(o *vLstOp)) *vLstOp {
	o := &vLstOp{}
	ready := make(chan struct{})
	go func() {
		o.goid = vLstGoid()
		close(ready)
		defer func() {
			if r := recover(); r != nil {
				o.pan = r
			}
			atomic.StoreInt32(&o.done, 1)
		}()
		if hold != nil {
			<-hold
		}
		f(o)
	}()
	<-ready
	return o
}

// ---------------------------------------------------------------------------
// rig

type vLstRig struct {
	sc       vLstSched
	l        *SnowflakeListener
	blocker  net.Listener // keeps the port occupied (bind = "fail")
	pconn    *vLstPacketConn
	lgoid    int64        // goroutine that called Transport.Listen
	listened bool
	sess     []*vLstOp
	snext    []int32 // atomic
	acc      []*vLstOp
	acount   []int32 // atomic
	cls      []*vLstOp
	stack    []byte
	mu       sync.Mutex // recorder
	events   []map[string]interface{}
	info     map[string]interface{}
}

func vLstNewRig(sc vLstSched) *vLstRig {
	r := &vLstRig{sc: sc, stack: make([]byte, 1<<16), info: map[string]interface{}{}}
	if sc.Ctor == "minimal" {
		// the fields Transport.Listen fills, without sockets: a real (never started)
		// http.Server and a real KCP listener
		addr := vLstAddr("verif-listener")
		r.pconn = &vLstPacketConn{closed: make(chan struct{})}
		ln, err := kcp.ServeConn(nil, 0, 0, r.pconn)
		if err != nil {
			panic(err)
		}
		r.l = &SnowflakeListener{
			addr:   addr,
			queue:  make(chan net.Conn, sc.Cap),
			closed: make(chan struct{}),
			server: &http.Server{},
			ln:     ln,
		}
	}
	return r
}

func (r *vLstRig) rec(ev map[string]interface{}) {
	r.mu.Lock()
	r.events = append(r.events, ev)
	r.mu.Unlock()
}

func vLstGrow(p *[]*vLstOp, n int) {
	for len(*p) < n {
		*p = append(*p, nil)
	}
}

func vLstGrowInt(p *[]int32, n int) {
	for len(*p) < n {
		*p = append(*p, 0)
	}
}

func (r *vLstRig) pending() []*vLstOp {
	var out []*vLstOp
	for _, set := range [][]*vLstOp{r.sess, r.acc, r.cls} {
		for _, o := range set {
			if o != nil && !o.finished() {
				out = append(out, o)
			}
		}
	}
	return out
}

func (r *vLstRig) closeReturned() bool {
	for _, o := range r.cls {
		if o != nil && o.finished() && o.pan == nil {
			return true
		}
	}
	return false
}

// where classifies a parked operation goroutine: select | once | "" (not at rest)
func vLstWhere(state, body string) string {
	st := state
	if i := strings.IndexByte(st, ','); i >= 0 {
		st = st[:i]
	}
	switch {
	case st == "select" && (strings.Contains(body, "(*SnowflakeListener).queueConn") || strings.Contains(body, "(*SnowflakeListener).Accept")):
		return "select"
	case (st == "chan send" || st == "chan receive") && (strings.Contains(body, "(*SnowflakeListener).queueConn") || strings.Contains(body, "(*SnowflakeListener).Accept")):
		return "select" // a one-case select is compiled to a plain channel operation
	case (st == "sync.Mutex.Lock" || st == "semacquire") && strings.Contains(body, "sync.(*Once).doSlow") && strings.Contains(body, "(*SnowflakeListener).Close"):
		return "once"
	}
	return ""
}

func (r *vLstRig) dump() map[int64][2]string {
	var n int
	for {
		n = runtime.Stack(r.stack, true)
		if n < len(r.stack) {
			break
		}
		r.stack = make([]byte, 2*len(r.stack))
	}
	states := map[int64][2]string{}
	for _, blk := range bytes.Split(r.stack[:n], []byte("\n\n")) {
		m := vLstGoidRe.FindSubmatch(blk)
		if m == nil {
			continue
		}
		id, _ := strconv.ParseInt(string(m[1]), 10, 64)
		states[id] = [2]string{string(m[2]), string(blk)}
	}
	return states
}

// life reads the state of the two goroutines Transport.Listen started on behalf of this
// rig (they are the goroutines "created by ...(*Transport).Listen in goroutine <lgoid>").
//   srv: none | serving (parked in the accept of ListenAndServe) | senderr (parked in
//        `errChan <- err`) | done (gone) | "" (on its way)
//   asg: none | accepting (parked in AcceptKCP) | done | ""
func (r *vLstRig) life(states map[int64][2]string) (srv, asg string) {
	if !r.listened {
		return "none", "none"
	}
	srv, asg = "done", "done"
	if _, ok := r.info["listener"]; !ok {
		asg = "none" // Listen returned an error before `go func2`
	}
	mark := fmt.Sprintf(".(*Transport).Listen in goroutine %d\n", r.lgoid)
	for _, s := range states {
		if !strings.Contains(s[1], "created by ") || !strings.Contains(s[1]+"\n", mark) {
			continue
		}
		st := s[0]
		if i := strings.IndexByte(st, ','); i >= 0 {
			st = st[:i]
		}
		switch {
		case strings.Contains(s[1], ".(*Transport).Listen.func1"):
			switch {
			case st == "IO wait":
				srv = "serving"
			case st == "chan send" && strings.Contains(strings.SplitN(s[1], "\n", 3)[1], "Listen.func1"):
				srv = "senderr"
			default:
				srv = ""
			}
		case strings.Contains(s[1], ".(*Transport).Listen.func2"):
			if st == "select" && strings.Contains(s[1], "(*Listener).AcceptKCP") {
				asg = "accepting"
			} else {
				asg = ""
			}
		}
	}
	return srv, asg
}

// quiesce polls the dump of all goroutines until every pending operation is finished or
// parked and Listen's goroutines are parked or gone, twice in a row with the same
// picture.  After a Close call has returned, "serving" and "accepting" are not resting
// places (the accepts are about to fail); they are reported as seen only when they
// outlast the patience.
func (r *vLstRig) quiesce() (map[*vLstOp]string, string, string, error) {
	deadline := time.Now().Add(10 * time.Second)
	var patience time.Time
	var prev string
	same := 0
	for {
		pend := r.pending()
		states := r.dump()
		res := map[*vLstOp]string{}
		ok := true
		var pic strings.Builder
		for _, o := range pend {
			if o.finished() {
				ok = false
				break
			}
			s, found := states[o.goid]
			if !found {
				ok = false
				break
			}
			w := vLstWhere(s[0], s[1])
			if w == "" {
				ok = false
				break
			}
			res[o] = w
			fmt.Fprintf(&pic, "%d:%s;", o.goid, w)
		}
		srv, asg := r.life(states)
		if srv == "" || asg == "" {
			ok = false
		}
		if ok && r.closeReturned() && (srv == "serving" || asg == "accepting") {
			if patience.IsZero() {
				patience = time.Now().Add(vLstPatience)
			}
			if time.Now().Before(patience) {
				ok = false
			}
		}
		fmt.Fprintf(&pic, "srv=%s;asg=%s", srv, asg)
		// an operation parked in its select although the listener is closed is what a hang looks
		// like - it must last (five identical pictures, 5 ms apart) before it is believed
		suspicious := false
		if ok && len(res) > 0 && r.l != nil {
			select {
			case <-r.l.closed:
				suspicious = true
			default:
			}
		}
		if ok {
			if pic.String() == prev {
				same++
			} else {
				same = 0
			}
			prev = pic.String()
			if (!suspicious && same >= 1) || same >= 5 {
				return res, srv, asg, nil
			}
		} else {
			prev, same = "", 0
		}
		if suspicious {
			time.Sleep(5 * time.Millisecond)
		}
		if time.Now().After(deadline) {
			return nil, "", "", fmt.Errorf("no quiescence within 10s (last picture %q)", pic.String())
		}
		if patience.IsZero() {
			runtime.Gosched()
		} else {
			time.Sleep(200 * time.Microsecond)
		}
	}
}

func (r *vLstRig) observe(ev string, where map[*vLstOp]string, srv, asg string) map[string]interface{} {
	ss := []interface{}{}
	for i, o := range r.sess {
		m := map[string]interface{}{"st": "idle", "res": "none", "n": int(atomic.LoadInt32(&r.snext[i]))}
		if o != nil {
			switch {
			case !o.finished():
				m["st"] = where[o]
			case o.pan != nil:
				m["st"] = "panic"
				m["panic"] = fmt.Sprint(o.pan)
			case o.res != "":
				m["res"] = o.res
			}
		}
		ss = append(ss, m)
	}
	as := []interface{}{}
	for i, o := range r.acc {
		m := map[string]interface{}{"st": "idle", "res": "none", "s": 0, "n": int(atomic.LoadInt32(&r.acount[i]))}
		if o != nil {
			switch {
			case !o.finished():
				m["st"] = where[o]
			case o.pan != nil:
				m["st"] = "panic"
				m["panic"] = fmt.Sprint(o.pan)
			case o.res != "":
				m["res"], m["s"], m["eid"] = o.res, o.s, o.eid
			}
		}
		as = append(as, m)
	}
	cs := []interface{}{}
	for _, o := range r.cls {
		m := map[string]interface{}{"st": "idle", "res": "none"}
		if o != nil {
			switch {
			case !o.finished():
				m["st"] = where[o]
			case o.pan != nil:
				m["st"] = "panic"
				m["panic"] = fmt.Sprint(o.pan)
			default:
				m["st"], m["res"] = "done", o.res
			}
		}
		cs = append(cs, m)
	}
	qlen, closed := 0, false
	if r.l != nil {
		qlen = len(r.l.queue)
		select {
		case <-r.l.closed:
			closed = true
		default:
		}
	}
	return map[string]interface{}{"ev": ev, "qlen": qlen, "closed": closed, "ss": ss, "as": as, "cs": cs, "srv": srv, "asg": asg}
}

// ---------------------------------------------------------------------------
// the three operations (shared by both modes)

func (r *vLstRig) doStream(o *vLstOp, k, j int) {
	c := &SnowflakeClientConn{Conn: &vLstConn{k: k, j: j}, address: vLstAddr(fmt.Sprintf("client-%d-%d", k, j))}
	if err := r.l.queueConn(c); err != nil {
		o.res = "err"
	} else {
		o.res = "ok"
	}
}

func (r *vLstRig) doAccept(o *vLstOp) {
	c, err := r.l.Accept()
	switch {
	case c != nil && err != nil:
		o.res = "both"
	case c != nil:
		o.res = "stream"
		if sc, ok := c.(*SnowflakeClientConn); ok {
			if vc, ok := sc.Conn.(*vLstConn); ok && sc.RemoteAddr().String() == fmt.Sprintf("client-%d-%d", vc.k, vc.j) {
				o.s = (vc.k-1)*r.sc.NS + vc.j
			}
		}
	case err == nil:
		o.res = "nil"
	default:
		o.res = "perm"
		var ne net.Error
		if errors.As(err, &ne) && (ne.Temporary() || ne.Timeout()) {
			o.res = "temp"
		}
		switch {
		case errors.Is(err, io.ErrClosedPipe):
			o.eid = "io.ErrClosedPipe"
		case errors.Is(err, net.ErrClosed):
			o.eid = "net.ErrClosed"
		default:
			o.eid = "other:" + err.Error()
		}
	}
}

func (r *vLstRig) doClose(o *vLstOp) {
	if err := r.l.Close(); err != nil {
		o.res = "err"
	} else {
		o.res = "nil"
	}
}

// listen runs the real Transport.Listen to completion on its own goroutine.
func (r *vLstRig) listen(bind string) (string, error) {
	addr, err := net.ResolveTCPAddr("tcp", "127.0.0.1:0")
	if err != nil {
		return "", err
	}
	var target net.Addr = addr
	if bind == "fail" {
		r.blocker, err = net.Listen("tcp", "127.0.0.1:0")
		if err != nil {
			return "", err
		}
		target = r.blocker.Addr()
	}
	var l *SnowflakeListener
	var lerr error
	o := vLstGo(nil, func(o *vLstOp) {
		l, lerr = NewSnowflakeServer(nil).Listen(target)
	})
	r.lgoid = o.goid
	for !o.finished() {
		time.Sleep(time.Millisecond)
	}
	if o.pan != nil {
		return "", fmt.Errorf("Listen panicked: %v", o.pan)
	}
	r.listened = true
	if lerr != nil || l == nil {
		r.info["listen_error"] = fmt.Sprint(lerr)
		return "err", nil
	}
	r.l = l
	r.info["listener"] = true
	r.info["queue_cap"] = cap(l.queue)
	return "ok", nil
}

// ---------------------------------------------------------------------------
// gated mode

func (r *vLstRig) apply(s vLstStep) ([]map[string]interface{}, error) {
	switch s.Op {
	case "Listen":
		if r.sc.Ctor != "listen" || r.listened {
			return nil, nil
		}
		res, err := r.listen(s.Bind)
		if err != nil {
			return nil, err
		}
		return []map[string]interface{}{{"ev": "Listen", "bind": s.Bind}, {"ev": "ListenRet", "res": res}}, nil
	case "Stream":
		if r.l == nil || s.K < 1 {
			return nil, nil
		}
		vLstGrow(&r.sess, s.K)
		vLstGrowInt(&r.snext, s.K)
		if o := r.sess[s.K-1]; (o != nil && !o.finished()) || int(r.snext[s.K-1]) >= r.sc.NS {
			return nil, nil
		}
		k, j := s.K, int(atomic.AddInt32(&r.snext[s.K-1], 1))
		r.sess[s.K-1] = vLstGo(nil, func(o *vLstOp) { r.doStream(o, k, j) })
		return []map[string]interface{}{{"ev": "Stream", "k": s.K}}, nil
	case "Accept":
		if r.l == nil || s.A < 1 {
			return nil, nil
		}
		vLstGrow(&r.acc, s.A)
		vLstGrowInt(&r.acount, s.A)
		if o := r.acc[s.A-1]; o != nil && !o.finished() {
			return nil, nil
		}
		atomic.AddInt32(&r.acount[s.A-1], 1)
		r.acc[s.A-1] = vLstGo(nil, func(o *vLstOp) { r.doAccept(o) })
		return []map[string]interface{}{{"ev": "Accept", "a": s.A}}, nil
	case "Close":
		if r.l == nil || s.C < 1 {
			return nil, nil
		}
		vLstGrow(&r.cls, s.C)
		if r.cls[s.C-1] != nil {
			return nil, nil
		}
		r.cls[s.C-1] = vLstGo(nil, func(o *vLstOp) { r.doClose(o) })
		return []map[string]interface{}{{"ev": "Close", "c": s.C}}, nil
	}
	return nil, nil
}

func (r *vLstRig) runGated(tr *vLstTrace) {
	for _, st := range r.sc.Steps {
		evs, err := r.apply(st)
		if err != nil {
			tr.Note = "harness: " + err.Error()
			return
		}
		if evs == nil {
			tr.Skipped++
			continue
		}
		r.events = append(r.events, evs...)
		where, srv, asg, err := r.quiesce()
		if err != nil {
			tr.Note = "quiescence: " + err.Error()
			return
		}
		r.events = append(r.events, r.observe("obs", where, srv, asg))
	}
}

// ---------------------------------------------------------------------------
// herd mode

func (r *vLstRig) runHerd(tr *vLstTrace) {
	h := r.sc.Herd
	start := make(chan struct{})
	r.snext = make([]int32, len(h.Sessions))
	r.acount = make([]int32, len(h.Acceptors))
	for i, n := range h.Sessions {
		k, n := i+1, n
		r.sess = append(r.sess, vLstGo(start, func(o *vLstOp) {
			for j := 1; j <= n && j <= r.sc.NS; j++ {
				r.rec(map[string]interface{}{"ev": "Stream", "k": k})
				atomic.StoreInt32(&r.snext[k-1], int32(j))
				o.res = "panic"
				r.doStream(o, k, j)
				r.rec(map[string]interface{}{"ev": "RetStream", "k": k, "res": o.res})
			}
		}))
	}
	for i, n := range h.Acceptors {
		a, n := i+1, n
		r.acc = append(r.acc, vLstGo(start, func(o *vLstOp) {
			for j := 1; j <= n; j++ {
				r.rec(map[string]interface{}{"ev": "Accept", "a": a})
				atomic.StoreInt32(&r.acount[a-1], int32(j))
				o.res, o.s, o.eid = "panic", 0, ""
				r.doAccept(o)
				r.rec(map[string]interface{}{"ev": "RetAccept", "a": a, "res": o.res, "s": o.s, "eid": o.eid})
			}
		}))
	}
	for i, spin := range h.Closers {
		c, spin := i+1, spin
		r.cls = append(r.cls, vLstGo(start, func(o *vLstOp) {
			for y := 0; y < spin; y++ {
				runtime.Gosched()
			}
			r.rec(map[string]interface{}{"ev": "Close", "c": c})
			o.res = "panic"
			r.doClose(o)
			r.rec(map[string]interface{}{"ev": "RetClose", "c": c, "res": o.res})
		}))
	}
	close(start)
	where, srv, asg, err := r.quiesce()
	if err != nil {
		tr.Note = "quiescence: " + err.Error()
		return
	}
	r.mu.Lock()
	defer r.mu.Unlock()
	r.events = append(r.events, r.observe("final", where, srv, asg))
}

// ---------------------------------------------------------------------------

func vLstRunSchedule(sc vLstSched) (tr vLstTrace) {
	tr = vLstTrace{ID: sc.ID, Cap: sc.Cap, Ctor: sc.Ctor, Mode: sc.Mode, Events: []map[string]interface{}{}}
	defer func() {
		if p := recover(); p != nil {
			tr.Note = fmt.Sprintf("harness panic: %v", p)
		}
	}()
	r := vLstNewRig(sc)
	if sc.Mode == "herd" {
		if r.l == nil {
			tr.Note = "harness: herds need the minimal constructor"
			return tr
		}
		r.runHerd(&tr)
	} else {
		r.runGated(&tr)
	}
	tr.Events = r.events
	if tr.Events == nil {
		tr.Events = []map[string]interface{}{}
	}
	tr.Info = r.info
	r.cleanup()
	return tr
}

// cleanup (not recorded) brings the rig's goroutines to an end as far as the code lets it.
func (r *vLstRig) cleanup() {
	if r.blocker != nil {
		r.blocker.Close()
	}
	if r.pconn != nil {
		r.pconn.Close()
	}
	if r.l == nil {
		return
	}
	func() {
		defer func() { recover() }()
		r.l.Close()
	}()
	for i := 0; i < 100 && len(r.pending()) > 0; i++ {
		select {
		case <-r.l.queue:
		default:
		}
		runtime.Gosched()
	}
	if r.l.server != nil {
		if h, ok := r.l.server.Handler.(*httpHandler); ok && h.pconn != nil {
			h.pconn.Close() // nothing in the repository does this: the KCP monitor goroutine would stay
		}
	}
}

func TestVerifListener(t *testing.T) {
	in, out := os.Getenv("VERIF_LST_SCHED"), os.Getenv("VERIF_LST_OUT")
	if in == "" || out == "" {
		t.Skip("VERIF_LST_SCHED / VERIF_LST_OUT not set")
	}
	if v, err := strconv.Atoi(os.Getenv("VERIF_LST_PATIENCE_MS")); err == nil && v > 0 {
		vLstPatience = time.Duration(v) * time.Millisecond
	}
	log.SetOutput(io.Discard)
	f, err := os.Open(in)
	if err != nil {
		t.Fatal(err)
	}
	defer f.Close()
	var scheds []vLstSched
	sc := bufio.NewScanner(f)
	sc.Buffer(make([]byte, 1<<20), 1<<26)
	for sc.Scan() {
		if len(bytes.TrimSpace(sc.Bytes())) == 0 {
			continue
		}
		var s vLstSched
		if err := json.Unmarshal(sc.Bytes(), &s); err != nil {
			t.Fatal(err)
		}
		scheds = append(scheds, s)
	}
	of, err := os.Create(out)
	if err != nil {
		t.Fatal(err)
	}
	w := bufio.NewWriter(of)
	var mu sync.Mutex
	workers := 4
	if v, err := strconv.Atoi(os.Getenv("VERIF_LST_WORKERS")); err == nil && v > 0 {
		workers = v
	}
	ch := make(chan vLstSched)
	var wg sync.WaitGroup
	for i := 0; i < workers; i++ {
		wg.Add(1)
		go func() {
			defer wg.Done()
			for s := range ch {
				tr := vLstRunSchedule(s)
				b, _ := json.Marshal(tr)
				mu.Lock()
				w.Write(b)
				w.WriteByte('\n')
				mu.Unlock()
			}
		}()
	}
	for _, s := range scheds {
		ch <- s
	}
	close(ch)
	wg.Wait()
	w.Flush()
	of.Close()
	fmt.Printf("VERIF_LST schedules=%d goroutines_left=%d\n", len(scheds), runtime.NumGoroutine())
}
