package snowflake_server

// C09 at the server call site of common/encapsulation (spec/Encap/EncapSites.tla),
// injected with `go test -overlay`; never written into the repository.
//
// Every case (stream layout, truncation point, the ways the stream is cut into
// messages) and every expectation (the chunks that must be queued; the size of
// the downstream stream) is printed by TLC.  This file builds the bytes, hands
// them message by message to the real turbotunnelMode through an io.Pipe (what
// websocketconn puts under it: one Write per WebSocket message, a Read returns
// at most the rest of one message), reads the QueuePacketConn and compares.
//
// Environment:
//   VERIF_ENC_IN   comma-separated files of read cases (raw TLC output or ndjson)
//   VERIF_ENC_WIN  comma-separated files of write cases, may be empty
//   VERIF_ENC_OUT  results (ndjson)
//   VERIF_ENC_WS   number of cases that additionally go through the real ServeHTTP over a
//                  loopback WebSocket (0 = none)
//   VERIF_SEED     seed of the body bytes

import (
	"bufio"
	"bytes"
	"encoding/binary"
	"encoding/json"
	"fmt"
	"io"
	"net"
	"net/http"
	"net/http/httptest"
	"os"
	"runtime"
	"runtime/debug"
	"strconv"
	"strings"
	"sync"
	"sync/atomic"
	"testing"
	"time"

	"git.torproject.org/pluggable-transports/snowflake.git/v2/common/encapsulation"
	"git.torproject.org/pluggable-transports/snowflake.git/v2/common/turbotunnel"
	"github.com/gorilla/websocket"
)

type vEncOp struct {
	K   string `json:"k"`
	Len int    `json:"len"`
	W   int    `json:"w"`
}
type vEncChunk struct {
	Start int `json:"start"`
	Len   int `json:"len"`
}
type vEncCase struct {
	Ops    []vEncOp `json:"ops"`
	Cut    int      `json:"cut"`
	Script []string `json:"script"`
	Expect struct {
		Chunks []vEncChunk `json:"chunks"`
		Term   string      `json:"term"`
	} `json:"expect"`
	Srv  []vEncChunk `json:"srv"`
	Base bool        `json:"base"`
	Msgs struct {
		Chunk  []int `json:"chunk"`
		One    []int `json:"one"`
		Script []int `json:"script"`
	} `json:"msgs"`
}
type vEncWop struct {
	K   string `json:"k"`
	Len int    `json:"len"`
}
type vEncWCase struct {
	Wops   []vEncWop `json:"wops"`
	Script []string  `json:"script"`
	Expect struct {
		Size    int   `json:"size"`
		Chunks  []int `json:"chunks"`
		Toolong []int `json:"toolong"`
	} `json:"expect"`
}
type vEncResult struct {
	Idx    int         `json:"idx"`
	Sig    string      `json:"sig"`
	Detail string      `json:"detail"`
	Case   interface{} `json:"case,omitempty"`
}

func vEncLoad(paths string) ([][]byte, error) {
	var out [][]byte
	for _, path := range strings.Split(paths, ",") {
		if path == "" {
			continue
		}
		f, err := os.Open(path)
		if err != nil {
			return nil, err
		}
		sc := bufio.NewScanner(f)
		sc.Buffer(make([]byte, 1<<20), 1<<28)
		for sc.Scan() {
			b := sc.Bytes()
			switch {
			case len(b) > 2 && b[0] == '"' && b[1] == '{':
				var s string
				if err := json.Unmarshal(b, &s); err != nil {
					f.Close()
					return nil, fmt.Errorf("%s: %v", path, err)
				}
				out = append(out, []byte(s))
			case len(b) > 1 && b[0] == '{':
				out = append(out, append([]byte(nil), b...))
			}
		}
		err = sc.Err()
		f.Close()
		if err != nil {
			return nil, err
		}
	}
	return out, nil
}

type vEncOut struct {
	mu sync.Mutex
	f  *os.File
	w  *bufio.Writer
}

func (o *vEncOut) put(v interface{}) {
	b, err := json.Marshal(v)
	if err != nil {
		b, _ = json.Marshal(map[string]string{"sig": "harness/marshal", "detail": err.Error()})
	}
	o.mu.Lock()
	o.w.Write(b)
	o.w.WriteByte('\n')
	o.mu.Unlock()
}

func vEncKeyByte(key uint64, pos uint64) byte {
	z := key + 0x9e3779b97f4a7c15*(pos+1)
	z = (z ^ (z >> 30)) * 0xbf58476d1ce4e5b9
	z = (z ^ (z >> 27)) * 0x94d049bb133111eb
	z = z ^ (z >> 31)
	return byte(z)
}

func vEncFill(p []byte, key uint64, off uint64) {
	for i := range p {
		p[i] = vEncKeyByte(key, off+uint64(i))
	}
}

func vEncStream(ops []vEncOp, key uint64) []byte {
	var b []byte
	for _, o := range ops {
		switch o.K {
		case "X":
			b = append(b, 0xc0|vEncKeyByte(key, uint64(len(b)))&0x3f, 0x80|vEncKeyByte(key, uint64(len(b)+1))&0x7f, 0x80|vEncKeyByte(key, uint64(len(b)+2))&0x7f)
		default:
			var d byte
			if o.K == "D" {
				d = 0x80
			}
			n := o.Len
			switch o.W {
			case 1:
				b = append(b, d|byte(n&0x3f))
			case 2:
				b = append(b, d|0x40|byte((n>>7)&0x3f), byte(n&0x7f))
			case 3:
				b = append(b, d|0x40|byte((n>>14)&0x3f), 0x80|byte((n>>7)&0x7f), byte(n&0x7f))
			}
		}
		start := len(b)
		b = append(b, make([]byte, o.Len)...)
		vEncFill(b[start:], key, uint64(start))
	}
	return b
}

// vEncScripted: the scripted io.Reader of harness/cmd/encapdrv (used to decode
// the downstream with the real ReadData).
type vEncScripted struct {
	data   []byte
	pos    int
	script []string
	si     int
}

func (s *vEncScripted) Read(p []byte) (int, error) {
	if len(p) == 0 {
		return 0, nil
	}
	avail := len(s.data) - s.pos
	if avail == 0 {
		return 0, io.EOF
	}
	d := s.script[s.si%len(s.script)]
	s.si++
	want := len(p)
	if want > avail {
		want = avail
	}
	var n int
	var err error
	switch d {
	case "Zero":
		return 0, nil
	case "One":
		n = 1
	case "Part":
		n = want / 2
		if n < 1 {
			n = 1
		}
	case "All":
		n = want
	case "AllEOF":
		n = want
		if s.pos+n == len(s.data) {
			err = io.EOF
		}
	default:
		panic("unknown directive " + d)
	}
	copy(p, s.data[s.pos:s.pos+n])
	s.pos += n
	return n, err
}

func vEncDirClass(script []string) string {
	seen := map[string]bool{}
	for _, d := range script {
		seen[d] = true
	}
	var out []string
	for _, d := range []string{"Zero", "One", "Part", "AllEOF"} {
		if seen[d] {
			out = append(out, d)
		}
	}
	if len(out) == 0 {
		return "All"
	}
	return strings.Join(out, "+")
}

// vEncSrvConn is the net.Conn handed to turbotunnelMode: upstream an io.Pipe
// (as in websocketconn), downstream a buffer.
type vEncSrvConn struct {
	pr     *io.PipeReader
	pw     *io.PipeWriter
	mu     sync.Mutex
	down   bytes.Buffer
	closed bool
	notify chan struct{}
}

func vEncNewSrvConn() *vEncSrvConn {
	c := &vEncSrvConn{notify: make(chan struct{}, 1)}
	c.pr, c.pw = io.Pipe()
	return c
}

func (c *vEncSrvConn) Read(p []byte) (int, error) { return c.pr.Read(p) }
func (c *vEncSrvConn) Write(p []byte) (int, error) {
	c.mu.Lock()
	if c.closed {
		c.mu.Unlock()
		return 0, io.ErrClosedPipe
	}
	c.down.Write(p)
	c.mu.Unlock()
	select {
	case c.notify <- struct{}{}:
	default:
	}
	return len(p), nil
}
func (c *vEncSrvConn) Close() error {
	c.mu.Lock()
	c.closed = true
	c.mu.Unlock()
	c.pr.Close()
	select {
	case c.notify <- struct{}{}:
	default:
	}
	return nil
}
func (c *vEncSrvConn) downLen() int {
	c.mu.Lock()
	defer c.mu.Unlock()
	return c.down.Len()
}
func (c *vEncSrvConn) LocalAddr() net.Addr                { return ClientMapAddr("local") }
func (c *vEncSrvConn) RemoteAddr() net.Addr               { return ClientMapAddr("remote") }
func (c *vEncSrvConn) SetDeadline(t time.Time) error      { return nil }
func (c *vEncSrvConn) SetReadDeadline(t time.Time) error  { return nil }
func (c *vEncSrvConn) SetWriteDeadline(t time.Time) error { return nil }

type vEncPkt struct {
	data []byte
	addr net.Addr
}

// vEncWorker owns one QueuePacketConn (its ClientMap starts a goroutine that
// never ends, so there is one per worker, not one per run) and a collector
// that moves whatever arrives on it into a channel.
type vEncWorker struct {
	pconn    *turbotunnel.QueuePacketConn
	ids      [4]turbotunnel.ClientID
	next     int
	sentinel turbotunnel.ClientID
	got      chan vEncPkt
	run      uint64
}

var vEncDownTimeouts int64

func vEncNewWorker(k int, seed uint64) *vEncWorker {
	w := &vEncWorker{pconn: turbotunnel.NewQueuePacketConn(ClientMapAddr("verif"), time.Hour), got: make(chan vEncPkt, 64)}
	for j := range w.ids {
		vEncFill(w.ids[j][:], seed^0x5eed, uint64(k*64+j*8))
		w.ids[j][0] = byte(k)
		w.ids[j][1] = byte(j + 1)
	}
	vEncFill(w.sentinel[:], seed^0x5e27, uint64(k))
	w.sentinel[0], w.sentinel[1] = byte(k), 0
	go func() {
		buf := make([]byte, 1<<20+64)
		for {
			n, addr, err := w.pconn.ReadFrom(buf)
			if err != nil {
				return
			}
			w.got <- vEncPkt{append([]byte(nil), buf[:n]...), addr}
		}
	}()
	return w
}

func (w *vEncWorker) nextID() turbotunnel.ClientID {
	w.next++
	return w.ids[w.next%len(w.ids)]
}

// run hands `messages` (the first ones carry the ClientID) to turbotunnelMode,
// with `queued` already waiting in the ClientID's outgoing queue; it returns
// the packets that arrived on the QueuePacketConn (at most `keep` are kept,
// all are counted), the downstream bytes, and whether turbotunnelMode returned.
func (w *vEncWorker) runOnce(id turbotunnel.ClientID, messages [][]byte, queued [][]byte, wantDown int, keep int) (pkts []vEncPkt, count int, down []byte, problem string) {
	w.run++
	oq := w.pconn.OutgoingQueue(id)
	for drained := false; !drained; {
		select {
		case <-oq:
		default:
			drained = true
		}
	}
	for _, p := range queued {
		w.pconn.WriteTo(p, id)
	}
	conn := vEncNewSrvConn()
	go func() {
		for _, m := range messages {
			if _, err := conn.pw.Write(m); err != nil {
				return
			}
		}
		if wantDown > 0 {
			// keep the upstream open until the downstream has been written
			wait := 10 * time.Second
			if atomic.LoadInt64(&vEncDownTimeouts) >= 3 {
				wait = 50 * time.Millisecond // violations have been observed; do not spend the budget waiting
			}
			deadline := time.After(wait)
		loop:
			for conn.downLen() < wantDown {
				select {
				case <-conn.notify:
					conn.mu.Lock()
					cl := conn.closed
					conn.mu.Unlock()
					if cl {
						break loop
					}
				case <-deadline:
					atomic.AddInt64(&vEncDownTimeouts, 1)
					break loop
				}
			}
		}
		conn.pw.Close()
	}()
	ret := make(chan error, 1)
	go func() {
		defer func() {
			if v := recover(); v != nil {
				ret <- fmt.Errorf("panic: %v\n%s", v, debug.Stack())
			}
		}()
		ret <- turbotunnelMode(conn, ClientMapAddr("192.0.2.7:1"), w.pconn)
	}()
	select {
	case err := <-ret:
		if err != nil {
			problem = "error: " + err.Error()
		}
	case <-time.After(60 * time.Second):
		problem = "no-return"
		conn.Close()
		conn.pw.Close()
	}
	// everything turbotunnelMode queued is in front of the sentinel
	var mark [8]byte
	binary.BigEndian.PutUint64(mark[:], w.run)
	w.pconn.QueueIncoming(mark[:], w.sentinel)
	tick := time.NewTicker(50 * time.Millisecond)
	defer tick.Stop()
	for {
		select {
		case p := <-w.got:
			if p.addr == net.Addr(w.sentinel) {
				if len(p.data) == 8 && binary.BigEndian.Uint64(p.data) == w.run {
					conn.mu.Lock()
					down = append([]byte(nil), conn.down.Bytes()...)
					conn.mu.Unlock()
					return
				}
				continue // a repeated sentinel of an earlier run
			}
			count++
			if len(pkts) < keep {
				pkts = append(pkts, p)
			}
		case <-tick.C:
			w.pconn.QueueIncoming(mark[:], w.sentinel) // the queue was full and dropped it
		}
	}
}

var vEncHeads = []string{"own", "joined", "split"}

// vEncMessages cuts ClientID+data into messages: `lens` are the message
// lengths of the data; head says where the ClientID goes.
func vEncMessages(id turbotunnel.ClientID, data []byte, lens []int, head string) [][]byte {
	full := append(append([]byte(nil), id[:]...), data...)
	var cuts []int // message lengths over `full`
	first := 0
	rest := lens
	if len(lens) > 0 {
		first, rest = lens[0], lens[1:]
	}
	switch head {
	case "own":
		cuts = append(cuts, 8)
		if len(lens) > 0 {
			cuts = append(cuts, first)
		}
	case "joined":
		cuts = append(cuts, 8+first)
	case "split":
		cuts = append(cuts, 3, 5+first)
	}
	cuts = append(cuts, rest...)
	var out [][]byte
	off := 0
	for _, n := range cuts {
		out = append(out, full[off:off+n])
		off += n
	}
	if off != len(full) {
		panic("framing does not cover the stream")
	}
	return out
}

// vEncAligned: every message ends at a chunk boundary (or at the cut) and holds at most one chunk.
func vEncAligned(c *vEncCase, lens []int) bool {
	ends := map[int]bool{c.Cut: true}
	off := 0
	for _, o := range c.Ops {
		if o.K == "X" {
			off += 3 + o.Len
		} else {
			off += o.W + o.Len
		}
		ends[off] = true
	}
	off = 0
	prev := 0
	for _, n := range lens {
		off += n
		if !ends[off] {
			return false
		}
		for e := range ends {
			if e > prev && e < off {
				return false
			}
		}
		prev = off
	}
	return true
}

type vEncStats struct {
	cases, readCases, evals, nontrivial, skipped int64
}

func vEncCompare(c *vEncCase, stream []byte, id turbotunnel.ClientID, pkts []vEncPkt, count int, problem string) (cls, detail string) {
	switch {
	case problem == "no-return":
		return "no-return", "turbotunnelMode did not return within 60 s after the peer closed the connection"
	case problem != "":
		return "error", "turbotunnelMode: " + problem
	case count < len(c.Srv):
		return "fewer", fmt.Sprintf("%d packets queued, contract says %d", count, len(c.Srv))
	case count > len(c.Srv):
		return "more", fmt.Sprintf("%d packets queued, contract says %d", count, len(c.Srv))
	}
	for k, e := range c.Srv {
		if !bytes.Equal(pkts[k].data, stream[e.Start:e.Start+e.Len]) {
			return "differ", fmt.Sprintf("packet %d (%d bytes) is not data chunk %d (%d bytes at offset %d)", k, len(pkts[k].data), k, e.Len, e.Start)
		}
		if pkts[k].addr != net.Addr(id) {
			return "wrong-clientid", fmt.Sprintf("packet %d is tagged %v, the connection's ClientID is %v", k, pkts[k].addr, id)
		}
	}
	return "", ""
}

func vEncDoRead(w *vEncWorker, raw []byte, idx int, key uint64, out *vEncOut, st *vEncStats) {
	var c vEncCase
	if err := json.Unmarshal(raw, &c); err != nil {
		out.put(vEncResult{Idx: idx, Sig: "harness/bad-case", Detail: err.Error()})
		return
	}
	stream := vEncStream(c.Ops, key+uint64(idx))
	if c.Cut > len(stream) {
		out.put(vEncResult{Idx: idx, Sig: "harness/cut-beyond-stream", Detail: "cut beyond stream"})
		return
	}
	data := stream[:c.Cut]
	type framing struct {
		how  string
		lens []int
	}
	fr := []framing{{"script", c.Msgs.Script}}
	if c.Base {
		fr = append(fr, framing{"chunk", c.Msgs.Chunk}, framing{"one", c.Msgs.One})
	}
	nt := false
	for _, f := range fr {
		aligned := vEncAligned(&c, f.lens)
		for _, head := range vEncHeads {
			id := w.nextID()
			pkts, count, _, problem := w.runOnce(id, vEncMessages(id, data, f.lens, head), nil, 0, len(c.Srv))
			atomic.AddInt64(&st.evals, 1)
			if !aligned || c.Cut < len(stream) {
				nt = true // some message does not hold exactly one chunk, or the stream is truncated
			}
			if cls, detail := vEncCompare(&c, stream, id, pkts, count, problem); cls != "" {
				al := "aligned"
				if !aligned {
					al = "unaligned"
				}
				out.put(vEncResult{Idx: idx, Sig: fmt.Sprintf("server/turbotunnelMode/framing=%s(%s)/clientid=%s/queued=%s", f.how, al, head, cls),
					Detail: fmt.Sprintf("messages %v after the ClientID (%s): %s", f.lens, head, detail), Case: &c})
			}
		}
	}
	atomic.AddInt64(&st.cases, 1)
	atomic.AddInt64(&st.readCases, 1)
	if nt {
		atomic.AddInt64(&st.nontrivial, 1)
	}
}

// vEncDoWrite: packets queued for the ClientID must come out of turbotunnelMode
// as one data chunk each, in order, while the upstream of a read case is being
// decoded on the same connection.
func vEncDoWrite(w *vEncWorker, raw []byte, idx int, key uint64, out *vEncOut, st *vEncStats, duplex []byte) {
	var c vEncWCase
	if err := json.Unmarshal(raw, &c); err != nil {
		out.put(vEncResult{Idx: idx, Sig: "harness/bad-case", Detail: err.Error()})
		return
	}
	tooLong := map[int]bool{}
	for _, i := range c.Expect.Toolong {
		tooLong[i] = true
	}
	if len(tooLong) > 0 {
		// don't-care: a queued packet that cannot be encoded tears the connection down
		atomic.AddInt64(&st.skipped, 1)
		return
	}
	var queued [][]byte
	for i, o := range c.Wops {
		d := make([]byte, o.Len)
		vEncFill(d, key+uint64(idx), uint64(i)<<32)
		queued = append(queued, d)
	}
	var rc vEncCase
	var rstream []byte
	var lens []int
	if duplex != nil && json.Unmarshal(duplex, &rc) == nil {
		rstream = vEncStream(rc.Ops, key+uint64(idx)+77)
		lens = rc.Msgs.Script
	} else {
		rc = vEncCase{}
	}
	var data []byte
	if rstream != nil {
		data = rstream[:rc.Cut]
	}
	id := w.nextID()
	pkts, count, down, problem := w.runOnce(id, vEncMessages(id, data, lens, vEncHeads[idx%3]), queued, c.Expect.Size, len(rc.Srv))
	atomic.AddInt64(&st.cases, 1)
	atomic.AddInt64(&st.evals, 1)
	atomic.AddInt64(&st.nontrivial, 1)
	both := map[string]interface{}{"write": &c, "read": &rc}
	if cls, detail := vEncCompare(&rc, rstream, id, pkts, count, problem); cls != "" {
		out.put(vEncResult{Idx: idx, Sig: "server/duplex/queued=" + cls, Detail: "while the downstream was being written: " + detail, Case: both})
	}
	report := func(sig, detail string) {
		out.put(vEncResult{Idx: idx, Sig: "server/downstream/" + sig, Detail: detail, Case: both})
	}
	if len(down) != c.Expect.Size {
		report("total-size", fmt.Sprintf("downstream has %d bytes, contract says %d (packets %v)", len(down), c.Expect.Size, c.Expect.Chunks))
		return
	}
	r := &vEncScripted{data: down, script: c.Script}
	for i := 0; ; i++ {
		p, err := encapsulation.ReadData(r)
		if err != nil {
			if err != io.EOF || i != len(queued) {
				report("roundtrip-term", fmt.Sprintf("after %d of %d packets: %v", i, len(queued), err))
			}
			return
		}
		if i >= len(queued) || !bytes.Equal(p, queued[i]) {
			report("roundtrip-data", fmt.Sprintf("chunk %d is not packet %d", i, i))
			return
		}
	}
}

// vEncDoWS sends the case through the real ServeHTTP: a loopback WebSocket
// whose messages are token, ClientID and the stream cut as the framing says.
func vEncDoWS(srvURL string, served chan struct{}, pconn *turbotunnel.QueuePacketConn, got chan vEncPkt, raw []byte, idx int, key uint64, out *vEncOut, st *vEncStats, sentinel turbotunnel.ClientID) {
	var c vEncCase
	if err := json.Unmarshal(raw, &c); err != nil {
		return
	}
	stream := vEncStream(c.Ops, key+uint64(idx))
	data := stream[:c.Cut]
	var id turbotunnel.ClientID
	vEncFill(id[:], key^0x3333, uint64(idx)*8)
	id[0] = 0xee
	for hi, head := range []string{"token-own", "token-joined", "all-joined"} {
		lens := c.Msgs.Script
		if hi == 2 {
			lens = nil
			if c.Cut > 0 {
				lens = []int{c.Cut}
			}
		}
		var msgs [][]byte
		body := vEncMessages(id, data, lens, map[string]string{"token-own": "own", "token-joined": "split", "all-joined": "joined"}[head])
		switch head {
		case "token-own":
			msgs = append([][]byte{turbotunnel.Token[:]}, body...)
		default:
			msgs = append([][]byte{append(append([]byte(nil), turbotunnel.Token[:]...), body[0]...)}, body[1:]...)
		}
		ws, _, err := websocket.DefaultDialer.Dial(srvURL+"?client_ip=192.0.2.9", nil)
		if err != nil {
			out.put(vEncResult{Idx: idx, Sig: "harness/ws-dial", Detail: err.Error()})
			return
		}
		for _, m := range msgs {
			if err := ws.WriteMessage(websocket.BinaryMessage, m); err != nil {
				break
			}
		}
		ws.WriteControl(websocket.CloseMessage, websocket.FormatCloseMessage(websocket.CloseNormalClosure, ""), time.Now().Add(time.Second))
		// ServeHTTP returns when turbotunnelMode has returned
		problem := ""
		select {
		case <-served:
		case <-time.After(60 * time.Second):
			problem = "no-return"
		}
		ws.Close()
		var mark [8]byte
		binary.BigEndian.PutUint64(mark[:], 1<<63|(uint64(idx)*4+uint64(hi)+1)) // never a run number of runOnce
		pconn.QueueIncoming(mark[:], sentinel)
		var pkts []vEncPkt
		count := 0
		tick := time.NewTicker(50 * time.Millisecond)
	collect:
		for {
			select {
			case p := <-got:
				if p.addr == net.Addr(sentinel) {
					if bytes.Equal(p.data, mark[:]) {
						break collect
					}
					continue
				}
				count++
				if len(pkts) < len(c.Srv) {
					pkts = append(pkts, p)
				}
			case <-tick.C:
				pconn.QueueIncoming(mark[:], sentinel)
			}
		}
		tick.Stop()
		atomic.AddInt64(&st.evals, 1)
		if cls, detail := vEncCompare(&c, stream, id, pkts, count, problem); cls != "" {
			out.put(vEncResult{Idx: idx, Sig: fmt.Sprintf("server/ServeHTTP/websocket=%s/queued=%s", head, cls),
				Detail: fmt.Sprintf("WebSocket messages of %v bytes: %s", vEncLens(msgs), detail), Case: &c})
		}
	}
}

func vEncLens(m [][]byte) []int {
	out := make([]int, len(m))
	for i := range m {
		out[i] = len(m[i])
	}
	return out
}

func vEncParallel(n int, fn func(worker, i int), onPanic func(i int, v interface{}, stack string)) {
	workers := runtime.NumCPU()
	var wg sync.WaitGroup
	var next int64 = -1
	for k := 0; k < workers; k++ {
		wg.Add(1)
		go func(k int) {
			defer wg.Done()
			for {
				i := int(atomic.AddInt64(&next, 1))
				if i >= n {
					return
				}
				func() {
					defer func() {
						if v := recover(); v != nil {
							onPanic(i, v, string(debug.Stack()))
						}
					}()
					fn(k, i)
				}()
			}
		}(k)
	}
	wg.Wait()
}

func TestVerifC09ServerCallSite(t *testing.T) {
	inp, outp := os.Getenv("VERIF_ENC_IN"), os.Getenv("VERIF_ENC_OUT")
	if outp == "" {
		t.Skip("VERIF_ENC_OUT not set")
	}
	seed, _ := strconv.ParseUint(os.Getenv("VERIF_SEED"), 10, 64)
	key := seed * 0x1000003
	cases, err := vEncLoad(inp)
	if err != nil {
		t.Fatal(err)
	}
	wcases, err := vEncLoad(os.Getenv("VERIF_ENC_WIN"))
	if err != nil {
		t.Fatal(err)
	}
	f, err := os.Create(outp)
	if err != nil {
		t.Fatal(err)
	}
	out := &vEncOut{f: f, w: bufio.NewWriter(f)}
	var st vEncStats
	workers := make([]*vEncWorker, runtime.NumCPU())
	for k := range workers {
		workers[k] = vEncNewWorker(k, seed)
	}
	vEncParallel(len(cases), func(w, i int) {
		vEncDoRead(workers[w], cases[i], i, key, out, &st)
	}, func(i int, v interface{}, stack string) {
		var c interface{}
		json.Unmarshal(cases[i], &c)
		out.put(vEncResult{Idx: i, Sig: "harness/panic-in-driver", Detail: fmt.Sprint(v) + "\n" + stack, Case: c})
	})
	vEncParallel(len(wcases), func(w, i int) {
		// the upstream partner: a read case that does not end in a protocol error (TooLong
		// ends the read loop and with it the connection; what then becomes of the
		// downstream is outside the contract)
		var dup []byte
		for j := 0; j < len(cases) && dup == nil; j++ {
			cand := cases[((i+j)*7919)%len(cases)]
			var probe struct {
				Expect struct {
					Term string `json:"term"`
				} `json:"expect"`
			}
			if json.Unmarshal(cand, &probe) == nil && probe.Expect.Term != "TooLong" {
				dup = cand
			}
		}
		vEncDoWrite(workers[w], wcases[i], i, key, out, &st, dup)
	}, func(i int, v interface{}, stack string) {
		var c interface{}
		json.Unmarshal(wcases[i], &c)
		out.put(vEncResult{Idx: i, Sig: "harness/panic-in-driver", Detail: fmt.Sprint(v) + "\n" + stack, Case: c})
	})
	wsN, _ := strconv.Atoi(os.Getenv("VERIF_ENC_WS"))
	if wsN > 0 && len(cases) > 0 {
		w0 := workers[0]
		h := &httpHandler{pconn: w0.pconn}
		served := make(chan struct{}, 16)
		srv := httptest.NewServer(http.HandlerFunc(func(rw http.ResponseWriter, rq *http.Request) {
			h.ServeHTTP(rw, rq)
			served <- struct{}{}
		}))
		url := "ws" + strings.TrimPrefix(srv.URL, "http")
		step := len(cases) / wsN
		if step < 1 {
			step = 1
		}
		for i := int(seed) % step; i < len(cases); i += step {
			vEncDoWS(url, served, w0.pconn, w0.got, cases[i], i, key, out, &st, w0.sentinel)
		}
		srv.Close()
	}
	out.put(map[string]interface{}{"summary": map[string]interface{}{"cases": st.cases, "read_cases": st.readCases, "skipped_unencodable": st.skipped, "evaluations": st.evals, "nontrivial": st.nontrivial, "down_timeouts": atomic.LoadInt64(&vEncDownTimeouts)}})
	out.w.Flush()
	f.Close()
}
