//go:build verif && go1.25
// +build verif,go1.25

package snowflake_client

// Fake-clock conformance rig for spec/ConnectLoop (lib/checks/c01_connectloop.py).
//
// The REAL Peers and the REAL connectLoop run inside a testing/synctest bubble
// (go1.26.8, GODEBUG=asynctimerchan=0) against a scripted Tongue.  Peers are the
// hook-free fake *WebRTCPeer the repository's own tests use, with the real
// checkForStaleness goroutine started on each (as connect() does) and a feeder
// that plays the remote side's traffic.  The rig plays dialContext's part
// (Pop only while the session has no live carrier) and SnowflakeConn.Close's
// (End).  connectLoop takes a SnowflakeCollector: it gets a wrapper around the
// real Peers that logs collect.start / collect.end - no hook in /repo.
//
// The rig only EXECUTES a plan (commands issued when every goroutine of the
// bubble is durably blocked: synctest.Wait) and RECORDS events with fake
// timestamps (integer ms since the loop was started).  TLC judges every trace
// against spec/ConnectLoop/ConnectLoop_Trace.tla; there is no timing oracle here.
//
//   VERIF_CL_IN   plans, one JSON object per line:
//       {"id":n,"max":M,"steps":[{"op":"adv","ms":N},{"op":"pop"},{"op":"kill","k":K},
//        {"op":"freeze","k":K},{"op":"tongue","cls":"ok|rv|dc","dur":MS},{"op":"end"}],"tail":MS}
//   VERIF_CL_OUT  traces: {"id":n,"max":M,"events":[...],"skipped":k,"note":"..."}
//
// Recorder compression: back-to-back iterations "collect.start, collect.end(atCapacity)"
// with nothing logged in between are folded into one "run" event (first, n, gmin,
// gmax are measurements; the bound on them is checked in TLA+).

import (
	"errors"
	"fmt"
	"runtime"
	"strings"
	"sync"
	"testing/synctest"
	"time"

	"git.torproject.org/pluggable-transports/snowflake.git/v2/common/event"
)

type vclStep struct {
	Op  string `json:"op"`
	Ms  int64  `json:"ms,omitempty"`
	K   int    `json:"k,omitempty"`
	Cls string `json:"cls,omitempty"`
	Dur int64  `json:"dur,omitempty"`
}

type vclPlan struct {
	ID    int       `json:"id"`
	Max   int       `json:"max"`
	Steps []vclStep `json:"steps"`
	Tail  int64     `json:"tail"`
}

type vclEvent map[string]interface{}

var (
	vclErrRV = errors.New("verif: scripted rendezvous failure")
	vclErrDC = errors.New("verif: scripted data channel timeout")
)

type vclRun struct{ first, last, gmin, gmax, n int64 }

type vclRig struct {
	mu      sync.Mutex
	t0      time.Time
	events  []vclEvent
	held    vclEvent // a collect.start not yet committed to the log
	run     *vclRun
	rec     bool
	over    bool // the plan is finished: the loop goroutine is retired at its next Collect
	peers   []*WebRTCPeer
	frozen  map[int]bool
	killed  map[int]bool
	cls     string
	dur     time.Duration
	abort   chan struct{}
	carrier int
	popping bool
	popNil  bool
	ended   bool
	skipped int
	p       *Peers
}

func (r *vclRig) ms() int64 { return int64(time.Since(r.t0) / time.Millisecond) }

func (r *vclRig) flushRun() {
	if r.run != nil {
		u := r.run
		r.events = append(r.events, vclEvent{"ev": "run", "t": u.last, "first": u.first, "n": u.n, "gmin": u.gmin, "gmax": u.gmax})
		r.run = nil
	}
}

// log appends an event; see "Recorder compression" above.
func (r *vclRig) log(e vclEvent) {
	r.mu.Lock()
	defer r.mu.Unlock()
	if !r.rec {
		return
	}
	t := r.ms()
	e["t"] = t
	if e["ev"] == "collect.start" {
		if r.held != nil {
			r.flushRun()
			r.events = append(r.events, r.held)
		}
		r.held = e
		return
	}
	if r.held != nil && e["ev"] == "collect.end" && e["out"] == "atCapacity" && r.held["t"] == t {
		r.held = nil
		if r.run == nil {
			r.run = &vclRun{first: t, last: t, gmin: -1, n: 1}
		} else {
			g := t - r.run.last
			if r.run.gmin < 0 || g < r.run.gmin {
				r.run.gmin = g
			}
			if g > r.run.gmax {
				r.run.gmax = g
			}
			r.run.last, r.run.n = t, r.run.n+1
		}
		return
	}
	r.flushRun()
	if r.held != nil {
		r.events = append(r.events, r.held)
		r.held = nil
	}
	r.events = append(r.events, e)
}

func (r *vclRig) finishLog() {
	r.mu.Lock()
	defer r.mu.Unlock()
	r.flushRun()
	if r.held != nil {
		r.events = append(r.events, r.held)
		r.held = nil
	}
	r.rec = false
	r.over = true
}

// ---- the collector handed to the real connectLoop -------------------------

type vclCollector struct{ r *vclRig }

func vclClassify(p *WebRTCPeer, err error) string {
	switch {
	case err == nil && p != nil:
		return "ok"
	case err == vclErrRV:
		return "rv"
	case err == vclErrDC:
		return "dc"
	case err != nil && strings.Contains(err.Error(), "melted"):
		return "melted"
	case err != nil && strings.Contains(err.Error(), "At capacity"):
		return "atCapacity"
	case err != nil:
		return "other:" + err.Error()
	}
	return "other:nil,nil"
}

func (c *vclCollector) Collect() (*WebRTCPeer, error) {
	c.r.mu.Lock()
	over := c.r.over
	c.r.mu.Unlock()
	if over {
		runtime.Goexit() // not recorded: a loop that outlives the plan must not spin on the fake clock for ever
	}
	c.r.log(vclEvent{"ev": "collect.start"})
	p, err := c.r.p.Collect()
	c.r.log(vclEvent{"ev": "collect.end", "out": vclClassify(p, err)})
	return p, err
}
func (c *vclCollector) Pop() *WebRTCPeer        { return c.r.p.Pop() }
func (c *vclCollector) Melted() <-chan struct{} { return c.r.p.Melted() }

// ---- the scripted Tongue ---------------------------------------------------

type vclTongue struct {
	r   *vclRig
	max int
}

func (t *vclTongue) GetMax() int { return t.max }

func (t *vclTongue) Catch() (*WebRTCPeer, error) {
	r := t.r
	r.mu.Lock()
	cls, d := r.cls, r.dur
	abort := make(chan struct{})
	r.abort = abort
	ended := r.ended
	r.mu.Unlock()
	r.log(vclEvent{"ev": "catch.start", "cls": cls})
	if cls == "dc" {
		d += DataChannelTimeout // connect(): the answer arrived, the data channel never opens
	}
	if d > 0 && !ended {
		select {
		case <-time.After(d):
		case <-abort: // End was called: the attempt in flight ends now (see vclRig.end)
		}
	}
	r.mu.Lock()
	r.abort = nil
	r.mu.Unlock()
	switch cls {
	case "rv":
		r.log(vclEvent{"ev": "catch.end", "ok": false, "k": 0})
		return nil, vclErrRV
	case "dc":
		r.log(vclEvent{"ev": "catch.end", "ok": false, "k": 0})
		return nil, vclErrDC
	}
	r.mu.Lock()
	k := len(r.peers) + 1
	p := &WebRTCPeer{id: fmt.Sprintf("k%d", k), closed: make(chan struct{}), eventsLogger: event.NewSnowflakeEventDispatcher()}
	r.peers = append(r.peers, p)
	r.mu.Unlock()
	go p.checkForStaleness(SnowflakeTimeout) // as connect() does once the data channel is open
	go r.feed(k, p)
	r.log(vclEvent{"ev": "catch.end", "ok": true, "k": k})
	return p, nil
}

// feed plays the remote side: a message every 5 s (OnMessage sets lastReceive) until frozen or closed.
func (r *vclRig) feed(k int, p *WebRTCPeer) {
	for {
		select {
		case <-p.closed:
			return
		case <-time.After(5 * time.Second):
		}
		r.mu.Lock()
		fz := r.frozen[k]
		r.mu.Unlock()
		if fz {
			return
		}
		p.mu.Lock()
		p.lastReceive = time.Now()
		p.mu.Unlock()
	}
}

// watch reports the death of a frozen peer that nobody else accounts for (staleness).
func (r *vclRig) watch(k int, p *WebRTCPeer) {
	<-p.closed
	r.mu.Lock()
	byDriver := r.killed[k]
	r.mu.Unlock()
	select {
	case <-r.p.Melted():
		return // End closes every peer it holds
	default:
	}
	if !byDriver {
		r.log(vclEvent{"ev": "peer.died", "k": k, "cause": "stale"})
	}
}

func (r *vclRig) livePeer(k int) *WebRTCPeer {
	r.mu.Lock()
	defer r.mu.Unlock()
	if k >= 1 && k <= len(r.peers) && !r.peers[k-1].Closed() {
		return r.peers[k-1]
	}
	return nil
}

func (r *vclRig) wait() { synctest.Wait() }
