package snowflake_client

// C13, client side (injected with `go test -overlay`; never written into the
// repository).  Reads the "doc" cases concretised by harness/cmd/sdpjsondrv
// (VERIF_C13_CASES) and writes non-conforming results to VERIF_C13_OUT.
//
// Every string is offered to the client the way a proxy's answer reaches it:
// a scripted RendezvousMethod returns a client poll response whose answer is
// that string, and the real (*BrokerChannel).Negotiate decodes it.  The result
// must be a description or an error (never both missing), and a recover()
// turns a panic into a reported violation.

import (
	"bufio"
	"encoding/base64"
	"encoding/json"
	"fmt"
	"io/ioutil"
	"log"
	"os"
	"testing"

	"git.torproject.org/pluggable-transports/snowflake.git/v2/common/messages"
	"git.torproject.org/pluggable-transports/snowflake.git/v2/common/nat"
	"github.com/pion/webrtc/v3"
)

type verifC13Outcome struct {
	Res  string `json:"res"`
	Type string `json:"type,omitempty"`
	SDP  string `json:"sdp_b64,omitempty"`
}

type verifC13Case struct {
	Idx    int               `json:"idx"`
	Mode   string            `json:"mode"`
	Class  string            `json:"class"`
	NT     bool              `json:"nt"`
	In     string            `json:"in_b64"`
	Client []verifC13Outcome `json:"client,omitempty"`
	Case   json.RawMessage   `json:"case"`
}

type verifC13Result struct {
	Idx    int             `json:"idx"`
	Sig    string          `json:"sig"`
	Detail string          `json:"detail"`
	Site   string          `json:"site"`
	Case   json.RawMessage `json:"case,omitempty"`
}

// verifC13Rendezvous is the scripted broker: whatever the client sends, the
// reply is a client poll response carrying the current answer string.
type verifC13Rendezvous struct {
	answer string
	calls  int
	lastOK bool
}

func (r *verifC13Rendezvous) Exchange(encReq []byte) ([]byte, error) {
	r.calls++
	_, err := messages.DecodeClientPollRequest(encReq)
	r.lastOK = err == nil
	resp := &messages.ClientPollResponse{Answer: r.answer}
	return resp.EncodePollResponse()
}

func verifC13Short(s string) string {
	if len(s) > 300 {
		return fmt.Sprintf("%q... (%d bytes)", s[:300], len(s))
	}
	return fmt.Sprintf("%q", s)
}

func TestVerifC13Client(t *testing.T) {
	casesPath, outPath := os.Getenv("VERIF_C13_CASES"), os.Getenv("VERIF_C13_OUT")
	if casesPath == "" || outPath == "" {
		t.Skip("VERIF_C13_CASES / VERIF_C13_OUT not set")
	}
	log.SetOutput(ioutil.Discard)
	in, err := os.Open(casesPath)
	if err != nil {
		t.Fatal(err)
	}
	defer in.Close()
	outf, err := os.Create(outPath)
	if err != nil {
		t.Fatal(err)
	}
	out := bufio.NewWriter(outf)
	put := func(v interface{}) {
		b, err := json.Marshal(v)
		if err != nil {
			t.Fatal(err)
		}
		out.Write(b)
		out.WriteByte('\n')
	}
	const localOffer = "v=0\r\no=- 4358805017720277108 2 IN IP4 8.8.8.8\r\ns=-\r\nt=0 0\r\na=group:BUNDLE data\r\nm=application 56688 DTLS/SCTP 5000\r\nc=IN IP4 8.8.8.8\r\na=candidate:3769337065 1 udp 2122260223 8.8.8.8 56688 typ host generation 0 network-id 1 network-cost 50\r\na=ice-ufrag:aMAZ\r\na=ice-pwd:jcHb08Jjgrazp2dzjdrvPPvV\r\na=mid:data\r\na=sctpmap:5000 webrtc-datachannel 1024\r\n"

	sc := bufio.NewScanner(in)
	sc.Buffer(make([]byte, 1<<20), 1<<28)
	ncases, nontrivial := 0, 0
	for sc.Scan() {
		if len(sc.Bytes()) == 0 {
			continue
		}
		var c verifC13Case
		if err := json.Unmarshal(sc.Bytes(), &c); err != nil {
			t.Fatalf("bad case: %v", err)
		}
		if c.Mode != "doc" {
			continue
		}
		raw, err := base64.StdEncoding.DecodeString(c.In)
		if err != nil {
			t.Fatalf("bad case input: %v", err)
		}
		input := string(raw)
		ncases++
		if c.NT {
			nontrivial++
		}
		rv := &verifC13Rendezvous{answer: input}
		bc := &BrokerChannel{Rendezvous: rv, keepLocalAddresses: ncases%2 == 0, natType: nat.NATUnknown}
		func() {
			defer func() {
				if v := recover(); v != nil {
					put(verifC13Result{Idx: c.Idx, Sig: "panic:" + c.Class, Site: "client.Negotiate", Case: c.Case,
						Detail: fmt.Sprintf("site client Negotiate: a poll response whose answer is %s panics the client: %v", verifC13Short(input), v)})
				}
			}()
			answer, err := bc.Negotiate(&webrtc.SessionDescription{Type: webrtc.SDPTypeOffer, SDP: localOffer})
			if rv.calls != 1 || !rv.lastOK {
				put(verifC13Result{Idx: c.Idx, Sig: "harness:exchange", Site: "client.Negotiate", Case: c.Case,
					Detail: fmt.Sprintf("Negotiate made %d exchanges (request decodable: %v)", rv.calls, rv.lastOK)})
			}
			if answer == nil && err == nil {
				put(verifC13Result{Idx: c.Idx, Sig: "nil-nil:" + c.Class, Site: "client.Negotiate", Case: c.Case,
					Detail: fmt.Sprintf("site client Negotiate: answer %s -> neither a description nor an error (the caller dereferences the description)", verifC13Short(input))})
				return
			}
			ok := false
			for _, o := range c.Client {
				switch o.Res {
				case "error":
					ok = ok || err != nil
				case "value-any":
					ok = ok || (err == nil && answer != nil)
				case "value":
					want, _ := base64.StdEncoding.DecodeString(o.SDP)
					ok = ok || (err == nil && answer != nil && answer.Type.String() == o.Type && answer.SDP == string(want))
				}
			}
			if !ok {
				kind, got := "wrong-value", "nil"
				if err != nil {
					kind = "error-on-wellformed"
				}
				if answer != nil {
					got = fmt.Sprintf("{type %s, sdp %s}", answer.Type, verifC13Short(answer.SDP))
				}
				put(verifC13Result{Idx: c.Idx, Sig: kind + ":" + c.Class, Site: "client.Negotiate", Case: c.Case,
					Detail: fmt.Sprintf("site client Negotiate: answer %s -> %s, err %v; the contract allows %v", verifC13Short(input), got, err, c.Client)})
			}
		}()
	}
	if err := sc.Err(); err != nil {
		t.Fatal(err)
	}
	put(map[string]interface{}{"summary": map[string]interface{}{"cases": ncases, "nontrivial": nontrivial}})
	if err := out.Flush(); err != nil {
		t.Fatal(err)
	}
	if err := outf.Close(); err != nil {
		t.Fatal(err)
	}
}
