package snowflake_client

// Conformance driver for spec/NatDiscovery (lib/checks/c15_natdisc.py), part
// "how the result becomes the nat field of client polls".
//
// A case is a list of STUN servers, each playing one behaviour class, printed
// by TLC (GenSpec of spec/NatDiscovery, client part) with the values the
// contract demands.  The driver runs the REAL updateNATType over that list
// against scripted responders (kind "update": the BrokerChannel comes from the
// real newBrokerChannelFromConfig, only its RendezvousMethod is replaced by a
// recorder; kind "client": the real NewSnowflakeClient, which starts
// updateNATType itself, polling a scripted HTTP broker), makes real polls
// (BrokerChannel.Negotiate) before, during (the first server that is reached
// holds its answer until the driver has polled) and after, and records the raw
// `nat` member of every poll request, which servers were contacted and how
// long it took.  Expected values are compared in c15_natdisc.py.
// All identifiers carry the prefix vNdc.

import (
	"bufio"
	"bytes"
	"encoding/json"
	"fmt"
	"io/ioutil"
	"log"
	"net"
	"net/http"
	"net/http/httptest"
	"os"
	"strings"
	"sync"
	"testing"
	"time"

	"git.torproject.org/pluggable-transports/snowflake.git/v2/common/messages"
	"github.com/pion/stun"
	"github.com/pion/webrtc/v3"
)

type vNdcCase struct {
	ID      int      `json:"id"`
	Kind    string   `json:"kind"`    // update | client
	Servers []string `json:"servers"` // restricted unrestricted noother garbage noport turnurl silent
	Hammer  bool     `json:"hammer"`  // polls hammer Negotiate while the update runs (race builds)
}

type vNdcPoll struct {
	At  string `json:"at"` // before | during | after
	NAT string `json:"nat"`
	Err string `json:"err,omitempty"`
}

type vNdcObs struct {
	ID        int        `json:"id"`
	Note      string     `json:"note,omitempty"`
	Panic     string     `json:"panic,omitempty"`
	Returned  bool       `json:"returned"`
	MS        int64      `json:"ms"`
	Polls     []vNdcPoll `json:"polls"`
	Contacted []int      `json:"contacted"` // requests each server received
	Final     string     `json:"final"`     // BrokerChannel.natType at the end (read under its lock)
	Hammered  int        `json:"hammered"`
	BadHammer string     `json:"bad_hammer,omitempty"` // a value seen by a hammering poll that is not one of the three names
}

// ---------------------------------------------------------------------------
// scripted STUN responder (one per server of the list)

type vNdcServer struct {
	class   string
	primary *net.UDPConn
	alt     *net.UDPConn
	mu      sync.Mutex
	n       int
	first   *net.UDPAddr
	gate    *vNdcGate // non-nil: the first request that reaches ANY server of the case waits here
}

type vNdcGate struct {
	once    sync.Once
	held    chan struct{}
	release chan struct{}
}

func (g *vNdcGate) arrive() {
	g.once.Do(func() {
		g.held <- struct{}{}
		<-g.release
	})
}

func vNdcNewServer(class string) (*vNdcServer, error) {
	s := &vNdcServer{class: class}
	var err error
	if s.primary, err = net.ListenUDP("udp4", &net.UDPAddr{IP: net.IPv4(127, 0, 0, 1)}); err != nil {
		return nil, err
	}
	if s.alt, err = net.ListenUDP("udp4", &net.UDPAddr{IP: net.IPv4(127, 0, 0, 1)}); err != nil {
		s.primary.Close()
		return nil, err
	}
	go s.serve(s.primary)
	go s.serve(s.alt)
	return s, nil
}

func (s *vNdcServer) close() {
	s.primary.Close()
	s.alt.Close()
}

func (s *vNdcServer) url() string {
	p := s.primary.LocalAddr().(*net.UDPAddr).Port
	switch s.class {
	case "noport":
		return "stun:127.0.0.1"
	case "turnurl":
		return fmt.Sprintf("turn:127.0.0.1:%d", p)
	}
	return fmt.Sprintf("stun:127.0.0.1:%d", p)
}

func (s *vNdcServer) serve(c *net.UDPConn) {
	buf := make([]byte, 2048)
	for {
		n, from, err := c.ReadFromUDP(buf)
		if err != nil {
			return
		}
		m := &stun.Message{Raw: append([]byte{}, buf[:n]...)}
		if err := m.Decode(); err != nil || m.Type != stun.BindingRequest {
			continue
		}
		s.mu.Lock()
		s.n++
		k := s.n
		if k == 1 {
			s.first = from
		}
		first := s.first
		gate := s.gate
		s.mu.Unlock()
		if gate != nil {
			gate.arrive()
		}
		tx := stun.NewTransactionIDSetter(m.TransactionID)
		var raw []byte
		switch s.class {
		case "silent":
			continue
		case "garbage":
			raw = []byte("this is not a STUN message")
		default:
			mp := stun.XORMappedAddress{IP: first.IP, Port: first.Port}
			if k == 2 && s.class == "restricted" {
				mp.Port = first.Port%60000 + 1111 // the second destination sees another mapping: address-dependent
			}
			set := []stun.Setter{tx, stun.BindingSuccess, &mp}
			if s.class != "noother" {
				set = append(set, &stun.OtherAddress{IP: net.IPv4(127, 0, 0, 1).To4(), Port: s.alt.LocalAddr().(*net.UDPAddr).Port})
			}
			r, err := stun.Build(append(set, stun.Fingerprint)...)
			if err != nil {
				continue
			}
			raw = r.Raw
		}
		c.WriteToUDP(raw, from)
	}
}

func (s *vNdcServer) reached() bool {
	return s.class != "noport" && s.class != "turnurl"
}

// ---------------------------------------------------------------------------
// polls

type vNdcRendezvous struct {
	mu   sync.Mutex
	nats []string
}

func vNdcRawNAT(enc []byte) string {
	parts := bytes.SplitN(enc, []byte("\n"), 2)
	var raw map[string]interface{}
	if len(parts) < 2 || json.Unmarshal(parts[1], &raw) != nil {
		return "-undecodable-"
	}
	v, ok := raw["nat"]
	if !ok {
		return "-absent-"
	}
	return fmt.Sprint(v)
}

func (r *vNdcRendezvous) Exchange(enc []byte) ([]byte, error) {
	r.mu.Lock()
	r.nats = append(r.nats, vNdcRawNAT(enc))
	r.mu.Unlock()
	return (&messages.ClientPollResponse{Answer: `{"type":"answer","sdp":"v=0\r\n"}`}).EncodePollResponse()
}

func (r *vNdcRendezvous) last() string {
	r.mu.Lock()
	defer r.mu.Unlock()
	if len(r.nats) == 0 {
		return "-none-"
	}
	return r.nats[len(r.nats)-1]
}

var vNdcOffer = &webrtc.SessionDescription{Type: webrtc.SDPTypeOffer, SDP: "v=0\r\no=- 1 2 IN IP4 127.0.0.1\r\ns=-\r\nt=0 0\r\n"}

func vNdcDoPoll(bc *BrokerChannel, last func() string, at string) vNdcPoll {
	p := vNdcPoll{At: at}
	if _, err := bc.Negotiate(vNdcOffer); err != nil {
		p.Err = err.Error()
	}
	p.NAT = last()
	return p
}

func vNdcIsName(s string) bool {
	return s == "unknown" || s == "restricted" || s == "unrestricted"
}

func vNdcRun(c *vNdcCase) (o vNdcObs) {
	o = vNdcObs{ID: c.ID, Polls: []vNdcPoll{}, Contacted: []int{}}
	var servers []*vNdcServer
	var urls []string
	for _, cl := range c.Servers {
		s, err := vNdcNewServer(cl)
		if err != nil {
			o.Note = "responder: " + err.Error()
			return
		}
		defer s.close()
		servers = append(servers, s)
		urls = append(urls, s.url())
	}
	// the first request that reaches a server is held until the driver has polled
	var holder *vNdcGate
	nsilent := 0
	for _, s := range servers {
		if s.class == "silent" {
			nsilent++
		}
	}
	if !c.Hammer {
		for _, s := range servers {
			if s.reached() {
				if holder == nil {
					holder = &vNdcGate{held: make(chan struct{}, 1), release: make(chan struct{})}
				}
				s.gate = holder
			}
		}
	}
	var bc *BrokerChannel
	var last func() string
	done := make(chan string, 1)
	t := time.Now()
	if c.Kind == "client" {
		var mu sync.Mutex
		var nats []string
		broker := httptest.NewServer(http.HandlerFunc(func(w http.ResponseWriter, r *http.Request) {
			body, _ := ioutil.ReadAll(r.Body)
			mu.Lock()
			nats = append(nats, vNdcRawNAT(body))
			mu.Unlock()
			b, _ := (&messages.ClientPollResponse{Answer: `{"type":"answer","sdp":"v=0\r\n"}`}).EncodePollResponse()
			w.Write(b)
		}))
		defer broker.Close()
		last = func() string {
			mu.Lock()
			defer mu.Unlock()
			if len(nats) == 0 {
				return "-none-"
			}
			return nats[len(nats)-1]
		}
		tr, err := NewSnowflakeClient(ClientConfig{BrokerURL: broker.URL + "/", ICEAddresses: urls, Max: 1})
		if err != nil {
			o.Note = "NewSnowflakeClient: " + err.Error()
			return
		}
		bc = tr.dialer.BrokerChannel
		// NewSnowflakeClient started updateNATType itself; its end is observed through the servers and the value
		go func() {
			// "unknown" at the end looks like "not finished": bounded wait (4 s + the code's 10 s per silent server)
			deadline := time.Now().Add(4*time.Second + time.Duration(nsilent)*11*time.Second)
			for time.Now().Before(deadline) {
				bc.lock.Lock()
				v := bc.natType
				bc.lock.Unlock()
				if v != "unknown" {
					break
				}
				time.Sleep(20 * time.Millisecond)
			}
			done <- ""
		}()
	} else {
		var err error
		bc, err = newBrokerChannelFromConfig(ClientConfig{BrokerURL: "http://127.0.0.1:1/"})
		if err != nil {
			o.Note = "newBrokerChannelFromConfig: " + err.Error()
			return
		}
		rv := &vNdcRendezvous{}
		bc.Rendezvous = rv
		last = rv.last
		o.Polls = append(o.Polls, vNdcDoPoll(bc, last, "before"))
		var ice []webrtc.ICEServer
		for _, u := range urls {
			ice = append(ice, webrtc.ICEServer{URLs: []string{u}})
		}
		go func() {
			defer func() {
				if x := recover(); x != nil {
					done <- fmt.Sprint(x)
					return
				}
				done <- ""
			}()
			updateNATType(ice, bc)
		}()
	}
	stopHammer := make(chan struct{})
	var hw sync.WaitGroup
	var hmu sync.Mutex
	if c.Hammer {
		for i := 0; i < 2; i++ {
			hw.Add(1)
			go func() {
				defer hw.Done()
				for {
					select {
					case <-stopHammer:
						return
					default:
					}
					p := vNdcDoPoll(bc, last, "hammer")
					hmu.Lock()
					o.Hammered++
					if !vNdcIsName(p.NAT) && o.BadHammer == "" {
						o.BadHammer = p.NAT
					}
					hmu.Unlock()
				}
			}()
		}
	}
	finished := false
	if holder != nil {
		select {
		case <-holder.held:
			o.Polls = append(o.Polls, vNdcDoPoll(bc, last, "during"))
			close(holder.release)
		case p := <-done:
			finished, o.Panic = true, p
		case <-time.After(15 * time.Second):
			o.Note = "no reachable server was ever contacted"
			close(holder.release)
		}
	}
	if !finished {
		select {
		case p := <-done:
			finished, o.Panic = true, p
		case <-time.After(time.Duration(len(c.Servers))*12*time.Second + 20*time.Second):
		}
	}
	close(stopHammer)
	hw.Wait()
	o.Returned = finished && o.Panic == ""
	o.MS = int64(time.Since(t) / time.Millisecond)
	if c.Kind == "client" {
		time.Sleep(150 * time.Millisecond) // the loop of updateNATType ends right after the store the waiter saw
	}
	o.Polls = append(o.Polls, vNdcDoPoll(bc, last, "after"))
	bc.lock.Lock()
	o.Final = bc.natType
	bc.lock.Unlock()
	for _, s := range servers {
		s.mu.Lock()
		o.Contacted = append(o.Contacted, s.n)
		s.mu.Unlock()
	}
	return
}

func TestVerifNatDiscClient(t *testing.T) {
	in, outp := os.Getenv("VERIF_NDC_IN"), os.Getenv("VERIF_NDC_OUT")
	if in == "" || outp == "" {
		t.Skip("VERIF_NDC_IN / VERIF_NDC_OUT not set")
	}
	log.SetOutput(ioutil.Discard)
	fo, err := os.Create(outp)
	if err != nil {
		t.Fatal(err)
	}
	defer fo.Close()
	w := bufio.NewWriter(fo)
	var wmu sync.Mutex
	emit := func(o interface{}) {
		b, _ := json.Marshal(o)
		wmu.Lock()
		w.Write(b)
		w.WriteByte('\n')
		w.Flush()
		wmu.Unlock()
	}
	fi, err := os.Open(in)
	if err != nil {
		t.Fatal(err)
	}
	defer fi.Close()
	var cases []*vNdcCase
	sc := bufio.NewScanner(fi)
	sc.Buffer(make([]byte, 1<<20), 1<<24)
	for sc.Scan() {
		if len(strings.TrimSpace(sc.Text())) == 0 {
			continue
		}
		c := &vNdcCase{}
		if err := json.Unmarshal(sc.Bytes(), c); err != nil {
			t.Fatalf("case %d: %v", len(cases), err)
		}
		cases = append(cases, c)
	}
	t0 := time.Now()
	var wg sync.WaitGroup
	for _, c := range cases {
		wg.Add(1)
		go func(c *vNdcCase) {
			defer wg.Done()
			emit(vNdcRun(c))
		}(c)
	}
	wg.Wait()
	emit(map[string]interface{}{"summary": map[string]interface{}{"cases": len(cases), "wall_ms": int64(time.Since(t0) / time.Millisecond)}})
}
