//go:build verif
// +build verif

package snowflake_client

// C15 harness, second part (injected with `go test -overlay`):
//
// TestVerifC15PeerConnect  runs every case emitted by TLC from
//   spec/Peers/PeerConnect.tla through the real dialer
//   (parseIceServers -> NewWebRTCDialerWithEvents -> Catch ->
//   NewWebRTCPeerWithEvents -> connect) with the real HTTP rendezvous against
//   a scripted in-process broker and, for the "good" class, a real pion peer
//   answering in-process.  It records (result, events) per case; the
//   comparison with the outcome computed by TLC is data equality.
//   Events are consumed the way the client binary consumes them: the dialer
//   gets an event.NewSnowflakeEventDispatcher() to which a listener is added
//   that, like client/snowflake.go's ptEventLogger, calls String() on every
//   event synchronously and without recover (vc15PTLogger).  A panic raised
//   there unwinds through connect/Catch; only the harness recovers it and
//   reports it as a panic of the event listener.
//
// TestVerifC15ConnectLoop  runs the real Transport.Dial / connectLoop /
//   SnowflakeConn.Close in real time: after Close has returned no further
//   rendezvous attempt may start for longer than ReconnectTimeout, the Peers are
//   melted and a held spare peer is closed - also when the smux session or the
//   packet conn died by itself before the application's first Close.

import (
	"encoding/json"
	"fmt"
	"io"
	"io/ioutil"
	"log"
	"net"
	"net/http"
	"net/http/httptest"
	"os"
	"runtime"
	"runtime/debug"
	"strings"
	"sync"
	"sync/atomic"
	"testing"
	"time"

	"git.torproject.org/pluggable-transports/snowflake.git/v2/common/event"
	"git.torproject.org/pluggable-transports/snowflake.git/v2/common/messages"
	"git.torproject.org/pluggable-transports/snowflake.git/v2/common/util"
	"github.com/pion/ice/v2"
	"github.com/pion/stun"
	"github.com/pion/webrtc/v3"
)

type vc15PCCase struct {
	Ice      string            `json:"ice"`
	Broker   string            `json:"broker"`
	DC       string            `json:"dc"`
	Fp       string            `json:"fp"`       // bridge fingerprint class: empty | valid | odd | nonhex | wronglen | -
	Attempts int               `json:"attempts"` // consecutive attempts on the SAME BrokerChannel
	Expects  []json.RawMessage `json:"expects"`  // per attempt, as printed by TLC
}

// vc15PCAttempt is what one attempt on the channel gave.
type vc15PCAttempt struct {
	Result string   `json:"result"` // peer | err | panic | both | neither | hang
	Events []string `json:"events"`
	Err    string   `json:"err,omitempty"`
	Panic  string   `json:"panic,omitempty"`
	// PanicIn is "event-listener/<event type>" when the panic was raised while
	// the ptEventLogger mirror was printing an event.
	PanicIn  string   `json:"panic_in,omitempty"`
	Contract []string `json:"contract,omitempty"` // violations of the general event contract
	Stack    string   `json:"stack,omitempty"`
	HangAt   string   `json:"hang_at,omitempty"` // where the attempt is parked when it did not return
	WallMs   int64    `json:"wall_ms"`
}

type vc15PCResult struct {
	Ice      string            `json:"ice"`
	Broker   string            `json:"broker"`
	DC       string            `json:"dc"`
	Fp       string            `json:"fp"`
	Expects  []json.RawMessage `json:"expects"`
	Attempts []vc15PCAttempt   `json:"attempts"`
	End      string            `json:"end"`      // Peers.End after the attempts: ok | hang | panic:<text> | skipped
	NatLock  string            `json:"nat_lock"` // BrokerChannel.SetNATType after the attempts: ok | hang | skipped
	Harness  string            `json:"harness,omitempty"`
	WallMs   int64             `json:"wall_ms"`
}

// vc15PTLogger mirrors client/snowflake.go:
//
//	func (p ptEventLogger) OnNewSnowflakeEvent(e event.SnowflakeEvent) {
//		pt.Log(pt.LogSeverityNotice, e.String())
//	}
//
// synchronous, on the emitting goroutine, no recover.  (pt.Log writes a PT
// protocol line to stdout; the harness keeps the string instead.)
type vc15PTLogger struct {
	mu       sync.Mutex
	printing string // type of the event String() is being called on, "" when idle
	lines    []string
}

func (p *vc15PTLogger) OnNewSnowflakeEvent(e event.SnowflakeEvent) {
	p.mu.Lock()
	p.printing = fmt.Sprintf("%T", e)
	p.mu.Unlock()
	line := e.String()
	p.mu.Lock()
	p.printing = ""
	p.lines = append(p.lines, line)
	p.mu.Unlock()
}

func (p *vc15PTLogger) inProgress() string {
	p.mu.Lock()
	defer p.mu.Unlock()
	return strings.TrimPrefix(p.printing, "event.")
}

// vc15Events records the events the client reports and checks the general
// contract of an event: an event that reports a failure carries the error.
type vc15Events struct {
	mu       sync.Mutex
	evs      []string
	contract []string
}

func (e *vc15Events) OnNewSnowflakeEvent(ev event.SnowflakeEvent) {
	var s string
	switch v := ev.(type) {
	case event.EventOnOfferCreated:
		s = "offer:ok"
		if v.Error != nil {
			s = "offer:err"
		}
	case event.EventOnBrokerRendezvous:
		s = "rendezvous:ok"
		if v.Error != nil {
			s = "rendezvous:err"
		}
	case event.EventOnSnowflakeConnected:
		s = "connected"
	case event.EventOnSnowflakeConnectionFailed:
		s = "failed"
		if v.Error == nil {
			s = "failed:nilerr"
			e.mu.Lock()
			e.contract = append(e.contract, "nil-error/EventOnSnowflakeConnectionFailed")
			e.mu.Unlock()
		}
	default:
		s = fmt.Sprintf("other:%T", ev)
	}
	e.mu.Lock()
	e.evs = append(e.evs, s)
	e.mu.Unlock()
}

func (e *vc15Events) snapshot() []string {
	e.mu.Lock()
	defer e.mu.Unlock()
	return append([]string{}, e.evs...)
}

func (e *vc15Events) violations() []string {
	e.mu.Lock()
	defer e.mu.Unlock()
	return append([]string{}, e.contract...)
}

// vc15Wire builds the dispatcher exactly as NewSnowflakeClient + the client
// binary do: a fresh dispatcher handed to the dialer, listeners added to it.
// The recorder comes first so that an event is on record before the printing
// listener may panic on it.
func vc15Wire() (event.SnowflakeEventDispatcher, *vc15Events, *vc15PTLogger) {
	disp := event.NewSnowflakeEventDispatcher()
	rec, ptl := &vc15Events{}, &vc15PTLogger{}
	disp.AddSnowflakeEventListener(rec)
	disp.AddSnowflakeEventListener(ptl)
	return disp, rec, ptl
}

// vc15StunServer answers STUN binding requests on a local UDP socket.
func vc15StunServer() (string, func(), error) {
	c, err := net.ListenPacket("udp4", "0.0.0.0:0")
	if err != nil {
		return "", nil, err
	}
	go func() {
		buf := make([]byte, 1500)
		for {
			n, from, err := c.ReadFrom(buf)
			if err != nil {
				return
			}
			m := &stun.Message{Raw: append([]byte{}, buf[:n]...)}
			if m.Decode() != nil || m.Type != stun.BindingRequest {
				continue
			}
			ua := from.(*net.UDPAddr)
			resp, err := stun.Build(stun.NewTransactionIDSetter(m.TransactionID), stun.BindingSuccess,
				&stun.XORMappedAddress{IP: ua.IP, Port: ua.Port}, stun.Fingerprint)
			if err == nil {
				c.WriteTo(resp.Raw, from)
			}
		}
	}()
	port := c.LocalAddr().(*net.UDPAddr).Port
	return fmt.Sprintf("stun:127.0.0.1:%d", port), func() { c.Close() }, nil
}

// vc15Answer is the harness pion peer: it answers the client's offer.  With
// open=false the peer goes away right after answering, so the data channel
// never opens.
func vc15Answer(offer string, open bool, keep *[]*webrtc.PeerConnection, mu *sync.Mutex) (string, error) {
	sd, err := util.DeserializeSessionDescription(offer)
	if err != nil {
		return "", err
	}
	s := webrtc.SettingEngine{}
	s.SetICEMulticastDNSMode(ice.MulticastDNSModeDisabled)
	api := webrtc.NewAPI(webrtc.WithSettingEngine(s))
	pc, err := api.NewPeerConnection(webrtc.Configuration{})
	if err != nil {
		return "", err
	}
	pc.OnDataChannel(func(dc *webrtc.DataChannel) {})
	if err = pc.SetRemoteDescription(*sd); err != nil {
		pc.Close()
		return "", err
	}
	done := webrtc.GatheringCompletePromise(pc)
	ans, err := pc.CreateAnswer(nil)
	if err != nil {
		pc.Close()
		return "", err
	}
	if err = pc.SetLocalDescription(ans); err != nil {
		pc.Close()
		return "", err
	}
	<-done
	out, err := util.SerializeSessionDescription(pc.LocalDescription())
	if !open {
		pc.Close()
	} else {
		mu.Lock()
		*keep = append(*keep, pc)
		mu.Unlock()
	}
	return out, err
}

// vc15ParkedAt looks for a goroutine parked in BrokerChannel's mutex or elsewhere in the attempt.
func vc15ParkedAt() string {
	buf := make([]byte, 1<<20)
	n := runtime.Stack(buf, true)
	for _, blk := range strings.Split(string(buf[:n]), "\n\n") {
		if strings.Contains(blk, "(*BrokerChannel).Negotiate") && strings.Contains(blk, "sync.(*Mutex).Lock") {
			return "Negotiate@channel-lock"
		}
	}
	return "elsewhere"
}

func (e *vc15Events) reset() {
	e.mu.Lock()
	e.evs, e.contract = nil, nil
	e.mu.Unlock()
}

func vc15RunPCCase(c vc15PCCase, stunURL string) (res vc15PCResult) {
	res = vc15PCResult{Ice: c.Ice, Broker: c.Broker, DC: c.DC, Fp: c.Fp, Expects: c.Expects, End: "skipped", NatLock: "skipped"}
	t0 := time.Now()
	defer func() { res.WallMs = time.Since(t0).Milliseconds() }()
	var keep []*webrtc.PeerConnection
	var mu sync.Mutex
	var hmu sync.Mutex
	harnessErr := ""
	srv := httptest.NewServer(http.HandlerFunc(func(w http.ResponseWriter, r *http.Request) {
		body, _ := ioutil.ReadAll(r.Body)
		// like the real broker, look at the poll first: one it cannot decode
		// (e.g. a fingerprint that is not 20/32 bytes of hex) is refused
		req, derr := messages.DecodeClientPollRequest(body)
		if derr != nil {
			w.WriteHeader(http.StatusBadRequest)
			return
		}
		switch c.Broker {
		case "non200":
			w.WriteHeader(http.StatusServiceUnavailable)
		case "errjson_noproxy":
			w.Write([]byte(`{"error":"no snowflake proxies currently available."}`))
		case "errjson_empty":
			w.Write([]byte(`{}`))
		case "malformed":
			w.Write([]byte(`{"answer": "{\"type\":\"answer\"`))
		case "nonstring_type":
			w.Write([]byte(`{"answer":"{\"type\":5,\"sdp\":\"v=0\"}"}`))
		case "nonstring_sdp":
			w.Write([]byte(`{"answer":"{\"type\":\"answer\",\"sdp\":[1,2]}"}`))
		case "bad_sdp":
			w.Write([]byte(`{"answer":"{\"type\":\"answer\",\"sdp\":\"this is not sdp\"}"}`))
		case "good":
			ans, err := vc15Answer(req.Offer, c.DC == "opens", &keep, &mu)
			if err != nil {
				hmu.Lock()
				harnessErr = "answerer: " + err.Error()
				hmu.Unlock()
				w.WriteHeader(http.StatusInternalServerError)
				return
			}
			b, _ := (&messages.ClientPollResponse{Answer: ans}).EncodePollResponse()
			w.Write(b)
		default:
			w.WriteHeader(http.StatusTeapot)
		}
	}))
	url := srv.URL + "/"
	if c.Broker == "transport_error" {
		srv.Close() // nothing listens there any more
	} else {
		defer srv.Close()
	}
	defer func() {
		mu.Lock()
		for _, pc := range keep {
			pc.Close()
		}
		mu.Unlock()
	}()

	var addrs []string
	switch c.Ice {
	case "none":
		addrs = nil
	case "valid":
		addrs = []string{stunURL}
	case "empty":
		addrs = []string{""} // strings.Split("", ",") of the client's default -ice value
	case "garbage":
		addrs = []string{"not-an-ice-url"}
	case "turn_nocred":
		addrs = []string{"turn:192.0.2.2:3478"}
	}
	fps := map[string]string{"empty": "", "-": "", "valid": "2B280B23E1107BB62ABFC40DDCC8824814F80A72",
		"odd": "2B280B23E1107BB62ABFC40DDCC8824814F80A7", "nonhex": "ZZ280B23E1107BB62ABFC40DDCC8824814F80A72", "wronglen": "2B280B23E1107BB6"}
	rv, err := newHTTPRendezvous(url, "", &http.Transport{ResponseHeaderTimeout: 15 * time.Second})
	if err != nil {
		res.Harness = err.Error()
		return
	}
	// ONE channel for all attempts, configured as newBrokerChannelFromConfig does
	broker := &BrokerChannel{Rendezvous: rv, keepLocalAddresses: true, natType: "unknown", BridgeFingerprint: fps[c.Fp]}
	disp, evs, ptl := vc15Wire()
	dialer := NewWebRTCDialerWithEvents(broker, parseIceServers(addrs), 1, disp)
	peers, err := NewPeers(dialer)
	if err != nil {
		res.Harness = err.Error()
		return
	}
	limit := 8 * time.Second
	if c.Broker == "good" {
		limit += DataChannelTimeout
	}

	// attempt 1 calls the dialer directly (so that a peer returned together with
	// an error is seen); the following attempts go through the real Peers.Collect,
	// as connectLoop's retries do, and are followed by Peers.End.
	for i := 0; i < c.Attempts; i++ {
		evs.reset()
		cur := &vc15PCAttempt{Events: []string{}}
		ta := time.Now()
		done := make(chan struct{})
		go func(i int, at *vc15PCAttempt) {
			defer close(done)
			defer func() {
				if r := recover(); r != nil {
					at.Result = "panic"
					at.Panic = fmt.Sprint(r)
					at.Stack = string(debug.Stack())
					if t := ptl.inProgress(); t != "" {
						at.PanicIn = "event-listener/" + t
					}
				}
			}()
			var peer *WebRTCPeer
			var err error
			if i == 0 {
				peer, err = dialer.Catch()
			} else {
				peer, err = peers.Collect()
			}
			switch {
			case peer != nil && err == nil:
				at.Result = "peer"
				if i == 0 {
					peer.Close()
				}
			case peer == nil && err != nil:
				at.Result = "err"
				at.Err = err.Error()
			case peer != nil:
				at.Result = "both"
				at.Err = err.Error()
			default:
				at.Result = "neither"
			}
		}(i, cur)
		hung := false
		select {
		case <-done:
		case <-time.After(limit):
			hung = true
		}
		var at vc15PCAttempt
		if hung {
			at = vc15PCAttempt{Result: "hang", Events: evs.snapshot(), HangAt: vc15ParkedAt()}
		} else {
			at = *cur
			at.Events = evs.snapshot()
			at.Contract = evs.violations()
		}
		at.WallMs = time.Since(ta).Milliseconds()
		res.Attempts = append(res.Attempts, at)
		if hung || at.Result == "panic" {
			break
		}
	}
	// End must return whatever the attempts did (bounded: nothing is in flight
	// unless an attempt hangs, and then that is the finding)
	endc := make(chan string, 1)
	go func() {
		defer func() {
			if r := recover(); r != nil {
				endc <- "panic:" + fmt.Sprint(r)
			}
		}()
		peers.End()
		endc <- "ok"
	}()
	select {
	case res.End = <-endc:
	case <-time.After(5 * time.Second):
		res.End = "hang"
	}
	// the other user of the channel lock
	natc := make(chan struct{})
	go func() { broker.SetNATType("unknown"); close(natc) }()
	select {
	case <-natc:
		res.NatLock = "ok"
	case <-time.After(3 * time.Second):
		res.NatLock = "hang"
	}
	hmu.Lock()
	res.Harness = harnessErr
	hmu.Unlock()
	return
}

func TestVerifC15PeerConnect(t *testing.T) {
	in, out := os.Getenv("VERIF_C15_PC_CASES"), os.Getenv("VERIF_C15_PC_OUT")
	if in == "" || out == "" {
		t.Skip("VERIF_C15_PC_CASES / VERIF_C15_PC_OUT not set")
	}
	log.SetOutput(io.Discard)
	raw, err := ioutil.ReadFile(in)
	if err != nil {
		t.Fatal(err)
	}
	var cases []vc15PCCase
	for _, line := range strings.Split(string(raw), "\n") {
		if strings.TrimSpace(line) == "" {
			continue
		}
		var c vc15PCCase
		if err := json.Unmarshal([]byte(line), &c); err != nil {
			t.Fatal(err)
		}
		cases = append(cases, c)
	}
	stunURL, stop, err := vc15StunServer()
	if err != nil {
		t.Fatal(err)
	}
	defer stop()
	results := make([]vc15PCResult, len(cases))
	var wg sync.WaitGroup
	for i := range cases {
		wg.Add(1)
		go func(i int) {
			defer wg.Done()
			results[i] = vc15RunPCCase(cases[i], stunURL)
		}(i)
	}
	wg.Wait()
	f, err := os.Create(out)
	if err != nil {
		t.Fatal(err)
	}
	for _, r := range results {
		b, _ := json.Marshal(r)
		f.Write(b)
		f.Write([]byte("\n"))
	}
	f.Close()
	fmt.Printf("VERIF_C15_PC cases=%d\n", len(cases))
}

// ---------------------------------------------------------------------------

type vc15CountingRendezvous struct {
	calls       int32
	gate        chan struct{} // non-nil: the first Exchange parks here
	inFlight    int32
	answerFirst bool // the first Exchange is answered by a real peer that then goes away
	decode      bool // refuse a poll that does not decode, like the real broker
	note        string
}

func (r *vc15CountingRendezvous) Exchange(enc []byte) ([]byte, error) {
	n := atomic.AddInt32(&r.calls, 1)
	if n == 1 && r.gate != nil {
		atomic.StoreInt32(&r.inFlight, 1)
		<-r.gate
		atomic.StoreInt32(&r.inFlight, 0)
	}
	if r.decode {
		if _, err := messages.DecodeClientPollRequest(enc); err != nil {
			return nil, fmt.Errorf("verif: broker refuses the poll: %v", err)
		}
	}
	if n == 1 && r.answerFirst {
		req, err := messages.DecodeClientPollRequest(enc)
		if err != nil {
			r.note = "poll request does not decode: " + err.Error()
			return nil, err
		}
		var keep []*webrtc.PeerConnection
		var mu sync.Mutex
		ans, err := vc15Answer(req.Offer, false, &keep, &mu)
		if err != nil {
			r.note = "answerer: " + err.Error()
			return nil, err
		}
		return (&messages.ClientPollResponse{Answer: ans}).EncodePollResponse()
	}
	return nil, fmt.Errorf("verif: scripted rendezvous failure")
}

type vc15LoopResult struct {
	Scenario       string `json:"scenario"`
	CallsAtClose   int32  `json:"calls_at_close"`
	CallsAfterWait int32  `json:"calls_after_wait"`
	CloseReturned  bool   `json:"close_returned"`
	CloseMs        int64  `json:"close_ms"`
	ReturnedEarly  bool   `json:"returned_before_attempt_ended"`
	SecondClose    string `json:"second_close"` // ok | panic:<text> | hang
	ObservedMs     int64  `json:"observed_ms"`
	Note           string `json:"note,omitempty"`
	// data-channel-never-opens scenario: the failed attempt was reported and a new one followed
	Retried bool `json:"retried"`
	// obligations right after the FIRST Close returned
	MeltedAfterClose bool     `json:"melted_after_close"`
	HasSpare         bool     `json:"has_spare"`        // a spare peer was held when Close was called
	SpareClosed      bool     `json:"spare_closed"`     // ... and Close closed it
	Killed           string   `json:"killed,omitempty"` // sess | pconn: the reliability layer died by itself before Close
	SessionWasDead   bool     `json:"session_was_dead"` // smux session closed at the moment Close was called
	Events           []string `json:"events"`
	Contract         []string `json:"contract,omitempty"`
}

// vc15LoopScenario: Dial with a rendezvous that always fails, Close at the
// chosen moment, Close again, then watch for rendezvous attempts for longer
// than ReconnectTimeout.
//
// kill = "sess" | "pconn": before the application's first Close the reliability
// layer above Peers dies BY ITSELF (spec/Peers SessionDies), the way smux's
// keep-alive does after KeepAliveTimeout without inbound data (it calls
// Session.Close()) or the way a failing packet conn takes the session down;
// the harness reaches the session / packet conn through the SnowflakeConn's
// fields.  The obligations after Close are the same.
//
// fp != "": the channel is configured with that (invalid) bridge fingerprint, the
// rendezvous refuses polls it cannot decode like the real broker; the scenario
// waits for connectLoop's RETRY on the same BrokerChannel (second reported
// rendezvous failure, ReconnectTimeout after the first) and then closes.
func vc15LoopScenario(name string, inFlight bool, max int, dcNever bool, kill string, fp string) (res vc15LoopResult) {
	res.Scenario = name
	res.Killed = kill
	rv := &vc15CountingRendezvous{answerFirst: dcNever}
	if inFlight {
		rv.gate = make(chan struct{})
	}
	rv.decode = fp != ""
	broker := &BrokerChannel{Rendezvous: rv, keepLocalAddresses: true, natType: "unknown", BridgeFingerprint: fp}
	// as NewSnowflakeClient does: one dispatcher for the dialer and the Transport;
	// as the client binary does: transport.AddSnowflakeEventListener(<printing logger>)
	disp := event.NewSnowflakeEventDispatcher()
	tr := &Transport{dialer: NewWebRTCDialerWithEvents(broker, nil, max, disp), eventDispatcher: disp}
	rec, ptl := &vc15Events{}, &vc15PTLogger{}
	tr.AddSnowflakeEventListener(rec)
	tr.AddSnowflakeEventListener(ptl)
	defer func() {
		res.Events = rec.snapshot()
		res.Contract = rec.violations()
	}()
	nc, err := tr.Dial()
	if err != nil {
		res.Note = "Dial: " + err.Error()
		return
	}
	conn, isSC := nc.(*SnowflakeConn)
	if !isSC {
		res.Note = fmt.Sprintf("Dial: returned %T", nc)
		return
	}
	// wait for the first attempt (dcNever: for the attempt after the one whose data channel never opened)
	want := int32(1)
	wait := 8 * time.Second
	if dcNever {
		want, wait = 2, DataChannelTimeout+8*time.Second
	}
	if fp != "" {
		wait = ReconnectTimeout + 6*time.Second
	}
	countErr := func() (n int) {
		for _, e := range rec.snapshot() {
			if e == "rendezvous:err" {
				n++
			}
		}
		return
	}
	deadline := time.Now().Add(wait)
	for time.Now().Before(deadline) {
		if fp != "" {
			// attempts are counted by their reports, not by Exchange calls
			if countErr() >= 2 {
				break
			}
			time.Sleep(5 * time.Millisecond)
			continue
		}
		if inFlight && atomic.LoadInt32(&rv.inFlight) == 1 {
			break
		}
		if !inFlight && atomic.LoadInt32(&rv.calls) >= want {
			break
		}
		time.Sleep(5 * time.Millisecond)
	}
	if rv.note != "" {
		res.Note = "harness: " + rv.note
		return
	}
	if fp != "" {
		if countErr() < 1 {
			res.Note = "no rendezvous attempt reported within the wait"
			return
		}
		res.Retried = countErr() >= 2
	} else {
		if atomic.LoadInt32(&rv.calls) < 1 {
			res.Note = "no rendezvous attempt within 8s"
			return
		}
		res.Retried = atomic.LoadInt32(&rv.calls) >= 2
	}
	if !inFlight {
		time.Sleep(300 * time.Millisecond) // let Collect return; the loop is now in its timer wait
	}
	// a spare peer the connection holds (the repository's own "End Closes all
	// peers" test plants one the same way; under the lock because connectLoop runs)
	var spare *WebRTCPeer
	if !inFlight {
		// (TryLock: when a Collect is parked for good holding collectLock - itself a
		// finding, seen as Close not returning - the harness must not park behind it)
		for t := time.Now(); time.Since(t) < 300*time.Millisecond; time.Sleep(2 * time.Millisecond) {
			if conn.snowflakes.collectLock.TryLock() {
				spare = &WebRTCPeer{closed: make(chan struct{})}
				conn.snowflakes.activePeers.PushBack(spare)
				conn.snowflakes.collectLock.Unlock()
				res.HasSpare = true
				break
			}
		}
	}
	switch kill {
	case "sess":
		conn.sess.Close()
	case "pconn":
		conn.pconn.Close()
		for t := time.Now(); time.Since(t) < 3*time.Second && !conn.sess.IsClosed(); {
			time.Sleep(5 * time.Millisecond)
		}
	}
	res.SessionWasDead = conn.sess.IsClosed()
	closed := make(chan string, 1)
	t0 := time.Now()
	go func() {
		defer func() {
			if r := recover(); r != nil {
				closed <- "panic:" + fmt.Sprint(r)
			}
		}()
		conn.Close()
		closed <- "ok"
	}()
	if inFlight {
		// Close may wait for the attempt in flight - and for nothing else
		select {
		case <-closed:
			res.ReturnedEarly = true
			closed <- "ok"
		case <-time.After(300 * time.Millisecond):
		}
		close(rv.gate)
	}
	select {
	case s := <-closed:
		res.CloseReturned = s == "ok"
		if s != "ok" {
			res.Note = "first Close: " + s
		}
	case <-time.After(5 * time.Second):
		res.Note = "first Close did not return within 5s"
	}
	res.CloseMs = time.Since(t0).Milliseconds()
	res.CallsAtClose = atomic.LoadInt32(&rv.calls)
	select {
	case <-conn.snowflakes.Melted():
		res.MeltedAfterClose = true
	default:
	}
	res.SpareClosed = spare != nil && spare.Closed()
	// Close again
	second := make(chan string, 1)
	go func() {
		defer func() {
			if r := recover(); r != nil {
				second <- "panic:" + fmt.Sprint(r)
			}
		}()
		conn.Close()
		second <- "ok"
	}()
	select {
	case s := <-second:
		res.SecondClose = s
	case <-time.After(5 * time.Second):
		res.SecondClose = "hang"
	}
	t1 := time.Now()
	time.Sleep(ReconnectTimeout + 2*time.Second)
	res.ObservedMs = time.Since(t1).Milliseconds()
	res.CallsAfterWait = atomic.LoadInt32(&rv.calls)
	return
}

func TestVerifC15ConnectLoop(t *testing.T) {
	out := os.Getenv("VERIF_C15_LOOP_OUT")
	if out == "" {
		t.Skip("VERIF_C15_LOOP_OUT not set")
	}
	log.SetOutput(io.Discard)
	type sc struct {
		name     string
		inFlight bool
		max      int
		dcNever  bool
		kill     string
		fp       string
	}
	scs := []sc{{"close-during-timer-wait/max1", false, 1, false, "", ""}, {"close-during-rendezvous/max1", true, 1, false, "", ""},
		{"close-during-timer-wait/max2", false, 2, false, "", ""}, {"close-during-rendezvous/max2", true, 2, false, "", ""},
		{"dc-never-opens-then-retry/max1", false, 1, true, "", ""},
		{"close-after-session-died/max2", false, 2, false, "sess", ""}, {"close-after-session-died/max1", false, 1, false, "sess", ""},
		{"close-after-pconn-died/max2", false, 2, false, "pconn", ""},
		{"close-during-rendezvous-after-session-died/max1", true, 1, false, "sess", ""},
		{"invalid-fingerprint-retry-then-close/max1", false, 1, false, "", "not-a-hex-fingerprint"}}
	results := make([]vc15LoopResult, len(scs))
	var wg sync.WaitGroup
	for i := range scs {
		wg.Add(1)
		go func(i int) {
			defer wg.Done()
			results[i] = vc15LoopScenario(scs[i].name, scs[i].inFlight, scs[i].max, scs[i].dcNever, scs[i].kill, scs[i].fp)
		}(i)
	}
	wg.Wait()
	f, err := os.Create(out)
	if err != nil {
		t.Fatal(err)
	}
	for _, r := range results {
		b, _ := json.Marshal(r)
		f.Write(b)
		f.Write([]byte("\n"))
	}
	f.Close()
	fmt.Printf("VERIF_C15_LOOP scenarios=%d reconnect_timeout=%v\n", len(scs), ReconnectTimeout)
}
