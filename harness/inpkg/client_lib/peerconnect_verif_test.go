//go:build verif
// +build verif

package snowflake_client

// C15 harness, second part (injected with `go test -overlay`):
//
// TestVerifC15PeerConnect  runs every case emitted by TLC from
//   spec/Peers/PeerConnect.tla through the real dialer
//   (parseIceServers -> NewWebRTCDialerWithEvents -> Catch ->
//   NewWebRTCPeerWithEvents -> connect) with the real HTTP rendezvous against
//   a scripted in-process broker and, for the "good" class, a real pion peer
//   answering in-process.  It records (result, events) per case; the
//   comparison with the outcome computed by TLC is data equality.
//   Events are consumed the way the client binary consumes them: the dialer
//   gets an event.NewSnowflakeEventDispatcher() to which a listener is added
//   that, like client/snowflake.go's ptEventLogger, calls String() on every
//   event synchronously and without recover (vc15PTLogger).  A panic raised
//   there unwinds through connect/Catch; only the harness recovers it and
//   reports it as a panic of the event listener.
//
// TestVerifC15ConnectLoop  runs the real Transport.Dial / connectLoop /
//   SnowflakeConn.Close in real time: after Close has returned no further
//   rendezvous attempt may start for longer than ReconnectTimeout, the Peers are
//   melted and a held spare peer is closed - also when the smux session or the
//   packet conn died by itself before the application's first Close.

import (
	"encoding/json"
	"fmt"
	"io"
	"io/ioutil"
	"log"
	"net"
	"net/http"
	"net/http/httptest"
	"os"
	"runtime/debug"
	"strings"
	"sync"
	"sync/atomic"
	"testing"
	"time"

	"git.torproject.org/pluggable-transports/snowflake.git/v2/common/event"
	"git.torproject.org/pluggable-transports/snowflake.git/v2/common/messages"
	"git.torproject.org/pluggable-transports/snowflake.git/v2/common/util"
	"github.com/pion/ice/v2"
	"github.com/pion/stun"
	"github.com/pion/webrtc/v3"
)

type vc15PCCase struct {
	Ice    string          `json:"ice"`
	Broker string          `json:"broker"`
	DC     string          `json:"dc"`
	Expect json.RawMessage `json:"expect"`
}

type vc15PCResult struct {
	Ice    string          `json:"ice"`
	Broker string          `json:"broker"`
	DC     string          `json:"dc"`
	Expect json.RawMessage `json:"expect"`
	Result string          `json:"result"` // peer | err | panic | both | neither
	Events []string        `json:"events"`
	Err    string          `json:"err,omitempty"`
	Panic  string          `json:"panic,omitempty"`
	// PanicIn is "event-listener/<event type>" when the panic was raised while
	// the ptEventLogger mirror was printing an event.
	PanicIn  string   `json:"panic_in,omitempty"`
	Contract []string `json:"contract,omitempty"` // violations of the general event contract
	Stack    string   `json:"stack,omitempty"`
	WallMs   int64    `json:"wall_ms"`
}

// vc15PTLogger mirrors client/snowflake.go:
//
//	func (p ptEventLogger) OnNewSnowflakeEvent(e event.SnowflakeEvent) {
//		pt.Log(pt.LogSeverityNotice, e.String())
//	}
//
// synchronous, on the emitting goroutine, no recover.  (pt.Log writes a PT
// protocol line to stdout; the harness keeps the string instead.)
type vc15PTLogger struct {
	mu       sync.Mutex
	printing string // type of the event String() is being called on, "" when idle
	lines    []string
}

func (p *vc15PTLogger) OnNewSnowflakeEvent(e event.SnowflakeEvent) {
	p.mu.Lock()
	p.printing = fmt.Sprintf("%T", e)
	p.mu.Unlock()
	line := e.String()
	p.mu.Lock()
	p.printing = ""
	p.lines = append(p.lines, line)
	p.mu.Unlock()
}

func (p *vc15PTLogger) inProgress() string {
	p.mu.Lock()
	defer p.mu.Unlock()
	return strings.TrimPrefix(p.printing, "event.")
}

// vc15Events records the events the client reports and checks the general
// contract of an event: an event that reports a failure carries the error.
type vc15Events struct {
	mu       sync.Mutex
	evs      []string
	contract []string
}

func (e *vc15Events) OnNewSnowflakeEvent(ev event.SnowflakeEvent) {
	var s string
	switch v := ev.(type) {
	case event.EventOnOfferCreated:
		s = "offer:ok"
		if v.Error != nil {
			s = "offer:err"
		}
	case event.EventOnBrokerRendezvous:
		s = "rendezvous:ok"
		if v.Error != nil {
			s = "rendezvous:err"
		}
	case event.EventOnSnowflakeConnected:
		s = "connected"
	case event.EventOnSnowflakeConnectionFailed:
		s = "failed"
		if v.Error == nil {
			s = "failed:nilerr"
			e.mu.Lock()
			e.contract = append(e.contract, "nil-error/EventOnSnowflakeConnectionFailed")
			e.mu.Unlock()
		}
	default:
		s = fmt.Sprintf("other:%T", ev)
	}
	e.mu.Lock()
	e.evs = append(e.evs, s)
	e.mu.Unlock()
}

func (e *vc15Events) snapshot() []string {
	e.mu.Lock()
	defer e.mu.Unlock()
	return append([]string{}, e.evs...)
}

func (e *vc15Events) violations() []string {
	e.mu.Lock()
	defer e.mu.Unlock()
	return append([]string{}, e.contract...)
}

// vc15Wire builds the dispatcher exactly as NewSnowflakeClient + the client
// binary do: a fresh dispatcher handed to the dialer, listeners added to it.
// The recorder comes first so that an event is on record before the printing
// listener may panic on it.
func vc15Wire() (event.SnowflakeEventDispatcher, *vc15Events, *vc15PTLogger) {
	disp := event.NewSnowflakeEventDispatcher()
	rec, ptl := &vc15Events{}, &vc15PTLogger{}
	disp.AddSnowflakeEventListener(rec)
	disp.AddSnowflakeEventListener(ptl)
	return disp, rec, ptl
}

// vc15StunServer answers STUN binding requests on a local UDP socket.
func vc15StunServer() (string, func(), error) {
	c, err := net.ListenPacket("udp4", "0.0.0.0:0")
	if err != nil {
		return "", nil, err
	}
	go func() {
		buf := make([]byte, 1500)
		for {
			n, from, err := c.ReadFrom(buf)
			if err != nil {
				return
			}
			m := &stun.Message{Raw: append([]byte{}, buf[:n]...)}
			if m.Decode() != nil || m.Type != stun.BindingRequest {
				continue
			}
			ua := from.(*net.UDPAddr)
			resp, err := stun.Build(stun.NewTransactionIDSetter(m.TransactionID), stun.BindingSuccess,
				&stun.XORMappedAddress{IP: ua.IP, Port: ua.Port}, stun.Fingerprint)
			if err == nil {
				c.WriteTo(resp.Raw, from)
			}
		}
	}()
	port := c.LocalAddr().(*net.UDPAddr).Port
	return fmt.Sprintf("stun:127.0.0.1:%d", port), func() { c.Close() }, nil
}

// vc15Answer is the harness pion peer: it answers the client's offer.  With
// open=false the peer goes away right after answering, so the data channel
// never opens.
func vc15Answer(offer string, open bool, keep *[]*webrtc.PeerConnection, mu *sync.Mutex) (string, error) {
	sd, err := util.DeserializeSessionDescription(offer)
	if err != nil {
		return "", err
	}
	s := webrtc.SettingEngine{}
	s.SetICEMulticastDNSMode(ice.MulticastDNSModeDisabled)
	api := webrtc.NewAPI(webrtc.WithSettingEngine(s))
	pc, err := api.NewPeerConnection(webrtc.Configuration{})
	if err != nil {
		return "", err
	}
	pc.OnDataChannel(func(dc *webrtc.DataChannel) {})
	if err = pc.SetRemoteDescription(*sd); err != nil {
		pc.Close()
		return "", err
	}
	done := webrtc.GatheringCompletePromise(pc)
	ans, err := pc.CreateAnswer(nil)
	if err != nil {
		pc.Close()
		return "", err
	}
	if err = pc.SetLocalDescription(ans); err != nil {
		pc.Close()
		return "", err
	}
	<-done
	out, err := util.SerializeSessionDescription(pc.LocalDescription())
	if !open {
		pc.Close()
	} else {
		mu.Lock()
		*keep = append(*keep, pc)
		mu.Unlock()
	}
	return out, err
}

func vc15RunPCCase(c vc15PCCase, stunURL string) (res vc15PCResult) {
	res = vc15PCResult{Ice: c.Ice, Broker: c.Broker, DC: c.DC, Expect: c.Expect, Events: []string{}}
	t0 := time.Now()
	var keep []*webrtc.PeerConnection
	var mu sync.Mutex
	harnessErr := ""
	srv := httptest.NewServer(http.HandlerFunc(func(w http.ResponseWriter, r *http.Request) {
		body, _ := ioutil.ReadAll(r.Body)
		switch c.Broker {
		case "non200":
			w.WriteHeader(http.StatusServiceUnavailable)
		case "errjson_noproxy":
			w.Write([]byte(`{"error":"no snowflake proxies currently available."}`))
		case "errjson_empty":
			w.Write([]byte(`{}`))
		case "malformed":
			w.Write([]byte(`{"answer": "{\"type\":\"answer\"`))
		case "nonstring_type":
			w.Write([]byte(`{"answer":"{\"type\":5,\"sdp\":\"v=0\"}"}`))
		case "nonstring_sdp":
			w.Write([]byte(`{"answer":"{\"type\":\"answer\",\"sdp\":[1,2]}"}`))
		case "bad_sdp":
			w.Write([]byte(`{"answer":"{\"type\":\"answer\",\"sdp\":\"this is not sdp\"}"}`))
		case "good":
			req, err := messages.DecodeClientPollRequest(body)
			if err != nil {
				harnessErr = "poll request does not decode: " + err.Error()
				w.WriteHeader(http.StatusBadRequest)
				return
			}
			ans, err := vc15Answer(req.Offer, c.DC == "opens", &keep, &mu)
			if err != nil {
				harnessErr = "answerer: " + err.Error()
				w.WriteHeader(http.StatusInternalServerError)
				return
			}
			b, _ := (&messages.ClientPollResponse{Answer: ans}).EncodePollResponse()
			w.Write(b)
		default:
			w.WriteHeader(http.StatusTeapot)
		}
	}))
	url := srv.URL + "/"
	if c.Broker == "transport_error" {
		srv.Close() // nothing listens there any more
	} else {
		defer srv.Close()
	}
	defer func() {
		mu.Lock()
		for _, pc := range keep {
			pc.Close()
		}
		mu.Unlock()
	}()

	var addrs []string
	switch c.Ice {
	case "none":
		addrs = nil
	case "valid":
		addrs = []string{stunURL}
	case "empty":
		addrs = []string{""} // strings.Split("", ",") of the client's default -ice value
	case "garbage":
		addrs = []string{"not-an-ice-url"}
	case "turn_nocred":
		addrs = []string{"turn:192.0.2.2:3478"}
	}
	rv, err := newHTTPRendezvous(url, "", &http.Transport{ResponseHeaderTimeout: 15 * time.Second})
	if err != nil {
		res.Result, res.Err = "harness", err.Error()
		return
	}
	broker := &BrokerChannel{Rendezvous: rv, keepLocalAddresses: true, natType: "unknown"}
	disp, evs, ptl := vc15Wire()
	dialer := NewWebRTCDialerWithEvents(broker, parseIceServers(addrs), 1, disp)

	func() {
		defer func() {
			if r := recover(); r != nil {
				res.Result = "panic"
				res.Panic = fmt.Sprint(r)
				res.Stack = string(debug.Stack())
				if t := ptl.inProgress(); t != "" {
					res.PanicIn = "event-listener/" + t
				}
			}
		}()
		peer, err := dialer.Catch()
		switch {
		case peer != nil && err == nil:
			res.Result = "peer"
			peer.Close()
		case peer == nil && err != nil:
			res.Result = "err"
			res.Err = err.Error()
		case peer != nil:
			res.Result = "both"
			res.Err = err.Error()
		default:
			res.Result = "neither"
		}
	}()
	res.Events = evs.snapshot()
	res.Contract = evs.violations()
	if harnessErr != "" {
		res.Result = "harness"
		res.Err = harnessErr
	}
	res.WallMs = time.Since(t0).Milliseconds()
	return
}

func TestVerifC15PeerConnect(t *testing.T) {
	in, out := os.Getenv("VERIF_C15_PC_CASES"), os.Getenv("VERIF_C15_PC_OUT")
	if in == "" || out == "" {
		t.Skip("VERIF_C15_PC_CASES / VERIF_C15_PC_OUT not set")
	}
	log.SetOutput(io.Discard)
	raw, err := ioutil.ReadFile(in)
	if err != nil {
		t.Fatal(err)
	}
	var cases []vc15PCCase
	for _, line := range strings.Split(string(raw), "\n") {
		if strings.TrimSpace(line) == "" {
			continue
		}
		var c vc15PCCase
		if err := json.Unmarshal([]byte(line), &c); err != nil {
			t.Fatal(err)
		}
		cases = append(cases, c)
	}
	stunURL, stop, err := vc15StunServer()
	if err != nil {
		t.Fatal(err)
	}
	defer stop()
	results := make([]vc15PCResult, len(cases))
	var wg sync.WaitGroup
	for i := range cases {
		wg.Add(1)
		go func(i int) {
			defer wg.Done()
			results[i] = vc15RunPCCase(cases[i], stunURL)
		}(i)
	}
	wg.Wait()
	f, err := os.Create(out)
	if err != nil {
		t.Fatal(err)
	}
	for _, r := range results {
		b, _ := json.Marshal(r)
		f.Write(b)
		f.Write([]byte("\n"))
	}
	f.Close()
	fmt.Printf("VERIF_C15_PC cases=%d\n", len(cases))
}

// ---------------------------------------------------------------------------

type vc15CountingRendezvous struct {
	calls       int32
	gate        chan struct{} // non-nil: the first Exchange parks here
	inFlight    int32
	answerFirst bool // the first Exchange is answered by a real peer that then goes away
	note        string
}

func (r *vc15CountingRendezvous) Exchange(enc []byte) ([]byte, error) {
	n := atomic.AddInt32(&r.calls, 1)
	if n == 1 && r.gate != nil {
		atomic.StoreInt32(&r.inFlight, 1)
		<-r.gate
		atomic.StoreInt32(&r.inFlight, 0)
	}
	if n == 1 && r.answerFirst {
		req, err := messages.DecodeClientPollRequest(enc)
		if err != nil {
			r.note = "poll request does not decode: " + err.Error()
			return nil, err
		}
		var keep []*webrtc.PeerConnection
		var mu sync.Mutex
		ans, err := vc15Answer(req.Offer, false, &keep, &mu)
		if err != nil {
			r.note = "answerer: " + err.Error()
			return nil, err
		}
		return (&messages.ClientPollResponse{Answer: ans}).EncodePollResponse()
	}
	return nil, fmt.Errorf("verif: scripted rendezvous failure")
}

type vc15LoopResult struct {
	Scenario       string `json:"scenario"`
	CallsAtClose   int32  `json:"calls_at_close"`
	CallsAfterWait int32  `json:"calls_after_wait"`
	CloseReturned  bool   `json:"close_returned"`
	CloseMs        int64  `json:"close_ms"`
	ReturnedEarly  bool   `json:"returned_before_attempt_ended"`
	SecondClose    string `json:"second_close"` // ok | panic:<text> | hang
	ObservedMs     int64  `json:"observed_ms"`
	Note           string `json:"note,omitempty"`
	// data-channel-never-opens scenario: the failed attempt was reported and a new one followed
	Retried bool `json:"retried"`
	// obligations right after the FIRST Close returned
	MeltedAfterClose bool     `json:"melted_after_close"`
	HasSpare         bool     `json:"has_spare"`        // a spare peer was held when Close was called
	SpareClosed      bool     `json:"spare_closed"`     // ... and Close closed it
	Killed           string   `json:"killed,omitempty"` // sess | pconn: the reliability layer died by itself before Close
	SessionWasDead   bool     `json:"session_was_dead"` // smux session closed at the moment Close was called
	Events           []string `json:"events"`
	Contract         []string `json:"contract,omitempty"`
}

// vc15LoopScenario: Dial with a rendezvous that always fails, Close at the
// chosen moment, Close again, then watch for rendezvous attempts for longer
// than ReconnectTimeout.
//
// kill = "sess" | "pconn": before the application's first Close the reliability
// layer above Peers dies BY ITSELF (spec/Peers SessionDies), the way smux's
// keep-alive does after KeepAliveTimeout without inbound data (it calls
// Session.Close()) or the way a failing packet conn takes the session down;
// the harness reaches the session / packet conn through the SnowflakeConn's
// fields.  The obligations after Close are the same.
func vc15LoopScenario(name string, inFlight bool, max int, dcNever bool, kill string) (res vc15LoopResult) {
	res.Scenario = name
	res.Killed = kill
	rv := &vc15CountingRendezvous{answerFirst: dcNever}
	if inFlight {
		rv.gate = make(chan struct{})
	}
	broker := &BrokerChannel{Rendezvous: rv, keepLocalAddresses: true, natType: "unknown"}
	// as NewSnowflakeClient does: one dispatcher for the dialer and the Transport;
	// as the client binary does: transport.AddSnowflakeEventListener(<printing logger>)
	disp := event.NewSnowflakeEventDispatcher()
	tr := &Transport{dialer: NewWebRTCDialerWithEvents(broker, nil, max, disp), eventDispatcher: disp}
	rec, ptl := &vc15Events{}, &vc15PTLogger{}
	tr.AddSnowflakeEventListener(rec)
	tr.AddSnowflakeEventListener(ptl)
	defer func() {
		res.Events = rec.snapshot()
		res.Contract = rec.violations()
	}()
	nc, err := tr.Dial()
	if err != nil {
		res.Note = "Dial: " + err.Error()
		return
	}
	conn, isSC := nc.(*SnowflakeConn)
	if !isSC {
		res.Note = fmt.Sprintf("Dial: returned %T", nc)
		return
	}
	// wait for the first attempt (dcNever: for the attempt after the one whose data channel never opened)
	want := int32(1)
	wait := 8 * time.Second
	if dcNever {
		want, wait = 2, DataChannelTimeout+8*time.Second
	}
	deadline := time.Now().Add(wait)
	for time.Now().Before(deadline) {
		if inFlight && atomic.LoadInt32(&rv.inFlight) == 1 {
			break
		}
		if !inFlight && atomic.LoadInt32(&rv.calls) >= want {
			break
		}
		time.Sleep(5 * time.Millisecond)
	}
	if rv.note != "" {
		res.Note = "harness: " + rv.note
		return
	}
	if atomic.LoadInt32(&rv.calls) < 1 {
		res.Note = "no rendezvous attempt within 8s"
		return
	}
	res.Retried = atomic.LoadInt32(&rv.calls) >= 2
	if !inFlight {
		time.Sleep(300 * time.Millisecond) // let Collect return; the loop is now in its timer wait
	}
	// a spare peer the connection holds (the repository's own "End Closes all
	// peers" test plants one the same way; under the lock because connectLoop runs)
	var spare *WebRTCPeer
	if !inFlight {
		spare = &WebRTCPeer{closed: make(chan struct{})}
		conn.snowflakes.collectLock.Lock()
		conn.snowflakes.activePeers.PushBack(spare)
		conn.snowflakes.collectLock.Unlock()
		res.HasSpare = true
	}
	switch kill {
	case "sess":
		conn.sess.Close()
	case "pconn":
		conn.pconn.Close()
		for t := time.Now(); time.Since(t) < 3*time.Second && !conn.sess.IsClosed(); {
			time.Sleep(5 * time.Millisecond)
		}
	}
	res.SessionWasDead = conn.sess.IsClosed()
	closed := make(chan string, 1)
	t0 := time.Now()
	go func() {
		defer func() {
			if r := recover(); r != nil {
				closed <- "panic:" + fmt.Sprint(r)
			}
		}()
		conn.Close()
		closed <- "ok"
	}()
	if inFlight {
		// Close may wait for the attempt in flight - and for nothing else
		select {
		case <-closed:
			res.ReturnedEarly = true
			closed <- "ok"
		case <-time.After(300 * time.Millisecond):
		}
		close(rv.gate)
	}
	select {
	case s := <-closed:
		res.CloseReturned = s == "ok"
		if s != "ok" {
			res.Note = "first Close: " + s
		}
	case <-time.After(5 * time.Second):
		res.Note = "first Close did not return within 5s"
	}
	res.CloseMs = time.Since(t0).Milliseconds()
	res.CallsAtClose = atomic.LoadInt32(&rv.calls)
	select {
	case <-conn.snowflakes.Melted():
		res.MeltedAfterClose = true
	default:
	}
	res.SpareClosed = spare != nil && spare.Closed()
	// Close again
	second := make(chan string, 1)
	go func() {
		defer func() {
			if r := recover(); r != nil {
				second <- "panic:" + fmt.Sprint(r)
			}
		}()
		conn.Close()
		second <- "ok"
	}()
	select {
	case s := <-second:
		res.SecondClose = s
	case <-time.After(5 * time.Second):
		res.SecondClose = "hang"
	}
	t1 := time.Now()
	time.Sleep(ReconnectTimeout + 2*time.Second)
	res.ObservedMs = time.Since(t1).Milliseconds()
	res.CallsAfterWait = atomic.LoadInt32(&rv.calls)
	return
}

func TestVerifC15ConnectLoop(t *testing.T) {
	out := os.Getenv("VERIF_C15_LOOP_OUT")
	if out == "" {
		t.Skip("VERIF_C15_LOOP_OUT not set")
	}
	log.SetOutput(io.Discard)
	type sc struct {
		name     string
		inFlight bool
		max      int
		dcNever  bool
		kill     string
	}
	scs := []sc{{"close-during-timer-wait/max1", false, 1, false, ""}, {"close-during-rendezvous/max1", true, 1, false, ""},
		{"close-during-timer-wait/max2", false, 2, false, ""}, {"close-during-rendezvous/max2", true, 2, false, ""},
		{"dc-never-opens-then-retry/max1", false, 1, true, ""},
		{"close-after-session-died/max2", false, 2, false, "sess"}, {"close-after-session-died/max1", false, 1, false, "sess"},
		{"close-after-pconn-died/max2", false, 2, false, "pconn"},
		{"close-during-rendezvous-after-session-died/max1", true, 1, false, "sess"}}
	results := make([]vc15LoopResult, len(scs))
	var wg sync.WaitGroup
	for i := range scs {
		wg.Add(1)
		go func(i int) {
			defer wg.Done()
			results[i] = vc15LoopScenario(scs[i].name, scs[i].inFlight, scs[i].max, scs[i].dcNever, scs[i].kill)
		}(i)
	}
	wg.Wait()
	f, err := os.Create(out)
	if err != nil {
		t.Fatal(err)
	}
	for _, r := range results {
		b, _ := json.Marshal(r)
		f.Write(b)
		f.Write([]byte("\n"))
	}
	f.Close()
	fmt.Printf("VERIF_C15_LOOP scenarios=%d reconnect_timeout=%v\n", len(scs), ReconnectTimeout)
}
