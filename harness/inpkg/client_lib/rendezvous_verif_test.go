package snowflake_client

// In-package conformance driver for property C11 (spec/Rendezvous).  It is
// never part of /repo: the check injects it with `go test -overlay`.  Cases
// (configuration, poll, scripted response, expected request and result class)
// are printed by TLC; this file only executes the real httpRendezvous.Exchange
// and ampCacheRendezvous.Exchange over an in-memory http.RoundTripper and
// compares data.
//
//	VERIF_C11_CASES  newline-delimited JSON cases     VERIF_C11_OUT  results
//	VERIF_SEED       seed of payload bytes and reader scripts

import (
	"bufio"
	"bytes"
	"encoding/json"
	"fmt"
	"io"
	"io/ioutil"
	"log"
	"net/http"
	"os"
	"runtime"
	"runtime/debug"
	"strconv"
	"strings"
	"sync"
	"testing"

	"git.torproject.org/pluggable-transports/snowflake.git/v2/common/amp"
)

type verifC11Poll struct {
	Status   int    `json:"status"`
	Location string `json:"location"` // none | relative | same | other
	Size     string `json:"size"`
	Shape    string `json:"shape"`
	Poll     struct {
		Len  int    `json:"len"`
		Fill string `json:"fill"`
	} `json:"poll"`
	Bytes int `json:"bytes"`
}

type verifC11Expect struct {
	Req struct {
		Judged      bool   `json:"judged"`
		Method      string `json:"method"`
		Scheme      string `json:"scheme"`
		URLHost     string `json:"urlhost"`
		HostHeader  string `json:"hostheader"`
		Path        string `json:"path"`
		Poll        string `json:"poll"`
		MustNotName string `json:"mustnotname"`
		Requests    int    `json:"requests"`
	} `json:"req"`
	Res string `json:"res"`
}

// One case = ONE rendezvous object and a sequence of polls on it.
type verifC11Case struct {
	Cs struct {
		Method string `json:"method"`
		Broker string `json:"broker"`
		Front  string `json:"front"`
		Cache  string `json:"cache"`
	} `json:"cs"`
	BrokerURL string           `json:"brokerurl"`
	FrontHost string           `json:"fronthost"`
	CacheURL  string           `json:"cacheurl"`
	Polls     []verifC11Poll   `json:"polls"`
	Expect    []verifC11Expect `json:"expect"`
}

type verifC11Result struct {
	Idx    int         `json:"idx"`
	Sig    string      `json:"sig"`
	Detail string      `json:"detail"`
	Case   interface{} `json:"case,omitempty"`
}

func verifC11Mix(key, pos uint64) byte {
	z := key + 0x9e3779b97f4a7c15*(pos+1)
	z = (z ^ (z >> 30)) * 0xbf58476d1ce4e5b9
	z = (z ^ (z >> 27)) * 0x94d049bb133111eb
	return byte(z ^ (z >> 31))
}

func verifC11Fill(n int, key uint64, fill string) []byte {
	p := make([]byte, n)
	for i := range p {
		if fill == "ff" {
			p[i] = 0xff - byte(i%5)
		} else {
			p[i] = verifC11Mix(key, uint64(i))
		}
	}
	return p
}

// scripted body reader
type verifC11Body struct {
	data   []byte
	pos    int
	script []string
	si     int
	closed bool
}

func (b *verifC11Body) Read(p []byte) (int, error) {
	if len(p) == 0 {
		return 0, nil
	}
	avail := len(b.data) - b.pos
	if avail == 0 {
		return 0, io.EOF
	}
	d := b.script[b.si%len(b.script)]
	b.si++
	n := len(p)
	if n > avail {
		n = avail
	}
	var err error
	switch d {
	case "Zero":
		return 0, nil
	case "K1":
		if n > 1024 {
			n = 1024
		}
	case "Part":
		if n > 1 {
			n = n / 2
		}
	case "AllEOF":
		if b.pos+n == len(b.data) {
			err = io.EOF
		}
	}
	copy(p, b.data[b.pos:b.pos+n])
	b.pos += n
	return n, err
}
func (b *verifC11Body) Close() error { b.closed = true; return nil }

var verifC11Scripts = [][]string{{"All"}, {"K1"}, {"Part"}, {"AllEOF"}, {"Zero", "Part"}, {"K1", "AllEOF"}}

type verifC11Seen struct {
	method, url, scheme, urlHost, host, path, query string
	body                                            []byte
	hasBody                                         bool
}

// verifC11Transport records every request it is handed. The first request of
// an exchange gets the scripted response; ANY follow-up request (a followed
// redirect, a retry) is answered 200 with a valid body, so that it would look
// like a success to the caller.
type verifC11Transport struct {
	resp     func(*http.Request) (*http.Response, error)
	followup func(*http.Request) (*http.Response, error)
	seen     []verifC11Seen // requests of the current exchange
	calls    int
	// the first request of the current exchange
	method, url, scheme, urlHost, host, path, query string
	body                                            []byte
	hasBody                                         bool
}

func (t *verifC11Transport) begin() { t.seen = nil }

func (t *verifC11Transport) RoundTrip(req *http.Request) (*http.Response, error) {
	t.calls++
	sn := verifC11Seen{method: req.Method, url: req.URL.String(), scheme: req.URL.Scheme, urlHost: req.URL.Host, host: req.Host,
		path: req.URL.EscapedPath(), query: req.URL.RawQuery}
	if req.Body != nil {
		sn.body, _ = ioutil.ReadAll(req.Body)
		sn.hasBody = true
	}
	t.seen = append(t.seen, sn)
	if len(t.seen) > 1 {
		return t.followup(req)
	}
	t.method, t.url, t.scheme, t.urlHost, t.host, t.path, t.query, t.body, t.hasBody = sn.method, sn.url, sn.scheme, sn.urlHost, sn.host, sn.path, sn.query, sn.body, sn.hasBody
	return t.resp(req)
}

func verifC11Armor(payload []byte) []byte {
	var buf bytes.Buffer
	enc, err := amp.NewArmorEncoder(&buf)
	if err != nil {
		panic(err)
	}
	if _, err := enc.Write(payload); err != nil {
		panic(err)
	}
	if err := enc.Close(); err != nil {
		panic(err)
	}
	return buf.Bytes()
}

// verifC11PadTo appends markup outside the pre elements (comments, each far
// below the decoder's 32 KiB token limit, then spaces) up to exactly size bytes.
func verifC11PadTo(doc []byte, size int) []byte {
	const unit = "<!-- padding -->\n"
	for len(doc)+len(unit) <= size {
		doc = append(doc, unit...)
	}
	for len(doc) < size {
		doc = append(doc, ' ')
	}
	return doc
}

var verifC11FullLen sync.Map // body size -> payload length of the "armor-full" shape

// verifC11MakeBody builds the response body and the payload it carries (nil when
// it carries none).
func verifC11MakeBody(method string, pl *verifC11Poll, key uint64) (body, payload []byte, err error) {
	size := pl.Bytes
	switch pl.Shape {
	case "plain":
		body = verifC11Fill(size, key^0x5555, "rand")
		if method == "amp" {
			for i := range body { // keep it free of markup so that it is certainly not armor
				body[i] = "abcdefghijklmnop \n"[body[i]%18]
			}
		}
		return body, body, nil
	case "armor-pad":
		payload = verifC11Fill(200, key^0x7777, "rand")
		doc := verifC11Armor(payload)
		if len(doc) > size {
			return nil, nil, fmt.Errorf("armored document of %d bytes does not fit size %d", len(doc), size)
		}
		return verifC11PadTo(doc, size), payload, nil
	case "armor-full":
		if n, ok := verifC11FullLen.Load(size); ok {
			payload = verifC11Fill(n.(int), key^0x9999, "rand")
			return verifC11PadTo(verifC11Armor(payload), size), payload, nil
		}
		// the largest payload whose armor fits, by bisection on the (monotone) armored length
		lo, hi := 0, size
		if len(verifC11Armor(nil)) > size {
			return nil, nil, fmt.Errorf("even the empty armored document does not fit size %d", size)
		}
		for lo < hi {
			mid := (lo + hi + 1) / 2
			if len(verifC11Armor(make([]byte, mid))) <= size {
				lo = mid
			} else {
				hi = mid - 1
			}
		}
		verifC11FullLen.Store(size, lo)
		payload = verifC11Fill(lo, key^0x9999, "rand")
		return verifC11PadTo(verifC11Armor(payload), size), payload, nil
	}
	return nil, nil, fmt.Errorf("unknown body shape %q", pl.Shape)
}

func verifC11One(raw []byte, idx int, seed uint64, put func(verifC11Result)) (nontrivial bool) {
	var c verifC11Case
	if err := json.Unmarshal(raw, &c); err != nil {
		panic(fmt.Sprintf("bad case %d: %v", idx, err))
	}
	if len(c.Polls) == 0 || len(c.Polls) != len(c.Expect) {
		panic(fmt.Sprintf("bad case %d: %d polls, %d expectations", idx, len(c.Polls), len(c.Expect)))
	}
	// ONE rendezvous object for the whole sequence of polls
	tr := &verifC11Transport{}
	var rv RendezvousMethod
	var err error
	if c.Cs.Method == "http" {
		rv, err = newHTTPRendezvous(c.BrokerURL, c.FrontHost, tr)
	} else {
		rv, err = newAMPCacheRendezvous(c.BrokerURL, c.CacheURL, c.FrontHost, tr)
	}
	if err != nil {
		panic(fmt.Sprintf("case %d: constructor: %v", idx, err))
	}
	conf := fmt.Sprintf("method=%s/front=%s/cache=%s", c.Cs.Method, c.Cs.Front, c.Cs.Cache)
	for j := range c.Polls {
		pl, ex := &c.Polls[j], &c.Expect[j]
		key := seed*0x1000003 + uint64(idx)*0x9e3779b9 + uint64(j)*0x51ed27
		which := "/poll=first"
		if j > 0 {
			which = "/poll=later" // a poll on an object that has been used before
		}
		report := func(sig, detail string) {
			put(verifC11Result{Idx: idx, Sig: sig + which, Detail: fmt.Sprintf("poll %d of %d on one rendezvous object: %s", j+1, len(c.Polls), detail), Case: c})
		}
		poll := verifC11Fill(pl.Poll.Len, key, pl.Poll.Fill)
		body, payload, err := verifC11MakeBody(c.Cs.Method, pl, key)
		if err != nil {
			panic(fmt.Sprintf("case %d: %v", idx, err))
		}
		if c.Cs.Method == "http" {
			payload = body // the POST response is opaque bytes, armored or not
		}
		script := verifC11Scripts[int(verifC11Mix(key, 77))%len(verifC11Scripts)]
		rb := &verifC11Body{data: body, script: script}
		tr.resp = func(req *http.Request) (*http.Response, error) {
			h := http.Header{}
			h.Set("Content-Type", "text/html")
			switch pl.Location {
			case "none":
			case "relative":
				h.Set("Location", "/moved/"+strings.TrimPrefix(req.URL.Path, "/"))
			case "same": // absolute, the host this request names as its origin
				origin := req.Host
				if origin == "" {
					origin = req.URL.Host
				}
				h.Set("Location", req.URL.Scheme+"://"+origin+"/moved"+req.URL.EscapedPath())
			case "other":
				h.Set("Location", "https://elsewhere.example"+req.URL.EscapedPath())
			default:
				panic("unknown expected location class " + pl.Location)
			}
			return &http.Response{Status: fmt.Sprintf("%d %s", pl.Status, http.StatusText(pl.Status)), StatusCode: pl.Status,
				Proto: "HTTP/1.1", ProtoMajor: 1, ProtoMinor: 1, Header: h, Body: rb, ContentLength: -1, Request: req}, nil
		}
		follow := []byte("followed-redirect-answer")
		tr.followup = func(req *http.Request) (*http.Response, error) {
			b := follow
			if c.Cs.Method == "amp" {
				b = verifC11Armor(follow)
			}
			return &http.Response{Status: "200 OK", StatusCode: 200, Proto: "HTTP/1.1", ProtoMajor: 1, ProtoMinor: 1,
				Header: http.Header{"Content-Type": {"text/html"}}, Body: ioutil.NopCloser(bytes.NewReader(b)), ContentLength: -1, Request: req}, nil
		}
		tr.begin()
		before := tr.calls
		pollCopy := append([]byte(nil), poll...)
		got, gerr := rv.Exchange(pollCopy)
		calls := tr.calls - before
		if c.Cs.Front != "none" || c.Cs.Cache != "none" || pl.Status != 200 || pl.Bytes >= 99999 || len(c.Polls) > 1 {
			nontrivial = true
		}

		// --- the request ---
		if ex.Req.Judged {
			e := ex.Req
			effHost := tr.host
			if effHost == "" {
				effHost = tr.urlHost
			}
			bad := true
			switch {
			case calls != e.Requests:
				extra := ""
				for q, sn := range tr.seen {
					eff := sn.host
					if eff == "" {
						eff = sn.urlHost
					}
					extra += fmt.Sprintf("; request %d: %s to %q with Host %q, %d body bytes", q+1, sn.method, sn.urlHost, eff, len(sn.body))
				}
				report(fmt.Sprintf("request/count/%s/status=%dxx/location=%s", conf, pl.Status/100, pl.Location),
					fmt.Sprintf("%d requests were handed to the transport by one Exchange (status %d, Location %s), the contract says %d%s; result: %d bytes, err=%v",
						calls, pl.Status, pl.Location, e.Requests, extra, len(got), gerr))
			case tr.method != e.Method:
				report("request/method/"+conf, fmt.Sprintf("method %s, contract says %s", tr.method, e.Method))
			case tr.scheme != e.Scheme:
				report("request/scheme/"+conf, fmt.Sprintf("URL %q: scheme %s, contract says %s", tr.url, tr.scheme, e.Scheme))
			case tr.urlHost != e.URLHost:
				report("request/url-host/"+conf, fmt.Sprintf("URL %q is addressed to %q, contract says %q", tr.url, tr.urlHost, e.URLHost))
			case effHost != e.HostHeader:
				report("request/host-header/"+conf, fmt.Sprintf("Host header %q (req.Host %q), contract says %q", effHost, tr.host, e.HostHeader))
			case e.MustNotName != "" && strings.Contains(tr.url, e.MustNotName):
				report("request/broker-named-in-url/"+conf, fmt.Sprintf("fronted URL %q names the broker %q", tr.url, e.MustNotName))
			case tr.query != "":
				report("request/query/"+conf, fmt.Sprintf("URL %q has a query", tr.url))
			default:
				bad = false
			}
			if bad {
				return
			}
			if e.Poll == "body" {
				if tr.path != e.Path {
					report("request/path/"+conf+"/broker="+c.Cs.Broker, fmt.Sprintf("path %q, contract says %q", tr.path, e.Path))
					return
				}
				if !tr.hasBody || !bytes.Equal(tr.body, poll) {
					report("request/body/"+conf, fmt.Sprintf("request body has %d bytes, the poll %d, or they differ", len(tr.body), len(poll)))
					return
				}
			} else {
				if !strings.HasPrefix(tr.path, e.Path) {
					report("request/path/"+conf+"/broker="+c.Cs.Broker, fmt.Sprintf("path %q does not start with %q", tr.path, e.Path))
					return
				}
				dec, err := amp.DecodePath(strings.TrimPrefix(tr.path, e.Path))
				if e.Poll == "unjudged" {
					// don't-care of the specification: an empty poll behind a cache
				} else if err != nil || !bytes.Equal(dec, poll) {
					report("request/encoded-poll/"+conf, fmt.Sprintf("path suffix %q decodes to %d bytes (err=%v), the poll has %d", strings.TrimPrefix(tr.path, e.Path), len(dec), err, len(poll)))
					return
				}
				if tr.hasBody && len(tr.body) > 0 {
					report("request/get-with-body/"+conf, "the GET request carries a body")
					return
				}
			}
		}

		// --- the result ---
		resSig := fmt.Sprintf("/method=%s/status=%d/location=%s/size=%s/shape=%s", c.Cs.Method, pl.Status, pl.Location, pl.Size, pl.Shape)
		exact := gerr == nil && bytes.Equal(got, payload)
		switch ex.Res {
		case "data":
			if !exact {
				what := "error"
				if gerr == nil {
					what = "wrong-data"
					if len(got) < len(payload) && bytes.Equal(got, payload[:len(got)]) {
						what = "truncated-data"
					}
				}
				report("result/expect=data/got="+what+resSig, fmt.Sprintf("Exchange returned %d bytes, err=%v; contract says exactly the %d bytes sent", len(got), gerr, len(payload)))
				return
			}
		case "error":
			if gerr == nil {
				what := "data"
				if len(got) < len(payload) {
					what = "truncated-data"
				}
				report("result/expect=error/got="+what+resSig, fmt.Sprintf("Exchange returned %d bytes without error (body of %d bytes, status %d)", len(got), len(body), pl.Status))
				return
			}
		case "any":
			if gerr == nil && !exact && ex.Req.Judged {
				report("result/expect=any/got=wrong-data"+resSig, fmt.Sprintf("Exchange returned %d bytes that are not the %d bytes sent", len(got), len(payload)))
				return
			}
		default:
			panic("unknown expected result class " + ex.Res)
		}
		if calls > 0 && !rb.closed {
			report("result/body-not-closed/"+conf, "the response body was not closed")
			return
		}
	}
	return
}

func TestVerifC11Rendezvous(t *testing.T) {
	in, out := os.Getenv("VERIF_C11_CASES"), os.Getenv("VERIF_C11_OUT")
	if in == "" || out == "" {
		t.Skip("VERIF_C11_CASES / VERIF_C11_OUT not set")
	}
	seed, _ := strconv.ParseUint(os.Getenv("VERIF_SEED"), 10, 64)
	base, _ := strconv.Atoi(os.Getenv("VERIF_IDX_BASE")) // replay of a single case: its original index
	log.SetOutput(ioutil.Discard)
	f, err := os.Open(in)
	if err != nil {
		t.Fatal(err)
	}
	var cases [][]byte
	sc := bufio.NewScanner(f)
	sc.Buffer(make([]byte, 1<<20), 1<<26)
	for sc.Scan() {
		if len(sc.Bytes()) > 0 {
			cases = append(cases, append([]byte(nil), sc.Bytes()...))
		}
	}
	f.Close()
	if sc.Err() != nil {
		t.Fatal(sc.Err())
	}
	of, err := os.Create(out)
	if err != nil {
		t.Fatal(err)
	}
	w := bufio.NewWriter(of)
	var mu sync.Mutex
	put := func(v interface{}) {
		b, err := json.Marshal(v)
		if err != nil {
			b, _ = json.Marshal(map[string]string{"marshal_error": err.Error()})
		}
		mu.Lock()
		w.Write(b)
		w.WriteByte('\n')
		mu.Unlock()
	}
	nontrivial, exchanges := 0, 0
	for _, raw := range cases {
		var c struct {
			Polls []json.RawMessage `json:"polls"`
		}
		json.Unmarshal(raw, &c)
		exchanges += len(c.Polls)
	}
	ch := make(chan int, 256)
	var wg sync.WaitGroup
	for k := 0; k < runtime.NumCPU(); k++ {
		wg.Add(1)
		go func() {
			defer wg.Done()
			for i := range ch {
				func() {
					defer func() {
						if v := recover(); v != nil {
							msg := fmt.Sprint(v)
							var c interface{}
							json.Unmarshal(cases[i], &c)
							sig := "exchange/panic"
							if strings.HasPrefix(msg, "case ") || strings.HasPrefix(msg, "bad case") || strings.HasPrefix(msg, "unknown expected") {
								sig = "harness/" + msg // a defect of the harness, not of the code: the check turns it into "no verdict"
							}
							put(verifC11Result{Idx: i, Sig: sig, Detail: msg + "\n" + string(debug.Stack()), Case: c})
						}
					}()
					if verifC11One(cases[i], base+i, seed, func(r verifC11Result) { put(r) }) {
						mu.Lock()
						nontrivial++
						mu.Unlock()
					}
				}()
			}
		}()
	}
	for i := range cases {
		ch <- i
	}
	close(ch)
	wg.Wait()
	put(map[string]interface{}{"summary": map[string]interface{}{"cases": len(cases), "nontrivial": nontrivial, "exchanges": exchanges}})
	if err := w.Flush(); err != nil {
		t.Fatal(err)
	}
	if err := of.Close(); err != nil {
		t.Fatal(err)
	}
}
