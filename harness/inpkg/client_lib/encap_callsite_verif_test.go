package snowflake_client

// C09 at the client call site of common/encapsulation (spec/Encap/EncapSites.tla),
// injected with `go test -overlay`; never written into the repository.
//
// Every case (stream layout, truncation point, reader script) and every
// expectation (bytes delivered per ReadFrom for each buffer length, terminal
// condition, sizes of written streams) is printed by TLC.  This file only
// builds the bytes, runs the real encapsulationPacketConn and compares.
//
// Environment:
//   VERIF_ENC_IN   comma-separated files of read cases (raw TLC output: one quoted JSON string per
//                  line, or plain ndjson)
//   VERIF_ENC_WIN  comma-separated files of write cases (same formats), may be empty
//   VERIF_ENC_OUT  results (ndjson): {"idx","sig","detail","case"} per non-conforming case, then a summary
//   VERIF_SEED     seed of the body bytes

import (
	"bufio"
	"bytes"
	"encoding/json"
	"fmt"
	"io"
	"os"
	"runtime"
	"runtime/debug"
	"strconv"
	"strings"
	"sync"
	"sync/atomic"
	"testing"

	"git.torproject.org/pluggable-transports/snowflake.git/v2/common/encapsulation"
)

type vEncOp struct {
	K   string `json:"k"`
	Len int    `json:"len"`
	W   int    `json:"w"`
}
type vEncChunk struct {
	Start int `json:"start"`
	Len   int `json:"len"`
}
type vEncRf struct {
	Buf int   `json:"buf"`
	N   []int `json:"n"`
}
type vEncCase struct {
	Ops    []vEncOp `json:"ops"`
	Cut    int      `json:"cut"`
	Script []string `json:"script"`
	Expect struct {
		Chunks []vEncChunk `json:"chunks"`
		Term   string      `json:"term"`
	} `json:"expect"`
	Rf  []vEncRf `json:"rf"`
	Mix struct {
		Bufs []int `json:"bufs"`
		N    []int `json:"n"`
	} `json:"mix"`
	Srv  []vEncChunk `json:"srv"`
	Msgs struct {
		Chunk  []int `json:"chunk"`
		One    []int `json:"one"`
		Script []int `json:"script"`
	} `json:"msgs"`
}
type vEncWop struct {
	K   string `json:"k"`
	Len int    `json:"len"`
}
type vEncWCase struct {
	Wops   []vEncWop `json:"wops"`
	Script []string  `json:"script"`
	Expect struct {
		Size    int   `json:"size"`
		Chunks  []int `json:"chunks"`
		Toolong []int `json:"toolong"`
	} `json:"expect"`
}
type vEncResult struct {
	Idx    int         `json:"idx"`
	Sig    string      `json:"sig"`
	Detail string      `json:"detail"`
	Case   interface{} `json:"case,omitempty"`
}

// vEncLoad reads cases from raw TLC output (lines that are one quoted JSON
// string holding an object) or from ndjson.
func vEncLoad(paths string) ([][]byte, error) {
	var out [][]byte
	for _, path := range strings.Split(paths, ",") {
		if path == "" {
			continue
		}
		f, err := os.Open(path)
		if err != nil {
			return nil, err
		}
		sc := bufio.NewScanner(f)
		sc.Buffer(make([]byte, 1<<20), 1<<28)
		for sc.Scan() {
			b := sc.Bytes()
			switch {
			case len(b) > 2 && b[0] == '"' && b[1] == '{':
				var s string
				if err := json.Unmarshal(b, &s); err != nil {
					f.Close()
					return nil, fmt.Errorf("%s: %v", path, err)
				}
				out = append(out, []byte(s))
			case len(b) > 1 && b[0] == '{':
				out = append(out, append([]byte(nil), b...))
			}
		}
		err = sc.Err()
		f.Close()
		if err != nil {
			return nil, err
		}
	}
	return out, nil
}

type vEncOut struct {
	mu sync.Mutex
	f  *os.File
	w  *bufio.Writer
}

func (o *vEncOut) put(v interface{}) {
	b, err := json.Marshal(v)
	if err != nil {
		b, _ = json.Marshal(map[string]string{"sig": "harness/marshal", "detail": err.Error()})
	}
	o.mu.Lock()
	o.w.Write(b)
	o.w.WriteByte('\n')
	o.mu.Unlock()
}

func vEncKeyByte(key uint64, pos uint64) byte {
	z := key + 0x9e3779b97f4a7c15*(pos+1)
	z = (z ^ (z >> 30)) * 0xbf58476d1ce4e5b9
	z = (z ^ (z >> 27)) * 0x94d049bb133111eb
	z = z ^ (z >> 31)
	return byte(z)
}

func vEncFill(p []byte, key uint64, off uint64) {
	for i := range p {
		p[i] = vEncKeyByte(key, off+uint64(i))
	}
}

func vEncStream(ops []vEncOp, key uint64) []byte {
	var b []byte
	for _, o := range ops {
		switch o.K {
		case "X":
			b = append(b, 0xc0|vEncKeyByte(key, uint64(len(b)))&0x3f, 0x80|vEncKeyByte(key, uint64(len(b)+1))&0x7f, 0x80|vEncKeyByte(key, uint64(len(b)+2))&0x7f)
		default:
			var d byte
			if o.K == "D" {
				d = 0x80
			}
			n := o.Len
			switch o.W {
			case 1:
				b = append(b, d|byte(n&0x3f))
			case 2:
				b = append(b, d|0x40|byte((n>>7)&0x3f), byte(n&0x7f))
			case 3:
				b = append(b, d|0x40|byte((n>>14)&0x3f), 0x80|byte((n>>7)&0x7f), byte(n&0x7f))
			}
		}
		start := len(b)
		b = append(b, make([]byte, o.Len)...)
		vEncFill(b[start:], key, uint64(start))
	}
	return b
}

// vEncScripted is an io.Reader whose every Read follows the next directive of
// a cyclic script (the reader of harness/cmd/encapdrv).
type vEncScripted struct {
	data   []byte
	pos    int
	script []string
	si     int
	reads  int
}

func (s *vEncScripted) Read(p []byte) (int, error) {
	s.reads++
	if s.reads > 50_000_000 {
		panic("reader called too often (non-termination)")
	}
	if len(p) == 0 {
		return 0, nil
	}
	avail := len(s.data) - s.pos
	if avail == 0 {
		return 0, io.EOF
	}
	d := s.script[s.si%len(s.script)]
	s.si++
	want := len(p)
	if want > avail {
		want = avail
	}
	var n int
	var err error
	switch d {
	case "Zero":
		return 0, nil
	case "One":
		n = 1
	case "Part":
		n = want / 2
		if n < 1 {
			n = 1
		}
	case "All":
		n = want
	case "AllEOF":
		n = want
		if s.pos+n == len(s.data) {
			err = io.EOF
		}
	default:
		panic("unknown directive " + d)
	}
	copy(p, s.data[s.pos:s.pos+n])
	s.pos += n
	return n, err
}

// vEncConn is the io.ReadWriteCloser under the encapsulationPacketConn.
type vEncConn struct {
	r      io.Reader
	mu     sync.Mutex
	w      bytes.Buffer
	closed bool
}

func (c *vEncConn) Read(p []byte) (int, error) { return c.r.Read(p) }
func (c *vEncConn) Write(p []byte) (int, error) {
	c.mu.Lock()
	defer c.mu.Unlock()
	return c.w.Write(p)
}
func (c *vEncConn) Close() error { c.closed = true; return nil }

func vEncTerm(err error) string {
	switch err {
	case io.EOF:
		return "EOF"
	case io.ErrUnexpectedEOF:
		return "UEOF"
	case encapsulation.ErrTooLong:
		return "TooLong"
	}
	return "other:" + err.Error()
}

func vEncDirClass(script []string) string {
	seen := map[string]bool{}
	for _, d := range script {
		seen[d] = true
	}
	var out []string
	for _, d := range []string{"Zero", "One", "Part", "AllEOF"} {
		if seen[d] {
			out = append(out, d)
		}
	}
	if len(out) == 0 {
		return "All"
	}
	return strings.Join(out, "+")
}

// vEncBufs holds one reusable buffer per worker; it is kept at 0xA5 outside
// the part handed back by ReadFrom.
type vEncBufs struct{ b []byte }

func (v *vEncBufs) get(n int) []byte {
	if len(v.b) < n {
		v.b = make([]byte, n)
		for i := range v.b {
			v.b[i] = 0xa5
		}
	}
	return v.b[:n]
}

// vEncReadRun calls ReadFrom again and again with buffers bufOf(k) on a fresh
// encapsulationPacketConn over `r` and compares with what TLC printed.
// Returns "" or a description; cls gets the class of the mismatch.
func vEncReadRun(c *vEncCase, stream []byte, r io.Reader, bufOf func(k int) int, wantN []int, bufs *vEncBufs) (cls, detail string, truncated bool) {
	conn := &vEncConn{r: r}
	if cl, ok := r.(io.Closer); ok {
		defer cl.Close()
	}
	pc := newEncapsulationPacketConn(dummyAddr{}, dummyAddr{}, conn)
	term := ""
	k := 0
	firstBad := ""
	for {
		b := bufOf(k)
		p := bufs.get(b)
		n, _, err := pc.ReadFrom(p)
		if err != nil {
			if n != 0 {
				return "n-with-error", fmt.Sprintf("call %d returned n=%d together with error %v", k, n, err), truncated
			}
			term = vEncTerm(err)
			break
		}
		if n < 0 || n > len(p) {
			return "n-out-of-range", fmt.Sprintf("call %d with a %d-byte buffer returned n=%d", k, b, n), truncated
		}
		if firstBad == "" {
			switch {
			case k >= len(wantN):
				// reported below as "more"
			case n != wantN[k]:
				firstBad = fmt.Sprintf("call %d (buffer %d): n=%d, contract says %d (chunk of %d bytes)", k, b, n, wantN[k], c.Expect.Chunks[k].Len)
			case !bytes.Equal(p[:n], stream[c.Expect.Chunks[k].Start:c.Expect.Chunks[k].Start+n]):
				firstBad = fmt.Sprintf("call %d (buffer %d): the %d bytes delivered are not the first bytes of data chunk %d", k, b, n, k)
			}
			if k < len(wantN) && wantN[k] < c.Expect.Chunks[k].Len {
				truncated = true
			}
		}
		for i := 0; i < n; i++ {
			p[i] = 0xa5
		}
		k++
		if k > len(c.Ops)+1 {
			term = "too-many-chunks"
			break
		}
	}
	switch {
	case k < len(wantN):
		return "fewer", fmt.Sprintf("%d packets delivered then %s, contract says %d packets then %s", k, term, len(wantN), c.Expect.Term), truncated
	case k > len(wantN):
		return "more", fmt.Sprintf("%d packets delivered then %s, contract says %d packets then %s", k, term, len(wantN), c.Expect.Term), truncated
	case firstBad != "":
		return "differ", firstBad, truncated
	case term != c.Expect.Term:
		return "term=" + term, fmt.Sprintf("terminal condition %s, contract says %s", term, c.Expect.Term), truncated
	}
	return "", "", truncated
}

// vEncPipeReader feeds the messages through the receive pipe of a real
// WebRTCPeer exactly as its OnMessage callback does (one Write per message).
func vEncPipeReader(data []byte, msgs []int) io.Reader {
	peer := &WebRTCPeer{}
	peer.recvPipe, peer.writePipe = io.Pipe()
	go func() {
		off := 0
		for _, m := range msgs {
			if _, err := peer.writePipe.Write(data[off : off+m]); err != nil {
				return
			}
			off += m
		}
		peer.writePipe.Close()
	}()
	return &vEncPeerReader{peer}
}

type vEncPeerReader struct{ peer *WebRTCPeer }

func (r *vEncPeerReader) Read(p []byte) (int, error) { return r.peer.Read(p) }
func (r *vEncPeerReader) Close() error               { return r.peer.recvPipe.Close() } // releases the feeder

type vEncStats struct {
	cases, readCases, evals, nontrivial, truncRuns int64
}

func vEncDoRead(raw []byte, idx int, key uint64, out *vEncOut, st *vEncStats, bufs *vEncBufs) {
	var c vEncCase
	if err := json.Unmarshal(raw, &c); err != nil {
		out.put(vEncResult{Idx: idx, Sig: "harness/bad-case", Detail: err.Error()})
		return
	}
	stream := vEncStream(c.Ops, key+uint64(idx))
	if c.Cut > len(stream) {
		out.put(vEncResult{Idx: idx, Sig: "harness/cut-beyond-stream", Detail: "cut beyond stream"})
		return
	}
	data := stream[:c.Cut]
	nt := c.Cut < len(stream) || vEncDirClass(c.Script) != "All"
	report := func(reader, bufclass, cls, detail string, truncated bool) {
		tr := "no"
		if truncated {
			tr = "yes"
		}
		out.put(vEncResult{Idx: idx, Sig: fmt.Sprintf("client/ReadFrom/reader=%s/buf=%s/expect=%s/got=%s/truncated-before=%s", reader, bufclass, c.Expect.Term, cls, tr), Detail: detail, Case: &c})
	}
	for _, e := range c.Rf {
		if len(e.N) != len(c.Expect.Chunks) {
			out.put(vEncResult{Idx: idx, Sig: "harness/bad-case", Detail: "rf.n and expect.chunks differ in length"})
			return
		}
		b := e.Buf
		cls, detail, tr := vEncReadRun(&c, stream, &vEncScripted{data: data, script: c.Script}, func(int) int { return b }, e.N, bufs)
		atomic.AddInt64(&st.evals, 1)
		if tr {
			nt = true
			atomic.AddInt64(&st.truncRuns, 1)
		}
		if cls != "" {
			report(vEncDirClass(c.Script), strconv.Itoa(b), cls, detail, tr)
		}
		if b == 1500 {
			// the same through the receive pipe of a WebRTCPeer, one Write per message
			cls, detail, tr = vEncReadRun(&c, stream, vEncPipeReader(data, c.Msgs.Script), func(int) int { return b }, e.N, bufs)
			atomic.AddInt64(&st.evals, 1)
			if cls != "" {
				report("pipe", strconv.Itoa(b), cls, detail, tr)
			}
		}
	}
	if len(c.Mix.Bufs) > 0 {
		mb := c.Mix.Bufs
		bufOf := func(k int) int { return mb[k%len(mb)] }
		cls, detail, tr := vEncReadRun(&c, stream, &vEncScripted{data: data, script: c.Script}, bufOf, c.Mix.N, bufs)
		atomic.AddInt64(&st.evals, 1)
		if tr {
			nt = true
			atomic.AddInt64(&st.truncRuns, 1)
		}
		if cls != "" {
			report(vEncDirClass(c.Script), "mixed", cls, detail, tr)
		}
		cls, detail, tr = vEncReadRun(&c, stream, vEncPipeReader(data, c.Msgs.Chunk), bufOf, c.Mix.N, bufs)
		atomic.AddInt64(&st.evals, 1)
		if cls != "" {
			report("pipe", "mixed", cls, detail, tr)
		}
	}
	atomic.AddInt64(&st.cases, 1)
	atomic.AddInt64(&st.readCases, 1)
	if nt {
		atomic.AddInt64(&st.nontrivial, 1)
	}
}

// vEncDoWrite: WriteTo of every packet, then the stream is decoded with the
// real ReadData through the case's reader script.  While WriteTo runs, a
// second goroutine reads a read case from the same connection (the in-tree
// use: one reader and one writer goroutine per connection).
func vEncDoWrite(raw []byte, idx int, key uint64, out *vEncOut, st *vEncStats, duplex []byte, bufs *vEncBufs) {
	var c vEncWCase
	if err := json.Unmarshal(raw, &c); err != nil {
		out.put(vEncResult{Idx: idx, Sig: "harness/bad-case", Detail: err.Error()})
		return
	}
	report := func(sig, detail string) {
		out.put(vEncResult{Idx: idx, Sig: "client/WriteTo/" + sig, Detail: detail, Case: &c})
	}
	tooLong := map[int]bool{}
	for _, i := range c.Expect.Toolong {
		tooLong[i] = true
	}
	conn := &vEncConn{r: bytes.NewReader(nil)}
	var rc vEncCase
	var rstream []byte
	if duplex != nil && json.Unmarshal(duplex, &rc) == nil && len(rc.Rf) > 0 {
		rstream = vEncStream(rc.Ops, key+uint64(idx)+77)
		conn.r = &vEncScripted{data: rstream[:rc.Cut], script: rc.Script}
	}
	pc := newEncapsulationPacketConn(dummyAddr{}, dummyAddr{}, conn)
	var wg sync.WaitGroup
	var rcls, rdetail string
	if rstream != nil {
		wg.Add(1)
		go func() {
			defer wg.Done()
			defer func() {
				if v := recover(); v != nil {
					rcls, rdetail = "panic", fmt.Sprint(v)
				}
			}()
			// the reader side works on the same packet conn while WriteTo runs
			term, k := "", 0
			p := make([]byte, 1500)
			var e *vEncRf
			for i := range rc.Rf {
				if rc.Rf[i].Buf == 1500 {
					e = &rc.Rf[i]
				}
			}
			if e == nil {
				return
			}
			for {
				n, _, err := pc.ReadFrom(p)
				if err != nil {
					term = vEncTerm(err)
					break
				}
				if k < len(e.N) && (n != e.N[k] || !bytes.Equal(p[:n], rstream[rc.Expect.Chunks[k].Start:rc.Expect.Chunks[k].Start+n])) {
					rcls, rdetail = "differ", fmt.Sprintf("while WriteTo was running: call %d delivered %d bytes, contract says the first %d bytes of data chunk %d", k, n, e.N[k], k)
					return
				}
				k++
				if k > len(rc.Ops)+1 {
					break
				}
			}
			if k != len(e.N) || term != rc.Expect.Term {
				rcls, rdetail = "count-or-term", fmt.Sprintf("while WriteTo was running: %d packets then %s, contract says %d then %s", k, term, len(e.N), rc.Expect.Term)
			}
		}()
	}
	var datas [][]byte
	for i, o := range c.Wops {
		d := make([]byte, o.Len)
		vEncFill(d, key+uint64(idx), uint64(i)<<32)
		conn.mu.Lock()
		before := conn.w.Len()
		conn.mu.Unlock()
		n, err := pc.WriteTo(d, dummyAddr{})
		conn.mu.Lock()
		after := conn.w.Len()
		conn.mu.Unlock()
		if tooLong[i+1] {
			if err != encapsulation.ErrTooLong || n != 0 || after != before {
				report("toolong-not-rejected", fmt.Sprintf("WriteTo(len %d): n=%d err=%v, %d bytes written", o.Len, n, err, after-before))
				wg.Wait()
				return
			}
			continue
		}
		if err != nil || n != len(d) {
			report("result", fmt.Sprintf("WriteTo(len %d): n=%d err=%v", o.Len, n, err))
			wg.Wait()
			return
		}
		keep := append([]byte(nil), d...)
		for j := range d {
			d[j] ^= 0xff // the caller may reuse its buffer
		}
		datas = append(datas, keep)
	}
	wg.Wait()
	atomic.AddInt64(&st.cases, 1)
	atomic.AddInt64(&st.evals, 1)
	atomic.AddInt64(&st.nontrivial, 1)
	if rcls != "" {
		out.put(vEncResult{Idx: idx, Sig: "client/duplex/ReadFrom/" + rcls, Detail: rdetail, Case: map[string]interface{}{"write": &c, "read": &rc}})
	}
	got := conn.w.Bytes()
	if len(got) != c.Expect.Size {
		report("total-size", fmt.Sprintf("stream has %d bytes, contract says %d", len(got), c.Expect.Size))
		return
	}
	r := &vEncScripted{data: got, script: c.Script}
	for i := 0; ; i++ {
		p, err := encapsulation.ReadData(r)
		if err != nil {
			if err != io.EOF || i != len(datas) {
				report("roundtrip-term/reader="+vEncDirClass(c.Script), fmt.Sprintf("after %d of %d packets: %v", i, len(datas), err))
			}
			return
		}
		if i >= len(datas) || !bytes.Equal(p, datas[i]) {
			report("roundtrip-data/reader="+vEncDirClass(c.Script), fmt.Sprintf("chunk %d is not packet %d", i, i))
			return
		}
	}
}

func vEncParallel(n int, fn func(worker, i int), onPanic func(i int, v interface{}, stack string)) {
	workers := runtime.NumCPU()
	var wg sync.WaitGroup
	var next int64 = -1
	for k := 0; k < workers; k++ {
		wg.Add(1)
		go func(k int) {
			defer wg.Done()
			for {
				i := int(atomic.AddInt64(&next, 1))
				if i >= n {
					return
				}
				func() {
					defer func() {
						if v := recover(); v != nil {
							onPanic(i, v, string(debug.Stack()))
						}
					}()
					fn(k, i)
				}()
			}
		}(k)
	}
	wg.Wait()
}

func TestVerifC09ClientCallSite(t *testing.T) {
	inp, outp := os.Getenv("VERIF_ENC_IN"), os.Getenv("VERIF_ENC_OUT")
	if outp == "" {
		t.Skip("VERIF_ENC_OUT not set")
	}
	seed, _ := strconv.ParseUint(os.Getenv("VERIF_SEED"), 10, 64)
	key := seed * 0x1000003
	cases, err := vEncLoad(inp)
	if err != nil {
		t.Fatal(err)
	}
	wcases, err := vEncLoad(os.Getenv("VERIF_ENC_WIN"))
	if err != nil {
		t.Fatal(err)
	}
	f, err := os.Create(outp)
	if err != nil {
		t.Fatal(err)
	}
	out := &vEncOut{f: f, w: bufio.NewWriter(f)}
	var st vEncStats
	bufs := make([]vEncBufs, runtime.NumCPU())
	vEncParallel(len(cases), func(w, i int) {
		vEncDoRead(cases[i], i, key, out, &st, &bufs[w])
	}, func(i int, v interface{}, stack string) {
		var c interface{}
		json.Unmarshal(cases[i], &c)
		out.put(vEncResult{Idx: i, Sig: "client/ReadFrom/panic", Detail: fmt.Sprint(v) + "\n" + stack, Case: c})
	})
	vEncParallel(len(wcases), func(w, i int) {
		var dup []byte
		if len(cases) > 0 {
			dup = cases[(i*7919)%len(cases)]
		}
		vEncDoWrite(wcases[i], i, key, out, &st, dup, &bufs[w])
	}, func(i int, v interface{}, stack string) {
		var c interface{}
		json.Unmarshal(wcases[i], &c)
		out.put(vEncResult{Idx: i, Sig: "client/WriteTo/panic", Detail: fmt.Sprint(v) + "\n" + stack, Case: c})
	})
	out.put(map[string]interface{}{"summary": map[string]interface{}{"cases": st.cases, "read_cases": st.readCases, "evaluations": st.evals, "nontrivial": st.nontrivial, "truncating_runs": st.truncRuns}})
	out.w.Flush()
	f.Close()
}
