//go:build verif
// +build verif

package snowflake_client

// C15 harness, third part (injected with `go test -overlay`): concurrent
// closers of one *WebRTCPeer (spec/Peers/PeerClose.tla, property CloseOnce).
//
// A peer is closed by whoever notices first - Peers.End, the data channel's
// OnClose callback, checkForStaleness, the data path - each on its own
// goroutine, none of which recovers.  The driver makes those closers really
// simultaneous and reports, per part, what the terminal observation of the
// model speaks about: panics (recovered here, and only here), peers left
// open, and how many times the body of Close ran (its log line "WebRTC:
// Closing" is written right after cleanup, once per execution of the body).
//
//   barrier-close      k persistent goroutines spin on a round counter and call
//                      Close on the same fresh peer at the same instant
//   end-vs-self-close  Peers.End races the held peers closing on their own
//   staleness-vs-end   the peers' real checkForStaleness goroutines fire at the
//                      moment Peers.End runs
//   onclose-vs-end     real pion peers: the remote sides go away while Peers.End
//                      runs, so pion's OnClose callbacks call Close concurrently
//
//   VERIF_C15_CLOSE_OUT   output, one JSON object per part
//   VERIF_C15_CLOSE_ROUNDS  rounds of the 2-closer barrier part (default 3000; the
//                      k-closer part runs half, end-vs-self-close 10000/3000 x as
//                      many; a -race build, VERIF_RACE=1, runs a fifth).  Measured
//                      on the check-then-act variant: 21 % of the 2-closer rounds
//                      and 63 % of the 4-closer rounds panic, so a few hundred
//                      rounds decide; under sync.Once every round parks the losers
//                      on Once's mutex, which is what costs time on a loaded host.

import (
	"encoding/json"
	"fmt"
	"io"
	"log"
	"os"
	"runtime"
	"strconv"
	"strings"
	"sync"
	"sync/atomic"
	"testing"
	"time"

	"git.torproject.org/pluggable-transports/snowflake.git/v2/common/messages"
	"github.com/pion/webrtc/v3"
)

type vc15ClosePart struct {
	Part       string `json:"part"`
	Rounds     int    `json:"rounds"`
	Closers    int    `json:"closers"`     // simultaneous closers per peer
	Peers      int    `json:"peers"`       // peers made
	Panics     int64  `json:"panics"`      // recovered panics of a closer
	FirstPanic string `json:"first_panic"` // who: text
	NotClosed  int    `json:"not_closed"`  // peers for which Closed() was false after all closers returned
	Closings   int64  `json:"closings"`    // executions of the body of Close (log line)
	PCNotClose int    `json:"pc_not_closed"`
	Note       string `json:"note,omitempty"`
	WallMs     int64  `json:"wall_ms"`
}

// vc15CloseCounter is the log sink: it counts the line the body of Close writes.
type vc15CloseCounter struct{ n int64 }

func (c *vc15CloseCounter) Write(b []byte) (int, error) {
	if strings.Contains(string(b), "WebRTC: Closing") {
		atomic.AddInt64(&c.n, 1)
	}
	return len(b), nil
}

type vc15PanicLog struct {
	n     int64
	first atomic.Value
}

func (p *vc15PanicLog) guard(who string) {
	if r := recover(); r != nil {
		if atomic.AddInt64(&p.n, 1) == 1 {
			p.first.Store(fmt.Sprintf("%s: %v", who, r))
		}
	}
}

func (p *vc15PanicLog) firstText() string {
	if v := p.first.Load(); v != nil {
		return v.(string)
	}
	return ""
}

func vc15FakePipePeer() *WebRTCPeer {
	p := &WebRTCPeer{closed: make(chan struct{}), eventsLogger: &vc15Events{}, bytesLogger: &bytesNullLogger{}}
	p.recvPipe, p.writePipe = io.Pipe()
	return p
}

// part 1: k goroutines, one peer per round, all calling Close at the same instant.
func vc15BarrierClose(rounds, k int, sink *vc15CloseCounter) (res vc15ClosePart) {
	res = vc15ClosePart{Part: "barrier-close", Rounds: rounds, Closers: k}
	t0 := time.Now()
	c0 := atomic.LoadInt64(&sink.n)
	var pl vc15PanicLog
	var cur atomic.Value // *WebRTCPeer
	var round, done int64
	var wg sync.WaitGroup
	for w := 0; w < k; w++ {
		wg.Add(1)
		go func() {
			defer wg.Done()
			for r := int64(1); r <= int64(rounds); r++ {
				for spin := 1; atomic.LoadInt64(&round) < r; spin++ {
					if spin&4095 == 0 {
						runtime.Gosched() // oversubscribed host: let the others run
					}
				}
				func() {
					defer pl.guard("Close")
					cur.Load().(*WebRTCPeer).Close()
				}()
				atomic.AddInt64(&done, 1)
			}
		}()
	}
	for r := 1; r <= rounds; r++ {
		p := vc15FakePipePeer()
		cur.Store(p)
		atomic.StoreInt64(&round, int64(r))
		for atomic.LoadInt64(&done) < int64(r*k) {
			runtime.Gosched()
		}
		if !p.Closed() {
			res.NotClosed++
		}
	}
	wg.Wait()
	res.Peers = rounds
	res.Panics, res.FirstPanic = atomic.LoadInt64(&pl.n), pl.firstText()
	res.Closings = atomic.LoadInt64(&sink.n) - c0
	res.WallMs = time.Since(t0).Milliseconds()
	return
}

type vc15PipeDialer struct {
	max   int
	stale time.Duration // > 0: start the peer's staleness checker, as connect does
}

func (d vc15PipeDialer) Catch() (*WebRTCPeer, error) {
	p := vc15FakePipePeer()
	if d.stale > 0 {
		go p.checkForStaleness(d.stale)
	}
	return p, nil
}
func (d vc15PipeDialer) GetMax() int { return d.max }

// part 2: Peers.End races the held peers closing on their own.
func vc15EndVsSelfClose(rounds, max int, sink *vc15CloseCounter) (res vc15ClosePart) {
	res = vc15ClosePart{Part: "end-vs-self-close", Rounds: rounds, Closers: 2}
	t0 := time.Now()
	c0 := atomic.LoadInt64(&sink.n)
	var pl vc15PanicLog
	for i := 0; i < rounds; i++ {
		peers, _ := NewPeers(vc15PipeDialer{max: max})
		var held []*WebRTCPeer
		for j := 0; j < max; j++ {
			p, err := peers.Collect()
			if err != nil {
				res.Note = "Collect: " + err.Error()
				return
			}
			held = append(held, p)
		}
		var start int32
		var wg sync.WaitGroup
		wg.Add(1)
		go func() {
			defer wg.Done()
			defer pl.guard("Peers.End")
			for atomic.LoadInt32(&start) == 0 {
			}
			peers.End()
		}()
		for _, p := range held {
			wg.Add(1)
			go func(p *WebRTCPeer) {
				defer wg.Done()
				defer pl.guard("peer closing on its own")
				for atomic.LoadInt32(&start) == 0 {
				}
				p.Close()
			}(p)
		}
		atomic.StoreInt32(&start, 1)
		wg.Wait()
		for _, p := range held {
			if !p.Closed() {
				res.NotClosed++
			}
		}
		res.Peers += max
	}
	res.Panics, res.FirstPanic = atomic.LoadInt64(&pl.n), pl.firstText()
	res.Closings = atomic.LoadInt64(&sink.n) - c0
	res.WallMs = time.Since(t0).Milliseconds()
	return
}

// part 3: the real staleness goroutines (started by Catch as connect starts
// them) fire about one second after the peers were made; Peers.End is called at
// that moment.  A panic on a staleness goroutine cannot be recovered: it ends
// the test binary, which the check reports.
func vc15StalenessVsEnd(n int, sink *vc15CloseCounter) (res vc15ClosePart) {
	res = vc15ClosePart{Part: "staleness-vs-end", Rounds: 1, Closers: 2, Peers: n}
	t0 := time.Now()
	c0 := atomic.LoadInt64(&sink.n)
	var pl vc15PanicLog
	peers, _ := NewPeers(vc15PipeDialer{max: n, stale: 300 * time.Millisecond})
	var held []*WebRTCPeer
	tm := time.Now()
	for j := 0; j < n; j++ {
		p, err := peers.Collect()
		if err != nil {
			res.Note = "Collect: " + err.Error()
			return
		}
		held = append(held, p)
	}
	// checkForStaleness looks again one second after its first look
	time.Sleep(time.Until(tm.Add(time.Second + time.Duration(n/2)*5*time.Microsecond)))
	func() {
		defer pl.guard("Peers.End")
		peers.End()
	}()
	time.Sleep(50 * time.Millisecond)
	for _, p := range held {
		if !p.Closed() {
			res.NotClosed++
		}
	}
	res.Panics, res.FirstPanic = atomic.LoadInt64(&pl.n), pl.firstText()
	res.Closings = atomic.LoadInt64(&sink.n) - c0
	res.WallMs = time.Since(t0).Milliseconds()
	return
}

type vc15AnsweringRendezvous struct {
	mu   sync.Mutex
	keep []*webrtc.PeerConnection
}

func (r *vc15AnsweringRendezvous) Exchange(enc []byte) ([]byte, error) {
	req, err := messages.DecodeClientPollRequest(enc)
	if err != nil {
		return nil, err
	}
	ans, err := vc15Answer(req.Offer, true, &r.keep, &r.mu)
	if err != nil {
		return nil, err
	}
	return (&messages.ClientPollResponse{Answer: ans}).EncodePollResponse()
}

// part 4: real peers; the remote sides go away while Peers.End runs.
func vc15OnCloseVsEnd(n int, sink *vc15CloseCounter) (res vc15ClosePart) {
	res = vc15ClosePart{Part: "onclose-vs-end", Rounds: 1, Closers: 2, Peers: n}
	t0 := time.Now()
	c0 := atomic.LoadInt64(&sink.n)
	var pl vc15PanicLog
	rv := &vc15AnsweringRendezvous{}
	broker := &BrokerChannel{Rendezvous: rv, keepLocalAddresses: true, natType: "unknown"}
	disp, _, _ := vc15Wire()
	peers, _ := NewPeers(NewWebRTCDialerWithEvents(broker, nil, n, disp))
	var held []*WebRTCPeer
	for j := 0; j < n; j++ {
		p, err := peers.Collect()
		if err != nil {
			res.Note = "Collect: " + err.Error()
			res.Peers = j
			break
		}
		held = append(held, p)
	}
	var start int32
	var wg sync.WaitGroup
	rv.mu.Lock()
	remotes := append([]*webrtc.PeerConnection{}, rv.keep...)
	rv.mu.Unlock()
	for _, pc := range remotes {
		wg.Add(1)
		go func(pc *webrtc.PeerConnection) {
			defer wg.Done()
			for atomic.LoadInt32(&start) == 0 {
			}
			pc.Close()
		}(pc)
	}
	wg.Add(1)
	go func() {
		defer wg.Done()
		defer pl.guard("Peers.End")
		for atomic.LoadInt32(&start) == 0 {
		}
		time.Sleep(time.Millisecond) // the remote close needs a moment to arrive
		peers.End()
	}()
	atomic.StoreInt32(&start, 1)
	wg.Wait()
	time.Sleep(300 * time.Millisecond) // late OnClose callbacks
	for _, p := range held {
		if !p.Closed() {
			res.NotClosed++
		}
		if p.pc != nil && p.pc.ConnectionState() != webrtc.PeerConnectionStateClosed {
			res.PCNotClose++
		}
	}
	res.Panics, res.FirstPanic = atomic.LoadInt64(&pl.n), pl.firstText()
	res.Closings = atomic.LoadInt64(&sink.n) - c0
	res.WallMs = time.Since(t0).Milliseconds()
	return
}

func TestVerifC15CloseRace(t *testing.T) {
	out := os.Getenv("VERIF_C15_CLOSE_OUT")
	if out == "" {
		t.Skip("VERIF_C15_CLOSE_OUT not set")
	}
	sink := &vc15CloseCounter{}
	log.SetOutput(sink)
	log.SetFlags(0)
	rounds := 3000
	if v, err := strconv.Atoi(os.Getenv("VERIF_C15_CLOSE_ROUNDS")); err == nil && v > 0 {
		rounds = v
	}
	if os.Getenv("VERIF_RACE") == "1" {
		rounds /= 5
	}
	k := 4
	if n := runtime.GOMAXPROCS(0); n < 6 {
		k = 2
	}
	f, err := os.Create(out)
	if err != nil {
		t.Fatal(err)
	}
	put := func(r vc15ClosePart) {
		b, _ := json.Marshal(r)
		f.Write(b)
		f.Write([]byte("\n"))
		f.Sync() // parts 3 and 4 may end the process
	}
	put(vc15BarrierClose(rounds, 2, sink))
	put(vc15BarrierClose(rounds/2, k, sink))
	put(vc15EndVsSelfClose(rounds*10/3, 4, sink))
	put(vc15StalenessVsEnd(64, sink))
	put(vc15OnCloseVsEnd(4, sink))
	f.Close()
	fmt.Printf("VERIF_C15_CLOSE rounds=%d gomaxprocs=%d\n", rounds, runtime.GOMAXPROCS(0))
}
