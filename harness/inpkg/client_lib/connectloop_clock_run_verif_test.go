//go:build verif && go1.25
// +build verif,go1.25

package snowflake_client

// Driver half of the fake-clock rig (see connectloop_clock_verif_test.go).

import (
	"bufio"
	"bytes"
	"encoding/json"
	"fmt"
	"io"
	"log"
	"os"
	"runtime"
	"sync/atomic"
	"testing"
	"testing/synctest"
	"time"
)

func (r *vclRig) indexOf(p *WebRTCPeer) int {
	r.mu.Lock()
	defer r.mu.Unlock()
	for i, x := range r.peers {
		if x == p {
			return i + 1
		}
	}
	return 99999 // a peer the rig never made
}

// target: peer k if it is live, otherwise the carrier, otherwise (kill only) the oldest live peer.
func (r *vclRig) target(k int, anyLive bool) (int, *WebRTCPeer) {
	if p := r.livePeer(k); p != nil {
		return k, p
	}
	r.mu.Lock()
	c, n := r.carrier, len(r.peers)
	r.mu.Unlock()
	if p := r.livePeer(c); p != nil {
		return c, p
	}
	if anyLive {
		for i := 1; i <= n; i++ {
			if p := r.livePeer(i); p != nil {
				return i, p
			}
		}
	}
	return 0, nil
}

func (r *vclRig) pop() bool {
	r.mu.Lock()
	busy, c := r.popping, r.carrier
	r.mu.Unlock()
	if busy || r.popNil || r.livePeer(c) != nil {
		return false // dialContext redials only when its carrier has failed, and gives up when Pop returns nil
	}
	r.mu.Lock()
	r.popping = true
	r.mu.Unlock()
	r.log(vclEvent{"ev": "pop.call"})
	go func() {
		p := r.p.Pop()
		k := 0
		if p != nil {
			k = r.indexOf(p)
		}
		r.mu.Lock()
		r.popping, r.carrier, r.popNil = false, k, p == nil
		r.mu.Unlock()
		r.log(vclEvent{"ev": "pop.served", "k": k})
	}()
	r.wait()
	r.mu.Lock()
	busy = r.popping
	r.mu.Unlock()
	if busy {
		r.log(vclEvent{"ev": "pop.blocked"})
	}
	return true
}

func (r *vclRig) kill(k int) bool {
	k, p := r.target(k, true)
	if p == nil {
		return false
	}
	r.mu.Lock()
	r.killed[k] = true
	r.mu.Unlock()
	r.log(vclEvent{"ev": "peer.died", "k": k, "cause": "kill"})
	p.Close() // what DataChannel.OnClose does
	r.wait()
	return true
}

func (r *vclRig) freeze(k int) bool {
	r.mu.Lock()
	c := r.carrier
	r.mu.Unlock()
	p := r.livePeer(c)
	if p == nil || r.frozen[c] {
		return false
	}
	p.mu.Lock()
	p.lastReceive = time.Now() // the last message arrives now
	p.mu.Unlock()
	r.mu.Lock()
	r.frozen[c] = true
	r.mu.Unlock()
	r.log(vclEvent{"ev": "peer.frozen", "k": c})
	go r.watch(c, p)
	r.wait()
	return true
}

// end calls Peers.End on a goroutine of its own.  sync=false: called from a goroutine that slept
// until this instant, racing whatever timer of the code fires at the same instant.
func (r *vclRig) end() bool { return r.endCore(true) }

func (r *vclRig) endCore(sync bool) bool {
	r.mu.Lock()
	if r.ended {
		r.mu.Unlock()
		return false
	}
	r.ended = true
	r.mu.Unlock()
	r.log(vclEvent{"ev": "end.called"})
	go func() {
		r.p.End()
		r.mu.Lock()
		open := 0
		for _, p := range r.peers {
			if !p.Closed() {
				open++
			}
		}
		r.mu.Unlock()
		r.log(vclEvent{"ev": "end.returned", "open": open})
	}()
	// A goroutine parked on collectLock is not durably blocked: the fake clock would stand still
	// while Catch sleeps.  The attempt in flight therefore ends at this very instant (a legal
	// environment: C15's real-time part covers End waiting for a slow attempt).
	r.mu.Lock()
	if r.abort != nil {
		close(r.abort)
		r.abort = nil
	}
	r.mu.Unlock()
	if sync {
		r.wait()
	}
	return true
}

func (r *vclRig) step(st vclStep) (bool, error) {
	switch st.Op {
	case "adv":
		if st.Ms > 0 {
			time.Sleep(time.Duration(st.Ms) * time.Millisecond)
		}
		r.wait()
		return true, nil
	case "pop":
		return r.pop(), nil
	case "kill":
		return r.kill(st.K), nil
	case "freeze":
		return r.freeze(st.K), nil
	case "tongue":
		r.mu.Lock()
		same := r.cls == st.Cls && r.dur == time.Duration(st.Dur)*time.Millisecond
		r.cls, r.dur = st.Cls, time.Duration(st.Dur)*time.Millisecond
		r.mu.Unlock()
		if same {
			return false, nil
		}
		r.log(vclEvent{"ev": "tongue", "cls": st.Cls, "dur": st.Dur})
		return true, nil
	case "end":
		return r.end(), nil
	case "advend": // End is called by a goroutine that wakes at the same fake instant as the driver (and the loop's timer, if due)
		d := time.Duration(st.Ms) * time.Millisecond
		go func() {
			time.Sleep(d)
			r.endCore(false)
		}()
		time.Sleep(d)
		r.wait()
		return true, nil
	}
	return false, fmt.Errorf("unknown op %q", st.Op)
}

var vclCurrent atomic.Value

func vclRunOne(t *testing.T, pl *vclPlan) (out map[string]interface{}) {
	out = map[string]interface{}{"id": pl.ID, "max": pl.Max}
	var r *vclRig
	defer func() {
		if x := recover(); x != nil {
			out["note"] = fmt.Sprint("panic: ", x)
		}
		if r != nil {
			r.mu.Lock()
			out["events"], out["skipped"] = r.events, r.skipped
			r.mu.Unlock()
		}
	}()
	synctest.Test(t, func(t *testing.T) {
		r = &vclRig{rec: true, frozen: map[int]bool{}, killed: map[int]bool{}, cls: "ok"}
		vclCurrent.Store(r)
		// as Transport.Dial: NewPeers(dialer); go connectLoop(snowflakes)
		p, err := NewPeers(&vclTongue{r: r, max: pl.Max})
		if err != nil {
			panic(err)
		}
		r.p = p
		r.t0 = time.Now()
		steps := pl.Steps
		if len(steps) > 0 && steps[0].Op == "tongue" { // the Tongue's script for the very first attempt
			r.step(steps[0])
			steps = steps[1:]
		}
		go func() {
			connectLoop(&vclCollector{r: r})
			r.log(vclEvent{"ev": "loop.exit"})
		}()
		r.wait()
		for _, st := range steps {
			ok, err := r.step(st)
			if err != nil {
				out["note"] = err.Error()
				break
			}
			if !ok {
				r.skipped++
			}
		}
		r.end()
		tail := pl.Tail
		if tail <= 0 {
			tail = 25000
		}
		time.Sleep(time.Duration(tail) * time.Millisecond)
		r.wait()
		r.finishLog()
		// not recorded: leave nothing behind that would keep the fake clock running
		r.mu.Lock()
		ps := append([]*WebRTCPeer(nil), r.peers...)
		r.mu.Unlock()
		for _, x := range ps {
			x.Close()
		}
		// a loop that is still waiting on its timer retires at its next Collect (vclCollector.Collect)
		time.Sleep(3 * time.Hour)
		r.wait()
	})
	return out
}

func TestVerifConnectLoopClock(t *testing.T) {
	in, outp := os.Getenv("VERIF_CL_IN"), os.Getenv("VERIF_CL_OUT")
	if in == "" || outp == "" {
		t.Skip("VERIF_CL_IN / VERIF_CL_OUT not set")
	}
	log.SetOutput(io.Discard)
	fi, err := os.Open(in)
	if err != nil {
		t.Fatal(err)
	}
	defer fi.Close()
	fo, err := os.Create(outp)
	if err != nil {
		t.Fatal(err)
	}
	w := bufio.NewWriter(fo)
	emit := func(o map[string]interface{}) {
		b, _ := json.Marshal(o)
		w.Write(b)
		w.WriteByte('\n')
		w.Flush()
	}
	var progress, current int64
	go func() { // real-time watchdog: 30 s without a finished plan = a goroutine hangs on a real lock
		last, since := int64(-1), time.Now()
		for {
			time.Sleep(500 * time.Millisecond)
			if p := atomic.LoadInt64(&progress); p != last {
				last, since = p, time.Now()
			} else if time.Since(since) > 30*time.Second {
				buf := make([]byte, 1<<20)
				n := runtime.Stack(buf, true)
				b, _ := json.Marshal(map[string]interface{}{"id": atomic.LoadInt64(&current), "hang": string(buf[:n])})
				fo.Write(append(b, '\n'))
				fo.Sync()
				os.Exit(3)
			}
		}
	}()
	sc := bufio.NewScanner(fi)
	sc.Buffer(make([]byte, 1<<20), 1<<26)
	n := 0
	for sc.Scan() {
		if len(bytes.TrimSpace(sc.Bytes())) == 0 {
			continue
		}
		pl := &vclPlan{}
		if err := json.Unmarshal(sc.Bytes(), pl); err != nil {
			t.Fatalf("plan %d: %v", n, err)
		}
		if pl.Max <= 0 {
			pl.Max = 1
		}
		atomic.StoreInt64(&current, int64(pl.ID))
		emit(vclRunOne(t, pl))
		atomic.AddInt64(&progress, 1)
		n++
	}
	emit(map[string]interface{}{"summary": map[string]interface{}{"plans": n}})
	fo.Close()
}
