package snowflake_client

// C08, "before it leaves the process", client side.  Pure executor: every
// concrete description built by harness/cmd/sdpdrv (from the cases TLC
// enumerated in spec/SdpStrip) is handed to the real BrokerChannel.Negotiate,
// with and without keep-local-addresses, over a scripted RendezvousMethod that
// captures what would be sent to the broker.  The captured text is judged by
// `sdpdrv judge` (same oracle as for util.StripLocalAddresses).
//
// Input  (env VERIF_C08_IN):  ndjson {"idx":n,"sdp":text}
// Output (env VERIF_C08_OUT): ndjson {"idx":n,"keeplocal":b,"sent":text | "notsent":true | "panic":text}

import (
	"bufio"
	"bytes"
	"encoding/json"
	"errors"
	"fmt"
	"io/ioutil"
	"log"
	"os"
	"runtime/debug"
	"sync"
	"testing"

	"git.torproject.org/pluggable-transports/snowflake.git/v2/common/messages"
	"git.torproject.org/pluggable-transports/snowflake.git/v2/common/util"
	"github.com/pion/webrtc/v3"
)

type verifC08Rendezvous struct {
	sent  []string
	calls int
}

func (r *verifC08Rendezvous) Exchange(enc []byte) ([]byte, error) {
	r.calls++
	req, err := messages.DecodeClientPollRequest(enc)
	if err != nil {
		return nil, fmt.Errorf("harness: undecodable poll request: %v", err)
	}
	d, err := util.DeserializeSessionDescription(req.Offer)
	if err != nil {
		return nil, fmt.Errorf("harness: undecodable offer: %v", err)
	}
	r.sent = append(r.sent, d.SDP)
	return nil, errors.New("scripted rendezvous: no answer")
}

type verifC08Capture struct {
	Idx       int    `json:"idx"`
	KeepLocal bool   `json:"keeplocal"`
	Sent      string `json:"sent"`
	NotSent   bool   `json:"notsent,omitempty"`
	Panic     string `json:"panic,omitempty"`
}

func TestVerifC08Negotiate(t *testing.T) {
	in, outp := os.Getenv("VERIF_C08_IN"), os.Getenv("VERIF_C08_OUT")
	if in == "" || outp == "" {
		t.Skip("VERIF_C08_IN / VERIF_C08_OUT not set")
	}
	log.SetOutput(ioutil.Discard)
	f, err := os.Open(in)
	if err != nil {
		t.Fatal(err)
	}
	type item struct {
		Idx int    `json:"idx"`
		SDP string `json:"sdp"`
	}
	var items []item
	sc := bufio.NewScanner(f)
	sc.Buffer(make([]byte, 1<<20), 1<<28)
	for sc.Scan() {
		if len(bytes.TrimSpace(sc.Bytes())) == 0 {
			continue
		}
		var it item
		if err := json.Unmarshal(sc.Bytes(), &it); err != nil {
			t.Fatalf("bad input line %d: %v", len(items), err)
		}
		items = append(items, it)
	}
	f.Close()
	if err := sc.Err(); err != nil {
		t.Fatal(err)
	}
	caps := make([]verifC08Capture, 2*len(items))
	var wg sync.WaitGroup
	sem := make(chan struct{}, 16)
	for i := range items {
		for k, keep := range []bool{false, true} {
			wg.Add(1)
			sem <- struct{}{}
			go func(slot int, it item, keep bool) {
				defer wg.Done()
				defer func() { <-sem }()
				c := &caps[slot]
				c.Idx, c.KeepLocal = it.Idx, keep
				defer func() {
					if v := recover(); v != nil {
						c.Panic = fmt.Sprintf("%v\n%s", v, debug.Stack())
					}
				}()
				// the constructor the client uses, so that the configuration flag is bound too
				bc, err := newBrokerChannelFromConfig(ClientConfig{BrokerURL: "http://broker.invalid/", KeepLocalAddresses: keep})
				if err != nil {
					panic(err)
				}
				rv := &verifC08Rendezvous{}
				bc.Rendezvous = rv
				offer := &webrtc.SessionDescription{Type: webrtc.SDPTypeOffer, SDP: it.SDP}
				bc.Negotiate(offer)
				if offer.SDP != it.SDP {
					c.Panic = "Negotiate modified the caller's SessionDescription"
					return
				}
				if rv.calls != 1 || len(rv.sent) != 1 {
					c.NotSent = true
					return
				}
				c.Sent = rv.sent[0]
			}(2*i+k, items[i], keep)
		}
	}
	wg.Wait()
	of, err := os.Create(outp)
	if err != nil {
		t.Fatal(err)
	}
	w := bufio.NewWriter(of)
	enc := json.NewEncoder(w)
	enc.SetEscapeHTML(false)
	for i := range caps {
		if err := enc.Encode(&caps[i]); err != nil {
			t.Fatal(err)
		}
	}
	if err := w.Flush(); err != nil {
		t.Fatal(err)
	}
	of.Close()
}
