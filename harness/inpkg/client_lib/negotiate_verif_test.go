package snowflake_client

// C08, "before it leaves the process", client side.  Pure executor: every
// concrete description built by harness/cmd/sdpdrv (from the cases TLC
// enumerated in spec/SdpStrip) is handed to the real BrokerChannel.Negotiate,
// with and without keep-local-addresses, over a scripted RendezvousMethod that
// captures what would be sent to the broker.  The rendezvous follows an
// ENVIRONMENT SCRIPT of the call-site machine of spec/SdpStrip (TLC's Scripts;
// script number = case index modulo their count): its first exchanges fail
// (transport-level kinds: an error; http500: a broker error response), then it
// returns an answer.  EVERY payload handed to the rendezvous method is
// captured (as the code is, Negotiate exchanges once and never retries) and
// all are judged by `sdpdrv judge` (same oracle as for util.StripLocalAddresses).
//
// Input  (env VERIF_C08_IN):      ndjson {"idx":n,"sdp":text}
//        (env VERIF_C08_SCRIPTS): ndjson {"faults":[kind,...]}
// Output (env VERIF_C08_OUT): ndjson {"idx":n,"keeplocal":b,"faults":[..],"sents":[text,...] | "panic":text}

import (
	"bufio"
	"bytes"
	"encoding/json"
	"errors"
	"fmt"
	"io/ioutil"
	"log"
	"os"
	"runtime/debug"
	"sync"
	"testing"

	"git.torproject.org/pluggable-transports/snowflake.git/v2/common/messages"
	"git.torproject.org/pluggable-transports/snowflake.git/v2/common/util"
	"github.com/pion/webrtc/v3"
)

type verifC08Rendezvous struct {
	faults    []string
	sent      []string
	calls     int
	undecoded int
}

func (r *verifC08Rendezvous) Exchange(enc []byte) ([]byte, error) {
	k := r.calls
	r.calls++
	if req, err := messages.DecodeClientPollRequest(enc); err != nil {
		r.undecoded++
	} else if d, err := util.DeserializeSessionDescription(req.Offer); err != nil {
		r.undecoded++
	} else {
		r.sent = append(r.sent, d.SDP)
	}
	if k < len(r.faults) {
		if r.faults[k] == "http500" {
			return (&messages.ClientPollResponse{Error: "scripted broker error"}).EncodePollResponse()
		}
		return nil, errors.New("scripted rendezvous fault: " + r.faults[k])
	}
	return (&messages.ClientPollResponse{Answer: `{"type":"answer","sdp":"v=0\r\n"}`}).EncodePollResponse()
}

type verifC08Capture struct {
	Idx       int      `json:"idx"`
	KeepLocal bool     `json:"keeplocal"`
	Faults    []string `json:"faults"`
	Sents     []string `json:"sents"`
	Undecoded int      `json:"undecoded,omitempty"`
	Panic     string   `json:"panic,omitempty"`
}

func TestVerifC08Negotiate(t *testing.T) {
	in, outp := os.Getenv("VERIF_C08_IN"), os.Getenv("VERIF_C08_OUT")
	if in == "" || outp == "" {
		t.Skip("VERIF_C08_IN / VERIF_C08_OUT not set")
	}
	log.SetOutput(ioutil.Discard)
	f, err := os.Open(in)
	if err != nil {
		t.Fatal(err)
	}
	type item struct {
		Idx int    `json:"idx"`
		SDP string `json:"sdp"`
	}
	var items []item
	sc := bufio.NewScanner(f)
	sc.Buffer(make([]byte, 1<<20), 1<<28)
	for sc.Scan() {
		if len(bytes.TrimSpace(sc.Bytes())) == 0 {
			continue
		}
		var it item
		if err := json.Unmarshal(sc.Bytes(), &it); err != nil {
			t.Fatalf("bad input line %d: %v", len(items), err)
		}
		items = append(items, it)
	}
	f.Close()
	if err := sc.Err(); err != nil {
		t.Fatal(err)
	}
	var scripts [][]string
	sf, err := os.Open(os.Getenv("VERIF_C08_SCRIPTS"))
	if err != nil {
		t.Fatal(err)
	}
	sc = bufio.NewScanner(sf)
	for sc.Scan() {
		if len(bytes.TrimSpace(sc.Bytes())) == 0 {
			continue
		}
		var x struct {
			Faults []string `json:"faults"`
		}
		if err := json.Unmarshal(sc.Bytes(), &x); err != nil {
			t.Fatalf("bad script line: %v", err)
		}
		scripts = append(scripts, x.Faults)
	}
	sf.Close()
	if len(scripts) == 0 {
		t.Fatal("no environment scripts")
	}
	caps := make([]verifC08Capture, 2*len(items))
	var wg sync.WaitGroup
	sem := make(chan struct{}, 16)
	for i := range items {
		for k, keep := range []bool{false, true} {
			wg.Add(1)
			sem <- struct{}{}
			go func(slot int, it item, keep bool) {
				defer wg.Done()
				defer func() { <-sem }()
				c := &caps[slot]
				c.Idx, c.KeepLocal, c.Faults = it.Idx, keep, scripts[(it.Idx+slot%2*7)%len(scripts)]
				defer func() {
					if v := recover(); v != nil {
						c.Panic = fmt.Sprintf("%v\n%s", v, debug.Stack())
					}
				}()
				// the constructor the client uses, so that the configuration flag is bound too
				bc, err := newBrokerChannelFromConfig(ClientConfig{BrokerURL: "http://broker.invalid/", KeepLocalAddresses: keep})
				if err != nil {
					panic(err)
				}
				rv := &verifC08Rendezvous{faults: c.Faults}
				bc.Rendezvous = rv
				offer := &webrtc.SessionDescription{Type: webrtc.SDPTypeOffer, SDP: it.SDP}
				bc.Negotiate(offer)
				if offer.SDP != it.SDP {
					c.Panic = "Negotiate modified the caller's SessionDescription"
					return
				}
				c.Sents, c.Undecoded = append([]string{}, rv.sent...), rv.undecoded
			}(2*i+k, items[i], keep)
		}
	}
	wg.Wait()
	of, err := os.Create(outp)
	if err != nil {
		t.Fatal(err)
	}
	w := bufio.NewWriter(of)
	enc := json.NewEncoder(w)
	enc.SetEscapeHTML(false)
	for i := range caps {
		if err := enc.Encode(&caps[i]); err != nil {
			t.Fatal(err)
		}
	}
	if err := w.Flush(); err != nil {
		t.Fatal(err)
	}
	of.Close()
}
