//go:build verif
// +build verif

package snowflake_client

// C15 replay harness for Peers (client/lib/peers.go), injected with
// `go test -overlay`.  It only EXECUTES command schedules (projections of TLC
// behaviours of spec/Peers GenSpec) against the real Peers and RECORDS what it
// sees after every command, once all operation goroutines have come to rest
// (goroutine-dump quiescence, DESIGN 2.3).  The recorded traces are judged by
// TLC against spec/Peers/Peers_Trace.tla; nothing of the specification is
// re-implemented here.
//
//   VERIF_C15_SCHED  input, one JSON object per line:
//                    {"id":n,"max":M,"steps":[{"op":"StartCollect"},{"op":"Catch","ok":true},
//                     {"op":"StartPop"},{"op":"StartEnd","c":1},{"op":"PeerClose","k":2}]}
//   VERIF_C15_OUT    output, one JSON object per line:
//                    {"id":n,"max":M,"events":[...],"skipped":k,"note":"..."}

import (
	"bufio"
	"bytes"
	"encoding/json"
	"errors"
	"fmt"
	"io"
	"log"
	"os"
	"regexp"
	"runtime"
	"strconv"
	"strings"
	"sync"
	"sync/atomic"
	"testing"
	"time"
)

type vc15Step struct {
	Op string `json:"op"`
	Ok bool   `json:"ok,omitempty"`
	C  int    `json:"c,omitempty"`
	K  int    `json:"k,omitempty"`
}

type vc15Sched struct {
	ID    int        `json:"id"`
	Max   int        `json:"max"`
	Steps []vc15Step `json:"steps"`
}

type vc15Trace struct {
	ID      int                      `json:"id"`
	Max     int                      `json:"max"`
	Events  []map[string]interface{} `json:"events"`
	Skipped int                      `json:"skipped"`
	Note    string                   `json:"note,omitempty"`
}

var vc15ErrScripted = errors.New("verif: scripted rendezvous failure")

type vc15CatchResult struct {
	p   *WebRTCPeer
	err error
}

// vc15Tongue is the scripted Tongue: Catch parks on a gate until the harness
// decides how the rendezvous attempt ends.
type vc15Tongue struct {
	max     int
	gate    chan vc15CatchResult
	catches int32
}

func (t *vc15Tongue) Catch() (*WebRTCPeer, error) {
	atomic.AddInt32(&t.catches, 1)
	r := <-t.gate
	return r.p, r.err
}

func (t *vc15Tongue) GetMax() int { return t.max }

// vc15Op is one operation (Collect, Pop, End) running on its own goroutine.
type vc15Op struct {
	goid int64
	done int32
	res  string // Collect: ok|melted|capacity|err|other:<text>; End: ""
	k    int    // Pop: index of the returned peer, 0 = nil
	pan  interface{}
}

func (o *vc15Op) finished() bool { return atomic.LoadInt32(&o.done) == 1 }

var vc15GoidRe = regexp.MustCompile(`^goroutine (\d+) \[([^\]]*)\]:`)

func vc15Goid() int64 {
	var buf [64]byte
	n := runtime.Stack(buf[:], false)
	m := vc15GoidRe.FindSubmatch(buf[:n])
	if m == nil {
		return -1
	}
	id, _ := strconv.ParseInt(string(m[1]), 10, 64)
	return id
}

func vc15Go(f func(o *vc15Op)) *vc15Op {
	o := &vc15Op{}
	ready := make(chan struct{})
	go func() {
		o.goid = vc15Goid()
		close(ready)
		defer func() {
			if r := recover(); r != nil {
				o.pan = r
			}
			atomic.StoreInt32(&o.done, 1)
		}()
		f(o)
	}()
	<-ready
	return o
}

type vc15Rig struct {
	p      *Peers
	tongue *vc15Tongue
	peers  []*WebRTCPeer
	index  map[*WebRTCPeer]int
	col    *vc15Op
	pop    *vc15Op
	ends   [3]*vc15Op // 1, 2
	stack  []byte
}

func vc15NewRig(max int) *vc15Rig {
	t := &vc15Tongue{max: max, gate: make(chan vc15CatchResult)}
	p, err := NewPeers(t)
	if err != nil {
		panic(err)
	}
	return &vc15Rig{p: p, tongue: t, index: map[*WebRTCPeer]int{}, stack: make([]byte, 1<<16)}
}

func (r *vc15Rig) pending() []*vc15Op {
	var out []*vc15Op
	for _, o := range []*vc15Op{r.col, r.pop, r.ends[1], r.ends[2]} {
		if o != nil && !o.finished() {
			out = append(out, o)
		}
	}
	return out
}

// where classifies a blocked goroutine from its dump: catch | send | lock | once | recv | "" (not at rest).
func vc15Where(state, body string) string {
	st := state
	if i := strings.IndexByte(st, ','); i >= 0 {
		st = st[:i]
	}
	switch {
	case st == "chan receive" && strings.Contains(body, "vc15Tongue).Catch"):
		return "catch"
	case (st == "chan send" || st == "select") && strings.Contains(body, "(*Peers).Collect"):
		return "send"
	case st == "chan receive" && strings.Contains(body, "(*Peers).Pop"):
		return "recv"
	case st == "sync.Mutex.Lock" || st == "semacquire":
		// whose mutex?  The frame that called (*Mutex).Lock tells: sync.Once's own
		// mutex (a later End caller waiting for the first) or collectLock.
		lines := strings.Split(body, "\n")
		for i, ln := range lines {
			if strings.HasPrefix(ln, "sync.(*Mutex).Lock(") {
				for _, nx := range lines[i+1:] {
					if strings.HasPrefix(nx, "\t") {
						continue
					}
					if strings.HasPrefix(nx, "sync.(*Once).") {
						return "once"
					}
					if strings.Contains(nx, "client/lib.(*Peers).") {
						return "lock"
					}
					// some other mutex (e.g. the standard logger's, shared by the
					// parallel rigs): a short critical section, not a resting place
					return ""
				}
			}
		}
		return ""
	case st == "chan receive" || st == "chan send" || st == "select" || st == "sync.Cond.Wait":
		return "blocked:" + st
	}
	return ""
}

// quiesce polls the dump of all goroutines until every pending operation is
// finished or parked, twice in a row with the same picture.
func (r *vc15Rig) quiesce() (map[*vc15Op]string, error) {
	deadline := time.Now().Add(10 * time.Second)
	var prev string
	for {
		pend := r.pending()
		if len(pend) == 0 {
			return map[*vc15Op]string{}, nil
		}
		var n int
		for {
			n = runtime.Stack(r.stack, true)
			if n < len(r.stack) {
				break
			}
			r.stack = make([]byte, 2*len(r.stack))
		}
		states := map[int64][2]string{}
		for _, blk := range bytes.Split(r.stack[:n], []byte("\n\n")) {
			m := vc15GoidRe.FindSubmatch(blk)
			if m == nil {
				continue
			}
			id, _ := strconv.ParseInt(string(m[1]), 10, 64)
			states[id] = [2]string{string(m[2]), string(blk)}
		}
		res := map[*vc15Op]string{}
		ok := true
		var pic strings.Builder
		for _, o := range pend {
			if o.finished() {
				ok = false // just finished: take another look
				break
			}
			s, found := states[o.goid]
			if !found {
				ok = false
				break
			}
			w := vc15Where(s[0], s[1])
			if w == "" {
				ok = false
				break
			}
			res[o] = w
			fmt.Fprintf(&pic, "%d:%s;", o.goid, w)
		}
		if ok {
			if pic.String() == prev {
				return res, nil
			}
			prev = pic.String()
		} else {
			prev = ""
		}
		if time.Now().After(deadline) {
			return nil, fmt.Errorf("no quiescence within 10s")
		}
		runtime.Gosched()
	}
}

func (r *vc15Rig) opObs(o *vc15Op, where map[*vc15Op]string, kind string) map[string]interface{} {
	m := map[string]interface{}{"st": "idle", "res": "none", "k": -1}
	if o == nil {
		return m
	}
	if o.finished() {
		if o.pan != nil {
			m["st"] = "panic"
			m["panic"] = fmt.Sprint(o.pan)
			return m
		}
		if kind == "end" {
			m["st"] = "done"
		}
		m["res"] = o.res
		m["k"] = o.k
		return m
	}
	m["st"] = where[o]
	return m
}

func (r *vc15Rig) observe(ev string, where map[*vc15Op]string) map[string]interface{} {
	active := []int{}
	for e := r.p.activePeers.Front(); e != nil; e = e.Next() {
		active = append(active, r.index[e.Value.(*WebRTCPeer)])
	}
	closed := []int{}
	for i, p := range r.peers {
		if p.Closed() {
			closed = append(closed, i+1)
		}
	}
	melted := false
	select {
	case <-r.p.Melted():
		melted = true
	default:
	}
	return map[string]interface{}{
		"ev": ev, "chanlen": len(r.p.snowflakeChan), "active": active, "closed": closed,
		"created": len(r.peers), "catches": int(atomic.LoadInt32(&r.tongue.catches)), "melted": melted,
		"col": r.opObs(r.col, where, "col"), "pop": r.opObs(r.pop, where, "pop"),
		"ends": []interface{}{r.opObs(r.ends[1], where, "end"), r.opObs(r.ends[2], where, "end")},
	}
}

func vc15ClassifyCollect(p *WebRTCPeer, err error) string {
	switch {
	case err == nil && p != nil:
		return "ok"
	case err == vc15ErrScripted:
		return "err"
	case err != nil && strings.Contains(err.Error(), "melted"):
		return "melted"
	case err != nil && strings.Contains(err.Error(), "At capacity"):
		return "capacity"
	case err != nil:
		return "other:" + err.Error()
	}
	return "other:nil,nil"
}

// apply executes one command; returns the event to record, or nil when the
// command is not applicable in the current state of the real code (skipped).
func (r *vc15Rig) apply(s vc15Step, where map[*vc15Op]string) map[string]interface{} {
	switch s.Op {
	case "StartCollect":
		if r.col != nil && !r.col.finished() {
			return nil
		}
		r.col = vc15Go(func(o *vc15Op) {
			p, err := r.p.Collect()
			o.k = r.index[p]
			o.res = vc15ClassifyCollect(p, err)
		})
		return map[string]interface{}{"ev": "StartCollect"}
	case "Catch":
		if r.col == nil || r.col.finished() || where[r.col] != "catch" {
			return nil
		}
		if s.Ok {
			k := len(r.peers) + 1
			// the repository's own tests build a peer exactly like this (lib_test.go FakeDialer)
			p := &WebRTCPeer{id: fmt.Sprintf("k%d", k), closed: make(chan struct{})}
			r.peers = append(r.peers, p)
			r.index[p] = k
			r.tongue.gate <- vc15CatchResult{p: p}
			return map[string]interface{}{"ev": "Catch", "ok": true, "k": k}
		}
		r.tongue.gate <- vc15CatchResult{err: vc15ErrScripted}
		return map[string]interface{}{"ev": "Catch", "ok": false, "k": 0}
	case "StartPop":
		if r.pop != nil && !r.pop.finished() {
			return nil
		}
		r.pop = vc15Go(func(o *vc15Op) {
			p := r.p.Pop()
			if p != nil {
				o.k = r.index[p]
				if o.k == 0 {
					o.k = 99 // a peer the harness never made
				}
			}
		})
		return map[string]interface{}{"ev": "StartPop"}
	case "StartEnd":
		if s.C < 1 || s.C > 2 || r.ends[s.C] != nil {
			return nil
		}
		r.ends[s.C] = vc15Go(func(o *vc15Op) { r.p.End() })
		return map[string]interface{}{"ev": "StartEnd", "c": s.C}
	case "PeerClose":
		if s.K < 1 || s.K > len(r.peers) || r.peers[s.K-1].Closed() {
			return nil
		}
		r.peers[s.K-1].Close()
		return map[string]interface{}{"ev": "PeerClose", "k": s.K}
	}
	return nil
}

func vc15RunSchedule(s vc15Sched) (tr vc15Trace) {
	tr = vc15Trace{ID: s.ID, Max: s.Max, Events: []map[string]interface{}{}}
	r := vc15NewRig(s.Max)
	where := map[*vc15Op]string{}
	step := func(st vc15Step, obsName string) bool {
		ev := r.apply(st, where)
		if ev == nil {
			tr.Skipped++
			return true
		}
		tr.Events = append(tr.Events, ev)
		w, err := r.quiesce()
		if err != nil {
			tr.Note = "quiescence: " + err.Error()
			return false
		}
		where = w
		if obsName != "" {
			tr.Events = append(tr.Events, r.observe(obsName, where))
		}
		return true
	}
	ok := true
	for _, st := range s.Steps {
		if !step(st, "obs") {
			ok = false
			break
		}
	}
	if ok {
		// drain: let the one rendezvous attempt in flight end (badly), nothing else,
		// then take the final observation: an End still pending here waits for
		// something other than that attempt.
		if r.col != nil && !r.col.finished() && where[r.col] == "catch" {
			ok = step(vc15Step{Op: "Catch", Ok: false}, "")
		}
		if ok {
			tr.Events = append(tr.Events, r.observe("final", where))
		}
	}
	r.cleanup()
	return tr
}

// cleanup (not recorded) tries to bring every goroutine of the rig to an end so
// that thousands of schedules can run in one process.
func (r *vc15Rig) cleanup() {
	for i := 0; i < 200 && len(r.pending()) > 0; i++ {
		select {
		case r.tongue.gate <- vc15CatchResult{err: vc15ErrScripted}:
		case <-r.p.snowflakeChan:
		default:
		}
		if i == 0 {
			go func() {
				defer func() { recover() }()
				r.p.End()
			}()
		}
		runtime.Gosched()
		if i > 20 {
			time.Sleep(50 * time.Microsecond)
		}
	}
}

func TestVerifC15Peers(t *testing.T) {
	in, out := os.Getenv("VERIF_C15_SCHED"), os.Getenv("VERIF_C15_OUT")
	if in == "" || out == "" {
		t.Skip("VERIF_C15_SCHED / VERIF_C15_OUT not set")
	}
	log.SetOutput(io.Discard)
	f, err := os.Open(in)
	if err != nil {
		t.Fatal(err)
	}
	defer f.Close()
	var scheds []vc15Sched
	sc := bufio.NewScanner(f)
	sc.Buffer(make([]byte, 1<<20), 1<<26)
	for sc.Scan() {
		if len(bytes.TrimSpace(sc.Bytes())) == 0 {
			continue
		}
		var s vc15Sched
		if err := json.Unmarshal(sc.Bytes(), &s); err != nil {
			t.Fatal(err)
		}
		scheds = append(scheds, s)
	}
	of, err := os.Create(out)
	if err != nil {
		t.Fatal(err)
	}
	w := bufio.NewWriter(of)
	var mu sync.Mutex
	workers := 4
	if v, err := strconv.Atoi(os.Getenv("VERIF_C15_WORKERS")); err == nil && v > 0 {
		workers = v
	}
	ch := make(chan vc15Sched)
	var wg sync.WaitGroup
	for i := 0; i < workers; i++ {
		wg.Add(1)
		go func() {
			defer wg.Done()
			for s := range ch {
				tr := vc15RunSchedule(s)
				b, _ := json.Marshal(tr)
				mu.Lock()
				w.Write(b)
				w.WriteByte('\n')
				mu.Unlock()
			}
		}()
	}
	for _, s := range scheds {
		ch <- s
	}
	close(ch)
	wg.Wait()
	w.Flush()
	of.Close()
	fmt.Printf("VERIF_C15_PEERS schedules=%d goroutines_left=%d\n", len(scheds), runtime.NumGoroutine())
}
