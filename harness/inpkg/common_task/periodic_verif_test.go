package task

// Conformance driver for spec/Periodic (lib/checks/c16_nat.py, periodic part).
//
// Runs the REAL task.Periodic inside testing/synctest bubbles (fake clock;
// build with go1.26.8, GODEBUG=asynctimerchan=0).  One tick of the model is one
// second of fake time.  The driver only executes a plan and records what the
// real code does; TLC (Periodic_Trace) is the judge.
//
// Plans (VERIF_PERIODIC_IN, one JSON object per line):
//   sequential  {"id", "interval", "steps": [{"op": "start"|"close"|"wts"|"tick"|"end"|"selfclose", "err", "g"}]}
//       every step is executed when all goroutines of the bubble are at rest
//       (synctest.Wait) and followed by an observation; Execute parks on a
//       gate, so that Close/Start/ticks land before, during or after a run
//       exactly as the TLC behaviour says;
//   herd        {"id", "interval", "herd": [{"ops": [...], "gap": ticks}], "runs": [{"dur", "err", "selfclose"}]}
//       the calls of a group are released at the same fake instant from
//       separate goroutines and race through the real mutex; Execute follows
//       the run script (sleep dur ticks, close its own task, fail).
// Epilogue of every plan: runs still parked are let go, the clock runs for
// 2*Interval+1 more ticks (a task that should be closed must stay quiet), then
// - not recorded - the task is closed for good so that the bubble can end.
//
// Output (VERIF_PERIODIC_OUT): one {"id", "events": [...]} per plan, or
// {"id", "note": ...} when the bubble deadlocked.  A real hang (a goroutine
// waiting for the mutex for ever) is caught by a real-time watchdog that
// writes {"id", "hang": <goroutine dump>} and exits with status 3.

import (
	"bufio"
	"bytes"
	"encoding/json"
	"fmt"
	"os"
	"runtime"
	"strconv"
	"sync"
	"sync/atomic"
	"testing"
	"testing/synctest"
	"time"
)

type vpStep struct {
	Op  string `json:"op"`
	Err bool   `json:"err"`
	G   int    `json:"g"`
}

type vpRun struct {
	Dur       int  `json:"dur"`
	Err       bool `json:"err"`
	SelfClose bool `json:"selfclose"`
}

type vpGroup struct {
	Ops []string `json:"ops"`
	Gap int      `json:"gap"`
}

type vpPlan struct {
	ID       int       `json:"id"`
	Interval int       `json:"interval"`
	Steps    []vpStep  `json:"steps"`
	Herd     []vpGroup `json:"herd"`
	Runs     []vpRun   `json:"runs"`
}

type vpEvent map[string]interface{}

type vpCmd struct {
	kind string // "end" | "selfclose"
	err  bool
	done chan struct{}
}

type vpGate struct {
	by  int
	cmd chan vpCmd
}

type vpRig struct {
	mu      sync.Mutex
	p       *Periodic
	t0      time.Time
	events  []vpEvent
	rec     bool
	stopped bool
	users   map[int64]int // goroutine id -> ordinal of the Start call it executes
	nOps    int
	gates   []*vpGate
	nRuns   int
	skipped int
	plan    *vpPlan
	wg      sync.WaitGroup
}

var vpProgress int64 // plans finished (watchdog)
var vpCurrent atomic.Value

func vpGID() int64 {
	var buf [64]byte
	n := runtime.Stack(buf[:], false)
	f := bytes.Fields(buf[:n])
	if len(f) < 2 {
		return -1
	}
	id, _ := strconv.ParseInt(string(f[1]), 10, 64)
	return id
}

func (r *vpRig) now() int {
	return int(time.Since(r.t0) / time.Second)
}

func (r *vpRig) log(e vpEvent) {
	r.mu.Lock()
	defer r.mu.Unlock()
	if !r.rec {
		return
	}
	e["now"] = r.now()
	r.events = append(r.events, e)
}

func (r *vpRig) errorf(format string, a ...interface{}) error { return fmt.Errorf(format, a...) }

func (r *vpRig) whoami() int {
	r.mu.Lock()
	defer r.mu.Unlock()
	return r.users[vpGID()]
}

// Execute of the task under test.
func (r *vpRig) execute() error {
	r.mu.Lock()
	stopped := r.stopped
	r.mu.Unlock()
	if stopped {
		return fmt.Errorf("harness: over")
	}
	by := r.whoami()
	if r.plan.Herd != nil {
		r.mu.Lock()
		k := r.nRuns
		r.nRuns++
		r.mu.Unlock()
		run := vpRun{}
		if k < len(r.plan.Runs) {
			run = r.plan.Runs[k]
		}
		r.log(vpEvent{"ev": "begin", "by": by})
		if run.SelfClose {
			r.log(vpEvent{"ev": "scall", "by": by})
			r.p.Close()
			r.log(vpEvent{"ev": "sret", "by": by})
		}
		if run.Dur > 0 {
			time.Sleep(time.Duration(run.Dur) * time.Second)
		}
		r.log(vpEvent{"ev": "end", "by": by, "err": run.Err})
		if run.Err {
			return fmt.Errorf("scripted error")
		}
		return nil
	}
	g := &vpGate{by: by, cmd: make(chan vpCmd)}
	r.mu.Lock()
	r.gates = append(r.gates, g)
	r.mu.Unlock()
	r.log(vpEvent{"ev": "begin", "by": by})
	for {
		c := <-g.cmd
		switch c.kind {
		case "selfclose":
			r.log(vpEvent{"ev": "scall", "by": by})
			r.p.Close()
			r.log(vpEvent{"ev": "sret", "by": by})
			close(c.done)
		case "end":
			r.mu.Lock()
			for i, x := range r.gates {
				if x == g {
					r.gates = append(r.gates[:i:i], r.gates[i+1:]...)
					break
				}
			}
			r.mu.Unlock()
			r.log(vpEvent{"ev": "end", "by": by, "err": c.err})
			close(c.done)
			if c.err {
				return fmt.Errorf("scripted error")
			}
			return nil
		}
	}
}

// call runs one user call in its own goroutine; `release` (may be nil) holds it back until closed.
func (r *vpRig) call(op string, release chan struct{}) {
	r.wg.Add(1)
	ready := make(chan struct{})
	go func() {
		defer r.wg.Done()
		close(ready)
		if release != nil {
			<-release
		}
		// the ordinal of a call is its position in the log
		r.mu.Lock()
		r.nOps++
		u := r.nOps
		r.users[vpGID()] = 0
		if op == "start" {
			r.users[vpGID()] = u
		}
		if r.rec {
			r.events = append(r.events, vpEvent{"ev": "call", "op": op, "u": u, "now": r.now()})
		}
		r.mu.Unlock()
		failed := false
		switch op {
		case "start":
			failed = r.p.Start() != nil
		case "close":
			failed = r.p.Close() != nil
		case "wts":
			r.p.WaitThenStart()
		}
		r.log(vpEvent{"ev": "ret", "op": op, "u": u, "err": failed})
	}()
	<-ready
}

// callAt: like call, but the goroutine itself sleeps until fake instant `at` (ticks) and then calls
func (r *vpRig) callAt(op string, at int) {
	r.wg.Add(1)
	go func() {
		defer r.wg.Done()
		time.Sleep(time.Duration(at) * time.Second)
		r.mu.Lock()
		r.nOps++
		u := r.nOps
		r.users[vpGID()] = 0
		if op == "start" {
			r.users[vpGID()] = u
		}
		if r.rec {
			r.events = append(r.events, vpEvent{"ev": "call", "op": op, "u": u, "now": r.now()})
		}
		r.mu.Unlock()
		failed := false
		switch op {
		case "start":
			failed = r.p.Start() != nil
		case "close":
			failed = r.p.Close() != nil
		case "wts":
			r.p.WaitThenStart()
		}
		r.log(vpEvent{"ev": "ret", "op": op, "u": u, "err": failed})
	}()
}

func (r *vpRig) obs() {
	synctest.Wait()
	r.log(vpEvent{"ev": "obs", "running": !r.p.hasClosed()})
}

func (r *vpRig) gate(i int) *vpGate {
	r.mu.Lock()
	defer r.mu.Unlock()
	if i < 0 || i >= len(r.gates) {
		return nil
	}
	return r.gates[i]
}

func (r *vpRig) runPlan() error {
	pl := r.plan
	if pl.Herd != nil {
		// every call sleeps, in its own goroutine, until the instant of its group: at that instant it
		// races the other calls of the group AND whatever timer of the task fires at the same instant
		at, end := 0, 0
		for _, grp := range pl.Herd {
			for _, op := range grp.Ops {
				r.callAt(op, at)
			}
			end = at
			at += grp.Gap
		}
		for k := 0; k <= end; k++ {
			r.obs()
			time.Sleep(time.Second)
		}
		r.obs()
	} else {
		for si, st := range pl.Steps {
			switch st.Op {
			case "start", "close", "wts":
				r.call(st.Op, nil)
			case "tick":
				time.Sleep(time.Second)
			case "end", "selfclose":
				g := r.gate(st.G)
				if g == nil {
					// the code resolved a same-instant race the other way than the TLC behaviour: the step
					// does not apply; what did happen is validated all the same
					r.skipped++
					_ = si
					continue
				}
				c := vpCmd{kind: st.Op, err: st.Err, done: make(chan struct{})}
				g.cmd <- c
				<-c.done
			default:
				return r.errorf("step %d: unknown op %q", si, st.Op)
			}
			r.obs()
		}
	}
	// epilogue: let parked runs go, watch the clock for 2*Interval+1 ticks
	for k := 0; k <= 2*pl.Interval+1; k++ {
		for {
			g := r.gate(0)
			if g == nil {
				break
			}
			c := vpCmd{kind: "end", done: make(chan struct{})}
			g.cmd <- c
			<-c.done
			r.obs()
		}
		if k <= 2*pl.Interval {
			time.Sleep(time.Second)
			r.obs()
		}
	}
	return nil
}

func vpRunOne(t *testing.T, pl *vpPlan) (out map[string]interface{}) {
	out = map[string]interface{}{"id": pl.ID}
	defer func() {
		if x := recover(); x != nil {
			out["note"] = fmt.Sprint("panic: ", x)
		}
	}()
	var r *vpRig
	synctest.Test(t, func(t *testing.T) {
		r = &vpRig{plan: pl, rec: true, users: map[int64]int{}, t0: time.Now()}
		vpCurrent.Store(r)
		r.p = &Periodic{Interval: time.Duration(pl.Interval) * time.Second, Execute: r.execute}
		err := r.runPlan()
		r.mu.Lock()
		r.rec = false
		r.stopped = true
		r.mu.Unlock()
		// not recorded: end everything so that the bubble can finish
		for {
			g := r.gate(0)
			if g == nil {
				break
			}
			c := vpCmd{kind: "end", err: true, done: make(chan struct{})}
			g.cmd <- c
			<-c.done
			synctest.Wait()
		}
		r.p.Close()
		time.Sleep(time.Duration(3*pl.Interval+2) * time.Second)
		synctest.Wait()
		for {
			g := r.gate(0)
			if g == nil {
				break
			}
			c := vpCmd{kind: "end", err: true, done: make(chan struct{})}
			g.cmd <- c
			<-c.done
			synctest.Wait()
		}
		r.p.Close()
		r.wg.Wait()
		if err != nil {
			out["note"] = err.Error()
		}
	})
	out["events"] = r.events
	out["skipped"] = r.skipped
	return out
}

func TestVerifPeriodic(t *testing.T) {
	in, outp := os.Getenv("VERIF_PERIODIC_IN"), os.Getenv("VERIF_PERIODIC_OUT")
	if in == "" || outp == "" {
		t.Skip("VERIF_PERIODIC_IN / VERIF_PERIODIC_OUT not set")
	}
	fi, err := os.Open(in)
	if err != nil {
		t.Fatal(err)
	}
	defer fi.Close()
	fo, err := os.Create(outp)
	if err != nil {
		t.Fatal(err)
	}
	w := bufio.NewWriter(fo)
	var wmu sync.Mutex
	emit := func(o map[string]interface{}) {
		b, _ := json.Marshal(o)
		wmu.Lock()
		w.Write(b)
		w.WriteByte('\n')
		w.Flush()
		wmu.Unlock()
	}
	var current int64 = -1
	// real-time watchdog (outside every bubble): a plan that makes no progress for 20 s hangs on a real lock
	go func() {
		last, since := int64(-1), time.Now()
		for {
			time.Sleep(500 * time.Millisecond)
			p := atomic.LoadInt64(&vpProgress)
			if p != last {
				last, since = p, time.Now()
				continue
			}
			if time.Since(since) > 20*time.Second {
				buf := make([]byte, 1<<20)
				n := runtime.Stack(buf, true)
				o := map[string]interface{}{"id": atomic.LoadInt64(&current), "hang": string(buf[:n])}
				if r, ok := vpCurrent.Load().(*vpRig); ok && r != nil {
					if r.mu.TryLock() {
						o["events"] = r.events
						r.mu.Unlock()
					}
				}
				emit(o)
				fo.Sync()
				os.Exit(3)
			}
		}
	}()
	sc := bufio.NewScanner(fi)
	sc.Buffer(make([]byte, 1<<20), 1<<24)
	n := 0
	for sc.Scan() {
		if len(bytes.TrimSpace(sc.Bytes())) == 0 {
			continue
		}
		pl := &vpPlan{}
		if err := json.Unmarshal(sc.Bytes(), pl); err != nil {
			t.Fatalf("plan %d: %v", n, err)
		}
		if pl.Interval <= 0 {
			pl.Interval = 2
		}
		atomic.StoreInt64(&current, int64(pl.ID))
		emit(vpRunOne(t, pl))
		atomic.AddInt64(&vpProgress, 1)
		n++
	}
	emit(map[string]interface{}{"summary": map[string]interface{}{"plans": n}})
	fo.Close()
}
