// C19, counter part: conformance of the real binCount / printMetrics /
// zeroMetrics / RoundedCounterVec with spec/Metrics.
//
//	broker.test -test.run '^TestVerifC19Counters$' <cases.ndjson> <out.ndjson> <seed>
//
// Input lines are printed by TLC ("law" and "roll" cases carry the expected
// published figures computed in TLA+) or are herd parameters made by
// lib/checks/c19_parts.py.  Law and roll cases are compared here (data
// equality with TLC's figures); a herd only RECORDS what readers of the real
// registry observed, together with the numbers of Incs returned before /
// invoked after each read, into a trace that TLC judges (Metrics_Trace).
//
// Counters are observed only through the exported prometheus API
// (Registry.Gather) and the metrics log, never through struct fields, so the
// file does not depend on how roundedCounter is implemented.
//
// This file is compiled together with the other *_verif_test.go files of this
// directory; every identifier here starts with vM.
package main

import (
	"bufio"
	"bytes"
	"encoding/json"
	"flag"
	"fmt"
	"log"
	"os"
	"runtime/debug"
	"strconv"
	"strings"
	"sync"
	"sync/atomic"
	"testing"

	"github.com/prometheus/client_golang/prometheus"
	dto "github.com/prometheus/client_model/go"
)

type vMCase struct {
	Kind string `json:"kind"`
	// law
	N      int64           `json:"n"`
	Q      int64           `json:"q"`
	R      int64           `json:"r"`
	PQ     int64           `json:"pq"`
	Expect json.RawMessage `json:"expect"`
	Inc    bool            `json:"inc"`
	// roll
	N1 int64 `json:"n1"`
	N2 int64 `json:"n2"`
	// herd
	ID      int    `json:"id"`
	Mode    string `json:"mode"` // "unlocked" (ipc.go matched poll) | "locked" (every other call site)
	G       int    `json:"G"`
	K       int    `json:"K"`
	Readers int    `json:"readers"`
	MaxRead int    `json:"maxreads"`
	Start   int    `json:"start"`
	Trace   string `json:"trace"`

	idx int
	raw json.RawMessage
}

type vMRollExpect struct {
	Log1    uint64 `json:"log1"`
	Prom1   uint64 `json:"prom1"`
	LogZero uint64 `json:"logzero"`
	Log2    uint64 `json:"log2"`
	Prom2   uint64 `json:"prom2"`
}

type vMOut struct {
	mu   sync.Mutex
	w    *bufio.Writer
	seen map[string]int // signature -> number of results; only the first of each is written
}

func (o *vMOut) put(v interface{}) {
	b, _ := json.Marshal(v)
	o.mu.Lock()
	o.w.Write(b)
	o.w.WriteByte('\n')
	o.mu.Unlock()
}

func (o *vMOut) report(c *vMCase, sig, detail string) {
	o.mu.Lock()
	if o.seen == nil {
		o.seen = map[string]int{}
	}
	o.seen[sig]++
	first := o.seen[sig] == 1
	o.mu.Unlock()
	if !first {
		return
	}
	var cc interface{}
	if c != nil {
		json.Unmarshal(c.raw, &cc)
		o.put(map[string]interface{}{"idx": c.idx, "sig": sig, "detail": detail, "case": cc})
	} else {
		o.put(map[string]interface{}{"idx": -1, "sig": sig, "detail": detail})
	}
}

// the true count of a law case, n = 8q + r
func (c *vMCase) count() uint64 { return uint64(c.Q)*8 + uint64(c.R) }

// the figure TLC says must be published for a law case, 8 * pq
func (c *vMCase) published() uint64 { return uint64(c.PQ) * 8 }

// vMClass names how a published figure is wrong (for the signature only; the
// verdict is the inequality with TLC's figure).
func vMClass(n, got, want uint64) string {
	switch {
	case got%8 != 0:
		return "non-multiple"
	case got < n:
		return "too-low"
	case got > want:
		return "too-high"
	}
	return "differs"
}

// the five rounded counter vectors of the real registry, with the second label name
type vMVec struct {
	name   string
	vec    *RoundedCounterVec
	second string
}

func vMVecs(pm *PromMetrics) []vMVec {
	return []vMVec{
		{"rounded_proxy_poll_total", pm.ProxyPollTotal, "status"},
		{"rounded_client_poll_total", pm.ClientPollTotal, "status"},
		{"rounded_proxy_poll_with_relay_url_extension_total", pm.ProxyPollWithRelayURLExtensionTotal, "type"},
		{"rounded_proxy_poll_without_relay_url_extension_total", pm.ProxyPollWithoutRelayURLExtensionTotal, "type"},
		{"rounded_proxy_poll_rejected_relay_url_extension_total", pm.ProxyPollRejectedForRelayURLExtensionTotal, "type"},
	}
}

// vMGather reads every rounded counter through the real registry:
// "name{nat=..,second=..}" -> published value.
func vMGather(pm *PromMetrics) (map[string]float64, error) {
	mfs, err := pm.registry.Gather()
	if err != nil {
		return nil, err
	}
	out := map[string]float64{}
	for _, mf := range mfs {
		name := strings.TrimPrefix(mf.GetName(), prometheusNamespace+"_")
		if !strings.HasPrefix(name, "rounded_") {
			continue
		}
		for _, m := range mf.GetMetric() {
			var nat, second string
			for _, lp := range m.GetLabel() {
				if lp.GetName() == "nat" {
					nat = lp.GetValue()
				} else {
					second = lp.GetValue()
				}
			}
			out[name+"{"+nat+","+second+"}"] = m.GetCounter().GetValue()
		}
	}
	return out, nil
}

var vMNats = []string{NATUnrestricted, NATRestricted, NATUnknown, ""}
var vMSeconds = []string{"idle", "matched", "denied", "standalone", "webext", "badge", "iptproxy", "mystery"}

// law, rounded counters: n Incs on a fresh counter of every vector, read back
// through Gather; a second label set of the same vector receives m Incs in
// between and must not disturb (nor be disturbed).
func vMLawCounters(c *vMCase, table map[uint64]uint64, seed uint64, out *vMOut) {
	n := c.count()
	pm := initPrometheus()
	m := (n*3 + seed) % 11
	wantB, haveB := table[m]
	for vi, v := range vMVecs(pm) {
		natA := vMNats[(int(n)+vi+int(seed))%len(vMNats)]
		secA := vMSeconds[(int(n)+2*vi+int(seed))%len(vMSeconds)]
		natB := vMNats[(int(n)+vi+int(seed)+1)%len(vMNats)]
		secB := secA
		a := v.vec.With(prometheus.Labels{"nat": natA, v.second: secA})
		b := v.vec.With(prometheus.Labels{"nat": natB, v.second: secB})
		for i := uint64(0); i < n || i < m; i++ {
			if i < n {
				a.Inc()
			}
			if i < m {
				b.Inc()
			}
		}
		got, err := vMGather(pm)
		if err != nil {
			out.report(c, "C19/law:rounded-counter/gather-error", err.Error())
			return
		}
		ga, ok := got[v.name+"{"+natA+","+secA+"}"]
		if !ok {
			out.report(c, "C19/law:rounded-counter/missing", fmt.Sprintf("%s{%s,%s} is not exported after %d Incs", v.name, natA, secA, n))
			continue
		}
		if ga != float64(c.published()) {
			out.report(c, "C19/law:rounded-counter/"+vMClass(n, uint64(ga), c.published()),
				fmt.Sprintf("%s{%s,%s}: %d sequential Incs publish %v, the law says %d", v.name, natA, secA, n, ga, c.published()))
		}
		if gb := got[v.name+"{"+natB+","+secB+"}"]; haveB && gb != float64(wantB) {
			out.report(c, "C19/law:rounded-counter/label-crosstalk",
				fmt.Sprintf("%s{%s,%s}: %d Incs (interleaved with %d Incs of another label set) publish %v, the law says %d", v.name, natB, secB, m, n, gb, wantB))
		}
	}
}

// law, rounded counters, incremental: one counter, checked after every Inc
// whose count TLC has judged.
func vMLawIncremental(table map[uint64]uint64, max uint64, out *vMOut) int {
	pm := initPrometheus()
	c := pm.ClientPollTotal.With(prometheus.Labels{"nat": NATUnknown, "status": "matched"})
	checks := 0
	for i := uint64(0); i <= max; i++ {
		if want, ok := table[i]; ok {
			got, err := vMGather(pm)
			if err != nil {
				out.report(nil, "C19/law:rounded-counter/gather-error", err.Error())
				return checks
			}
			checks++
			if g := got["rounded_client_poll_total{"+NATUnknown+",matched}"]; g != float64(want) {
				out.report(nil, "C19/law:rounded-counter/"+vMClass(i, uint64(g), want),
					fmt.Sprintf("after Inc number %d of one counter Gather shows %v, the law says %d", i, g, want))
				return checks
			}
		}
		c.Inc()
	}
	return checks
}

// the eight binned lines of the metrics log and the field each one publishes
type vMLine struct {
	name  string
	field func(m *Metrics) *uint
}

var vMLines = []vMLine{
	{"snowflake-idle-count", func(m *Metrics) *uint { return &m.proxyIdleCount }},
	{"snowflake-proxy-poll-with-relay-url-count", func(m *Metrics) *uint { return &m.proxyPollWithRelayURLExtension }},
	{"snowflake-proxy-poll-without-relay-url-count", func(m *Metrics) *uint { return &m.proxyPollWithoutRelayURLExtension }},
	{"snowflake-proxy-rejected-for-relay-url-count", func(m *Metrics) *uint { return &m.proxyPollRejectedWithRelayURLExtension }},
	{"client-denied-count", func(m *Metrics) *uint { return &m.clientDeniedCount }},
	{"client-restricted-denied-count", func(m *Metrics) *uint { return &m.clientRestrictedDeniedCount }},
	{"client-unrestricted-denied-count", func(m *Metrics) *uint { return &m.clientUnrestrictedDeniedCount }},
	{"client-snowflake-match-count", func(m *Metrics) *uint { return &m.clientProxyMatchCount }},
}

// vMPrint runs the real periodic printer into a buffer and returns "line name" -> value text.
func vMPrint(m *Metrics, buf *bytes.Buffer) map[string]string {
	buf.Reset()
	m.printMetrics()
	out := map[string]string{}
	for _, line := range strings.Split(buf.String(), "\n") {
		f := strings.Fields(line)
		if len(f) == 2 {
			out[f[0]] = f[1]
		}
	}
	return out
}

// law, metrics log: the eight counters are set to eight different judged
// counts (small ones by ++ under the lock, as ipc.go does), printed by the
// real printMetrics, and every line must show TLC's figure for its counter.
func vMLawLog(cases []*vMCase, round int, out *vMOut) int {
	var buf bytes.Buffer
	m, err := NewMetrics(log.New(&buf, "", 0))
	if err != nil {
		out.report(nil, "C19/law:metrics-log/new-metrics", err.Error())
		return 0
	}
	pick := make([]*vMCase, len(vMLines))
	for j := range vMLines {
		c := cases[(round+j*7)%len(cases)]
		pick[j] = c
		n := c.count()
		f := vMLines[j].field(m)
		if n <= 64 {
			for i := uint64(0); i < n; i++ {
				m.lock.Lock()
				*f++
				m.lock.Unlock()
			}
		} else {
			m.lock.Lock()
			*f = uint(n)
			m.lock.Unlock()
		}
	}
	got := vMPrint(m, &buf)
	for j, l := range vMLines {
		c := pick[j]
		want := strconv.FormatUint(c.published(), 10)
		g, ok := got[l.name]
		if !ok {
			out.report(c, "C19/law:metrics-log/missing-line", fmt.Sprintf("no line %q in the metrics log", l.name))
			continue
		}
		if g != want {
			gv, _ := strconv.ParseUint(g, 10, 64)
			out.report(c, "C19/law:metrics-log/"+vMClass(c.count(), gv, c.published()),
				fmt.Sprintf("line %s shows %s for a true count of %d, the law says %s", l.name, g, c.count(), want))
		}
	}
	return len(vMLines)
}

// roll: n1 events, printMetrics + zeroMetrics (what logMetrics does when the
// period ends), n2 events.  The log restarts from zero, Prometheus keeps counting.
func vMRoll(c *vMCase, out *vMOut) {
	var e vMRollExpect
	if err := json.Unmarshal(c.Expect, &e); err != nil {
		out.report(c, "C19/driver/bad-case", err.Error())
		return
	}
	var buf bytes.Buffer
	m, err := NewMetrics(log.New(&buf, "", 0))
	if err != nil {
		out.report(c, "C19/rollover/new-metrics", err.Error())
		return
	}
	vecs := vMVecs(m.promMetrics)
	ctr := make([]RoundedCounter, len(vecs))
	key := make([]string, len(vecs))
	for i, v := range vecs {
		ctr[i] = v.vec.With(prometheus.Labels{"nat": NATRestricted, v.second: vMSeconds[i]})
		key[i] = v.name + "{" + NATRestricted + "," + vMSeconds[i] + "}"
	}
	events := func(n int64) {
		for i := int64(0); i < n; i++ {
			m.lock.Lock()
			for _, l := range vMLines {
				*l.field(m)++
			}
			for _, x := range ctr {
				x.Inc()
			}
			m.lock.Unlock()
		}
	}
	checkLog := func(stage string, want uint64) {
		got := vMPrint(m, &buf)
		for _, l := range vMLines {
			if got[l.name] != strconv.FormatUint(want, 10) {
				out.report(c, "C19/rollover:metrics-log/"+stage, fmt.Sprintf("%s: line %s shows %q, expected %d (n1=%d n2=%d)", stage, l.name, got[l.name], want, c.N1, c.N2))
				return
			}
		}
	}
	checkProm := func(stage string, want uint64) {
		got, err := vMGather(m.promMetrics)
		if err != nil {
			out.report(c, "C19/rollover:rounded-counter/gather-error", err.Error())
			return
		}
		for _, k := range key {
			if got[k] != float64(want) {
				out.report(c, "C19/rollover:rounded-counter/"+stage, fmt.Sprintf("%s: %s shows %v, expected %d (n1=%d n2=%d)", stage, k, got[k], want, c.N1, c.N2))
				return
			}
		}
	}
	events(c.N1)
	checkLog("period1", e.Log1)
	checkProm("period1", e.Prom1)
	m.zeroMetrics()
	checkLog("after-zero", e.LogZero)
	checkProm("after-zero", e.Prom1)
	events(c.N2)
	checkLog("period2", e.Log2)
	checkProm("period2", e.Prom2)
}

// herd: G goroutines x K Incs of ONE real counter with concurrent readers
// (even readers scrape the whole registry with Gather, odd readers call the
// metric's exported Write, which is what a scrape does per metric).  started is incremented before Inc is invoked and completed after
// it returned, so for a read that loaded lo = completed before Gather and
// hi = started after it, the Incs the read may count are exactly lo..hi.
func vMHerd(c *vMCase, out *vMOut) {
	f, err := os.Create(c.Trace)
	if err != nil {
		out.report(c, "C19/driver/trace-file", err.Error())
		return
	}
	defer f.Close()
	tw := bufio.NewWriter(f)
	defer tw.Flush()
	pm := initPrometheus()
	var lock sync.Mutex // stands for Metrics.lock at the call sites that hold it
	status := "matched"
	if c.Mode == "locked" {
		status = "idle"
	}
	ctr := pm.ProxyPollTotal.With(prometheus.Labels{"nat": NATUnrestricted, "status": status})
	name := "rounded_proxy_poll_total{" + NATUnrestricted + "," + status + "}"
	for i := 0; i < c.Start; i++ {
		ctr.Inc()
	}
	var started, completed uint64 = uint64(c.Start), uint64(c.Start)
	var stop int32
	type read struct {
		lo, hi, prev uint64
		obs          float64
	}
	reads := make([][]read, c.Readers)
	gate := make(chan struct{})
	var wg, rg sync.WaitGroup
	for g := 0; g < c.G; g++ {
		wg.Add(1)
		go func() {
			defer wg.Done()
			<-gate
			for k := 0; k < c.K; k++ {
				atomic.AddUint64(&started, 1)
				if c.Mode == "locked" {
					lock.Lock()
					ctr.Inc()
					lock.Unlock()
				} else {
					ctr.Inc()
				}
				atomic.AddUint64(&completed, 1)
			}
		}()
	}
	for r := 0; r < c.Readers; r++ {
		rg.Add(1)
		go func(r int) {
			defer rg.Done()
			<-gate
			var prev uint64
			for len(reads[r]) < c.MaxRead && atomic.LoadInt32(&stop) == 0 {
				var obs float64
				var lo, hi uint64
				if r%2 == 0 {
					// a whole scrape of the registry (wide bracket: a Gather lasts for hundreds of Incs)
					lo = atomic.LoadUint64(&completed)
					got, err := vMGather(pm)
					hi = atomic.LoadUint64(&started)
					if err != nil {
						out.report(c, "C19/herd/gather-error", err.Error())
						return
					}
					obs = got[name]
				} else {
					// what a scrape does for this one metric: prometheus.Metric.Write (tight bracket)
					var m dto.Metric
					lo = atomic.LoadUint64(&completed)
					err := ctr.Write(&m)
					hi = atomic.LoadUint64(&started)
					if err != nil {
						out.report(c, "C19/herd/write-error", err.Error())
						return
					}
					obs = m.GetCounter().GetValue()
				}
				reads[r] = append(reads[r], read{lo, hi, prev, obs})
				if obs >= 0 {
					prev = uint64(obs)
				}
			}
		}(r)
	}
	close(gate)
	wg.Wait()
	atomic.StoreInt32(&stop, 1)
	rg.Wait()
	enc := json.NewEncoder(tw)
	for r := range reads {
		for _, x := range reads[r] {
			// a figure that is not a whole number cannot be a count at all
			if x.obs != float64(uint64(x.obs)) {
				out.report(c, "C19/counter:"+name+"/callers:Inc||Inc("+c.Mode+")/class:not-a-whole-number", fmt.Sprintf("Gather shows %v", x.obs))
				continue
			}
			enc.Encode(map[string]interface{}{"ev": "read", "herd": c.ID, "mode": c.Mode, "ctr": name, "reader": r,
				"lo": x.lo, "hi": x.hi, "obs": uint64(x.obs), "prev": x.prev})
		}
	}
	got, err := vMGather(pm)
	if err != nil {
		out.report(c, "C19/herd/gather-error", err.Error())
		return
	}
	enc.Encode(map[string]interface{}{"ev": "quiet", "herd": c.ID, "mode": c.Mode, "ctr": name, "reader": -1,
		"n": c.Start + c.G*c.K, "obs": uint64(got[name]), "lo": 0, "hi": 0, "prev": 0})
}

func TestVerifC19Counters(t *testing.T) {
	args := flag.Args()
	if len(args) < 3 {
		t.Skip("usage: -test.run TestVerifC19Counters <cases.ndjson> <out.ndjson> <seed>")
	}
	seed, _ := strconv.ParseUint(args[2], 10, 64)
	in, err := os.Open(args[0])
	if err != nil {
		t.Fatal(err)
	}
	defer in.Close()
	of, err := os.Create(args[1])
	if err != nil {
		t.Fatal(err)
	}
	defer of.Close()
	out := &vMOut{w: bufio.NewWriter(of)}
	defer out.w.Flush()

	var cases []*vMCase
	sc := bufio.NewScanner(in)
	sc.Buffer(make([]byte, 1<<20), 1<<26)
	for sc.Scan() {
		if len(bytes.TrimSpace(sc.Bytes())) == 0 {
			continue
		}
		c := &vMCase{idx: len(cases), raw: append([]byte(nil), sc.Bytes()...)}
		if err := json.Unmarshal(c.raw, c); err != nil {
			t.Fatalf("bad case %d: %v", len(cases), err)
		}
		cases = append(cases, c)
	}
	// n -> published figure, as judged by TLC
	table := map[uint64]uint64{}
	var laws []*vMCase
	var maxInc uint64
	for _, c := range cases {
		if c.Kind == "law" {
			table[c.count()] = c.published()
			laws = append(laws, c)
			if c.Inc && c.count() > maxInc {
				maxInc = c.count()
			}
		}
	}
	evaluations, nontrivial := 0, 0
	guard := func(c *vMCase, what string, fn func()) {
		defer func() {
			if v := recover(); v != nil {
				out.report(c, "C19/"+what+"/panic", fmt.Sprint(v)+"\n"+string(debug.Stack()))
			}
		}()
		fn()
	}
	for _, c := range cases {
		c := c
		switch c.Kind {
		case "law":
			n := c.count()
			guard(c, "law:binCount", func() {
				if got := uint64(binCount(uint(n))); got != c.published() {
					out.report(c, "C19/law:binCount/"+vMClass(n, got, c.published()), fmt.Sprintf("binCount(%d) = %d, the law says %d", n, got, c.published()))
				}
			})
			evaluations++
			if c.Inc {
				guard(c, "law:rounded-counter", func() { vMLawCounters(c, table, seed, out) })
				evaluations += 5
			}
			if n%8 != 0 {
				nontrivial++
			}
		case "roll":
			guard(c, "rollover", func() { vMRoll(c, out) })
			evaluations++
			if c.N1 > 0 && c.N2 > 0 {
				nontrivial++
			}
		case "herd":
			guard(c, "herd", func() { vMHerd(c, out) })
			evaluations++
			nontrivial++
		default:
			t.Fatalf("unknown case kind %q", c.Kind)
		}
	}
	if len(laws) > 0 {
		guard(nil, "law:rounded-counter", func() { evaluations += vMLawIncremental(table, maxInc, out) })
		for round := 0; round < len(laws); round++ {
			round := round
			guard(nil, "law:metrics-log", func() { evaluations += vMLawLog(laws, round, out) })
		}
	}
	out.put(map[string]interface{}{"summary": map[string]interface{}{"cases": evaluations, "nontrivial": nontrivial, "results_per_signature": out.seen}})
}
