//go:build verif
// +build verif

// Conformance rig for the broker (injected into package main of /repo/broker
// with `go test -overlay`; built with go1.26.8 for testing/synctest).
//
// It executes scenarios - TLC behaviours of spec/Broker (replay mode, with
// gates that order the racing steps) or un-gated same-instant herds - against
// the real HTTP handlers under a fake clock, and records one event per
// linearization point (the guarded vhook sites of the package) plus the
// decoded responses.  The recorded traces are validated by TLC against
// spec/Broker/Broker_Trace.tla; this file contains no oracle.
package main

import (
	"bytes"
	"encoding/json"
	"fmt"
	"io"
	"io/ioutil"
	"log"
	"net"
	"net/http"
	"net/http/httptest"
	"os"
	"regexp"
	"runtime"
	"sort"
	"strconv"
	"strings"
	"sync"
	"sync/atomic"
	"testing"
	"testing/synctest"
	"time"

	"git.torproject.org/pluggable-transports/snowflake.git/v2/common/amp"
	"git.torproject.org/pluggable-transports/snowflake.git/v2/common/ipsetsink"
	"git.torproject.org/pluggable-transports/snowflake.git/v2/common/ipsetsink/sinkcluster"
	"git.torproject.org/pluggable-transports/snowflake.git/v2/common/messages"
	dto "github.com/prometheus/client_model/go"
)

const (
	vDefaultFP  = "2B280B23E1107BB62ABFC40DDCC8824814F80A72"
	vB2FP       = "1111111111111111111111111111111111111111"
	vUnlistedFP = "2222222222222222222222222222222222222222"
	vTick       = 5 * time.Second // PT = CT = 2 ticks in the specification
)

type vEvent map[string]interface{}

type vScenario struct {
	ID          int               `json:"id"`
	Mode        string            `json:"mode"` // "replay" | "herd"
	Steps       [][]interface{}   `json:"steps"`
	Via         map[string]string `json:"via"`
	Addr        map[string]string `json:"addr"`        // proxy name -> remote address
	PType       map[string]string `json:"ptype"`       // proxy name -> proxy type
	Fresh       bool              `json:"fresh"`       // start with a new BrokerContext
	Bridges     []string          `json:"bridges"`     // configured bridge list (default: default + b2)
	Barrier     bool              `json:"barrier"`     // herd: lock-step release of all goroutines waiting at hook points
	SimilarSids bool              `json:"similarsids"` // session ids on the wire differ only in padding, case or white space
	WireLoad    map[string]string `json:"wireload"`    // proxy name -> self-reported client count actually sent (decimal int64); the step carries its order-preserving abstraction
	RollDuring  bool              `json:"rollduring"`  // herd: a metrics period ends while a wave is being served (C20)
	Rollover    bool              `json:"rollover"`    // a metrics period ends before this scenario
	NoRelayExt  map[string]bool   `json:"norelayext"`  // proxies whose poll omits AcceptedRelayPattern
	CC          map[string]string `json:"cc"`          // remote address (no port) -> country code in the test GeoIP tables ("??" = not listed)
	GeoReload   bool              `json:"georeload"`   // herd: the operator's SIGHUP reload of the GeoIP tables while a wave is being served (C20)
	Abort       map[string]int    `json:"abort"`       // request name -> number of response bytes after which its connection breaks (the peer hung up)
	RollStorm   int               `json:"rollstorm"`   // herd: the measurement period ends this many times in a row while each wave is being served (C19)
	SameOffers  bool              `json:"sameoffers"`  // every client poll of the scenario is byte-identical (same offer, NAT, fingerprint): still one request each
	OddText     bool              `json:"oddtext"`     // offers and answers carry control characters, markup characters and runes outside the BMP
}

type vReq struct {
	kind     string // proxy | client | answer
	name     string
	nat      string // as on the wire ("absent" = field omitted)
	fp       string
	load     int
	target   string
	via      string
	done     bool
	started  bool
	addr     string
	norelay  bool
	sid      string // session id sent on the wire (default: the request name)
	wireload string // self-reported count sent on the wire when it is not the step's number
	rejectable bool // proxy poll with a relay pattern the broker must refuse
	abort      int  // > 0: the response writer fails after abort-1 bytes (0: the peer stays)
}

type vRig struct {
	mu       sync.Mutex
	ctx      *BrokerContext
	ipc      *IPC
	mlog     *bytes.Buffer
	events   []vEvent
	gids     map[int64]string
	reqs     map[string]*vReq
	waiting  map[string]chan struct{}
	gateMode bool
	lockstep bool
	similar  bool
	jbuf     *vJournalBuf
	jstart   time.Time
	out      *os.File
	sidName  map[string]string // wire session id -> request name that introduced it
	cc       map[string]string // address -> country code (scenario input)
	oddtext  bool
	same     bool
	sent     map[string]string // "o:"+client / "a:"+answer -> the exact text sent
	diverged string
	sc       int
}

var vGidRe = regexp.MustCompile(`^goroutine (\d+) `)

func vGid() int64 {
	var buf [64]byte
	n := runtime.Stack(buf[:], false)
	m := vGidRe.FindSubmatch(buf[:n])
	if m == nil {
		return -1
	}
	id, _ := strconv.ParseInt(string(m[1]), 10, 64)
	return id
}

// vGeoip names one of the GeoIP tables shipped with the broker's own tests.
func vGeoip(name string) string {
	if d := os.Getenv("VERIF_GEOIP"); d != "" {
		return d + "/" + name
	}
	// this file is compiled as <repository>/broker/rig_verif_test.go (overlay)
	if _, file, _, ok := runtime.Caller(0); ok {
		if i := strings.LastIndex(file, "/"); i >= 0 {
			if _, err := os.Stat(file[:i] + "/" + name); err == nil {
				return file[:i] + "/" + name
			}
		}
	}
	return name
}

// The broker's allowed relay pattern, patterns a proxy may announce that cover it, and patterns that do not.
const vRigAllowed = "snowflake.torproject.net$"

var vAcceptedPatterns = []string{"snowflake.torproject.net$", "torproject.net$", "$", ".torproject.net$", "net$"}
var vRejectedPatterns = []string{"example.com$", "^snowflake.torproject.net$", "x.snowflake.torproject.net$", "^torproject.net$", "flake.torproject.org$"}

func vNewRig() *vRig {
	r := &vRig{}
	r.newContext(nil)
	return r
}

func (r *vRig) newContext(bridges []string) {
	r.mlog = new(bytes.Buffer)
	r.ctx = NewBrokerContext(log.New(r.mlog, "", 0))
	if bridges == nil {
		bridges = []string{"default", "b2"}
	}
	list := ""
	for _, b := range bridges {
		switch b {
		case "default":
			list += `{"displayName":"default", "webSocketAddress":"wss://default.example/", "fingerprint":"` + vDefaultFP + `"}` + "\n"
		case "b2":
			list += `{"displayName":"b2", "webSocketAddress":"wss://b2.example/", "fingerprint":"` + vB2FP + `"}` + "\n"
		}
	}
	// the operator's list replaces the built-in default list of NewBrokerContext
	if err := r.ctx.InstallBridgeListProfile(strings.NewReader(list), vRigAllowed, vRigAllowed); err != nil {
		panic(err)
	}
	// the GeoIP tables shipped with the broker's own tests (the test runs in the package directory)
	if err := r.ctx.metrics.LoadGeoipDatabases(vGeoip("test_geoip"), vGeoip("test_geoip6")); err != nil {
		panic(err)
	}
	r.ipc = &IPC{r.ctx}
}

func (r *vRig) who() string {
	g := vGid()
	r.mu.Lock()
	defer r.mu.Unlock()
	return r.gids[g]
}

var vProgress int64 // bumped on every recorded event and step (watchdog)
var vRunning int64  // id of the scenario being executed, 0 = none

func (r *vRig) emit(ev vEvent) {
	atomic.AddInt64(&vProgress, 1)
	r.mu.Lock()
	ev["sc"] = r.sc
	r.events = append(r.events, ev)
	if r.out != nil {
		// written at once: the events of a scenario that kills the process are not lost
		if b, err := json.Marshal(ev); err == nil {
			r.out.Write(append(b, '\n'))
		}
	}
	r.mu.Unlock()
}

// vWatchdog runs outside every bubble, in real time.  Under the fake clock a
// scenario takes milliseconds; if nothing is recorded for `limit` of real time
// while a scenario runs, goroutines of the broker are stuck in a way the fake
// clock cannot resolve (typically: blocked on a mutex that is held across a
// blocking channel operation).  The stacks are written out and the process
// exits with status 7; the caller confirms by an isolated re-run.
func vWatchdog(out *os.File, limit time.Duration) {
	last, since := int64(-1), time.Now()
	for {
		time.Sleep(500 * time.Millisecond)
		p := atomic.LoadInt64(&vProgress)
		sc := atomic.LoadInt64(&vRunning)
		if p != last || sc == 0 {
			last, since = p, time.Now()
			continue
		}
		if time.Since(since) > limit {
			buf := make([]byte, 1<<20)
			n := runtime.Stack(buf, true)
			b, _ := json.Marshal(vEvent{"ev": "stuck", "sc": sc, "stacks": string(buf[:n])})
			out.Write(append(b, '\n'))
			out.Sync()
			os.Exit(7)
		}
	}
}

// pname: the proxy name the hooks' session id stands for ("?<sid>" if the broker
// shows a session id no proxy sent).
func (r *vRig) pname(sid interface{}) string {
	s, _ := sid.(string)
	r.mu.Lock()
	defer r.mu.Unlock()
	if n, ok := r.sidName[s]; ok {
		return n
	}
	return "?" + s
}

func (r *vRig) probe() bool {
	if r.ctx.snowflakeLock.TryLock() {
		r.ctx.snowflakeLock.Unlock()
		return false
	}
	return true
}

// Text the broker has to carry unchanged: valid UTF-8 that needs escaping in JSON or looks like markup.
var vOddTails = []string{"\x01", "\x7f", "\x00\v\a", "\U000e0001", "<script>&amp;</script>", "\u2028\u2029", "\\\"quote\"\\", "\r\n a=x\r\n", "\U0001F600\u00e9"}

func (r *vRig) oddTail(name string) string {
	if !r.oddtext {
		return ""
	}
	return ":" + vOddTails[(r.sc+len(name)+int(name[len(name)-1]))%len(vOddTails)]
}

// remember / compare the exact text of an offer or answer
func (r *vRig) remember(key, text string) {
	r.mu.Lock()
	r.sent[key] = text
	r.mu.Unlock()
}

func (r *vRig) exact(key, text string) bool {
	r.mu.Lock()
	defer r.mu.Unlock()
	want, ok := r.sent[key]
	return !ok || want == text
}

func (r *vRig) judgeExact(ev vEvent) {
	if t, ok := ev["atext"]; ok {
		ev["exact"] = r.exact("a:"+vStr(ev["a"]), vStr(t))
		delete(ev, "atext")
	}
}

func vAnswerName(text string) string {
	if strings.HasPrefix(text, "ANSWER:") {
		parts := strings.SplitN(text, ":", 3)
		if len(parts) == 3 {
			return parts[1]
		}
	}
	return "?" + text
}

func vOfferName(text string) string {
	// offers are `{"type":"offer","sdp":"OFFER:<client>:<salt>"}`
	i := strings.Index(text, "OFFER:")
	if i < 0 {
		return "?" + text
	}
	rest := text[i+len("OFFER:"):]
	j := strings.IndexAny(rest, ":\"")
	if j < 0 {
		return "?" + text
	}
	return rest[:j]
}

// vJournalBuf is the distinct-IP journal of one scenario (a WriteSyncer in memory).
type vJournalBuf struct {
	mu  sync.Mutex
	buf bytes.Buffer
}

func (j *vJournalBuf) Write(p []byte) (int, error) {
	j.mu.Lock()
	defer j.mu.Unlock()
	return j.buf.Write(p)
}
func (j *vJournalBuf) Sync() error { return nil }

const vJournalInterval = vTick

// journalStart installs a fresh journal writer (inside the bubble: it reads the fake clock).
func (r *vRig) journalStart() {
	r.jbuf = &vJournalBuf{}
	r.jstart = time.Now()
	r.ctx.metrics.lock.Lock()
	r.ctx.metrics.SetIPAddressRecorder(sinkcluster.NewClusterWriter(r.jbuf, vJournalInterval, ipsetsink.NewIPSetSink("verif-masking-key")))
	r.ctx.metrics.lock.Unlock()
}

// journalEnd flushes the journal and reports, per chunk, its bounds (ms since the scenario began) and
// the number of distinct addresses the real reader counts for a window that is exactly that chunk.
func (r *vRig) journalEnd() vEvent {
	r.ctx.metrics.lock.Lock()
	w := r.ctx.metrics.distinctIPWriter
	if w != nil {
		w.WriteIPSetToDisk()
	}
	r.ctx.metrics.SetIPAddressRecorder(nil)
	r.ctx.metrics.lock.Unlock()
	r.jbuf.mu.Lock()
	data := append([]byte(nil), r.jbuf.buf.Bytes()...)
	r.jbuf.mu.Unlock()
	chunks := []interface{}{}
	leak := false
	for _, line := range bytes.Split(data, []byte("\n")) {
		if len(bytes.TrimSpace(line)) == 0 {
			continue
		}
		if bytes.Contains(line, []byte("192.0.2.")) {
			leak = true
		}
		var e sinkcluster.SinkEntry
		if err := json.Unmarshal(line, &e); err != nil {
			chunks = append(chunks, map[string]interface{}{"s": -1, "e": -1, "n": -1})
			continue
		}
		// the reader applied to this line alone (a neighbouring zero-length chunk would fall into the same window)
		res, err := sinkcluster.NewClusterCounter(e.RecordingStart, e.RecordingEnd).Count(bytes.NewReader(append(append([]byte(nil), line...), '\n')))
		n := -1
		if err == nil {
			n = int(res.Sum)
		}
		chunks = append(chunks, map[string]interface{}{"s": int(e.RecordingStart.Sub(r.jstart) / time.Millisecond),
			"e": int(e.RecordingEnd.Sub(r.jstart) / time.Millisecond), "n": n})
	}
	return vEvent{"ev": "journal", "chunks": chunks, "addrtext": leak}
}

// hook is installed as the package's VerifHook.
func (r *vRig) hook(point string, args ...interface{}) {
	g := r.who()
	if strings.HasPrefix(g, "fresh") {
		return
	}
	ev := vEvent{"ev": point}
	gateKey := ""
	switch point {
	case "add":
		ev["p"], ev["nat"], ev["load"], ev["ptype"] = r.pname(args[0]), args[1], fmt.Sprint(args[2]), args[3]
		ev["locked"] = r.probe()
		r.mu.Lock()
		ev["addr"], ev["relayext"], ev["loadwire"], ev["natwire"] = "?", true, 0, args[1]
		ev["rejectable"] = false
		ev["t"] = int(time.Since(r.jstart) / time.Millisecond)
		if q := r.reqs[ev["p"].(string)]; q != nil {
			// what the proxy actually reported on the wire (the count as its order-preserving abstraction)
			ev["addr"], ev["relayext"], ev["loadwire"], ev["natwire"] = q.addr, !q.norelay, q.load, q.nat
			ev["cc"] = r.cc[q.addr]
			ev["rejectable"] = q.rejectable
		}
		if ev["cc"] == nil || ev["cc"] == "" {
			ev["cc"] = "??"
		}
		r.mu.Unlock()
	case "p.got":
		ev["p"], ev["ok"] = r.pname(args[0]), args[1]
	case "w.offer", "w.forwarded":
		ev["p"] = r.pname(args[0])
	case "w.timeout":
		ev["p"] = r.pname(args[0])
		gateKey = "w.timeout/" + ev["p"].(string)
	case "w.locked":
		ev["p"], ev["popped"] = r.pname(args[0]), args[1].(int) == -1
		ev["locked"] = r.probe()
	case "w.claimed":
		ev["p"] = r.pname(args[0])
	case "c.match":
		ev["c"], ev["nat"], ev["root"], ev["len"] = g, args[0], "", args[2]
		if root, _ := args[1].(string); root != "" {
			ev["root"] = r.pname(root)
		}
		ev["locked"] = r.probe()
		r.mu.Lock()
		if q := r.reqs[g]; q != nil {
			ev["natwire"], ev["fp"] = q.nat, q.fp
		} else {
			ev["natwire"], ev["fp"] = "?", "?"
		}
		r.mu.Unlock()
	case "c.offer":
		ev["c"], ev["p"] = g, r.pname(args[0])
		gateKey = "c.offer/" + g
	case "c.sent":
		ev["c"], ev["p"] = g, r.pname(args[0])
	case "c.answer":
		ev["c"], ev["a"] = g, vAnswerName(args[0].(string))
	case "c.timeout":
		ev["c"] = g
	case "c.precleanup":
		ev["c"], ev["p"] = g, r.pname(args[0])
		gateKey = "c.precleanup/" + g
	case "c.cleanup":
		ev["c"], ev["p"] = g, r.pname(args[0])
		ev["locked"] = r.probe()
	case "a.lookup":
		ev["a"], ev["sid"], ev["ok"] = g, r.pname(args[0]), args[1]
		ev["locked"] = r.probe()
	case "a.send":
		ev["a"] = g
		gateKey = "a.send/" + g
	case "a.sent", "a.dropped":
		ev["a"] = g
	case "m.locked":
		ev["site"] = args[0]
		if r.ctx.metrics.lock.TryLock() {
			r.ctx.metrics.lock.Unlock()
			ev["locked"] = false
		} else {
			ev["locked"] = true
		}
	default:
		// hooks of other specification modules are not part of this trace
		return
	}
	r.emit(ev)
	if gateKey != "" {
		r.gate(gateKey)
	}
}

func (r *vRig) gate(key string) {
	r.mu.Lock()
	if !r.gateMode {
		r.mu.Unlock()
		return
	}
	ch := make(chan struct{})
	r.waiting[key] = ch
	r.mu.Unlock()
	<-ch
}

func (r *vRig) release(key string) bool {
	r.mu.Lock()
	ch, ok := r.waiting[key]
	delete(r.waiting, key)
	r.mu.Unlock()
	if ok {
		close(ch)
	}
	return ok
}

func (r *vRig) releaseAll() {
	r.mu.Lock()
	r.gateMode = false
	w := r.waiting
	r.waiting = map[string]chan struct{}{}
	r.mu.Unlock()
	for _, ch := range w {
		close(ch)
	}
}

// ---- requests ---------------------------------------------------------------

func vWireNat(n string) string {
	if n == "absent" {
		return ""
	}
	return n
}

func vFingerprint(fp string) string {
	switch fp {
	case "default":
		return vDefaultFP
	case "b2":
		return vB2FP
	}
	return vUnlistedFP
}

func (r *vRig) start(q *vReq, sc *vScenario) {
	r.mu.Lock()
	r.reqs[q.name] = q
	q.started = true
	r.mu.Unlock()
	go func() {
		gid := vGid()
		r.mu.Lock()
		r.gids[gid] = q.name
		r.mu.Unlock()
		var ev vEvent
		func() {
			defer func() {
				if v := recover(); v != nil {
					ev = vEvent{"ev": q.kind[:1] + ".resp", q.kind[:1]: q.name, "kind": "panic", "detail": fmt.Sprint(v)}
				}
			}()
			switch q.kind {
			case "proxy":
				ev = r.doProxy(q, sc)
			case "client":
				ev = r.doClient(q)
			case "answer":
				ev = r.doAnswer(q)
			}
		}()
		r.emit(ev)
		r.mu.Lock()
		q.done = true
		delete(r.gids, gid)
		r.mu.Unlock()
	}()
}

func (r *vRig) doProxy(q *vReq, sc *vScenario) vEvent {
	ptype := sc.PType[q.name]
	if ptype == "" {
		ptype = "standalone"
	}
	var body []byte
	var err error
	clients := json.Number(strconv.Itoa(q.load))
	if q.wireload != "" {
		clients = json.Number(q.wireload)
	}
	m := map[string]interface{}{"Sid": q.sid, "Version": "1.3", "Type": ptype, "NAT": vWireNat(q.nat), "Clients": clients}
	if q.norelay {
		m["Version"] = "1.2"
	} else {
		m["AcceptedRelayPattern"] = vAcceptedPatterns[int(r.sc+len(q.name))%len(vAcceptedPatterns)]
	}
	if q.rejectable {
		m["Version"] = "1.3"
		m["AcceptedRelayPattern"] = vRejectedPatterns[int(r.sc+len(q.sid))%len(vRejectedPatterns)]
	}
	body, err = json.Marshal(m)
	if err != nil {
		panic(err)
	}
	req, _ := http.NewRequest("POST", "http://broker.example/proxy", bytes.NewReader(body))
	req.RemoteAddr = sc.Addr[q.name]
	if req.RemoteAddr == "" {
		req.RemoteAddr = "192.0.2.77:4000"
	}
	w := httptest.NewRecorder()
	SnowflakeHandler{r.ipc, proxyPolls}.ServeHTTP(vWriterFor(q, w), req)
	ev := vEvent{"ev": "p.resp", "p": q.name, "client": "", "nat": "", "relay": "", "refused": false, "rejectable": q.rejectable, "natwire": q.nat, "ptype": ptype}
	if q.abort > 0 {
		ev["kind"] = "aborted" // the proxy never saw this response
		return ev
	}
	if w.Code != 200 {
		ev["kind"] = fmt.Sprintf("http%d", w.Code)
		return ev
	}
	offer, nat, relay, err := messages.DecodePollResponseWithRelayURL(w.Body.Bytes())
	switch {
	case err != nil:
		// a well-formed response whose status is neither "client match" nor "no match"
		ev["kind"], ev["refused"] = "rejected", true
		ev["status"] = err.Error()
	case offer == "":
		ev["kind"] = "nomatch"
	default:
		ev["kind"], ev["client"], ev["nat"], ev["relay"] = "offer", vOfferName(offer), nat, relay
		ev["exact"] = r.exact("o:"+vOfferName(offer), offer)
	}
	return ev
}

func vClientEvent(q *vReq) vEvent {
	return vEvent{"ev": "c.resp", "c": q.name, "a": "", "natwire": q.nat, "fp": q.fp, "via": q.via}
}

func vClassifyClientJSON(ev vEvent, body []byte) {
	resp, err := messages.DecodeClientPollResponse(body)
	switch {
	case err != nil:
		ev["kind"] = "undecodable"
	case resp.Error == "":
		ev["kind"], ev["a"], ev["atext"] = "answer", vAnswerName(resp.Answer), resp.Answer
	case resp.Error == messages.StrNoProxies:
		ev["kind"] = "noproxies"
	case resp.Error == messages.StrTimedOut:
		ev["kind"] = "timeout"
	default:
		ev["kind"] = "error:" + resp.Error
	}
}

func (r *vRig) doClient(q *vReq) vEvent {
	ev := vClientEvent(q)
	offer := fmt.Sprintf(`{"type":"offer","sdp":"OFFER:%s:%d%s"}`, q.name, r.sc, r.oddTail(q.name))
	if r.same {
		offer = fmt.Sprintf(`{"type":"offer","sdp":"OFFER:same:%d"}`, r.sc)
	}
	r.remember("o:"+q.name, offer)
	w := httptest.NewRecorder()
	switch q.via {
	case "legacy":
		req, _ := http.NewRequest("POST", "http://broker.example/client", strings.NewReader(offer))
		if q.nat != "absent" {
			req.Header.Set("Snowflake-NAT-Type", q.nat)
		}
		SnowflakeHandler{r.ipc, clientOffers}.ServeHTTP(vWriterFor(q, w), req)
		if q.abort > 0 {
			ev["kind"] = "aborted"
			return ev
		}
		switch w.Code {
		case 200:
			ev["kind"], ev["a"] = "answer", vAnswerName(w.Body.String())
			ev["exact"] = r.exact("a:"+vStr(ev["a"]), w.Body.String())
		case http.StatusServiceUnavailable:
			ev["kind"] = "noproxies"
		case http.StatusGatewayTimeout:
			ev["kind"] = "timeout"
		default:
			ev["kind"] = fmt.Sprintf("http%d", w.Code)
		}
		return ev
	case "amp":
		poll := &messages.ClientPollRequest{Offer: offer, NAT: vWireNat(q.nat), Fingerprint: vFingerprint(q.fp)}
		body, err := poll.EncodeClientPollRequest()
		if err != nil {
			panic(err)
		}
		req, _ := http.NewRequest("GET", "http://broker.example/amp/client/"+amp.EncodePath(body), nil)
		SnowflakeHandler{r.ipc, ampClientOffers}.ServeHTTP(vWriterFor(q, w), req)
		if q.abort > 0 {
			ev["kind"] = "aborted"
			return ev
		}
		if w.Code != 200 {
			ev["kind"] = fmt.Sprintf("http%d", w.Code)
			return ev
		}
		dec, err := amp.NewArmorDecoder(bytes.NewReader(w.Body.Bytes()))
		if err != nil {
			ev["kind"] = "badarmor"
			return ev
		}
		plain, err := ioutil.ReadAll(dec)
		if err != nil {
			ev["kind"] = "badarmor"
			return ev
		}
		vClassifyClientJSON(ev, plain)
		r.judgeExact(ev)
		return ev
	default:
		poll := &messages.ClientPollRequest{Offer: offer, NAT: vWireNat(q.nat), Fingerprint: vFingerprint(q.fp)}
		body, err := poll.EncodeClientPollRequest()
		if err != nil {
			panic(err)
		}
		req, _ := http.NewRequest("POST", "http://broker.example/client", bytes.NewReader(body))
		SnowflakeHandler{r.ipc, clientOffers}.ServeHTTP(vWriterFor(q, w), req)
		if q.abort > 0 {
			ev["kind"] = "aborted"
			return ev
		}
		if w.Code != 200 {
			ev["kind"] = fmt.Sprintf("http%d", w.Code)
			return ev
		}
		vClassifyClientJSON(ev, w.Body.Bytes())
		r.judgeExact(ev)
		return ev
	}
}

func (r *vRig) doAnswer(q *vReq) vEvent {
	answer := fmt.Sprintf("ANSWER:%s:%d%s", q.name, r.sc, r.oddTail(q.name))
	r.remember("a:"+q.name, answer)
	body, err := messages.EncodeAnswerRequest(answer, vWireSid(q.target, r.similar))
	if err != nil {
		panic(err)
	}
	req, _ := http.NewRequest("POST", "http://broker.example/answer", bytes.NewReader(body))
	w := httptest.NewRecorder()
	SnowflakeHandler{r.ipc, proxyAnswers}.ServeHTTP(w, req)
	ev := vEvent{"ev": "a.resp", "a": q.name, "sid": q.target}
	if w.Code != 200 {
		ev["kind"] = fmt.Sprintf("http%d", w.Code)
		return ev
	}
	ok, err := messages.DecodeAnswerResponse(w.Body.Bytes())
	switch {
	case err != nil:
		ev["kind"] = "undecodable"
	case ok:
		ev["kind"] = "success"
	default:
		ev["kind"] = "gone"
	}
	return ev
}

// ---- scenario execution -----------------------------------------------------

func vStr(x interface{}) string { s, _ := x.(string); return s }
func vInt(x interface{}) int {
	switch v := x.(type) {
	case float64:
		return int(v)
	case json.Number:
		n, _ := v.Int64()
		return int(n)
	}
	return 0
}

// vWireSid: the session id sent on the wire for request name `name`.  With
// similar = true the ids of different proxies differ only in base64 padding,
// letter case or surrounding white space - all of them distinct ids.
func vWireSid(name string, similar bool) string {
	if !similar || name == "unknownSid" {
		return name
	}
	switch name {
	case "p1":
		return "QUJDRA"
	case "p2":
		return "QUJDRA=="
	case "p3":
		return "QUJDRA="
	case "p4":
		return "qujdra"
	case "p5":
		return "QUJDRA "
	case "p6":
		return " QUJDRA"
	case "p7":
		return "QUJDRAA"
	case "p8":
		return "QUJDR"
	}
	return "QUJDRA-" + name
}

func vAbortOf(sc *vScenario, name string) int {
	if n, ok := sc.Abort[name]; ok && n >= 0 {
		return n + 1
	}
	return 0
}

// vBreakingWriter is the ResponseWriter of a connection whose peer hangs up after `limit` bytes of
// the response body: the write that crosses the limit is cut short and fails, later ones fail.
type vBreakingWriter struct {
	rec   *httptest.ResponseRecorder
	limit int
	n     int
}

func (w *vBreakingWriter) Header() http.Header { return w.rec.Header() }
func (w *vBreakingWriter) WriteHeader(c int)   { w.rec.WriteHeader(c) }
func (w *vBreakingWriter) Write(p []byte) (int, error) {
	room := w.limit - w.n
	if room <= 0 {
		return 0, io.ErrClosedPipe
	}
	if len(p) <= room {
		w.n += len(p)
		return w.rec.Write(p)
	}
	w.n += room
	w.rec.Write(p[:room])
	return room, io.ErrClosedPipe
}

func vWriterFor(q *vReq, rec *httptest.ResponseRecorder) http.ResponseWriter {
	if q.abort > 0 {
		return &vBreakingWriter{rec: rec, limit: q.abort - 1}
	}
	return rec
}

func (r *vRig) reqFromStep(st []interface{}, sc *vScenario) *vReq {
	switch vStr(st[0]) {
	case "ProxyRejected":
		// a poll whose accepted relay pattern does not cover the broker's allowed pattern
		return &vReq{kind: "proxy", name: vStr(st[1]), nat: "unknown", rejectable: true, sid: vWireSid(vStr(st[1]), sc.SimilarSids)}
	case "ProxyRegister":
		q := &vReq{kind: "proxy", name: vStr(st[1]), nat: vStr(st[2]), load: vInt(st[3]), norelay: sc.NoRelayExt[vStr(st[1])], abort: vAbortOf(sc, vStr(st[1]))}
		q.addr = sc.Addr[q.name]
		if q.addr == "" {
			q.addr = "192.0.2.77:4000"
		}
		if h, _, err := net.SplitHostPort(q.addr); err == nil {
			q.addr = h
		} else if i := strings.LastIndex(q.addr, ":"); i >= 0 {
			q.addr = q.addr[:i]
		}
		q.sid = vWireSid(q.name, sc.SimilarSids)
		if len(st) > 4 && vStr(st[4]) != "" {
			q.sid = vWireSid(vStr(st[4]), sc.SimilarSids) // a proxy that polls again with a session id it used before
		}
		q.wireload = sc.WireLoad[q.name]
		r.mu.Lock()
		if _, dup := r.sidName[q.sid]; !dup {
			r.sidName[q.sid] = q.name
		}
		r.mu.Unlock()
		return q
	case "ClientMatch":
		via := sc.Via[vStr(st[1])]
		if via == "" {
			via = "post"
		}
		return &vReq{kind: "client", name: vStr(st[1]), nat: vStr(st[2]), fp: vStr(st[3]), via: via, abort: vAbortOf(sc, vStr(st[1]))}
	case "AnswerLookup":
		return &vReq{kind: "answer", name: vStr(st[1]), target: vStr(st[2])}
	}
	return nil
}

func (r *vRig) tick() {
	r.emit(vEvent{"ev": "tick"})
	time.Sleep(vTick)
	synctest.Wait()
	if r.lockstep {
		r.barrier()
	}
}

// barrier: lock-step herd.  Every goroutine that reached a hook point waits
// there; at quiescence all of them are released at the same moment, so that
// the code following the hook points runs with maximal contention (this is
// what exposes check-then-act windows that open right after a hook point).
func (r *vRig) barrier() {
	for i := 0; i < 50; i++ {
		synctest.Wait()
		r.mu.Lock()
		w := r.waiting
		r.waiting = map[string]chan struct{}{}
		r.mu.Unlock()
		if len(w) == 0 {
			return
		}
		for _, ch := range w {
			close(ch)
		}
	}
}

func (r *vRig) diverge(st []interface{}, why string) {
	if r.diverged == "" {
		b, _ := json.Marshal(st)
		r.diverged = why + " at " + string(b)
	}
}

func (r *vRig) pending() []string {
	r.mu.Lock()
	defer r.mu.Unlock()
	p := []string{}
	for n, q := range r.reqs {
		if q.started && !q.done && !strings.HasPrefix(n, "fresh") {
			p = append(p, n)
		}
	}
	sort.Strings(p)
	return p
}

func (r *vRig) runSteps(sc *vScenario) {
	for _, st := range sc.Steps {
		atomic.AddInt64(&vProgress, 1)
		if r.diverged != "" {
			break
		}
		switch vStr(st[0]) {
		case "ProxyRegister", "ProxyRejected", "ClientMatch", "AnswerLookup":
			r.start(r.reqFromStep(st, sc), sc)
			synctest.Wait()
		case "Barrier":
			r.barrier()
		case "DebugPoll":
			r.debugPoll(!r.lockstep && sc.Mode == "replay")
			synctest.Wait()
		case "Wave":
			for n, x := range st[1].([]interface{}) {
				if vStr(x.([]interface{})[0]) == "DebugPoll" {
					go r.debugPoll(false)
					continue
				}
				r.start(r.reqFromStep(x.([]interface{}), sc), sc)
				if sc.RollDuring && n == 1 {
					go func() {
						// what logMetrics does when the measurement period ends
						r.ctx.metrics.printMetrics()
						r.ctx.metrics.zeroMetrics()
					}()
				}
				if sc.RollStorm > 0 && n == 0 {
					go r.storm(sc.RollStorm)
				}
				if sc.GeoReload && n == 1 {
					go func() {
						// what the SIGHUP handler of main() does
						r.ctx.metrics.LoadGeoipDatabases(vGeoip("test_geoip"), vGeoip("test_geoip6"))
					}()
				}
			}
			synctest.Wait()
			if r.lockstep {
				r.barrier()
			}
		case "Tick":
			r.tick()
		case "OfferRendezvous":
			if !r.release("c.offer/" + vStr(st[1])) {
				r.diverge(st, "client not at the offer send")
			}
			synctest.Wait()
		case "WaiterTimeoutLocked":
			if !r.release("w.timeout/" + vStr(st[1])) {
				r.diverge(st, "waiter not in its timeout branch")
			}
			synctest.Wait()
		case "AnswerSend", "AnswerRendezvous":
			if !r.release("a.send/" + vStr(st[1])) {
				r.diverge(st, "answer handler not at the answer send")
			}
			synctest.Wait()
		case "ClientCleanup":
			if !r.release("c.precleanup/" + vStr(st[1])) {
				r.diverge(st, "client not before its cleanup")
			}
			synctest.Wait()
		case "WaiterForward", "ProxyRespond", "WaiterTimerFire", "ClientGetAnswer", "ClientTimerFire", "Finished":
			// not gated: these happen on their own
		default:
			panic("unknown step " + vStr(st[0]))
		}
	}
	// drain: let everything run to completion (at most PT + CT + slack)
	r.releaseAll()
	synctest.Wait()
	for i := 0; i < 5 && len(r.pending()) > 0; i++ {
		r.tick()
	}
}

var vAvailRe = regexp.MustCompile(`current snowflakes available: (\d+)`)

// debugPoll: GET /debug while other requests are in flight.
func (r *vRig) debugPoll(exact bool) {
	w := httptest.NewRecorder()
	req, _ := http.NewRequest("GET", "http://broker.example/debug", nil)
	func() {
		defer func() {
			if v := recover(); v != nil {
				r.emit(vEvent{"ev": "debug", "avail": -2, "exact": true, "detail": fmt.Sprint(v)})
			}
		}()
		SnowflakeHandler{r.ipc, debugHandler}.ServeHTTP(w, req)
	}()
	avail := -1
	if m := vAvailRe.FindStringSubmatch(w.Body.String()); m != nil {
		avail, _ = strconv.Atoi(m[1])
	}
	// exact: nothing else runs while the request is served (gated replay), so the count is the model's
	r.emit(vEvent{"ev": "debug", "avail": avail, "exact": exact})
}

// outcome counts the responses of a scenario whose client polls were byte-identical (no event of it can
// be attributed to a client by content): how many proxies were handed an offer, how many clients got
// past the matching, how many got an answer and how many different answers those were.
func (r *vRig) outcome() vEvent {
	r.mu.Lock()
	defer r.mu.Unlock()
	offers, matched, answered := 0, 0, 0
	texts := map[string]bool{}
	for _, e := range r.events {
		switch vStr(e["ev"]) {
		case "p.resp":
			if vStr(e["kind"]) == "offer" {
				offers++
			}
		case "c.resp":
			switch vStr(e["kind"]) {
			case "answer":
				answered++
				matched++
				texts[vStr(e["a"])] = true
			case "timeout":
				matched++
			}
		}
	}
	return vEvent{"ev": "outcome", "offers": offers, "matched": matched, "answered": answered, "distinct": len(texts)}
}

func (r *vRig) observeEnd(sc *vScenario) vEvent {
	if sc.SameOffers {
		r.emit(r.outcome())
	}
	end := vEvent{"ev": "end", "pending": r.pending(), "diverged": r.diverged}
	w := httptest.NewRecorder()
	req, _ := http.NewRequest("GET", "http://broker.example/debug", nil)
	SnowflakeHandler{r.ipc, debugHandler}.ServeHTTP(w, req)
	avail := -1
	if m := vAvailRe.FindStringSubmatch(w.Body.String()); m != nil {
		avail, _ = strconv.Atoi(m[1])
	}
	end["avail"] = avail
	gauge := 0.0
	mfs, _ := r.ctx.metrics.promMetrics.registry.Gather()
	for _, mf := range mfs {
		if mf.GetName() == "snowflake_available_proxies" {
			for _, m := range mf.GetMetric() {
				gauge += m.GetGauge().GetValue()
			}
		}
	}
	end["gauge"] = int(gauge)
	r.mu.Lock()
	r.ctx.snowflakeLock.Lock()
	end["heaps"] = r.ctx.snowflakes.Len() + r.ctx.restrictedSnowflakes.Len()
	r.ctx.snowflakeLock.Unlock()
	r.mu.Unlock()
	return end
}

// fresh: after everything completed, new clients of both pools are told there are no proxies.
func (r *vRig) freshClients() []string {
	var kinds []string
	for i, nat := range []string{"unknown", "unrestricted"} {
		q := &vReq{kind: "client", name: fmt.Sprintf("fresh%d", i), nat: nat, fp: "b2", via: "post"}
		done := make(chan vEvent, 1)
		go func() {
			gid := vGid()
			r.mu.Lock()
			r.gids[gid] = q.name
			r.mu.Unlock()
			ev := vEvent{"kind": "panic"}
			func() {
				defer func() { recover() }()
				ev = r.doClient(q)
			}()
			r.mu.Lock()
			delete(r.gids, gid)
			r.mu.Unlock()
			done <- ev
		}()
		synctest.Wait()
		select {
		case ev := <-done:
			kinds = append(kinds, vStr(ev["kind"]))
		default:
			// it was matched with a ghost and now waits for an answer
			kinds = append(kinds, "matched-a-ghost")
			time.Sleep(3 * vTick)
			synctest.Wait()
			<-done
		}
	}
	return kinds
}

// storm ends the measurement period n times in a row while a wave of requests is being served (what
// logMetrics does once a day, compressed): every period's printed figures are recorded; consecutive
// identical ones are recorded once.
func (r *vRig) storm(n int) {
	last := ""
	for i := 0; i < n; i++ {
		r.mlog.Reset()
		r.ctx.metrics.printMetrics()
		text := r.mlog.String()
		r.ctx.metrics.zeroMetrics()
		m := vParseMetricsLog(text)
		b, _ := json.Marshal(m)
		if string(b) != last {
			last = string(b)
			r.emit(vEvent{"ev": "metrics-mid", "m": m})
		}
		runtime.Gosched()
	}
}

func (r *vRig) metricsSnapshot() map[string]interface{} {
	r.mlog.Reset()
	r.ctx.metrics.printMetrics()
	m := vParseMetricsLog(r.mlog.String())
	mfs, _ := r.ctx.metrics.promMetrics.registry.Gather()
	for _, mf := range mfs {
		if !strings.HasPrefix(mf.GetName(), "snowflake_rounded_") {
			continue
		}
		for _, mm := range mf.GetMetric() {
			m["prom:"+strings.TrimPrefix(mf.GetName(), "snowflake_")+vLabels(mm)] = int(mm.GetCounter().GetValue())
		}
	}
	return m
}

// vParseMetricsLog turns the lines of one printed period into a map (numbers under "log:<name>",
// the per-country list under "cc").
func vParseMetricsLog(text string) map[string]interface{} {
	m := map[string]interface{}{}
	for _, line := range strings.Split(text, "\n") {
		f := strings.Fields(line)
		if len(f) >= 1 && f[0] == "snowflake-ips" {
			// per-country figures: CC=n,CC=n
			ccs := []map[string]interface{}{}
			if len(f) == 2 {
				for _, kv := range strings.Split(f[1], ",") {
					if i := strings.Index(kv, "="); i > 0 {
						if n, err := strconv.Atoi(kv[i+1:]); err == nil {
							ccs = append(ccs, map[string]interface{}{"c": kv[:i], "n": n})
							continue
						}
					}
					ccs = append(ccs, map[string]interface{}{"c": kv, "n": -1})
				}
			}
			m["cc"] = ccs
			continue
		}
		if len(f) == 2 {
			if n, err := strconv.Atoi(f[1]); err == nil {
				m["log:"+f[0]] = n
			}
		}
	}
	return m
}

func vLabels(m *dto.Metric) string {
	var parts []string
	for _, lp := range m.GetLabel() {
		parts = append(parts, lp.GetName()+"="+lp.GetValue())
	}
	sort.Strings(parts)
	return "{" + strings.Join(parts, ",") + "}"
}

func (r *vRig) runScenario(t *testing.T, sc *vScenario) (events []vEvent, hung bool) {
	r.mu.Lock()
	r.events = nil
	r.gids = map[int64]string{}
	r.reqs = map[string]*vReq{}
	r.waiting = map[string]chan struct{}{}
	r.similar = sc.SimilarSids
	r.cc = sc.CC
	r.oddtext = sc.OddText
	r.same = sc.SameOffers
	r.sent = map[string]string{}
	r.sidName = map[string]string{"unknownSid": "unknownSid"}
	// every session id this scenario will use (an answer may name a proxy that has not polled yet)
	for _, st := range sc.Steps {
		items := []interface{}{[]interface{}(st)}
		if vStr(st[0]) == "Wave" {
			items = st[1].([]interface{})
		}
		for _, x := range items {
			it := x.([]interface{})
			if vStr(it[0]) == "ProxyRegister" || vStr(it[0]) == "ProxyRejected" {
				if sid := vWireSid(vStr(it[1]), sc.SimilarSids); r.sidName[sid] == "" {
					r.sidName[sid] = vStr(it[1])
				}
			}
		}
	}
	r.gateMode = sc.Mode == "replay" || sc.Barrier
	r.lockstep = sc.Barrier
	r.diverged = ""
	r.sc = sc.ID
	r.mu.Unlock()
	if sc.Rollover && !sc.Fresh {
		// what logMetrics does at the end of a measurement period
		r.mlog.Reset()
		r.ctx.metrics.printMetrics()
		r.ctx.metrics.zeroMetrics()
	}
	atomic.StoreInt64(&vRunning, int64(sc.ID))
	defer atomic.StoreInt64(&vRunning, 0)
	r.emit(vEvent{"ev": "reset", "fresh": sc.Fresh, "mode": sc.Mode, "rollover": sc.Rollover && !sc.Fresh})
	func() {
		defer func() {
			if v := recover(); v != nil {
				if !strings.Contains(fmt.Sprint(v), "deadlock") {
					panic(v)
				}
			}
		}()
		synctest.Test(t, func(t *testing.T) {
			r.ctx.proxyPolls = make(chan *ProxyPoll)
			go r.ctx.Broker()
			VerifHook = r.hook
			r.journalStart()
			r.runSteps(sc)
			end := r.observeEnd(sc)
			var metrics map[string]interface{}
			if len(end["pending"].([]string)) == 0 {
				metrics = r.metricsSnapshot()
				end["fresh"] = r.freshClients()
			} else {
				hung = true
				end["fresh"] = []string{}
			}
			if end["avail"] != 0 || end["gauge"] != 0 || end["heaps"] != 0 {
				// leftover registrations hold channels of this bubble: never reuse the context
				hung = true
			}
			for _, k := range end["fresh"].([]string) {
				if k != "noproxies" {
					hung = true
				}
			}
			r.emit(end)
			if metrics != nil {
				r.emit(r.journalEnd())
				r.emit(vEvent{"ev": "metrics", "m": metrics, "nfresh": len(end["fresh"].([]string))})
			}
			VerifHook = nil
			close(r.ctx.proxyPolls)
		})
	}()
	VerifHook = nil
	r.mu.Lock()
	events = r.events
	r.mu.Unlock()
	return events, hung
}

func TestVerifBrokerScenarios(t *testing.T) {
	in, out := os.Getenv("VERIF_IN"), os.Getenv("VERIF_OUT")
	if in == "" || out == "" {
		t.Skip("VERIF_IN / VERIF_OUT not set")
	}
	log.SetOutput(ioutil.Discard)
	data, err := ioutil.ReadFile(in)
	if err != nil {
		t.Fatal(err)
	}
	f, err := os.Create(out)
	if err != nil {
		t.Fatal(err)
	}
	defer f.Close()
	limit := 20 * time.Second
	if v, err := time.ParseDuration(os.Getenv("VERIF_WATCHDOG")); err == nil && v > 0 {
		limit = v
	}
	go vWatchdog(f, limit)
	rig := vNewRig()
	rig.out = f
	first := true
	for _, line := range bytes.Split(data, []byte("\n")) {
		if len(bytes.TrimSpace(line)) == 0 {
			continue
		}
		var sc vScenario
		dec := json.NewDecoder(bytes.NewReader(line))
		dec.UseNumber()
		if err := dec.Decode(&sc); err != nil {
			t.Fatalf("bad scenario: %v", err)
		}
		if first || sc.Fresh {
			rig.newContext(sc.Bridges)
			sc.Fresh = true
			first = false
		}
		_, hung := rig.runScenario(t, &sc)
		if hung {
			// goroutines of this context are stuck for good: continue on a new one
			first = true
		}
	}
	io.WriteString(f, "")
}
