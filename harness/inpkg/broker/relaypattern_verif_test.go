package main

// C06 (c): the broker's poll-time relay-pattern policy, bound to
// spec/Matcher/RelayPolicy.tla.  Injected with `go test -overlay`; nothing is
// written into the repository.
//
// Input  (env VERIF_C06_CASES): ndjson printed by TLC, one case per line
//         {"allowed":[chars],"presumed":[chars],"present":bool,"value":[chars],"reject":bool}
// Output (env VERIF_C06_OUT): ndjson of non-conforming cases {"idx","sig","detail","case"}
//         and one {"summary":{...}} line.
//
// For every broker configuration (allowed, presumed) a fresh BrokerContext is
// configured through InstallBridgeListProfile (the path main() uses) and every
// poll of that configuration is sent through the real HTTP handler
// proxyPolls.  Signatures:
//   broker/...    the code violates C06 (a poll that must be rejected is
//                 registered / not answered with "incorrect relay pattern" / a
//                 client is handed to it)
//   diverge/...   the code differs from the model in a way C06 does not
//                 forbid (a poll that need not be rejected is rejected or not
//                 registered): no verdict.

import (
	"bufio"
	"bytes"
	"encoding/json"
	"fmt"
	"io/ioutil"
	"log"
	"net/http/httptest"
	"os"
	"sort"
	"strconv"
	"strings"
	"sync"
	"testing"
	"time"
)

type verifC06Case struct {
	Allowed  []string `json:"allowed"`
	Presumed []string `json:"presumed"`
	Present  bool     `json:"present"`
	Value    []string `json:"value"`
	Reject   bool     `json:"reject"`
	idx      int
}

type verifC06Result struct {
	Idx    int         `json:"idx"`
	Sig    string      `json:"sig"`
	Detail string      `json:"detail"`
	Case   interface{} `json:"case,omitempty"`
}

type verifC06Out struct {
	mu  sync.Mutex
	res []verifC06Result
}

func (o *verifC06Out) put(c *verifC06Case, sig, detail string) {
	o.mu.Lock()
	defer o.mu.Unlock()
	o.res = append(o.res, verifC06Result{Idx: c.idx, Sig: sig, Detail: detail, Case: map[string]interface{}{
		"allowed": strings.Join(c.Allowed, ""), "presumed": strings.Join(c.Presumed, ""),
		"present": c.Present, "value": strings.Join(c.Value, ""), "reject": c.Reject}})
}

// splitmix64, keyed by seed and case index
func verifC06Rand(seed uint64, idx int, salt uint64) uint64 {
	z := seed*0x9e3779b97f4a7c15 + uint64(idx+1)*0xbf58476d1ce4e5b9 + salt*0x94d049bb133111eb
	z = (z ^ (z >> 30)) * 0xbf58476d1ce4e5b9
	z = (z ^ (z >> 27)) * 0x94d049bb133111eb
	return z ^ (z >> 31)
}

const verifC06Bridges = `{"displayName":"default", "webSocketAddress":"wss://snowflake.torproject.net/", "fingerprint":"2B280B23E1107BB62ABFC40DDCC8824814F80A72"}
`

type verifC06Poll struct {
	c    *verifC06Case
	sid  string
	nat  string
	rec  *httptest.ResponseRecorder
	done chan struct{}
}

func verifC06PollBody(c *verifC06Case, sid, natType string, seed uint64) []byte {
	m := map[string]interface{}{"Sid": sid, "Version": "1.3", "Clients": 0}
	types := []string{"standalone", "webext", "badge", "iptproxy", "somethingelse"}
	m["Type"] = types[verifC06Rand(seed, c.idx, 2)%uint64(len(types))]
	m["NAT"] = natType
	if c.Present {
		m["AcceptedRelayPattern"] = strings.Join(c.Value, "")
	} else if verifC06Rand(seed, c.idx, 3)%2 == 0 {
		m["AcceptedRelayPattern"] = nil // explicit JSON null: also "no pattern"
	}
	b, err := json.Marshal(m)
	if err != nil {
		panic(err)
	}
	return b
}

func verifC06Registered(ctx *BrokerContext) (ids []string, heaps int) {
	ctx.snowflakeLock.Lock()
	defer ctx.snowflakeLock.Unlock()
	for id := range ctx.idToSnowflake {
		ids = append(ids, id)
	}
	sort.Strings(ids)
	return ids, ctx.snowflakes.Len() + ctx.restrictedSnowflakes.Len()
}

func verifC06Class(c *verifC06Case) string {
	if c.Present {
		return "pattern=sent"
	}
	return "pattern=absent(legacy)"
}

func verifC06RunConfig(cases []*verifC06Case, seed uint64, out *verifC06Out, stats *verifC06Stats) {
	allowed := strings.Join(cases[0].Allowed, "")
	presumed := strings.Join(cases[0].Presumed, "")
	ctx := NewBrokerContext(log.New(ioutil.Discard, "", 0))
	if err := ctx.InstallBridgeListProfile(strings.NewReader(verifC06Bridges), allowed, presumed); err != nil {
		panic(err)
	}
	ipc := &IPC{ctx}
	go ctx.Broker()

	nats := []string{NATUnrestricted, NATRestricted, NATUnknown, ""}
	start := func(c *verifC06Case) *verifC06Poll {
		p := &verifC06Poll{c: c, sid: "sid-" + strconv.Itoa(c.idx), done: make(chan struct{})}
		p.nat = nats[verifC06Rand(seed, c.idx, 1)%uint64(len(nats))]
		p.rec = httptest.NewRecorder()
		body := verifC06PollBody(c, p.sid, p.nat, seed)
		go func() {
			defer close(p.done)
			r := httptest.NewRequest("POST", "http://snowflake.broker/proxy", bytes.NewReader(body))
			proxyPolls(ipc, p.rec, r)
		}()
		return p
	}
	returned := func(p *verifC06Poll, d time.Duration) bool {
		select {
		case <-p.done:
			return true
		default:
		}
		if d <= 0 {
			return false
		}
		select {
		case <-p.done:
			return true
		case <-time.After(d):
			return false
		}
	}
	status := func(p *verifC06Poll) string {
		var m struct{ Status string }
		if p.rec.Code != 200 {
			return fmt.Sprintf("HTTP %d", p.rec.Code)
		}
		if err := json.Unmarshal(p.rec.Body.Bytes(), &m); err != nil {
			return "undecodable body " + strconv.Quote(p.rec.Body.String())
		}
		return m.Status
	}

	// Phase 1: the polls that must be rejected.
	var rej, acc []*verifC06Poll
	for _, c := range cases {
		if c.Reject {
			rej = append(rej, start(c))
		}
	}
	// wait until every such poll has either returned or shows up as registered
	deadline := time.Now().Add(3 * time.Second)
	for {
		ids, _ := verifC06Registered(ctx)
		reg := map[string]bool{}
		for _, id := range ids {
			reg[id] = true
		}
		pending := 0
		for _, p := range rej {
			if !returned(p, 0) && !reg[p.sid] {
				pending++
			}
		}
		if pending == 0 || time.Now().After(deadline) {
			break
		}
		time.Sleep(time.Millisecond)
	}
	clean := true
	for _, p := range rej {
		if !returned(p, 0) {
			clean = false
			ids, _ := verifC06Registered(ctx)
			reg := false
			for _, id := range ids {
				reg = reg || id == p.sid
			}
			if reg {
				out.put(p.c, "broker/must-reject-registered/"+verifC06Class(p.c),
					fmt.Sprintf("allowed=%q presumed=%q poll pattern present=%v value=%q: not a superset of the allowed pattern, yet the poll was registered (waiting for a client) instead of rejected",
						allowed, presumed, p.c.Present, strings.Join(p.c.Value, "")))
			} else {
				out.put(p.c, "diverge/must-reject-no-response/"+verifC06Class(p.c), "poll neither answered within 3 s nor registered")
			}
			continue
		}
		if st := status(p); st != "incorrect relay pattern" {
			clean = false
			out.put(p.c, "broker/reject-not-explicit/"+verifC06Class(p.c),
				fmt.Sprintf("allowed=%q presumed=%q poll pattern present=%v value=%q must be rejected with status \"incorrect relay pattern\"; response: %s",
					allowed, presumed, p.c.Present, strings.Join(p.c.Value, ""), st))
			continue
		}
		stats.add(&stats.rejected, 1)
	}
	if len(rej) > 0 {
		ids, heaps := verifC06Registered(ctx)
		if clean && (len(ids) != 0 || heaps != 0) {
			out.put(rej[0].c, "broker/rejected-poll-left-registration",
				fmt.Sprintf("allowed=%q presumed=%q: after %d rejected polls idToSnowflake=%v heap entries=%d", allowed, presumed, len(rej), ids, heaps))
			clean = false
		}
		if clean {
			// "never gives such a proxy a client": a client of either NAT class finds nobody.
			for _, cnat := range []string{NATUnrestricted, NATRestricted} {
				w := httptest.NewRecorder()
				body := "1.0\n{\"offer\":\"fake\",\"nat\":\"" + cnat + "\",\"fingerprint\":\"2B280B23E1107BB62ABFC40DDCC8824814F80A72\"}"
				r := httptest.NewRequest("POST", "http://snowflake.broker/client", strings.NewReader(body))
				done := make(chan struct{})
				go func() { defer close(done); clientOffers(ipc, w, r) }()
				select {
				case <-done:
					if !strings.Contains(w.Body.String(), "no snowflake proxies currently available") {
						out.put(rej[0].c, "broker/client-given-to-rejected-proxy",
							fmt.Sprintf("allowed=%q presumed=%q: only rejected polls so far, client (%s) got %d %q", allowed, presumed, cnat, w.Code, w.Body.String()))
					}
				case <-time.After(3 * time.Second):
					out.put(rej[0].c, "broker/client-given-to-rejected-proxy",
						fmt.Sprintf("allowed=%q presumed=%q: only rejected polls so far, yet a client (%s) was matched and is waiting for an answer", allowed, presumed, cnat))
				}
				stats.add(&stats.clientProbes, 1)
			}
		}
	}

	// Phase 2: the polls the model registers (C06 demands nothing of them).
	for _, c := range cases {
		if !c.Reject {
			acc = append(acc, start(c))
		}
	}
	deadline = time.Now().Add(3 * time.Second)
	for {
		ids, _ := verifC06Registered(ctx)
		reg := map[string]bool{}
		for _, id := range ids {
			reg[id] = true
		}
		pending := 0
		for _, p := range acc {
			if !reg[p.sid] && !returned(p, 0) {
				pending++
			}
		}
		if pending == 0 || time.Now().After(deadline) {
			break
		}
		time.Sleep(time.Millisecond)
	}
	ids, _ := verifC06Registered(ctx)
	have := map[string]bool{}
	for _, id := range ids {
		have[id] = true
	}
	for _, p := range acc {
		if have[p.sid] {
			stats.add(&stats.registered, 1)
			continue
		}
		st := "no response"
		if returned(p, 0) {
			st = status(p)
		}
		out.put(p.c, "diverge/accepted-in-model-not-registered/"+verifC06Class(p.c),
			fmt.Sprintf("allowed=%q presumed=%q poll pattern present=%v value=%q is a superset of the allowed pattern; the model registers it, the code did not (%s)",
				allowed, presumed, p.c.Present, strings.Join(p.c.Value, ""), st))
	}
	// the registered polls are abandoned here; their 10 s timers end with the process
}

type verifC06Stats struct {
	mu                                 sync.Mutex
	rejected, registered, clientProbes int
}

func (s *verifC06Stats) add(f *int, n int) { s.mu.Lock(); *f += n; s.mu.Unlock() }

func TestVerifC06RelayPattern(t *testing.T) {
	in, outp := os.Getenv("VERIF_C06_CASES"), os.Getenv("VERIF_C06_OUT")
	if in == "" || outp == "" {
		t.Skip("VERIF_C06_CASES / VERIF_C06_OUT not set")
	}
	seed, _ := strconv.ParseUint(os.Getenv("VERIF_SEED"), 10, 64)
	log.SetOutput(ioutil.Discard)
	f, err := os.Open(in)
	if err != nil {
		t.Fatal(err)
	}
	defer f.Close()
	groups := map[string][]*verifC06Case{}
	var keys []string
	sc := bufio.NewScanner(f)
	sc.Buffer(make([]byte, 1<<20), 1<<26)
	n := 0
	for sc.Scan() {
		if len(bytes.TrimSpace(sc.Bytes())) == 0 {
			continue
		}
		c := &verifC06Case{}
		if err := json.Unmarshal(sc.Bytes(), c); err != nil {
			t.Fatalf("bad case %d: %v", n, err)
		}
		c.idx = n
		n++
		k := strings.Join(c.Allowed, "") + "\x00" + strings.Join(c.Presumed, "")
		if groups[k] == nil {
			keys = append(keys, k)
		}
		groups[k] = append(groups[k], c)
	}
	if err := sc.Err(); err != nil {
		t.Fatal(err)
	}
	out := &verifC06Out{}
	stats := &verifC06Stats{}
	sem := make(chan struct{}, 16)
	var wg sync.WaitGroup
	for _, k := range keys {
		wg.Add(1)
		sem <- struct{}{}
		go func(cs []*verifC06Case) {
			defer wg.Done()
			defer func() { <-sem }()
			defer func() {
				if v := recover(); v != nil {
					out.put(cs[0], "broker/panic", fmt.Sprint(v))
				}
			}()
			verifC06RunConfig(cs, seed, out, stats)
		}(groups[k])
	}
	wg.Wait()
	of, err := os.Create(outp)
	if err != nil {
		t.Fatal(err)
	}
	w := bufio.NewWriter(of)
	enc := json.NewEncoder(w)
	sort.Slice(out.res, func(i, j int) bool { return out.res[i].Idx < out.res[j].Idx })
	for _, r := range out.res {
		enc.Encode(r)
	}
	enc.Encode(map[string]interface{}{"summary": map[string]interface{}{
		"cases": n, "nontrivial": stats.rejected, "configs": len(keys),
		"rejected": stats.rejected, "registered": stats.registered, "client_probes": stats.clientProbes}})
	w.Flush()
	of.Close()
}
