package main

// C06 (c): the broker's poll-time relay-pattern policy, bound to
// spec/Matcher/RelayPolicy.tla.  Injected with `go test -overlay`; nothing is
// written into the repository.
//
// Input  (env VERIF_C06_CASES): ndjson, one HISTORY per line: a broker
//         configuration and the polls that arrive on it, in order
//         {"allowed":[chars],"presumed":[chars],"order":"forward|reverse|shuffle|tlc-history",
//          "polls":[{"present":bool,"value":[chars],"reject":bool,"idx":n}, ...]}
//         (allowed, presumed, the polls and `reject` are printed by TLC; the
//         check arranges the single-poll cases of one configuration into
//         several orders, TLC's own multi-poll histories come as they are).
// Output (env VERIF_C06_OUT): ndjson of non-conforming polls {"idx","sig","detail","case"}
//         and one {"summary":{...}} line.
//
// For every line a fresh BrokerContext is configured through
// InstallBridgeListProfile (the path main() uses) and the polls are sent ONE
// AFTER THE OTHER through the real HTTP handler proxyPolls: the next poll is
// sent when the previous one has been answered or has shown up as registered.
// The verdict on a poll must not depend on what was polled before.
// Signatures:
//   broker/...    the code violates C06 (a poll that must be rejected is
//                 registered / not answered with "incorrect relay pattern" / a
//                 client is handed to it)
//   diverge/...   the code differs from the model in a way C06 does not
//                 forbid (a poll that need not be rejected is rejected or not
//                 registered): no verdict.

import (
	"bufio"
	"bytes"
	"encoding/json"
	"fmt"
	"io/ioutil"
	"log"
	"net/http/httptest"
	"os"
	"sort"
	"strconv"
	"strings"
	"sync"
	"testing"
	"time"
)

type verifC06Case struct {
	Allowed  []string `json:"-"`
	Presumed []string `json:"-"`
	Present  bool     `json:"present"`
	Value    []string `json:"value"`
	Reject   bool     `json:"reject"`
	Idx      int      `json:"idx"`
	idx      int
	order    string
	pos      int
	before   string // the polls handled earlier on the same context
}

type verifC06History struct {
	Allowed  []string        `json:"allowed"`
	Presumed []string        `json:"presumed"`
	Order    string          `json:"order"`
	Polls    []*verifC06Case `json:"polls"`
}

type verifC06Result struct {
	Idx    int         `json:"idx"`
	Sig    string      `json:"sig"`
	Detail string      `json:"detail"`
	Case   interface{} `json:"case,omitempty"`
}

type verifC06Out struct {
	mu  sync.Mutex
	res []verifC06Result
}

func (o *verifC06Out) put(c *verifC06Case, sig, detail string) {
	o.mu.Lock()
	defer o.mu.Unlock()
	o.res = append(o.res, verifC06Result{Idx: c.idx, Sig: sig, Detail: detail, Case: map[string]interface{}{
		"allowed": strings.Join(c.Allowed, ""), "presumed": strings.Join(c.Presumed, ""),
		"present": c.Present, "value": strings.Join(c.Value, ""), "reject": c.Reject,
		"order": c.order, "position": c.pos, "earlier_polls": c.before}})
}

// splitmix64, keyed by seed and case index
func verifC06Rand(seed uint64, idx int, salt uint64) uint64 {
	z := seed*0x9e3779b97f4a7c15 + uint64(idx+1)*0xbf58476d1ce4e5b9 + salt*0x94d049bb133111eb
	z = (z ^ (z >> 30)) * 0xbf58476d1ce4e5b9
	z = (z ^ (z >> 27)) * 0x94d049bb133111eb
	return z ^ (z >> 31)
}

const verifC06Bridges = `{"displayName":"default", "webSocketAddress":"wss://snowflake.torproject.net/", "fingerprint":"2B280B23E1107BB62ABFC40DDCC8824814F80A72"}
`

type verifC06Poll struct {
	c    *verifC06Case
	sid  string
	nat  string
	rec  *httptest.ResponseRecorder
	done chan struct{}
}

func verifC06PollBody(c *verifC06Case, sid, natType string, seed uint64) []byte {
	m := map[string]interface{}{"Sid": sid, "Version": "1.3", "Clients": 0}
	types := []string{"standalone", "webext", "badge", "iptproxy", "somethingelse"}
	m["Type"] = types[verifC06Rand(seed, c.idx, 2)%uint64(len(types))]
	m["NAT"] = natType
	if c.Present {
		m["AcceptedRelayPattern"] = strings.Join(c.Value, "")
	} else if verifC06Rand(seed, c.idx, 3)%2 == 0 {
		m["AcceptedRelayPattern"] = nil // explicit JSON null: also "no pattern"
	}
	b, err := json.Marshal(m)
	if err != nil {
		panic(err)
	}
	return b
}

func verifC06Registered(ctx *BrokerContext) (ids []string, heaps int) {
	ctx.snowflakeLock.Lock()
	defer ctx.snowflakeLock.Unlock()
	for id := range ctx.idToSnowflake {
		ids = append(ids, id)
	}
	sort.Strings(ids)
	return ids, ctx.snowflakes.Len() + ctx.restrictedSnowflakes.Len()
}

func verifC06Class(c *verifC06Case) string {
	if c.Present {
		return "pattern=sent"
	}
	return "pattern=absent(legacy)"
}

func verifC06Describe(c *verifC06Case) string {
	if !c.Present {
		return "legacy"
	}
	return strconv.Quote(strings.Join(c.Value, ""))
}

func verifC06RunHistory(hy *verifC06History, seed uint64, out *verifC06Out, stats *verifC06Stats) {
	cases := hy.Polls
	allowed := strings.Join(hy.Allowed, "")
	presumed := strings.Join(hy.Presumed, "")
	ctx := NewBrokerContext(log.New(ioutil.Discard, "", 0))
	if err := ctx.InstallBridgeListProfile(strings.NewReader(verifC06Bridges), allowed, presumed); err != nil {
		panic(err)
	}
	ipc := &IPC{ctx}
	go ctx.Broker()

	nats := []string{NATUnrestricted, NATRestricted, NATUnknown, ""}
	start := func(c *verifC06Case, pos int) *verifC06Poll {
		p := &verifC06Poll{c: c, sid: fmt.Sprintf("sid-%d-%d", c.idx, pos), done: make(chan struct{})}
		p.nat = nats[verifC06Rand(seed, c.idx, 1)%uint64(len(nats))]
		p.rec = httptest.NewRecorder()
		body := verifC06PollBody(c, p.sid, p.nat, seed)
		go func() {
			defer close(p.done)
			r := httptest.NewRequest("POST", "http://snowflake.broker/proxy", bytes.NewReader(body))
			proxyPolls(ipc, p.rec, r)
		}()
		return p
	}
	returned := func(p *verifC06Poll) bool {
		select {
		case <-p.done:
			return true
		default:
			return false
		}
	}
	registered := func(sid string) bool {
		ctx.snowflakeLock.Lock()
		defer ctx.snowflakeLock.Unlock()
		_, ok := ctx.idToSnowflake[sid]
		return ok
	}
	status := func(p *verifC06Poll) string {
		var m struct{ Status string }
		if p.rec.Code != 200 {
			return fmt.Sprintf("HTTP %d", p.rec.Code)
		}
		if err := json.Unmarshal(p.rec.Body.Bytes(), &m); err != nil {
			return "undecodable body " + strconv.Quote(p.rec.Body.String())
		}
		return m.Status
	}
	// "never gives such a proxy a client": while nothing may be registered, a
	// client of either NAT class finds nobody.
	probe := func(c *verifC06Case) {
		for _, cnat := range []string{NATUnrestricted, NATRestricted} {
			w := httptest.NewRecorder()
			body := "1.0\n{\"offer\":\"fake\",\"nat\":\"" + cnat + "\",\"fingerprint\":\"2B280B23E1107BB62ABFC40DDCC8824814F80A72\"}"
			r := httptest.NewRequest("POST", "http://snowflake.broker/client", strings.NewReader(body))
			done := make(chan struct{})
			go func() { defer close(done); clientOffers(ipc, w, r) }()
			select {
			case <-done:
				if !strings.Contains(w.Body.String(), "no snowflake proxies currently available") {
					out.put(c, "broker/client-given-to-rejected-proxy",
						fmt.Sprintf("allowed=%q presumed=%q: only polls that must be rejected so far (%s), client (%s) got %d %q", allowed, presumed, c.before, cnat, w.Code, w.Body.String()))
				}
			case <-time.After(3 * time.Second):
				out.put(c, "broker/client-given-to-rejected-proxy",
					fmt.Sprintf("allowed=%q presumed=%q: only polls that must be rejected so far (%s), yet a client (%s) was matched and is waiting for an answer", allowed, presumed, c.before, cnat))
			}
			stats.add(&stats.clientProbes, 1)
		}
	}

	var earlier []string
	wantRegistered := map[string]bool{}
	clean, probed := true, false
	for pos, c := range cases {
		c.Allowed, c.Presumed, c.order, c.pos = hy.Allowed, hy.Presumed, hy.Order, pos
		c.before = strings.Join(earlier, ", ")
		earlier = append(earlier, verifC06Describe(c))
		what := fmt.Sprintf("allowed=%q presumed=%q, poll %d of this context (%s order; earlier polls: [%s]): pattern %s",
			allowed, presumed, pos+1, hy.Order, c.before, verifC06Describe(c))
		if !c.Reject && !probed {
			// first admissible poll of this context: until now nothing may be registered
			if clean && pos > 0 {
				probe(cases[pos-1])
			}
			probed = true
		}
		p := start(c, pos)
		// the poll is handled when it has been answered or shows up as registered
		deadline := time.Now().Add(3 * time.Second)
		for !returned(p) && !registered(p.sid) && time.Now().Before(deadline) {
			time.Sleep(20 * time.Microsecond)
		}
		ret := returned(p)
		reg := !ret && registered(p.sid)
		switch {
		case c.Reject && reg:
			clean = false
			out.put(c, "broker/must-reject-registered/"+verifC06Class(c),
				what+" is not a superset of the allowed pattern, yet the poll was registered (waiting for a client) instead of rejected")
		case c.Reject && !ret:
			clean = false
			out.put(c, "diverge/must-reject-no-response/"+verifC06Class(c), what+": neither answered within 3 s nor registered")
		case c.Reject:
			if st := status(p); st != "incorrect relay pattern" {
				clean = false
				out.put(c, "broker/reject-not-explicit/"+verifC06Class(c), what+" must be rejected with status \"incorrect relay pattern\"; response: "+st)
			} else if registered(p.sid) {
				clean = false
				out.put(c, "broker/rejected-poll-left-registration", what+": answered \"incorrect relay pattern\" but the proxy is registered")
			} else {
				stats.add(&stats.rejected, 1)
			}
		case reg:
			wantRegistered[p.sid] = true
			stats.add(&stats.registered, 1)
		default:
			st := "no response"
			if ret {
				st = status(p)
			}
			out.put(c, "diverge/accepted-in-model-not-registered/"+verifC06Class(c),
				what+" is a superset of the allowed pattern; the model registers it, the code did not ("+st+")")
		}
	}
	// exactly the polls the model registers are registered
	ids, heaps := verifC06Registered(ctx)
	if clean {
		extra := []string{}
		for _, id := range ids {
			if !wantRegistered[id] {
				extra = append(extra, id)
			}
		}
		if len(extra) > 0 || heaps > len(wantRegistered) {
			out.put(cases[len(cases)-1], "broker/rejected-poll-left-registration",
				fmt.Sprintf("allowed=%q presumed=%q (%s order): idToSnowflake has %v beyond the admissible polls, heap entries=%d for %d admissible", allowed, presumed, hy.Order, extra, heaps, len(wantRegistered)))
			clean = false
		}
		if clean && !probed && len(wantRegistered) == 0 {
			c := cases[len(cases)-1]
			c.before = strings.Join(earlier, ", ")
			probe(c)
		}
	}
	// the registered polls are abandoned here; their 10 s timers end with the process
}

type verifC06Stats struct {
	mu                                 sync.Mutex
	rejected, registered, clientProbes int
}

func (s *verifC06Stats) add(f *int, n int) { s.mu.Lock(); *f += n; s.mu.Unlock() }

func TestVerifC06RelayPattern(t *testing.T) {
	in, outp := os.Getenv("VERIF_C06_CASES"), os.Getenv("VERIF_C06_OUT")
	if in == "" || outp == "" {
		t.Skip("VERIF_C06_CASES / VERIF_C06_OUT not set")
	}
	seed, _ := strconv.ParseUint(os.Getenv("VERIF_SEED"), 10, 64)
	log.SetOutput(ioutil.Discard)
	f, err := os.Open(in)
	if err != nil {
		t.Fatal(err)
	}
	defer f.Close()
	var hys []*verifC06History
	sc := bufio.NewScanner(f)
	sc.Buffer(make([]byte, 1<<20), 1<<26)
	n := 0
	for sc.Scan() {
		if len(bytes.TrimSpace(sc.Bytes())) == 0 {
			continue
		}
		hy := &verifC06History{}
		if err := json.Unmarshal(sc.Bytes(), hy); err != nil || len(hy.Polls) == 0 {
			t.Fatalf("bad history %d: %v", len(hys), err)
		}
		for _, c := range hy.Polls {
			c.idx = c.Idx
			n++
		}
		hys = append(hys, hy)
	}
	if err := sc.Err(); err != nil {
		t.Fatal(err)
	}
	out := &verifC06Out{}
	stats := &verifC06Stats{}
	sem := make(chan struct{}, 16)
	var wg sync.WaitGroup
	for _, hy := range hys {
		wg.Add(1)
		sem <- struct{}{}
		go func(hy *verifC06History) {
			defer wg.Done()
			defer func() { <-sem }()
			defer func() {
				if v := recover(); v != nil {
					out.put(hy.Polls[0], "broker/panic", fmt.Sprint(v))
				}
			}()
			verifC06RunHistory(hy, seed, out, stats)
		}(hy)
	}
	wg.Wait()
	of, err := os.Create(outp)
	if err != nil {
		t.Fatal(err)
	}
	w := bufio.NewWriter(of)
	enc := json.NewEncoder(w)
	sort.Slice(out.res, func(i, j int) bool { return out.res[i].Idx < out.res[j].Idx })
	for _, r := range out.res {
		enc.Encode(r)
	}
	enc.Encode(map[string]interface{}{"summary": map[string]interface{}{
		"cases": n, "nontrivial": stats.rejected, "configs": len(hys),
		"rejected": stats.rejected, "registered": stats.registered, "client_probes": stats.clientProbes}})
	w.Flush()
	of.Close()
}
