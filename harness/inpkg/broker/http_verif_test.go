//go:build verif
// +build verif

// HTTP-layer cases of spec/BrokerHTTP executed against the real handlers.
// The rig only concretises request classes, calls ServeHTTP and classifies
// what came back; the expected response is computed by TLC and compared by
// lib/checks/c14.py.
package main

import (
	"bytes"
	"encoding/json"
	"fmt"
	"io/ioutil"
	"log"
	"net/http"
	"net/http/httptest"
	"os"
	"strings"
	"testing"
	"testing/synctest"
	"time"

	"git.torproject.org/pluggable-transports/snowflake.git/v2/common/amp"
	"git.torproject.org/pluggable-transports/snowflake.git/v2/common/messages"
	"github.com/prometheus/client_golang/prometheus/promhttp"
)

type vHTTPReq struct {
	Ep      string `json:"ep"`
	Method  string `json:"method"`
	Body    string `json:"body"`
	Nat     string `json:"nat"`
	Mfile   string `json:"mfile"`
	Framing string `json:"framing"`
}

// vOpaqueReader hides the concrete reader type so that nothing can learn the body length in advance.
type vOpaqueReader struct{ r *bytes.Reader }

func (o vOpaqueReader) Read(p []byte) (int, error) { return o.r.Read(p) }

type vHTTPCase struct {
	Idx int      `json:"idx"`
	Req vHTTPReq `json:"req"`
}

const vAllowedPattern = "snowflake.torproject.net$"

func vPad(prefix, suffix string, total int) string {
	n := total - len(prefix) - len(suffix)
	if n < 0 {
		n = 0
	}
	return prefix + strings.Repeat("x", n) + suffix
}

func vRandom(seed int64, n int) []byte {
	b := make([]byte, n)
	s := uint64(seed)*0x9e3779b97f4a7c15 + 1
	for i := range b {
		s ^= s << 13
		s ^= s >> 7
		s ^= s << 17
		b[i] = byte(s)
	}
	if b[0] == '{' {
		b[0] = 'r'
	}
	return b
}

func vClientPoll(offer, nat, fp string) []byte {
	m := map[string]string{"offer": offer}
	if nat != "" {
		m["nat"] = nat
	}
	if fp != "" {
		m["fingerprint"] = fp
	}
	b, _ := json.Marshal(m)
	return append([]byte("1.0\n"), b...)
}

func vBuildRequest(c *vHTTPCase, seed int64, metricsPath string) (http.Handler, *http.Request) {
	rq := c.Req
	var body []byte
	path := "/" + rq.Ep
	switch rq.Ep {
	case "proxy":
		switch rq.Body {
		case "empty":
		case "valid":
			body = []byte(fmt.Sprintf(`{"Sid":"h%d","Version":"1.3","Type":"standalone","NAT":"unknown","Clients":0,"AcceptedRelayPattern":"%s"}`, c.Idx, vAllowedPattern))
		case "validNoRelayField":
			body = []byte(fmt.Sprintf(`{"Sid":"h%d","Version":"1.2","Type":"webext","NAT":"restricted","Clients":8}`, c.Idx))
		case "rejectedPattern":
			body = []byte(fmt.Sprintf(`{"Sid":"h%d","Version":"1.3","Type":"standalone","NAT":"unknown","Clients":0,"AcceptedRelayPattern":"^only.example$"}`, c.Idx))
		case "missingSid":
			body = []byte(`{"Version":"1.3","Type":"standalone","NAT":"unknown","Clients":0}`)
		case "badVersion":
			body = []byte(fmt.Sprintf(`{"Sid":"h%d","Version":"2.0","Type":"standalone","NAT":"unknown","Clients":0}`, c.Idx))
		case "invalidNAT":
			body = []byte(fmt.Sprintf(`{"Sid":"h%d","Version":"1.3","Type":"standalone","NAT":"symmetric","Clients":0,"AcceptedRelayPattern":"%s"}`, c.Idx, vAllowedPattern))
		case "unknownType":
			body = []byte(fmt.Sprintf(`{"Sid":"h%d","Version":"1.3","Type":"toaster","NAT":"","Clients":0,"AcceptedRelayPattern":"%s"}`, c.Idx, vAllowedPattern))
		case "negativeClients":
			body = []byte(fmt.Sprintf(`{"Sid":"h%d","Version":"1.3","Type":"standalone","NAT":"unknown","Clients":-5,"AcceptedRelayPattern":"%s"}`, c.Idx, vAllowedPattern))
		case "notJSON":
			body = []byte(`Sid=abc&Version=1.3`)
		case "jsonArray":
			body = []byte(`["Sid","Version"]`)
		case "random":
			body = vRandom(seed+int64(c.Idx), 300)
		case "atLimit":
			body = []byte(vPad(fmt.Sprintf(`{"Sid":"h%d","Version":"1.3","NAT":"unknown","Clients":0,"AcceptedRelayPattern":"%s","Type":"`, c.Idx, vAllowedPattern), `"}`, readLimit))
		case "overLimit":
			body = []byte(vPad(fmt.Sprintf(`{"Sid":"h%d","Version":"1.3","NAT":"unknown","Clients":0,"AcceptedRelayPattern":"%s","Type":"`, c.Idx, vAllowedPattern), `"}`, readLimit+1))
		}
	case "client":
		offer := fmt.Sprintf(`{"type":"offer","sdp":"OFFER:h%d:0"}`, c.Idx)
		switch rq.Body {
		case "empty":
		case "valid":
			body = vClientPoll(offer, "unknown", "")
		case "validB2":
			body = vClientPoll(offer, "restricted", vB2FP)
		case "badVersion":
			body = append([]byte("2.0\n"), vClientPoll(offer, "", "")[4:]...)
		case "noNewline":
			body = []byte(`1.0 {"offer":"x"}`)
		case "noOffer":
			body = []byte("1.0\n{\"nat\":\"unknown\"}")
		case "badFingerprint":
			body = vClientPoll(offer, "unknown", "zzzz")
		case "shortFingerprint":
			body = vClientPoll(offer, "unknown", vB2FP[:38])
		case "unlistedFingerprint":
			body = vClientPoll(offer, "unknown", vUnlistedFP)
		case "invalidNAT":
			body = vClientPoll(offer, "symmetric", "")
		case "notJSON":
			body = []byte("1.0\noffer=abc")
		case "legacy":
			body = []byte(offer)
		case "legacyGarbage":
			body = []byte("{" + string(vRandom(seed+int64(c.Idx), 120)))
		case "random":
			body = vRandom(seed+int64(c.Idx), 300)
		case "atLimit":
			body = []byte(vPad("1.0\n{\"nat\":\"unknown\",\"offer\":\"", "\"}", readLimit))
		case "overLimit":
			body = []byte(vPad("1.0\n{\"nat\":\"unknown\",\"offer\":\"", "\"}", readLimit+1))
		}
	case "answer":
		switch rq.Body {
		case "empty":
		case "validUnknownSid":
			body = []byte(`{"Version":"1.3","Sid":"nobody","Answer":"ANSWER:x:0"}`)
		case "missingAnswer":
			body = []byte(`{"Version":"1.3","Sid":"nobody"}`)
		case "missingSid":
			body = []byte(`{"Version":"1.3","Answer":"ANSWER:x:0"}`)
		case "badVersion":
			body = []byte(`{"Version":"3.0","Sid":"nobody","Answer":"ANSWER:x:0"}`)
		case "notJSON":
			body = []byte(`Sid=nobody`)
		case "random":
			body = vRandom(seed+int64(c.Idx), 300)
		case "atLimit":
			body = []byte(vPad(`{"Version":"1.3","Sid":"nobody","Answer":"`, `"}`, readLimit))
		case "overLimit":
			body = []byte(vPad(`{"Version":"1.3","Sid":"nobody","Answer":"`, `"}`, readLimit+1))
		}
	case "amp":
		offer := fmt.Sprintf(`{"type":"offer","sdp":"OFFER:h%d:0"}`, c.Idx)
		good := amp.EncodePath(vClientPoll(offer, "unknown", ""))
		i := strings.LastIndex(good, "/")
		b64 := good[i+1:]
		switch rq.Body {
		case "valid":
			path = "/amp/client/" + good
		case "validPadded":
			path = "/amp/client/0somepadding/" + b64
		case "validSlashes":
			path = "/amp/client/0a/b//c/" + b64
		case "badBase64":
			path = "/amp/client/0/!!!notbase64***"
		case "missingVersion":
			path = "/amp/client//" + b64
		case "wrongVersion":
			path = "/amp/client/1/" + b64
		case "emptyPath":
			path = "/amp/client/"
		case "pollBadVersion":
			p := amp.EncodePath(append([]byte("9.9\n"), vClientPoll(offer, "", "")[4:]...))
			path = "/amp/client/" + p
		case "pollInvalidNAT":
			path = "/amp/client/" + amp.EncodePath(vClientPoll(offer, "symmetric", ""))
		case "pollUnlistedFingerprint":
			path = "/amp/client/" + amp.EncodePath(vClientPoll(offer, "unknown", vUnlistedFP))
		case "noPrefix":
			path = "/amp/clientx"
		}
	default:
		if rq.Body == "random" {
			body = vRandom(seed+int64(c.Idx), 200)
		}
	}
	req, err := http.NewRequest(rq.Method, "http://broker.example"+path, bytes.NewReader(body))
	if err != nil {
		panic(err)
	}
	req.RemoteAddr = "192.0.2.9:1234"
	if rq.Framing == "chunked" {
		// what the server side of net/http presents for a chunked (or length-less HTTP/2) request
		req.Body = ioutil.NopCloser(vOpaqueReader{bytes.NewReader(body)})
		req.ContentLength = -1
		req.TransferEncoding = []string{"chunked"}
		req.GetBody = nil
	}
	switch rq.Nat {
	case "absent":
	case "empty":
		req.Header.Set("Snowflake-NAT-Type", "")
	case "bogus":
		req.Header.Set("Snowflake-NAT-Type", "symmetric")
	default:
		req.Header.Set("Snowflake-NAT-Type", rq.Nat)
	}
	return nil, req
}

func vClassifyClientErr(e string) string {
	switch {
	case e == messages.StrNoProxies:
		return "noproxies"
	case e == messages.StrTimedOut:
		return "timeout"
	case e == "unsupported message version":
		return "err:version"
	case e == "no supplied offer":
		return "err:offer"
	case e == "cannot decode fingerprint":
		return "err:fingerprint"
	case e == "invalid NAT type":
		return "err:nat"
	case e == "cannot decode URL path":
		return "err:path"
	}
	return "err:json"
}

func vClassifyBody(ep string, code int, body []byte, metricsContent string) string {
	if len(body) == 0 {
		return "empty"
	}
	switch ep {
	case "proxy":
		offer, _, _, err := messages.DecodePollResponseWithRelayURL(body)
		if err != nil {
			return "status:" + err.Error()
		}
		if offer == "" {
			return "nomatch"
		}
		return "offer"
	case "client":
		resp, err := messages.DecodeClientPollResponse(body)
		if err != nil {
			if code == 200 && strings.HasPrefix(string(body), "ANSWER:") {
				return "answer"
			}
			return "undecodable"
		}
		if resp.Error == "" {
			return "answer"
		}
		return vClassifyClientErr(resp.Error)
	case "amp":
		dec, err := amp.NewArmorDecoder(bytes.NewReader(body))
		if err != nil {
			return "amp:badarmor"
		}
		plain, err := ioutil.ReadAll(dec)
		if err != nil {
			return "amp:badarmor"
		}
		resp, err := messages.DecodeClientPollResponse(plain)
		if err != nil {
			return "amp:undecodable"
		}
		if resp.Error == "" {
			return "amp:answer"
		}
		return "amp:" + vClassifyClientErr(resp.Error)
	case "answer":
		ok, err := messages.DecodeAnswerResponse(body)
		if err != nil {
			return "undecodable"
		}
		if ok {
			return "success"
		}
		return "gone"
	case "debug":
		if strings.HasPrefix(string(body), "current snowflakes available:") {
			return "debug"
		}
	case "robots":
		if string(body) == "User-agent: *\nDisallow: /\n" {
			return "robots"
		}
	case "prometheus":
		if strings.Contains(string(body), "# HELP") || strings.Contains(string(body), "# TYPE") {
			return "prometheus"
		}
	case "metrics":
		if string(body) == metricsContent {
			return "metricsfile"
		}
	}
	return "other"
}

func (r *vRig) httpHandler(ep string, mfile string, metricsPath string) http.Handler {
	switch ep {
	case "proxy":
		return SnowflakeHandler{r.ipc, proxyPolls}
	case "client":
		return SnowflakeHandler{r.ipc, clientOffers}
	case "answer":
		return SnowflakeHandler{r.ipc, proxyAnswers}
	case "amp":
		return SnowflakeHandler{r.ipc, ampClientOffers}
	case "debug":
		return SnowflakeHandler{r.ipc, debugHandler}
	case "metrics":
		name := ""
		if mfile == "present" {
			name = metricsPath
		} else if mfile == "missing" {
			name = metricsPath + ".does-not-exist"
		}
		return MetricsHandler{name, metricsHandler}
	case "prometheus":
		return promhttp.HandlerFor(r.ctx.metrics.promMetrics.registry, promhttp.HandlerOpts{})
	case "robots":
		return http.HandlerFunc(robotsTxtHandler)
	}
	panic("unknown endpoint " + ep)
}

func (r *vRig) availNow() int {
	r.ctx.snowflakeLock.Lock()
	defer r.ctx.snowflakeLock.Unlock()
	return len(r.ctx.idToSnowflake)
}

// standard exchange after a case: one proxy, one client, one answer must still work
func (r *vRig) exchangeStillWorks(idx int) string {
	sid := fmt.Sprintf("x%d", idx)
	pollBody, _ := messages.EncodeProxyPollRequestWithRelayPrefix(sid, "standalone", "unrestricted", 0, vAllowedPattern)
	pw, cw, aw := httptest.NewRecorder(), httptest.NewRecorder(), httptest.NewRecorder()
	done := make(chan string, 3)
	call := func(name string, h http.Handler, w *httptest.ResponseRecorder, req *http.Request) {
		go func() {
			defer func() {
				if v := recover(); v != nil {
					done <- name + ":panic"
					return
				}
				done <- name
			}()
			h.ServeHTTP(w, req)
		}()
	}
	preq, _ := http.NewRequest("POST", "http://broker.example/proxy", bytes.NewReader(pollBody))
	preq.RemoteAddr = "192.0.2.10:99"
	call("p", SnowflakeHandler{r.ipc, proxyPolls}, pw, preq)
	synctest.Wait()
	creq, _ := http.NewRequest("POST", "http://broker.example/client", bytes.NewReader(vClientPoll(`{"type":"offer","sdp":"OFFER:x:0"}`, "restricted", "")))
	call("c", SnowflakeHandler{r.ipc, clientOffers}, cw, creq)
	synctest.Wait()
	abody, _ := messages.EncodeAnswerRequest("ANSWER:x:0", sid)
	areq, _ := http.NewRequest("POST", "http://broker.example/answer", bytes.NewReader(abody))
	call("a", SnowflakeHandler{r.ipc, proxyAnswers}, aw, areq)
	synctest.Wait()
	time.Sleep(25 * time.Second)
	synctest.Wait()
	got := 0
	for {
		select {
		case n := <-done:
			if strings.HasSuffix(n, ":panic") {
				return "panic in " + n
			}
			got++
			continue
		default:
		}
		break
	}
	if got != 3 {
		return fmt.Sprintf("only %d of 3 requests returned", got)
	}
	if vClassifyBody("proxy", pw.Code, pw.Body.Bytes(), "") != "offer" {
		return "proxy got " + vClassifyBody("proxy", pw.Code, pw.Body.Bytes(), "")
	}
	if vClassifyBody("client", cw.Code, cw.Body.Bytes(), "") != "answer" {
		return "client got " + vClassifyBody("client", cw.Code, cw.Body.Bytes(), "")
	}
	if vClassifyBody("answer", aw.Code, aw.Body.Bytes(), "") != "success" {
		return "answer got " + vClassifyBody("answer", aw.Code, aw.Body.Bytes(), "")
	}
	if r.availNow() != 0 {
		return "registrations left behind"
	}
	return "ok"
}

func TestVerifBrokerHTTP(t *testing.T) {
	in, out := os.Getenv("VERIF_IN"), os.Getenv("VERIF_OUT")
	if in == "" || out == "" {
		t.Skip("VERIF_IN / VERIF_OUT not set")
	}
	log.SetOutput(ioutil.Discard)
	seed := int64(1)
	fmt.Sscan(os.Getenv("VERIF_SEED"), &seed)
	data, err := ioutil.ReadFile(in)
	if err != nil {
		t.Fatal(err)
	}
	f, err := os.Create(out)
	if err != nil {
		t.Fatal(err)
	}
	defer f.Close()
	enc := json.NewEncoder(f)
	metricsContent := "snowflake-stats-end 2026-01-01 00:00:00 (86400 s)\nsnowflake-ips \n"
	mf, err := ioutil.TempFile("", "verif-metrics")
	if err != nil {
		t.Fatal(err)
	}
	mf.WriteString(metricsContent)
	mf.Close()
	defer os.Remove(mf.Name())

	for _, line := range bytes.Split(data, []byte("\n")) {
		if len(bytes.TrimSpace(line)) == 0 {
			continue
		}
		var c vHTTPCase
		if err := json.Unmarshal(line, &c); err != nil {
			t.Fatalf("bad case: %v", err)
		}
		rig := vNewRig()
		bridges := `{"displayName":"default", "webSocketAddress":"wss://snowflake.torproject.net/", "fingerprint":"` + vDefaultFP + `"}
{"displayName":"b2", "webSocketAddress":"wss://b2.snowflake.torproject.net/", "fingerprint":"` + vB2FP + `"}
`
		if err := rig.ctx.InstallBridgeListProfile(strings.NewReader(bridges), vAllowedPattern, vAllowedPattern); err != nil {
			t.Fatal(err)
		}
		obs := map[string]interface{}{"idx": c.Idx}
		func() {
			defer func() {
				if v := recover(); v != nil {
					if !strings.Contains(fmt.Sprint(v), "deadlock") {
						panic(v)
					}
					obs["stuck"] = true
				}
			}()
			synctest.Test(t, func(t *testing.T) {
				rig.ctx.proxyPolls = make(chan *ProxyPoll)
				go rig.ctx.Broker()
				_, req := vBuildRequest(&c, seed, mf.Name())
				h := rig.httpHandler(c.Req.Ep, c.Req.Mfile, mf.Name())
				w := httptest.NewRecorder()
				done := make(chan string, 1)
				go func() {
					defer func() {
						if v := recover(); v != nil {
							done <- fmt.Sprint("panic: ", v)
							return
						}
						done <- ""
					}()
					h.ServeHTTP(w, req)
				}()
				synctest.Wait()
				finished := false
				select {
				case p := <-done:
					finished = true
					obs["panic"] = p
					obs["waits"] = false
					obs["registers"] = false
				default:
					obs["waits"] = true
					obs["registers"] = rig.availNow() > 0
					time.Sleep(25 * time.Second)
					synctest.Wait()
					select {
					case p := <-done:
						finished = true
						obs["panic"] = p
					default:
					}
				}
				obs["returned"] = finished
				if finished {
					obs["status"] = w.Code
					obs["body"] = vClassifyBody(c.Req.Ep, w.Code, w.Body.Bytes(), metricsContent)
					obs["avail_after"] = rig.availNow()
					obs["after"] = rig.exchangeStillWorks(c.Idx)
				}
				close(rig.ctx.proxyPolls)
			})
		}()
		if err := enc.Encode(obs); err != nil {
			t.Fatal(err)
		}
	}
}
