package main

// BridgeList extension of C03: the broker's bridge list (broker/bridge-list.go,
// common/bridgefingerprint, InstallBridgeListProfile, and the use the IPC pair
// ClientOffers / ProxyPolls makes of it), bound to spec/BridgeList.
// Injected with `go test -overlay`; nothing is written into the repository.
//
// Input  (env VERIF_BL_CASES): ndjson printed by TLC (spec/BridgeList, Emit / EmitOffer):
//   {"kind":"load","lines":[{"c":class,"b":bridge},..],"v":variant,"cut":k,"prev":rows,
//    "fresh":[outcome..],"reload":[outcome..],"code":[outcome,outcome]}
//        outcome = {"e":error?,"t":[[b,dn,ws]..],"g":[[b,found,dn,ws]..]}: the ALLOWED
//        results of LoadBridgeInfo on a fresh holder / on a holder that holds `prev`
//   {"kind":"offer","lines":..,"v":..,"cut":..,"defaults":{"fingerprint","address"},
//    "builtin":{"t":rows,"offers":[..]},"after":[{"e","t","offers":[{"want","refused","b","ws"}..]}..]}
// Output (env VERIF_BL_OUT): ndjson of non-conforming results {"part","sig","detail","case","size"}
//         and one {"summary":{..}} line; env VERIF_BL_TRACES: the traces of the
//         concurrent part, judged by TLC (spec/BridgeList/BridgeList_Trace.tla).
//
// The driver only SPELLS the abstract files (several renderings per line class,
// chosen from VERIF_SEED and the case index), executes the real code and
// compares data with what TLC printed.  Nothing here knows what a file means.

import (
	"bufio"
	"bytes"
	"encoding/hex"
	"encoding/json"
	"errors"
	"fmt"
	"io"
	"io/ioutil"
	"log"
	"os"
	"runtime"
	"sort"
	"strconv"
	"strings"
	"sync"
	"sync/atomic"
	"testing"
	"time"

	"git.torproject.org/pluggable-transports/snowflake.git/v2/common/bridgefingerprint"
	"git.torproject.org/pluggable-transports/snowflake.git/v2/common/messages"
)

type vblLine struct {
	C string `json:"c"`
	B int    `json:"b"`
}

type vblOutcome struct {
	E bool    `json:"e"`
	T [][]int `json:"t"`
	G [][]int `json:"g"`
}

type vblOffer struct {
	Want    int  `json:"want"`
	Refused bool `json:"refused"`
	B       int  `json:"b"`
	Ws      int  `json:"ws"`
}

type vblAfter struct {
	E      bool       `json:"e"`
	T      [][]int    `json:"t"`
	Offers []vblOffer `json:"offers"`
}

type vblCase struct {
	Kind     string       `json:"kind"`
	Lines    []vblLine    `json:"lines"`
	V        string       `json:"v"`
	Cut      int          `json:"cut"`
	Prev     [][]int      `json:"prev"`
	Fresh    []vblOutcome `json:"fresh"`
	Reload   []vblOutcome `json:"reload"`
	Code     []vblOutcome `json:"code"`
	Defaults *struct {
		Fingerprint string `json:"fingerprint"`
		Address     string `json:"address"`
	} `json:"defaults"`
	Builtin *struct {
		T      [][]int    `json:"t"`
		Offers []vblOffer `json:"offers"`
	} `json:"builtin"`
	After []vblAfter `json:"after"`
	Rid   *int       `json:"rid"` // rendering id: the position in the check's case list (kept in replay files)
	idx   int
}

type vblResult struct {
	Part   string      `json:"part"`
	Sig    string      `json:"sig"`
	Detail string      `json:"detail"`
	Case   interface{} `json:"case,omitempty"`
	Size   int         `json:"size"`
	Count  int         `json:"count"`
}

// one result per signature: the one with the fewest lines, and how many there were
type vblOut struct {
	mu    sync.Mutex
	best  map[string]vblResult
	count map[string]int
}

func (o *vblOut) put(r vblResult) {
	o.mu.Lock()
	defer o.mu.Unlock()
	if o.best == nil {
		o.best, o.count = map[string]vblResult{}, map[string]int{}
	}
	o.count[r.Sig]++
	if b, ok := o.best[r.Sig]; !ok || r.Size < b.Size {
		o.best[r.Sig] = r
	}
}

func (o *vblOut) results() []vblResult {
	var out []vblResult
	for sig, r := range o.best {
		r.Count = o.count[sig]
		out = append(out, r)
	}
	sort.Slice(out, func(i, j int) bool {
		if out[i].Size != out[j].Size {
			return out[i].Size < out[j].Size
		}
		return out[i].Sig < out[j].Sig
	})
	return out
}

// splitmix64, keyed by seed, case index and a salt
func vblRand(seed uint64, idx int, salt uint64) uint64 {
	z := seed*0x9e3779b97f4a7c15 + uint64(idx+1)*0xbf58476d1ce4e5b9 + salt*0x94d049bb133111eb
	z = (z ^ (z >> 30)) * 0xbf58476d1ce4e5b9
	z = (z ^ (z >> 27)) * 0x94d049bb133111eb
	return z ^ (z >> 31)
}

type vblRng struct{ s uint64 }

func (r *vblRng) next() uint64 {
	r.s += 0x9e3779b97f4a7c15
	z := r.s
	z = (z ^ (z >> 30)) * 0xbf58476d1ce4e5b9
	z = (z ^ (z >> 27)) * 0x94d049bb133111eb
	return z ^ (z >> 31)
}
func (r *vblRng) n(k int) int { return int(r.next() % uint64(k)) }

// ---------------------------------------------------------------------------
// the universe: bridges, names, addresses (the spelling of TLC's numbers)

// bridge 1 is the default bridge: its fingerprint comes from the spec (VERIF_BL_DEFAULT_FP)
var vblFP = map[int]string{
	2:  "4E17A2B8F1C96D035A7B48E2C0D19F3366A5B7C8",
	3:  "A1B2C3D4E5F60718293A4B5C6D7E8F90A1B2C3D4E5F60718293A4B5C6D7E8F9C", // 32 bytes
	99: "00FFEE11DD22CC33BB44AA5599668877ABCDEF01",
}
var vblDefaultAddr string

func vblName(v int) string {
	switch {
	case v == 0:
		return ""
	case v == -2:
		return "default"
	}
	return fmt.Sprintf("bridge v%d", v)
}

func vblAddr(v int) string {
	switch {
	case v == 0:
		return ""
	case v == -2:
		return vblDefaultAddr
	}
	return fmt.Sprintf("wss://v%d.relay.example/ws", v)
}

var vblNameRev, vblAddrRev map[string]int
var vblFPRev map[string]int

func vblInitUniverse() {
	vblNameRev, vblAddrRev, vblFPRev = map[string]int{}, map[string]int{}, map[string]int{}
	for _, v := range append([]int{-2}, vblSeq(0, 40)...) {
		vblNameRev[vblName(v)] = v
		vblAddrRev[vblAddr(v)] = v
	}
	for b, f := range vblFP {
		raw, err := hex.DecodeString(f)
		if err != nil {
			panic(err)
		}
		vblFPRev[string(raw)] = b
	}
}

func vblSeq(a, b int) []int {
	out := []int{}
	for i := a; i <= b; i++ {
		out = append(out, i)
	}
	return out
}

func vblFingerprint(b int) bridgefingerprint.Fingerprint {
	raw, err := hex.DecodeString(vblFP[b])
	if err != nil {
		panic(err)
	}
	return bridgefingerprint.Fingerprint(raw)
}

// ---------------------------------------------------------------------------
// renderings

func vblJSONString(s string, r *vblRng, fancy bool) string {
	b, _ := json.Marshal(s)
	out := string(b)
	if fancy {
		switch r.n(3) {
		case 0:
			out = strings.Replace(out, "/", `\/`, -1)
		case 1:
			out = strings.Replace(out, " ", `\u0020`, -1)
			out = strings.Replace(out, "w", `\u0077`, 1)
		}
	}
	return out
}

func vblMixCase(s string, r *vblRng) string {
	switch r.n(3) {
	case 0:
		return strings.ToLower(s)
	case 1: // alternate
		b := []byte(strings.ToLower(s))
		up := false
		for i, c := range b {
			if c >= 'a' && c <= 'f' {
				if up {
					b[i] = c - 32
				}
				up = !up
			}
		}
		return string(b)
	}
	// lower-case first half only
	return strings.ToLower(s[:len(s)/2]) + s[len(s)/2:]
}

type vblMember struct{ k, v string }

func vblObject(ms []vblMember, r *vblRng, style int) string {
	var sb strings.Builder
	sep, col, open, clos := ",", ":", "{", "}"
	switch style {
	case 1: // as in the documentation
		sep = ", "
	case 2:
		sep, col, open, clos = " ,\t", " : ", "{ ", " }"
	}
	sb.WriteString(open)
	for i, m := range ms {
		if i > 0 {
			sb.WriteString(sep)
		}
		sb.WriteString(m.k)
		sb.WriteString(col)
		sb.WriteString(m.v)
	}
	sb.WriteString(clos)
	return sb.String()
}

// the three members of a well-formed record for bridge b whose name / address have versions dn / ws
func vblMembers(b, dn, ws int, r *vblRng, fancy bool) []vblMember {
	ms := []vblMember{
		{`"displayName"`, vblJSONString(vblName(dn), r, fancy)},
		{`"webSocketAddress"`, vblJSONString(vblAddr(ws), r, fancy)},
		{`"fingerprint"`, `"` + vblFP[b] + `"`},
	}
	return ms
}

func vblShuffle(ms []vblMember, r *vblRng) []vblMember {
	out := append([]vblMember{}, ms...)
	for i := len(out) - 1; i > 0; i-- {
		j := r.n(i + 1)
		out[i], out[j] = out[j], out[i]
	}
	return out
}

func vblOK(b, v int, r *vblRng) string {
	ms := vblMembers(b, v, v, r, r.n(3) == 0)
	if r.n(2) == 0 {
		ms = vblShuffle(ms, r)
	}
	s := vblObject(ms, r, r.n(3))
	switch r.n(16) {
	case 0, 1:
		s = "  " + s
	case 2, 3:
		s = s + " \t "
	case 4:
		s = "\t" + s + "  "
	case 5: // big, but below the scanner's limit (race builds: see vblBigSkip)
		n := 58000 + r.n(2000)
		if vblBigSkip > 1 && n%vblBigSkip != 0 {
			n = 100
		}
		s = s[:1] + strings.Repeat(" ", n) + s[1:]
	}
	return s
}

const vblLimit = 65536 // taken from the spec's ScannerLimit by the check (VERIF_BL_LIMIT), this is only the default

var vblScannerLimit = vblLimit
var vblBigSkip = 1 // VERIF_BL_BIGSKIP: run only one in so many files with a line of 58000 bytes or more

func vblPadTo(s string, r *vblRng) string {
	targets := []int{vblScannerLimit, vblScannerLimit + 1, vblScannerLimit + 464, 70000, 2*vblScannerLimit + 1}
	n := targets[r.n(len(targets))] - len(s)
	if n < 1 {
		n = 1
	}
	pad := strings.Repeat(" ", n)
	switch r.n(3) {
	case 0:
		return s[:1] + pad + s[1:] // inside the object
	case 1:
		return s + pad // trailing white space
	}
	return pad + s
}

func vblRenderLine(ln vblLine, i int, r *vblRng) string {
	b, v := ln.B, i
	switch ln.C {
	case "ok":
		return vblOK(b, v, r)
	case "okcrlf":
		return vblOK(b, v, r) + "\r"
	case "lower":
		ms := vblMembers(b, v, v, r, false)
		ms[2].v = `"` + vblMixCase(vblFP[b], r) + `"`
		return vblObject(ms, r, r.n(3))
	case "casefold":
		ms := vblMembers(b, v, v, r, false)
		switch r.n(5) {
		case 0:
			ms[0].k, ms[1].k, ms[2].k = `"DisplayName"`, `"WebSocketAddress"`, `"Fingerprint"`
		case 1:
			ms[2].k = `"Fingerprint"`
		case 2:
			ms[0].k, ms[1].k, ms[2].k = `"DISPLAYNAME"`, `"WEBSOCKETADDRESS"`, `"FINGERPRINT"`
		case 3:
			ms[1].k = `"websocketaddress"`
		case 4:
			ms[1].k = "\"webSocKetAddress\"" // KELVIN SIGN folds to k
		}
		return vblObject(ms, r, r.n(3))
	case "nodn":
		ms := vblMembers(b, 0, v, r, false)
		if r.n(2) == 0 {
			ms = ms[1:]
		} else {
			ms[0].v = "null"
		}
		return vblObject(ms, r, r.n(3))
	case "nows":
		ms := vblMembers(b, v, 0, r, false)
		if r.n(2) == 0 {
			ms = []vblMember{ms[0], ms[2]}
		} else {
			ms[1].v = "null"
		}
		return vblObject(ms, r, r.n(3))
	case "dupkey":
		ms := vblMembers(b, v, v, r, false)
		second := vblMember{`"webSocketAddress"`, vblJSONString(vblAddr(v+10), r, false)}
		switch r.n(3) {
		case 0:
			ms = []vblMember{ms[0], ms[1], second, ms[2]}
		case 1:
			ms = []vblMember{ms[1], ms[0], ms[2], second}
		case 2:
			ms = []vblMember{ms[1], ms[2], second, ms[0]}
		}
		return vblObject(ms, r, r.n(3))
	case "long":
		ms := vblMembers(b, v, v, r, false)
		return vblPadTo(vblObject(ms, r, r.n(3)), r)
	case "trailing":
		s := vblObject(vblMembers(b, v, v, r, false), r, r.n(3))
		other := vblObject(vblMembers(2, v+20, v+20, r, false), r, 0)
		tails := []string{" garbage", other, " " + other, "}", ",", "]", " null", " 1", "{", "\r" + other, `""`, ", " + other, "x", "\x00"}
		return s + tails[r.n(len(tails))]
	case "extra":
		ms := vblMembers(1+r.n(3), v, v, r, false) // otherwise a perfect record
		extras := []vblMember{{`"x"`, "1"}, {`"comment"`, `"primary bridge"`}, {`"fingerprint2"`, `"` + vblFP[2] + `"`}, {`""`, `""`},
			{`"port"`, "443"}, {`"displayname2"`, "null"}, {`"extra"`, `{"displayName":"a"}`}}
		e := extras[r.n(len(extras))]
		pos := r.n(4)
		ms = append(ms[:pos], append([]vblMember{e}, ms[pos:]...)...)
		return vblObject(ms, r, r.n(3))
	case "nofp":
		ms := vblMembers(1, v, v, r, false)
		switch r.n(3) {
		case 0:
			ms = ms[:2]
		case 1:
			ms[2].v = "null"
		case 2:
			ms[2].v = `""`
		}
		return vblObject(ms, r, r.n(3))
	case "wrongtype":
		ms := vblMembers(1, v, v, r, false)
		obj := vblObject(ms, r, 0)
		switch r.n(12) {
		case 0:
			ms[0].v = "1"
		case 1:
			ms[1].v = "[" + ms[1].v + "]"
		case 2:
			ms[2].v = "123"
		case 3:
			ms[2].v = `{"hex":` + ms[2].v + `}`
		case 4:
			ms[0].v = "true"
		case 5:
			ms[1].v = "0.5"
		case 6:
			return "[" + obj + "]"
		case 7:
			return `"` + vblFP[1] + `"`
		case 8:
			return "42"
		case 9:
			return "null"
		case 10:
			return "true"
		case 11:
			return "[]"
		}
		return vblObject(ms, r, r.n(3))
	case "notjson":
		obj := vblObject(vblMembers(1, v, v, r, false), r, 0)
		alts := []string{"hello", "{", obj[:len(obj)-1], strings.Replace(obj, `"`, `'`, -1), obj[:len(obj)-1] + ",}",
			strings.Replace(obj, `"displayName"`, `displayName`, 1), obj[:len(obj)/2], "# bridges", "// bridges", obj[1:],
			strings.Replace(obj, ":", "=", -1), "\x00", "}", strings.Replace(obj, ",", " ", 1), obj[:len(obj)-2]}
		return alts[r.n(len(alts))]
	case "fphex":
		ms := vblMembers(1, v, v, r, false)
		f := vblFP[1]
		alts := []string{"G" + f[1:], f[:39] + "Z", " " + f[1:], "0x" + f[2:], f[:2] + ":" + f[3:], f[:20] + "-" + f[21:], strings.Repeat("zz", 20), f[:38] + "é"}
		ms[2].v = `"` + alts[r.n(len(alts))] + `"`
		return vblObject(ms, r, r.n(3))
	case "fplen":
		ms := vblMembers(1, v, v, r, false)
		f := vblFP[1] + vblFP[2] // 80 hex digits
		ns := []int{39, 41, 38, 42, 62, 66, 63, 32, 2, 80, 1, 48}
		ms[2].v = `"` + f[:ns[r.n(len(ns))]] + `"`
		return vblObject(ms, r, r.n(3))
	case "longbad":
		n := vblScannerLimit + 1 + r.n(5000)
		switch r.n(4) {
		case 0:
			return strings.Repeat("x", n)
		case 1:
			ms := vblMembers(1, v, v, r, false)
			ms = append(ms, vblMember{`"note"`, `"` + strings.Repeat("n", n) + `"`})
			return vblObject(ms, r, 0)
		case 2:
			obj := vblObject(vblMembers(1, v, v, r, false), r, 0)
			return obj[:len(obj)-1] + strings.Repeat(" ", n)
		}
		return vblObject(vblMembers(1, v, v, r, false), r, 0) + strings.Repeat(" ", n) + "garbage"
	case "blank":
		return []string{"", "", " ", "\t", "   ", "\r"}[r.n(6)]
	}
	panic("unknown line class " + ln.C)
}

type vblFile struct {
	data    []byte
	failAt  int  // >= 0: the reader fails once this many bytes have been delivered
	sameCal bool // the failing Read returns the last bytes together with the error
	chunk   int  // bytes per Read (0: whatever is asked for)
	desc    string
}

var vblErrInjected = errors.New("verif: injected read error")

type vblReader struct {
	f   *vblFile
	pos int
}

func (r *vblReader) Read(p []byte) (int, error) {
	end := len(r.f.data)
	if r.f.failAt >= 0 {
		end = r.f.failAt
	}
	if r.pos >= end {
		if r.f.failAt >= 0 {
			return 0, vblErrInjected
		}
		return 0, io.EOF
	}
	n := len(p)
	if r.f.chunk > 0 && n > r.f.chunk {
		n = r.f.chunk
	}
	if n > end-r.pos {
		n = end - r.pos
	}
	copy(p, r.f.data[r.pos:r.pos+n])
	r.pos += n
	if r.pos >= end && r.f.failAt >= 0 && r.f.sameCal {
		return n, vblErrInjected
	}
	return n, nil
}

func vblRenderFile(c *vblCase, seed uint64, salt uint64) *vblFile {
	r := &vblRng{s: vblRand(seed, c.idx, salt)}
	var sb bytes.Buffer
	if c.V == "bom" || c.V == "bomnofinal" {
		sb.WriteString("\xef\xbb\xbf")
	}
	f := &vblFile{failAt: -1}
	lineEnd := make([]int, len(c.Lines)+1)
	lineEnd[0] = sb.Len()
	var rendered []string
	for i, ln := range c.Lines {
		s := vblRenderLine(ln, i+1, r)
		if s == "" && i == len(c.Lines)-1 && (c.V == "nofinal" || c.V == "bomnofinal") {
			s = " " // an empty last line without a newline after it would not be in the file at all
		}
		rendered = append(rendered, s)
		sb.WriteString(s)
		if i < len(c.Lines)-1 || (c.V != "nofinal" && c.V != "bomnofinal") {
			sb.WriteString("\n")
		}
		lineEnd[i+1] = sb.Len()
	}
	f.data = sb.Bytes()
	if c.V == "readerr" {
		f.failAt = lineEnd[c.Cut]
		f.sameCal = r.n(2) == 0
		if c.Cut < len(c.Lines) {
			next := rendered[c.Cut]
			switch r.n(4) {
			case 0: // the whole next line without its newline
				f.failAt += len(next)
			case 1:
				if len(next) > 0 {
					f.failAt += r.n(len(next))
				}
			}
		}
	}
	chunks := []int{0, 0, 1, 7, 64, 4096, 5000}
	f.chunk = chunks[r.n(len(chunks))]
	if len(f.data) > 60000 && f.chunk > 0 && f.chunk < 64 {
		f.chunk = 4096
	}
	return f
}

func vblShow(f *vblFile) string {
	d := f.data
	var sb strings.Builder
	for i := 0; i < len(d); {
		j := i
		for j < len(d) && d[j] == d[i] {
			j++
		}
		if j-i > 24 { // long runs of padding are abbreviated
			sb.Write(d[i : i+4])
			sb.WriteString(fmt.Sprintf("<%d more %q>", j-i-4, d[i:i+1]))
		} else {
			sb.Write(d[i:j])
		}
		i = j
	}
	s := strconv.Quote(sb.String())
	if len(s) > 1500 {
		s = s[:1500] + "...\""
	}
	if f.failAt >= 0 {
		s += fmt.Sprintf(" [reader fails after %d of %d bytes]", f.failAt, len(d))
	}
	return s
}

// ---------------------------------------------------------------------------
// observing a holder

func vblRowsOfHolder(h BridgeListHolderFileBased) [][]int {
	rows := [][]int{}
	for k, v := range h.(*bridgeListHolder).bridgeInfo {
		b, ok := vblFPRev[string(k)]
		if !ok {
			b = -1
		}
		dn, ok := vblNameRev[v.DisplayName]
		if !ok {
			dn = -3
		}
		ws, ok := vblAddrRev[v.WebSocketAddress]
		if !ok {
			ws = -3
		}
		rows = append(rows, []int{b, dn, ws})
	}
	vblSortRows(rows)
	return rows
}

func vblGet(h BridgeListHolder, b int) []int {
	info, err := h.GetBridgeInfo(vblFingerprint(b))
	if err != nil { // any error: not found (the value that comes with it is not looked at)
		return []int{b, 0, -1, -1}
	}
	dn, ok := vblNameRev[info.DisplayName]
	if !ok {
		dn = -3
	}
	ws, ok := vblAddrRev[info.WebSocketAddress]
	if !ok {
		ws = -3
	}
	return []int{b, 1, dn, ws}
}

func vblSortRows(rows [][]int) {
	sort.Slice(rows, func(i, j int) bool {
		for k := range rows[i] {
			if rows[i][k] != rows[j][k] {
				return rows[i][k] < rows[j][k]
			}
		}
		return false
	})
}

func vblSameRows(a, b [][]int) bool {
	if len(a) != len(b) {
		return false
	}
	a, b = append([][]int{}, a...), append([][]int{}, b...)
	vblSortRows(a)
	vblSortRows(b)
	for i := range a {
		if len(a[i]) != len(b[i]) {
			return false
		}
		for k := range a[i] {
			if a[i][k] != b[i][k] {
				return false
			}
		}
	}
	return true
}

// a holder that holds exactly `rows` (loaded through LoadBridgeInfo from canonical lines)
func vblHolderWith(rows [][]int) (BridgeListHolderFileBased, error) {
	h := NewBridgeListHolder()
	if len(rows) == 0 {
		return h, nil
	}
	var sb strings.Builder
	for _, x := range rows {
		m := map[string]string{"displayName": vblName(x[1]), "webSocketAddress": vblAddr(x[2]), "fingerprint": vblFP[x[0]]}
		b, _ := json.Marshal(m)
		sb.Write(b)
		sb.WriteString("\n")
	}
	if err := h.LoadBridgeInfo(strings.NewReader(sb.String())); err != nil {
		return nil, err
	}
	if !vblSameRows(vblRowsOfHolder(h), rows) {
		return nil, fmt.Errorf("holder has %v after loading %v", vblRowsOfHolder(h), rows)
	}
	return h, nil
}

// ---------------------------------------------------------------------------
// part 1: LoadBridgeInfo / GetBridgeInfo on TLC's files

func vblClasses(c *vblCase) string {
	set := map[string]bool{}
	for _, ln := range c.Lines {
		if ln.C != "ok" {
			set[ln.C] = true
		}
	}
	var out []string
	for k := range set {
		out = append(out, k)
	}
	sort.Strings(out)
	s := strings.Join(out, "+")
	if s == "" {
		s = "ok"
	}
	if c.V != "plain" {
		s = c.V + ":" + s
	}
	return s
}

func vblCaseObj(c *vblCase, f *vblFile, setting string) map[string]interface{} {
	return map[string]interface{}{"lines": c.Lines, "v": c.V, "cut": c.Cut, "setting": setting, "file": vblShow(f),
		"fail_at": f.failAt, "chunk": f.chunk, "rid": c.idx}
}

type vblStats struct {
	cases, loads, diverge, nontrivial, longFiles, errs, oks, skipped int64
	divergeClasses                                                   sync.Map
}

func vblJudgeLoad(c *vblCase, f *vblFile, setting string, before [][]int, allowed []vblOutcome, code vblOutcome,
	h BridgeListHolderFileBased, err error, out *vblOut, st *vblStats) {
	rows := vblRowsOfHolder(h)
	var gets [][]int
	for _, g := range allowed[0].G {
		gets = append(gets, vblGet(h, g[0]))
	}
	gotErr := err != nil
	for _, o := range allowed {
		if o.E == gotErr && vblSameRows(o.T, rows) && vblSameRows(o.G, gets) {
			if !(code.E == gotErr && vblSameRows(code.T, rows)) {
				atomic.AddInt64(&st.diverge, 1)
				st.divergeClasses.Store(vblClasses(c), true)
			}
			return
		}
	}
	// classify
	anyErr, anyOK, tableOK := false, false, false
	for _, o := range allowed {
		if o.E {
			anyErr = true
		} else {
			anyOK = true
		}
		if o.E == gotErr && vblSameRows(o.T, rows) {
			tableOK = true
		}
	}
	what := ""
	switch {
	case tableOK:
		what = "lookup-disagrees-with-table"
	case gotErr && !vblSameRows(rows, before):
		what = "error-returned-but-table-changed"
	case gotErr && !anyErr:
		what = "valid-file-refused"
	case !gotErr && !anyOK:
		what = "invalid-file-accepted"
		if len(rows) == 0 && len(before) > 0 {
			what += "/table-emptied"
		} else if !vblSameRows(rows, before) {
			what += "/part-of-it-loaded"
		} else {
			what += "/nothing-loaded"
		}
	default:
		what = "wrong-table"
	}
	sig := fmt.Sprintf("BridgeList/load/%s/%s", what, vblClasses(c))
	detail := fmt.Sprintf("LoadBridgeInfo (%s holder, table before %v) on the file %s returned err=%v and left the table %v, lookups %v; "+
		"spec/BridgeList allows only %s (rows [bridge, name version, address version]; lookups [bridge, found, name, address])",
		setting, before, vblShow(f), err, rows, gets, vblAllowedText(allowed))
	out.put(vblResult{Part: "load", Sig: sig, Detail: detail, Case: vblCaseObj(c, f, setting), Size: len(c.Lines)})
}

func vblAllowedText(allowed []vblOutcome) string {
	var parts []string
	for _, o := range allowed {
		parts = append(parts, fmt.Sprintf("{error=%v table=%v}", o.E, o.T))
	}
	return strings.Join(parts, " or ")
}

func vblHasLong(c *vblCase) bool {
	for _, ln := range c.Lines {
		if ln.C == "long" || ln.C == "longbad" {
			return true
		}
	}
	return false
}

func vblRunLoadCase(c *vblCase, seed uint64, out *vblOut, st *vblStats) {
	atomic.AddInt64(&st.cases, 1)
	if len(c.Code) != 2 || len(c.Fresh) == 0 || len(c.Reload) == 0 {
		out.put(vblResult{Part: "load", Sig: "harness/bad-case", Detail: fmt.Sprintf("%+v", c)})
		return
	}
	nontrivial := false
	for _, ln := range c.Lines {
		if ln.C != "ok" {
			nontrivial = true
		}
	}
	if nontrivial || c.V != "plain" {
		atomic.AddInt64(&st.nontrivial, 1)
	}
	for pass, setting := range []string{"fresh", "reload"} {
		if vblBigSkip > 1 && vblHasLong(c) && vblRand(seed, c.idx, 31)%uint64(vblBigSkip) != 0 {
			// race builds only: every 64 KiB string costs milliseconds there (shadow memory); the plain build runs them all
			atomic.AddInt64(&st.skipped, 1)
			continue
		}
		f := vblRenderFile(c, seed, uint64(pass))
		if len(f.data) > vblScannerLimit {
			atomic.AddInt64(&st.longFiles, 1)
		}
		var h BridgeListHolderFileBased
		var before [][]int
		allowed := c.Fresh
		if setting == "reload" {
			var err error
			if h, err = vblHolderWith(c.Prev); err != nil {
				out.put(vblResult{Part: "load", Sig: "harness/cannot-preload", Detail: err.Error()})
				return
			}
			before, allowed = c.Prev, c.Reload
		} else {
			h = NewBridgeListHolder()
		}
		err := h.LoadBridgeInfo(&vblReader{f: f})
		atomic.AddInt64(&st.loads, 1)
		if err != nil {
			atomic.AddInt64(&st.errs, 1)
		} else {
			atomic.AddInt64(&st.oks, 1)
		}
		vblJudgeLoad(c, f, setting, before, allowed, c.Code[pass], h, err, out, st)
	}
}

// FingerprintFromBytes / FromHexString over all lengths: the lengths come from the spec's fplen/ok classes only
// through the files above; this is the plain round trip on the universe.
func vblFingerprintRoundTrip(out *vblOut) int {
	n := 0
	for b, f := range vblFP {
		for _, s := range []string{f, strings.ToLower(f)} {
			fp, err := bridgefingerprint.FingerprintFromHexString(s)
			n++
			if err != nil || !bytes.Equal(fp.ToBytes(), []byte(vblFingerprint(b))) {
				out.put(vblResult{Part: "load", Sig: "BridgeList/fingerprint/round-trip", Detail: fmt.Sprintf("FingerprintFromHexString(%q) = %x, %v", s, fp, err)})
			}
			fp2, err := bridgefingerprint.FingerprintFromBytes(fp.ToBytes())
			if err != nil || fp2 != fp {
				out.put(vblResult{Part: "load", Sig: "BridgeList/fingerprint/round-trip", Detail: fmt.Sprintf("FingerprintFromBytes(%x) = %x, %v", fp.ToBytes(), fp2, err)})
			}
		}
	}
	return n
}

// ---------------------------------------------------------------------------
// part 2: lookups concurrent with reloads; every goroutine keeps a private log
// (no synchronisation of the harness's own between the goroutines: the race
// detector sees only the holder's lock), merged afterwards by monotonic time

type vblEv struct {
	at    int64
	ret   bool // a return record (sorted after call records of the same instant)
	order int
	obj   map[string]interface{}
}

type vblLookup struct {
	tCall, tRet int64
	b           int
	ans         []int
}

func vblRunScenario(id int, cases []*vblCase, prev [][]int, seed uint64, readers, perLoad int) (map[string]interface{}, int, error) {
	r := &vblRng{s: vblRand(seed, id, 77)}
	h, err := vblHolderWith(prev)
	if err != nil {
		return nil, 0, err
	}
	files := make([]*vblFile, len(cases))
	for i, c := range cases {
		files[i] = vblRenderFile(c, seed, uint64(1000+id))
	}
	probes := []int{1, 2, 3, 99}
	base := time.Now()
	now := func() int64 { return int64(time.Since(base)) }
	var done int32
	var started sync.WaitGroup
	var wg sync.WaitGroup
	logs := make([][]vblLookup, readers)
	started.Add(readers)
	for ri := 0; ri < readers; ri++ {
		wg.Add(1)
		go func(ri int) {
			defer wg.Done()
			var lg []vblLookup
			k := ri
			first := true
			for atomic.LoadInt32(&done) == 0 {
				b := probes[k%len(probes)]
				k++
				t0 := now()
				ans := vblGet(h, b)
				t1 := now()
				lg = append(lg, vblLookup{t0, t1, b, ans})
				if first {
					started.Done()
					first = false
				}
				if len(lg) > 400000 {
					break
				}
			}
			if first {
				started.Done()
			}
			logs[ri] = lg
		}(ri)
	}
	started.Wait()
	var evs []vblEv
	spin := func(n int) {
		t := now()
		for now()-t < int64(n) {
			runtime.Gosched()
		}
	}
	for i, c := range cases {
		spin(2000 + r.n(perLoad*1000))
		t0 := now()
		err := h.LoadBridgeInfo(&vblReader{f: files[i]})
		t1 := now()
		rows := vblRowsOfHolder(h)
		evs = append(evs, vblEv{at: t0, order: len(evs), obj: map[string]interface{}{"ev": "load", "lines": c.Lines, "v": c.V, "cut": c.Cut}})
		evs = append(evs, vblEv{at: t1, ret: true, order: len(evs), obj: map[string]interface{}{"ev": "loaded", "err": err != nil, "t": rows}})
	}
	spin(3000)
	atomic.StoreInt32(&done, 1)
	wg.Wait()
	// loader instants cut the time line into segments; inside one segment a run of identical answers of one
	// reader for one bridge is represented by its first and its last lookup (what lies between is explained
	// whenever those two are: at most one swap happens between two loader records)
	var cuts []int64
	for _, e := range evs {
		cuts = append(cuts, e.at)
	}
	seg := func(t int64) int { return sort.Search(len(cuts), func(i int) bool { return cuts[i] >= t }) }
	total := 0
	for ri, lg := range logs {
		total += len(lg)
		lastKept := map[int]int{} // bridge -> index in lg of the last lookup of the current run
		runHead := map[int]int{}
		keep := map[int]bool{}
		for i, lk := range lg {
			s0, s1 := seg(lk.tCall), seg(lk.tRet)
			j, ok := runHead[lk.b]
			same := ok && s0 == s1 && seg(lg[j].tCall) == s0 && seg(lg[j].tRet) == s0 && vblSameRows([][]int{lg[j].ans}, [][]int{lk.ans})
			if same {
				lastKept[lk.b] = i
				continue
			}
			if ok {
				keep[lastKept[lk.b]] = true
			}
			keep[i] = true
			runHead[lk.b], lastKept[lk.b] = i, i
		}
		for _, i := range lastKept {
			keep[i] = true
		}
		for i, lk := range lg {
			if !keep[i] {
				continue
			}
			evs = append(evs, vblEv{at: lk.tCall, order: len(evs), obj: map[string]interface{}{"ev": "get", "r": ri + 1, "b": lk.b}})
			evs = append(evs, vblEv{at: lk.tRet, ret: true, order: len(evs), obj: map[string]interface{}{"ev": "got", "r": ri + 1, "b": lk.b,
				"found": lk.ans[1] == 1, "dn": lk.ans[2], "ws": lk.ans[3]}})
		}
	}
	sort.SliceStable(evs, func(i, j int) bool {
		if evs[i].at != evs[j].at {
			return evs[i].at < evs[j].at
		}
		if evs[i].ret != evs[j].ret {
			return !evs[i].ret
		}
		return evs[i].order < evs[j].order
	})
	objs := make([]map[string]interface{}, len(evs))
	for i, e := range evs {
		objs[i] = e.obj
	}
	return map[string]interface{}{"id": id, "prev": prev, "events": objs, "lookups": total}, total, nil
}

// ---------------------------------------------------------------------------
// part 3: through the real IPC pair

type vblPollResp struct {
	Status   string
	Offer    string
	NAT      string
	RelayURL string
}

func vblRegistered(ctx *BrokerContext) int {
	ctx.snowflakeLock.Lock()
	defer ctx.snowflakeLock.Unlock()
	return ctx.snowflakes.Len() + ctx.restrictedSnowflakes.Len()
}

func vblWait(cond func() bool, d time.Duration) bool {
	deadline := time.Now().Add(d)
	for !cond() {
		if time.Now().After(deadline) {
			return false
		}
		time.Sleep(200 * time.Microsecond)
	}
	return true
}

type vblPoll struct {
	sid  string
	resp []byte
	err  error
	done chan struct{}
}

func vblStartPoll(ipc *IPC, sid string) *vblPoll {
	p := &vblPoll{sid: sid, done: make(chan struct{})}
	body := []byte(fmt.Sprintf(`{"Sid":%q,"Version":"1.3","Type":"standalone","NAT":"unrestricted","Clients":0,"AcceptedRelayPattern":""}`, sid))
	go func() {
		defer close(p.done)
		p.err = ipc.ProxyPolls(messages.Arg{Body: body, RemoteAddr: "192.0.2.7:4040"}, &p.resp)
	}()
	return p
}

func vblIsDone(ch chan struct{}) bool {
	select {
	case <-ch:
		return true
	default:
		return false
	}
}

type vblClient struct {
	resp []byte
	err  error
	done chan struct{}
}

func vblStartClient(ipc *IPC, sdp string, fingerprint *string) *vblClient {
	c := &vblClient{done: make(chan struct{})}
	m := map[string]interface{}{"offer": sdp, "nat": "unknown"}
	if fingerprint != nil {
		m["fingerprint"] = *fingerprint
	}
	b, _ := json.Marshal(m)
	body := append([]byte("1.0\n"), b...)
	go func() {
		defer close(c.done)
		c.err = ipc.ClientOffers(messages.Arg{Body: body, RemoteAddr: "192.0.2.9:5050"}, &c.resp)
	}()
	return c
}

func vblWantFingerprint(want int, r *vblRng) *string {
	var s string
	switch want {
	case 0:
		if r.n(2) == 0 {
			return nil // member absent
		}
		s = "" // member empty: also "names none"
	case 98:
		s = []string{"nothex", vblFP[1][:38], vblFP[1] + "00", "2B28", vblFP[1][:39] + "G"}[r.n(5)]
	default:
		s = vblFP[want] // upper-case hex, as in the documentation
	}
	return &s
}

func vblRunOfferCase(c *vblCase, seed uint64, out *vblOut) (int, int) {
	evals, matched := 0, 0
	type setting struct {
		name    string
		install bool
	}
	for si, s := range []setting{{"builtin", false}, {"installed", true}} {
		r := &vblRng{s: vblRand(seed, c.idx, uint64(500+si))}
		f := vblRenderFile(c, seed, uint64(500+si))
		ctxObj := func(extra map[string]interface{}) map[string]interface{} {
			m := map[string]interface{}{"lines": c.Lines, "v": c.V, "cut": c.Cut, "setting": s.name, "file": vblShow(f), "rid": c.idx}
			for k, v := range extra {
				m[k] = v
			}
			return m
		}
		mk := func() (*BrokerContext, *IPC, []vblOffer, bool) {
			ctx := NewBrokerContext(log.New(ioutil.Discard, "", 0))
			offers := c.Builtin.Offers
			if !vblSameRows(vblRowsOfHolder(ctx.bridgeList), c.Builtin.T) {
				out.put(vblResult{Part: "offer", Sig: "BridgeList/offer/builtin-table", Size: 0,
					Detail: fmt.Sprintf("a new BrokerContext holds the bridge table %v; the documented default is bridge %s at %s (rows %v)",
						vblDumpHolder(ctx.bridgeList), vblFP[1], vblDefaultAddr, c.Builtin.T), Case: ctxObj(nil)})
				return nil, nil, nil, false
			}
			if s.install {
				err := ctx.InstallBridgeListProfile(&vblReader{f: f}, "", "")
				rows := vblRowsOfHolder(ctx.bridgeList)
				found := false
				for _, a := range c.After {
					if a.E == (err != nil) && vblSameRows(a.T, rows) {
						offers, found = a.Offers, true
					}
				}
				if !found {
					var parts []string
					for _, a := range c.After {
						parts = append(parts, fmt.Sprintf("{error=%v table=%v}", a.E, a.T))
					}
					out.put(vblResult{Part: "offer", Sig: "BridgeList/offer/install/" + vblClasses(c), Size: len(c.Lines),
						Detail: fmt.Sprintf("InstallBridgeListProfile over the built-in table on the file %s returned err=%v and left the table %v; spec/BridgeList allows only %s",
							vblShow(f), err, rows, strings.Join(parts, " or ")), Case: ctxObj(nil)})
					return nil, nil, nil, false
				}
			}
			go ctx.Broker()
			return ctx, &IPC{ctx}, offers, true
		}
		ctx, ipc, offers, ok := mk()
		if !ok {
			continue
		}
		sort.Slice(offers, func(i, j int) bool { return offers[i].Want < offers[j].Want })
		var servable *vblOffer
		for i := range offers {
			if !offers[i].Refused && offers[i].Want != 0 {
				cp := offers[i]
				servable = &cp
			}
		}
		for oi, o := range offers {
			evals++
			sid := fmt.Sprintf("bl-%d-%d-%d", c.idx, si, oi)
			sdp := fmt.Sprintf("sdp-%d-%d-%d", c.idx, si, oi)
			fpr := vblWantFingerprint(o.Want, r)
			shown := "<absent>"
			if fpr != nil {
				shown = strconv.Quote(*fpr)
			}
			obj := ctxObj(map[string]interface{}{"want": o.Want, "fingerprint": shown})
			report := func(what, detail string) {
				wantName := map[int]string{0: "none", 98: "malformed", 99: "unknown"}[o.Want]
				if wantName == "" {
					wantName = "listed"
					if o.Refused {
						wantName = "unlisted"
					}
				}
				out.put(vblResult{Part: "offer", Sig: fmt.Sprintf("BridgeList/offer/%s/%s/client-names-%s", what, s.name, wantName), Size: len(c.Lines),
					Detail: fmt.Sprintf("table %v (%s, file %s); client sends fingerprint %s: %s", vblRowsOfHolder(ctx.bridgeList), s.name, vblShow(f), shown, detail), Case: obj})
			}
			p := vblStartPoll(ipc, sid)
			if !vblWait(func() bool { return vblRegistered(ctx) == 1 || vblIsDone(p.done) }, 5*time.Second) || vblIsDone(p.done) {
				out.put(vblResult{Part: "offer", Sig: "harness/poll-not-registered", Detail: fmt.Sprintf("poll %s: err=%v resp=%s", sid, p.err, p.resp)})
				return evals, matched
			}
			cl := vblStartClient(ipc, sdp, fpr)
			if o.Refused {
				if !vblWait(func() bool { return vblIsDone(cl.done) }, 3*time.Second) {
					report("not-refused", fmt.Sprintf("the offer was not refused within 3 s (registered proxies now: %d, the poll returned: %v)", vblRegistered(ctx), vblIsDone(p.done)))
					// a fresh context for the remaining offers
					if ctx, ipc, offers, ok = mk(); !ok {
						return evals, matched
					}
					continue
				}
				var cr messages.ClientPollResponse
				json.Unmarshal(cl.resp, &cr)
				if cl.err == nil && cr.Error == "" {
					report("not-refused", fmt.Sprintf("ClientOffers returned nil with the body %q", cl.resp))
				}
				time.Sleep(2 * time.Millisecond)
				if vblRegistered(ctx) != 1 || vblIsDone(p.done) {
					report("refused-but-proxy-consumed", fmt.Sprintf("after the refusal %d proxies are registered (1 before) and the poll has returned: %v (err=%v body=%q)",
						vblRegistered(ctx), vblIsDone(p.done), p.err, p.resp))
					if ctx, ipc, offers, ok = mk(); !ok {
						return evals, matched
					}
					continue
				}
				// the waiting proxy is still good: a client that names a listed bridge gets it
				if servable == nil {
					// nothing can be served from this table: a fresh context instead of waiting for the poll's timeout
					if ctx, ipc, offers, ok = mk(); !ok {
						return evals, matched
					}
					continue
				}
				o = *servable
				fp2 := vblFP[o.Want]
				fpr, shown = &fp2, strconv.Quote(fp2)
				sdp += "-second"
				cl = vblStartClient(ipc, sdp, fpr)
			}
			if !vblWait(func() bool { return vblIsDone(p.done) || vblIsDone(cl.done) }, 3*time.Second) || !vblIsDone(p.done) {
				report("not-served", fmt.Sprintf("the waiting proxy did not get the offer (client returned: %v err=%v body=%q)", vblIsDone(cl.done), cl.err, cl.resp))
				if ctx, ipc, offers, ok = mk(); !ok {
					return evals, matched
				}
				continue
			}
			var pr vblPollResp
			if p.err != nil || json.Unmarshal(p.resp, &pr) != nil || pr.Status != "client match" || pr.Offer != sdp {
				report("poll-response", fmt.Sprintf("the poll returned err=%v body=%q; expected a client match carrying %q", p.err, p.resp, sdp))
			} else if pr.RelayURL != vblAddr(o.Ws) {
				report("wrong-relay-url", fmt.Sprintf("the proxy was told RelayURL %q; the table's webSocketAddress for bridge %d (%s) is %q", pr.RelayURL, o.B, vblFP[o.B], vblAddr(o.Ws)))
			} else {
				matched++
			}
			// finish the exchange so that the client returns at once
			var ar []byte
			ab, _ := messages.EncodeAnswerRequest("answer-"+sdp, sid)
			ipc.ProxyAnswers(messages.Arg{Body: ab, RemoteAddr: ""}, &ar)
			if !vblWait(func() bool { return vblIsDone(cl.done) }, 3*time.Second) {
				report("client-not-answered", "the client did not return within 3 s of the proxy's answer")
				if ctx, ipc, offers, ok = mk(); !ok {
					return evals, matched
				}
				continue
			}
			var cr messages.ClientPollResponse
			if cl.err != nil || json.Unmarshal(cl.resp, &cr) != nil || cr.Answer != "answer-"+sdp {
				report("client-response", fmt.Sprintf("ClientOffers returned err=%v body=%q; expected the answer %q", cl.err, cl.resp, "answer-"+sdp))
			}
			if !vblWait(func() bool { return vblRegistered(ctx) == 0 }, time.Second) {
				report("proxy-left-registered", "a proxy is still registered after its match")
				if ctx, ipc, offers, ok = mk(); !ok {
					return evals, matched
				}
			}
		}
	}
	return evals, matched
}

// InstallBridgeListProfile, sequentially: what it leaves behind (compared by the check with the final states of
// spec/BridgeList/BridgeProfile.tla: everything new after a nil return, nothing changed after an error)
func vblProfileObs(c *vblCase, seed uint64) map[string]interface{} {
	f := vblRenderFile(c, seed, 900)
	ctx := NewBrokerContext(log.New(ioutil.Discard, "", 0))
	ctx.allowedRelayPattern, ctx.presumedPatternForLegacyClient = "old-allowed.example$", "old-presumed.example$"
	before := vblRowsOfHolder(ctx.bridgeList)
	err := ctx.InstallBridgeListProfile(&vblReader{f: f}, "new-allowed.example$", "new-presumed.example$")
	word := func(got, old, new string) string {
		switch got {
		case old:
			return "old"
		case new:
			return "new"
		}
		return "other:" + got
	}
	table := "new"
	if vblSameRows(before, vblRowsOfHolder(ctx.bridgeList)) {
		table = "old"
	}
	// a poll is judged by the installed patterns
	accepts := ctx.CheckProxyRelayPattern("new-allowed.example$", false) && !ctx.CheckProxyRelayPattern("old-allowed.example$", false)
	return map[string]interface{}{"profile": map[string]interface{}{"lines": c.Lines, "v": c.V, "cut": c.Cut, "rid": c.idx, "file": vblShow(f), "err": err != nil,
		"table": table, "table_rows": vblRowsOfHolder(ctx.bridgeList),
		"allowed":                     word(ctx.allowedRelayPattern, "old-allowed.example$", "new-allowed.example$"),
		"presumed":                    word(ctx.presumedPatternForLegacyClient, "old-presumed.example$", "new-presumed.example$"),
		"polls_judged_by_new_pattern": accepts}}
}

func vblDumpHolder(h BridgeListHolderFileBased) string {
	var parts []string
	for k, v := range h.(*bridgeListHolder).bridgeInfo {
		parts = append(parts, fmt.Sprintf("%X=%q@%q", string(k), v.DisplayName, v.WebSocketAddress))
	}
	sort.Strings(parts)
	return "[" + strings.Join(parts, " ") + "]"
}

// ---------------------------------------------------------------------------

func TestVerifBridgeList(t *testing.T) {
	casesPath, outPath := os.Getenv("VERIF_BL_CASES"), os.Getenv("VERIF_BL_OUT")
	if casesPath == "" || outPath == "" {
		t.Skip("VERIF_BL_CASES / VERIF_BL_OUT not set")
	}
	seed, _ := strconv.ParseUint(os.Getenv("VERIF_SEED"), 10, 64)
	if v, err := strconv.Atoi(os.Getenv("VERIF_BL_LIMIT")); err == nil && v > 0 {
		vblScannerLimit = v
	}
	if v, err := strconv.Atoi(os.Getenv("VERIF_BL_BIGSKIP")); err == nil && v > 1 {
		vblBigSkip = v
	}
	nscen, _ := strconv.Atoi(os.Getenv("VERIF_BL_SCENARIOS"))
	nreload, _ := strconv.Atoi(os.Getenv("VERIF_BL_RELOADS"))
	log.SetOutput(ioutil.Discard)

	fh, err := os.Open(casesPath)
	if err != nil {
		t.Fatal(err)
	}
	defer fh.Close()
	var loads, offers []*vblCase
	rd := bufio.NewReaderSize(fh, 1<<20)
	idx := 0
	for {
		line, err := rd.ReadBytes('\n')
		if len(bytes.TrimSpace(line)) > 0 {
			c := &vblCase{}
			if e := json.Unmarshal(line, c); e != nil {
				t.Fatalf("case %d: %v", idx, e)
			}
			c.idx = idx
			if c.Rid != nil {
				c.idx = *c.Rid
			}
			idx++
			switch c.Kind {
			case "load":
				loads = append(loads, c)
			case "offer":
				offers = append(offers, c)
				if c.Defaults != nil {
					vblFP[1], vblDefaultAddr = c.Defaults.Fingerprint, c.Defaults.Address
				}
			}
		}
		if err != nil {
			break
		}
	}
	if vblFP[1] == "" {
		t.Fatal("no offer case gave the documented defaults")
	}
	vblInitUniverse()
	out := &vblOut{}
	st := &vblStats{}

	// part 1
	t0 := time.Now()
	var wg sync.WaitGroup
	var next int64 = -1
	workers := runtime.GOMAXPROCS(0)
	for w := 0; w < workers; w++ {
		wg.Add(1)
		go func() {
			defer wg.Done()
			for {
				i := int(atomic.AddInt64(&next, 1))
				if i >= len(loads) {
					return
				}
				vblRunLoadCase(loads[i], seed, out, st)
			}
		}()
	}
	wg.Wait()
	fpEvals := vblFingerprintRoundTrip(out)
	loadWall := time.Since(t0)

	// part 2
	t0 = time.Now()
	var traces []map[string]interface{}
	lookups := 0
	if tp := os.Getenv("VERIF_BL_TRACES"); tp != "" && len(loads) > 0 {
		r := &vblRng{s: vblRand(seed, 0, 4242)}
		// files for the reload sequences: small ones, every variant and class, half of them acceptable
		var pool, poolOK []*vblCase
		for _, c := range loads {
			big := false
			for _, ln := range c.Lines {
				if ln.C == "long" || ln.C == "longbad" {
					big = true
				}
			}
			if big && r.n(8) != 0 {
				continue
			}
			mayOK := false
			for _, o := range c.Reload {
				if !o.E && len(o.T) > 0 {
					mayOK = true
				}
			}
			if mayOK {
				poolOK = append(poolOK, c)
			} else {
				pool = append(pool, c)
			}
		}
		for s := 1; s <= nscen && len(poolOK) > 0 && len(pool) > 0; s++ {
			var seq []*vblCase
			for k := 0; k < nreload; k++ {
				if r.n(3) != 0 {
					seq = append(seq, poolOK[r.n(len(poolOK))])
				} else {
					seq = append(seq, pool[r.n(len(pool))])
				}
			}
			tr, n, err := vblRunScenario(s, seq, loads[0].Prev, seed, 2+r.n(3), 5+r.n(60))
			if err != nil {
				out.put(vblResult{Part: "conc", Sig: "harness/cannot-preload", Detail: err.Error()})
				break
			}
			lookups += n
			traces = append(traces, tr)
		}
		tf, err := os.Create(tp)
		if err != nil {
			t.Fatal(err)
		}
		w := bufio.NewWriter(tf)
		for _, tr := range traces {
			b, _ := json.Marshal(tr)
			w.Write(b)
			w.WriteString("\n")
		}
		w.Flush()
		tf.Close()
	}
	concWall := time.Since(t0)

	// part 3
	t0 = time.Now()
	offerEvals, offerMatched := 0, 0
	var profiles []map[string]interface{}
	for _, c := range offers {
		e, m := vblRunOfferCase(c, seed, out)
		offerEvals += e
		offerMatched += m
		profiles = append(profiles, vblProfileObs(c, seed))
	}
	offerWall := time.Since(t0)

	var dv []string
	st.divergeClasses.Range(func(k, _ interface{}) bool { dv = append(dv, k.(string)); return true })
	sort.Strings(dv)
	if len(dv) > 12 {
		dv = dv[:12]
	}
	of, err := os.Create(outPath)
	if err != nil {
		t.Fatal(err)
	}
	w := bufio.NewWriter(of)
	enc := json.NewEncoder(w)
	results := out.results()
	for _, r := range results {
		enc.Encode(r)
	}
	for _, p := range profiles {
		enc.Encode(p)
	}
	enc.Encode(map[string]interface{}{"summary": map[string]interface{}{
		"load_cases": st.cases, "loads": st.loads, "load_errors": st.errs, "load_ok": st.oks, "nontrivial": st.nontrivial,
		"files_over_limit": st.longFiles, "big_renderings_skipped": st.skipped, "diverge_from_code_model": st.diverge, "diverge_classes": dv, "fingerprint_evals": fpEvals,
		"traces": len(traces), "lookups": lookups, "offer_cases": len(offers), "offers": offerEvals, "offers_matched": offerMatched,
		"load_s": loadWall.Seconds(), "conc_s": concWall.Seconds(), "offer_s": offerWall.Seconds(), "nonconforming": len(results)}})
	w.Flush()
	of.Close()
}
