//go:build verif
// +build verif

package main

// Conformance harness for spec/ServerMain (server/server.go: acceptLoop, handleConn,
// proxy, statsThread; main's shutdown sequence), injected with `go test -overlay`.
// It only EXECUTES schedules against the real code and RECORDS what it sees; the
// recorded traces are judged by TLC against spec/ServerMain/ServerMain_Trace.tla.
//
//   gated schedules   projections of TLC behaviours of ServerMain!GenSpec: one command at a
//                     time against the real acceptLoop (scripted net.Listener), the real
//                     handleConn / proxy (scripted client net.Conn, a loopback TCP listener
//                     of the harness as the ORPort, reached through the real pt.DialOr and
//                     the package variable ptInfo) and the real statsThread; an observation
//                     after every command once every goroutine of the code under test is
//                     parked (goroutine dump) and the loopback sockets have settled
//   process schedules the real main() in a child process (this test binary re-executed,
//                     TOR_PT_* environment of a managed server transport, -disable-tls), a
//                     real Turbo Tunnel client (websocket + KCP + smux) per connection, a
//                     loopback ORPort; SIGTERM / stdin close at the scheduled point; the
//                     child's exit is timed
//
//   VERIF_SRV_SCHED  input, one JSON object per line (vSrvSched)
//   VERIF_SRV_OUT    output, one JSON object per line (vSrvTrace)
//   VERIF_SRV_PATIENCE_MS, VERIF_SRV_NOSTATS=1 (never start statsThread: the what-if)

import (
	"bufio"
	"bytes"
	"context"
	"encoding/json"
	"errors"
	"fmt"
	"io"
	"log"
	"net"
	"os"
	"os/exec"
	"reflect"
	"regexp"
	"runtime"
	"strconv"
	"strings"
	"sync"
	"sync/atomic"
	"syscall"
	"testing"
	"time"

	"git.torproject.org/pluggable-transports/snowflake.git/v2/common/encapsulation"
	"git.torproject.org/pluggable-transports/snowflake.git/v2/common/turbotunnel"
	"git.torproject.org/pluggable-transports/snowflake.git/v2/common/websocketconn"
	"github.com/gorilla/websocket"
	"github.com/xtaci/kcp-go/v5"
	"github.com/xtaci/smux"
)

type vSrvStep struct {
	Op   string `json:"op"` // Accept | AcceptTemp | AcceptPerm | ClientChunk | ClientEnd | ConnWriteFail | OrChunk | OrFin | OrReset | Connect | Sigterm | StdinEOF
	I    int    `json:"i,omitempty"`
	D    string `json:"d,omitempty"`
	Kind string `json:"kind,omitempty"`
}

type vSrvSched struct {
	ID    int        `json:"id"`
	Mode  string     `json:"mode"` // gated | proc
	Steps []vSrvStep `json:"steps"`
}

type vSrvTrace struct {
	ID      int                      `json:"id"`
	Mode    string                   `json:"mode"`
	Events  []map[string]interface{} `json:"events"`
	Skipped int                      `json:"skipped"`
	Note    string                   `json:"note,omitempty"`
	Info    map[string]interface{}   `json:"info,omitempty"`
}

var vSrvBusySeen, vSrvUnsettledSeen int32

var (
	vSrvPatience = 2 * time.Second
	vSrvPauseMin = 4 * time.Millisecond // a pause of the accept loop is at least this long
)

const vSrvChunkLen = 23

// vSrvChunk is the keyed payload number k of connection key in direction dir ('u' client to
// ORPort, 'd' ORPort to client).
func vSrvChunk(key uint32, dir byte, k int) []byte {
	return []byte(fmt.Sprintf("<%08x|%c|%010d>", key, dir, k))
}

// vSrvParse cuts a received byte stream into chunk numbers; anything that is not a whole
// chunk of this connection and direction becomes 0 (which no specification state explains).
func vSrvParse(b []byte, key uint32, dir byte) []int {
	out := []int{}
	for len(b) > 0 {
		if len(b) < vSrvChunkLen {
			out = append(out, 0)
			break
		}
		var gk uint32
		var gd byte
		var k int
		n, err := fmt.Sscanf(string(b[:vSrvChunkLen]), "<%08x|%c|%010d>", &gk, &gd, &k)
		if err != nil || n != 3 || gk != key || gd != dir || k <= 0 {
			k = 0
		}
		out = append(out, k)
		b = b[vSrvChunkLen:]
	}
	return out
}

// ---------------------------------------------------------------------------
// goroutine ids and dumps

// vSrvPkg is the package prefix of function names in goroutine dumps ("main." in the
// binary, the import path in a test binary).
var vSrvPkg = func() string {
	n := runtime.FuncForPC(reflect.ValueOf(acceptLoop).Pointer()).Name()
	return strings.TrimSuffix(n, "acceptLoop")
}()

var vSrvGoidRe = regexp.MustCompile(`^goroutine (\d+) \[([^\]]*)\]:`)

func vSrvGoid() int64 {
	var buf [64]byte
	n := runtime.Stack(buf[:], false)
	m := vSrvGoidRe.FindSubmatch(buf[:n])
	if m == nil {
		return -1
	}
	id, _ := strconv.ParseInt(string(m[1]), 10, 64)
	return id
}

type vSrvG struct {
	state string
	body  string
}

func vSrvDump(stack *[]byte) map[int64]vSrvG {
	var n int
	for {
		n = runtime.Stack(*stack, true)
		if n < len(*stack) {
			break
		}
		*stack = make([]byte, 2*len(*stack))
	}
	out := map[int64]vSrvG{}
	for _, blk := range bytes.Split((*stack)[:n], []byte("\n\n")) {
		m := vSrvGoidRe.FindSubmatch(blk)
		if m == nil {
			continue
		}
		id, _ := strconv.ParseInt(string(m[1]), 10, 64)
		st := string(m[2])
		if i := strings.IndexByte(st, ','); i >= 0 {
			st = st[:i]
		}
		out[id] = vSrvG{st, string(blk)}
	}
	return out
}

// ---------------------------------------------------------------------------
// scripted listener

type vSrvTempErr struct{}

func (vSrvTempErr) Error() string   { return "accept: too many open files (scripted)" }
func (vSrvTempErr) Temporary() bool { return true }
func (vSrvTempErr) Timeout() bool   { return false }

type vSrvAcc struct {
	conn net.Conn
	err  error
}

type vSrvListener struct {
	ch     chan vSrvAcc
	mu     sync.Mutex
	calls  int
	closes int
	pauses int
	tempAt time.Time
}

func (l *vSrvListener) Accept() (net.Conn, error) {
	now := time.Now()
	l.mu.Lock()
	if !l.tempAt.IsZero() {
		if now.Sub(l.tempAt) >= vSrvPauseMin {
			l.pauses++
		}
		l.tempAt = time.Time{}
	}
	l.calls++
	l.mu.Unlock()
	r := <-l.ch
	if _, ok := r.err.(vSrvTempErr); ok {
		l.mu.Lock()
		l.tempAt = time.Now()
		l.mu.Unlock()
	}
	return r.conn, r.err
}

// offer hands r to the Accept call the loop is parked in; false when no Accept call takes it
func (l *vSrvListener) offer(r vSrvAcc) bool {
	select {
	case l.ch <- r:
		return true
	case <-time.After(vSrvPatience):
		return false
	}
}
func (l *vSrvListener) Close() error   { l.mu.Lock(); l.closes++; l.mu.Unlock(); return nil }
func (l *vSrvListener) Addr() net.Addr { return vSrvAddr("verif-listener") }

type vSrvAddr string

func (a vSrvAddr) Network() string { return "verif" }
func (a vSrvAddr) String() string  { return string(a) }

// ---------------------------------------------------------------------------
// scripted client conn (what the listener hands to acceptLoop).  Close behaves like the
// real conn (an smux stream): it unblocks Read and makes Read/Write fail with
// io.ErrClosedPipe; a second Close returns io.ErrClosedPipe.

type vSrvRd struct {
	data []byte
	err  error
}

type vSrvConn struct {
	key      uint32
	addr     string
	rd       chan vSrvRd
	closedCh chan struct{}
	mu       sync.Mutex
	ncloses  int
	wfail    bool
	wbuf     []byte
	taken    int
	csent    int  // chunks the schedule has pushed
	done     bool // the handler goroutine is gone
	use      bool // an operation arrived after that
	hgoid    int64
}

func (c *vSrvConn) touch() {
	if c.done {
		c.use = true
	}
}

func (c *vSrvConn) Read(p []byte) (int, error) {
	c.mu.Lock()
	c.touch()
	c.mu.Unlock()
	select {
	case <-c.closedCh:
		return 0, io.ErrClosedPipe
	default:
	}
	select {
	case <-c.closedCh:
		return 0, io.ErrClosedPipe
	case it := <-c.rd:
		if it.err != nil {
			return 0, it.err
		}
		n := copy(p, it.data)
		c.mu.Lock()
		c.taken++
		c.mu.Unlock()
		return n, nil
	}
}

func (c *vSrvConn) Write(p []byte) (int, error) {
	c.mu.Lock()
	defer c.mu.Unlock()
	c.touch()
	if c.ncloses > 0 {
		return 0, io.ErrClosedPipe
	}
	if c.wfail {
		return 0, errors.New("write: broken pipe (scripted)")
	}
	c.wbuf = append(c.wbuf, p...)
	return len(p), nil
}

func (c *vSrvConn) Close() error {
	c.mu.Lock()
	defer c.mu.Unlock()
	c.touch()
	c.ncloses++
	if c.ncloses == 1 {
		close(c.closedCh)
		return nil
	}
	return io.ErrClosedPipe
}

func (c *vSrvConn) LocalAddr() net.Addr { return vSrvAddr("verif-server") }
func (c *vSrvConn) RemoteAddr() net.Addr {
	// the first thing handleConn does with the conn: remember which goroutine it is
	c.mu.Lock()
	if c.hgoid == 0 {
		c.hgoid = vSrvGoid()
	}
	c.mu.Unlock()
	return vSrvAddr(c.addr)
}
func (c *vSrvConn) SetDeadline(t time.Time) error      { return nil }
func (c *vSrvConn) SetReadDeadline(t time.Time) error  { return nil }
func (c *vSrvConn) SetWriteDeadline(t time.Time) error { return nil }

// ---------------------------------------------------------------------------
// the ORPort of the harness (one loopback listener per process)

type vSrvOrConn struct {
	c      *net.TCPConn
	mu     sync.Mutex
	buf    []byte
	eof    bool // the read side ended (FIN, RST or local close)
	sawFin bool // ... with io.EOF: the handler's FIN
	sent   int  // bytes written towards the handler
	fin    bool // we half-closed
	reset  bool // we aborted
	hfd    int  // the handler's end of this connection: fd number in this process ...
	hino   uint64
	hfound bool
}

var (
	vSrvOrOnce     sync.Once
	vSrvOrLn       *net.TCPListener
	vSrvOrAccepted chan *net.TCPConn
	vSrvDeadAddr   *net.TCPAddr
	vSrvStatsOnce  sync.Once
	vSrvKeySeq     uint32
)

func vSrvSetupOr() {
	vSrvOrOnce.Do(func() {
		ln, err := net.ListenTCP("tcp", &net.TCPAddr{IP: net.IPv4(127, 0, 0, 1)})
		if err != nil {
			panic(err)
		}
		vSrvOrLn = ln
		vSrvOrAccepted = make(chan *net.TCPConn, 64)
		go func() {
			for {
				c, err := ln.AcceptTCP()
				if err != nil {
					return
				}
				vSrvOrAccepted <- c
			}
		}()
		// an address that refuses connections for the whole life of the process: a socket
		// that is bound but does not listen
		fd, err := syscall.Socket(syscall.AF_INET, syscall.SOCK_STREAM, 0)
		if err != nil {
			panic(err)
		}
		if err := syscall.Bind(fd, &syscall.SockaddrInet4{Addr: [4]byte{127, 0, 0, 1}}); err != nil {
			panic(err)
		}
		sa, err := syscall.Getsockname(fd)
		if err != nil {
			panic(err)
		}
		vSrvDeadAddr = &net.TCPAddr{IP: net.IPv4(127, 0, 0, 1), Port: sa.(*syscall.SockaddrInet4).Port}
		ptInfo.OrAddr = ln.Addr().(*net.TCPAddr)
		ptInfo.ExtendedOrAddr = nil
		ptInfo.AuthCookiePath = ""
		vSrvKeySeq = uint32(time.Now().UnixNano())
	})
}

func (o *vSrvOrConn) reader() {
	buf := make([]byte, 4096)
	for {
		n, err := o.c.Read(buf)
		o.mu.Lock()
		o.buf = append(o.buf, buf[:n]...)
		if err != nil {
			o.eof = true
			o.sawFin = err == io.EOF && !o.reset
			o.mu.Unlock()
			return
		}
		o.mu.Unlock()
	}
}

// findPeerFd looks for the file descriptor of this process whose socket is the other end
// of o (the *net.TCPConn pt.DialOr returned to handleConn), so that or.Close() can be observed.
func (o *vSrvOrConn) findPeerFd() {
	peer := o.c.RemoteAddr().(*net.TCPAddr).Port
	own := o.c.LocalAddr().(*net.TCPAddr).Port
	ents, err := os.ReadDir("/proc/self/fd")
	if err != nil {
		return
	}
	for _, e := range ents {
		fd, err := strconv.Atoi(e.Name())
		if err != nil {
			continue
		}
		sa, err := syscall.Getsockname(fd)
		if err != nil {
			continue
		}
		s4, ok := sa.(*syscall.SockaddrInet4)
		if !ok || s4.Port != peer {
			continue
		}
		pa, err := syscall.Getpeername(fd)
		if err != nil {
			continue
		}
		if p4, ok := pa.(*syscall.SockaddrInet4); !ok || p4.Port != own {
			continue
		}
		var st syscall.Stat_t
		if syscall.Fstat(fd, &st) != nil {
			continue
		}
		o.hfd, o.hino, o.hfound = fd, st.Ino, true
		return
	}
}

func (o *vSrvOrConn) peerClosed() bool {
	if !o.hfound {
		return false
	}
	var st syscall.Stat_t
	if err := syscall.Fstat(o.hfd, &st); err != nil {
		return true
	}
	return st.Ino != o.hino
}

// ---------------------------------------------------------------------------
// gated rig

type vSrvRig struct {
	ln     *vSrvListener
	lgoid  int64
	ldone  int32
	conns  []*vSrvConn
	ors    []*vSrvOrConn
	proxy  []bool // the copy goroutines of connection i were seen (proxy ran)
	stack  []byte
	logbuf *vSrvLog
	events []map[string]interface{}
	info   map[string]interface{}
}

type vSrvLog struct {
	mu sync.Mutex
	b  bytes.Buffer
}

func (w *vSrvLog) Write(p []byte) (int, error) {
	w.mu.Lock()
	defer w.mu.Unlock()
	return w.b.Write(p)
}
func (w *vSrvLog) String() string { w.mu.Lock(); defer w.mu.Unlock(); return w.b.String() }

func vSrvNewRig() *vSrvRig {
	vSrvSetupOr()
	if os.Getenv("VERIF_SRV_NOSTATS") != "1" {
		vSrvStatsOnce.Do(func() { go statsThread() })
	}
	r := &vSrvRig{ln: &vSrvListener{ch: make(chan vSrvAcc)}, stack: make([]byte, 1<<16), info: map[string]interface{}{}, logbuf: &vSrvLog{}}
	log.SetOutput(r.logbuf)
	ready := make(chan struct{})
	go func() {
		r.lgoid = vSrvGoid()
		close(ready)
		defer atomic.StoreInt32(&r.ldone, 1)
		acceptLoop(r.ln)
	}()
	<-ready
	return r
}

type vSrvPic struct {
	loop  string
	h     []string
	a     []string
	b     []string
	text  string
	ready bool
	busy  bool // the loop goroutine is parked outside Accept
}

// picture classifies every goroutine of the code under test; ready is false while one of
// them is neither parked at a known place nor gone.
func (r *vSrvRig) picture() vSrvPic {
	gs := vSrvDump(&r.stack)
	p := vSrvPic{ready: true}
	// the accept loop
	if g, ok := gs[r.lgoid]; ok && atomic.LoadInt32(&r.ldone) == 0 {
		switch {
		case g.state == "chan receive" && strings.Contains(g.body, "(*vSrvListener).Accept"):
			p.loop = "accept"
		case g.state == "chan send" || g.state == "semacquire" || g.state == "sync.WaitGroup.Wait" || g.state == "IO wait" || g.state == "select" || g.state == "chan receive":
			// parked, but not in Accept: the loop is doing something else (it lasts: see quiesce)
			p.loop, p.busy = "busy", true
		default:
			p.loop, p.ready = "", false // sleeping (pause) or running
		}
	} else if atomic.LoadInt32(&r.ldone) == 1 {
		p.loop = "ended"
	} else {
		p.loop, p.ready = "", false
	}
	for i, c := range r.conns {
		c.mu.Lock()
		hg := c.hgoid
		c.mu.Unlock()
		h, a, b := "", "none", "none"
		if hg == 0 {
			// the handler has not reached its first statement yet
			p.ready = false
			p.h, p.a, p.b = append(p.h, ""), append(p.a, ""), append(p.b, "")
			continue
		}
		g, alive := gs[hg]
		if alive && !strings.Contains(g.body, vSrvPkg+"acceptLoop.func1") {
			alive = false // the id was reused by the runtime for something else (does not happen: ids grow)
		}
		switch {
		case !alive:
			h = "done"
		case g.state == "chan send" && strings.Contains(g.body, vSrvPkg+"handleConn("):
			h = "stats"
		case (g.state == "semacquire" || g.state == "sync.WaitGroup.Wait") && strings.Contains(g.body, vSrvPkg+"proxy("):
			h = "wait"
		default:
			h, p.ready = "", false
		}
		mark1 := fmt.Sprintf("created by %sproxy in goroutine %d\n", vSrvPkg, hg)
		mark2 := fmt.Sprintf("created by %shandleConn in goroutine %d\n", vSrvPkg, hg) // proxy inlined
		foundA, foundB := false, false
		for _, x := range gs {
			if !strings.Contains(x.body+"\n", mark1) && !strings.Contains(x.body+"\n", mark2) {
				continue
			}
			switch {
			case strings.Contains(x.body, "proxy.func1"):
				foundA = true
				if x.state == "IO wait" && strings.Contains(x.body, ").Read(") {
					a = "read"
				} else {
					a, p.ready = "", false
				}
			case strings.Contains(x.body, "proxy.func2"):
				foundB = true
				if (x.state == "select" || x.state == "chan receive") && strings.Contains(x.body, "(*vSrvConn).Read") {
					b = "read"
				} else {
					b, p.ready = "", false
				}
			}
		}
		if foundA || foundB || h == "wait" {
			r.proxy[i] = true
		}
		if r.proxy[i] {
			if !foundA {
				a = "done"
			}
			if !foundB {
				b = "done"
			}
		}
		p.h, p.a, p.b = append(p.h, h), append(p.a, a), append(p.b, b)
	}
	p.text = fmt.Sprintf("%s %v %v %v", p.loop, p.h, p.a, p.b)
	if os.Getenv("VERIF_SRV_DEBUG") == "1" {
		fmt.Fprintf(os.Stderr, "PICTURE %s\n%s\n=====\n", p.text, r.stack[:runtime.Stack(r.stack, true)])
	}
	return p
}

// settled reports whether the loopback sockets have delivered what the parked goroutines
// have written (kernel latency only: these are conservation laws of TCP, not of the code
// under test).  When they do not settle within the patience the picture is recorded as it is.
func (r *vSrvRig) settled(p vSrvPic) bool {
	if os.Getenv("VERIF_SRV_NOSTATS") != "1" {
		for _, h := range p.h {
			if h == "stats" {
				// statsThread is running but has not come back to its receive yet (it is runnable, not
				// parked, on a loaded machine): a handler parked at the send is at rest only if that lasts
				return false
			}
		}
	}
	for i, c := range r.conns {
		if !r.proxy[i] {
			continue
		}
		o := r.ors[i]
		if o == nil {
			return false // the dial succeeded: the connection is on its way to the accept queue
		}
		c.mu.Lock()
		taken, got := c.taken, len(c.wbuf)
		c.mu.Unlock()
		o.mu.Lock()
		arrived, eof, sent, fin, reset := len(o.buf), o.eof, o.sent, o.fin, o.reset
		o.mu.Unlock()
		if !reset && !eof && arrived != taken*vSrvChunkLen {
			return false // B wrote it (it is back in Read or gone): still in the kernel
		}
		if p.a[i] == "read" && got != sent {
			return false // what the ORPort side wrote has not reached A yet
		}
		if p.a[i] == "read" && (fin || reset) {
			return false // A has not noticed the FIN / RST yet
		}
		if p.b[i] == "done" && !reset && !eof {
			return false // B's CloseWrite: the FIN is on its way
		}
	}
	return true
}

func (r *vSrvRig) adoptOr() {
	for i := range r.conns {
		if r.proxy[i] && r.ors[i] == nil {
			select {
			case c := <-vSrvOrAccepted:
				o := &vSrvOrConn{c: c}
				o.findPeerFd()
				r.ors[i] = o
				go o.reader()
			default:
			}
		}
	}
}

func (r *vSrvRig) quiesce() (vSrvPic, error) {
	deadline := time.Now().Add(20 * time.Second)
	began := time.Now()
	var patience time.Time
	prev, same := "", 0
	for {
		p := r.picture()
		r.adoptOr()
		ok := p.ready
		if ok && (p.busy || !r.settled(p)) {
			if patience.IsZero() {
				patience = time.Now().Add(vSrvPatience)
				if !p.busy && atomic.LoadInt32(&vSrvUnsettledSeen) >= 5 {
					// sockets that did not settle within the full patience five times already in this
					// process: believe it sooner from now on (a confirmation run starts afresh)
					patience = time.Now().Add(vSrvPatience / 20)
				}
				if p.busy && atomic.LoadInt32(&vSrvBusySeen) >= 3 {
					// a loop that handles its connections itself: seen often enough to believe it sooner
					patience = time.Now().Add(vSrvPatience / 20)
				}
			}
			if time.Now().Before(patience) {
				ok = false
			}
		}
		if ok {
			if p.text == prev {
				same++
			} else {
				same = 0
			}
			prev = p.text
			if same >= 1 {
				if p.busy {
					atomic.AddInt32(&vSrvBusySeen, 1)
				} else if !patience.IsZero() && !time.Now().Before(patience) {
					atomic.AddInt32(&vSrvUnsettledSeen, 1)
				}
				return p, nil
			}
		} else {
			prev, same = "", 0
		}
		if time.Now().After(deadline) {
			return p, fmt.Errorf("no quiescence within 20s (last picture %q)", p.text)
		}
		if patience.IsZero() && time.Since(began) < 200*time.Millisecond {
			runtime.Gosched()
		} else {
			time.Sleep(200 * time.Microsecond)
		}
	}
}

func (r *vSrvRig) observe(p vSrvPic) map[string]interface{} {
	r.ln.mu.Lock()
	pauses := r.ln.pauses
	r.ln.mu.Unlock()
	logs := r.logbuf.String()
	conns := []interface{}{}
	for i, c := range r.conns {
		c.mu.Lock()
		if p.h[i] == "done" {
			c.done = true
		}
		m := map[string]interface{}{
			"h": p.h[i], "a": p.a[i], "b": p.b[i],
			"closed": c.ncloses > 0, "ncloses": c.ncloses, "taken": c.taken,
			"cgot": vSrvParse(c.wbuf, c.key, 'd'), "use": c.use,
			"ogot": []int{}, "ofin": false, "oclosed": false,
			"dialerr": strings.Contains(logs, fmt.Sprintf("handleConn: failed to connect to ORPort")) && !r.proxy[i] && p.h[i] == "done",
		}
		c.mu.Unlock()
		if o := r.ors[i]; o != nil {
			o.mu.Lock()
			m["ogot"] = vSrvParse(o.buf, c.key, 'u')
			m["ofin"] = o.sawFin
			o.mu.Unlock()
			m["oclosed"] = o.peerClosed()
			if !o.hfound {
				r.info["fd_not_found"] = true
			}
		}
		conns = append(conns, m)
	}
	return map[string]interface{}{"ev": "obs", "loop": p.loop, "pauses": pauses, "conns": conns}
}

func (r *vSrvRig) conn(i int) *vSrvConn {
	if i < 1 || i > len(r.conns) {
		return nil
	}
	return r.conns[i-1]
}

// apply issues one command; nil events = not applicable in the state the real code is in
func (r *vSrvRig) apply(s vSrvStep) (map[string]interface{}, func()) {
	loopParked := func() bool { return atomic.LoadInt32(&r.ldone) == 0 }
	switch s.Op {
	case "Accept":
		if !loopParked() {
			return nil, nil
		}
		key := atomic.AddUint32(&vSrvKeySeq, 1)
		addr := ""
		if key%2 == 0 {
			addr = fmt.Sprintf("192.0.2.%d:%d", key%250+1, 1024+key%5000)
		}
		c := &vSrvConn{key: key, addr: addr, rd: make(chan vSrvRd, 64), closedCh: make(chan struct{})}
		r.conns = append(r.conns, c)
		r.ors = append(r.ors, nil)
		r.proxy = append(r.proxy, false)
		var undo func()
		if s.D == "fail" {
			good := ptInfo.OrAddr
			ptInfo.OrAddr = vSrvDeadAddr
			undo = func() { ptInfo.OrAddr = good }
		}
		if !r.ln.offer(vSrvAcc{conn: c}) {
			if undo != nil {
				undo()
			}
			r.conns, r.ors, r.proxy = r.conns[:len(r.conns)-1], r.ors[:len(r.ors)-1], r.proxy[:len(r.proxy)-1]
			return nil, nil
		}
		return map[string]interface{}{"ev": "Accept", "d": s.D}, undo
	case "AcceptTemp":
		if !loopParked() {
			return nil, nil
		}
		if !r.ln.offer(vSrvAcc{err: vSrvTempErr{}}) {
			return nil, nil
		}
		return map[string]interface{}{"ev": "AcceptTemp"}, nil
	case "AcceptPerm":
		if !loopParked() {
			return nil, nil
		}
		if !r.ln.offer(vSrvAcc{err: errors.New("accept: listener is gone (scripted)")}) {
			return nil, nil
		}
		return map[string]interface{}{"ev": "AcceptPerm"}, nil
	case "ClientChunk":
		c := r.conn(s.I)
		if c == nil {
			return nil, nil
		}
		c.csent++
		c.rd <- vSrvRd{data: vSrvChunk(c.key, 'u', c.csent)}
		return map[string]interface{}{"ev": "ClientChunk", "i": s.I}, nil
	case "ClientEnd":
		c := r.conn(s.I)
		if c == nil {
			return nil, nil
		}
		err := io.EOF
		if s.Kind == "err" {
			err = errors.New("read: connection timed out (scripted)")
		}
		c.rd <- vSrvRd{err: err}
		return map[string]interface{}{"ev": "ClientEnd", "i": s.I, "kind": s.Kind}, nil
	case "ConnWriteFail":
		c := r.conn(s.I)
		if c == nil {
			return nil, nil
		}
		c.mu.Lock()
		c.wfail = true
		c.mu.Unlock()
		return map[string]interface{}{"ev": "ConnWriteFail", "i": s.I}, nil
	case "OrChunk", "OrFin", "OrReset":
		if r.conn(s.I) == nil || r.ors[s.I-1] == nil {
			return nil, nil
		}
		o := r.ors[s.I-1]
		o.mu.Lock()
		defer o.mu.Unlock()
		if o.reset || (o.fin && s.Op != "OrReset") {
			return nil, nil
		}
		switch s.Op {
		case "OrChunk":
			b := vSrvChunk(r.conns[s.I-1].key, 'd', o.sent/vSrvChunkLen+1)
			if _, err := o.c.Write(b); err != nil {
				return nil, nil
			}
			o.sent += len(b)
		case "OrFin":
			o.c.CloseWrite()
			o.fin = true
		case "OrReset":
			o.c.SetLinger(0)
			o.c.Close()
			o.reset = true
		}
		return map[string]interface{}{"ev": s.Op, "i": s.I}, nil
	}
	return nil, nil
}

func (r *vSrvRig) runGated(sc vSrvSched, tr *vSrvTrace) {
	for _, st := range sc.Steps {
		ev, undo := r.apply(st)
		if ev == nil {
			tr.Skipped++
			continue
		}
		ev["q"] = true
		r.events = append(r.events, ev)
		p, err := r.quiesce()
		if undo != nil {
			undo()
		}
		if err != nil {
			tr.Note = "quiescence: " + err.Error()
			return
		}
		r.events = append(r.events, r.observe(p))
	}
}

// cleanup (not recorded) ends everything the schedule left running.
func (r *vSrvRig) cleanup() {
	for i, c := range r.conns {
		select {
		case c.rd <- vSrvRd{err: io.EOF}:
		default:
		}
		if o := r.ors[i]; o != nil {
			o.c.Close()
		}
	}
	if atomic.LoadInt32(&r.ldone) == 0 {
		select {
		case r.ln.ch <- vSrvAcc{err: errors.New("cleanup")}:
		case <-time.After(2 * time.Second):
		}
	}
	// connections whose dial is still to be accepted
	for {
		select {
		case c := <-vSrvOrAccepted:
			c.Close()
			continue
		default:
		}
		break
	}
	for i := 0; i < 2000; i++ {
		p := r.picture()
		alive := p.loop != "ended"
		for _, h := range p.h {
			if h != "done" {
				alive = true
			}
		}
		if !alive {
			break
		}
		time.Sleep(500 * time.Microsecond)
	}
}

func vSrvRunSchedule(sc vSrvSched) (tr vSrvTrace) {
	tr = vSrvTrace{ID: sc.ID, Mode: sc.Mode, Events: []map[string]interface{}{}}
	defer func() {
		if p := recover(); p != nil {
			tr.Note = fmt.Sprintf("harness panic: %v", p)
		}
	}()
	if sc.Mode == "proc" {
		vSrvRunProc(sc, &tr)
		return tr
	}
	r := vSrvNewRig()
	r.runGated(sc, &tr)
	tr.Events = r.events
	if tr.Events == nil {
		tr.Events = []map[string]interface{}{}
	}
	tr.Info = r.info
	r.cleanup()
	return tr
}

// ---------------------------------------------------------------------------
// process rig: the real main() in a child process

// TestMain turns the re-executed test binary into the server binary: main() runs with the
// command line and the TOR_PT_* environment the parent prepared, and returning from main
// ends the process (as in the real binary).
func TestMain(m *testing.M) {
	if os.Getenv("VERIF_SRV_CHILD") == "1" {
		os.Args = []string{"snowflake-server", "-disable-tls", "-unsafe-logging"}
		main()
		os.Exit(0)
	}
	os.Exit(m.Run())
}

type vSrvDummyAddr struct{}

func (vSrvDummyAddr) Network() string { return "dummy" }
func (vSrvDummyAddr) String() string  { return "dummy" }

// vSrvEncapConn is client/lib's (unexported) encapsulationPacketConn: the packet framing of
// common/encapsulation on a stream.
type vSrvEncapConn struct {
	c   io.ReadWriteCloser
	wmu sync.Mutex
}

func (e *vSrvEncapConn) ReadFrom(p []byte) (int, net.Addr, error) {
	data, err := encapsulation.ReadData(e.c)
	if err != nil {
		return 0, vSrvDummyAddr{}, err
	}
	return copy(p, data), vSrvDummyAddr{}, nil
}
func (e *vSrvEncapConn) WriteTo(p []byte, addr net.Addr) (int, error) {
	var buf bytes.Buffer
	if _, err := encapsulation.WriteData(&buf, p); err != nil {
		return 0, err
	}
	e.wmu.Lock()
	defer e.wmu.Unlock()
	if _, err := e.c.Write(buf.Bytes()); err != nil {
		return 0, err
	}
	return len(p), nil
}
func (e *vSrvEncapConn) Close() error                       { return e.c.Close() }
func (e *vSrvEncapConn) LocalAddr() net.Addr                { return vSrvDummyAddr{} }
func (e *vSrvEncapConn) SetDeadline(t time.Time) error      { return errors.New("not implemented") }
func (e *vSrvEncapConn) SetReadDeadline(t time.Time) error  { return errors.New("not implemented") }
func (e *vSrvEncapConn) SetWriteDeadline(t time.Time) error { return errors.New("not implemented") }

// vSrvTunnel is one Turbo Tunnel client session with one stream, built as client/lib's
// newSession builds it (websocket carrier, token + ClientID, KCP, smux).
type vSrvTunnel struct {
	key    uint32
	ws     *websocket.Conn
	pconn  *turbotunnel.RedialPacketConn
	kconn  *kcp.UDPSession
	sess   *smux.Session
	stream *smux.Stream
	mu     sync.Mutex
	buf    []byte
	ended  bool
	sent   int
	closed bool
}

func vSrvOpenTunnel(addr string, key uint32) (*vSrvTunnel, error) {
	t := &vSrvTunnel{key: key}
	d := websocket.Dialer{HandshakeTimeout: 10 * time.Second}
	ws, _, err := d.Dial("ws://"+addr+"/?client_ip=192.0.2.77", nil)
	if err != nil {
		return nil, err
	}
	t.ws = ws
	carrier := websocketconn.New(ws)
	id := turbotunnel.NewClientID()
	if _, err := carrier.Write(turbotunnel.Token[:]); err != nil {
		return nil, err
	}
	if _, err := carrier.Write(id[:]); err != nil {
		return nil, err
	}
	first := true
	t.pconn = turbotunnel.NewRedialPacketConn(vSrvDummyAddr{}, vSrvDummyAddr{}, func(ctx context.Context) (net.PacketConn, error) {
		if !first {
			return nil, errors.New("one carrier only")
		}
		first = false
		return &vSrvEncapConn{c: carrier}, nil
	})
	t.kconn, err = kcp.NewConn2(vSrvDummyAddr{}, nil, 0, 0, t.pconn)
	if err != nil {
		return nil, err
	}
	t.kconn.SetStreamMode(true)
	t.kconn.SetWindowSize(65535, 65535)
	t.kconn.SetNoDelay(0, 0, 0, 1)
	cfg := smux.DefaultConfig()
	cfg.Version = 2
	cfg.KeepAliveTimeout = 10 * time.Minute
	cfg.MaxStreamBuffer = 1048576
	t.sess, err = smux.Client(t.kconn, cfg)
	if err != nil {
		return nil, err
	}
	t.stream, err = t.sess.OpenStream()
	if err != nil {
		return nil, err
	}
	go func() {
		b := make([]byte, 4096)
		for {
			n, err := t.stream.Read(b)
			t.mu.Lock()
			t.buf = append(t.buf, b[:n]...)
			if err != nil {
				t.ended = true
				t.mu.Unlock()
				return
			}
			t.mu.Unlock()
		}
	}()
	return t, nil
}

func (t *vSrvTunnel) shut() {
	if t.stream != nil {
		t.stream.Close()
	}
	if t.sess != nil {
		t.sess.Close()
	}
	if t.kconn != nil {
		t.kconn.Close()
	}
	if t.pconn != nil {
		t.pconn.Close()
	}
	if t.ws != nil {
		t.ws.Close()
	}
}

func vSrvFreePort() int {
	l, err := net.Listen("tcp", "127.0.0.1:0")
	if err != nil {
		panic(err)
	}
	defer l.Close()
	return l.Addr().(*net.TCPAddr).Port
}

// waitFor polls cond until it holds or the patience is over.
func vSrvWaitFor(d time.Duration, cond func() bool) bool {
	end := time.Now().Add(d)
	for {
		if cond() {
			return true
		}
		if time.Now().After(end) {
			return false
		}
		time.Sleep(time.Millisecond)
	}
}

func vSrvRunProc(sc vSrvSched, tr *vSrvTrace) {
	vSrvSetupOr()
	for { // connections left over by an earlier schedule
		select {
		case c := <-vSrvOrAccepted:
			c.Close()
			continue
		default:
		}
		break
	}
	dir, err := os.MkdirTemp("", "vsrv-state-")
	if err != nil {
		tr.Note = "harness: " + err.Error()
		return
	}
	defer os.RemoveAll(dir)
	port := vSrvFreePort()
	bind := fmt.Sprintf("127.0.0.1:%d", port)
	cmd := exec.Command(os.Args[0], "-test.run=^$")
	cmd.Env = append(os.Environ(),
		"VERIF_SRV_CHILD=1",
		"TOR_PT_MANAGED_TRANSPORT_VER=1",
		"TOR_PT_STATE_LOCATION="+dir,
		"TOR_PT_SERVER_TRANSPORTS=snowflake",
		"TOR_PT_SERVER_BINDADDR=snowflake-"+bind,
		"TOR_PT_ORPORT="+vSrvOrLn.Addr().String(),
		"TOR_PT_EXIT_ON_STDIN_CLOSE=1",
	)
	stdin, err := cmd.StdinPipe()
	if err != nil {
		tr.Note = "harness: " + err.Error()
		return
	}
	stdout, err := cmd.StdoutPipe()
	if err != nil {
		tr.Note = "harness: " + err.Error()
		return
	}
	errf, err := os.Create(dir + "/stderr")
	if err != nil {
		tr.Note = "harness: " + err.Error()
		return
	}
	defer errf.Close()
	cmd.Stderr = errf
	if err := cmd.Start(); err != nil {
		tr.Note = "harness: " + err.Error()
		return
	}
	exited := make(chan struct{})
	var exitCode int
	var exitAt time.Time
	ready := make(chan string, 1)
	go func() {
		sc := bufio.NewScanner(stdout)
		var lines []string
		for sc.Scan() {
			lines = append(lines, sc.Text())
			if sc.Text() == "SMETHODS DONE" {
				ready <- strings.Join(lines, " / ")
			}
		}
	}()
	go func() {
		err := cmd.Wait()
		exitAt = time.Now()
		exitCode = 0
		if ee, ok := err.(*exec.ExitError); ok {
			exitCode = ee.ExitCode()
		} else if err != nil {
			exitCode = -1
		}
		close(exited)
	}()
	hasExited := func() bool {
		select {
		case <-exited:
			return true
		default:
			return false
		}
	}
	var tunnels []*vSrvTunnel
	var ors []*vSrvOrConn
	defer func() {
		if !hasExited() {
			cmd.Process.Kill()
			<-exited
		}
		for _, t := range tunnels {
			t.shut()
		}
		for _, o := range ors {
			if o != nil {
				o.c.Close()
			}
		}
	}()
	select {
	case l := <-ready:
		if !strings.Contains(l, "SMETHOD snowflake "+bind) {
			tr.Note = "harness: the child did not announce the listener: " + l
			return
		}
	case <-exited:
		b, _ := os.ReadFile(dir + "/stderr")
		tr.Note = fmt.Sprintf("harness: the child exited (%d) before SMETHODS DONE: %s", exitCode, string(b))
		return
	case <-time.After(30 * time.Second):
		tr.Note = "harness: the child did not reach SMETHODS DONE within 30 s"
		return
	}
	var signalAt time.Time
	patience := vSrvPatience
	observe := func() map[string]interface{} {
		conns := []interface{}{}
		for i, t := range tunnels {
			t.mu.Lock()
			m := map[string]interface{}{"cgot": vSrvParse(t.buf, t.key, 'd'), "ogot": []int{}, "ofin": false, "cend": t.ended}
			t.mu.Unlock()
			if o := ors[i]; o != nil {
				o.mu.Lock()
				m["ogot"] = vSrvParse(o.buf, t.key, 'u')
				m["ofin"] = o.eof
				o.mu.Unlock()
			}
			conns = append(conns, m)
		}
		ev := map[string]interface{}{"ev": "pobs", "exited": hasExited(), "conns": conns}
		if hasExited() {
			ev["code"] = exitCode
			if !signalAt.IsZero() {
				ev["ms"] = int(exitAt.Sub(signalAt) / time.Millisecond)
			}
		}
		return ev
	}
	for _, st := range sc.Steps {
		var ev map[string]interface{}
		switch st.Op {
		case "Connect":
			if hasExited() {
				break
			}
			key := atomic.AddUint32(&vSrvKeySeq, 1)
			t, err := vSrvOpenTunnel(bind, key)
			if err != nil {
				tr.Note = "harness: tunnel: " + err.Error()
				return
			}
			tunnels = append(tunnels, t)
			ors = append(ors, nil)
			i := len(tunnels) - 1
			// the handler's dial reaches the ORPort of the harness
			select {
			case c := <-vSrvOrAccepted:
				ors[i] = &vSrvOrConn{c: c}
				go ors[i].reader()
			case <-time.After(patience + 3*time.Second):
			}
			ev = map[string]interface{}{"ev": "Connect"}
		case "ClientChunk":
			if st.I < 1 || st.I > len(tunnels) || tunnels[st.I-1].closed {
				break
			}
			t, o := tunnels[st.I-1], ors[st.I-1]
			t.sent++
			if _, err := t.stream.Write(vSrvChunk(t.key, 'u', t.sent)); err != nil {
				break
			}
			if o != nil {
				want := t.sent * vSrvChunkLen
				vSrvWaitFor(patience, func() bool { o.mu.Lock(); defer o.mu.Unlock(); return len(o.buf) >= want || o.eof })
			}
			ev = map[string]interface{}{"ev": "ClientChunk", "i": st.I}
		case "ClientEnd":
			if st.I < 1 || st.I > len(tunnels) || tunnels[st.I-1].closed {
				break
			}
			t, o := tunnels[st.I-1], ors[st.I-1]
			t.closed = true
			t.stream.Close()
			if o != nil {
				vSrvWaitFor(patience, func() bool { o.mu.Lock(); defer o.mu.Unlock(); return o.eof })
			}
			ev = map[string]interface{}{"ev": "ClientEnd", "i": st.I, "kind": "eof"}
		case "OrChunk":
			if st.I < 1 || st.I > len(ors) || ors[st.I-1] == nil || ors[st.I-1].fin {
				break
			}
			t, o := tunnels[st.I-1], ors[st.I-1]
			b := vSrvChunk(t.key, 'd', o.sent/vSrvChunkLen+1)
			if _, err := o.c.Write(b); err != nil {
				break
			}
			o.sent += len(b)
			if !t.closed {
				vSrvWaitFor(patience, func() bool { t.mu.Lock(); defer t.mu.Unlock(); return len(t.buf) >= o.sent || t.ended })
			} else {
				// the handler is waiting for tor: this chunk makes it notice that the client is gone
				vSrvWaitFor(patience, func() bool { o.mu.Lock(); defer o.mu.Unlock(); return o.eof })
			}
			ev = map[string]interface{}{"ev": "OrChunk", "i": st.I}
		case "OrFin":
			if st.I < 1 || st.I > len(ors) || ors[st.I-1] == nil || ors[st.I-1].fin {
				break
			}
			o := ors[st.I-1]
			o.fin = true
			o.c.CloseWrite()
			vSrvWaitFor(patience, func() bool { o.mu.Lock(); defer o.mu.Unlock(); return o.eof })
			ev = map[string]interface{}{"ev": "OrFin", "i": st.I}
		case "Sigterm", "StdinEOF":
			if hasExited() || !signalAt.IsZero() {
				break
			}
			signalAt = time.Now()
			if st.Op == "Sigterm" {
				cmd.Process.Signal(syscall.SIGTERM)
			} else {
				stdin.Close()
			}
			select {
			case <-exited:
			case <-time.After(10 * time.Second):
			}
			if hasExited() {
				// the kernel has closed the child's sockets
				for _, o := range ors {
					if o != nil {
						o := o
						vSrvWaitFor(patience, func() bool { o.mu.Lock(); defer o.mu.Unlock(); return o.eof })
					}
				}
			}
			ev = map[string]interface{}{"ev": st.Op}
		}
		if ev == nil {
			tr.Skipped++
			continue
		}
		ev["q"] = true
		tr.Events = append(tr.Events, ev)
		// let what is still moving come to rest: two equal observations in a row
		prev := ""
		for k := 0; k < 200; k++ {
			time.Sleep(3 * time.Millisecond)
			b, _ := json.Marshal(observe())
			if string(b) == prev {
				break
			}
			prev = string(b)
		}
		tr.Events = append(tr.Events, observe())
	}
	if b, err := os.ReadFile(dir + "/stderr"); err == nil && hasExited() && exitCode != 0 {
		if len(b) > 1500 {
			b = b[len(b)-1500:]
		}
		tr.Info = map[string]interface{}{"stderr": string(b)}
	}
}

func TestVerifServerMain(t *testing.T) {
	in, out := os.Getenv("VERIF_SRV_SCHED"), os.Getenv("VERIF_SRV_OUT")
	if in == "" || out == "" {
		t.Skip("VERIF_SRV_SCHED / VERIF_SRV_OUT not set")
	}
	if v, err := strconv.Atoi(os.Getenv("VERIF_SRV_PATIENCE_MS")); err == nil && v > 0 {
		vSrvPatience = time.Duration(v) * time.Millisecond
	}
	f, err := os.Open(in)
	if err != nil {
		t.Fatal(err)
	}
	defer f.Close()
	var scheds []vSrvSched
	sc := bufio.NewScanner(f)
	sc.Buffer(make([]byte, 1<<20), 1<<26)
	for sc.Scan() {
		if len(bytes.TrimSpace(sc.Bytes())) == 0 {
			continue
		}
		var s vSrvSched
		if err := json.Unmarshal(sc.Bytes(), &s); err != nil {
			t.Fatal(err)
		}
		scheds = append(scheds, s)
	}
	of, err := os.Create(out)
	if err != nil {
		t.Fatal(err)
	}
	w := bufio.NewWriter(of)
	// one schedule at a time: the ORPort address is a package variable of the code under test
	// a process that has become hopelessly slow (code under test that leaves thousands of goroutines behind)
	// stops executing; what it has not run is reported as such, what it has run is still judged
	budget := 240 * time.Second
	if v, err := strconv.Atoi(os.Getenv("VERIF_SRV_BUDGET_S")); err == nil && v > 0 {
		budget = time.Duration(v) * time.Second
	}
	t0 := time.Now()
	for _, s := range scheds {
		var tr vSrvTrace
		if time.Since(t0) > budget {
			tr = vSrvTrace{ID: s.ID, Mode: s.Mode, Events: []map[string]interface{}{}, Note: fmt.Sprintf("not run: the harness process used up its %v (goroutines: %d)", budget, runtime.NumGoroutine())}
		} else {
			tr = vSrvRunSchedule(s)
		}
		b, _ := json.Marshal(tr)
		w.Write(b)
		w.WriteByte('\n')
		w.Flush()
	}
	of.Close()
	fmt.Printf("VERIF_SRV schedules=%d goroutines_left=%d\n", len(scheds), runtime.NumGoroutine())
}
