package turbotunnel

// Conformance harness for spec/QueueConn (injected with `go test -overlay`;
// never written into the repository).  It executes operation sequences
// emitted by TLC against the real clientMapInner (explicit clock) and the
// real QueuePacketConn and compares every result with the one TLC printed.
// It also checks the periodic sweeper of the real ClientMap in real time.
//
// Environment: VERIF_IN (cases, one JSON object per line), VERIF_OUT
// (results), VERIF_TARGET (inner|conn), VERIF_T (timeout in ticks),
// VERIF_SEED, VERIF_TICKS_NS (comma-separated durations of one abstract clock
// tick in nanoseconds; every case runs once per scale (target conn: only
// scales >= 30 ms, because its records are stamped with the wall clock) - the
// specification's clock is abstract, so the code must behave the same whether
// a tick is a nanosecond or an hour).

import (
	"bufio"
	"bytes"
	"encoding/binary"
	"encoding/json"
	"fmt"
	"net"
	"os"
	"runtime"
	"runtime/debug"
	"sort"
	"strconv"
	"strings"
	"sync"
	"sync/atomic"
	"testing"
	"time"
)

type vqOp struct {
	Op      string `json:"op"`
	A       int    `json:"a"`
	Res     string `json:"res"`
	Pkt     int    `json:"pkt"`
	From    int    `json:"from"`
	Present []int  `json:"present"`
}

type vqCase struct {
	Ops []vqOp `json:"ops"`
}

type vqResult struct {
	Idx    int         `json:"idx"`
	Sig    string      `json:"sig"`
	Detail string      `json:"detail"`
	Case   interface{} `json:"case,omitempty"`
}

func vqKey(seed uint64, pos uint64) byte {
	z := seed + 0x9e3779b97f4a7c15*(pos+1)
	z = (z ^ (z >> 30)) * 0xbf58476d1ce4e5b9
	z = (z ^ (z >> 27)) * 0x94d049bb133111eb
	return byte(z ^ (z >> 31))
}

func vqPacket(seed uint64, id int) []byte {
	n := 8 + int(vqKey(seed, uint64(id)))%40
	p := make([]byte, n)
	binary.BigEndian.PutUint64(p, uint64(id))
	for i := 8; i < n; i++ {
		p[i] = vqKey(seed^uint64(id)<<20, uint64(i))
	}
	return p
}

// vqID returns the id of the packet whose exact bytes p holds, or -1.
func vqID(seed uint64, p []byte) int {
	if len(p) < 8 {
		return -1
	}
	id := int(binary.BigEndian.Uint64(p))
	if id <= 0 || id > 1<<30 || !bytes.Equal(p, vqPacket(seed, id)) {
		return -1
	}
	return id
}

func vqScribble(p []byte) {
	for i := range p {
		p[i] = 0xee
	}
}

func vqAddr(a int) net.Addr { return ClientID{byte(a), 0xa5} }
func vqAddrNo(a net.Addr) int {
	if id, ok := a.(ClientID); ok && id[1] == 0xa5 {
		return int(id[0])
	}
	return -1
}

func vqPresent(inner *clientMapInner) (present []int, problem string) {
	if len(inner.byAge) != len(inner.byAddr) {
		return nil, fmt.Sprintf("len(byAge)=%d len(byAddr)=%d", len(inner.byAge), len(inner.byAddr))
	}
	for i, r := range inner.byAge {
		if j, ok := inner.byAddr[r.Addr]; !ok || j != i {
			return nil, fmt.Sprintf("byAddr[%v]=%d,%v but record is at heap index %d", r.Addr, j, ok, i)
		}
		present = append(present, vqAddrNo(r.Addr))
	}
	sort.Ints(present)
	return present, ""
}

func vqSame(a, b []int) bool {
	if len(a) != len(b) {
		return false
	}
	for i := range a {
		if a[i] != b[i] {
			return false
		}
	}
	return true
}

// vqRun executes one case; it returns "" or (signature, detail) of the first
// step whose observed result differs from the expected one.
func vqRun(c *vqCase, target string, T int, seed uint64, idx int, tick time.Duration) (string, string) {
	base := time.Unix(1700000000, 0)
	now := 0
	held := map[int]<-chan []byte{}
	var inner *clientMapInner
	var conn *QueuePacketConn
	if target == "inner" {
		inner = &clientMapInner{byAge: make([]*clientRecord, 0), byAddr: make(map[net.Addr]int)}
	} else {
		if idx%64 == 0 {
			// the real constructor (its sweeper goroutine sleeps for half an hour and is never needed here)
			conn = NewQueuePacketConn(vqAddr(200), time.Hour)
		} else {
			conn = &QueuePacketConn{
				clients:   &ClientMap{inner: clientMapInner{byAge: make([]*clientRecord, 0), byAddr: make(map[net.Addr]int)}},
				localAddr: vqAddr(200),
				recvQueue: make(chan taggedPacket, queueSize),
				closed:    make(chan struct{}),
			}
		}
		inner = &conn.clients.inner
	}
	for i, op := range c.Ops {
		got, gotPkt, gotFrom := "ok", 0, 0
		at := base.Add(time.Duration(now) * tick)
		switch op.Op {
		case "W":
			buf := vqPacket(seed, op.Pkt)
			if target == "inner" {
				// WriteTo's three lines over the explicit-clock inner map
				ch := inner.SendQueue(vqAddr(op.A), at)
				cp := append([]byte(nil), buf...)
				select {
				case ch <- cp:
				default:
				}
			} else {
				want := len(buf)
				n, err, pan := vqWriteTo(conn, buf, vqAddr(op.A))
				if pan != "" {
					got = "panic:" + pan
				} else if err != nil {
					got = "err"
				} else if n != want {
					got = "short"
				}
			}
			vqScribble(buf) // the caller reuses its buffer
			gotPkt = op.Pkt
		case "O":
			if target == "inner" {
				held[op.A] = inner.SendQueue(vqAddr(op.A), at)
			} else {
				held[op.A] = conn.OutgoingQueue(vqAddr(op.A))
			}
		case "D":
			select {
			case p, ok := <-held[op.A]:
				if !ok {
					got = "closed"
				} else {
					got, gotPkt, gotFrom = "pkt", vqID(seed, p), op.A
				}
			default:
				got = "empty"
			}
		case "I":
			buf := vqPacket(seed, op.Pkt)
			conn.QueueIncoming(buf, vqAddr(op.A))
			vqScribble(buf)
			gotPkt = op.Pkt
		case "R":
			closed := false
			select {
			case <-conn.closed:
				closed = true
			default:
			}
			if !closed && len(conn.recvQueue) == 0 {
				got = "wouldblock"
				break
			}
			buf := make([]byte, 2048)
			n, from, err := conn.ReadFrom(buf)
			if err != nil {
				got = "err"
			} else {
				got, gotPkt, gotFrom = "pkt", vqID(seed, buf[:n]), vqAddrNo(from)
			}
		case "S":
			if target == "inner" {
				inner.removeExpired(at, time.Duration(T)*tick)
			} else {
				// what the sweeper goroutine does, at the wall clock
				conn.clients.lock.Lock()
				conn.clients.inner.removeExpired(time.Now(), time.Duration(T)*tick)
				conn.clients.lock.Unlock()
			}
		case "A":
			now++
			if target != "inner" {
				// QueuePacketConn stamps records with the wall clock: one tick
				// passes by making every existing record one tick older (same
				// shift for all, so the age order is unchanged).
				conn.clients.lock.Lock()
				for _, r := range conn.clients.inner.byAge {
					r.LastSeen = r.LastSeen.Add(-tick)
				}
				conn.clients.lock.Unlock()
			}
		case "C":
			if err := conn.Close(); err != nil {
				got = "err"
			}
		default:
			return "harness/unknown-op", op.Op
		}
		if strings.HasPrefix(got, "panic:") {
			return fmt.Sprintf("queue/%s/%s", target, got), fmt.Sprintf("step %d %s(%d) panicked; expected (%s pkt=%d)", i+1, op.Op, op.A, op.Res, op.Pkt)
		}
		if got != op.Res || gotPkt != op.Pkt || gotFrom != op.From {
			return fmt.Sprintf("queue/%s/%s:expected-%s-got-%s", target, op.Op, vqClass(op.Res, op.Pkt, op.Pkt, op.From, op.From), vqClass(got, gotPkt, op.Pkt, gotFrom, op.From)),
				fmt.Sprintf("step %d %s(%d): expected (%s pkt=%d from=%d), real code gave (%s pkt=%d from=%d)", i+1, op.Op, op.A, op.Res, op.Pkt, op.From, got, gotPkt, gotFrom)
		}
		present, problem := vqPresent(inner)
		if problem != "" {
			return fmt.Sprintf("queue/%s/%s:index-inconsistent", target, op.Op), fmt.Sprintf("step %d %s(%d): %s", i+1, op.Op, op.A, problem)
		}
		if !vqSame(present, op.Present) {
			kind := "record-missing"
			if len(present) > len(op.Present) {
				kind = "record-survives"
			}
			return fmt.Sprintf("queue/%s/%s:%s", target, op.Op, kind), fmt.Sprintf("step %d %s(%d): expected records %v, real map has %v", i+1, op.Op, op.A, op.Present, present)
		}
	}
	return "", ""
}

// vqWriteTo calls the real WriteTo; a panic is returned as its message class.
func vqWriteTo(conn *QueuePacketConn, buf []byte, a net.Addr) (n int, err error, pan string) {
	defer func() {
		if v := recover(); v != nil {
			pan = vqPanicClass(v)
		}
	}()
	n, err = conn.WriteTo(buf, a)
	return
}

func vqPanicClass(v interface{}) string {
	msg := fmt.Sprint(v)
	for _, known := range []string{"send on closed channel", "close of closed channel", "nil pointer dereference", "index out of range", "inconsistent clientMap", "duplicate address in clientMap"} {
		if strings.Contains(msg, known) {
			return strings.ReplaceAll(known, " ", "-")
		}
	}
	return "other"
}

func vqClass(res string, pkt, wantPkt, from, wantFrom int) string {
	if res != "pkt" {
		return res
	}
	switch {
	case pkt == -1:
		return "corrupt-pkt"
	case pkt != wantPkt:
		return "other-pkt"
	case from != wantFrom:
		return "pkt-wrong-addr"
	}
	return "pkt"
}

func vqReadCases(path string) ([][]byte, error) {
	f, err := os.Open(path)
	if err != nil {
		return nil, err
	}
	defer f.Close()
	var out [][]byte
	sc := bufio.NewScanner(f)
	sc.Buffer(make([]byte, 1<<20), 1<<28)
	for sc.Scan() {
		if b := sc.Bytes(); len(b) > 0 {
			out = append(out, append([]byte(nil), b...))
		}
	}
	return out, sc.Err()
}

func TestVerifQueue(t *testing.T) {
	in, outp, target := os.Getenv("VERIF_IN"), os.Getenv("VERIF_OUT"), os.Getenv("VERIF_TARGET")
	if in == "" || outp == "" {
		t.Skip("VERIF_IN/VERIF_OUT not set")
	}
	T, _ := strconv.Atoi(os.Getenv("VERIF_T"))
	seed, _ := strconv.ParseUint(os.Getenv("VERIF_SEED"), 10, 64)
	var ticks []time.Duration
	for _, f := range strings.Split(os.Getenv("VERIF_TICKS_NS"), ",") {
		if ns, err := strconv.ParseInt(strings.TrimSpace(f), 10, 64); err == nil && ns > 0 {
			ticks = append(ticks, time.Duration(ns))
		}
	}
	if len(ticks) == 0 {
		ticks = []time.Duration{time.Second}
	}
	if target != "inner" {
		// the wall clock keeps running during a case (microseconds): only scales far above that
		var coarse []time.Duration
		for _, t := range ticks {
			if t >= 30*time.Millisecond {
				coarse = append(coarse, t)
			}
		}
		if len(coarse) == 0 {
			coarse = []time.Duration{time.Second}
		}
		ticks = coarse
	}
	raw, err := vqReadCases(in)
	if err != nil {
		t.Fatal(err)
	}
	of, err := os.Create(outp)
	if err != nil {
		t.Fatal(err)
	}
	w := bufio.NewWriter(of)
	var mu sync.Mutex
	put := func(v interface{}) {
		b, _ := json.Marshal(v)
		mu.Lock()
		w.Write(b)
		w.WriteByte('\n')
		mu.Unlock()
	}
	var next, steps, nontrivial, runs int64
	var wg sync.WaitGroup
	for k := 0; k < runtime.NumCPU(); k++ {
		wg.Add(1)
		go func() {
			defer wg.Done()
			for {
				i := int(atomic.AddInt64(&next, 1)) - 1
				if i >= len(raw) {
					return
				}
				var c vqCase
				if err := json.Unmarshal(raw[i], &c); err != nil {
					put(vqResult{Idx: i, Sig: "harness/bad-case", Detail: err.Error()})
					continue
				}
				atomic.AddInt64(&steps, int64(len(c.Ops)))
				for _, op := range c.Ops {
					// non-trivial: something expires, is dropped, is refused or comes out of a queue
					if op.Res == "closed" || op.Res == "err" || op.Res == "pkt" || op.Res == "empty" {
						atomic.AddInt64(&nontrivial, 1)
						break
					}
				}
				func() {
					defer func() {
						if v := recover(); v != nil {
							put(vqResult{Idx: i, Sig: "queue/" + target + "/panic", Detail: fmt.Sprintf("%v\n%s", v, debug.Stack()), Case: json.RawMessage(raw[i])})
						}
					}()
					for _, tick := range ticks {
						atomic.AddInt64(&runs, 1)
						sig, detail := "", ""
						for attempt := 0; attempt < 4; attempt++ {
							t0 := time.Now()
							sig, detail = vqRun(&c, target, T, seed, i, tick)
							// a case runs in microseconds; if this run was stalled for a
							// noticeable part of a tick the wall-clock stamps are off: run it again
							if sig == "" || target == "inner" || time.Since(t0) < tick/16 {
								break
							}
						}
						if sig != "" {
							put(vqResult{Idx: i, Sig: sig, Detail: fmt.Sprintf("[one tick = %v, timeout = %v] %s", tick, time.Duration(T)*tick, detail), Case: json.RawMessage(raw[i])})
							break
						}
					}
				}()
			}
		}()
	}
	wg.Wait()
	put(map[string]interface{}{"summary": map[string]interface{}{"cases": len(raw), "steps": steps, "nontrivial": nontrivial, "runs": runs, "scales": len(ticks)}})
	w.Flush()
	of.Close()
}

// ---------------------------------------------------------------------------
// Operation sequences with Advance/Sweep on a real QueuePacketConn with its
// real sweeper goroutine, in real time (short timeout).  Advance = sleep one
// tick; at a model Sweep the harness waits for the real sweeper: records the
// model discards must disappear (deadline 1.5 timeouts + allowance), records
// the model keeps are watched until just before their own timeout.  Verdicts
// never rest on scheduling luck: "discarded early" is judged by the measured
// time since the START of the client's last WriteTo/OutgoingQueue (< timeout),
// a mismatch that could be explained by the wall clock having run past a
// timeout the model has not reached is reported as skipped, not as a violation.
//
// Environment: VERIF_IN, VERIF_OUT, VERIF_T (ticks), VERIF_RT_TICK_MS, VERIF_SEED.

func vqRunRT(c *vqCase, T int, tau time.Duration, seed uint64, idx int, phase time.Duration, allowance time.Duration) (sig, detail string, skipped bool) {
	timeout := time.Duration(T) * tau
	margin := timeout / 10
	conn := NewQueuePacketConn(vqAddr(200), timeout)
	inner := &conn.clients.inner
	isPresent := func(a int) bool {
		conn.clients.lock.Lock()
		_, ok := inner.byAddr[vqAddr(a)]
		conn.clients.lock.Unlock()
		return ok
	}
	time.Sleep(phase)
	touch := map[int]time.Time{}
	held := map[int]<-chan []byte{}
	var prev []int
	for i, op := range c.Ops {
		where := fmt.Sprintf("[real time, timeout %v, sweeper every %v] step %d %s(%d)", timeout, timeout/2, i+1, op.Op, op.A)
		// The model and the wall clock must agree about who is within its
		// timeout: if a record the model still holds (and does not discard in
		// this very Sweep) has really been idle for almost a timeout, the real
		// sweeper may legitimately be ahead of the model - give the case up.
		if op.Op != "A" {
			for _, a := range prev {
				discarded := op.Op == "S"
				for _, k := range op.Present {
					if k == a {
						discarded = false
					}
				}
				if !discarded && time.Since(touch[a]) >= timeout-margin {
					return "", "", true
				}
			}
		}
		opStart := time.Now()
		stalled := func() bool { return time.Since(opStart) > margin }
		switch op.Op {
		case "W":
			buf := vqPacket(seed, op.Pkt)
			want := len(buf)
			t0 := time.Now()
			n, err, pan := vqWriteTo(conn, buf, vqAddr(op.A))
			vqScribble(buf)
			touch[op.A] = t0
			switch {
			case pan != "":
				return "queue/conn/panic:" + pan, where + " panicked; expected ok", false
			case err != nil || n != want:
				return "queue/conn/W:expected-ok-got-err", where, false
			case !isPresent(op.A):
				if stalled() {
					return "", "", true
				}
				return "queue/conn/W:record-missing", where + ": no record for the address just written to", false
			}
		case "O":
			t0 := time.Now()
			held[op.A] = conn.OutgoingQueue(vqAddr(op.A))
			touch[op.A] = t0
			if !isPresent(op.A) {
				if stalled() {
					return "", "", true
				}
				return "queue/conn/O:record-missing", where, false
			}
		case "D":
			got, gotPkt := "", 0
			select {
			case p, ok := <-held[op.A]:
				if !ok {
					got = "closed"
				} else {
					got, gotPkt = "pkt", vqID(seed, p)
				}
			default:
				got = "empty"
			}
			if got != op.Res || gotPkt != op.Pkt {
				if stalled() || time.Since(touch[op.A]) >= timeout-margin {
					return "", "", true // the real clock may have passed this client's timeout
				}
				return fmt.Sprintf("queue/conn/D:expected-%s-got-%s", vqClass(op.Res, op.Pkt, op.Pkt, 0, 0), vqClass(got, gotPkt, op.Pkt, 0, 0)),
					fmt.Sprintf("%s: expected (%s pkt=%d), real code gave (%s pkt=%d), %v after the client's last touch", where, op.Res, op.Pkt, got, gotPkt, time.Since(touch[op.A])), false
			}
		case "A":
			time.Sleep(tau)
		case "S":
			keep := map[int]bool{}
			for _, a := range op.Present {
				keep[a] = true
			}
			// records the model discards here: the real sweeper must discard them, not before their timeout
			for _, a := range prev {
				if keep[a] {
					continue
				}
				deadline := touch[a].Add(timeout + timeout/2 + allowance)
				for isPresent(a) {
					if time.Now().After(deadline) {
						return "queue/conn/S:record-survives", fmt.Sprintf("%s: record %d still present %v after its last touch", where, a, time.Since(touch[a])), false
					}
					time.Sleep(time.Millisecond)
				}
			}
			// records the model keeps: watch them while they are certainly within their timeout
			until := time.Now().Add(timeout/2 + margin)
			for a := range keep {
				if lim := touch[a].Add(timeout - margin*5/2); lim.Before(until) { // stop well before the taint threshold of the next step
					until = lim
				}
			}
			for {
				for a := range keep {
					if !isPresent(a) {
						if idle := time.Since(touch[a]); idle < timeout {
							return "queue/conn/S:record-missing", fmt.Sprintf("%s: record %d discarded %v after the start of its last WriteTo/OutgoingQueue (timeout %v)", where, a, idle, timeout), false
						}
						return "", "", true
					}
				}
				if !time.Now().Before(until) {
					break
				}
				time.Sleep(2 * time.Millisecond)
			}
		default:
			return "harness/rt-unsupported-op", op.Op, false
		}
		prev = op.Present
	}
	return "", "", false
}

func TestVerifQueueRT(t *testing.T) {
	in, outp := os.Getenv("VERIF_IN"), os.Getenv("VERIF_OUT")
	if in == "" || outp == "" {
		t.Skip("VERIF_IN/VERIF_OUT not set")
	}
	T, _ := strconv.Atoi(os.Getenv("VERIF_T"))
	ms, _ := strconv.Atoi(os.Getenv("VERIF_RT_TICK_MS"))
	if ms <= 0 {
		ms = 50
	}
	allowMul, _ := strconv.Atoi(os.Getenv("VERIF_RT_ALLOW"))
	if allowMul <= 0 {
		allowMul = 2
	}
	tau := time.Duration(ms) * time.Millisecond
	seed, _ := strconv.ParseUint(os.Getenv("VERIF_SEED"), 10, 64)
	raw, err := vqReadCases(in)
	if err != nil {
		t.Fatal(err)
	}
	of, err := os.Create(outp)
	if err != nil {
		t.Fatal(err)
	}
	w := bufio.NewWriter(of)
	var mu sync.Mutex
	put := func(v interface{}) {
		b, _ := json.Marshal(v)
		mu.Lock()
		w.Write(b)
		w.WriteByte('\n')
		mu.Unlock()
	}
	var runs, skipped int64
	var wg sync.WaitGroup
	sem := make(chan struct{}, 256) // concurrent runs: sleeping goroutines are free, thousands of 1 ms pollers are not
	for i := range raw {
		var c vqCase
		if err := json.Unmarshal(raw[i], &c); err != nil {
			put(vqResult{Idx: i, Sig: "harness/bad-case", Detail: err.Error()})
			continue
		}
		for ph := 0; ph < 3; ph++ {
			wg.Add(1)
			sem <- struct{}{}
			go func(i, ph int, c vqCase) {
				defer wg.Done()
				defer func() { <-sem }()
				defer func() {
					if v := recover(); v != nil {
						put(vqResult{Idx: i, Sig: "queue/conn/panic:" + vqPanicClass(v), Detail: fmt.Sprintf("%v\n%s", v, debug.Stack()), Case: json.RawMessage(raw[i])})
					}
				}()
				atomic.AddInt64(&runs, 1)
				sig, detail, skip := vqRunRT(&c, T, tau, seed, i, time.Duration(ph)*tau/3, time.Duration(allowMul*T)*tau)
				if skip {
					atomic.AddInt64(&skipped, 1)
				}
				if sig != "" {
					put(vqResult{Idx: i, Sig: sig, Detail: detail, Case: json.RawMessage(raw[i])})
				}
			}(i, ph, c)
		}
	}
	wg.Wait()
	put(map[string]interface{}{"summary": map[string]interface{}{"cases": len(raw), "runs": runs, "skipped": skipped, "nontrivial": len(raw), "steps": 0}})
	w.Flush()
	of.Close()
}

// ---------------------------------------------------------------------------
// The periodic sweeper of the real ClientMap, in real time: records a trace
// for spec/QueueConn/QueueConn_Trace.tla (which holds the bounds; nothing is
// judged here).  VERIF_SWEEP_MS is the timeout T.  Clients are touched on
// different schedules; each puts one packet into its queue at its first
// touch; after its last touch a watcher takes the packet and blocks on the
// queue until it is closed.  Times are microseconds since the test started.

func TestVerifSweeper(t *testing.T) {
	outp := os.Getenv("VERIF_OUT")
	if outp == "" {
		t.Skip("VERIF_OUT not set")
	}
	ms, _ := strconv.Atoi(os.Getenv("VERIF_SWEEP_MS"))
	if ms <= 0 {
		ms = 300
	}
	T := time.Duration(ms) * time.Millisecond
	t00 := time.Now()
	us := func(x time.Time) int64 { return int64(x.Sub(t00) / time.Microsecond) }
	var mu sync.Mutex
	type tev struct {
		at int64
		e  map[string]interface{}
	}
	var evs []tev
	logev := func(at int64, e map[string]interface{}) {
		mu.Lock()
		evs = append(evs, tev{at, e})
		mu.Unlock()
	}
	m := NewClientMap(T)
	type sched struct {
		touches int
		gap     time.Duration
		phase   time.Duration
	}
	var scheds []sched
	for i := 0; i < 6; i++ { // touched once, at staggered phases of the sweeper period
		scheds = append(scheds, sched{1, 0, time.Duration(i*ms/12) * time.Millisecond})
	}
	scheds = append(scheds, sched{9, T / 3, 0}, sched{6, T / 2, 0}, sched{4, T * 8 / 10, 0}, sched{20, T / 10, 0})
	var wg sync.WaitGroup
	for i, s := range scheds {
		wg.Add(1)
		go func(i int, s sched) {
			defer wg.Done()
			addr := ClientID{byte(i), 0x5a}
			time.Sleep(s.phase)
			var q chan []byte
			for k := 0; k < s.touches; k++ {
				if k > 0 {
					time.Sleep(s.gap)
				}
				t0 := time.Now()
				q2 := m.SendQueue(addr)
				t1 := time.Now()
				logev(us(t1), map[string]interface{}{"ev": "touch", "a": i, "t0": us(t0), "t1": us(t1), "same": k == 0 || q2 == q})
				if k == 0 {
					q2 <- []byte{byte(i), 1, 2, 3} // queued content that must be kept while the client is seen
				}
				q = q2
			}
			n := len(q)
			if n == 1 {
				if p := <-q; len(p) != 4 || p[0] != byte(i) {
					n = -1
				}
			}
			logev(us(time.Now()), map[string]interface{}{"ev": "kept", "a": i, "n": n})
			select {
			case _, ok := <-q:
				at := us(time.Now())
				if !ok {
					logev(at, map[string]interface{}{"ev": "closed", "a": i, "t": at})
				} else {
					logev(at, map[string]interface{}{"ev": "open", "a": i, "t": at})
				}
			case <-time.After(10 * T):
				at := us(time.Now())
				logev(at, map[string]interface{}{"ev": "open", "a": i, "t": at})
			}
		}(i, s)
	}
	wg.Wait()
	sort.SliceStable(evs, func(i, j int) bool { return evs[i].at < evs[j].at })
	of, err := os.Create(outp)
	if err != nil {
		t.Fatal(err)
	}
	for _, e := range evs {
		b, _ := json.Marshal(e.e)
		of.Write(b)
		of.Write([]byte("\n"))
	}
	of.Close()
}

// ---------------------------------------------------------------------------
// Mass expiry against concurrent sightings, on the real ClientMap with its
// real sweeper goroutine.  Per round: F filler clients and, created last, W
// watched clients, all created inside one sweeper period so that they expire
// in the same sweep.  Sentinels block on the oldest fillers' queues; the
// moment the sweep closes one of them every watched client starts being seen
// (SendQueue in a tight loop from its own goroutine) for a few dozen ms - i.e.
// the sightings fall into the pass that is discarding thousands of records.
// What is recorded (for spec/QueueConn/QueueConn_Trace.tla, which holds the
// rule: a queue may be replaced only when the client's previous sighting
// started a full timeout earlier) is, per watched client, its first touch,
// every touch that returned a different queue together with the touch just
// before it, and its last touch.  Nothing is judged here.
//
// Environment: VERIF_OUT (trace), VERIF_STRESS_MS, VERIF_STRESS_FILLERS,
// VERIF_STRESS_WATCHED, VERIF_STRESS_ROUNDS.

func TestVerifSweepStress(t *testing.T) {
	outp := os.Getenv("VERIF_OUT")
	if outp == "" {
		t.Skip("VERIF_OUT not set")
	}
	geti := func(k string, d int) int {
		if v, err := strconv.Atoi(os.Getenv(k)); err == nil && v > 0 {
			return v
		}
		return d
	}
	ms, F, W, R := geti("VERIF_STRESS_MS", 1000), geti("VERIF_STRESS_FILLERS", 3000), geti("VERIF_STRESS_WATCHED", 16), geti("VERIF_STRESS_ROUNDS", 3)
	T := time.Duration(ms) * time.Millisecond
	t00 := time.Now()
	us := func(x time.Time) int64 { return int64(x.Sub(t00) / time.Microsecond) }
	type tev struct {
		at int64
		e  map[string]interface{}
	}
	var mu sync.Mutex
	var evs []tev
	type roundInfo struct {
		Round      int     `json:"round"`
		Valid      bool    `json:"valid"`
		CreateMs   float64 `json:"create_ms"`
		WindowUs   int64   `json:"sweep_window_us"`   // first sentinel closed .. last filler closed
		Contended  int64   `json:"touches_in_window"` // sightings of watched clients that started inside the window
		Touches    int64   `json:"touches"`
		Replaced   int64   `json:"replacements"`
		PanicClass string  `json:"panic,omitempty"`
	}
	infos := make([]roundInfo, R)
	var wg sync.WaitGroup
	for r := 0; r < R; r++ {
		wg.Add(1)
		go func(r int) {
			defer wg.Done()
			info := &infos[r]
			info.Round = r
			m := NewClientMap(T)
			c0 := time.Now()
			time.Sleep(T / 20) // the sweeper's clock starts a moment after ours: stay clear of its period boundary
			fill := make([]chan []byte, F)
			for i := range fill {
				fill[i] = m.SendQueue(ClientID{byte(r), 0xf1, byte(i), byte(i >> 8), byte(i >> 16)})
			}
			type watched struct {
				id    ClientID
				q     chan []byte
				start time.Time
			}
			ws := make([]watched, W)
			for j := range ws {
				ws[j].id = ClientID{byte(r), 0x77, byte(j)}
				ws[j].start = time.Now()
				ws[j].q = m.SendQueue(ws[j].id)
				e := time.Now()
				ws[j].q <- []byte{byte(j)}
				mu.Lock()
				evs = append(evs, tev{us(e), map[string]interface{}{"ev": "touch", "a": r*W + j, "t0": us(ws[j].start), "t1": us(e), "same": true}})
				mu.Unlock()
			}
			// order the sends above before anything the sweeper does later (the last send is
			// not followed by a SendQueue of this goroutine; without this edge the race
			// detector rightly has no proof that the send precedes the eventual close)
			m.lock.Lock()
			m.lock.Unlock()
			info.CreateMs = float64(time.Since(c0)) / 1e6
			// everything must expire in one and the same sweep: created within one sweeper period, with room to spare
			info.Valid = time.Since(c0) < T/2-T/8
			start := make(chan struct{})
			var once sync.Once
			var sweepStart, sweepEnd int64
			for _, k := range []int{0, 1, 2, 3} {
				go func(q chan []byte) {
					for range q {
					}
					once.Do(func() { atomic.StoreInt64(&sweepStart, us(time.Now())); close(start) })
				}(fill[k%F])
			}
			go func(q chan []byte) {
				for range q {
				}
				atomic.StoreInt64(&sweepEnd, us(time.Now()))
			}(fill[F-1])
			var rw sync.WaitGroup
			for j := range ws {
				rw.Add(1)
				go func(j int) {
					defer rw.Done()
					defer func() {
						if v := recover(); v != nil {
							info.PanicClass = vqPanicClass(v)
						}
					}()
					w := &ws[j]
					a := r*W + j
					if j >= W-4 {
						// the clients created last are discarded last: their goroutines do not
						// park but poll the oldest filler's queue, so that no wake-up latency
						// stands between the beginning of the sweep and their first sighting
						// (only from the earliest instant at which the expiring sweep can run)
						time.Sleep(time.Until(c0.Add(T + T/20 - 2*time.Millisecond)))
						deadline := time.Now().Add(3 * T)
					spin:
						for {
							select {
							case _, ok := <-fill[0]:
								if !ok {
									break spin
								}
							default:
							}
							if time.Now().After(deadline) {
								return
							}
							runtime.Gosched()
						}
					} else {
						select {
						case <-start:
						case <-time.After(3 * T):
							return
						}
					}
					stop := time.Now().Add(40 * time.Millisecond)
					cur, prevS, prevE, prevLogged := w.q, w.start, w.start, true
					var last map[string]interface{}
					for time.Now().Before(stop) {
						s0 := time.Now()
						q := m.SendQueue(w.id)
						e0 := time.Now()
						atomic.AddInt64(&info.Touches, 1)
						if end := atomic.LoadInt64(&sweepEnd); end == 0 || us(s0) < end {
							atomic.AddInt64(&info.Contended, 1)
						}
						ev := map[string]interface{}{"ev": "touch", "a": a, "t0": us(s0), "t1": us(e0), "same": q == cur}
						if q != cur {
							atomic.AddInt64(&info.Replaced, 1)
							mu.Lock()
							if !prevLogged {
								evs = append(evs, tev{us(prevE), last})
							}
							evs = append(evs, tev{us(e0), ev})
							mu.Unlock()
							prevLogged = true
						} else {
							prevLogged = false
						}
						cur, prevS, prevE, last = q, s0, e0, ev
					}
					_ = prevS
					if !prevLogged && last != nil {
						mu.Lock()
						evs = append(evs, tev{us(prevE), last})
						mu.Unlock()
					}
				}(j)
			}
			rw.Wait()
			if s, e := atomic.LoadInt64(&sweepStart), atomic.LoadInt64(&sweepEnd); s != 0 && e >= s {
				info.WindowUs = e - s
			}
		}(r)
	}
	wg.Wait()
	sort.SliceStable(evs, func(i, j int) bool { return evs[i].at < evs[j].at })
	of, err := os.Create(outp)
	if err != nil {
		t.Fatal(err)
	}
	for _, e := range evs {
		b, _ := json.Marshal(e.e)
		of.Write(b)
		of.Write([]byte("\n"))
	}
	of.Close()
	b, _ := json.Marshal(map[string]interface{}{"timeout_ms": ms, "fillers": F, "watched": W, "rounds": infos})
	os.WriteFile(outp+".summary", b, 0o644)
}
