package turbotunnel

// Conformance harness for spec/QueueConn (injected with `go test -overlay`;
// never written into the repository).  It executes operation sequences
// emitted by TLC against the real clientMapInner (explicit clock) and the
// real QueuePacketConn and compares every result with the one TLC printed.
// It also checks the periodic sweeper of the real ClientMap in real time.
//
// Environment: VERIF_IN (cases, one JSON object per line), VERIF_OUT
// (results), VERIF_TARGET (inner|conn), VERIF_T (timeout in ticks),
// VERIF_SEED, VERIF_TICKS_NS (comma-separated durations of one abstract clock
// tick in nanoseconds; target inner runs every case once per scale - the
// specification's clock is abstract, so the code must behave the same whether
// a tick is a nanosecond or an hour).

import (
	"bufio"
	"bytes"
	"encoding/binary"
	"encoding/json"
	"fmt"
	"net"
	"os"
	"runtime"
	"runtime/debug"
	"sort"
	"strconv"
	"strings"
	"sync"
	"sync/atomic"
	"testing"
	"time"
)

type vqOp struct {
	Op      string `json:"op"`
	A       int    `json:"a"`
	Res     string `json:"res"`
	Pkt     int    `json:"pkt"`
	From    int    `json:"from"`
	Present []int  `json:"present"`
}

type vqCase struct {
	Ops []vqOp `json:"ops"`
}

type vqResult struct {
	Idx    int         `json:"idx"`
	Sig    string      `json:"sig"`
	Detail string      `json:"detail"`
	Case   interface{} `json:"case,omitempty"`
}

func vqKey(seed uint64, pos uint64) byte {
	z := seed + 0x9e3779b97f4a7c15*(pos+1)
	z = (z ^ (z >> 30)) * 0xbf58476d1ce4e5b9
	z = (z ^ (z >> 27)) * 0x94d049bb133111eb
	return byte(z ^ (z >> 31))
}

func vqPacket(seed uint64, id int) []byte {
	n := 8 + int(vqKey(seed, uint64(id)))%40
	p := make([]byte, n)
	binary.BigEndian.PutUint64(p, uint64(id))
	for i := 8; i < n; i++ {
		p[i] = vqKey(seed^uint64(id)<<20, uint64(i))
	}
	return p
}

// vqID returns the id of the packet whose exact bytes p holds, or -1.
func vqID(seed uint64, p []byte) int {
	if len(p) < 8 {
		return -1
	}
	id := int(binary.BigEndian.Uint64(p))
	if id <= 0 || id > 1<<30 || !bytes.Equal(p, vqPacket(seed, id)) {
		return -1
	}
	return id
}

func vqScribble(p []byte) {
	for i := range p {
		p[i] = 0xee
	}
}

func vqAddr(a int) net.Addr { return ClientID{byte(a), 0xa5} }
func vqAddrNo(a net.Addr) int {
	if id, ok := a.(ClientID); ok && id[1] == 0xa5 {
		return int(id[0])
	}
	return -1
}

func vqPresent(inner *clientMapInner) (present []int, problem string) {
	if len(inner.byAge) != len(inner.byAddr) {
		return nil, fmt.Sprintf("len(byAge)=%d len(byAddr)=%d", len(inner.byAge), len(inner.byAddr))
	}
	for i, r := range inner.byAge {
		if j, ok := inner.byAddr[r.Addr]; !ok || j != i {
			return nil, fmt.Sprintf("byAddr[%v]=%d,%v but record is at heap index %d", r.Addr, j, ok, i)
		}
		present = append(present, vqAddrNo(r.Addr))
	}
	sort.Ints(present)
	return present, ""
}

func vqSame(a, b []int) bool {
	if len(a) != len(b) {
		return false
	}
	for i := range a {
		if a[i] != b[i] {
			return false
		}
	}
	return true
}

// vqRun executes one case; it returns "" or (signature, detail) of the first
// step whose observed result differs from the expected one.
func vqRun(c *vqCase, target string, T int, seed uint64, idx int, tick time.Duration) (string, string) {
	base := time.Unix(1700000000, 0)
	now := 0
	held := map[int]<-chan []byte{}
	var inner *clientMapInner
	var conn *QueuePacketConn
	if target == "inner" {
		inner = &clientMapInner{byAge: make([]*clientRecord, 0), byAddr: make(map[net.Addr]int)}
	} else {
		if idx%64 == 0 {
			// the real constructor (its sweeper goroutine sleeps for half an hour and is never needed here)
			conn = NewQueuePacketConn(vqAddr(200), time.Hour)
		} else {
			conn = &QueuePacketConn{
				clients:   &ClientMap{inner: clientMapInner{byAge: make([]*clientRecord, 0), byAddr: make(map[net.Addr]int)}},
				localAddr: vqAddr(200),
				recvQueue: make(chan taggedPacket, queueSize),
				closed:    make(chan struct{}),
			}
		}
		inner = &conn.clients.inner
	}
	for i, op := range c.Ops {
		got, gotPkt, gotFrom := "ok", 0, 0
		at := base.Add(time.Duration(now) * tick)
		switch op.Op {
		case "W":
			buf := vqPacket(seed, op.Pkt)
			if target == "inner" {
				// WriteTo's three lines over the explicit-clock inner map
				ch := inner.SendQueue(vqAddr(op.A), at)
				cp := append([]byte(nil), buf...)
				select {
				case ch <- cp:
				default:
				}
			} else {
				want := len(buf)
				n, err := conn.WriteTo(buf, vqAddr(op.A))
				if err != nil {
					got = "err"
				} else if n != want {
					got = "short"
				}
			}
			vqScribble(buf) // the caller reuses its buffer
			gotPkt = op.Pkt
		case "O":
			if target == "inner" {
				held[op.A] = inner.SendQueue(vqAddr(op.A), at)
			} else {
				held[op.A] = conn.OutgoingQueue(vqAddr(op.A))
			}
		case "D":
			select {
			case p, ok := <-held[op.A]:
				if !ok {
					got = "closed"
				} else {
					got, gotPkt, gotFrom = "pkt", vqID(seed, p), op.A
				}
			default:
				got = "empty"
			}
		case "I":
			buf := vqPacket(seed, op.Pkt)
			conn.QueueIncoming(buf, vqAddr(op.A))
			vqScribble(buf)
			gotPkt = op.Pkt
		case "R":
			closed := false
			select {
			case <-conn.closed:
				closed = true
			default:
			}
			if !closed && len(conn.recvQueue) == 0 {
				got = "wouldblock"
				break
			}
			buf := make([]byte, 2048)
			n, from, err := conn.ReadFrom(buf)
			if err != nil {
				got = "err"
			} else {
				got, gotPkt, gotFrom = "pkt", vqID(seed, buf[:n]), vqAddrNo(from)
			}
		case "S":
			if target == "inner" {
				inner.removeExpired(at, time.Duration(T)*tick)
			} else {
				// what the sweeper goroutine does, at the wall clock
				conn.clients.lock.Lock()
				conn.clients.inner.removeExpired(time.Now(), time.Hour)
				conn.clients.lock.Unlock()
			}
		case "A":
			now++
		case "C":
			if err := conn.Close(); err != nil {
				got = "err"
			}
		default:
			return "harness/unknown-op", op.Op
		}
		if got != op.Res || gotPkt != op.Pkt || gotFrom != op.From {
			return fmt.Sprintf("queue/%s/%s:expected-%s-got-%s", target, op.Op, vqClass(op.Res, op.Pkt, op.Pkt, op.From, op.From), vqClass(got, gotPkt, op.Pkt, gotFrom, op.From)),
				fmt.Sprintf("step %d %s(%d): expected (%s pkt=%d from=%d), real code gave (%s pkt=%d from=%d)", i+1, op.Op, op.A, op.Res, op.Pkt, op.From, got, gotPkt, gotFrom)
		}
		present, problem := vqPresent(inner)
		if problem != "" {
			return fmt.Sprintf("queue/%s/%s:index-inconsistent", target, op.Op), fmt.Sprintf("step %d %s(%d): %s", i+1, op.Op, op.A, problem)
		}
		if !vqSame(present, op.Present) {
			kind := "record-missing"
			if len(present) > len(op.Present) {
				kind = "record-survives"
			}
			return fmt.Sprintf("queue/%s/%s:%s", target, op.Op, kind), fmt.Sprintf("step %d %s(%d): expected records %v, real map has %v", i+1, op.Op, op.A, op.Present, present)
		}
	}
	return "", ""
}

func vqClass(res string, pkt, wantPkt, from, wantFrom int) string {
	if res != "pkt" {
		return res
	}
	switch {
	case pkt == -1:
		return "corrupt-pkt"
	case pkt != wantPkt:
		return "other-pkt"
	case from != wantFrom:
		return "pkt-wrong-addr"
	}
	return "pkt"
}

func vqReadCases(path string) ([][]byte, error) {
	f, err := os.Open(path)
	if err != nil {
		return nil, err
	}
	defer f.Close()
	var out [][]byte
	sc := bufio.NewScanner(f)
	sc.Buffer(make([]byte, 1<<20), 1<<28)
	for sc.Scan() {
		if b := sc.Bytes(); len(b) > 0 {
			out = append(out, append([]byte(nil), b...))
		}
	}
	return out, sc.Err()
}

func TestVerifQueue(t *testing.T) {
	in, outp, target := os.Getenv("VERIF_IN"), os.Getenv("VERIF_OUT"), os.Getenv("VERIF_TARGET")
	if in == "" || outp == "" {
		t.Skip("VERIF_IN/VERIF_OUT not set")
	}
	T, _ := strconv.Atoi(os.Getenv("VERIF_T"))
	seed, _ := strconv.ParseUint(os.Getenv("VERIF_SEED"), 10, 64)
	var ticks []time.Duration
	for _, f := range strings.Split(os.Getenv("VERIF_TICKS_NS"), ",") {
		if ns, err := strconv.ParseInt(strings.TrimSpace(f), 10, 64); err == nil && ns > 0 {
			ticks = append(ticks, time.Duration(ns))
		}
	}
	if len(ticks) == 0 || target != "inner" {
		ticks = []time.Duration{time.Second}
	}
	raw, err := vqReadCases(in)
	if err != nil {
		t.Fatal(err)
	}
	of, err := os.Create(outp)
	if err != nil {
		t.Fatal(err)
	}
	w := bufio.NewWriter(of)
	var mu sync.Mutex
	put := func(v interface{}) {
		b, _ := json.Marshal(v)
		mu.Lock()
		w.Write(b)
		w.WriteByte('\n')
		mu.Unlock()
	}
	var next, steps, nontrivial, runs int64
	var wg sync.WaitGroup
	for k := 0; k < runtime.NumCPU(); k++ {
		wg.Add(1)
		go func() {
			defer wg.Done()
			for {
				i := int(atomic.AddInt64(&next, 1)) - 1
				if i >= len(raw) {
					return
				}
				var c vqCase
				if err := json.Unmarshal(raw[i], &c); err != nil {
					put(vqResult{Idx: i, Sig: "harness/bad-case", Detail: err.Error()})
					continue
				}
				atomic.AddInt64(&steps, int64(len(c.Ops)))
				for _, op := range c.Ops {
					// non-trivial: something expires, is dropped, is refused or comes out of a queue
					if op.Res == "closed" || op.Res == "err" || op.Res == "pkt" || op.Res == "empty" {
						atomic.AddInt64(&nontrivial, 1)
						break
					}
				}
				func() {
					defer func() {
						if v := recover(); v != nil {
							put(vqResult{Idx: i, Sig: "queue/" + target + "/panic", Detail: fmt.Sprintf("%v\n%s", v, debug.Stack()), Case: json.RawMessage(raw[i])})
						}
					}()
					for _, tick := range ticks {
						atomic.AddInt64(&runs, 1)
						if sig, detail := vqRun(&c, target, T, seed, i, tick); sig != "" {
							put(vqResult{Idx: i, Sig: sig, Detail: fmt.Sprintf("[one tick = %v, timeout = %v] %s", tick, time.Duration(T)*tick, detail), Case: json.RawMessage(raw[i])})
							break
						}
					}
				}()
			}
		}()
	}
	wg.Wait()
	put(map[string]interface{}{"summary": map[string]interface{}{"cases": len(raw), "steps": steps, "nontrivial": nontrivial, "runs": runs, "scales": len(ticks)}})
	w.Flush()
	of.Close()
}

// ---------------------------------------------------------------------------
// The periodic sweeper of the real ClientMap, in real time: records a trace
// for spec/QueueConn/QueueConn_Trace.tla (which holds the bounds; nothing is
// judged here).  VERIF_SWEEP_MS is the timeout T.  Clients are touched on
// different schedules; each puts one packet into its queue at its first
// touch; after its last touch a watcher takes the packet and blocks on the
// queue until it is closed.  Times are microseconds since the test started.

func TestVerifSweeper(t *testing.T) {
	outp := os.Getenv("VERIF_OUT")
	if outp == "" {
		t.Skip("VERIF_OUT not set")
	}
	ms, _ := strconv.Atoi(os.Getenv("VERIF_SWEEP_MS"))
	if ms <= 0 {
		ms = 300
	}
	T := time.Duration(ms) * time.Millisecond
	t00 := time.Now()
	us := func(x time.Time) int64 { return int64(x.Sub(t00) / time.Microsecond) }
	var mu sync.Mutex
	type tev struct {
		at int64
		e  map[string]interface{}
	}
	var evs []tev
	logev := func(at int64, e map[string]interface{}) {
		mu.Lock()
		evs = append(evs, tev{at, e})
		mu.Unlock()
	}
	m := NewClientMap(T)
	type sched struct {
		touches int
		gap     time.Duration
		phase   time.Duration
	}
	var scheds []sched
	for i := 0; i < 6; i++ { // touched once, at staggered phases of the sweeper period
		scheds = append(scheds, sched{1, 0, time.Duration(i*ms/12) * time.Millisecond})
	}
	scheds = append(scheds, sched{9, T / 3, 0}, sched{6, T / 2, 0}, sched{4, T * 8 / 10, 0}, sched{20, T / 10, 0})
	var wg sync.WaitGroup
	for i, s := range scheds {
		wg.Add(1)
		go func(i int, s sched) {
			defer wg.Done()
			addr := ClientID{byte(i), 0x5a}
			time.Sleep(s.phase)
			var q chan []byte
			for k := 0; k < s.touches; k++ {
				if k > 0 {
					time.Sleep(s.gap)
				}
				t0 := time.Now()
				q2 := m.SendQueue(addr)
				t1 := time.Now()
				logev(us(t1), map[string]interface{}{"ev": "touch", "a": i, "t0": us(t0), "t1": us(t1), "same": k == 0 || q2 == q})
				if k == 0 {
					q2 <- []byte{byte(i), 1, 2, 3} // queued content that must be kept while the client is seen
				}
				q = q2
			}
			n := len(q)
			if n == 1 {
				if p := <-q; len(p) != 4 || p[0] != byte(i) {
					n = -1
				}
			}
			logev(us(time.Now()), map[string]interface{}{"ev": "kept", "a": i, "n": n})
			select {
			case _, ok := <-q:
				at := us(time.Now())
				if !ok {
					logev(at, map[string]interface{}{"ev": "closed", "a": i, "t": at})
				} else {
					logev(at, map[string]interface{}{"ev": "open", "a": i, "t": at})
				}
			case <-time.After(10 * T):
				at := us(time.Now())
				logev(at, map[string]interface{}{"ev": "open", "a": i, "t": at})
			}
		}(i, s)
	}
	wg.Wait()
	sort.SliceStable(evs, func(i, j int) bool { return evs[i].at < evs[j].at })
	of, err := os.Create(outp)
	if err != nil {
		t.Fatal(err)
	}
	for _, e := range evs {
		b, _ := json.Marshal(e.e)
		of.Write(b)
		of.Write([]byte("\n"))
	}
	of.Close()
}
